#!/bin/bash
# usage: wtcheck.sh <seeded-id> <Cxx> [more Cxx ...]  -- run checks against a scratch worktree of /repo
# carrying seeded/<id>/patch.diff (parallel-safe variant of mutcheck.sh); the worktree is removed afterwards
set -u
ID="$1"; shift
WT=/tmp/mut/recheck_$ID.$$
mkdir -p /tmp/mut
git -C /repo worktree add -q --detach "$WT" HEAD || exit 2
( cd "$WT" && git apply "/verif/seeded/$ID/patch.diff" ) || { git -C /repo worktree remove --force "$WT"; echo "$ID: patch does not apply"; exit 2; }
for p in "$@"; do
  o=$(cd /verif && VERIF_REPO=$WT timeout 1800 ./check "$p" 2>&1 | grep -E "VIOLATION|KNOWN|HARNESS|Traceback|quick seed" | head -4)
  echo "$ID $p: $o"
done
git -C /repo worktree remove --force "$WT"
