#!/bin/bash
# usage: mutcheck.sh <patch.diff> <Cxx> [more Cxx ...]   -- apply a seeded change to /repo, run the checks, undo it
set -u
patch="$1"; shift
cd /repo || exit 2
if ! git diff --quiet; then echo "repo dirty"; exit 2; fi
git apply "$patch" || { echo "patch does not apply"; exit 2; }
for p in "$@"; do
  (cd /verif && timeout 1800 ./check "$p" 2>&1 | grep -E "VIOLATION|KNOWN|HARNESS|Traceback|quick seed" | head -5; echo "exit=${PIPESTATUS[0]}")
done
git -C /repo checkout -- .
