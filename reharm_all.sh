#!/bin/bash
# re-run the quick check of every harmless rewrite (scratch worktrees, parallel) and list the ones that raise an alarm
cd /verif
ls harmless | sed 's/-h/ /' | xargs -P ${PAR:-12} -L 1 ./harmcheck.sh 2>&1 | grep -v conda > /tmp/mut/reharm_out.txt
python3 - <<'PY'
import re
txt = open('/tmp/mut/reharm_out.txt').read()
ids, bad, cur = [], set(), None
for line in txt.splitlines():
    m = re.match(r'^([CP]\d+-h\d) C\d\d:', line)
    if m:
        cur = m.group(1); ids.append(cur)
    if cur and ('VIOLATION' in line or 'HARNESS' in line or 'Traceback' in line):
        bad.add(cur)
    if cur and 'quick seed' not in line and m and line.strip().endswith(':'):
        bad.add(cur)      # no summary line: the check did not finish
print(len(set(ids)), "harmless rewrites re-run;", len(bad), "alarms:", sorted(bad))
PY
