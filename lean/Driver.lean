import PrefVerif.Driver.Util
import PrefVerif.Driver.C20
import PrefVerif.Driver.Voting
import PrefVerif.Driver.C02
import PrefVerif.Driver.C17
import PrefVerif.Driver.IO
import PrefVerif.Driver.Domains
import PrefVerif.Driver.C05
import PrefVerif.Driver.C19
import PrefVerif.Driver.ILP
import PrefVerif.Driver.ELO
import PrefVerif.Driver.KAlt
import PrefVerif.Driver.Euclid2
import PrefVerif.Driver.PQ
open Lean PrefVerif.Driver

def handlers : List (String × Handler) := [
  ("c20.pair", C20.pair),
  ("c20.matrix", C20.matrix),
  ("voting.tables", Voting.tables),
  ("voting.rule", Voting.rule),
  ("c02.run", C02.runOps),
  ("c17.from_ordinal", C17.fromOrd),
  ("c17.factorise", C17.fact),
  ("io.write", IO.write),
  ("io.parse", IO.parse),
  ("io.read", IO.read),
  ("io.tables", IO.tables),
  ("io.prim", IO.prim),
  ("c16.spec", IO.autocorrectSpec),
  ("dom.sp", Domains.sp),
  ("dom.sc", Domains.sc),
  ("dom.spt", Domains.spt),
  ("dom.c1p", Domains.c1p),
  ("dom.nearly", Domains.nearly),
  ("c05.profile", C05.profile),
  ("c05.matrix", C05.matrix),
  ("c19.check", C19.check),
  ("ilp.model", ILPD.model),
  ("elo.sp", ELO.elo),
  ("kalt.deletion", KAltD.deletion),
  ("kalt.partition", KAltD.partition),
  ("kalt.sets", KAltD.sets),
  ("euc.lp", Euclid2.lp),
  ("kalt.bf", KAltD.bruteForce),
  ("kalt.spc", KAltD.spc),
  ("pq.reorder", PQ.reorder),
  ("pq.solve", PQ.solve)
]

def dispatch (j : Json) : Json :=
  match j.getObjValAs? String "op" with
  | .error e => obj [("error", toJson e)]
  | .ok op =>
    match handlers.lookup op with
    | none => obj [("error", toJson s!"unknown op {op}")]
    | some h =>
      match h j with
      | .ok r => r
      | .error e => obj [("error", toJson e)]

partial def loop (h : IO.FS.Stream) (out : IO.FS.Stream) : IO Unit := do
  let line ← h.getLine
  if line.isEmpty then return ()
  match Json.parse line with
  | .error e => out.putStrLn (Json.compress (obj [("error", toJson e)]))
  | .ok j => out.putStrLn (Json.compress (dispatch j))
  loop h out

def main : IO Unit := do
  loop (← IO.getStdin) (← IO.getStdout)
