import PrefVerif.Model.Categorical
import PrefVerif.Spec.Categorical
import PrefVerif.Lemmas.C17Coarsen
import PrefVerif.Lemmas.C17AList
import PrefVerif.Lemmas.C17Assemble
/-!
# C17 — building categorical instances from ballots or rankings conserves voters

Property theorems only (helper lemmas live in `PrefVerif/Lemmas/C17*.lean`).
-/
namespace PrefVerif.C17
open PrefVerif PrefVerif.Categorical PrefVerif.Spec PrefVerif.Py

/-- the checker decides the declarative notion (orders with non-empty classes) -/
theorem isCoarsening_iff (o : List (List Nat)) (b : Ballot) (ho : ∀ c ∈ o, c ≠ []) :
    isCoarsening o b = true ↔ Coarsening o b := by
  constructor
  · exact isCoarsening_sound o b
  · rintro ⟨groups, h1, h2⟩
    subst h1 h2
    exact isCoarsening_complete groups ho

/-- absolute truncators: the ballot is a coarsening of the order (categories partition exactly the
ranked alternatives, in rank order, never splitting a class) following the documented size rule -/
theorem catBySize_rule (tps : List Nat) (o : List (List Nat)) (ho : ∀ c ∈ o, c ≠ []) (hne : o ≠ []) :
    ∃ groups : List (List (List Nat)), groups.flatten = o ∧ catBySize tps o = groups.map List.flatten ∧
      sizeRuleGroups tps groups = true := by
  have _ := ho; have _ := hne   -- the rule holds for every order; the hypotheses are not needed
  exact catBySize_rule_gen tps o

/-- class-count truncators: coarsening following the "next `n` classes" rule -/
theorem catByCount_rule (ns : List Nat) (o : List (List Nat)) :
    ∃ groups : List (List (List Nat)), groups.flatten = o ∧ catByCount ns o = groups.map List.flatten ∧
      countRuleGroups ns groups = true := by
  exact catByCount_rule_gen ns o

/-- hence every raw ballot, in each of the three modes, partitions the ranked alternatives -/
theorem rawBallots_coarsening (mode : Mode) (p : Profile) (hp : ∀ om ∈ p, om.1 ≠ [] ∧ ∀ c ∈ om.1, c ≠ [])
    (hrel : ∀ per, mode = .relative per → per.length = p.length) :
    (rawBallots mode p).length = p.length ∧
    ∀ x ∈ p.zip (rawBallots mode p), Coarsening x.1.1 x.2 ∧ x.2.flatten = x.1.1.flatten := by
  have _ := hp   -- not needed: every order is coarsened, well-formed or not
  refine ⟨rawBallots_length mode p hrel, ?_⟩
  intro x hx
  have key : Coarsening x.1.1 x.2 := by
    cases mode with
    | size tps =>
      have := mem_zip_map (fun om : Order × Nat => catBySize tps om.1) p x hx
      rw [this]; exact coarsening_of_size tps x.1.1
    | count ns =>
      have := mem_zip_map (fun om : Order × Nat => catByCount ns om.1) p x hx
      rw [this]; exact coarsening_of_count ns x.1.1
    | relative per =>
      obtain ⟨t, ht⟩ := mem_zip_map_zip
        (fun y : (Order × Nat) × List Nat => catBySize y.2 y.1.1) p per x hx
      rw [ht]; exact coarsening_of_size t x.1.1
  exact ⟨key, coarsening_flatten_eq key⟩

/-- padding keeps the coarsening and gives every ballot the common length `num_categories` -/
theorem padTo_coarsening (n : Nat) (o : List (List Nat)) (b : Ballot) (h : Coarsening o b) :
    Coarsening o (padTo n b) ∧ (b.length ≤ n → (padTo n b).length = n) := by
  exact ⟨padTo_coarsening_gen n o b h, padTo_length n b⟩

/-- the produced instance: common ballot length, no ballot listed twice, the multiplicity of a
ballot is the total multiplicity of the source orders mapped to it, and voters are conserved even
when different orders collapse to the same ballot -/
theorem fromOrdinal_conserves (mode : Mode) (p : Profile) (hne : p ≠ [])
    (hrel : ∀ per, mode = .relative per → per.length = p.length) :
    ∃ s, fromOrdinal mode p = some s ∧
      s.preferences.Nodup ∧
      (∀ b ∈ s.preferences, b.length = s.numCategories) ∧
      AList.keys s.multiplicity = s.preferences ∧
      (∀ b, (s.multiplicity.get? b).getD 0 =
        ((((rawBallots mode p).zip (p.map (fun om => om.2))).filter
          (fun (x : Ballot × Nat) => padTo s.numCategories x.1 == b)).map (fun (x : Ballot × Nat) => x.2)).sum) ∧
      s.numVoters = (p.map (·.2)).sum ∧
      s.numUniquePreferences = s.preferences.length ∧
      s.categoryKeys.length = s.numCategories := by
  have hlen := rawBallots_length mode p hrel
  have hpl : 0 < p.length := List.length_pos_iff.2 hne
  obtain ⟨l, ls, hl⟩ : ∃ l ls, (rawBallots mode p).map List.length = l :: ls := by
    cases hr : (rawBallots mode p).map List.length with
    | nil =>
      have := congrArg List.length hr
      rw [List.length_map, hlen, List.length_nil] at this; omega
    | cons l ls => exact ⟨l, ls, rfl⟩
  have hinv := Inv.foldl (k := ls.foldl max l) ((rawBallots mode p).zip (p.map (·.2))) (Inv.init _)
  simp only [List.nil_append] at hinv
  have hmax := le_foldl_max ls l
  refine ⟨_, fromOrdinal_eq mode p l ls hl, hinv.nodup, ?_, hinv.keys, hinv.get, ?_, ?_, ?_⟩
  · intro b hb
    obtain ⟨x, hx, hbx⟩ := hinv.src b hb
    have hx1 : x.1.length ∈ (rawBallots mode p).map List.length :=
      List.mem_map.2 ⟨x.1, (List.of_mem_zip (a := x.1) (b := x.2) hx).1, rfl⟩
    have hle : x.1.length ≤ ls.foldl max l := by
      rw [hl, List.mem_cons] at hx1
      rcases hx1 with h | h
      · rw [h]; exact hmax.1
      · exact hmax.2 _ h
    simpa [mkState, hbx] using padTo_length _ _ hle
  · have h2 : ((rawBallots mode p).zip (p.map (·.2))).map (·.2) = p.map (·.2) :=
      List.map_snd_zip (by simp [hlen])
    have := hinv.total
    rw [h2] at this
    exact this
  · simp only [mkState, eraseDups_of_nodup _ hinv.nodup]
  · simp [mkState]

/-- `factorise_instance` on a fresh (or reset) multiplicity table: duplicate-free ballot list with
the same support, multiplicities count the occurrences in the original list -/
theorem factorise_counts (prefs : List Ballot) (mult : AList Ballot Nat) (reset : Bool)
    (h : reset = true ∨ mult = []) :
    (factorise prefs mult reset).1 = prefs.eraseDups ∧
    (∀ b, ((factorise prefs mult reset).2.get? b).getD 0 = prefs.count b) := by
  have h0 : (if reset = true then ([] : AList Ballot Nat) else mult) = [] := by
    rcases h with h | h <;> simp [h]
  have hinv : FInv (prefs.foldl fstep ([], [])) ([] ++ prefs) :=
    FInv.foldl prefs ⟨rfl, rfl, fun _ => rfl⟩
  rw [factorise_eq, h0]
  simp only [List.nil_append] at hinv
  exact ⟨hinv.prefs, hinv.get⟩

/-- non-vacuity: two orders collapsing to one ballot -/
example : (fromOrdinal (.size [2]) [([[5], [4]], 1), ([[5, 4]], 1)]).map (fun s => (s.preferences, s.numVoters))
    = some ([[[5, 4]]], 2) := by decide

end PrefVerif.C17
