import PrefVerif.Props.C13
import PrefVerif.Lemmas.C13cCount
import PrefVerif.Lemmas.C13cLeaf
import PrefVerif.Lemmas.C13cStep
import PrefVerif.Lemmas.C13cLoop
/-!
# C13 — completeness of Trick's algorithm: a False answer is always right

Property theorems only (helper lemmas live in `PrefVerif/Lemmas/C13c*.lean`).
Together with `C13.isSPOnTree_sound` the verdict of the model of `is_single_peaked_on_tree` is
exact: it answers True iff the profile is single-peaked on some tree.

Proof (Trick 1989): the invariant "the profile restricted to the remaining alternatives `C` is
single-peaked on some tree on `C`" (`TreeSP`) holds initially and is preserved by each removal:
an alternative `a` ranked last among `C` by some voter is a leaf of that tree (the other
alternatives are that voter's top `|C| - 1`, hence connected, and a connected graph on `n` vertices
has at least `n - 1` edges — `conn_edge_count`), the neighbour of the leaf belongs to `B(a)`, and
the rest of the profile is single-peaked on the tree minus the leaf.
-/
namespace PrefVerif.C13c
open PrefVerif PrefVerif.SPTree PrefVerif.Spec PrefVerif.C13

/-- a declarative witness is a `Good` tree on all alternatives -/
theorem good_of_SPTOn {alts : List Nat} {orders : List (List Nat)} (h : Rankings alts orders)
    {t : List (Nat × Nat)} (ht : SPTOn alts orders t) : Good orders alts t := by
  obtain ⟨hlen, hed, hconn, hv⟩ := ht
  refine ⟨hlen, hed, (connected_iff_conn _ _).1 hconn, ?_⟩
  intro o ho k
  rw [restrict_self (fun x hx => ((h.2 o ho).2 x).1 hx), ← connected_iff_conn]
  exact hv o ho k

/-- one step (Trick's lemma): as long as the profile restricted to the remaining alternatives `C`
is single-peaked on some tree, `B(a)` is non-empty for every `a` ranked last among `C` by some
voter — the algorithm cannot answer False at `a` — and the profile restricted to `C \ {a}` is
again single-peaked on some tree -/
theorem getB_ne_nil_of_treeSP {orders : List (List Nat)} {C : List Nat} {a : Nat}
    (hO : ∀ o ∈ orders, o.Nodup) (hCo : ∀ o ∈ orders, ∀ x ∈ C, x ∈ o) (hC : C.Nodup)
    (h2 : 2 ≤ C.length) (hT : TreeSP orders C) {o : List Nat} (ho : o ∈ orders)
    (hlast : (restrict o C).getLast? = some a) :
    getB orders C a ≠ [] ∧ TreeSP orders (C.filter (· != a)) := by
  obtain ⟨E, hg⟩ := hT
  obtain ⟨haC, b, _, hba, hab, hcount⟩ := step_leaf hO hCo hC h2 hg ho hlast
  have hb : b ∈ getB orders C a :=
    step_getB hO hCo hC (List.ne_nil_of_mem ho) h2 hg haC hba (leaf_of_count hcount hab)
  exact ⟨List.ne_nil_of_mem hb, _, step_good hC hg haC hab hcount⟩

/-- completeness: if the profile is single-peaked on some tree, the model answers True -/
theorem isSPOnTree_complete (alts : List Nat) (orders : List (List Nat)) (h : Rankings alts orders)
    (hne : orders ≠ []) (h2 : 2 ≤ alts.length) (t : List (Nat × Nat))
    (ht : SPTOn alts orders t) : (isSPOnTree alts orders).isSome = true :=
  isSPOnTree_isSome_of_treeSP h.1 (fun o ho => (h.2 o ho).1)
    (fun o ho x hx => ((h.2 o ho).2 x).2 hx) hne h2 ⟨t, good_of_SPTOn h ht⟩

/-- the verdict is exact -/
theorem isSPOnTree_exact (alts : List Nat) (orders : List (List Nat)) (h : Rankings alts orders)
    (hne : orders ≠ []) (h2 : 2 ≤ alts.length) :
    (isSPOnTree alts orders).isSome = true ↔ ∃ t, SPTOn alts orders t := by
  constructor
  · intro hs
    obtain ⟨t, ht⟩ := Option.isSome_iff_exists.1 hs
    exact ⟨t, (sptWitness_iff alts orders t h).1 (isSPOnTree_sound alts orders h hne h2 t ht)⟩
  · rintro ⟨t, ht⟩
    exact isSPOnTree_complete alts orders h hne h2 t ht

/-- the same with the executable checker: a False answer means no edge list passes `sptWitness` -/
theorem isSPOnTree_none_iff (alts : List Nat) (orders : List (List Nat)) (h : Rankings alts orders)
    (hne : orders ≠ []) (h2 : 2 ≤ alts.length) :
    isSPOnTree alts orders = none ↔ ∀ t, sptWitness alts orders t = false := by
  have hex := isSPOnTree_exact alts orders h hne h2
  constructor
  · intro hn t
    apply Bool.eq_false_iff.2
    intro hw
    have := hex.2 ⟨t, (sptWitness_iff alts orders t h).1 hw⟩
    rw [hn] at this
    cases this
  · intro hall
    apply Option.eq_none_iff_forall_ne_some.2
    intro t ht
    have := isSPOnTree_sound alts orders h hne h2 t ht
    rw [hall t] at this
    cases this

/-- a True and a False instance (the Condorcet cycle), cross-checked against brute force -/
example : (isSPOnTree [1, 2, 3, 4] [[1, 2, 3, 4], [4, 3, 2, 1], [2, 3, 1, 4]]).isSome = true
    ∧ bruteSPT [1, 2, 3, 4] [[1, 2, 3, 4], [4, 3, 2, 1], [2, 3, 1, 4]] = true
    ∧ isSPOnTree [1, 2, 3] [[1, 2, 3], [2, 3, 1], [3, 1, 2]] = none
    ∧ bruteSPT [1, 2, 3] [[1, 2, 3], [2, 3, 1], [3, 1, 2]] = false := by
  decide

end PrefVerif.C13c
