import PrefVerif.Model.SingleWinner
import PrefVerif.Spec.Voting
import PrefVerif.Lemmas.C14Loop
/-!
# C14 — Bucklin and fallback winners follow the majority-threshold rule and terminate

Property theorems only (helper lemmas live in `PrefVerif/Lemmas/C14*.lean`).
Termination of the model is the well-foundedness of `levelLoop`'s recursion on
`num_alternatives - depth`; `depth_bound` states the bound the repaired code enforces.
-/
namespace PrefVerif.C14
open PrefVerif PrefVerif.SingleWinner PrefVerif.Spec PrefVerif.Py

def Truthful (i : Inst) : Prop := i.dataType = typeOf i.alts i.profile

-- `ht`/`hd` are part of the stated contract but not needed: the loop only reads class heads,
-- which are distinct for every well-formed order (strict or not)
set_option linter.unusedVariables false in
/-- after the level loop the score of every alternative is its per-voter top-`k` count at the
depth `k` the loop stopped at -/
theorem threshold_scores_are_topk (i : Inst) (hwf : wfInst i = true) (ht : Truthful i)
    (hd : i.dataType = "soc" ∨ i.dataType = "soi") (a : Nat) :
    (((thresholdScores i).1.get? a).getD 0) = (topCount (thresholdScores i).2 (votes i.profile) a : Int) := by
  have h := (wfInst_iff i).mp hwf
  exact (thresholdScores_spec h).1.2 a

set_option linter.unusedVariables false in
/-- the loop stops at the least depth reaching a strict majority, or at `num_alternatives` -/
theorem threshold_depth (i : Inst) (hwf : wfInst i = true) (ht : Truthful i)
    (hd : i.dataType = "soc" ∨ i.dataType = "soi") :
    (thresholdScores i).2 =
      (thresholdDepth i.alts (votes i.profile) i.numAlternatives).getD i.numAlternatives := by
  have h := (wfInst_iff i).mp hwf
  obtain ⟨_, h1, h2, h3, h4⟩ := thresholdScores_spec h
  rw [thresholdDepth_eq]
  exact (find?_depth _ _ _ h1 h2 h3 h4).symm

theorem depth_bound (i : Inst) : (thresholdScores i).2 ≤ max 1 i.numAlternatives := by
  rw [thresholdScores_eq]
  have := (levelLoop_bounds i.profile (((i.numVoters / 2 : Nat) : Int) + 1)
    (i.numAlternatives - 1) 1 (firstScores i.profile)).2
  omega

theorem fallback_correct (i : Inst) (hwf : wfInst i = true) (ht : Truthful i)
    (hd : i.dataType = "soc" ∨ i.dataType = "soi") :
    ∃ ws, fallbackWinner i = .ok ws ∧ ∀ a, a ∈ ws ↔ a ∈ thresholdWinners i.alts (votes i.profile) := by
  have h := (wfInst_iff i).mp hwf
  obtain ⟨ws, hws, hmem⟩ := argmaxKeys_thresholdScores h
  refine ⟨ws, ?_, ?_⟩
  · have hc : ["soc", "soi"].contains i.dataType = true := by
      rcases hd with hd | hd <;> rw [hd] <;> decide
    simp only [fallbackWinner, requiresType, hc, if_true, hws, ofOption]
  · intro a
    rw [hmem a, thresholdWinners_eq, ← threshold_depth i hwf ht hd]

theorem bucklin_correct (i : Inst) (hwf : wfInst i = true) (ht : Truthful i)
    (hd : i.dataType = "soc") :
    ∃ ws, bucklinWinner i = .ok ws ∧ ∀ a, a ∈ ws ↔ a ∈ thresholdWinners i.alts (votes i.profile) := by
  have h := (wfInst_iff i).mp hwf
  obtain ⟨ws, hws, hmem⟩ := argmaxKeys_thresholdScores h
  refine ⟨ws, ?_, ?_⟩
  · have hc : ["soc"].contains i.dataType = true := by rw [hd]; decide
    simp only [bucklinWinner, requiresType, hc, if_true, hws, ofOption]
  · intro a
    rw [hmem a, thresholdWinners_eq, ← threshold_depth i hwf ht (Or.inl hd)]

/-- on complete strict profiles some depth always reaches the quota (at depth m every voter
counts for every alternative), so Bucklin's answer is a genuine majority-depth answer -/
theorem bucklin_depth_exists (i : Inst) (hwf : wfInst i = true) (ht : Truthful i)
    (hd : i.dataType = "soc") :
    (thresholdDepth i.alts (votes i.profile) i.numAlternatives).isSome = true := by
  have h := (wfInst_iff i).mp hwf
  have hm := alts_length_pos h
  rw [thresholdDepth_eq, List.find?_isSome]
  refine ⟨i.alts.length, ?_, hitAt_full h (soc_of_truthful ht hd)⟩
  exact List.mem_map.mpr ⟨i.alts.length - 1, List.mem_range.mpr (by omega), by omega⟩

/-- non-vacuity: shared first choices and a first-round majority -/
example : wfInst { dataType := "soc", alts := [1, 2], profile := [([[1], [2]], 3), ([[2], [1]], 1)] } = true := by
  decide

end PrefVerif.C14
