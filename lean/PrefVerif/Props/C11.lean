import PrefVerif.Model.SinglePeakedAxis
import PrefVerif.Spec.Domains
import PrefVerif.Props.C05
import PrefVerif.Lemmas.C11Scan
import PrefVerif.Lemmas.C11Order
import PrefVerif.Lemmas.C11ConsOnes
/-!
# C11 — weak-order single-peakedness: the axis test and the consecutive-ones matrix match the definition

Property theorems only (helper lemmas live in `PrefVerif/Lemmas/C11*.lean`).
Profiles of complete weak orders: every order is a list of non-empty pairwise disjoint classes whose
union is the set of alternatives.
-/
namespace PrefVerif.C11
open PrefVerif PrefVerif.SinglePeakedAxis PrefVerif.Spec PrefVerif.C05

/-- complete weak order over `alts` -/
def CompleteOrder (alts : List Nat) (o : Order) : Prop :=
  (∀ c ∈ o, c ≠ []) ∧ o.flatten.Nodup ∧ ∀ a, a ∈ o.flatten ↔ a ∈ alts

/-- the (repaired) position scan accepts an axis exactly when, for every k, the union of the k best
indifference classes is contiguous on the axis -/
theorem orderOk_iff (alts : List Nat) (o : Order) (axis : List Nat) (ho : CompleteOrder alts o)
    (hax : axis.Perm alts) :
    orderOk o axis = true ↔ ∀ k, Contiguous axis (topClasses o k) := by
  have hsub : ∀ a ∈ axis, a ∈ o.flatten := fun a ha => (ho.2.2 a).2 (hax.subset ha)
  have hsup : ∀ a ∈ o.flatten, a ∈ axis := fun a ha => hax.symm.subset ((ho.2.2 a).1 ha)
  exact orderOk_iff_core o axis ho.1 hsub hsup

/-- `is_single_peaked_axis(instance, axis)` is True exactly when every voter passes, for soc/toc;
any other type is refused with `TypeError` -/
theorem isSinglePeakedAxis_iff (i : Inst) (axis : List Nat) (ht : i.dataType = "soc" ∨ i.dataType = "toc")
    (hn : i.alts.Nodup) (ho : ∀ om ∈ i.profile, CompleteOrder i.alts om.1) (hax : axis.Perm i.alts) :
    ∃ b, isSinglePeakedAxis i axis = .ok b ∧ (b = true ↔ SPOnAxis (i.profile.map (fun om => om.1)) axis) := by
  have _ := hn   -- not needed
  have hg : (["toc", "soc"].contains i.dataType) = true := by
    rcases ht with h | h <;> simp [h]
  refine ⟨i.profile.all (fun om => orderOk om.1 axis), by simp only [isSinglePeakedAxis, hg]; rfl, ?_⟩
  simp only [List.all_eq_true, SPOnAxis, List.mem_map]
  constructor
  · rintro h o ⟨om, hom, rfl⟩
    exact (orderOk_iff i.alts om.1 axis (ho om hom) hax).1 (h om hom)
  · intro h om hom
    exact (orderOk_iff i.alts om.1 axis (ho om hom) hax).2 (h om.1 ⟨om, hom, rfl⟩)

theorem isSinglePeakedAxis_guard (i : Inst) (axis : List Nat) (ht : i.dataType ≠ "soc" ∧ i.dataType ≠ "toc") :
    isSinglePeakedAxis i axis = .typeError := by
  have hg : (["toc", "soc"].contains i.dataType) = false := by
    simp [ht.1, ht.2]
  simp only [isSinglePeakedAxis, hg]; rfl

/-- executable spec = declarative spec -/
theorem spOnAxis_iff (orders : List Order) (axis : List Nat) :
    spOnAxis orders axis = true ↔ SPOnAxis orders axis := by
  exact spOnAxis_iff_core orders axis

theorem spWitness_iff (alts : List Nat) (hn : alts.Nodup) (orders : List Order) (axis : List Nat) :
    spWitness alts orders axis = true ↔ (axis.Perm alts ∧ SPOnAxis orders axis) := by
  simp only [spWitness, Bool.and_eq_true, isPermOf_iff axis alts hn, spOnAxis_iff]

theorem bruteSP_iff (alts : List Nat) (orders : List Order) : bruteSP alts orders = true ↔ SP alts orders := by
  simp only [bruteSP, SP, List.any_eq_true, mem_perms, spOnAxis_iff]

/-- the consecutive-ones matrix: its rows (as sets of column indices) are consecutive under a column
order iff the profile is single-peaked on the corresponding axis of alternatives -/
theorem consOnes_iff (alts : List Nat) (hn : alts.Nodup) (orders : List Order)
    (ho : ∀ o ∈ orders, CompleteOrder alts o) (ord : List Nat) (hp : ord.Perm (List.range alts.length)) :
    (∀ r ∈ consOnesRows alts orders, Contiguous ord r) ↔
      SPOnAxis orders (ord.map (fun i => alts.getD i 0)) := by
  exact consOnes_iff_core alts hn orders (fun o hoo a ha => ((ho o hoo).2.2 a).1 ha) ord hp

/-- hence: the matrix has the consecutive ones property iff some axis passes the test -/
theorem consOnes_C1P_iff_SP (alts : List Nat) (hn : alts.Nodup) (orders : List Order)
    (ho : ∀ o ∈ orders, CompleteOrder alts o) :
    C1P alts.length (consOnesRows alts orders) ↔ SP alts orders := by
  have hsub : ∀ o ∈ orders, ∀ a ∈ o.flatten, a ∈ alts := fun o hoo a ha => ((ho o hoo).2.2 a).1 ha
  constructor
  · rintro ⟨ord, hp, hr⟩
    exact ⟨ord.map (fun i => alts.getD i 0), relabel_perm alts ord hp,
      (consOnes_iff_core alts hn orders hsub ord hp).1 hr⟩
  · rintro ⟨axis, hp, hsp⟩
    obtain ⟨ord, hpo, rfl⟩ := exists_relabel alts axis hn hp
    exact ⟨ord, hpo, (consOnes_iff_core alts hn orders hsub ord hpo).2 hsp⟩

example : orderOk [[1, 3], [2]] [1, 2, 3] = false ∧ orderOk [[1, 3], [2]] [1, 3, 2] = true := by
  decide

end PrefVerif.C11
