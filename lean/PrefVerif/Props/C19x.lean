import PrefVerif.Props.C19
import PrefVerif.Props.C04Complete
import PrefVerif.Lemmas.C19xRat
import PrefVerif.Lemmas.C19xReal
import PrefVerif.Lemmas.C19xColour
import PrefVerif.Lemmas.C19xAxis
import PrefVerif.Lemmas.C19fixMirror
import PrefVerif.Lemmas.C19xMain
import PrefVerif.Lemmas.C19onMain
/-!
# C19x — where the model of `is_one_euclidean` is complete

`C19.lp_model_sound` / `nogrey_partial` say what a feasible point of the LP handed to the solver means.
This file states the converse: if the profile is 1-Euclidean (pairwise distinct orders, stored in ANY
order), the pre-check and the colouring stage succeed and the LP handed to the solver is feasible (so, with
a solver that finds a feasible point whenever there is one, the function answers True).  The function takes
the two extreme voters from the single-crossing arrangement found by the pre-check, which for a
1-Euclidean profile with distinct orders lists the voters from left to right or from right to left.
Property theorems only; helper lemmas live in `PrefVerif/Lemmas/C19x*.lean` and `PrefVerif/Lemmas/C19on*.lean`.
-/
namespace PrefVerif.C19x
open PrefVerif PrefVerif.Euclid

/-- the positions `voters` (one per stored order) and `x` (one per alternative) realise the profile -/
def Realised (alts : List Nat) (orders : List (List Nat)) (voters : List Rat) (x : Nat → Rat) : Prop :=
  Spec.Euclid.realises orders voters (alts.map (fun a => (a, x a))) = true

/-- completeness of everything up to the LP -/
theorem complete_partial (alts : List Nat) (orders : List (List Nat))
    (halts : alts.Pairwise (· < ·)) (hord : ∀ o ∈ orders, o.Perm alts) (hnd : orders.Nodup)
    (h2 : 2 ≤ orders.length) (voters : List Rat) (x : Nat → Rat)
    (hreal : Realised alts orders voters x) :
    ∃ l, lp alts orders = some l ∧ ∃ asg : Var → Rat, ∀ c ∈ l.constraints, satisfies asg c = true := by
  have halts' : alts.Nodup := halts.imp (fun h => Nat.ne_of_lt h)
  obtain ⟨l, hlp, hsorted⟩ := reach_lp alts orders halts' hord hnd h2 voters x hreal
  exact ⟨l, hlp, lpOn_feasible alts orders _ _ l halts' hord hlp voters x hreal hsorted⟩

/-- with no grey alternative this makes the model exact: the LP is reached and feasible, and every feasible
point is an embedding of the full profile -/
theorem nogrey_exact_partial (alts : List Nat) (orders : List (List Nat))
    (halts : alts.Pairwise (· < ·)) (hord : ∀ o ∈ orders, o.Perm alts) (hnd : orders.Nodup)
    (h2 : 2 ≤ orders.length) (hgrey : (stage alts orders).grey = [])
    (voters : List Rat) (x : Nat → Rat)
    (hreal : Realised alts orders voters x) :
    ∃ l, lp alts orders = some l ∧ l.axis.Perm alts ∧
      (∃ asg : Var → Rat, ∀ c ∈ l.constraints, satisfies asg c = true) ∧
      ∀ asg : Var → Rat, (∀ c ∈ l.constraints, satisfies asg c = true) →
        Spec.Euclid.realises orders (C19.voterPositions asg orders.length) (C19.altPositions asg l.axis) = true := by
  have halts' : alts.Nodup := halts.imp (fun h => Nat.ne_of_lt h)
  obtain ⟨l, hlp, asg, hsat⟩ := complete_partial alts orders halts hord hnd h2 voters x hreal
  refine ⟨l, hlp, (C19.nogrey_partial alts orders l asg halts' hord hlp hgrey hsat).1, ⟨asg, hsat⟩,
    fun asg' hsat' => (C19.nogrey_partial alts orders l asg' halts' hord hlp hgrey hsat').2⟩

/-! ### for ANY arrangement the pre-check may return

`is_single_crossing` may return any valid single-crossing arrangement of the distinct orders (e.g. the same
chain reversed); the correspondence check evaluates the model on the arrangement the implementation's own
pre-check returned (`lpOn alts orders true s`).  The results above hold for every such `s`. -/

/-- completeness of everything up to the LP, whatever arrangement `s` of the stored orders the pre-check
returned -/
theorem complete_on_partial (alts : List Nat) (orders s : List (List Nat))
    (halts : alts.Pairwise (· < ·)) (hord : ∀ o ∈ orders, o.Perm alts) (hnd : orders.Nodup)
    (h2 : 2 ≤ orders.length) (hs : s.Perm orders) (voters : List Rat) (x : Nat → Rat)
    (hreal : Realised alts orders voters x) :
    ∃ l, lpOn alts orders true s = some l ∧ ∃ asg : Var → Rat, ∀ c ∈ l.constraints, satisfies asg c = true := by
  have halts' : alts.Nodup := halts.imp (fun h => Nat.ne_of_lt h)
  obtain ⟨l, hlp, hsorted⟩ := reach_lpOn alts orders s halts' hord hnd h2 hs voters x hreal
  exact ⟨l, hlp, lpOn_feasible alts orders true s l halts' hord hlp voters x hreal hsorted⟩

/-- soundness without grey alternatives, whatever arrangement `s` of the stored orders the pre-check returned:
every feasible point of the LP is an embedding of the full profile -/
theorem nogrey_on_partial (alts : List Nat) (orders s : List (List Nat)) (l : LP) (asg : Var → Rat)
    (halts : alts.Nodup) (hord : ∀ o ∈ orders, o.Perm alts) (hs : s.Perm orders)
    (hlp : lpOn alts orders true s = some l) (hgrey : (stageOn alts true s).grey = [])
    (hsat : ∀ c ∈ l.constraints, satisfies asg c = true) :
    l.axis.Perm alts ∧
    Spec.Euclid.realises orders (C19.voterPositions asg orders.length) (C19.altPositions asg l.axis) = true := by
  have _ := hs  -- not needed: the LP stage never looks at the rest of the arrangement
  exact C19.lpOn_nogrey alts orders true s l asg halts hord hlp hgrey hsat

/-- the general meaning of a feasible point (grey alternatives or not), whatever arrangement was returned -/
theorem lp_model_sound_on (alts : List Nat) (orders s : List (List Nat)) (l : LP) (asg : Var → Rat)
    (halts : alts.Nodup) (hord : ∀ o ∈ orders, o.Perm alts) (hs : s.Perm orders)
    (hlp : lpOn alts orders true s = some l) (hsat : ∀ c ∈ l.constraints, satisfies asg c = true) :
    l.preferences = orders.map (fun o => o.filter (fun c => l.cplus.contains c)) ∧
    (∀ i j (_ : i < j) (hj : j < l.axis.length), asg (.alt l.axis[i]) + 1 ≤ asg (.alt l.axis[j])) ∧
    Spec.Euclid.realises l.preferences (C19.voterPositions asg orders.length) (C19.altPositions asg l.axis) = true := by
  have _ := hs  -- not needed: the LP stage never looks at the rest of the arrangement
  exact C19.lpOn_model_sound alts orders true s l asg halts hord hlp hsat

end PrefVerif.C19x
