import PrefVerif.Props.C19
import PrefVerif.Props.C04Complete
import PrefVerif.Lemmas.C19xRat
import PrefVerif.Lemmas.C19xReal
import PrefVerif.Lemmas.C19xColour
import PrefVerif.Lemmas.C19xAxis
import PrefVerif.Lemmas.C19fixMirror
import PrefVerif.Lemmas.C19xMain
/-!
# C19x — where the model of `is_one_euclidean` is complete

`C19.lp_model_sound` / `nogrey_partial` say what a feasible point of the LP handed to the solver means.
This file states the converse: if the profile is 1-Euclidean (pairwise distinct orders, stored in ANY
order), the pre-check and the colouring stage succeed and the LP handed to the solver is feasible (so, with
a solver that finds a feasible point whenever there is one, the function answers True).  The function takes
the two extreme voters from the single-crossing arrangement found by the pre-check, which for a
1-Euclidean profile with distinct orders lists the voters from left to right or from right to left.
Property theorems only; helper lemmas live in `PrefVerif/Lemmas/C19x*.lean`.
-/
namespace PrefVerif.C19x
open PrefVerif PrefVerif.Euclid

/-- the positions `voters` (one per stored order) and `x` (one per alternative) realise the profile -/
def Realised (alts : List Nat) (orders : List (List Nat)) (voters : List Rat) (x : Nat → Rat) : Prop :=
  Spec.Euclid.realises orders voters (alts.map (fun a => (a, x a))) = true

/-- completeness of everything up to the LP -/
theorem complete_partial (alts : List Nat) (orders : List (List Nat))
    (halts : alts.Pairwise (· < ·)) (hord : ∀ o ∈ orders, o.Perm alts) (hnd : orders.Nodup)
    (h2 : 2 ≤ orders.length) (voters : List Rat) (x : Nat → Rat)
    (hreal : Realised alts orders voters x) :
    ∃ l, lp alts orders = some l ∧ ∃ asg : Var → Rat, ∀ c ∈ l.constraints, satisfies asg c = true := by
  have halts' : alts.Nodup := halts.imp (fun h => Nat.ne_of_lt h)
  obtain ⟨l, hlp, hsorted⟩ := reach_lp alts orders halts' hord hnd h2 voters x hreal
  obtain ⟨hcs, hperm, wf⟩ := C19.lp_wellFormed alts orders l halts' hord hlp
  obtain ⟨g, v1, vn, _, hcp, _, hpr, _⟩ := C19.lp_eq_some alts orders l hlp
  have hsub : ∀ a ∈ l.cplus, a ∈ alts := by
    rw [hcp]; intro a ha; exact (List.mem_filter.1 ha).1
  rcases hsorted with hsorted | hsorted
  · -- the arrangement found by the pre-check runs from left to right: the embedding itself, scaled
    have hr := realises_restrict alts orders voters x l.cplus l.axis hsub hperm hreal
    rw [← hpr] at hr
    obtain ⟨lam0, _, h⟩ := C19.lp_complete l.preferences l.axis voters x wf
      (fun i j hij hj => List.pairwise_iff_getElem.1 hsorted i j (by omega) hj hij) hr
    exact ⟨l, hlp, C19.scaled lam0 voters x, by rw [hcs]; exact h lam0 Rat.le_refl⟩
  · -- it runs from right to left: the mirror image of the embedding, scaled
    have hr := realises_restrict alts orders (voters.map (fun v => -v)) (fun a => -x a) l.cplus l.axis hsub hperm
      (realises_mirror alts orders voters x hord hreal)
    rw [← hpr] at hr
    obtain ⟨lam0, _, h⟩ := C19.lp_complete l.preferences l.axis (voters.map (fun v => -v)) (fun a => -x a) wf
      (fun i j hij hj => List.pairwise_iff_getElem.1 hsorted i j (by omega) hj hij) hr
    exact ⟨l, hlp, C19.scaled lam0 (voters.map (fun v => -v)) (fun a => -x a), by rw [hcs]; exact h lam0 Rat.le_refl⟩

/-- with no grey alternative this makes the model exact: the LP is reached and feasible, and every feasible
point is an embedding of the full profile -/
theorem nogrey_exact_partial (alts : List Nat) (orders : List (List Nat))
    (halts : alts.Pairwise (· < ·)) (hord : ∀ o ∈ orders, o.Perm alts) (hnd : orders.Nodup)
    (h2 : 2 ≤ orders.length) (hgrey : (stage alts orders).grey = [])
    (voters : List Rat) (x : Nat → Rat)
    (hreal : Realised alts orders voters x) :
    ∃ l, lp alts orders = some l ∧ l.axis.Perm alts ∧
      (∃ asg : Var → Rat, ∀ c ∈ l.constraints, satisfies asg c = true) ∧
      ∀ asg : Var → Rat, (∀ c ∈ l.constraints, satisfies asg c = true) →
        Spec.Euclid.realises orders (C19.voterPositions asg orders.length) (C19.altPositions asg l.axis) = true := by
  have halts' : alts.Nodup := halts.imp (fun h => Nat.ne_of_lt h)
  obtain ⟨l, hlp, asg, hsat⟩ := complete_partial alts orders halts hord hnd h2 voters x hreal
  refine ⟨l, hlp, (C19.nogrey_partial alts orders l asg halts' hord hlp hgrey hsat).1, ⟨asg, hsat⟩,
    fun asg' hsat' => (C19.nogrey_partial alts orders l asg' halts' hord hlp hgrey hsat').2⟩

end PrefVerif.C19x
