import PrefVerif.Model.SPTree
import PrefVerif.Spec.Domains
import PrefVerif.Lemmas.C13Path
import PrefVerif.Lemmas.C13Reach
import PrefVerif.Lemmas.C13Lists
import PrefVerif.Lemmas.C13Loop
/-!
# C13 — single-peakedness on a tree: valid trees, verified checker

Property theorems only (helper lemmas live in `PrefVerif/Lemmas/C13*.lean`).
Profiles of strict complete orders: every order is a duplicate-free list of exactly the alternatives.
-/
namespace PrefVerif.C13
open PrefVerif PrefVerif.SPTree PrefVerif.Spec

def Rankings (alts : List Nat) (orders : List (List Nat)) : Prop :=
  alts.Nodup ∧ ∀ o ∈ orders, o.Nodup ∧ ∀ a, a ∈ o ↔ a ∈ alts

/-- `u` and `v` are joined by a path of `edges` (undirected) all of whose vertices lie in `S` -/
inductive PathIn (edges : List (Nat × Nat)) (S : List Nat) : Nat → Nat → Prop where
  | refl (u : Nat) (hu : u ∈ S) : PathIn edges S u u
  | step (u w v : Nat) (hu : u ∈ S) (he : (u, w) ∈ edges ∨ (w, u) ∈ edges) (hw : w ∈ S)
      (h : PathIn edges S w v) : PathIn edges S u v

/-- declarative connectivity of the subgraph induced by `S` -/
def Connected (edges : List (Nat × Nat)) (S : List Nat) : Prop := ∀ u ∈ S, ∀ v ∈ S, PathIn edges S u v

/-- bridge to the copies `Path` / `Conn` the helper lemmas are stated with -/
theorem pathIn_iff_path (edges : List (Nat × Nat)) (S : List Nat) (u v : Nat) :
    PathIn edges S u v ↔ Path edges S u v := by
  constructor
  · intro h
    induction h with
    | refl u hu => exact Path.refl u hu
    | step u w v hu he hw _ ih => exact Path.step u w v hu he hw ih
  · intro h
    induction h with
    | refl u hu => exact PathIn.refl u hu
    | step u w v hu he hw _ ih => exact PathIn.step u w v hu he hw ih

theorem connected_iff_conn (edges : List (Nat × Nat)) (S : List Nat) :
    Connected edges S ↔ Conn edges S := by
  unfold Connected Conn
  simp only [pathIn_iff_path]

/-- the executable connectivity test decides it, for arbitrary `S` (repeats allowed) -/
theorem connectedIn_iff' (edges : List (Nat × Nat)) (S : List Nat) :
    connectedIn edges S = true ↔ Connected edges S := by
  rw [connected_iff_conn]
  exact connectedIn_iff_conn edges S

/-- the executable connectivity test decides it (statement as specified; the distinctness
hypothesis turns out not to be needed, see `connectedIn_iff'`) -/
theorem connectedIn_iff (edges : List (Nat × Nat)) (S : List Nat) (hS : S.Nodup) :
    connectedIn edges S = true ↔ Connected edges S :=
  have _ := hS
  connectedIn_iff' edges S

/-- declarative form of a valid answer: a spanning tree of the alternatives on which every voter's k
most preferred alternatives are connected, for every k -/
def SPTOn (alts : List Nat) (orders : List (List Nat)) (edges : List (Nat × Nat)) : Prop :=
  edges.length + 1 = alts.length ∧
  (∀ e ∈ edges, e.1 ≠ e.2 ∧ e.1 ∈ alts ∧ e.2 ∈ alts) ∧ Connected edges alts ∧
  ∀ o ∈ orders, ∀ k, Connected edges (o.take k)

theorem sptWitness_iff (alts : List Nat) (orders : List (List Nat)) (edges : List (Nat × Nat))
    (h : Rankings alts orders) :
    sptWitness alts orders edges = true ↔ SPTOn alts orders edges := by
  have hcI : ∀ S, connectedIn edges S = true ↔ Connected edges S := connectedIn_iff' edges
  unfold sptWitness isSpanningTree SPTOn
  simp only [Bool.and_eq_true, decide_eq_true_eq, beq_iff_eq, List.all_eq_true, bne_iff_ne, ne_eq,
    List.contains_iff_mem, List.mem_range, hcI]
  constructor
  · rintro ⟨⟨_, ⟨hlen, hed⟩, hconn⟩, hv⟩
    refine ⟨hlen, fun e he => ⟨(hed e he).1.1, (hed e he).1.2, (hed e he).2⟩, hconn, ?_⟩
    intro o ho k
    by_cases hk : k < o.length + 1
    · exact hv o ho k hk
    · have : o.take k = o.take o.length := by
        rw [List.take_of_length_le (by omega), List.take_of_length_le (Nat.le_refl _)]
      rw [this]
      exact hv o ho o.length (by omega)
  · rintro ⟨hlen, hed, hconn, hv⟩
    exact ⟨⟨h.1, ⟨hlen, fun e he => ⟨⟨(hed e he).1, (hed e he).2.1⟩, (hed e he).2.2⟩⟩, hconn⟩,
      fun o ho k _ => hv o ho k⟩

/-- soundness: a True answer always comes with a tree on which the profile is single-peaked
(each removed alternative `a` is attached to some `b ∈ B(a)`, which every voter ranks above `a`, or
second when `a` is on top) -/
theorem isSPOnTree_sound (alts : List Nat) (orders : List (List Nat)) (h : Rankings alts orders)
    (hne : orders ≠ []) (h2 : 2 ≤ alts.length) (t : List (Nat × Nat))
    (hr : isSPOnTree alts orders = some t) :
    sptWitness alts orders t = true := by
  have hg := isSPOnTree_good h.1 (fun o ho => (h.2 o ho).1) (fun o ho x hx => ((h.2 o ho).2 x).2 hx)
    hne h2 hr
  rw [sptWitness_iff alts orders t h]
  refine ⟨hg.len, hg.edges, (connected_iff_conn _ _).2 hg.conn, ?_⟩
  intro o ho k
  rw [connected_iff_conn]
  have := hg.votes o ho k
  rwa [restrict_self (fun x hx => ((h.2 o ho).2 x).1 hx)] at this

/-- structure of the answer of the model of `is_single_peaked_on_tree`: whenever it answers True
with at least two alternatives, the edge list has `m - 1` edges, each joining two distinct
alternatives, and it is connected — i.e. it is a spanning tree of the alternatives -/
theorem isSPOnTree_spanning (alts : List Nat) (orders : List (List Nat)) (h : Rankings alts orders)
    (hne : orders ≠ []) (h2 : 2 ≤ alts.length) (t : List (Nat × Nat))
    (hr : isSPOnTree alts orders = some t) :
    isSpanningTree alts t = true := by
  have hs := isSPOnTree_sound alts orders h hne h2 t hr
  unfold sptWitness at hs
  simp only [Bool.and_eq_true] at hs
  exact hs.1.2

example : isSPOnTree [1, 2, 3, 4] [[1, 2, 3, 4], [3, 2, 1, 4], [4, 2, 1, 3]] = some [(2, 4), (2, 3), (1, 2)]
    ∧ sptWitness [1, 2, 3, 4] [[1, 2, 3, 4], [3, 2, 1, 4], [4, 2, 1, 3]] [(2, 4), (2, 3), (1, 2)] = true := by
  decide

end PrefVerif.C13
