import PrefVerif.Props.C03
import PrefVerif.Lemmas.C03cStep
/-!
# C03 (completeness) — a `False` answer of `is_single_peaked` is always right

Property theorems only (helper lemmas live in `PrefVerif/Lemmas/C03c*.lean`).  As in `Props/C03.lean`
all statements are about non-empty profiles of rankings of the same duplicate-free list of
alternatives.

The proof carries an existential invariant through the `while` loop: *if* the profile is
single-peaked *then* some single-peaked axis has the form
`to_append_left ++ left_axis ++ M ++ right_axis` (`M` an arrangement of the unplaced candidates).
Every continuing iteration preserves it (when no voter forces a side, every voter ranks `M` above
everything placed, so `M` may be reflected), and each of the four ways of answering `False`
contradicts it:

1. `threeLast` (in any round): a last-ranked candidate of a voter is at an end of `M`, and `M` has two ends;
2. Case 2(d) with a failing axis test: the voter found forces the whole order of `M`, so the axis
   that was tested *is* the single-peaked axis — the test cannot fail;
3. `contra` with one last candidate: one voter forces it next to `x_i`, another next to `x_j`;
4. `contra` with two last candidates: two voters force opposite placements of the pair.
-/
namespace PrefVerif.C03c
open PrefVerif PrefVerif.ELO PrefVerif.Spec PrefVerif.SinglePeakedAxis PrefVerif.C03

/-- a single-peaked profile satisfies the completeness invariant initially -/
theorem cinv_init {alts : List Nat} {orders : List (List Nat)} (hr : Rankings alts orders)
    (hne : orders ≠ []) (hsp : SP alts (orders.map wrap)) : CInv alts orders (init orders) := by
  obtain ⟨axis, hax, hspa⟩ := hsp
  refine ⟨sinv_init hr hne, fun p hp => ⟨p, hp, List.Sublist.refl p⟩, axis, ?_, ?_⟩
  · simpa [init] using hax
  · have := (valid_iff_SPOnAxis hr hax).1 hspa
    simpa [init] using this

/-- whatever way the run of a single-peaked profile ends, the answer is `True` -/
theorem run_complete {alts : List Nat} {orders : List (List Nat)} (hr : Rankings alts orders)
    (hne : orders ≠ []) (hsp : SP alts (orders.map wrap)) {e : Exit} (h : run orders = some e) :
    e.result.1 = true :=
  loop_complete hr _ _ e (cinv_init hr hne hsp) h

/-- (1) `threeLast`: the run stops because, in some round, at least three distinct candidates are
ranked last among the remaining ones — the profile is not single-peaked -/
theorem three_last_exit_not_sp {alts : List Nat} {orders : List (List Nat)} (hr : Rankings alts orders)
    (hne : orders ≠ []) (h : run orders = some .threeLast) : ¬ SP alts (orders.map wrap) := by
  intro hsp
  have := run_complete hr hne hsp h
  simp [Exit.result] at this

/-- (2) Case 2(d) with a failing axis test: no other axis could have passed — the profile is not
single-peaked -/
theorem case2d_fail_not_sp {alts : List Nat} {orders : List (List Nat)} (hr : Rankings alts orders)
    (hne : orders ≠ []) {axis : List Nat} (h : run orders = some (.case2d axis false)) :
    ¬ SP alts (orders.map wrap) := by
  intro hsp
  have := run_complete hr hne hsp h
  simp [Exit.result] at this

/-- (3), (4) a `contradiction` break (one or two last candidates): the profile is not single-peaked -/
theorem contra_not_sp {alts : List Nat} {orders : List (List Nat)} (hr : Rankings alts orders)
    (hne : orders ≠ []) (h : run orders = some .contra) : ¬ SP alts (orders.map wrap) := by
  intro hsp
  have := run_complete hr hne hsp h
  simp [Exit.result] at this

/-- soundness of `False`: the function answers `(False, None)` only for profiles that are
single-peaked on no axis -/
theorem false_sound (alts : List Nat) (orders : List (List Nat)) (hr : Rankings alts orders)
    (hne : orders ≠ []) (h : isSinglePeaked orders = some (false, [])) :
    ¬ SP alts (orders.map wrap) := by
  intro hsp
  unfold isSinglePeaked at h
  cases hrun : run orders with
  | none => rw [hrun] at h; simp at h
  | some e =>
    rw [hrun] at h
    simp only [Option.map_some, Option.some.injEq] at h
    have := run_complete hr hne hsp hrun
    rw [h] at this
    simp at this

/-- the verdict is exact: the function answers `True` (with some axis) exactly for the single-peaked
profiles -/
theorem exact (alts : List Nat) (orders : List (List Nat)) (hr : Rankings alts orders)
    (hne : orders ≠ []) :
    (∃ axis, isSinglePeaked orders = some (true, axis)) ↔ SP alts (orders.map wrap) := by
  constructor
  · rintro ⟨axis, h⟩
    exact (true_imp_SP hr hne h).1
  · intro hsp
    obtain ⟨r, hres⟩ := never_raises hr hne
    unfold isSinglePeaked at hres
    cases hrun : run orders with
    | none => rw [hrun] at hres; simp at hres
    | some e =>
      have h1 := run_complete hr hne hsp hrun
      refine ⟨e.result.2, ?_⟩
      simp only [isSinglePeaked, hrun, Option.map_some, Option.some.injEq]
      rw [← h1]

/-- the same as a decision procedure: the Boolean returned is the truth value of single-peakedness -/
theorem verdict_iff (alts : List Nat) (orders : List (List Nat)) (hr : Rankings alts orders)
    (hne : orders ≠ []) :
    ∃ b axis, isSinglePeaked orders = some (b, axis) ∧ (b = true ↔ SP alts (orders.map wrap)) ∧
      (b = true → axis.Perm alts ∧ SPOnAxis (orders.map wrap) axis) ∧ (b = false → axis = []) := by
  obtain ⟨r, hres⟩ := never_raises hr hne
  obtain ⟨b, axis⟩ := r
  refine ⟨b, axis, hres, ?_, ?_, ?_⟩
  · constructor
    · intro hb; subst hb; exact (true_imp_SP hr hne hres).1
    · intro hsp
      obtain ⟨ax', h'⟩ := (exact alts orders hr hne).2 hsp
      rw [hres] at h'
      simp only [Option.some.injEq, Prod.mk.injEq] at h'
      exact h'.1
  · intro hb; subst hb
    exact ⟨axis_perm hr hne hres, true_sound hr hne hres⟩
  · intro hb; subst hb
    unfold isSinglePeaked at hres
    cases hrun : run orders with
    | none => rw [hrun] at hres; simp at hres
    | some e =>
      rw [hrun] at hres
      simp only [Option.map_some, Option.some.injEq] at hres
      cases e with
      | threeLast => simp [Exit.result] at hres; exact hres
      | contra => simp [Exit.result] at hres; exact hres
      | case2d ax ok =>
        cases ok with
        | false => simp [Exit.result] at hres; exact hres
        | true => simp [Exit.result] at hres
      | finished ax => simp [Exit.result] at hres

/-- agreement with the brute-force specification -/
theorem verdict_eq_bruteSP (alts : List Nat) (orders : List (List Nat)) (hr : Rankings alts orders)
    (hne : orders ≠ []) :
    (isSinglePeaked orders).map (·.1) = some (bruteSP alts (orders.map wrap)) := by
  obtain ⟨b, axis, hres, hiff, _, _⟩ := verdict_iff alts orders hr hne
  rw [hres]
  simp only [Option.map_some, Option.some.injEq]
  cases hb : bruteSP alts (orders.map wrap) with
  | true => exact hiff.2 ((C11.bruteSP_iff _ _).1 hb)
  | false =>
    cases b with
    | false => rfl
    | true =>
      have := (C11.bruteSP_iff _ _).2 (hiff.1 rfl)
      rw [hb] at this; simp at this

example : isSinglePeaked [[1, 2, 3], [3, 1, 2], [2, 3, 1]] = some (false, []) ∧
    ¬ SP [1, 2, 3] ([[1, 2, 3], [3, 1, 2], [2, 3, 1]].map wrap) := by
  refine ⟨by decide, false_sound [1, 2, 3] _ ?_ (by simp) (by decide)⟩
  refine ⟨by decide, ?_⟩
  intro o ho
  simp only [List.mem_cons, List.not_mem_nil, or_false] at ho
  rcases ho with rfl | rfl | rfl <;> refine ⟨by decide, fun a => ?_⟩ <;> simp <;> omega

end PrefVerif.C03c
