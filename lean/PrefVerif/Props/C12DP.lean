import PrefVerif.Lemmas.C12DPInvSP
import PrefVerif.Lemmas.C12DPSpec
/-!
C12 (dynamic programme): structural theorems about the model of `longest_single_peaked_axis` /
`k_alternative_deletion` and `k_alt_partition_approx` (`PrefVerif.KAlt`).
-/
namespace PrefVerif.C12DP
open PrefVerif.KAlt

/-- the state after the `for i in range(1, m + 1)` loop -/
def finalState (orders : List (List Nat)) (alts : List Nat) : St :=
  mainLoop orders (getLSets alts orders) st0 alts

/-- `longest` after `if len(locked_axis) > len(longest): longest = locked_axis` -/
def finalLongest (orders : List (List Nat)) (alts : List Nat) : Axis :=
  let st := finalState orders alts
  if st.locked.length > st.longest.length then st.locked else st.longest

theorem axis_eq (orders : List (List Nat)) (alts : List Nat) :
    (longestSinglePeakedAxis orders alts).1 = members (finalLongest orders alts) := by
  rw [← members_erase_none]; rfl

theorem removed_eq (orders : List (List Nat)) (alts : List Nat) :
    (longestSinglePeakedAxis orders alts).2 =
      alts.filter (fun i => !(longestSinglePeakedAxis orders alts).1.contains i) := rfl

theorem finalState_inv (orders : List (List Nat)) (alts : List Nat) :
    Inv orders alts false (finalState orders alts) :=
  mainLoop_inv orders alts false _ alts st0 (getLSets_sub alts orders) (st0_inv orders alts)

theorem finalLongest_good (orders : List (List Nat)) (alts : List Nat) : Good alts (finalLongest orders alts) := by
  unfold finalLongest
  dsimp only
  split
  · exact (finalState_inv orders alts).locked
  · exact (finalState_inv orders alts).longest

/-- (a) the returned axis has no repeated alternative (no hypothesis on the profile is needed) -/
theorem axis_nodup (orders : List (List Nat)) (alts : List Nat) :
    (longestSinglePeakedAxis orders alts).1.Nodup := by
  rw [axis_eq]; exact (finalLongest_good orders alts).1

/-- (a) every alternative of the returned axis is one of `alternatives` -/
theorem axis_subset (orders : List (List Nat)) (alts : List Nat) :
    ∀ a ∈ (longestSinglePeakedAxis orders alts).1, a ∈ alts := by
  rw [axis_eq]; exact (finalLongest_good orders alts).2

theorem perm_append_filter_not (l alts : List Nat) (hl : l.Nodup) (hsub : ∀ a ∈ l, a ∈ alts) (ha : alts.Nodup) :
    (l ++ alts.filter (fun i => !l.contains i)).Perm alts := by
  have h1 := List.filter_append_perm (fun i => l.contains i) alts
  refine (List.Perm.append_right _ ?_).trans h1
  rw [List.perm_ext_iff_of_nodup hl (ha.sublist List.filter_sublist)]
  intro a
  simp only [List.mem_filter, List.contains_eq_mem, decide_eq_true_eq]
  exact ⟨fun h => ⟨hsub a h, h⟩, fun h => h.2⟩

/-- (a) `removed` is exactly the complement of the axis in `alternatives` -/
theorem axis_removed_perm (orders : List (List Nat)) (alts : List Nat) (ha : alts.Nodup) :
    ((longestSinglePeakedAxis orders alts).1 ++ (longestSinglePeakedAxis orders alts).2).Perm alts := by
  rw [removed_eq]
  exact perm_append_filter_not _ alts (axis_nodup orders alts) (axis_subset orders alts) ha

theorem removed_nodup (orders : List (List Nat)) (alts : List Nat) (ha : alts.Nodup) :
    (longestSinglePeakedAxis orders alts).2.Nodup := by
  rw [removed_eq]; exact ha.sublist List.filter_sublist

theorem removed_subset (orders : List (List Nat)) (alts : List Nat) :
    ∀ a ∈ (longestSinglePeakedAxis orders alts).2, a ∈ alts := by
  rw [removed_eq]; intro a h; exact (List.mem_filter.1 h).1

theorem removed_disjoint (orders : List (List Nat)) (alts : List Nat) :
    ∀ a ∈ (longestSinglePeakedAxis orders alts).2, a ∉ (longestSinglePeakedAxis orders alts).1 := by
  rw [removed_eq]; intro a h; simpa using (List.mem_filter.1 h).2

/-- (b) progress: for a non-empty profile whose orders rank all the alternatives, a non-empty set of
alternatives yields a non-empty axis -/
theorem axis_ne_nil (orders : List (List Nat)) (alts : List Nat) (halts : alts ≠ []) (hord : orders ≠ [])
    (hcomp : ∀ o ∈ orders, ∀ a ∈ alts, a ∈ o) : (longestSinglePeakedAxis orders alts).1 ≠ [] := by
  rw [axis_eq]
  obtain ⟨L1, rest, hL, hne⟩ := getLSets_head alts orders halts hord hcomp
  have hs : SetsSub alts (L1 :: rest) := hL ▸ getLSets_sub alts orders
  have hfin : Inv orders alts true (finalState orders alts) := by
    unfold finalState
    rw [hL]
    unfold mainLoop
    apply mainLoop_inv
    · intro s hs'; exact hs s (by simp [hs'])
    · exact firstRound_prog orders alts L1 rest hs hne hord hcomp
  unfold finalLongest
  dsimp only
  have hp : members (finalState orders alts).longest ≠ [] := hfin.prog rfl
  split
  · rename_i hlt
    rcases hfin.lockedNE with h | h
    · exfalso
      rw [h] at hlt
      apply hp
      have : (finalState orders alts).longest = [] := by
        apply List.eq_nil_of_length_eq_zero
        have h0 : (finalState orders alts).longest.length < 1 := hlt
        omega
      rw [this]; rfl
    · exact h
  · exact hp

/-- (b) the `while` loop of `k_alt_partition_approx` -/
theorem partitionLoop_spec (orders : List (List Nat)) (hord : orders ≠ []) (fuel : Nat) (alts : List Nat)
    (ha : alts.Nodup) (hfuel : alts.length ≤ fuel) (hcomp : ∀ o ∈ orders, ∀ a ∈ alts, a ∈ o) :
    (partitionLoop orders fuel alts).flatten.Perm alts ∧
      ∀ ax ∈ partitionLoop orders fuel alts, ax ≠ [] ∧ ax.Nodup := by
  induction fuel generalizing alts with
  | zero =>
    have : alts = [] := List.eq_nil_of_length_eq_zero (by omega)
    subst this
    simp [partitionLoop]
  | succ fuel ih =>
    unfold partitionLoop
    split
    · rename_i hpos
      have halts : alts ≠ [] := by intro e; simp [e] at hpos
      dsimp only
      have hperm := axis_removed_perm orders alts ha
      have hne := axis_ne_nil orders alts halts hord hcomp
      have hlen := hperm.length_eq
      rw [List.length_append] at hlen
      have hpos1 : (longestSinglePeakedAxis orders alts).1.length > 0 := List.length_pos_iff.2 hne
      obtain ⟨ih1, ih2⟩ := ih (longestSinglePeakedAxis orders alts).2 (removed_nodup orders alts ha) (by omega)
        (fun o ho a ha' => hcomp o ho a (removed_subset orders alts a ha'))
      constructor
      · rw [List.flatten_cons]
        exact (List.Perm.append_left _ ih1).trans hperm
      · intro ax hax
        simp only [List.mem_cons] at hax
        rcases hax with rfl | hax
        · exact ⟨hne, axis_nodup orders alts⟩
        · exact ih2 ax hax
    · rename_i hpos
      have : alts = [] := List.eq_nil_of_length_eq_zero (by omega)
      subst this
      simp

/-- (b) `k_alt_partition_approx` terminates within the stated fuel and its axes partition the alternatives -/
theorem partition_perm (alts : List Nat) (orders : List (List Nat)) (ha : alts.Nodup) (hord : orders ≠ [])
    (hcomp : ∀ o ∈ orders, ∀ a ∈ alts, a ∈ o) : (kAltPartitionApprox alts orders).flatten.Perm alts :=
  (partitionLoop_spec orders hord alts.length alts ha (Nat.le_refl _) hcomp).1

/-- (b) no axis of the partition is empty, and none repeats an alternative -/
theorem partition_axes (alts : List Nat) (orders : List (List Nat)) (ha : alts.Nodup) (hord : orders ≠ [])
    (hcomp : ∀ o ∈ orders, ∀ a ∈ alts, a ∈ o) :
    ∀ ax ∈ kAltPartitionApprox alts orders, ax ≠ [] ∧ ax.Nodup :=
  (partitionLoop_spec orders hord alts.length alts ha (Nat.le_refl _) hcomp).2

/-- the axes are pairwise disjoint -/
theorem partition_flatten_nodup (alts : List Nat) (orders : List (List Nat)) (ha : alts.Nodup) (hord : orders ≠ [])
    (hcomp : ∀ o ∈ orders, ∀ a ∈ alts, a ∈ o) : (kAltPartitionApprox alts orders).flatten.Nodup :=
  (partition_perm alts orders ha hord hcomp).nodup_iff.2 ha

/-- more fuel does not change the result: the loop has stopped because `alternatives` became empty -/
theorem partitionLoop_fuel (orders : List (List Nat)) (hord : orders ≠ []) (fuel : Nat) (alts : List Nat)
    (ha : alts.Nodup) (hfuel : alts.length ≤ fuel) (hcomp : ∀ o ∈ orders, ∀ a ∈ alts, a ∈ o) :
    partitionLoop orders (fuel + 1) alts = partitionLoop orders fuel alts := by
  induction fuel generalizing alts with
  | zero =>
    have : alts = [] := List.eq_nil_of_length_eq_zero (by omega)
    subst this
    simp [partitionLoop]
  | succ fuel ih =>
    rw [partitionLoop]
    conv => rhs; rw [partitionLoop]
    split
    · rename_i hpos
      have halts : alts ≠ [] := by intro e; simp [e] at hpos
      dsimp only
      have hlen := (axis_removed_perm orders alts ha).length_eq
      rw [List.length_append] at hlen
      have hpos1 : (longestSinglePeakedAxis orders alts).1.length > 0 :=
        List.length_pos_iff.2 (axis_ne_nil orders alts halts hord hcomp)
      rw [ih _ (removed_nodup orders alts ha) (by omega)
        (fun o ho a ha' => hcomp o ho a (removed_subset orders alts a ha'))]
    · rfl

/-! ### (c) single-peakedness of the returned axes -/

open PrefVerif.Spec PrefVerif.Spec.Nearly

theorem finalLongest_sp (orders : List (List Nat)) (alts : List Nat) : AxSP orders (finalLongest orders alts) := by
  have h := mainLoop_sp orders (getLSets alts orders) alts st0 (st0_sp orders)
  unfold finalLongest
  dsimp only
  split
  · exact h.locked
  · exact h.longest

/-- (c) no order ranks an alternative of the returned axis below both its neighbours on the axis
(no hypothesis needed) -/
theorem axis_lmf (orders : List (List Nat)) (alts : List Nat) :
    ∀ v ∈ orders, LMF v.idxOf (longestSinglePeakedAxis orders alts).1 := by
  obtain ⟨Fr, S, hsh, h⟩ := finalLongest_sp orders alts
  rw [axis_eq, hsh.members]
  exact h

/-- (c) the profile restricted to the returned axis is single-peaked on it (`weak` turns a strict order into
an order with singleton classes) -/
theorem axis_spOnSubset (orders : List (List Nat)) (alts : List Nat) (hcomp : ∀ o ∈ orders, ∀ a ∈ alts, a ∈ o) :
    spOnSubset (orders.map weak) (longestSinglePeakedAxis orders alts).1
      (longestSinglePeakedAxis orders alts).1 = true :=
  lmf_spOnSubset orders _ (axis_nodup orders alts)
    (fun v hv a ha => hcomp v hv a (axis_subset orders alts a ha)) (axis_lmf orders alts)

theorem restrictOrder_congr (keep keep' : List Nat) (h : ∀ a, a ∈ keep ↔ a ∈ keep') (o : Order) :
    restrictOrder keep o = restrictOrder keep' o := by
  unfold restrictOrder
  have : (fun a => keep.contains a) = (fun a => keep'.contains a) := by
    funext a
    have := h a
    by_cases h1 : a ∈ keep
    · simp [h1, this.1 h1]
    · have h2 : a ∉ keep' := fun h2 => h1 (this.2 h2)
      simp [h1, h2]
  rw [this]

/-- (c) the answer of `k_alternative_deletion` passes the certificate checker of the specification -/
theorem deletion_cert (orders : List (List Nat)) (alts : List Nat) (ha : alts.Nodup)
    (hcomp : ∀ o ∈ orders, ∀ a ∈ alts, a ∈ o) :
    altDeletionCert alts (orders.map weak) (kAlternativeDeletion alts orders).1
      (kAlternativeDeletion alts orders).2 = true := by
  unfold kAlternativeDeletion altDeletionCert
  have hsp := axis_spOnSubset orders alts hcomp
  have hmem : ∀ a, a ∈ alts.filter (fun a => !(longestSinglePeakedAxis orders alts).2.contains a) ↔
      a ∈ (longestSinglePeakedAxis orders alts).1 := by
    intro a
    rw [List.mem_filter]
    constructor
    · rintro ⟨h1, h2⟩
      have h3 : a ∉ (longestSinglePeakedAxis orders alts).2 := by simpa using h2
      rw [removed_eq, List.mem_filter] at h3
      by_cases h4 : a ∈ (longestSinglePeakedAxis orders alts).1
      · exact h4
      · exact absurd ⟨h1, by simpa using h4⟩ h3
    · intro h
      exact ⟨axis_subset orders alts a h, by
        have := fun h' => removed_disjoint orders alts a h' h
        simpa using this⟩
  have hfilter : (longestSinglePeakedAxis orders alts).1.filter
      (fun a => (alts.filter (fun a => !(longestSinglePeakedAxis orders alts).2.contains a)).contains a) =
      (longestSinglePeakedAxis orders alts).1 := by
    rw [List.filter_eq_self]
    intro a h
    simpa using (hmem a).2 h
  simp only [Bool.and_eq_true, decide_eq_true_eq, List.all_eq_true]
  refine ⟨⟨removed_nodup orders alts ha, fun a h => by simpa using removed_subset orders alts a h⟩, ?_⟩
  rw [hfilter]
  unfold spOnSubset at hsp ⊢
  simp only [Bool.and_eq_true] at hsp ⊢
  refine ⟨?_, ?_⟩
  · unfold isPermOf
    simp only [Bool.and_eq_true, decide_eq_true_eq, beq_iff_eq, List.all_eq_true]
    have hperm : (longestSinglePeakedAxis orders alts).1.Perm
        (alts.filter (fun a => !(longestSinglePeakedAxis orders alts).2.contains a)) := by
      rw [List.perm_ext_iff_of_nodup (axis_nodup orders alts) (ha.sublist List.filter_sublist)]
      intro a; exact (hmem a).symm
    exact ⟨⟨axis_nodup orders alts, hperm.length_eq⟩, fun a h => by simpa using (hmem a).2 h⟩
  · have : (orders.map weak).map (restrictOrder (alts.filter
        (fun a => !(longestSinglePeakedAxis orders alts).2.contains a))) =
        (orders.map weak).map (restrictOrder (longestSinglePeakedAxis orders alts).1) := by
      apply List.map_congr_left
      intro o _
      exact restrictOrder_congr _ _ hmem o
    rw [this]
    exact hsp.2

/-- (c) every axis of `k_alt_partition_approx` is single-peaked for the restricted profile -/
theorem partitionLoop_sp (orders : List (List Nat)) (fuel : Nat) (alts : List Nat)
    (hcomp : ∀ o ∈ orders, ∀ a ∈ alts, a ∈ o) :
    ∀ ax ∈ partitionLoop orders fuel alts, spOnSubset (orders.map weak) ax ax = true := by
  induction fuel generalizing alts with
  | zero => intro ax h; simp [partitionLoop] at h
  | succ fuel ih =>
    intro ax h
    unfold partitionLoop at h
    split at h
    · simp only [List.mem_cons] at h
      rcases h with rfl | h
      · exact axis_spOnSubset orders alts hcomp
      · exact ih _ (fun o ho a ha' => hcomp o ho a (removed_subset orders alts a ha')) ax h
    · cases h

/-- (b)+(c) the answer of `k_alt_partition_approx` passes the partition certificate checker of the
specification: the axes partition the alternatives, none is empty, and the profile restricted to each axis is
single-peaked on it -/
theorem partition_cert (alts : List Nat) (orders : List (List Nat)) (ha : alts.Nodup) (hord : orders ≠ [])
    (hcomp : ∀ o ∈ orders, ∀ a ∈ alts, a ∈ o) :
    partitionCert alts (orders.map weak) (kAltPartitionApprox alts orders) = true := by
  unfold partitionCert
  have hperm := partition_perm alts orders ha hord hcomp
  simp only [Bool.and_eq_true, List.all_eq_true]
  refine ⟨?_, ?_⟩
  · unfold isPermOf
    simp only [Bool.and_eq_true, decide_eq_true_eq, beq_iff_eq, List.all_eq_true]
    exact ⟨⟨hperm.nodup_iff.2 ha, hperm.length_eq⟩, fun a h => by simpa using hperm.mem_iff.1 h⟩
  · intro ax hax
    refine ⟨?_, partitionLoop_sp orders _ alts hcomp ax hax⟩
    have := (partition_axes alts orders ha hord hcomp ax hax).1
    cases ax with
    | nil => exact absurd rfl this
    | cons => rfl

end PrefVerif.C12DP
