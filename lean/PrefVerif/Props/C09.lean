import PrefVerif.Model.EntryPoints
import PrefVerif.Spec.IOWF
import PrefVerif.Spec.PrefLibFormat
import PrefVerif.Lemmas.C09Graph
import PrefVerif.Lemmas.C09Fold
import PrefVerif.Lemmas.C09Header
import PrefVerif.Lemmas.C09Edge
import PrefVerif.Lemmas.C09Roundtrip
import PrefVerif.Lemmas.C09Reader
/-!
# C09 — matching (weighted digraph) files survive write → parse unchanged

The weight type `W` is opaque; `showW` = `str(float)`, `readW` = `float(str)`.  The two facts assumed
about them are explicit hypotheses (`FloatOK`), exercised at run time on every generated weight.
Property theorems only (helper lemmas: shared `PrefVerif/Lemmas/IO*.lean`, and `PrefVerif/Lemmas/C09*.lean`).
-/
namespace PrefVerif.C09
open PrefVerif PrefVerif.Py PrefVerif.InstanceIO PrefVerif.MatchingIO PrefVerif.EntryPoints PrefVerif.Spec.IO

/-- the contract of `repr` / `float` on finite floats -/
structure FloatOK {W : Type} (showW : W → Str) (readW : Str → Option W) : Prop where
  read_show : ∀ w, readW (showW w) = some w
  clean : ∀ w, ∀ c ∈ showW w, c ≠ ',' ∧ isSpace c = false ∧ isLineBreak c = false
  nonempty : ∀ w, showW w ≠ []

/-- the graph is what a sequence of `add_edge` calls builds: successor lists duplicate-free, every
edge has a weight and every weight belongs to an edge, every successor is a node -/
def wfGraph {W : Type} (g : Graph W) : Prop :=
  (AList.keys g.nodeMapping).Nodup ∧
  (∀ kv ∈ g.nodeMapping, kv.2.Nodup ∧ ∀ b ∈ kv.2, b ∈ AList.keys g.nodeMapping) ∧
  (AList.keys g.weights).Nodup ∧
  (∀ a b, (a, b) ∈ AList.keys g.weights ↔ ∃ succ, (a, succ) ∈ g.nodeMapping ∧ b ∈ succ)

def wfMat {W : Type} (i : MatchInst W) : Prop :=
  wfHeader i.header = true ∧ wfGraph i.graph ∧ i.graph.edges ≠ [] ∧
  i.numEdges = i.graph.edges.length ∧
  -- nodes incident to an edge are the only ones a file can carry
  (∀ n ∈ i.graph.nodes, ∃ e ∈ i.graph.edges, e.1 = n ∨ e.2.1 = n)

/-- write → parse: the re-parsed instance has the same set of directed edges with identical
weights, the same node set, names and counts; `num_edges` = number of edges;
`num_voters = num_alternatives` -/
theorem roundtrip {W : Type} (showW : W → Str) (readW : Str → Option W) (hf : FloatOK showW readW)
    (i : MatchInst W) (h : wfMat i) (base : Str) :
    ∃ j, parseFile readW .matching base (s "wmd") (write showW i) false false = .ok (.mat j) ∧
      (∀ e, e ∈ j.graph.edges ↔ e ∈ i.graph.edges) ∧
      (∀ n, n ∈ j.graph.nodes ↔ n ∈ i.graph.nodes) ∧
      wfGraph j.graph ∧
      j.numEdges = i.graph.edges.length ∧
      j.header = { i.header with numVoters := i.header.numAlternatives } ∧
      write showW j = write showW i := by
  have hf' : FloatSpec showW readW := ⟨hf.read_show, hf.clean, hf.nonempty⟩
  have h' : WfM i := h
  obtain ⟨r1, r2, r3, r4, r5⟩ := reparsed_spec i h'
  refine ⟨reparsed i, parseFile_write hf' i h' base, r1, r2, r3, r4, r5, ?_⟩
  exact write_congr showW i (reparsed i) h'.2.1 r3 r1 r2 (r4.trans h'.2.2.2.1.symm) _ r5

/-- an independent reader sees exactly the edges, with the weight texts, sorted by (source, target) -/
theorem independent_reader {W : Type} (showW : W → Str) (readW : Str → Option W) (hf : FloatOK showW readW)
    (i : MatchInst W) (h : wfMat i) :
    ∃ c, Spec.Format.read true (write showW i) = some c ∧ c.altNames = i.header.altNames ∧
      (∀ a b t, (a, b, t) ∈ c.edges ↔ ∃ w, (a, b, some w) ∈ i.graph.edges ∧ t = showW w) := by
  have hf' : FloatSpec showW readW := ⟨hf.read_show, hf.clean, hf.nonempty⟩
  have h' : WfM i := h
  exact ⟨_, reader_write hf' i h', rfl, mem_reader_edges showW i.graph h'.2.1⟩

/-- `add_edge` semantics used by the parser: overwriting keeps one edge, both endpoints become nodes -/
theorem addEdge_wf {W : Type} (g : Graph W) (a b : Nat) (w : W) (h : wfGraph g) :
    wfGraph (g.addEdge a b w) ∧
    (∀ e, e ∈ (g.addEdge a b w).edges ↔ (e = (a, b, some w) ∨ (e ∈ g.edges ∧ ¬(e.1 = a ∧ e.2.1 = b)))) :=
  have h' : WfG g := h
  ⟨wfG_addEdge g a b w h', mem_edges_addEdge g a b w h'.1⟩

/-- non-vacuity of `FloatOK`: decimal naturals as weights -/
example : FloatOK natToStr toNat? :=
  ⟨IOL.toNat?_natToStr,
   fun _ _ hc => ⟨IOL.natToStr_ne hc (by decide), IOL.natToStr_no_space hc,
     IOL.digit_not_linebreak (IOL.natToStr_isDigit hc)⟩,
   IOL.natToStr_ne_nil⟩

/-- non-vacuity of `wfGraph`: whatever `add_edge` builds from the empty graph -/
theorem wfGraph_built {W : Type} (L : List (Nat × Nat × W)) :
    wfGraph (L.foldl (fun g e => g.addEdge e.1 e.2.1 e.2.2) ({} : Graph W)) :=
  wfG_built L {} wfG_empty

/-- non-vacuity of `wfMat`: a self-loop, antiparallel edges, an overwritten weight, a node that is
only a target (`1`), adjacency lists not in sorted order -/
example : wfMat (W := Nat)
    { header := { fileName := s "a.wmd", title := s "x: y, z", dataType := s "wmd", numAlternatives := 4,
                  numVoters := 9, altNames := [(1, s ""), (2, s "# b")] },
      numEdges := 5,
      graph := [(3, 3, 7), (5, 2, 1), (2, 5, 4), (5, 1, 9), (5, 2, 8), (0, 5, 2)].foldl
        (fun g e => g.addEdge e.1 e.2.1 e.2.2) {} } :=
  ⟨by decide, wfGraph_built _, by decide, by decide, by decide⟩

end PrefVerif.C09
