import PrefVerif.Model.SingleCrossing
import PrefVerif.Spec.Domains
import PrefVerif.Spec.Distances
import PrefVerif.Props.C20
import PrefVerif.Lemmas.C04Perms
import PrefVerif.Lemmas.C04Bucket
import PrefVerif.Lemmas.C04Additive
import PrefVerif.Lemmas.C04Switch
import PrefVerif.Lemmas.C04Conflict
import PrefVerif.Lemmas.C04Chain
/-!
# C04 — single-crossingness: valid voter orderings, verified checker and decider

Property theorems only (helper lemmas live in `PrefVerif/Lemmas/C04*.lean`).
A profile is a duplicate-free list of rankings (duplicate-free lists over the same alternatives).
-/
namespace PrefVerif.C04
open PrefVerif PrefVerif.SingleCrossing PrefVerif.Spec PrefVerif.Distances

/-- every order is a ranking of exactly the alternatives `alts` -/
def Rankings (alts : List Nat) (orders : List (List Nat)) : Prop :=
  alts.Nodup ∧ ∀ o ∈ orders, SameRanking alts o

/-- the permutation enumerator is exact -/
theorem mem_perms {α : Type} (l l' : List α) : l' ∈ perms l ↔ l'.Perm l :=
  mem_perms' l l'

theorem scSeq_iff (alts : List Nat) (s : List (List Nat)) : scSeq alts s = true ↔ SCSeq alts s :=
  scSeq_iff' alts s

/-- the brute-force decider decides the definition -/
theorem bruteSC_iff (alts : List Nat) (orders : List (List Nat)) :
    bruteSC alts orders = true ↔ SC alts orders := by
  simp only [bruteSC, SC, List.any_eq_true, mem_perms, scSeq_iff]

/-- the witness checker accepts exactly the single-crossing arrangements of all distinct orders -/
theorem scWitness_iff (alts : List Nat) (orders s : List (List Nat)) (hn : orders.Nodup) :
    scWitness alts orders s = true ↔ (s.Perm orders ∧ SCSeq alts s) := by
  simp only [scWitness, Bool.and_eq_true, decide_eq_true_eq, beq_iff_eq, List.all_eq_true,
    List.contains_iff_mem, scSeq_iff]
  constructor
  · rintro ⟨⟨⟨hs, hl⟩, hsub⟩, hsc⟩
    exact ⟨perm_of_nodup_subset_length s orders hs hn hsub hl, hsc⟩
  · rintro ⟨hp, hsc⟩
    exact ⟨⟨⟨hp.nodup_iff.2 hn, hp.length_eq⟩, fun x hx => hp.mem_iff.1 hx⟩, hsc⟩

/-- the verification pass (additivity of Kendall-tau distances from the first order) accepts
exactly the sequences along which every pair of alternatives switches at most once -/
theorem isOrderedSC_iff (alts : List Nat) (s : List (List Nat)) (h : Rankings alts s) :
    isOrderedSC s = true ↔ SCSeq alts s :=
  isOrderedSC_iff' alts s h.2

/-- soundness of `is_single_crossing` (both the sort branch `n < m` and the bucket branch `n ≥ m`):
whenever it answers True, the returned sequence contains every distinct order exactly once and
every pair of alternatives switches at most once along it -/
theorem isSC_sound (alts : List Nat) (orders s : List (List Nat)) (h : Rankings alts orders)
    (hn : orders.Nodup) (hr : isSC orders alts.length = (true, s)) :
    s.Perm orders ∧ SCSeq alts s := by
  have _ := hn
  obtain ⟨hp, ho⟩ := isSC_true orders s alts.length (fun o ho => (h.2 o ho).length_eq.symm) hr
  exact ⟨hp, (isOrderedSC_iff alts s ⟨h.1, fun o ho => h.2 o (hp.mem_iff.1 ho)⟩).1 ho⟩

/-- hence a True answer is always right -/
theorem isSC_true_imp_SC (alts : List Nat) (orders s : List (List Nat)) (h : Rankings alts orders)
    (hn : orders.Nodup) (hr : isSC orders alts.length = (true, s)) : SC alts orders :=
  ⟨s, isSC_sound alts orders s h hn hr⟩

/-- the uncorrected equivalence fails on the empty profile: `is_single_crossing_conflict_sets`
answers False (its loop over candidate first voters is empty) although the empty profile is
trivially single-crossing -/
theorem conflictSets_empty (alts : List Nat) :
    isSCConflictSets [] = false ∧ SC alts [] :=
  ⟨rfl, [], List.Perm.refl _, fun _ _ _ _ _ => Nat.zero_le _⟩

/-- a True answer of `is_single_crossing_conflict_sets` is always right (also on the empty profile) -/
theorem conflictSets_sound (alts : List Nat) (orders : List (List Nat)) (h : Rankings alts orders)
    (hc : isSCConflictSets orders = true) : SC alts orders :=
  conflictSets_sound' alts orders h.2 hc

/-- `is_single_crossing_conflict_sets` decides the definition on non-empty profiles: conflict sets
from some first voter form a chain under inclusion iff the orders can be arranged single-crossingly.
(Corrected statement: the hypothesis `orders ≠ []` is necessary, see `conflictSets_empty`.) -/
theorem conflictSets_iff (alts : List Nat) (orders : List (List Nat)) (h : Rankings alts orders)
    (hn : orders.Nodup) (hne : orders ≠ []) :
    isSCConflictSets orders = true ↔ SC alts orders := by
  have _ := hn
  exact ⟨conflictSets_sound alts orders h, conflictSets_complete' alts orders h.2 hne⟩

/-- non-vacuity -/
example : Rankings [1, 2, 3] [[1, 2, 3], [2, 1, 3], [2, 3, 1]] ∧
    isSC [[2, 1, 3], [1, 2, 3], [2, 3, 1]] 3 = (true, [[2, 3, 1], [2, 1, 3], [1, 2, 3]]) := by
  refine ⟨⟨by decide, ?_⟩, by decide⟩
  intro o ho
  simp at ho
  rcases ho with rfl | rfl | rfl <;> decide

end PrefVerif.C04
