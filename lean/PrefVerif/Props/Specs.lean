import PrefVerif.Spec.NearlySP
import PrefVerif.Spec.Euclid
import PrefVerif.Spec.Domains
import PrefVerif.Props.C05
import PrefVerif.Props.C11
import PrefVerif.Lemmas.SpecsSublists
import PrefVerif.Lemmas.SpecsPartition
import PrefVerif.Lemmas.SpecsPartitionComplete
import PrefVerif.Lemmas.SpecsEuclid
/-!
# Verified checkers and brute-force optima used by C12, C18, C19 (and C03, C13)

Each executable checker is proved equivalent to its declarative reading, and each brute-force
optimum is proved to be attained and minimal.  Helper lemmas live in `PrefVerif/Lemmas/Specs*.lean`.
-/
namespace PrefVerif.Specs
open PrefVerif PrefVerif.Spec PrefVerif.Spec.Nearly

theorem mem_sublists {α : Type} (l s : List α) : s ∈ sublists l ↔ s.Sublist l := by
  exact mem_sublists' l s

/-- the profile restricted to `keep` is single-peaked on `axis` and `axis` lists exactly `keep` -/
theorem spOnSubset_iff (orders : List Order) (keep axis : List Nat) (hk : keep.Nodup) :
    spOnSubset orders keep axis = true ↔
      (axis.Perm keep ∧ SPOnAxis (orders.map (restrictOrder keep)) axis) := by
  simp only [spOnSubset, Bool.and_eq_true, C05.isPermOf_iff axis keep hk, C11.spOnAxis_iff]

/-- the alternative-deletion optimum is attained by some deletion set and no smaller one works -/
theorem minAltDeletion_spec (alts : List Nat) (hn : alts.Nodup) (orders : List Order) :
    (∃ keep, keep.Sublist alts ∧ bruteSP keep (orders.map (restrictOrder keep)) = true ∧
        alts.length - keep.length = minAltDeletion alts orders) ∧
    (∀ keep, keep.Sublist alts → bruteSP keep (orders.map (restrictOrder keep)) = true →
        minAltDeletion alts orders ≤ alts.length - keep.length) := by
  have _ := hn   -- not needed
  exact deletion_spec alts (fun keep => bruteSP keep (orders.map (restrictOrder keep))) (bruteSP_nil_alts _)

theorem minVoterDeletion_spec (alts : List Nat) (orders : List Order) :
    (∃ keep, keep.Sublist orders ∧ bruteSP alts keep = true ∧
        orders.length - keep.length = minVoterDeletion alts orders) ∧
    (∀ keep, keep.Sublist orders → bruteSP alts keep = true →
        minVoterDeletion alts orders ≤ orders.length - keep.length) := by
  exact deletion_spec orders (fun keep => bruteSP alts keep) (bruteSP_nil_orders alts)

/-- every set partition is enumerated: a list of non-empty blocks whose concatenation is a
permutation of the list is, up to the order of blocks and inside blocks, in `setPartitions` -/
theorem setPartitions_sound {α : Type} (l : List α) (p : List (List α)) (h : p ∈ setPartitions l) :
    p.flatten.Perm l ∧ ∀ b ∈ p, b ≠ [] := by
  exact setPartitions_sound' l p h

theorem setPartitions_complete (l : List Nat) (hl : l.Nodup) (p : List (List Nat))
    (hp : p.flatten.Perm l) (hne : ∀ b ∈ p, b ≠ []) :
    ∃ q ∈ setPartitions l, q.length = p.length ∧ ∀ b ∈ p, ∃ c ∈ q, c.Perm b := by
  exact setPartitions_complete' l p hl hp hne

/-- the partition certificate checker -/
theorem partitionCert_iff (alts : List Nat) (hn : alts.Nodup) (orders : List Order) (axes : List (List Nat)) :
    partitionCert alts orders axes = true ↔
      (axes.flatten.Perm alts ∧ ∀ ax ∈ axes, ax ≠ [] ∧ SPOnAxis (orders.map (restrictOrder ax)) ax) := by
  simp only [partitionCert, Bool.and_eq_true, C05.isPermOf_iff _ alts hn, List.all_eq_true,
    Bool.not_eq_true', spOnSubset, C11.spOnAxis_iff]
  constructor
  · rintro ⟨hp, hall⟩
    refine ⟨hp, fun ax hax => ⟨?_, (hall ax hax).2.2⟩⟩
    intro he
    have := (hall ax hax).1
    rw [he] at this
    exact absurd this (by decide)
  · rintro ⟨hp, hall⟩
    refine ⟨hp, fun ax hax => ⟨?_, ?_, (hall ax hax).2⟩⟩
    · cases ax with
      | nil => exact absurd rfl (hall [] hax).1
      | cons a ax => rfl
    · have hnd : ax.Nodup := (List.sublist_flatten_of_mem hax).nodup (hp.nodup_iff.2 hn)
      exact (C05.isPermOf_iff ax ax hnd).2 (List.Perm.refl _)

/-- the embedding checker: every voter ranks by strictly increasing distance -/
theorem realises_iff (orders : List (List Nat)) (voters : List Rat) (alts : List (Nat × Rat)) :
    Euclid.realises orders voters alts = true ↔
      (voters.length = orders.length ∧
       ∀ i (hi : i < orders.length) (hv : i < voters.length),
         (∀ a ∈ orders[i], (alts.lookup a).isSome) ∧
         ∀ j k (hj : j < k) (hk : k < orders[i].length),
           ∀ ya yb, alts.lookup (orders[i][j]'(by omega)) = some ya → alts.lookup (orders[i][k]) = some yb →
             Euclid.dist voters[i] ya < Euclid.dist voters[i] yb) := by
  simp only [Euclid.realises, Bool.and_eq_true, beq_iff_eq]
  constructor
  · rintro ⟨hlen, hall⟩
    refine ⟨hlen, fun i hi hv => ?_⟩
    have hr : Euclid.ranksByDistance voters[i] (fun a => alts.lookup a) orders[i] = true :=
      (all_zip_iff _ orders voters hlen).1 hall i hi hv
    obtain ⟨hsome, hpw⟩ := (ranksByDistance_iff _ _ _).1 hr
    exact ⟨hsome, fun j k hj hk ya yb => List.pairwise_iff_getElem.1 hpw j k (by omega) hk hj ya yb⟩
  · rintro ⟨hlen, h⟩
    refine ⟨hlen, (all_zip_iff _ orders voters hlen).2 fun i hi hv => ?_⟩
    show Euclid.ranksByDistance voters[i] (fun a => alts.lookup a) orders[i] = true
    exact (ranksByDistance_iff _ _ _).2
      ⟨(h i hi hv).1, List.pairwise_iff_getElem.2 fun j k _ hk hjk ya yb => (h i hi hv).2 j k hjk hk ya yb⟩

end PrefVerif.Specs
