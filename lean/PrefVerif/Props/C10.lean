import PrefVerif.Model.EntryPoints
import PrefVerif.Spec.IOWF
import PrefVerif.Lemmas.IOzStrip
import PrefVerif.Lemmas.IOzLines
import PrefVerif.Lemmas.C10Parse
import PrefVerif.Lemmas.C10Header
/-!
# C10 — all parsing entry points agree and dispatch on the declared type

Property theorems only (helper lemmas: shared `PrefVerif/Lemmas/IO*.lean`, and `PrefVerif/Lemmas/C10*.lean`).
-/
namespace PrefVerif.C10
open PrefVerif PrefVerif.Py PrefVerif.InstanceIO PrefVerif.EntryPoints

/-- `l'` is `l` with Python whitespace added in front and behind -/
def Padded (l' l : Str) : Prop :=
  ∃ pre post : Str, (∀ c ∈ pre, isSpace c = true) ∧ (∀ c ∈ post, isSpace c = true) ∧ l' = pre ++ l ++ post

/-- what every entry point reduces to: a fresh instance of the class with the given file name and
data type, then `parse_lines` -/
def parseWith {W : Type} (readW : Str → Option W) (cls : Cls) (fileName dataType : Str) (lines : List Str)
    (ac ho : Bool) : Except Err (AnyInst W) :=
  parseLines readW cls ((fresh W cls).setHeader (fun h => { h with fileName := fileName, dataType := dataType }))
    lines ac ho

/-- leading / trailing whitespace on lines never matters (all three classes, all flags) -/
theorem strip_invariant {W : Type} (readW : Str → Option W) (cls : Cls) (i : AnyInst W)
    (ls' ls : List Str) (hlen : ls'.length = ls.length)
    (h : ∀ p ∈ ls'.zip ls, Padded p.1 p.2) (ac ho : Bool) :
    parseLines readW cls i ls' ac ho = parseLines readW cls i ls ac ho := by
  exact parseLines_congr_strip readW cls i ls' ls (map_strip_eq_of_padded ls' ls hlen h) ac ho

/-- the number of spaces inside a ballot / edge line never matters -/
theorem space_invariant_ord (ac : Bool) (i : OrdinalIO.OrdInst) (l' l : Str)
    (h : removeSpaces l' = removeSpaces l) :
    OrdinalIO.ballotLine ac i l' = OrdinalIO.ballotLine ac i l := by
  simp only [OrdinalIO.ballotLine, IOL.removeWs_congr_of_removeSpaces h]

theorem space_invariant_cat (ac : Bool) (i : CategoricalIO.CatInst) (l' l : Str)
    (h : removeSpaces l' = removeSpaces l) :
    CategoricalIO.ballotLine ac i l' = CategoricalIO.ballotLine ac i l := by
  simp only [CategoricalIO.ballotLine, IOL.removeSpaces_strip_congr h]

theorem space_invariant_mat {W : Type} (readW : Str → Option W) (i : MatchingIO.MatchInst W) (l' l : Str)
    (h : removeSpaces l' = removeSpaces l) :
    MatchingIO.edgeLine readW i l' = MatchingIO.edgeLine readW i l := by
  simp only [MatchingIO.edgeLine, IOL.removeSpaces_strip_congr h]

/-- a text made of break-free lines joined (and optionally terminated) by one of `\n`, `\r\n`, `\r` -/
def IsEol (e : Str) : Prop := e = ['\n'] ∨ e = ['\r', '\n'] ∨ e = ['\r']
def text (eol : Str) (final : Bool) (ls : List Str) : Str :=
  List.intercalate eol ls ++ (if final then eol else [])

/-- `parse_file`, `parse_str` and `parse_url` build the same instance from the same content, for
every line-ending style, with or without a final line end, for all flag combinations -/
theorem entry_points_agree {W : Type} (readW : Str → Option W) (cls : Cls) (fn ext eol : Str) (final : Bool)
    (ls : List Str) (heol : IsEol eol) (hne : ls ≠ [])
    (hls : ∀ l ∈ ls, l ≠ [] ∧ ∀ c ∈ l, isLineBreak c = false) (ac ho : Bool) :
    parseFile readW cls fn ext (text eol final ls) ac ho = parseWith readW cls fn ext ls ac ho ∧
    parseStr readW cls (text eol final ls) ext fn ac ho = parseWith readW cls fn ext ls ac ho ∧
    parseUrl readW cls fn ext (text eol final ls) ac ho = parseWith readW cls fn ext ls ac ho := by
  have hls' : ∀ l ∈ ls, l ≠ [] ∧ IOL.LineOK l := hls
  have hr : readlines (text eol final ls) = IOL.withNl final ls :=
    IOL.readlines_eolText heol final ls hne hls'
  have hs : splitlines (text eol final ls) = ls := IOL.splitlines_eolText heol final ls hne hls'
  refine ⟨?_, ?_, ?_⟩
  · simp only [parseFile, parseWith, hr]
    exact parseLines_congr_strip readW cls _ _ _ (IOL.map_strip_withNl final ls) ac ho
  · simp only [parseStr, parseWith, hs]
  · simp only [parseUrl, parseWith, hs]
    exact parseLines_map_strip readW cls _ ls ac ho

/-- `get_parsed_instance` picks the class from the extension and is `parse_file` of that class -/
theorem get_dispatch {W : Type} (readW : Str → Option W) (cls : Cls) (fn ext content : Str) (ac ho : Bool)
    (h : classOfExt ext = some cls) :
    getParsedInstance readW fn ext content ac ho = parseFile readW cls fn ext content ac ho ∧
    typeValid cls ext = true := by
  refine ⟨by simp only [getParsedInstance, h], ?_⟩
  simp only [classOfExt] at h
  split at h
  · cases h
    rename_i hc
    simpa [typeValid] using hc
  · split at h
    · cases h
      rename_i hc
      simpa [typeValid] using hc
    · split at h
      · cases h
        rename_i hc
        simpa [typeValid] using hc
      · cases h

/-- `header_only=True`: same header and counts as the full parse, and no ballot is loaded -/
theorem header_only_ord (i0 : OrdinalIO.OrdInst) (lines : List Str) (j : OrdinalIO.OrdInst)
    (h : OrdinalIO.parse i0 lines false false = .ok j) :
    ∃ j', OrdinalIO.parse i0 lines false true = .ok j' ∧ j'.header = j.header ∧
      j'.numUniqueOrders = j.numUniqueOrders ∧ j'.orders = i0.orders ∧ j'.multiplicity = i0.multiplicity := by
  simp only [OrdinalIO.parse] at h ⊢
  cases hl : headerLoop (OrdinalIO.headerStep false) i0 lines 0 with
  | error e => rw [hl] at h; cases h
  | ok r =>
    obtain ⟨i, idx⟩ := r
    rw [hl] at h
    have hb := headerLoop_preserve _ (fun a : OrdinalIO.OrdInst => (a.orders, a.multiplicity))
      (ord_headerStep_ballots false) lines i0 i 0 idx hl
    cases hf : (lines.drop idx).foldlM (OrdinalIO.ballotLine false) i with
    | error e => simp [bind, Except.bind, hf] at h
    | ok k =>
      have hh := foldlM_preserve _ (fun a : OrdinalIO.OrdInst => (a.header, a.numUniqueOrders))
        (ord_ballotLine_header false) _ i k hf
      have hj : j = k := by simpa [bind, Except.bind, hf, pure, Except.pure] using h.symm
      subst hj
      simp only [Prod.mk.injEq] at hb hh
      exact ⟨i, rfl, hh.1.symm, hh.2.symm, hb.1, hb.2⟩

theorem header_only_cat (i0 : CategoricalIO.CatInst) (lines : List Str) (j : CategoricalIO.CatInst)
    (h : CategoricalIO.parse i0 lines false false = .ok j) :
    ∃ j', CategoricalIO.parse i0 lines false true = .ok j' ∧ j'.header = j.header ∧
      j'.numUniquePreferences = j.numUniquePreferences ∧ j'.numCategories = j.numCategories ∧
      j'.categoriesName = j.categoriesName ∧ j'.preferences = i0.preferences ∧
      j'.multiplicity = i0.multiplicity := by
  simp only [CategoricalIO.parse] at h ⊢
  cases hl : headerLoop (CategoricalIO.headerStep false) i0 lines 0 with
  | error e => rw [hl] at h; cases h
  | ok r =>
    obtain ⟨i, idx⟩ := r
    rw [hl] at h
    have hb := headerLoop_preserve _ (fun a : CategoricalIO.CatInst => (a.preferences, a.multiplicity))
      (cat_headerStep_ballots false) lines i0 i 0 idx hl
    cases hf : (lines.drop idx).foldlM (CategoricalIO.ballotLine false) i with
    | error e => simp [bind, Except.bind, hf] at h
    | ok k =>
      have hh := foldlM_preserve _
        (fun a : CategoricalIO.CatInst => (a.header, a.numUniquePreferences, a.numCategories, a.categoriesName))
        (cat_ballotLine_header false) _ i k hf
      have hj : j = k := by simpa [bind, Except.bind, hf, pure, Except.pure] using h.symm
      subst hj
      simp only [Prod.mk.injEq] at hb hh
      exact ⟨i, rfl, hh.1.symm, hh.2.1.symm, hh.2.2.1.symm, hh.2.2.2.symm, hb.1, hb.2⟩

theorem header_only_mat {W : Type} (readW : Str → Option W) (i0 : MatchingIO.MatchInst W) (lines : List Str)
    (j : MatchingIO.MatchInst W) (h : MatchingIO.parse readW i0 lines false false = .ok j) :
    ∃ j', MatchingIO.parse readW i0 lines false true = .ok j' ∧ j'.header = j.header ∧
      j'.graph.nodeMapping = i0.graph.nodeMapping ∧ j'.graph.weights = i0.graph.weights := by
  simp only [MatchingIO.parse] at h ⊢
  cases hl : headerLoop (MatchingIO.headerStep (W := W) false) i0 lines 0 with
  | error e => rw [hl] at h; cases h
  | ok r =>
    obtain ⟨i, idx⟩ := r
    rw [hl] at h
    have hb := headerLoop_preserve _ (fun a : MatchingIO.MatchInst W => a.graph)
      (mat_headerStep_graph false) lines i0 i 0 idx hl
    cases hf : (lines.drop idx).foldlM (MatchingIO.edgeLine readW)
        { i with header := { i.header with numVoters := i.header.numAlternatives } } with
    | error e => simp [bind, Except.bind, hf] at h
    | ok k =>
      have hh := foldlM_preserve _ (fun a : MatchingIO.MatchInst W => a.header)
        (mat_edgeLine_header readW) _ _ k hf
      have hj : j = { k with numEdges := ((AList.values k.graph.nodeMapping).map List.length).sum } := by
        simpa [bind, Except.bind, hf, pure, Except.pure] using h.symm
      subst hj
      simp only at hb hh
      exact ⟨_, rfl, hh.symm, by rw [hb], by rw [hb]⟩

/-- content whose extension / declared data type does not belong to the class is rejected with
`TypeError` by every entry point (no instance, hence no ballots or edges, is produced) -/
theorem type_gate {W : Type} (readW : Str → Option W) (cls : Cls) (fn ext content : Str) (ac ho : Bool)
    (h : typeValid cls ext = false) :
    parseFile readW cls fn ext content ac ho = .error .typeError ∧
    parseStr readW cls content ext fn ac ho = .error .typeError ∧
    parseUrl readW cls fn ext content ac ho = .error .typeError := by
  cases cls <;>
    simp [parseFile, parseStr, parseUrl, parseLines, fresh, AnyInst.setHeader, AnyInst.header, h]

theorem unknown_extension {W : Type} (readW : Str → Option W) (fn ext content : Str) (ac ho : Bool)
    (h : classOfExt ext = none) : getParsedInstance readW fn ext content ac ho = .error .typeError := by
  simp [getParsedInstance, h]

example : IsEol ['\r'] ∧ Padded (' ' :: '\t' :: s "1: 2,3" ++ [' ']) (s "1: 2,3") := by
  refine ⟨Or.inr (Or.inr rfl), [' ', '\t'], [' '], ?_, ?_, rfl⟩
  · intro c hc; simp at hc; rcases hc with rfl | rfl <;> decide
  · intro c hc; simp at hc; subst hc; decide

end PrefVerif.C10
