import PrefVerif.Model.PQTree
import PrefVerif.Props.C05
import PrefVerif.Lemmas.C05PQPerm
import PrefVerif.Lemmas.C05PQSound
import PrefVerif.Lemmas.C05PQComplete
import PrefVerif.Lemmas.C05PQTop
import PrefVerif.Lemmas.C05PQErr
/-!
# C05PQ — the PQ-tree `reorder_sets` itself (the `solver` parameter of C05, instantiated)

Property theorems only (helper lemmas live in `PrefVerif/Lemmas/C05PQ*.lean`).
-/
namespace PrefVerif.C05PQ
open PrefVerif PrefVerif.PQTree PrefVerif.PQTree.Tree

/-- the outcome of `reorder_sets` in terms of `reorderSetsE` -/
theorem reorderSets_eq_some {sets ord : List (List Nat)} :
    reorderSets sets = some ord ↔ reorderSetsE sets = .ok ord := by
  unfold reorderSets
  split
  · rename_i r hr; simp [hr]
  · rename_i e he; simp [he]

/-- (a) on pairwise distinct sets, an ordering returned by `reorder_sets` is a rearrangement of the
input: no set is lost, duplicated or invented by any of the tree operations. -/
theorem reorderSets_perm (sets : List (List Nat)) (hnd : sets.Nodup) (ord : List (List Nat))
    (h : reorderSets sets = some ord) : ord.Perm sets := by
  rw [reorderSets_eq_some] at h
  unfold reorderSetsE at h
  split at h
  · simp only [Except.ok.injEq] at h; subst h; exact List.Perm.refl _
  rename_i hlen
  have hfl : frontierList (sets.map .leaf) = sets := frontierList_map_leaf sets
  have hmk : mkP (sets.map .leaf) = .p (sets.map .leaf) := mkP_eq (by rw [hfl]; exact hnd)
  rw [hmk] at h
  simp only [] at h
  split at h
  · have := ordering_ok h
    subst this
    simp [hfl]
  · split at h
    · cases h
    rename_i t ht
    have hwf : WF (.p (sets.map .leaf)) := by
      rw [wf_p]
      refine ⟨?_, ?_⟩
      · intro hnil
        have := congrArg List.length hnil
        simp only [List.length_map, List.length_nil] at this
        omega
      · intro c hc
        obtain ⟨s, _, rfl⟩ := List.mem_map.1 hc
        simp
    have hnd' : (frontier (.p (sets.map .leaf))).Nodup := by simpa [hfl] using hnd
    obtain ⟨_, hperm⟩ := mainLoop_ok hwf hnd' ht
    have := ordering_ok h
    subst this
    simpa [hfl] using hperm

/-- (b) on pairwise distinct sets, in an ordering returned by `reorder_sets` every element occurs in an
interval of sets.  Invariant behind it: after `set_contiguous(v)` *every* ordering the tree stands for
(`PQTree.Fr`) has the sets containing `v` on an interval, and every later operation (`set_contiguous`,
`flatten`) only restricts the orderings the tree stands for. -/
theorem reorderSets_sound (sets : List (List Nat)) (hnd : sets.Nodup) (ord : List (List Nat))
    (h : reorderSets sets = some ord) : ∀ e, C05.ElemConsecutive ord e := by
  have hperm := reorderSets_perm sets hnd ord h
  intro e
  rw [C05.elemConsecutive_iff]
  apply C05.Seg.interval
  show VSeg e ord
  rw [reorderSets_eq_some] at h
  unfold reorderSetsE at h
  -- an ordering of at most two sets
  have hsmall : ∀ l : List (List Nat), l.length ≤ 2 → VSeg e l := by
    intro l hl
    match l, hl with
    | [], _ => exact (noV_nil e).vseg
    | [a], _ =>
      by_cases ha : e ∈ a
      · exact AllVL.vseg (by intro x hx; simp only [List.mem_singleton] at hx; subst hx; exact ha)
      · exact NoV.vseg (by intro x hx; simp only [List.mem_singleton] at hx; subst hx; exact ha)
    | [a, b], _ =>
      by_cases ha : e ∈ a
      · refine Pre.vseg ?_
        by_cases hb : e ∈ b
        · exact AllVL.pre (by
            intro x hx
            simp only [List.mem_cons, List.not_mem_nil, or_false] at hx
            rcases hx with rfl | rfl <;> assumption)
        · exact ⟨[a], [b], rfl, by intro x hx; simp only [List.mem_singleton] at hx; subst hx; exact ha,
            by intro x hx; simp only [List.mem_singleton] at hx; subst hx; exact hb⟩
      · refine Suf.vseg ?_
        by_cases hb : e ∈ b
        · exact ⟨[a], [b], rfl, by intro x hx; simp only [List.mem_singleton] at hx; subst hx; exact ha,
            by intro x hx; simp only [List.mem_singleton] at hx; subst hx; exact hb⟩
        · exact NoV.suf (by
            intro x hx
            simp only [List.mem_cons, List.not_mem_nil, or_false] at hx
            rcases hx with rfl | rfl <;> assumption)
  split at h
  · rename_i hlen
    simp only [Except.ok.injEq] at h; subst h
    exact hsmall _ hlen
  rename_i hlen
  have hfl : frontierList (sets.map .leaf) = sets := frontierList_map_leaf sets
  have hmk : mkP (sets.map .leaf) = .p (sets.map .leaf) := mkP_eq (by rw [hfl]; exact hnd)
  rw [hmk] at h
  simp only [] at h
  split at h
  · rename_i hnc
    simp only [numChildren, children, List.length_map] at hnc
    omega
  · split at h
    · cases h
    rename_i t ht
    have hflat : Flat (.p (sets.map .leaf)) := by
      rw [flat_p]
      refine ⟨by simp only [List.length_map]; omega, ?_⟩
      intro c hc
      obtain ⟨s, _, rfl⟩ := List.mem_map.1 hc
      simp
    have hnd' : (frontier (.p (sets.map .leaf))).Nodup := by simpa [hfl] using hnd
    obtain ⟨_, hseg⟩ := mainLoop_sound hflat hnd' ht
    have := ordering_ok h
    subst this
    by_cases he : e ∈ unionSet sets
    · exact hseg e he _ (fr_frontier t)
    · apply NoV.vseg
      intro s hs hes
      exact he (mem_unionSet (hperm.mem_iff.1 hs) hes)

/-- (c) Booth–Lueker correctness of this implementation: on pairwise distinct sets, `reorder_sets`
raises (`none`: `ValueError`, any other exception, or the model running out of fuel) only if no
rearrangement of the sets has every element on an interval.  Invariant behind it: `set_contiguous(v)`
keeps *every* ordering the tree stands for in which the sets containing `v` form an interval, and raises
only if there is none; the fuel `2·n + 2` is never exhausted (a call needs at most the number of leaves). -/
theorem reorderSets_complete (sets : List (List Nat)) (hnd : sets.Nodup) (h : reorderSets sets = none) :
    ¬ ∃ ord : List (List Nat), ord.Perm sets ∧ ∀ e, C05.ElemConsecutive ord e := by
  rintro ⟨G, hperm, hcons⟩
  have hv : ∀ u, VSeg u G := fun u => C05.Interval.seg ((C05.elemConsecutive_iff G u).1 (hcons u))
  have hne : ∀ r, reorderSetsE sets ≠ .ok r := by
    intro r hr
    have := reorderSets_eq_some.2 hr
    rw [h] at this; cases this
  unfold reorderSetsE at hne
  split at hne
  · exact hne _ rfl
  rename_i hlen
  have hfl : frontierList (sets.map .leaf) = sets := frontierList_map_leaf sets
  have hmk : mkP (sets.map .leaf) = .p (sets.map .leaf) := mkP_eq (by rw [hfl]; exact hnd)
  rw [hmk] at hne
  simp only [] at hne
  split at hne
  · exact hne _ rfl
  have hflat : Flat (.p (sets.map .leaf)) := by
    rw [flat_p]
    refine ⟨by simp only [List.length_map]; omega, ?_⟩
    intro c hc
    obtain ⟨s, _, rfl⟩ := List.mem_map.1 hc
    simp
  have hfr : frontier (.p (sets.map .leaf)) = sets := by simp [hfl]
  have hG : Fr (.p (sets.map .leaf)) G :=
    (fr_p_iff _ _).2 ⟨G.map .leaf, hperm.map _, seq_map_leaf G⟩
  obtain ⟨t', ht', hpq⟩ := mainLoop_complete (fuel := fuelBound sets) (elems := unionSet sets) hflat
    (by rw [hfr]; exact hnd) (by rw [hfr]; unfold fuelBound; omega) (by rw [hfr]; omega) hG
    (fun u _ => hv u)
  rw [ht'] at hne
  cases t' with
  | leaf s => simp [isPQ] at hpq
  | p cs => exact hne _ rfl
  | q cs => exact hne _ rfl

/-- the fuel supplied by `reorderSets` is never exhausted and no exception other than `ValueError` is
raised when the sets can be rearranged; in general: -/
theorem reorderSets_isSome_iff (sets : List (List Nat)) (hnd : sets.Nodup) :
    (reorderSets sets).isSome ↔ ∃ ord : List (List Nat), ord.Perm sets ∧ ∀ e, C05.ElemConsecutive ord e := by
  constructor
  · intro h
    obtain ⟨ord, hord⟩ := Option.isSome_iff_exists.1 h
    exact ⟨ord, reorderSets_perm sets hnd ord hord, reorderSets_sound sets hnd ord hord⟩
  · intro h
    cases hr : reorderSets sets with
    | some o => rfl
    | none => exact absurd h (reorderSets_complete sets hnd hr)

/-- the first half of the solver contract `C05.SolverOK` holds for the real PQ-tree -/
theorem reorderSets_solver_sound (sets : List (List Nat)) (hnd : sets.Nodup) :
    ∀ ord, reorderSets sets = some ord → ord.Perm sets ∧ ∀ e, C05.ElemConsecutive ord e :=
  fun ord h => ⟨reorderSets_perm sets hnd ord h, reorderSets_sound sets hnd ord h⟩

/-- **the PQ-tree meets the contract that C05 assumes of its `solver` parameter** -/
theorem reorderSets_solverOK : C05.SolverOK reorderSets := by
  intro sets hnd
  exact ⟨reorderSets_solver_sound sets hnd, reorderSets_complete sets hnd⟩

/-- `solve_consecutive_ones` with the real PQ-tree is sound and complete (C05 instantiated) -/
theorem solveConsecutiveOnes_correct (m : Dichotomous.Matrix) (nc : Nat) (hm : C05.WFMatrix m nc) :
    (∀ ord, solveConsecutiveOnes m nc = some ord →
        Spec.c1pWitness nc (Spec.Approval.rowsOfMatrix m) ord = true) ∧
    (solveConsecutiveOnes m nc = none → ¬ Spec.C1P nc (Spec.Approval.rowsOfMatrix m)) :=
  C05.solveC1_correct reorderSets reorderSets_solverOK m nc hm

/-- consequence for `solve_consecutive_ones` with the real PQ-tree, for every matrix (also with repeated
and all-zero rows or columns): a returned column order is a permutation of all column indices under
which the ones of every row are consecutive. -/
theorem solveConsecutiveOnes_witness (m : Dichotomous.Matrix) (nc : Nat) (ord : List Nat)
    (h : solveConsecutiveOnes m nc = some ord) :
    Spec.c1pWitness nc (Spec.Approval.rowsOfMatrix m) ord = true := by
  unfold solveConsecutiveOnes at h
  rw [C05.solveC1_eq] at h
  cases hsol : reorderSets (Py.AList.keys (Dichotomous.groupColumns (Dichotomous.columnsIndices m nc))) with
  | none => simp [hsol] at h
  | some ordering =>
    simp only [hsol, Option.map_some, Option.some.injEq] at h
    subst h
    obtain ⟨hp, hi⟩ := reorderSets_solver_sound _ (C05.nodup_keys_groupColumns _) ordering hsol
    rw [C05.c1pWitness_iff, ← C05.rowsOK_iff_contiguous]
    refine ⟨C05.expand_perm m nc ordering hp, ?_⟩
    intro row hrow
    obtain ⟨r, hr, rfl⟩ := List.getElem_of_mem hrow
    exact C05.expand_interval m nc ordering r hr ((C05.elemConsecutive_iff ordering r).1 (hi r))

/-! ### arbitrary input (repeated sets) and `isC1P` -/

/-- `reorder_sets` on arbitrary input with more than two sets (`P(sets)` drops repeated sets; with at most
two sets the input is returned as it is): the answer is a rearrangement of the distinct sets
(`PQTree.firstOccs`) with every element on an interval, and an exception is raised only if there is none. -/
theorem reorderSets_general (sets : List (List Nat)) (hlen : 2 < sets.length) :
    (∀ ord, reorderSets sets = some ord →
        ord.Perm (firstOccs sets) ∧ ∀ e, C05.ElemConsecutive ord e) ∧
    (reorderSets sets = none →
        ¬ ∃ ord : List (List Nat), ord.Perm (firstOccs sets) ∧ ∀ e, C05.ElemConsecutive ord e) := by
  obtain ⟨h1, h2⟩ := reorderSetsE_general sets hlen
  constructor
  · intro ord h
    obtain ⟨hp, hv⟩ := h1 ord (reorderSets_eq_some.1 h)
    exact ⟨hp, fun e => (C05.elemConsecutive_iff ord e).2 (C05.Seg.interval (hv e))⟩
  · intro h
    rintro ⟨G, hp, hc⟩
    obtain ⟨ord, hord⟩ := h2 ⟨G, hp, fun u => C05.Interval.seg ((C05.elemConsecutive_iff G u).1 (hc u))⟩
    have := reorderSets_eq_some.2 hord
    rw [h] at this; cases this

/-- on any input the only exception `reorder_sets` can raise is `ValueError("Impossible")`: no
`IndexError`/`AttributeError` (`Err.crash`), the branch `ValueError("Bon, ben ca arrive O_o")`
(`Err.bonBen`) is dead code, and the model never runs out of fuel (`Err.fuel`). -/
theorem reorderSetsE_error (sets : List (List Nat)) (e : Err) (h : reorderSetsE sets = .error e) :
    e = .impossible :=
  reorderSetsE_error_kind sets e h

/-- **`isC1P(matrix)` decides the consecutive ones property** of the rows (columns may be permuted), for
every matrix — repeated and all-zero rows or columns included (entries other than 1 count as 0). -/
theorem isC1P_iff (m : Dichotomous.Matrix) (nc : Nat) :
    isC1P m nc = true ↔ Spec.C1P nc (Spec.Approval.rowsOfMatrix m) := by
  unfold isC1P
  have hclen := C05.length_columnsIndices m nc
  by_cases hnc : nc ≤ 2
  · -- at most two columns: `reorder_sets` returns its input, and every order of the columns is fine
    have h1 : reorderSets (Dichotomous.columnsIndices m nc) = some (Dichotomous.columnsIndices m nc) := by
      rw [reorderSets_eq_some]
      unfold reorderSetsE
      rw [if_pos (by omega)]
    rw [h1]
    simp only [Option.isSome_some, true_iff]
    refine ⟨List.range nc, List.Perm.refl _, ?_⟩
    intro r _ i j k hij hjk hk
    simp only [List.length_range] at hk
    omega
  · have hlen : 2 < (Dichotomous.columnsIndices m nc).length := by omega
    obtain ⟨h1, h2⟩ := reorderSets_general _ hlen
    have hkeys : (firstOccs (Dichotomous.columnsIndices m nc)).Perm
        (Py.AList.keys (Dichotomous.groupColumns (Dichotomous.columnsIndices m nc))) := by
      rw [List.perm_ext_iff_of_nodup (nodup_firstOccs _) (C05.nodup_keys_groupColumns _)]
      intro k
      rw [mem_firstOccs, C05.mem_keys_groupColumns]
    constructor
    · intro h
      obtain ⟨ord, hord⟩ := Option.isSome_iff_exists.1 h
      obtain ⟨hp, hc⟩ := h1 ord hord
      refine ⟨ord.flatMap (C05.group (Dichotomous.columnsIndices m nc)),
        C05.expand_perm m nc ord (hp.trans hkeys), ?_⟩
      rw [← C05.rowsOK_iff_contiguous]
      intro row hrow
      obtain ⟨r, hr, rfl⟩ := List.getElem_of_mem hrow
      exact C05.expand_interval m nc ord r hr ((C05.elemConsecutive_iff ord r).1 (hc r))
    · rintro ⟨colOrd, hp, hrows⟩
      rw [← C05.rowsOK_iff_contiguous] at hrows
      cases hr : reorderSets (Dichotomous.columnsIndices m nc) with
      | some o => rfl
      | none =>
        exfalso
        apply h2 hr
        refine ⟨C05.dedup (colOrd.map (C05.support m)), (C05.supports_perm m nc colOrd hp).trans hkeys.symm, ?_⟩
        intro e
        rw [C05.elemConsecutive_iff]
        exact C05.supports_interval m colOrd (fun r hr => hrows _ (List.getElem_mem hr)) e

end PrefVerif.C05PQ
