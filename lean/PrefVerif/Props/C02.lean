import PrefVerif.Model.Ordinal
import PrefVerif.Spec.Ordinal
import PrefVerif.Lemmas.C02AList
import PrefVerif.Lemmas.C02Core
import PrefVerif.Lemmas.C02Step
import PrefVerif.Lemmas.C02VoteMap
import PrefVerif.Lemmas.C02Type
import PrefVerif.Lemmas.C02Sanity
import PrefVerif.Lemmas.C02Stats
import PrefVerif.Lemmas.C02Cex
/-!
# C02 — incrementally built ordinal instances stay consistent with the votes added

Property theorems only (helper lemmas live in `PrefVerif/Lemmas/C02*.lean`).
The main theorem is an invariant by induction over operation sequences.

Two hypotheses were added with respect to the first draft of the statements, each witnessed by a
machine-checked counterexample in `PrefVerif/Lemmas/C02Cex.lean`:
* `invariant`/`regroup` need a non-empty history: a fresh instance has `data_type = "toi"` whereas
  `infer_type()` of the vote-less instance (and `typeOfVotes _ []`) is `"soc"`
  (`C02.cex_invariant_nil`, `C02.cex_regroup_nil`);
* `inferType_eq` needs the votes to be well-formed: on the empty order, or an order with an empty
  class, `infer_type` and `isStrictOrder` disagree (`C02.cex_inferType_eq`).
All fields of `Consistent` other than `type` hold for every history, empty or not (`C02.run_pre`).
-/
namespace PrefVerif.C02
open PrefVerif PrefVerif.Ordinal PrefVerif.Spec PrefVerif.Py

/-- every reachable state (after at least one operation) is consistent with the multiset of votes
of its history -/
theorem invariant (h : List Op) (hwf : ∀ op ∈ h, wfOp op = true) (hne : h ≠ []) :
    Consistent (run h) (votesOfHistory h) := by
  have hp := run_pre h hwf
  apply cons_of_pre hp
  rw [run_dataType h hne]
  exact inferType_eq_typeOfVotes _ _ hp.mid.core.support (wf_votesOfHistory h hwf)

/-- two histories adding the same multiset of votes (regrouped, reordered, through different
entry points) give the same multiplicity function, counts, data type and the same *sets* of
orders and alternatives -/
theorem regroup (h₁ h₂ : List Op) (hwf₁ : ∀ op ∈ h₁, wfOp op = true) (hwf₂ : ∀ op ∈ h₂, wfOp op = true)
    (hne : h₁ = [] ↔ h₂ = [])
    (hp : (votesOfHistory h₁).Perm (votesOfHistory h₂)) :
    (∀ o, ((run h₁).multiplicity.get? o).getD 0 = ((run h₂).multiplicity.get? o).getD 0) ∧
    (run h₁).numVoters = (run h₂).numVoters ∧
    (run h₁).numUniqueOrders = (run h₂).numUniqueOrders ∧
    (run h₁).numAlternatives = (run h₂).numAlternatives ∧
    (∀ a, a ∈ (run h₁).altKeys ↔ a ∈ (run h₂).altKeys) ∧
    (∀ o, o ∈ (run h₁).orders ↔ o ∈ (run h₂).orders) ∧
    (run h₁).dataType = (run h₂).dataType := by
  have p₁ := (run_pre h₁ hwf₁).perm hp
  have p₂ := run_pre h₂ hwf₂
  have hords : ∀ o, o ∈ (run h₁).orders ↔ o ∈ (run h₂).orders := fun o => by
    rw [p₁.mid.core.support, p₂.mid.core.support]
  have halts : ∀ a, a ∈ (run h₁).altKeys ↔ a ∈ (run h₂).altKeys := fun a => by
    rw [p₁.mid.alts, p₂.mid.alts]
  have hnum : (run h₁).numAlternatives = (run h₂).numAlternatives := by
    rw [p₁.numAlts, p₂.numAlts]
    exact ((List.perm_ext_iff_of_nodup p₁.mid.altsNodup p₂.mid.altsNodup).2 halts).length_eq
  refine ⟨fun o => by rw [p₁.mid.core.cnt, p₂.mid.core.cnt], ?_, ?_, hnum, halts, hords, ?_⟩
  · rw [p₁.mid.voters, p₂.mid.voters]
  · rw [p₁.unique, p₂.unique]
    exact ((List.perm_ext_iff_of_nodup p₁.mid.core.nodup p₂.mid.core.nodup).2 hords).length_eq
  · by_cases he : h₁ = []
    · have he₂ := hne.1 he
      subst he; subst he₂; rfl
    · have he₂ : h₂ ≠ [] := fun e => he (hne.2 e)
      have c₁ := invariant h₁ hwf₁ he
      have c₂ := invariant h₂ hwf₂ he₂
      rw [c₁.type, c₂.type, hnum]
      unfold typeOfVotes
      rw [all_congr_mem (l₁ := votesOfHistory h₁) (l₂ := votesOfHistory h₂) (fun _ => hp.mem_iff)
          (fun _ _ => rfl),
        all_congr_mem (l₁ := votesOfHistory h₁) (l₂ := votesOfHistory h₂)
          (p := fun o => o.flatten.length == (run h₂).numAlternatives) (fun _ => hp.mem_iff)
          (fun _ _ => rfl)]

/-- `data_type` equals `infer_type()` in every consistent state of well-formed votes -/
theorem inferType_eq (s : OrdState) (v : List Order) (hc : Consistent s v)
    (hv : ∀ o ∈ v, wfVote o = true) : inferType s = s.dataType :=
  cons_inferType hc hv

/-- the views: `full_profile` is the multiset of votes, `vote_map` is the multiplicity function -/
theorem views (s : OrdState) (v : List Order) (hc : Consistent s v) :
    (fullProfile s).Perm v ∧ voteMap s = s.orders.map (fun o => (o, v.count o)) := by
  refine ⟨(cons_core hc).fullProfile_perm, ?_⟩
  unfold voteMap
  apply List.map_congr_left
  intro o _
  rw [hc.mult o]

/-- the library's own sanity checker raises no complaint at all on a consistent state built from
well-formed votes none of which uses the id 0 -/
theorem sanity_clean (s : OrdState) (v : List Order) (hc : Consistent s v)
    (hv : ∀ o ∈ v, wfVote o = true) (h0 : ∀ o ∈ v, 0 ∉ o.flatten) :
    sanityOrders s = [] := by
  have h1 := cons_length_eq hc
  have h2 := cons_voters_sum hc
  have h3 := hc.unique
  have h4 := cons_alts_le hc
  have h5 := cons_no_zero hc h0
  have h6 := cons_inferType hc hv
  have h7 := eraseDups_of_nodup _ hc.nodup
  have h8 : ∀ o ∈ s.orders, o.flatten.length ≤ s.numAlternatives := cons_ballot_le hc hv
  have h9 : ∀ o ∈ s.orders, o.flatten.eraseDups = o.flatten := fun o ho =>
    eraseDups_of_nodup _ ((wfVote_iff o).1 (hv o ((hc.support o).1 ho))).2.2
  have h10 : ∀ o ∈ s.orders, (s.dataType == "soc" || s.dataType == "soi") = true →
      (listMax (o.map List.length)).getD 0 = 1 := fun o ho => cons_strict_of_type hc hv o ho
  have c1 : (s.orders.length != s.multiplicity.length) = false := by simp [h1]
  have c2 : (s.numVoters != (AList.values s.multiplicity).sum) = false := by simp [← h2]
  have c3 : (s.numUniqueOrders != s.orders.length) = false := by simp [h3]
  have c4 : (!decide (((s.orders.map List.flatten).flatten.eraseDups).length ≤ s.numAlternatives))
      = false := by simp [h4]
  have c5 : ((s.orders.map List.flatten).flatten.eraseDups).contains 0 = false := by
    rw [List.contains_eq_mem]; simpa using h5
  have c6 : (s.dataType != inferType s) = false := by simp [h6]
  have c7 : (s.orders.eraseDups.length != s.orders.length) = false := by simp [h7]
  unfold sanityOrders
  simp only [c1, c2, c3, c4, c5, c6, c7, Bool.false_eq_true, if_false, List.nil_append,
    List.flatMap_eq_nil_iff]
  intro o ho
  have d1 : (!decide (o.flatten.length ≤ s.numAlternatives)) = false := by
    rw [decide_eq_true (h8 o ho)]; rfl
  have d2 : (!decide (o.flatten.length ≤ o.flatten.eraseDups.length)) = false := by
    rw [h9 o ho, decide_eq_true (Nat.le_refl _)]; rfl
  have d3 : ((s.dataType == "soc" || s.dataType == "soi") &&
      (listMax (o.map List.length)).getD 0 != 1) = false := by
    cases ht : (s.dataType == "soc" || s.dataType == "soi")
    · rfl
    · simp [h10 o ho ht]
  simp only [d1, d2, d3, Bool.false_eq_true, if_false, List.nil_append]

/-- `is_strict` / `is_complete` agree with `data_type` (for a non-empty profile; on a vote-less
instance the library helpers are undefined) -/
theorem type_agrees (s : OrdState) (v : List Order) (hc : Consistent s v)
    (hv : ∀ o ∈ v, wfVote o = true) (hne : v ≠ []) :
    isStrict s = (s.dataType == "soc" || s.dataType == "soi") ∧
    isComplete s = some (s.dataType == "soc" || s.dataType == "toc") := by
  rw [cons_isStrict hc hv hne, cons_isComplete hc hv hne, hc.type, typeOfVotes_strict,
    typeOfVotes_complete]
  exact ⟨rfl, rfl⟩

/-- non-vacuity: a mixed history satisfying the hypotheses -/
example : (∀ op ∈ [Op.order [1, 2, 3], Op.voteMap [([[1], [2, 3]], 2)], Op.list [[[1], [2], [3]]]],
    wfOp op = true) := by decide

end PrefVerif.C02
