import PrefVerif.Model.ILP
import PrefVerif.Spec.Domains
import PrefVerif.Spec.NearlySP
import PrefVerif.Props.C11
import PrefVerif.Lemmas.ILPModels
import PrefVerif.Lemmas.ILPAltDel
/-!
# C11 / C12 — semantics of the ILP models: feasible integral points ↔ single-peaked axes

Property theorems only (helper lemmas live in `PrefVerif/Lemmas/ILP*.lean`, namespace `PrefVerif.ILPP`).
`alts` are the alternatives in `alternatives_name` order (pairwise distinct); variables speak about
alternative *indices* `0 … m-1`.  An integral point: all `leftOf` / `del*` values in {0,1}, all `pos`
values integers in `[1, m]`.
-/
namespace PrefVerif.ILPP
open PrefVerif PrefVerif.ILP PrefVerif.Spec PrefVerif.C11 PrefVerif.C05

def IsBin (r : Rat) : Prop := r = 0 ∨ r = 1

/-- integrality / bounds of the variables as declared in the model -/
structure Integral (m nVoters : Nat) (asg : Var → Rat) : Prop where
  left : ∀ a b, a < m → b < m → IsBin (asg (.leftOf a b))
  pos : ∀ a, a < m → ∃ k : Nat, 1 ≤ k ∧ k ≤ m ∧ asg (.pos a) = k
  delV : ∀ v, v < nVoters → IsBin (asg (.delVoter v))
  delA : ∀ a, a < m → IsBin (asg (.delAlt a))

def Feasible (asg : Var → Rat) (cs : List Constr) : Prop := ∀ c ∈ cs, satisfies asg c = true

/-- the axis of alternatives described by an ordering of the indices -/
def axisOf (alts : List Nat) (axisIdx : List Nat) : List Nat := axisIdx.map (fun i => alts.getD i 0)

/-- completeness of `is_single_peaked_ILP`: every axis passing the test gives a feasible integral point -/
theorem sp_axis_feasible (alts : List Nat) (hn : alts.Nodup) (orders : List Order)
    (ho : ∀ o ∈ orders, CompleteOrder alts o) (axisIdx : List Nat)
    (hp : axisIdx.Perm (List.range alts.length)) (hsp : SPOnAxis orders (axisOf alts axisIdx)) :
    Integral alts.length orders.length (ofAxis axisIdx [] []) ∧
    Feasible (ofAxis axisIdx [] []) (spModel alts orders) := by
  have hmem : ∀ a, a < alts.length → a ∈ axisIdx := fun a ha => (mem_of_perm_range hp).2 ha
  have hlen : axisIdx.length = alts.length := by simpa using hp.length_eq
  refine ⟨⟨fun a b _ _ => ofAxis_bin axisIdx [] [] a b, fun a ha => ?_, fun v _ => Or.inl rfl,
    fun a _ => Or.inl rfl⟩, ?_⟩
  · have := List.idxOf_lt_length_of_mem (hmem a ha)
    exact ⟨axisIdx.idxOf a + 1, by omega, by omega, rfl⟩
  · have hbin : ∀ a b, a < alts.length → b < alts.length → Bin (ofAxis axisIdx [] [] (.leftOf a b)) :=
      fun a b _ _ => ofAxis_bin axisIdx [] [] a b
    refine (sat_model_iff _ _ _ _).2 ⟨ofAxis_sat_trans _ _ _ _, ofAxis_sat_total _ _ _ _ hp, ?_,
      ofAxis_sat_pos _ _ _ _ hp⟩
    exact (sat_consOnesCstr_iff alts orders hp (encodes_ofAxis ..) hbin).2
      ((consOnes_iff alts hn orders ho axisIdx hp).2 hsp)

/-- soundness: every feasible integral point encodes an axis passing the test, the `leftOf` variables
are exactly its "left of" relation, and the axis read back from the position variables is that axis
(in particular a permutation of the alternatives) -/
theorem sp_feasible_axis (alts : List Nat) (hn : alts.Nodup) (orders : List Order)
    (ho : ∀ o ∈ orders, CompleteOrder alts o) (asg : Var → Rat)
    (hi : Integral alts.length orders.length asg) (hf : Feasible asg (spModel alts orders)) :
    ∃ axisIdx : List Nat, axisIdx.Perm (List.range alts.length) ∧
      (∀ a b, a < alts.length → b < alts.length → a ≠ b →
        (asg (.leftOf a b) = 1 ↔ axisIdx.idxOf a < axisIdx.idxOf b)) ∧
      SPOnAxis orders (axisOf alts axisIdx) ∧
      (∀ a, a < alts.length → asg (.pos a) = (axisIdx.idxOf a + 1 : Nat)) := by
  obtain ⟨htr, htot, hco, hpos⟩ := (sat_model_iff _ _ _ _).1 hf
  obtain ⟨ax, hp, hE⟩ := encodes_of_sat hi.left htr htot
  refine ⟨ax, hp, fun a b ha hb hab =>
    hE.iff a ((mem_of_perm_range hp).2 ha) b ((mem_of_perm_range hp).2 hb) hab, ?_,
    fun a ha => pos_eq_rank hp hE hi.pos hpos a ha⟩
  exact (consOnes_iff alts hn orders ho ax hp).1 ((sat_consOnesCstr_iff alts orders hp hE hi.left).1 hco)

/-- hence the ILP is feasible iff the profile is single-peaked -/
theorem sp_feasible_iff (alts : List Nat) (hn : alts.Nodup) (orders : List Order)
    (ho : ∀ o ∈ orders, CompleteOrder alts o) :
    (∃ asg, Integral alts.length orders.length asg ∧ Feasible asg (spModel alts orders)) ↔ SP alts orders := by
  constructor
  · rintro ⟨asg, hi, hf⟩
    obtain ⟨ax, hp, _, hsp, _⟩ := sp_feasible_axis alts hn orders ho asg hi hf
    exact ⟨axisOf alts ax, relabel_perm alts ax hp, hsp⟩
  · rintro ⟨axis, hp, hsp⟩
    obtain ⟨idx, hpi, rfl⟩ := exists_relabel alts axis hn hp
    exact ⟨ofAxis idx [] [], sp_axis_feasible alts hn orders ho idx hpi hsp⟩

/-- voter deletion: an integral point is feasible iff the orders whose deletion variable is 0 are
single-peaked on the encoded axis; so the optimum of Σ delVoter is the minimum number of orders to delete -/
theorem votdel_axis_feasible (alts : List Nat) (hn : alts.Nodup) (orders : List Order)
    (ho : ∀ o ∈ orders, CompleteOrder alts o) (axisIdx : List Nat) (deleted : List Nat)
    (hp : axisIdx.Perm (List.range alts.length))
    (hsp : SPOnAxis ((orders.zipIdx.filter (fun oi => !deleted.contains oi.2)).map (·.1)) (axisOf alts axisIdx)) :
    Feasible (ofAxis axisIdx deleted []) (votDelModel alts orders) := by
  have hbin : ∀ a b, a < alts.length → b < alts.length → Bin (ofAxis axisIdx deleted [] (.leftOf a b)) :=
    fun a b _ _ => ofAxis_bin axisIdx deleted [] a b
  refine (sat_model_iff _ _ _ _).2 ⟨ofAxis_sat_trans _ _ _ _, ofAxis_sat_total _ _ _ _ hp, ?_,
    ofAxis_sat_pos _ _ _ _ hp⟩
  refine (sat_votDel_iff alts orders hp (encodes_ofAxis ..) hbin
    (fun v _ => ofAxis_delVoter_bin axisIdx deleted [] v)).2 ?_
  rw [keptVoters_ofAxis]
  exact (consOnes_iff alts hn _ (fun o hoo => ho o (keptVoters_subset orders _ o hoo)) axisIdx hp).2 hsp

theorem votdel_feasible_axis (alts : List Nat) (hn : alts.Nodup) (orders : List Order)
    (ho : ∀ o ∈ orders, CompleteOrder alts o) (asg : Var → Rat)
    (hi : Integral alts.length orders.length asg) (hf : Feasible asg (votDelModel alts orders)) :
    ∃ axisIdx : List Nat, axisIdx.Perm (List.range alts.length) ∧
      SPOnAxis ((orders.zipIdx.filter (fun oi => decide (asg (.delVoter oi.2) = 0))).map (·.1))
        (axisOf alts axisIdx) := by
  obtain ⟨htr, htot, hco, _⟩ := (sat_model_iff _ _ _ _).1 hf
  obtain ⟨ax, hp, hE⟩ := encodes_of_sat hi.left htr htot
  refine ⟨ax, hp, ?_⟩
  exact (consOnes_iff alts hn _ (fun o hoo => ho o (keptVoters_subset orders _ o hoo)) ax hp).1
    ((sat_votDel_iff alts orders hp hE hi.left hi.delV).1 hco)

/-- alternative deletion: feasibility ⇔ the profile restricted to the alternatives whose deletion
variable is 0 is single-peaked on the encoded axis restricted to them -/
theorem altdel_feasible_axis (alts : List Nat) (hn : alts.Nodup) (orders : List Order)
    (ho : ∀ o ∈ orders, CompleteOrder alts o) (asg : Var → Rat)
    (hi : Integral alts.length orders.length asg) (hf : Feasible asg (altDelModel alts orders)) :
    ∃ axisIdx : List Nat, axisIdx.Perm (List.range alts.length) ∧
      (let keep := (alts.zipIdx.filter (fun ai => decide (asg (.delAlt ai.2) = 0))).map (·.1)
       Nearly.spOnSubset orders keep ((axisOf alts axisIdx).filter (fun a => keep.contains a)) = true) := by
  obtain ⟨htr, htot, hco, _⟩ := (sat_model_iff _ _ _ _).1 hf
  obtain ⟨ax, hp, hE⟩ := encodes_of_sat hi.left htr htot
  refine ⟨ax, hp, ?_⟩
  have h := (sat_altDel_iff alts orders hp hE hi.left hi.delA
    (fun a => decide (asg (.delAlt a) = 0)) (fun a _ => by simp)).1 hco
  have h2 := (altDel_iff_spOnSubset alts hn orders ho ax hp _).1 h
  simp only [keepOf] at h2
  simp only [axisOf]
  exact h2

theorem altdel_axis_feasible (alts : List Nat) (hn : alts.Nodup) (orders : List Order)
    (ho : ∀ o ∈ orders, CompleteOrder alts o) (axisIdx : List Nat) (deletedIdx : List Nat)
    (hp : axisIdx.Perm (List.range alts.length))
    (hsp : let keep := (alts.zipIdx.filter (fun ai => !deletedIdx.contains ai.2)).map (·.1)
           Nearly.spOnSubset orders keep ((axisOf alts axisIdx).filter (fun a => keep.contains a)) = true) :
    Feasible (ofAxis axisIdx [] deletedIdx) (altDelModel alts orders) := by
  have hbin : ∀ a b, a < alts.length → b < alts.length → Bin (ofAxis axisIdx [] deletedIdx (.leftOf a b)) :=
    fun a b _ _ => ofAxis_bin axisIdx [] deletedIdx a b
  refine (sat_model_iff _ _ _ _).2 ⟨ofAxis_sat_trans _ _ _ _, ofAxis_sat_total _ _ _ _ hp, ?_,
    ofAxis_sat_pos _ _ _ _ hp⟩
  refine (sat_altDel_iff alts orders hp (encodes_ofAxis ..) hbin
    (fun a _ => ofAxis_delAlt_bin axisIdx [] deletedIdx a) (fun a => !deletedIdx.contains a)
    (fun a _ => ofAxis_delAlt_zero axisIdx [] deletedIdx a)).2 ?_
  refine (altDel_iff_spOnSubset alts hn orders ho axisIdx hp _).2 ?_
  simp only [axisOf] at hsp
  simp only [keepOf]
  exact hsp

end PrefVerif.ILPP
