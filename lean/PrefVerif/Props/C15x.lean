import PrefVerif.Props.C15
import PrefVerif.Props.C03Complete
import PrefVerif.Props.C04Complete
import PrefVerif.Props.C13Complete
import PrefVerif.Props.C05PQ
import PrefVerif.Lemmas.C15xRank
import PrefVerif.Lemmas.C15xTree
import PrefVerif.Lemmas.C15xC1P
/-!
# C15x — invariance of the VERDICTS of the recognisers whose models are proved exact

`is_single_peaked` (Escoffier–Lang–Öztürk, C03c), `is_single_crossing` / `…_conflict_sets` (C04c),
`is_single_peaked_on_tree` (Trick, C13c) and the PQ-tree `isC1P` (C05PQ) are proved to answer True
exactly when the specification holds.  The specifications do not depend on how the alternatives are
labelled or in which order the ballots (rows, columns) are stored — hence neither do the verdicts of
the models.  Property theorems only; helper lemmas live in `PrefVerif/Lemmas/C15x*.lean`.
-/
namespace PrefVerif.C15x
open PrefVerif PrefVerif.Spec PrefVerif.C15

/-- the verdict component of `is_single_peaked` -/
def eloVerdict (orders : List (List Nat)) : Option Bool := (ELO.isSinglePeaked orders).map (·.1)

/-! ### Escoffier–Lang–Öztürk -/

theorem elo_defined (alts : List Nat) (orders : List (List Nat)) (hr : C03.Rankings alts orders)
    (hne : orders ≠ []) : ∃ b, eloVerdict orders = some b := by
  exact ⟨_, C03c.verdict_eq_bruteSP alts orders hr hne⟩

theorem elo_relabel (σ : Nat → Nat) (hσ : Inj σ) (alts : List Nat) (orders : List (List Nat))
    (hr : C03.Rankings alts orders) (hne : orders ≠ []) :
    eloVerdict (orders.map (·.map σ)) = eloVerdict orders := by
  have hne' : orders.map (·.map σ) ≠ [] := by simpa using hne
  unfold eloVerdict
  rw [C03c.verdict_eq_bruteSP _ _ (rankings03_relabel hσ hr) hne',
    C03c.verdict_eq_bruteSP alts orders hr hne, map_wrap_relabel, bruteSP_relabel σ hσ]

theorem elo_perm (alts : List Nat) (orders orders' : List (List Nat))
    (hr : C03.Rankings alts orders) (hne : orders ≠ []) (hp : orders.Perm orders') :
    eloVerdict orders' = eloVerdict orders := by
  have hne' : orders' ≠ [] := fun h => hne (by simpa [h] using hp)
  unfold eloVerdict
  rw [C03c.verdict_eq_bruteSP _ _ (rankings03_perm hr hp) hne',
    C03c.verdict_eq_bruteSP alts orders hr hne,
    bruteSP_perm alts alts (List.Perm.refl _) _ _ (hp.map ELO.wrap)]

/-! ### single-crossing (both functions) -/

theorem sc_relabel (σ : Nat → Nat) (hσ : Inj σ) (alts : List Nat) (orders : List (List Nat))
    (hr : C04.Rankings alts orders) (hn : orders.Nodup) :
    (SingleCrossing.isSC (orders.map (·.map σ)) alts.length).1 = (SingleCrossing.isSC orders alts.length).1 := by
  have h := isSC_eq_bruteSC _ _ (rankings04_relabel hσ hr) (nodup_map_map_inj hσ hn)
  rw [List.length_map] at h
  rw [h, isSC_eq_bruteSC alts orders hr hn, bruteSC_relabel σ hσ]

theorem sc_perm (alts : List Nat) (orders orders' : List (List Nat))
    (hr : C04.Rankings alts orders) (hn : orders.Nodup) (hp : orders.Perm orders') :
    (SingleCrossing.isSC orders' alts.length).1 = (SingleCrossing.isSC orders alts.length).1 := by
  rw [isSC_eq_bruteSC _ _ (rankings04_perm hr hp) (hp.nodup_iff.1 hn),
    isSC_eq_bruteSC alts orders hr hn, bruteSC_perm alts orders orders' hp]

theorem scConflict_relabel (σ : Nat → Nat) (hσ : Inj σ) (alts : List Nat) (orders : List (List Nat))
    (hr : C04.Rankings alts orders) (hn : orders.Nodup) (hne : orders ≠ []) :
    SingleCrossing.isSCConflictSets (orders.map (·.map σ)) = SingleCrossing.isSCConflictSets orders := by
  have hne' : orders.map (·.map σ) ≠ [] := by simpa using hne
  have h := C04c.isSC_eq_conflictSets _ _ (rankings04_relabel hσ hr) (nodup_map_map_inj hσ hn) hne'
  rw [List.length_map] at h
  rw [← h, ← C04c.isSC_eq_conflictSets alts orders hr hn hne]
  exact sc_relabel σ hσ alts orders hr hn

theorem scConflict_perm (alts : List Nat) (orders orders' : List (List Nat))
    (hr : C04.Rankings alts orders) (hn : orders.Nodup) (hne : orders ≠ []) (hp : orders.Perm orders') :
    SingleCrossing.isSCConflictSets orders' = SingleCrossing.isSCConflictSets orders := by
  have hne' : orders' ≠ [] := fun h => hne (by simpa [h] using hp)
  rw [← C04c.isSC_eq_conflictSets _ _ (rankings04_perm hr hp) (hp.nodup_iff.1 hn) hne',
    ← C04c.isSC_eq_conflictSets alts orders hr hn hne]
  exact sc_perm alts orders orders' hr hn hp

/-! ### Trick's algorithm -/

theorem sptree_relabel (σ : Nat → Nat) (hσ : Inj σ) (alts : List Nat) (orders : List (List Nat))
    (hr : C13.Rankings alts orders) (hne : orders ≠ []) (h2 : 2 ≤ alts.length) :
    (SPTree.isSPOnTree (alts.map σ) (orders.map (·.map σ))).isSome = (SPTree.isSPOnTree alts orders).isSome := by
  have hne' : orders.map (·.map σ) ≠ [] := by simpa using hne
  have h2' : 2 ≤ (alts.map σ).length := by simpa using h2
  rw [Bool.eq_iff_iff, C13c.isSPOnTree_exact _ _ (rankings13_relabel hσ hr) hne' h2',
    C13c.isSPOnTree_exact alts orders hr hne h2]
  exact exists_sptOn_relabel hσ alts orders

theorem sptree_perm (alts alts' : List Nat) (orders orders' : List (List Nat))
    (hr : C13.Rankings alts orders) (hne : orders ≠ []) (h2 : 2 ≤ alts.length)
    (ha : alts.Perm alts') (hp : orders.Perm orders') :
    (SPTree.isSPOnTree alts' orders').isSome = (SPTree.isSPOnTree alts orders).isSome := by
  have hne' : orders' ≠ [] := fun h => hne (by simpa [h] using hp)
  have h2' : 2 ≤ alts'.length := by rw [← ha.length_eq]; exact h2
  rw [Bool.eq_iff_iff, C13c.isSPOnTree_exact _ _ (rankings13_perm hr ha hp) hne' h2',
    C13c.isSPOnTree_exact alts orders hr hne h2]
  exact exists_congr (fun t => (sptOn_perm ha hp t).symm)

/-! ### PQ-tree: rows in another order, columns in another order -/

theorem isC1P_rows_perm (m m' : Dichotomous.Matrix) (nc : Nat) (hp : m.Perm m') :
    PQTree.isC1P m' nc = PQTree.isC1P m nc := by
  rw [Bool.eq_iff_iff, C05PQ.isC1P_iff, C05PQ.isC1P_iff]
  exact (c1p_rowsOfMatrix_perm nc hp).symm

/-- the matrix with its columns rearranged: column `j` of the result is column `π[j]` of `m` -/
def permuteColumns (π : List Nat) (m : Dichotomous.Matrix) : Dichotomous.Matrix :=
  m.map (fun row => π.map (fun c => row.getD c 0))

theorem isC1P_columns_perm (m : Dichotomous.Matrix) (nc : Nat) (π : List Nat)
    (hπ : π.Perm (List.range nc)) (hrows : ∀ row ∈ m, row.length = nc) :
    PQTree.isC1P (permuteColumns π m) nc = PQTree.isC1P m nc := by
  have _ := hrows   -- not needed: entries outside the row count as 0 on both sides
  rw [Bool.eq_iff_iff, C05PQ.isC1P_iff, C05PQ.isC1P_iff]
  exact c1p_permCols m nc π hπ

/-! ### the hypotheses are satisfiable and the statements are not vacuous -/

example : C03.Rankings [1, 2, 3] [[1, 2, 3], [3, 2, 1], [2, 3, 1]] := by
  refine ⟨by decide, ?_⟩
  intro o ho
  simp only [List.mem_cons, List.not_mem_nil, or_false] at ho
  rcases ho with rfl | rfl | rfl <;> refine ⟨by decide, fun a => ?_⟩ <;> simp <;> omega

example : eloVerdict [[1, 2, 3], [3, 2, 1], [2, 3, 1]] = some true := by decide +kernel
example : eloVerdict [[1, 2, 3], [3, 2, 1], [1, 3, 2]] = some false := by decide +kernel
example : eloVerdict ([[1, 2, 3], [3, 2, 1], [1, 3, 2]].map (·.map (fun a => 10 - a))) = some false := by decide +kernel

end PrefVerif.C15x
