import PrefVerif.Model.Dichotomous
import PrefVerif.Spec.Approval
import PrefVerif.Lemmas.C05Seg
import PrefVerif.Lemmas.C05Contig
import PrefVerif.Lemmas.C05Perm
import PrefVerif.Lemmas.C05Part
import PrefVerif.Lemmas.C05SegOps
import PrefVerif.Lemmas.C05Group
import PrefVerif.Lemmas.C05Solve
import PrefVerif.Lemmas.C05Reduce
import PrefVerif.Lemmas.C05CI
import PrefVerif.Lemmas.C05Extremal
import PrefVerif.Lemmas.C05CEI
import PrefVerif.Lemmas.C05VI
import PrefVerif.Lemmas.C05WSC
import PrefVerif.Lemmas.C05DE
import PrefVerif.Lemmas.C05DESound
import PrefVerif.Lemmas.C05DEComplete
/-!
# C05 — approval-domain recognisers: sound, complete, valid witnesses (modulo the PQ-tree contract)

Property theorems only (helper lemmas live in `PrefVerif/Lemmas/C05*.lean`).
The PQ-tree `reorder_sets` is the parameter `solver`; everything is proved for every solver that
meets `SolverOK`.  Approval profiles: `approved` lists the approved set of every ballot (repeats,
empty and full sets allowed); alternatives are pairwise distinct.
-/
namespace PrefVerif.C05
open PrefVerif PrefVerif.Dichotomous PrefVerif.Spec PrefVerif.Spec.Approval

/-- element `e` occurs in an interval of the sequence of sets -/
def ElemConsecutive (ord : List (List Nat)) (e : Nat) : Prop :=
  ∀ i j k : Nat, i < j → j < k → (hk : k < ord.length) → e ∈ ord[i]! → e ∈ ord[k]! → e ∈ ord[j]!

/-- contract of `reorder_sets` on pairwise distinct sets: it returns a rearrangement in which every
element occurs in an interval, and raises (`none`) only if no such rearrangement exists -/
def SolverOK (solver : Solver) : Prop :=
  ∀ sets : List (List Nat), sets.Nodup →
    (∀ ord, solver sets = some ord → ord.Perm sets ∧ ∀ e, ElemConsecutive ord e) ∧
    (solver sets = none → ¬ ∃ ord : List (List Nat), ord.Perm sets ∧ ∀ e, ElemConsecutive ord e)

/-- a matrix with `nc` columns: every row has exactly `nc` entries, all 0 or 1 -/
def WFMatrix (m : Matrix) (nc : Nat) : Prop := ∀ row ∈ m, row.length = nc ∧ ∀ v ∈ row, v = 0 ∨ v = 1

theorem elemConsecutive_iff (ord : List (List Nat)) (e : Nat) :
    ElemConsecutive ord e ↔ Interval (fun k => e ∈ k) ord :=
  interval_bang_iff (fun k => e ∈ k) ord

/-- the contract in the interval form used by the helper lemmas -/
theorem SolverOK.toI {solver : Solver} (hs : SolverOK solver) : SolverOKI solver := by
  intro sets hnd
  have := hs sets hnd
  simp only [elemConsecutive_iff] at this
  exact this

/-! ### checkers and deciders -/

theorem contiguous_iff (axis S : List Nat) : contiguous axis S = true ↔ Contiguous axis S :=
  (contiguous_iff_interval axis S).trans (contiguous_def_iff axis S).symm

theorem mem_perms {α : Type} (l l' : List α) : l' ∈ perms l ↔ l'.Perm l := mem_perms_iff l l'

theorem c1pWitness_iff (n : Nat) (rows : List (List Nat)) (ord : List Nat) :
    c1pWitness n rows ord = true ↔ (ord.Perm (List.range n) ∧ ∀ r ∈ rows, Contiguous ord r) := by
  simp only [c1pWitness, Bool.and_eq_true, isPermOf_range_iff, List.all_eq_true, contiguous_iff]

theorem bruteC1P_iff (n : Nat) (rows : List (List Nat)) : bruteC1P n rows = true ↔ C1P n rows := by
  simp only [bruteC1P, C1P, List.any_eq_true, mem_perms, List.all_eq_true, contiguous_iff]

/-! ### the glue of `solve_consecutive_ones` -/

/-- sound, complete, and the order is a permutation of ALL column indices — also with repeated
and all-zero rows or columns -/
theorem solveC1_correct (solver : Solver) (hs : SolverOK solver) (m : Matrix) (nc : Nat) (hm : WFMatrix m nc) :
    (∀ ord, solveC1 solver m nc = some ord → c1pWitness nc (rowsOfMatrix m) ord = true) ∧
    (solveC1 solver m nc = none → ¬ C1P nc (rowsOfMatrix m)) := by
  have _ := hm   -- well-formedness is not needed: entries other than 1 count as 0, missing entries too
  obtain ⟨h1, h2⟩ := solveC1_spec solver hs.toI m nc
  constructor
  · intro ord ho
    rw [c1pWitness_iff, ← rowsOK_iff_contiguous]
    exact h1 ord ho
  · intro hn
    simp only [C1P, ← rowsOK_iff_contiguous]
    exact h2 hn

/-! ### the reductions -/

theorem candidateInterval_correct (solver : Solver) (hs : SolverOK solver) (alts : List Nat) (hn : alts.Nodup)
    (approved : List (List Nat)) :
    (∀ order, isCandidateInterval solver alts approved = some order → ciWitness alts approved order = true) ∧
    (isCandidateInterval solver alts approved = none → ¬ ∃ order, ciWitness alts approved order = true) :=
  candidateInterval_spec solver hs.toI alts hn approved

/-- matrix and complement both consecutive ⇔ every approval set is a prefix or a suffix -/
theorem candidateExtremalInterval_correct (solver : Solver) (hs : SolverOK solver) (alts : List Nat)
    (hn : alts.Nodup) (approved : List (List Nat)) :
    (∀ order, isCandidateExtremalInterval solver alts approved = some order →
        ceiWitness alts approved order = true) ∧
    (isCandidateExtremalInterval solver alts approved = none →
        ¬ ∃ order, ceiWitness alts approved order = true) :=
  candidateExtremalInterval_spec solver hs.toI alts hn approved

theorem voterInterval_correct (solver : Solver) (hs : SolverOK solver) (alts : List Nat) (hn : alts.Nodup)
    (approved : List (List Nat)) :
    (∀ order, isVoterInterval solver alts approved = some order → viWitness alts approved order = true) ∧
    (isVoterInterval solver alts approved = none → ¬ ∃ order, viWitness alts approved order = true) := by
  have _ := hn   -- not needed: repeated alternatives only repeat rows of the transposed matrix
  exact voterInterval_spec solver hs.toI alts approved

theorem voterExtremalInterval_correct (solver : Solver) (hs : SolverOK solver) (alts : List Nat)
    (hn : alts.Nodup) (approved : List (List Nat)) :
    (∀ order, isVoterExtremalInterval solver alts approved = some order →
        veiWitness alts approved order = true) ∧
    (isVoterExtremalInterval solver alts approved = none →
        ¬ ∃ order, veiWitness alts approved order = true) := by
  have _ := hn   -- not needed
  exact voterExtremalInterval_spec solver hs.toI alts approved

theorem weaklySingleCrossing_correct (solver : Solver) (hs : SolverOK solver) (alts : List Nat)
    (hn : alts.Nodup) (approved : List (List Nat)) :
    (∀ order, isWeaklySingleCrossing solver alts approved = some order →
        wscWitness alts approved order = true) ∧
    (isWeaklySingleCrossing solver alts approved = none →
        ¬ ∃ order, wscWitness alts approved order = true) := by
  have _ := hn   -- not needed: a pair `(a, a)` only contributes two all-zero rows
  exact weaklySingleCrossing_spec solver hs.toI alts approved

/-- dichotomous Euclidean: the positions and radii realise exactly the approved sets (empty ballots
at −1), and the answer is False only if no embedding on the line exists at all -/
theorem dichotomousEuclidean_correct (solver : Solver) (hs : SolverOK solver) (alts : List Nat)
    (hn : alts.Nodup) (approved : List (List Nat)) (hsub : ∀ s ∈ approved, ∀ a ∈ s, a ∈ alts) :
    (∀ v p, isDichotomousEuclidean solver alts approved = some (v, p) → deWitness alts approved v p = true) ∧
    (isDichotomousEuclidean solver alts approved = none →
        ¬ ∃ (v : List (Int × Int)) (p : List (Nat × Nat)), deWitness alts approved v p = true) :=
  dichotomousEuclidean_spec solver hs.toI alts hn approved hsub

theorem part_correct (approved : List (List Nat)) :
    (∀ parts, isPart approved = some parts → partWitness approved parts = true) ∧
    (isPart approved = none ↔ isPartition approved = false) := by
  obtain ⟨h1, h2⟩ := isPart_spec approved
  refine ⟨fun parts hp => (h1 parts hp).partWitness, fun hn => (h2 hn).not_isPartition, fun hf => ?_⟩
  cases hp : isPart approved with
  | none => rfl
  | some parts => have := (h1 parts hp).isPartition; rw [hf] at this; contradiction

theorem part2_correct (alts : List Nat) (approved : List (List Nat)) (hne : ∀ s ∈ approved, s ≠ []) :
    ((is2Part alts approved).isSome = is2Partition alts approved) ∧
    (∀ parts, is2Part alts approved = some parts → partWitness approved parts = true) := by
  have _ := hne   -- not needed: empty approval sets are handled alike by model and specification
  obtain ⟨h1, h2⟩ := isPart_spec approved
  cases hp : isPart approved with
  | none =>
    have hf := (h2 hp).not_isPartition
    simp [is2Part, hp, is2Partition, hf]
  | some parts =>
    have hinv := h1 parts hp
    have hd := hinv.eq
    constructor
    · simp only [is2Part, hp, is2Partition, hinv.isPartition, Bool.true_and, ← hd]
      by_cases hl : parts.length ≤ 1
      · simp [hl]
      · match parts, hl with
        | [], hl => simp at hl
        | [_], hl => simp at hl
        | [p0, p1], _ =>
          simp only [List.length_cons, List.length_nil, Nat.reduceAdd, Nat.reduceLeDiff, if_false,
            BEq.rfl, Bool.true_and, List.getD_cons_zero, List.getD_cons_succ, List.any_cons,
            List.any_nil, Bool.or_false, decide_false, Bool.false_or]
          cases alts.all (fun a => p0.contains a || p1.contains a) <;> simp
        | _ :: _ :: _ :: _, _ => simp
    · intro parts' hp'
      simp only [is2Part, hp] at hp'
      split at hp'
      · cases hp'; exact hinv.partWitness
      · split at hp'
        · cases hp'; exact hinv.partWitness
        · cases hp'

end PrefVerif.C05
