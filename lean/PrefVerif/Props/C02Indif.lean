import PrefVerif.Model.OrdinalStats
import PrefVerif.Spec.Ordinal
/-!
Property theorems for the indifference-class statistics of `properties/basic.py`
(part of C02: the statistics are functions of the stored orders alone).
-/
namespace PrefVerif.C02Indif
open PrefVerif PrefVerif.Ordinal PrefVerif.Py PrefVerif.Spec

theorem foldl_max_spec (l : List Nat) (a : Nat) :
    a ≤ l.foldl max a ∧ (∀ x ∈ l, x ≤ l.foldl max a) ∧ (l.foldl max a = a ∨ l.foldl max a ∈ l) := by
  induction l generalizing a with
  | nil => simp
  | cons x xs ih =>
    obtain ⟨h1, h2, h3⟩ := ih (max a x)
    simp only [List.foldl_cons, List.mem_cons, forall_eq_or_imp]
    refine ⟨by omega, ⟨by omega, h2⟩, ?_⟩
    rcases h3 with h | h
    · by_cases hax : a ≤ x
      · right; left; omega
      · left; omega
    · right; right; exact h

theorem foldl_min_spec (l : List Nat) (a : Nat) :
    l.foldl min a ≤ a ∧ (∀ x ∈ l, l.foldl min a ≤ x) ∧ (l.foldl min a = a ∨ l.foldl min a ∈ l) := by
  induction l generalizing a with
  | nil => simp
  | cons x xs ih =>
    obtain ⟨h1, h2, h3⟩ := ih (min a x)
    simp only [List.foldl_cons, List.mem_cons, forall_eq_or_imp]
    refine ⟨by omega, ⟨by omega, h2⟩, ?_⟩
    rcases h3 with h | h
    · by_cases hax : a ≤ x
      · left; omega
      · right; left; omega
    · right; right; exact h

/-- `max_num_indif` is an upper bound over the stored orders and is attained (or is the default 0). -/
theorem maxNumIndif_spec (s : OrdState) :
    (∀ o ∈ s.orders, numIndif o ≤ maxNumIndif s) ∧
    (maxNumIndif s = 0 ∨ ∃ o ∈ s.orders, numIndif o = maxNumIndif s) := by
  obtain ⟨_, h2, h3⟩ := foldl_max_spec (s.orders.map numIndif) 0
  refine ⟨fun o ho => h2 _ (List.mem_map.2 ⟨o, ho, rfl⟩), ?_⟩
  rcases h3 with h | h
  · left; exact h
  · right
    obtain ⟨o, ho, he⟩ := List.mem_map.1 h
    exact ⟨o, ho, he⟩

/-- `min_num_indif` is a lower bound over the stored orders, at most `num_alternatives`, and attained. -/
theorem minNumIndif_spec (s : OrdState) :
    (∀ o ∈ s.orders, minNumIndif s ≤ numIndif o) ∧ minNumIndif s ≤ s.numAlternatives ∧
    (minNumIndif s = s.numAlternatives ∨ ∃ o ∈ s.orders, numIndif o = minNumIndif s) := by
  obtain ⟨h1, h2, h3⟩ := foldl_min_spec (s.orders.map numIndif) s.numAlternatives
  refine ⟨fun o ho => h2 _ (List.mem_map.2 ⟨o, ho, rfl⟩), h1, ?_⟩
  rcases h3 with h | h
  · left; exact h
  · right
    obtain ⟨o, ho, he⟩ := List.mem_map.1 h
    exact ⟨o, ho, he⟩

theorem minNumIndif_le_max (s : OrdState) (hne : s.orders ≠ []) : minNumIndif s ≤ maxNumIndif s := by
  cases hos : s.orders with
  | nil => exact absurd hos hne
  | cons o os =>
    have ho : o ∈ s.orders := hos ▸ List.mem_cons_self ..
    exact Nat.le_trans ((minNumIndif_spec s).1 o ho) ((maxNumIndif_spec s).1 o ho)

/-- `smallest_indif` bounds every non-empty class from below and `largest_indif` from above. -/
theorem indif_bounds (s : OrdState) (o : Order) (ho : o ∈ s.orders) (c : List Nat) (hc : c ∈ o)
    (hpos : 0 < c.length) : smallestIndif s ≤ c.length ∧ c.length ≤ largestIndif s := by
  have hm : c.length ∈ (s.orders.flatten.map List.length).filter (· > 0) := by
    simp only [List.mem_filter, List.mem_map, List.mem_flatten, decide_eq_true_eq]
    exact ⟨⟨c, ⟨o, ho, hc⟩, rfl⟩, hpos⟩
  exact ⟨(foldl_min_spec _ _).2.1 _ hm, (foldl_max_spec _ _).2.1 _ hm⟩

/-- a strict profile has no indifference class of more than one alternative -/
theorem isStrict_maxNumIndif (s : OrdState) (h : isStrict s = true) : maxNumIndif s = 0 := by
  rcases (maxNumIndif_spec s).2 with h0 | ⟨o, ho, he⟩
  · exact h0
  · rw [← he]
    unfold numIndif
    rw [List.length_eq_zero_iff, List.filter_eq_nil_iff]
    intro c hc
    by_cases hpos : 0 < c.length
    · have := (indif_bounds s o ho c hc hpos).2
      unfold isStrict at h
      have h1 : largestIndif s = 1 := by simpa using h
      simp; omega
    · simp; omega


/-! ### the statistics are functions of the multiset of votes added (C02: "ballot-size statistics
agree with that multiset") -/

theorem foldl_max_congr_mem (l l' : List Nat) (a : Nat) (h : ∀ x, x ∈ l ↔ x ∈ l') :
    l.foldl max a = l'.foldl max a := by
  obtain ⟨h1, h2, h3⟩ := foldl_max_spec l a
  obtain ⟨k1, k2, k3⟩ := foldl_max_spec l' a
  apply Nat.le_antisymm
  · rcases h3 with e | e
    · omega
    · exact k2 _ ((h _).1 e)
  · rcases k3 with e | e
    · omega
    · exact h2 _ ((h _).2 e)

theorem foldl_min_congr_mem (l l' : List Nat) (a : Nat) (h : ∀ x, x ∈ l ↔ x ∈ l') :
    l.foldl min a = l'.foldl min a := by
  obtain ⟨h1, h2, h3⟩ := foldl_min_spec l a
  obtain ⟨k1, k2, k3⟩ := foldl_min_spec l' a
  apply Nat.le_antisymm
  · rcases k3 with e | e
    · omega
    · exact h2 _ ((h _).2 e)
  · rcases h3 with e | e
    · omega
    · exact k2 _ ((h _).1 e)

/-- the statistics computed from the list of votes itself (with repetitions, in the order added) -/
def votesMaxNumIndif (v : List Order) : Nat := (v.map numIndif).foldl max 0
def votesMinNumIndif (n : Nat) (v : List Order) : Nat := (v.map numIndif).foldl min n
def votesLargestIndif (v : List Order) : Nat := ((v.flatten.map List.length).filter (· > 0)).foldl max 0
def votesSmallestIndif (n : Nat) (v : List Order) : Nat := ((v.flatten.map List.length).filter (· > 0)).foldl min n

/-- In every state consistent with the votes added (every reachable state, by `C02.invariant`), the
four indifference statistics equal the statistics of the votes themselves, however batched. -/
theorem indif_stats_of_votes {s : OrdState} {v : List Order} (hc : Consistent s v) :
    maxNumIndif s = votesMaxNumIndif v ∧ minNumIndif s = votesMinNumIndif s.numAlternatives v ∧
    largestIndif s = votesLargestIndif v ∧ smallestIndif s = votesSmallestIndif s.numAlternatives v := by
  have hm : ∀ x, x ∈ s.orders.map numIndif ↔ x ∈ v.map numIndif := by
    intro x; simp only [List.mem_map]
    constructor
    · rintro ⟨o, ho, e⟩; exact ⟨o, (hc.support o).1 ho, e⟩
    · rintro ⟨o, ho, e⟩; exact ⟨o, (hc.support o).2 ho, e⟩
  have hf : ∀ x, x ∈ (s.orders.flatten.map List.length).filter (· > 0) ↔
      x ∈ (v.flatten.map List.length).filter (· > 0) := by
    intro x; simp only [List.mem_filter, List.mem_map, List.mem_flatten]
    constructor
    · rintro ⟨⟨c, ⟨o, ho, hco⟩, e⟩, hp⟩; exact ⟨⟨c, ⟨o, (hc.support o).1 ho, hco⟩, e⟩, hp⟩
    · rintro ⟨⟨c, ⟨o, ho, hco⟩, e⟩, hp⟩; exact ⟨⟨c, ⟨o, (hc.support o).2 ho, hco⟩, e⟩, hp⟩
  exact ⟨foldl_max_congr_mem _ _ _ hm, foldl_min_congr_mem _ _ _ hm,
    foldl_max_congr_mem _ _ _ hf, foldl_min_congr_mem _ _ _ hf⟩

/-- regrouping / reordering the same votes cannot change the statistics -/
theorem indif_stats_regroup {s s' : OrdState} {v v' : List Order} (hc : Consistent s v)
    (hc' : Consistent s' v') (hp : ∀ o, o ∈ v ↔ o ∈ v') :
    maxNumIndif s = maxNumIndif s' ∧ largestIndif s = largestIndif s' := by
  have hs : ∀ o, o ∈ s.orders ↔ o ∈ s'.orders := fun o =>
    (hc.support o).trans ((hp o).trans (hc'.support o).symm)
  refine ⟨foldl_max_congr_mem _ _ _ ?_, foldl_max_congr_mem _ _ _ ?_⟩
  · intro x; simp only [List.mem_map]
    exact ⟨fun ⟨o, ho, e⟩ => ⟨o, (hs o).1 ho, e⟩, fun ⟨o, ho, e⟩ => ⟨o, (hs o).2 ho, e⟩⟩
  · intro x; simp only [List.mem_filter, List.mem_map, List.mem_flatten]
    exact ⟨fun ⟨⟨c, ⟨o, ho, hco⟩, e⟩, hp⟩ => ⟨⟨c, ⟨o, (hs o).1 ho, hco⟩, e⟩, hp⟩,
      fun ⟨⟨c, ⟨o, ho, hco⟩, e⟩, hp⟩ => ⟨⟨c, ⟨o, (hs o).2 ho, hco⟩, e⟩, hp⟩⟩

-- non-vacuity: a concrete weak profile
example : maxNumIndif { init with orders := [[[1,2],[3]], [[1],[2],[3]]], numAlternatives := 3 } = 1 ∧
    minNumIndif { init with orders := [[[1,2],[3]], [[1],[2],[3]]], numAlternatives := 3 } = 0 ∧
    smallestIndif { init with orders := [[[1,2],[3]], [[1],[2],[3]]], numAlternatives := 3 } = 1 ∧
    isStrict { init with orders := [[[1],[2],[3]]], numAlternatives := 3 } = true := by decide

end PrefVerif.C02Indif
