import PrefVerif.Model.OrdinalStats
/-!
Property theorems for the indifference-class statistics of `properties/basic.py`
(part of C02: the statistics are functions of the stored orders alone).
-/
namespace PrefVerif.C02Indif
open PrefVerif PrefVerif.Ordinal PrefVerif.Py

theorem foldl_max_spec (l : List Nat) (a : Nat) :
    a ≤ l.foldl max a ∧ (∀ x ∈ l, x ≤ l.foldl max a) ∧ (l.foldl max a = a ∨ l.foldl max a ∈ l) := by
  induction l generalizing a with
  | nil => simp
  | cons x xs ih =>
    obtain ⟨h1, h2, h3⟩ := ih (max a x)
    simp only [List.foldl_cons, List.mem_cons, forall_eq_or_imp]
    refine ⟨by omega, ⟨by omega, h2⟩, ?_⟩
    rcases h3 with h | h
    · by_cases hax : a ≤ x
      · right; left; omega
      · left; omega
    · right; right; exact h

theorem foldl_min_spec (l : List Nat) (a : Nat) :
    l.foldl min a ≤ a ∧ (∀ x ∈ l, l.foldl min a ≤ x) ∧ (l.foldl min a = a ∨ l.foldl min a ∈ l) := by
  induction l generalizing a with
  | nil => simp
  | cons x xs ih =>
    obtain ⟨h1, h2, h3⟩ := ih (min a x)
    simp only [List.foldl_cons, List.mem_cons, forall_eq_or_imp]
    refine ⟨by omega, ⟨by omega, h2⟩, ?_⟩
    rcases h3 with h | h
    · by_cases hax : a ≤ x
      · left; omega
      · right; left; omega
    · right; right; exact h

/-- `max_num_indif` is an upper bound over the stored orders and is attained (or is the default 0). -/
theorem maxNumIndif_spec (s : OrdState) :
    (∀ o ∈ s.orders, numIndif o ≤ maxNumIndif s) ∧
    (maxNumIndif s = 0 ∨ ∃ o ∈ s.orders, numIndif o = maxNumIndif s) := by
  obtain ⟨_, h2, h3⟩ := foldl_max_spec (s.orders.map numIndif) 0
  refine ⟨fun o ho => h2 _ (List.mem_map.2 ⟨o, ho, rfl⟩), ?_⟩
  rcases h3 with h | h
  · left; exact h
  · right
    obtain ⟨o, ho, he⟩ := List.mem_map.1 h
    exact ⟨o, ho, he⟩

/-- `min_num_indif` is a lower bound over the stored orders, at most `num_alternatives`, and attained. -/
theorem minNumIndif_spec (s : OrdState) :
    (∀ o ∈ s.orders, minNumIndif s ≤ numIndif o) ∧ minNumIndif s ≤ s.numAlternatives ∧
    (minNumIndif s = s.numAlternatives ∨ ∃ o ∈ s.orders, numIndif o = minNumIndif s) := by
  obtain ⟨h1, h2, h3⟩ := foldl_min_spec (s.orders.map numIndif) s.numAlternatives
  refine ⟨fun o ho => h2 _ (List.mem_map.2 ⟨o, ho, rfl⟩), h1, ?_⟩
  rcases h3 with h | h
  · left; exact h
  · right
    obtain ⟨o, ho, he⟩ := List.mem_map.1 h
    exact ⟨o, ho, he⟩

theorem minNumIndif_le_max (s : OrdState) (hne : s.orders ≠ []) : minNumIndif s ≤ maxNumIndif s := by
  cases hos : s.orders with
  | nil => exact absurd hos hne
  | cons o os =>
    have ho : o ∈ s.orders := hos ▸ List.mem_cons_self ..
    exact Nat.le_trans ((minNumIndif_spec s).1 o ho) ((maxNumIndif_spec s).1 o ho)

/-- `smallest_indif` bounds every non-empty class from below and `largest_indif` from above. -/
theorem indif_bounds (s : OrdState) (o : Order) (ho : o ∈ s.orders) (c : List Nat) (hc : c ∈ o)
    (hpos : 0 < c.length) : smallestIndif s ≤ c.length ∧ c.length ≤ largestIndif s := by
  have hm : c.length ∈ (s.orders.flatten.map List.length).filter (· > 0) := by
    simp only [List.mem_filter, List.mem_map, List.mem_flatten, decide_eq_true_eq]
    exact ⟨⟨c, ⟨o, ho, hc⟩, rfl⟩, hpos⟩
  exact ⟨(foldl_min_spec _ _).2.1 _ hm, (foldl_max_spec _ _).2.1 _ hm⟩

/-- a strict profile has no indifference class of more than one alternative -/
theorem isStrict_maxNumIndif (s : OrdState) (h : isStrict s = true) : maxNumIndif s = 0 := by
  rcases (maxNumIndif_spec s).2 with h0 | ⟨o, ho, he⟩
  · exact h0
  · rw [← he]
    unfold numIndif
    rw [List.length_eq_zero_iff, List.filter_eq_nil_iff]
    intro c hc
    by_cases hpos : 0 < c.length
    · have := (indif_bounds s o ho c hc hpos).2
      unfold isStrict at h
      have h1 : largestIndif s = 1 := by simpa using h
      simp; omega
    · simp; omega

-- non-vacuity: a concrete weak profile
example : maxNumIndif { init with orders := [[[1,2],[3]], [[1],[2],[3]]], numAlternatives := 3 } = 1 ∧
    minNumIndif { init with orders := [[[1,2],[3]], [[1],[2],[3]]], numAlternatives := 3 } = 0 ∧
    smallestIndif { init with orders := [[[1,2],[3]], [[1],[2],[3]]], numAlternatives := 3 } = 1 ∧
    isStrict { init with orders := [[[1],[2],[3]]], numAlternatives := 3 } = true := by decide

end PrefVerif.C02Indif
