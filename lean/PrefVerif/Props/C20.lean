import PrefVerif.Model.Distances
import PrefVerif.Spec.Distances
import PrefVerif.Lemmas.C20Kendall
import PrefVerif.Lemmas.C20Misc
import PrefVerif.Lemmas.C20Footrule
/-!
# C20 — ranking distances are true distances; distance matrix matches the profile

Property theorems only (helper lemmas live in `PrefVerif/Lemmas/C20*.lean`).
-/
namespace PrefVerif.C20
open PrefVerif.Distances PrefVerif.Spec

/-- rankings of different length are refused (all three distances) -/
theorem length_mismatch_refused (a b : List Nat) (h : a.length ≠ b.length) :
    kendallTau? a b = none ∧ footrule? a b = none ∧ sertel? a b = none := by
  simp [kendallTau?, footrule?, sertel?, h]

/-- inside the domain the guarded functions return the raw loops -/
theorem defined_on_domain (a b : List Nat) (h : SameRanking a b) :
    kendallTau? a b = some (kt a b) ∧ footrule? a b = some (footruleNum a b, footruleDen a.length)
    ∧ sertel? a b = some (a.length - 1 - sertelJ a b, a.length - 1) := by
  have hl := h.length_eq
  have hall : ∀ x, x ∈ a → x ∈ b := fun x hx => (h.2.2 x).1 hx
  simp [kendallTau?, footrule?, sertel?, hl]
  exact ⟨fun _ => hall, hall⟩

/-- Kendall-tau equals the number of pairs ordered differently -/
theorem kt_eq_dis (a b : List Nat) (h : SameRanking a b) : kt a b = dis a b a := by
  exact kt_eq_dis' a b h.1

theorem kt_symm (a b : List Nat) (h : SameRanking a b) : kt a b = kt b a := by
  rw [kt_eq_dis' a b h.1, kt_eq_dis' b a h.2.1, dis_symm b a b, dis_perm_univ a b h.perm]

theorem kt_triangle (a b c : List Nat) (hab : SameRanking a b) (hbc : SameRanking b c) :
    kt a c ≤ kt a b + kt b c := by
  have hac := hab.trans hbc
  rw [kt_eq_dis' a c hac.1, kt_eq_dis' a b hab.1, kt_eq_dis' b c hbc.1,
    ← dis_perm_univ b c hab.perm]
  exact dis_triangle a b c a (fun x hx => (hab.2.2 x).1 hx)

theorem kt_eq_zero_iff (a b : List Nat) (h : SameRanking a b) : kt a b = 0 ↔ a = b := by
  constructor
  · exact kt_eq_zero_imp a b h
  · intro e
    subst e
    rw [kt_eq_dis' a a h.1, dis_self]

/-- the number of comparisons made by the double loop -/
theorem two_pairCount (a : List Nat) : 2 * pairCount a = a.length * (a.length - 1) := by
  induction a with
  | nil => rfl
  | cons x rest ih =>
    simp only [pairCount, List.length_cons, Nat.add_sub_cancel, Nat.mul_add, ih]
    cases rest.length with
    | zero => rfl
    | succ k =>
      simp only [Nat.add_sub_cancel]
      rw [Nat.add_mul (k + 1) 1 (k + 1), Nat.mul_add (k + 1) k 1]
      omega

theorem pairCount_eq (a : List Nat) : pairCount a = a.length * (a.length - 1) / 2 := by
  have := two_pairCount a
  omega

theorem pairCount_pos (a : List Nat) (h2 : 2 ≤ a.length) : 0 < pairCount a := by
  rcases a with _ | ⟨x, _ | ⟨y, t⟩⟩
  · simp at h2
  · simp at h2
  · simp only [pairCount, List.length_cons]; omega

theorem pairCount_small (a : List Nat) (h2 : a.length < 2) : pairCount a = 0 := by
  rcases a with _ | ⟨x, _ | ⟨y, t⟩⟩
  · rfl
  · rfl
  · simp only [List.length_cons] at h2; omega

theorem kt_le_pairCount (a b : List Nat) : kt a b ≤ pairCount a := by
  induction a with
  | nil => simp [kt, pairCount]
  | cons x rest ih =>
    simp only [kt, pairCount]
    have := List.length_filter_le (fun y => decide (b.idxOf x > b.idxOf y)) rest
    omega

/-- `normalise=True`: inside the domain the result is the number of pairs ordered differently divided by
the number `m(m-1)/2` of pairs, lies in [0, 1] and is 0 exactly on identical rankings -/
theorem ktNorm_correct (a b : List Nat) (h : SameRanking a b) (h2 : 2 ≤ a.length) :
    kendallTauNorm a b = .ok (dis a b a) (a.length * (a.length - 1) / 2) ∧
    dis a b a ≤ a.length * (a.length - 1) / 2 ∧ 0 < a.length * (a.length - 1) / 2 ∧
    (dis a b a = 0 ↔ a = b) := by
  have hd := (defined_on_domain a b h).1
  have hk := kt_eq_dis a b h
  have hp := pairCount_eq a
  have hpos := pairCount_pos a h2
  refine ⟨?_, ?_, ?_, ?_⟩
  · unfold kendallTauNorm
    rw [hd]
    simp only
    rw [if_neg (by omega), hk, hp]
  · rw [← hk, ← hp]; exact kt_le_pairCount a b
  · omega
  · rw [← hk]; exact kt_eq_zero_iff a b h

/-- `normalise=True` outside the domain: refused like the plain call when the lengths differ, and a
division by zero on rankings with fewer than two items -/
theorem ktNorm_errors (a b : List Nat) :
    (a.length ≠ b.length → kendallTauNorm a b = .valueError) ∧
    (a.length = b.length → a.length < 2 → kendallTauNorm a b = .zeroDivision) := by
  constructor
  · intro hl
    simp [kendallTauNorm, kendallTau?, hl]
  · intro hl h2
    have hp := pairCount_small a h2
    have h3 : ¬ (2 ≤ b.length) := by omega
    simp [kendallTauNorm, kendallTau?, hl, hp, h3]

/-- Sertel numerator is zero exactly on identical rankings (needs ≥ 2 alternatives:
two rankings of the same set cannot first differ in the last position) -/
theorem sertel_eq_zero_iff (a b : List Nat) (h : SameRanking a b) (h2 : 2 ≤ a.length) :
    a.length - 1 - sertelJ a b = 0 ↔ a = b := by
  constructor
  · intro h0
    exact eq_of_sameRanking_dropLast a b h (sertelJ_dropLast a b h.length_eq (by omega))
  · intro e
    subst e
    rw [sertelJ_self]
    omega

theorem sertel_symm (a b : List Nat) (hl : a.length = b.length) : sertelJ a b = sertelJ b a := by
  exact sertelJ_symm a b hl

/-- numerator ≤ denominator, i.e. the value is in [0,1] -/
theorem sertel_le_one (a b : List Nat) : a.length - 1 - sertelJ a b ≤ a.length - 1 := by
  omega

theorem footrule_eq_zero_iff (a b : List Nat) (h : SameRanking a b) :
    footruleNum a b = 0 ↔ a = b := by
  constructor
  · exact eq_of_footruleNum_eq_zero a b h
  · intro e
    subst e
    exact footruleNum_self a h.1

theorem footrule_symm (a b : List Nat) (h : SameRanking a b) :
    footruleNum a b = footruleNum b a := by
  exact footruleNum_symm a b h

/-- Σ|i − σ(i)| ≤ ⌊m²/2⌋ -/
theorem footrule_le_one (a b : List Nat) (h : SameRanking a b) :
    footruleNum a b ≤ footruleDen a.length := by
  exact footruleNum_le a b h

/-- `full_profile` has one ballot per voter -/
theorem fullProfile_length {α : Type} (os : List (α × Nat)) :
    (fullProfile os).length = (os.map (·.2)).sum := by
  exact fullProfile_length' os

theorem distanceMatrix_shape {α β : Type} (z : β) (f : α → α → β) (p : List α) :
    (distanceMatrix z f p).length = p.length ∧ ∀ row ∈ distanceMatrix z f p, row.length = p.length := by
  simp [distanceMatrix]

/-- entry (i,j), i ≠ j, is the distance between ballots i and j of the profile, in that argument order -/
theorem distanceMatrix_entry {α β : Type} (z : β) (f : α → α → β) (p : List α) (i j : Nat)
    (hi : i < p.length) (hj : j < p.length) (hij : i ≠ j) :
    ((distanceMatrix z f p)[i]?.bind (·[j]?)) = some (f p[i] p[j]) := by
  rw [distanceMatrix_get z f p i j hi hj, if_neg hij]

theorem distanceMatrix_diag {α β : Type} (z : β) (f : α → α → β) (p : List α) (i : Nat)
    (hi : i < p.length) : ((distanceMatrix z f p)[i]?.bind (·[i]?)) = some z := by
  rw [distanceMatrix_get z f p i i hi hi, if_pos rfl]

theorem distanceMatrix_symm {α β : Type} (z : β) (f : α → α → β) (p : List α)
    (hf : ∀ x y, f x y = f y x) (i j : Nat) :
    ((distanceMatrix z f p)[i]?.bind (·[j]?)) = ((distanceMatrix z f p)[j]?.bind (·[i]?)) := by
  by_cases hi : i < p.length
  · by_cases hj : j < p.length
    · rw [distanceMatrix_get z f p i j hi hj, distanceMatrix_get z f p j i hj hi]
      by_cases hij : i = j
      · subst hij; rfl
      · rw [if_neg hij, if_neg (fun e => hij e.symm), hf]
    · rw [distanceMatrix_get_none_right z f p i j hj, distanceMatrix_get_none_left z f p j i hj]
  · rw [distanceMatrix_get_none_left z f p i j hi, distanceMatrix_get_none_right z f p j i hi]

/-- non-vacuity: a concrete pair in the domain -/
example : SameRanking [3, 1, 2] [2, 3, 1] ∧ kt [3, 1, 2] [2, 3, 1] = 2 := by decide

end PrefVerif.C20
