import PrefVerif.Model.Distances
import PrefVerif.Spec.Distances
namespace PrefVerif.C20
open PrefVerif.Distances PrefVerif.Spec

theorem length_mismatch_refused (a b : List Nat) (h : a.length ≠ b.length) :
    kendallTau? a b = none ∧ footrule? a b = none ∧ sertel? a b = none := by
  simp [kendallTau?, footrule?, sertel?, h]

end PrefVerif.C20
