import PrefVerif.Model.Pairwise
import PrefVerif.Spec.Voting
import PrefVerif.Lemmas.C07AList
import PrefVerif.Lemmas.C07Bump
import PrefVerif.Lemmas.C07Loops
import PrefVerif.Lemmas.C07Spec
import PrefVerif.Lemmas.C07Table
import PrefVerif.Lemmas.C07Condorcet
import PrefVerif.Lemmas.C07Borda
/-!
# C07 — pairwise tables and the Condorcet test agree with voter-level counts

Property theorems only (helper lemmas live in `PrefVerif/Lemmas/C07*.lean`).
Well-formedness: alternatives pairwise distinct, every order non-empty with non-empty pairwise
disjoint classes drawn from the alternatives (any of the four types, any multiplicities).
-/
namespace PrefVerif.C07
open PrefVerif PrefVerif.Pairwise PrefVerif.Spec PrefVerif.Py

/-- well-formedness used by all C07 theorems -/
def WF (alts : List Nat) (p : Profile) : Prop :=
  alts.Nodup ∧ ∀ om ∈ p, wfOrder alts om.1 = true

/-- every ordered pair of distinct alternatives is present in the table, also when no voter
compares them: outer keys are the alternatives, row `a` has the keys `alts \ {a}` (in order) -/
theorem pairwise_keys (alts : List Nat) (p : Profile) (h : WF alts p) :
    AList.keys (pairwiseScores alts p) = alts ∧
    ∀ a ∈ alts, ((pairwiseScores alts p).get? a).map AList.keys = some (alts.filter (fun b => b != a)) := by
  have _ := h  -- the key structure holds even outside the well-formedness domain
  refine ⟨keys_pairwiseScores alts p, fun a ha => ?_⟩
  have := rowKeys_pairwiseScores alts p a
  rw [rowKeys_initTable alts a ha] at this
  exact this

/-- `pairwise_scores[a][b]` is the number of voters ranking `a` strictly above `b` -/
theorem pairwise_entry (alts : List Nat) (p : Profile) (h : WF alts p) (a b : Nat)
    (ha : a ∈ alts) (hb : b ∈ alts) (hab : a ≠ b) :
    ((pairwiseScores alts p).get? a).bind (fun row => AList.get? row b)
      = some ((prefCount (votes p) a b : Nat) : Int) := by
  have := look_pairwiseScores alts p h.2 a b
  rw [look_initTable alts a b ha hb hab] at this
  simpa [look] using this

theorem copeland_keys (alts : List Nat) (p : Profile) (h : WF alts p) :
    AList.keys (copelandScores alts p) = alts ∧
    ∀ a ∈ alts, ((copelandScores alts p).get? a).map AList.keys = some (alts.filter (fun b => b != a)) := by
  have _ := h  -- the key structure holds even outside the well-formedness domain
  refine ⟨keys_copelandScores alts p, fun a ha => ?_⟩
  have := rowKeys_copelandScores alts p a
  rw [rowKeys_initTable alts a ha] at this
  exact this

/-- `copeland_scores[a][b]` is that number minus the reverse count -/
theorem copeland_entry (alts : List Nat) (p : Profile) (h : WF alts p) (a b : Nat)
    (ha : a ∈ alts) (hb : b ∈ alts) (hab : a ≠ b) :
    ((copelandScores alts p).get? a).bind (fun row => AList.get? row b)
      = some (margin (votes p) a b) := by
  have := look_copelandScores alts p h.2 a b
  rw [look_initTable alts a b ha hb hab] at this
  simpa [look] using this

/-- `has_condorcet` (strict and weak) is True exactly when some alternative has a strictly
positive (non-negative) net margin against every other alternative -/
theorem hasCondorcet_iff (alts : List Nat) (p : Profile) (h : WF alts p) (h2 : 2 ≤ alts.length)
    (weak : Bool) :
    hasCondorcet alts p weak = some (condorcet alts (votes p) weak) :=
  hasCondorcet_eq alts p h.1 h.2 h2 weak

/-- documented Borda convention (the table is a `defaultdict`: a missing key reads 0) -/
theorem borda_entry (alts : List Nat) (p : Profile) (h : WF alts p) (a : Nat) :
    ((bordaScores alts.length p).get? a).getD 0 = bordaScore alts.length (votes p) a := by
  have := val_bordaScores alts alts.length p h.2 a []
  rw [bordaScore_votes]
  simpa [val, bordaScores, get?_nil] using this

/-- `order_to_pwg`: exactly one data line per ordered pair of distinct alternatives carrying the
pairwise count, and the count line is (voters, total, number of lines) -/
theorem pwg_lines (alts : List Nat) (p : Profile) (h : WF alts p) :
    pwgLines alts p = alts.flatMap (fun a =>
      (alts.filter (fun b => b != a)).map (fun b => (((prefCount (votes p) a b : Nat) : Int), a, b))) :=
  pwgLines_eq alts p h.1 h.2

theorem pwg_count (n : Nat) (alts : List Nat) (p : Profile) (h : WF alts p) :
    pwgCount n alts p = (n, ((pwgLines alts p).map (·.1)).sum, alts.length * (alts.length - 1)) := by
  simp only [pwgCount, length_pwgLines alts p h.1 h.2]

/-- the voter-level counts depend on the ballots only as a multiset: regrouping or reordering
the same votes changes no table entry -/
theorem prefCount_perm (v w : List Order) (h : v.Perm w) (a b : Nat) :
    prefCount v a b = prefCount w a b :=
  h.countP_eq _

/-- non-vacuity: a weak incomplete instance with an unranked alternative satisfies `WF` -/
example : WF [3, 5, 6, 9] [([[3, 6], [5]], 2), ([[5], [3]], 1)] := by
  refine ⟨by decide, ?_⟩
  intro om hom
  simp at hom
  rcases hom with rfl | rfl <;> decide

end PrefVerif.C07
