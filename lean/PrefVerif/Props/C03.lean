import PrefVerif.Model.SinglePeakedELO
import PrefVerif.Spec.Domains
import PrefVerif.Props.C11
import PrefVerif.Lemmas.C03Basic
import PrefVerif.Lemmas.C03Step
import PrefVerif.Lemmas.C03Inv
import PrefVerif.Lemmas.C03Spec
import PrefVerif.Lemmas.C03Run
import PrefVerif.Lemmas.C03Rank
import PrefVerif.Lemmas.C03Loops
import PrefVerif.Lemmas.C03Sound
import PrefVerif.Lemmas.C03Total
/-!
# C03 — `is_single_peaked` (Escoffier–Lang–Öztürk elimination of last-ranked candidates)

Property theorems only (helper lemmas live in `PrefVerif/Lemmas/C03*.lean`).  All statements are
about profiles of rankings of the same duplicate-free list of alternatives
(`Rankings alts orders`, defined in `Lemmas/C03Spec.lean`) that are not empty.
-/
namespace PrefVerif.C03
open PrefVerif PrefVerif.ELO PrefVerif.Spec PrefVerif.SinglePeakedAxis

/-- the initial state satisfies the loop invariant -/
theorem inv_init {alts : List Nat} {orders : List (List Nat)} (hr : Rankings alts orders)
    (hne : orders ≠ []) : Inv alts (init orders) :=
  ⟨hne, fun p hp => by simpa [init] using hr.perm p hp⟩

/-- whatever way the run ends, an axis it carries lists every alternative exactly once, and the
Case 2(d) verdict is the axis test -/
theorem run_good {alts : List Nat} {orders : List (List Nat)} (hr : Rankings alts orders)
    (hne : orders ≠ []) {e : Exit} (h : run orders = some e) : GoodExit alts orders e :=
  loop_good hr.1 hr.perm _ _ e (inv_init hr hne) h

/-- (a) the returned axis lists every alternative exactly once -/
theorem axis_perm {alts : List Nat} {orders : List (List Nat)} (hr : Rankings alts orders)
    (hne : orders ≠ []) {axis : List Nat} (h : isSinglePeaked orders = some (true, axis)) :
    axis.Perm alts := by
  unfold isSinglePeaked at h
  cases hrun : run orders with
  | none => rw [hrun] at h; simp at h
  | some e =>
    rw [hrun] at h
    simp only [Option.map_some, Option.some.injEq] at h
    have hg := run_good hr hne hrun
    cases e with
    | threeLast => simp [Exit.result] at h
    | contra => simp [Exit.result] at h
    | case2d ax ok =>
      cases ok with
      | false => simp [Exit.result] at h
      | true =>
        simp only [Exit.result, if_true, Prod.mk.injEq, true_and] at h
        subst h; exact hg.1
    | finished ax =>
      simp only [Exit.result, Prod.mk.injEq, true_and] at h
      subst h; exact hg

/-- (b) when the run ends through Case 2(d) with the constructed `axis`: the axis lists every
alternative exactly once, the verdict IS `is_single_peaked_axis` on it (`orderOk` for every voter),
the returned tuple is `(True, axis)` / `(False, None)` accordingly, and the verdict is `True` exactly
when the profile is single-peaked on `axis` -/
theorem case2d_checked {alts : List Nat} {orders : List (List Nat)} (hr : Rankings alts orders)
    (hne : orders ≠ []) {axis : List Nat} {ok : Bool} (h : run orders = some (.case2d axis ok)) :
    axis.Perm alts ∧
    ok = (orders.map wrap).all (fun o => orderOk o axis) ∧
    isSinglePeaked orders = some (if ok then (true, axis) else (false, [])) ∧
    (ok = true ↔ SPOnAxis (orders.map wrap) axis) := by
  obtain ⟨hp, hok⟩ := run_good hr hne h
  refine ⟨hp, ?_, ?_, ?_⟩
  · rw [hok, List.all_map]; rfl
  · simp only [isSinglePeaked, h, Option.map_some, Exit.result]
  · rw [hok]; exact axisTest_iff hr hp

/-- (c) three distinct alternatives ranked last (each by some voter): the function answers
`(False, None)` in the first iteration, and indeed the profile is single-peaked on no axis -/
theorem three_last_not_sp {alts : List Nat} {orders : List (List Nat)} (hr : Rankings alts orders)
    {a b c : Nat} (hab : a ≠ b) (hac : a ≠ c) (hbc : b ≠ c)
    (ha : ∃ o ∈ orders, o.getLast? = some a) (hb : ∃ o ∈ orders, o.getLast? = some b)
    (hc : ∃ o ∈ orders, o.getLast? = some c) :
    run orders = some .threeLast ∧ isSinglePeaked orders = some (false, []) ∧
      ¬ SP alts (orders.map wrap) := by
  have hrun : run orders = some .threeLast := by
    obtain ⟨oa, hoa, hla⟩ := ha
    obtain ⟨ob, hob, hlb⟩ := hb
    obtain ⟨oc, hoc, hlc⟩ := hc
    have hne : ∀ p ∈ orders, p ≠ [] := by
      intro p hp e
      have : a ∈ oa := List.mem_of_getLast? hla
      have : a ∈ p := ((hr.2 p hp).2 a).2 (((hr.2 oa hoa).2 a).1 this)
      rw [e] at this; simp at this
    obtain ⟨popped, hpop⟩ := popAll_isSome hne
    have hst : step orders (init orders) = .brk .threeLast :=
      step_threeLast (s := init orders) hpop hab hac hbc
        (mem_popped_of_getLast hpop hoa hla) (mem_popped_of_getLast hpop hob hlb)
        (mem_popped_of_getLast hpop hoc hlc)
    cases horders : orders with
    | nil => rw [horders] at hoa; simp at hoa
    | cons p ps =>
      have hp : p ≠ [] := hne p (by rw [horders]; exact List.mem_cons_self)
      have hlen : p.length ≥ 1 := by
        cases p with
        | nil => exact absurd rfl hp
        | cons _ _ => simp
      rw [horders] at hst
      simp only [run, fuelFor, loop, init, List.headD_cons, hlen, if_true]
      simp only [init] at hst
      rw [hst]
  exact ⟨hrun, by simp [isSinglePeaked, hrun, Exit.result], three_last_not_SP hr hab hac hbc ha hb hc⟩

/-- the initial state satisfies the soundness invariant -/
theorem sinv_init {alts : List Nat} {orders : List (List Nat)} (hr : Rankings alts orders)
    (hne : orders ≠ []) : SInv alts orders (init orders) := by
  refine ⟨inv_init hr hne, fun o ho => ⟨o, ho, List.Sublist.refl o⟩, Or.inl ⟨⟨rfl, rfl⟩, fun o _ => ?_⟩⟩
  refine ⟨List.Pairwise.nil, List.Pairwise.nil, ?_, ?_⟩
  · intro t ht; simp [init] at ht
  · intro xi xj he; simp [init] at he

/-- (d) soundness of `True`: the profile is single-peaked on the returned axis -/
theorem true_sound {alts : List Nat} {orders : List (List Nat)} (hr : Rankings alts orders)
    (hne : orders ≠ []) {axis : List Nat} (h : isSinglePeaked orders = some (true, axis)) :
    SPOnAxis (orders.map wrap) axis := by
  have hperm := axis_perm hr hne h
  unfold isSinglePeaked at h
  cases hrun : run orders with
  | none => rw [hrun] at h; simp at h
  | some e =>
    rw [hrun] at h
    simp only [Option.map_some, Option.some.injEq] at h
    cases e with
    | threeLast => simp [Exit.result] at h
    | contra => simp [Exit.result] at h
    | case2d ax ok =>
      cases ok with
      | false => simp [Exit.result] at h
      | true =>
        simp only [Exit.result, if_true, Prod.mk.injEq, true_and] at h
        subst h
        exact (case2d_checked hr hne hrun).2.2.2.1 rfl
    | finished ax =>
      simp only [Exit.result, Prod.mk.injEq, true_and] at h
      subst h
      have hb := loop_sound hr.1 hr.perm _ _ ax (sinv_init hr hne) hrun
      intro o' ho' k
      obtain ⟨o, ho, rfl⟩ := List.mem_map.1 ho'
      rw [topClasses_wrap]
      exact bitonic_contiguous (fun a ha => (hr.perm o ho).mem_iff.2 (hperm.mem_iff.1 ha)) (hb o ho) k

/-- hence `True` is only answered for single-peaked profiles, and the returned axis is a witness -/
theorem true_imp_SP {alts : List Nat} {orders : List (List Nat)} (hr : Rankings alts orders)
    (hne : orders ≠ []) {axis : List Nat} (h : isSinglePeaked orders = some (true, axis)) :
    SP alts (orders.map wrap) ∧ spWitness alts (orders.map wrap) axis = true :=
  ⟨⟨axis, axis_perm hr hne h, true_sound hr hne h⟩,
    (C11.spWitness_iff alts hr.1 _ axis).2 ⟨axis_perm hr hne h, true_sound hr hne h⟩⟩

/-- on rankings the function always returns: neither of the two
`ValueError("We should never have ended up here …")` nor any other exception is reachable (and the
model does not run out of fuel) -/
theorem never_raises {alts : List Nat} {orders : List (List Nat)} (hr : Rankings alts orders)
    (hne : orders ≠ []) : ∃ r, isSinglePeaked orders = some r := by
  have h := loop_ne_none hr.1 hr.perm (fuelFor orders) (init orders) (sinv_init hr hne)
    (by simp [headLen, init, fuelFor])
  cases hrun : run orders with
  | none => exact absurd hrun h
  | some e => exact ⟨e.result, by simp [isSinglePeaked, hrun]⟩

/-- the fuel of the model is sufficient: any larger amount gives the same run, i.e. the `while`
loop of the model never stops for lack of fuel -/
theorem fuel_irrelevant (orders : List (List Nat)) (extra : Nat) :
    loop orders (fuelFor orders + extra) (init orders) = run orders := by
  apply loop_fuel <;> simp [headLen, init, fuelFor] <;> omega

example : isSinglePeaked [[1, 2, 3], [3, 2, 1], [2, 3, 1]] = some (true, [3, 2, 1]) := by decide
example : isSinglePeaked [[1, 2, 3], [3, 1, 2], [2, 3, 1]] = some (false, []) := by decide
example : run [[3, 2, 1, 4], [2, 3, 4, 1], [1, 2, 3, 4]] = some (.case2d [4, 3, 2, 1] true) := by decide

end PrefVerif.C03
