import PrefVerif.Model.EntryPoints
import PrefVerif.Spec.IOWF
import PrefVerif.Spec.PrefLibFormat
import PrefVerif.Lemmas.C01Render
import PrefVerif.Lemmas.C01Sort
import PrefVerif.Lemmas.C01Roundtrip
import PrefVerif.Lemmas.C01Reader
/-!
# C01 — ordinal preference files survive write → parse unchanged

Property theorems only (helper lemmas live in `PrefVerif/Lemmas/IO*.lean` — shared with C08, C09,
C10, C16 — and `PrefVerif/Lemmas/C01*.lean`).
-/
namespace PrefVerif.C01
open PrefVerif PrefVerif.Py PrefVerif.InstanceIO PrefVerif.OrdinalIO PrefVerif.EntryPoints PrefVerif.Spec.IO

/-- key lemma: the ballot regex (as a scanner) inverts the ballot renderer on every order with
non-empty classes — ties first, last, adjacent bare singletons, single class -/
theorem scan_render (o : Order) (ho : ∀ c ∈ o, c ≠ []) :
    scanOrder (removeWs (renderOrder o)) = o :=
  scanOrder_renderOrder o ho

/-- write → parse (`parse_file` on the written text, any valid ordinal extension): the instance
comes back with ballots in written order and everything else unchanged -/
theorem roundtrip {W : Type} (readW : Str → Option W) (i : OrdInst) (h : wfOrd i = true)
    (base ext : Str) (hext : typeValid .ordinal ext = true) :
    parseFile readW .ordinal base ext (write i) false false = .ok (.ord (normOrd i)) :=
  parseFile_write readW i h base ext hext

/-- the same through `get_parsed_instance` (class chosen from the extension) -/
theorem roundtrip_get {W : Type} (readW : Str → Option W) (i : OrdInst) (h : wfOrd i = true)
    (base ext : Str) (hext : classOfExt ext = some .ordinal) :
    getParsedInstance readW base ext (write i) false false = .ok (.ord (normOrd i)) := by
  have hext' : typeValid .ordinal ext = true := by
    simp only [classOfExt] at hext
    split at hext
    · assumption
    · split at hext
      · cases hext
      · split at hext <;> cases hext
  simp only [getParsedInstance, hext]
  exact parseFile_write readW i h base ext hext'

/-- what "comes back unchanged" means: same data type, metadata, names, counts; exactly the same
orders (as a duplicate-free list up to order) with the same multiplicities -/
theorem norm_same (i : OrdInst) (h : wfOrd i = true) :
    (normOrd i).header = i.header ∧ (normOrd i).numUniqueOrders = i.numUniqueOrders ∧
    (normOrd i).orders.Perm i.orders ∧
    (∀ o, (normOrd i).multiplicity.get? o = i.multiplicity.get? o) ∧ wfOrd (normOrd i) = true :=
  ⟨rfl, rfl, IOL.stableSort_perm _ _, normOrd_get? i h, wfOrd_normOrd i h⟩

/-- writing the re-parsed instance reproduces the file byte for byte -/
theorem rewrite (i : OrdInst) (h : wfOrd i = true) : write (normOrd i) = write i := by
  have h1 : stableSort (keyLe (normOrd i).multiplicity) (normOrd i).orders
      = stableSort (keyLe i.multiplicity) i.orders := sorted_normOrd i h
  simp only [write, h1, normOrd_get? i h]
  rfl

/-- header fields as an independent reader must see them -/
def expectedFields (i : OrdInst) : List (Str × Str) :=
  [(s "FILE NAME", i.header.fileName), (s "TITLE", i.header.title), (s "DESCRIPTION", i.header.description),
   (s "DATA TYPE", i.header.dataType), (s "MODIFICATION TYPE", i.header.modificationType),
   (s "RELATES TO", i.header.relatesTo), (s "RELATED FILES", i.header.relatedFiles),
   (s "PUBLICATION DATE", i.header.publicationDate), (s "MODIFICATION DATE", i.header.modificationDate),
   (s "NUMBER ALTERNATIVES", natToStr i.header.numAlternatives), (s "NUMBER VOTERS", natToStr i.header.numVoters),
   (s "NUMBER UNIQUE ORDERS", natToStr i.numUniqueOrders)]

/-- an independent reader of the documented format sees the same content in the written file,
with ballots listed by non-increasing multiplicity -/
theorem independent_reader (i : OrdInst) (h : wfOrd i = true) :
    Spec.Format.read false (write i) = some
      { fields := expectedFields i, altNames := i.header.altNames, catNames := [],
        ballots := (normOrd i).orders.map (fun o => ((i.multiplicity.get? o).getD 0, o)), edges := [] } ∧
    Spec.Format.nonIncreasing ((normOrd i).orders.map (fun o => (i.multiplicity.get? o).getD 0)) = true := by
  have hf : expectedFields i = IOL.kvMeta i.header ++ kvNum i := rfl
  exact ⟨by rw [reader_write i h, hf]; rfl, nonIncreasing_sorted i⟩

/-- non-vacuity: ties first and last, a single-class ballot, equal multiplicities, odd names -/
example : wfOrd { header := { fileName := s "a.toi", title := s "x: y, {z}", dataType := s "toi",
                              numAlternatives := 3, numVoters := 5,
                              altNames := [(1, s ""), (12, s "A__1"), (3, s "# b")] },
                  numUniqueOrders := 3,
                  orders := [[[1, 12], [3]], [[3], [12, 1]], [[12, 3, 1]]],
                  multiplicity := [([[1, 12], [3]], 2), ([[3], [12, 1]], 2), ([[12, 3, 1]], 1)] } = true := by
  decide

end PrefVerif.C01
