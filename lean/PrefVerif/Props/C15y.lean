import PrefVerif.Props.C12Opt
import PrefVerif.Props.Specs
import PrefVerif.Props.C15x
import PrefVerif.Lemmas.C15ySpec
/-!
# C15y — `k_alternative_deletion`: the reported number is the specification's minimum, hence invariant

`C12DP.deletion_cert` (validity) and `C12Opt.deletion_optimal` (optimality) together say that the number of
alternatives the model of `k_alternative_deletion` deletes is `Spec.minAltDeletion`, the minimum over all
subsets of alternatives.  That minimum does not depend on labels or storage order.
Property theorems only; helper lemmas live in `PrefVerif/Lemmas/C15y*.lean`.
-/
namespace PrefVerif.C15y
open PrefVerif PrefVerif.Spec PrefVerif.KAlt PrefVerif.C15

/-- the number of alternatives deleted by the dynamic programme is the minimum of the specification -/
theorem deletion_value_eq_min (alts : List Nat) (orders : List (List Nat)) (hr : C03.Rankings alts orders)
    (hne : orders ≠ []) :
    (kAlternativeDeletion alts orders).2.length = Spec.Nearly.minAltDeletion alts (orders.map C12Opt.wrap) :=
  Nat.le_antisymm (removed_le_min alts orders hr hne) (min_le_removed alts orders hr)

/-- … hence it does not depend on the labels of the alternatives -/
theorem deletion_value_relabel (σ : Nat → Nat) (hσ : Inj σ) (alts : List Nat) (orders : List (List Nat))
    (hr : C03.Rankings alts orders) (hne : orders ≠ []) :
    (kAlternativeDeletion (alts.map σ) (orders.map (·.map σ))).2.length =
      (kAlternativeDeletion alts orders).2.length := by
  have hne' : orders.map (·.map σ) ≠ [] := by simpa using hne
  rw [deletion_value_eq_min _ _ (C15x.rankings03_relabel hσ hr) hne', deletion_value_eq_min _ _ hr hne]
  have h : (orders.map (·.map σ)).map C12Opt.wrap = (orders.map C12Opt.wrap).map (relabelOrder σ) :=
    C15x.map_wrap_relabel orders
  rw [h]
  exact minAltDeletion_relabel σ hσ alts hr.1 _

/-- … nor on the order in which ballots and alternatives are stored -/
theorem deletion_value_perm (alts alts' : List Nat) (orders orders' : List (List Nat))
    (hr : C03.Rankings alts orders) (hne : orders ≠ []) (ha : alts.Perm alts') (hp : orders.Perm orders') :
    (kAlternativeDeletion alts' orders').2.length = (kAlternativeDeletion alts orders).2.length := by
  have hne' : orders' ≠ [] := fun e => hne (by subst e; exact hp.eq_nil)
  have hr' : C03.Rankings alts' orders' := rankings_perm_alts (C15x.rankings03_perm hr hp) ha
  rw [deletion_value_eq_min _ _ hr' hne', deletion_value_eq_min _ _ hr hne]
  exact minAltDeletion_perm alts alts' _ _ hr.1 ha (hp.map _)

end PrefVerif.C15y
