import PrefVerif.Props.C04
import PrefVerif.Lemmas.C04cSwitch
import PrefVerif.Lemmas.C04cScore
import PrefVerif.Lemmas.C04cSort
/-!
# C04 — completeness of `is_single_crossing`: a single-crossing profile is never rejected

Together with `C04.isSC_sound` this makes the verdict of the model of `is_single_crossing` exact.
Helper lemmas live in `PrefVerif/Lemmas/C04c*.lean` (namespace `PrefVerif.C04c`).
-/
namespace PrefVerif.C04c
open PrefVerif PrefVerif.SingleCrossing PrefVerif.Spec PrefVerif.Distances PrefVerif.C04

/-- Kendall-tau is additive along a single-crossing sequence: for positions i < j < k,
`K(sᵢ, s_k) = K(sᵢ, s_j) + K(s_j, s_k)` -/
theorem kt_additive_of_scSeq (alts : List Nat) (s : List (List Nat)) (h : Rankings alts s) (hsc : SCSeq alts s)
    (i j k : Nat) (hij : i < j) (hjk : j < k) (hk : k < s.length) :
    kt (s[i]'(by omega)) (s[k]) = kt (s[i]'(by omega)) (s[j]'(by omega)) + kt (s[j]'(by omega)) (s[k]) := by
  exact kt_additive alts s h.2 hsc i j k hij hjk hk

/-- completeness: if the distinct orders can be arranged single-crossingly, the model of
`is_single_crossing` answers True (whatever the storage order, in both the sort and the bucket branch) -/
theorem isSC_complete (alts : List Nat) (orders : List (List Nat)) (h : Rankings alts orders)
    (hn : orders.Nodup) (hsc : SC alts orders) :
    (isSC orders alts.length).1 = true := by
  match orders, h, hn, hsc with
  | [], _, _, _ => rfl
  | [_], _, _, _ => rfl
  | v1 :: v2 :: rest, h, hn, ⟨s, hperm, hsc⟩ =>
    have A : Arr alts s := ⟨fun o ho => h.2 o (hperm.mem_iff.1 ho), hperm.nodup_iff.2 hn, hsc⟩
    have hlen : v1.length = alts.length := (h.2 v1 (by simp)).length_eq.symm
    obtain ⟨p1, hp1, e1⟩ := List.mem_iff_getElem.1 (hperm.mem_iff.2 (show v1 ∈ v1 :: v2 :: rest by simp))
    obtain ⟨p2, hp2, e2⟩ := List.mem_iff_getElem.1 (hperm.mem_iff.2 (show v2 ∈ v1 :: v2 :: rest by simp))
    have hne : p1 ≠ p2 := by
      rintro rfl
      rw [e1] at e2
      subst e2
      exact (List.nodup_cons.1 hn).1 (by simp)
    rcases Nat.lt_or_gt_of_ne hne with hlt | hgt
    · rw [isSC_of_arr A v1 v2 rest alts.length hlen hperm p1 p2 hlt hp1 hp2 e1 e2]
    · -- `v2` comes first in `s`: use the reversed arrangement
      have hl : s.reverse.length = s.length := List.length_reverse
      have q1 : s.length - 1 - p1 < s.reverse.length := by omega
      have q2 : s.length - 1 - p2 < s.reverse.length := by omega
      have r1 : s.reverse[s.length - 1 - p1] = v1 := by
        rw [List.getElem_reverse, ← e1]; exact getElem_congr_idx (by omega)
      have r2 : s.reverse[s.length - 1 - p2] = v2 := by
        rw [List.getElem_reverse, ← e2]; exact getElem_congr_idx (by omega)
      rw [isSC_of_arr A.reverse v1 v2 rest alts.length hlen ((List.reverse_perm s).trans hperm)
        (s.length - 1 - p1) (s.length - 1 - p2) (by omega) q1 q2 r1 r2]

/-- the verdict of `is_single_crossing` is exact, and it agrees with `is_single_crossing_conflict_sets` -/
theorem isSC_iff (alts : List Nat) (orders : List (List Nat)) (h : Rankings alts orders) (hn : orders.Nodup) :
    (isSC orders alts.length).1 = true ↔ SC alts orders := by
  constructor
  · intro ht
    refine isSC_true_imp_SC alts orders (isSC orders alts.length).2 h hn ?_
    rw [← ht]
  · exact isSC_complete alts orders h hn

theorem isSC_eq_conflictSets (alts : List Nat) (orders : List (List Nat)) (h : Rankings alts orders)
    (hn : orders.Nodup) (hne : orders ≠ []) :
    (isSC orders alts.length).1 = isSCConflictSets orders := by
  rw [Bool.eq_iff_iff]
  exact (isSC_iff alts orders h hn).trans (conflictSets_iff alts orders h hn hne).symm

end PrefVerif.C04c
