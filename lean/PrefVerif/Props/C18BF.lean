import PrefVerif.Lemmas.C18BFComb
import PrefVerif.Lemmas.C18BFCombUniq
import PrefVerif.Lemmas.C18BFCex
import PrefVerif.Lemmas.C18BFPairUp
import PrefVerif.Lemmas.C18BFTotal
import PrefVerif.Lemmas.C18BFLSets
import PrefVerif.Lemmas.C18BFDfs
import PrefVerif.Lemmas.C12DPSpec
/-!
C18 (brute force): theorems about the model `PrefVerif.KAltBF.partitionBruteForce` of
`k_alternative_partition_brut_force(instance, k)`.

Hypotheses throughout: the alternatives are distinct, the profile is non-empty, and every order ranks every
alternative (`∀ o ∈ orders, ∀ a ∈ alts, a ∈ o`; in particular when every order is a permutation of `alts`).

* `bf_cert`   (a) a returned list of axes passes the partition certificate checker of the specification and
              has at most `k` (indeed at most `min k ⌈m/2⌉`) axes;
* `singleton_pair_combinations_sound`, `singleton_pair_combinations_complete`, `singleton_pair_combinations_once`
              (b) `singleton_pair_combinations` enumerates exactly the partitions into singletons and pairs,
              each of them once;
* `cap_safe`  (c) every profile has a valid partition with at most `⌈m/2⌉` axes, so the cap on `k` never
              excludes an optimum;
* `bf_total_at_cap`, `bf_at_cap`
              (d, the part that holds) with `k ≥ ⌈m/2⌉` the answer is never `None`;
* `bf_not_complete`, `bf_not_minimal`
              (d) completeness / minimality is FALSE for the real function (and the model, which agrees with it):
              on `alts = [1..6]`, `orders = [[1,2,3,4,5,6],[5,2,3,4,1,6],[5,1,4,3,6,2]]` the valid partition
              `{1,5}`, `{6,4,3,2}` into two single-peaked axes exists, but the answer is `None` for `k = 2` and
              has three axes for every `k ≥ 3` (whatever the iteration order of the sets `L[i]`).
-/
namespace PrefVerif.C18BF
open PrefVerif.KAlt PrefVerif.KAltBF PrefVerif.C12DP PrefVerif.Spec PrefVerif.Spec.Nearly

/-! ### (a) soundness -/

/-- the incomplete axes of the answer of `dfs` -/
theorem dfs_top (alts : List Nat) (orders : List (List Nat)) (k : Nat) (ha : alts.Nodup) (hord : orders ≠ [])
    (hcomp : ∀ o ∈ orders, ∀ a ∈ alts, a ∈ o) (p : List Axis)
    (h : dfs alts.length k ((getLSets alts orders).map (fun s => singletonPairCombinations (s.iter natKey)))
      orders (alts.length + 1) 0 [] none = some p) :
    AxesInv orders k alts p := by
  obtain ⟨hperm, hnds⟩ := getLSets_perm alts orders ha hord hcomp
  have hlen := getLSets_length alts orders
  generalize hG : getLSets alts orders = G at *
  have hLs : (G.map (fun s => s.elems)).length = alts.length := by simp [hlen]
  have hinv := dfs_inv orders k (G.map (fun s => s.elems))
    (G.map (fun s => singletonPairCombinations (s.iter natKey))) ?_ (hperm.nodup_iff.2 ha)
    (alts.length + 1) 0 [] none (Nat.zero_le _) ?_ ?_
  · rw [hLs] at hinv
    exact (hinv p h).congr hperm
  · intro i hi ext hext
    have hi' : i < G.length := by simpa using hi
    rw [List.getD_eq_getElem?_getD, List.getElem?_map, List.getElem?_eq_getElem hi'] at hext
    simp only [Option.map_some, Option.getD_some] at hext
    rw [List.getElem_map]
    have hnd : (G[i].iter natKey).Nodup := (iter_perm natKey G[i]).nodup_iff.2 (hnds _ (List.getElem_mem hi'))
    exact (spc_sound _ hnd ext hext).1.trans (iter_perm natKey G[i])
  · exact ⟨nofun, nofun, by simp [allMembers], Nat.zero_le _⟩
  · intro s hs; cases hs

theorem map_members_flatten (p : List Axis) : (p.map members).flatten = allMembers p := by
  unfold allMembers; rw [List.flatMap_def]

/-- (a) if the model returns `some axes`, the axes contain every alternative exactly once, none is empty, the
profile restricted to each axis is single-peaked on it (`partitionCert` of the specification), and there are at
most `k` of them -/
theorem bf_cert (alts : List Nat) (orders : List (List Nat)) (k : Nat) (ha : alts.Nodup) (hord : orders ≠ [])
    (hcomp : ∀ o ∈ orders, ∀ a ∈ alts, a ∈ o) (axes : List (List Nat))
    (h : partitionBruteForce alts orders k = some axes) :
    partitionCert alts (orders.map weak) axes = true ∧ axes.length ≤ k ∧ axes.length ≤ (alts.length + 1) / 2 := by
  unfold partitionBruteForce at h
  dsimp only at h
  rw [Option.map_eq_some_iff] at h
  obtain ⟨p, hp, rfl⟩ := h
  have hinv := dfs_top alts orders _ ha hord hcomp p hp
  have hmap : p.map (fun axis => (axis.erase none).filterMap id) = p.map members := by
    apply List.map_congr_left
    intro A _
    exact members_erase_none A
  rw [hmap]
  have hpermAll : (p.map members).flatten.Perm alts := by rw [map_members_flatten]; exact hinv.perm
  refine ⟨?_, ?_, ?_⟩
  · unfold partitionCert
    simp only [Bool.and_eq_true, List.all_eq_true]
    refine ⟨?_, ?_⟩
    · unfold isPermOf
      simp only [Bool.and_eq_true, decide_eq_true_eq, beq_iff_eq, List.all_eq_true]
      exact ⟨⟨hpermAll.nodup_iff.2 ha, hpermAll.length_eq⟩, fun a h => by simpa using hpermAll.mem_iff.1 h⟩
    · intro ax hax
      rw [List.mem_map] at hax
      obtain ⟨A, hA, rfl⟩ := hax
      refine ⟨?_, ?_⟩
      · have := hinv.ne A hA
        cases hm : members A with
        | nil => exact absurd hm this
        | cons => rfl
      · have hndA : (members A).Nodup := by
          have : (allMembers p).Nodup := hinv.perm.nodup_iff.2 ha
          exact nodup_of_flatMap members p this A hA
        have hsubA : ∀ a ∈ members A, a ∈ alts := by
          intro a haA
          apply hinv.perm.mem_iff.1
          unfold allMembers
          rw [List.mem_flatMap]
          exact ⟨A, hA, haA⟩
        obtain ⟨Fr, S, hsh, hlmf⟩ := hinv.sp A hA
        apply lmf_spOnSubset orders (members A) hndA
        · intro v hv a haA
          exact hcomp v hv a (hsubA a haA)
        · rw [hsh.members]; exact hlmf
  · have := hinv.len
    rw [List.length_map]
    split at this <;> omega
  · have := hinv.len
    rw [List.length_map]
    unfold ceilHalf at this
    split at this <;> omega

/-- (a) for orders that are permutations of the alternatives -/
theorem bf_cert_perm (alts : List Nat) (orders : List (List Nat)) (k : Nat) (ha : alts.Nodup) (hord : orders ≠ [])
    (hcomp : ∀ o ∈ orders, o.Perm alts) (axes : List (List Nat))
    (h : partitionBruteForce alts orders k = some axes) :
    partitionCert alts (orders.map weak) axes = true ∧ axes.length ≤ k :=
  let r := bf_cert alts orders k ha hord (fun o ho _ haa => (hcomp o ho).mem_iff.2 haa) axes h
  ⟨r.1, r.2.1⟩

/-- the fuel of the model is sufficient: `dfs` started at depth `0` gives the same answer with any fuel above
`m` (the model uses `m + 1`), and `singleton_pair_combinations` the same with any fuel `≥ len(items)` -/
theorem fuel_sufficient (m k : Nat) (L : List (List (List (List Nat)))) (votes : List (List Nat)) (fuel : Nat)
    (hfuel : m < fuel) (items : List Nat) (fuel' : Nat) (hfuel' : items.length ≤ fuel') :
    dfs m k L votes fuel 0 [] none = dfs m k L votes (m + 1) 0 [] none ∧
    spcAux fuel' items = singletonPairCombinations items :=
  ⟨dfs_fuel m k L votes fuel (m + 1) 0 [] none (Nat.zero_le _) (by omega) (by omega),
   spcAux_fuel fuel' items.length items hfuel' (Nat.le_refl _)⟩

/-! ### (b) `singleton_pair_combinations` -/

/-- (b) every enumerated list of tuples is a partition of `items` into singletons and pairs -/
theorem singleton_pair_combinations_sound (items : List Nat) (hnd : items.Nodup) :
    ∀ c ∈ singletonPairCombinations items,
      c.flatten.Perm items ∧ ∀ b ∈ c, b.length = 1 ∨ b.length = 2 :=
  spc_sound items hnd

/-- (b) every partition of `items` into singletons and pairs is enumerated, up to the order of the blocks and
the order inside the pairs -/
theorem singleton_pair_combinations_complete (items : List Nat) (hnd : items.Nodup) (c : List (List Nat))
    (hperm : c.flatten.Perm items) (hlen : ∀ b ∈ c, b.length = 1 ∨ b.length = 2) :
    ∃ c' ∈ singletonPairCombinations items,
      (∀ b ∈ c, ∃ b' ∈ c', b'.Perm b) ∧ (∀ b' ∈ c', ∃ b ∈ c, b'.Perm b) :=
  spc_complete items hnd c ⟨hperm, hlen⟩

/-- (b) no list of tuples is enumerated twice, and two enumerated lists that describe the same partition are
equal: every partition into singletons and pairs is enumerated exactly once -/
theorem singleton_pair_combinations_once (items : List Nat) (hnd : items.Nodup) :
    (singletonPairCombinations items).Nodup ∧
    ∀ c ∈ singletonPairCombinations items, ∀ c' ∈ singletonPairCombinations items,
      ((∀ b ∈ c, ∃ b' ∈ c', b'.Perm b) ∧ (∀ b' ∈ c', ∃ b ∈ c, b'.Perm b)) → c = c' :=
  ⟨spc_nodup items hnd, fun c hc c' hc' hs => spc_canonical items hnd c c' hc hc' hs⟩

/-! ### (c) the cap on `k` -/

theorem LMF_short (r : Nat → Nat) (l : List Nat) (h : l.length ≤ 2) : LMF r l := by
  match l, h with
  | [], _ => trivial
  | [_], _ => trivial
  | [_, _], _ => trivial
  | _ :: _ :: _ :: _, h => simp at h

/-- (c) any two alternatives are single-peaked, so every profile has a partition into at most `⌈m/2⌉`
single-peaked axes: capping `k` at `math.ceil(m / 2)` never excludes an optimum -/
theorem cap_safe (alts : List Nat) (orders : List (List Nat)) (ha : alts.Nodup)
    (hcomp : ∀ o ∈ orders, ∀ a ∈ alts, a ∈ o) :
    ∃ axes, partitionCert alts (orders.map weak) axes = true ∧ axes.length ≤ (alts.length + 1) / 2 := by
  obtain ⟨h1, h2, h3⟩ := pairUp_spec alts
  refine ⟨pairUp alts, ?_, by omega⟩
  unfold partitionCert
  simp only [Bool.and_eq_true, List.all_eq_true]
  refine ⟨?_, ?_⟩
  · rw [h1]
    unfold isPermOf
    simp only [Bool.and_eq_true, decide_eq_true_eq, beq_iff_eq, List.all_eq_true]
    exact ⟨⟨ha, trivial⟩, fun a h => by simpa using h⟩
  · intro ax hax
    obtain ⟨hne, hle⟩ := h3 ax hax
    refine ⟨?_, ?_⟩
    · cases ax with
      | nil => exact absurd rfl hne
      | cons => rfl
    · have hsub : ∀ a ∈ ax, a ∈ alts := by
        intro a haa
        rw [← h1, List.mem_flatten]
        exact ⟨ax, hax, haa⟩
      have hnd : ax.Nodup := by
        have : ((pairUp alts).flatMap id).Nodup := by
          rw [List.flatMap_id, h1]; exact ha
        exact nodup_of_flatMap id (pairUp alts) this ax hax
      exact lmf_spOnSubset orders ax hnd (fun v hv a haa => hcomp v hv a (hsub a haa))
        (fun v _ => LMF_short _ ax hle)

/-! ### (d) what holds of completeness: at the cap the search always succeeds -/

theorem flatten_iter_length (G : List (PySet Nat)) :
    (G.map (fun s => s.iter natKey)).flatten.length = (G.map (fun s => s.elems)).flatten.length := by
  induction G with
  | nil => rfl
  | cons g G ih =>
    simp only [List.map_cons, List.flatten_cons, List.length_append, ih, (iter_perm natKey g).length_eq]

/-- (d, positive part) with `k ≥ ⌈m/2⌉` the model never returns `None`: some branch of the search pairs up
the alternatives step by step.  With `bf_cert`, the answer is then a valid partition into at most `⌈m/2⌉` axes. -/
theorem bf_total_at_cap (alts : List Nat) (orders : List (List Nat)) (k : Nat) (ha : alts.Nodup)
    (hord : orders ≠ []) (hcomp : ∀ o ∈ orders, ∀ a ∈ alts, a ∈ o) (hk : (alts.length + 1) / 2 ≤ k) :
    ∃ axes, partitionBruteForce alts orders k = some axes := by
  obtain ⟨hperm, hnds⟩ := getLSets_perm alts orders ha hord hcomp
  have hlen := getLSets_length alts orders
  unfold partitionBruteForce
  dsimp only
  generalize getLSets alts orders = G at *
  have hTs : (G.map (fun s => s.iter natKey)).flatten.length = alts.length := by
    rw [flatten_iter_length]; exact hperm.length_eq
  have hL : G.map (fun s => singletonPairCombinations (s.iter natKey)) =
      (G.map (fun s => s.iter natKey)).map singletonPairCombinations := by
    rw [List.map_map]; rfl
  have hk' : (alts.length + 1) / 2 ≤ (if k > ceilHalf alts.length then ceilHalf alts.length else k) := by
    unfold ceilHalf; split <;> omega
  have htot := dfs_total orders (if k > ceilHalf alts.length then ceilHalf alts.length else k)
    (G.map (fun s => s.iter natKey))
    (by
      intro T hT
      rw [List.mem_map] at hT
      obtain ⟨g, hg, rfl⟩ := hT
      exact (iter_perm natKey g).nodup_iff.2 (hnds g hg))
    (by rw [hTs]; exact hk') alts.length (by simp [hlen]) (alts.length + 1) 0 [] none (Nat.zero_le _) (by omega)
    (Or.inl (by simp))
  rw [← hL] at htot
  rw [Option.isSome_iff_exists] at htot
  obtain ⟨p, hp⟩ := htot
  exact ⟨_, by rw [hp]; rfl⟩

/-- at the cap the brute force returns a certified partition with at most `⌈m/2⌉` axes -/
theorem bf_at_cap (alts : List Nat) (orders : List (List Nat)) (k : Nat) (ha : alts.Nodup)
    (hord : orders ≠ []) (hcomp : ∀ o ∈ orders, ∀ a ∈ alts, a ∈ o) (hk : (alts.length + 1) / 2 ≤ k) :
    ∃ axes, partitionBruteForce alts orders k = some axes ∧
      partitionCert alts (orders.map weak) axes = true ∧ axes.length ≤ (alts.length + 1) / 2 := by
  obtain ⟨axes, h⟩ := bf_total_at_cap alts orders k ha hord hcomp hk
  have hc := bf_cert alts orders k ha hord hcomp axes h
  exact ⟨axes, h, hc.1, hc.2.2⟩

/-! ### (d) the search is not complete -/

/-- (d) refuted: a non-empty profile of permutations of six distinct alternatives with a certified partition
into `2 ≤ k` single-peaked axes, on which the brute force returns `None` -/
theorem bf_not_complete : ∃ (alts : List Nat) (orders : List (List Nat)) (k : Nat) (axes : List (List Nat)),
    alts.Nodup ∧ orders ≠ [] ∧ (∀ o ∈ orders, o.Perm alts) ∧
    partitionCert alts (orders.map weak) axes = true ∧ axes.length ≤ k ∧
    partitionBruteForce alts orders k = none :=
  ⟨cexAlts, cexOrders, 2, cexAxes, by decide, by decide, by decide, cex_cert, by decide, cex_none⟩

/-- (d) refuted: on the same profile, for every `k ≥ 3` the brute force answers with three axes although two
suffice -/
theorem bf_not_minimal : ∃ (alts : List Nat) (orders : List (List Nat)) (axes : List (List Nat)),
    alts.Nodup ∧ orders ≠ [] ∧ (∀ o ∈ orders, o.Perm alts) ∧
    partitionCert alts (orders.map weak) axes = true ∧ axes.length = 2 ∧
    ∀ k, 3 ≤ k → ∃ r, partitionBruteForce alts orders k = some r ∧ r.length = 3 :=
  ⟨cexAlts, cexOrders, cexAxes, by decide, by decide, by decide, cex_cert, rfl, cex_three⟩

end PrefVerif.C18BF
