import PrefVerif.Spec.Domains
import PrefVerif.Spec.Voting
import PrefVerif.Spec.Distances
import PrefVerif.Spec.NearlySP
import PrefVerif.Spec.Approval
import PrefVerif.Model.Distances
import PrefVerif.Lemmas.C15Perm
import PrefVerif.Lemmas.C15Relabel
import PrefVerif.Lemmas.C15Rules
/-!
# C15 — results do not depend on alternative labels or on ballot storage order

The specifications every proved recogniser / rule / table is equal to are invariant under any
injective relabelling `σ` of the alternatives and under any permutation of the ballot list.
Together with the correctness theorems of C04–C07, C11, C14, C20 (model = specification) this gives
the invariance of those functions; for the recognisers whose exactness is only tested the invariance
is tested metamorphically.  Helper lemmas live in `PrefVerif/Lemmas/C15*.lean`.
-/
namespace PrefVerif.C15
open PrefVerif PrefVerif.Spec

def relabelOrder (σ : Nat → Nat) (o : Order) : Order := o.map (fun c => c.map σ)
def Inj (σ : Nat → Nat) : Prop := ∀ a b, σ a = σ b → a = b

/-! ### relabelling -/

theorem contiguous_relabel (σ : Nat → Nat) (hσ : Inj σ) (axis S : List Nat) :
    contiguous (axis.map σ) (S.map σ) = contiguous axis S := by
  exact contiguous_relabel' hσ axis S

theorem spOnAxis_relabel (σ : Nat → Nat) (hσ : Inj σ) (orders : List Order) (axis : List Nat) :
    spOnAxis (orders.map (relabelOrder σ)) (axis.map σ) = spOnAxis orders axis := by
  exact spOnAxis_relabel' hσ orders axis

theorem bruteSP_relabel (σ : Nat → Nat) (hσ : Inj σ) (alts : List Nat) (orders : List Order) :
    bruteSP (alts.map σ) (orders.map (relabelOrder σ)) = bruteSP alts orders := by
  exact bruteSP_relabel' hσ alts orders

theorem kt_relabel (σ : Nat → Nat) (hσ : Inj σ) (a b : List Nat) :
    Distances.kt (a.map σ) (b.map σ) = Distances.kt a b := by
  exact kt_relabel' hσ a b

theorem scSeq_relabel (σ : Nat → Nat) (hσ : Inj σ) (alts : List Nat) (s : List (List Nat)) :
    scSeq (alts.map σ) (s.map (fun o => o.map σ)) = scSeq alts s := by
  exact scSeq_relabel' hσ alts s

theorem bruteSC_relabel (σ : Nat → Nat) (hσ : Inj σ) (alts : List Nat) (orders : List (List Nat)) :
    bruteSC (alts.map σ) (orders.map (fun o => o.map σ)) = bruteSC alts orders := by
  exact bruteSC_relabel' hσ alts orders

theorem prefCount_relabel (σ : Nat → Nat) (hσ : Inj σ) (v : List Order) (a b : Nat) :
    prefCount (v.map (relabelOrder σ)) (σ a) (σ b) = prefCount v a b := by
  exact prefCount_relabel' hσ v a b

theorem condorcet_relabel (σ : Nat → Nat) (hσ : Inj σ) (alts : List Nat) (v : List Order) (weak : Bool) :
    condorcet (alts.map σ) (v.map (relabelOrder σ)) weak = condorcet alts v weak := by
  exact condorcet_relabel' hσ alts v weak

/-- CORRECTED statement.  The `topCount` component needs every indifference class to be non-empty:
`inTop` reads `c.headD 0`, and on an empty class the default `0` is not relabelled.  Counterexample to
the unconditional form: `σ a = 3 * a + 2`, `v = [[[]]]`, `k = 1`, `a = 0`: `topCount 1 v 0 = 1` but
`topCount 1 (v.map (relabelOrder σ)) (σ 0) = 0`.  The other four scores are invariant as stated. -/
theorem scores_relabel (σ : Nat → Nat) (hσ : Inj σ) (v : List Order) (m k a : Nat) :
    pluralityScore (v.map (relabelOrder σ)) (σ a) = pluralityScore v a ∧
    vetoScore (v.map (relabelOrder σ)) (σ a) = vetoScore v a ∧
    ((∀ o ∈ v, ∀ c ∈ o, c ≠ []) → topCount k (v.map (relabelOrder σ)) (σ a) = topCount k v a) ∧
    bordaScore m (v.map (relabelOrder σ)) (σ a) = bordaScore m v a ∧
    savScore (v.map (relabelOrder σ)) (σ a) = savScore v a :=
  ⟨pluralityScore_relabel hσ v a, vetoScore_relabel hσ v a, fun hne => topCount_relabel hσ k v hne a,
    bordaScore_relabel hσ m v a, savScore_relabel hσ v a⟩

/-- the counterexample that made the correction of `scores_relabel` necessary -/
theorem topCount_relabel_cex :
    Inj (fun a => 3 * a + 2) ∧
      topCount 1 ([[[]]].map (relabelOrder (fun a => 3 * a + 2))) ((fun a => 3 * a + 2) 0) ≠ topCount 1 [[[]]] 0 :=
  ⟨fun a b h => by simp only at h; omega, by decide⟩

/-- winner sets are mapped through the bijection -/
theorem argmaxSet_relabel (σ : Nat → Nat) (hσ : Inj σ) (alts : List Nat) (score score' : Nat → Int)
    (h : ∀ a, score' (σ a) = score a) :
    argmaxSet (alts.map σ) score' = (argmaxSet alts score).map σ := by
  have _ := hσ   -- not needed
  exact argmaxSet_relabel' alts score score' h

/-! ### storage order / regrouping of the ballots -/

theorem spOnAxis_perm (orders orders' : List Order) (h : orders.Perm orders') (axis : List Nat) :
    spOnAxis orders axis = spOnAxis orders' axis := by
  exact spOnAxis_perm' h axis

theorem bruteSP_perm (alts alts' : List Nat) (ha : alts.Perm alts') (orders orders' : List Order)
    (h : orders.Perm orders') : bruteSP alts orders = bruteSP alts' orders' := by
  unfold bruteSP
  rw [any_perms_perm ha]
  congr 1
  funext ax
  exact spOnAxis_perm' h ax

theorem bruteSC_perm (alts : List Nat) (orders orders' : List (List Nat)) (h : orders.Perm orders') :
    bruteSC alts orders = bruteSC alts orders' := by
  exact any_perms_perm h _

theorem condorcet_perm (alts : List Nat) (v v' : List Order) (h : v.Perm v') (weak : Bool) :
    condorcet alts v weak = condorcet alts v' weak := by
  simp only [condorcet, margin_perm' h]

theorem thresholdWinners_perm (alts : List Nat) (v v' : List Order) (h : v.Perm v') :
    thresholdWinners alts v = thresholdWinners alts v' := by
  simp only [thresholdWinners, thresholdDepth_perm' h, topCount_perm' h]

theorem approval_perm (alts : List Nat) (approved approved' : List (List Nat)) (h : approved.Perm approved') :
    Approval.bruteCI alts approved = Approval.bruteCI alts approved' ∧
    Approval.bruteCEI alts approved = Approval.bruteCEI alts approved' ∧
    Approval.isPartition approved = Approval.isPartition approved' := by
  refine ⟨?_, ?_, ?_⟩
  · simp only [Approval.bruteCI, h.all_eq]
  · simp only [Approval.bruteCEI, h.all_eq]
  · simp only [Approval.isPartition, h.all_eq]

end PrefVerif.C15
