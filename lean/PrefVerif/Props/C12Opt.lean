import PrefVerif.Props.C12DP
import PrefVerif.Props.C03Complete
import PrefVerif.Lemmas.C12OptMain
/-!
# C12Opt — the Erdélyi–Lackner–Pfandler dynamic programme deletes as few alternatives as possible

`C12DP.deletion_cert` already shows that the answer of the model of `k_alternative_deletion` is a valid
certificate (the profile restricted to the returned axis is single-peaked on it).  This file states the
other half: no larger set of alternatives admits a single-peaked restriction.
Property theorems only; helper lemmas live in `PrefVerif/Lemmas/C12Opt*.lean`.
-/
namespace PrefVerif.C12Opt
open PrefVerif PrefVerif.Spec PrefVerif.KAlt

/-- a strict order restricted to the alternatives of `S` (order of `o` kept) -/
def restrict (S : List Nat) (o : List Nat) : List Nat := o.filter (fun a => S.contains a)

/-- one singleton class per alternative -/
def wrap (o : List Nat) : Order := o.map (fun a => [a])

/-- (k = 0) a profile that is single-peaked on all its alternatives loses none of them -/
theorem deletion_sp_complete (alts : List Nat) (orders : List (List Nat)) (hr : C03.Rankings alts orders)
    (hne : orders ≠ []) (hsp : SP alts (orders.map wrap)) :
    (kAlternativeDeletion alts orders).2 = [] := by
  have hres : orders.map (restrict alts) = orders := by
    have : ∀ o ∈ orders, restrict alts o = o := by
      intro o ho
      unfold restrict
      rw [List.filter_eq_self]
      intro a ha
      simpa using ((hr.2 o ho).2 a).1 ha
    rw [List.map_congr_left this, List.map_id']
  have hsp' : SP alts ((orders.map (fun o => o.filter (fun a => alts.contains a))).map ELO.wrap) := by
    have : SP alts ((orders.map (restrict alts)).map wrap) := by rw [hres]; exact hsp
    exact this
  have hle := optimal_length hr hne hr.1 (fun a ha => ha) hsp'
  unfold kAlternativeDeletion at hle ⊢
  have hnd := C12DP.axis_nodup orders alts
  have hsub := C12DP.axis_subset orders alts
  have hle' := List.Nodup.length_le_of_subset hnd (fun a ha => hsub a ha)
  have hm := same_members_of_sub hnd (by omega) hsub hr.1
  rw [C12DP.removed_eq, List.filter_eq_nil_iff]
  intro a ha
  simpa using (hm a).2 ha

/-- optimality: every duplicate-free set `S` of alternatives on which the restricted profile is single-peaked
is at most as large as the axis returned -/
theorem deletion_optimal (alts : List Nat) (orders : List (List Nat)) (hr : C03.Rankings alts orders)
    (hne : orders ≠ []) (S : List Nat) (hS : S.Nodup) (hsub : ∀ a ∈ S, a ∈ alts)
    (hsp : SP S ((orders.map (restrict S)).map wrap)) :
    S.length ≤ (kAlternativeDeletion alts orders).1.length :=
  optimal_length hr hne hS hsub hsp

end PrefVerif.C12Opt
