import PrefVerif.Model.EntryPoints
import PrefVerif.Spec.Autocorrect
import PrefVerif.Spec.IOWF
import PrefVerif.Lemmas.IOwAList
import PrefVerif.Lemmas.C16Merge
import PrefVerif.Lemmas.C16Ballot
import PrefVerif.Lemmas.C16Names
import PrefVerif.Lemmas.C16Normal
import PrefVerif.Lemmas.C16Clean
import PrefVerif.Props.C01
/-!
# C16 — autocorrect parsing yields a normal form and conserves voters

Property theorems only (helper lemmas: shared `PrefVerif/Lemmas/IO*.lean`, and `PrefVerif/Lemmas/C16*.lean`).
The first-occurrence clause of the property is FALSE for the pinned code (known finding D18):
`first_occurrence_counterexample` exhibits it on the model, `first_occurrence_partial` is what holds.
-/
namespace PrefVerif.C16
open PrefVerif PrefVerif.Py PrefVerif.InstanceIO PrefVerif.Spec

/-- what one ordinal ballot line decodes to (`none`: blank line, skipped) -/
def decodeOrd (raw : Str) : Except Err (Option (Nat × Order)) :=
  let line := removeWs raw
  if line.isEmpty then .ok none
  else match splitOn ':' (strip line) with
    | [m, o] => (intField m).map (fun mult => some (mult, OrdinalIO.scanOrder o))
    | _ => .error .valueError

/-- ordinal: after autocorrect no ballot is listed twice, the table is exactly the merge of the
ballot lines (multiplicity = sum over the lines of that ballot, first-appearance order), and
num_voters / num_unique_orders / num_alternatives are recomputed from ballots and names -/
theorem ord_normal_form (lines : List Str) (j : OrdinalIO.OrdInst)
    (h : OrdinalIO.parse {} lines true false = .ok j) :
    j.orders.Nodup ∧ AList.keys j.multiplicity = j.orders ∧
    j.header.numVoters = (AList.values j.multiplicity).sum ∧
    j.numUniqueOrders = j.orders.length ∧
    j.header.numAlternatives = j.header.altNames.length := by
  exact ord_normal lines j h

/-- voters are conserved: if the ballot part of the content is `ballots` (the lines after the
header), the table is the merge of what the lines decode to -/
theorem ord_merge (i : OrdinalIO.OrdInst) (ballots : List Str) (decoded : List (Nat × Order))
    (hi : i.orders = [] ∧ i.multiplicity = [])
    (hd : ballots.mapM decodeOrd = .ok (decoded.map some)) :
    ∃ j, ballots.foldlM (OrdinalIO.ballotLine true) i = .ok j ∧
      j.multiplicity = Autocorrect.merged (decoded.map (fun mo => (mo.1, mo.2))) ∧
      j.orders = AList.keys j.multiplicity ∧ j.header = i.header := by
  exact ord_merge_decodeLine i ballots decoded hi hd

/-- `merged` really is "each distinct ballot once with the sum of its lines" -/
theorem merged_spec (lines : List (Nat × Order)) :
    (AList.keys (Autocorrect.merged lines)).Nodup ∧
    (∀ o, (AList.get? (Autocorrect.merged lines) o).getD 0 = ((lines.filter (fun mo => mo.2 == o)).map (·.1)).sum) ∧
    (AList.values (Autocorrect.merged lines)).sum = (lines.map (·.1)).sum := by
  rw [merged_eq_bumpAll]
  refine ⟨bumpAll_nodup lines [] (by simp [AList.keys]), fun o => ?_, ?_⟩
  · rw [bumpAll_get?]; simp [AList.get?]
  · rw [bumpAll_sum]; simp [AList.values]

/-- categorical analogue of `ord_normal_form` -/
theorem cat_normal_form (lines : List Str) (j : CategoricalIO.CatInst)
    (h : CategoricalIO.parse {} lines true false = .ok j) :
    j.preferences.Nodup ∧ AList.keys j.multiplicity = j.preferences ∧
    j.header.numVoters = (AList.values j.multiplicity).sum ∧
    j.numUniquePreferences = j.preferences.length ∧
    j.header.numAlternatives = j.header.altNames.length := by
  exact cat_normal lines j h

/-- the `__n` loop always terminates on an unused name (fuel = number of names + 1 suffices) -/
theorem freshSuffix_fresh (taken : List Str) (name : Str) :
    freshSuffix taken name (taken.length + 1) 1 ∉ taken := by
  exact freshSuffix_not_mem taken name

/-- names stay pairwise distinct: assigning names to new ids with autocorrect keeps the values
duplicate-free -/
theorem names_distinct (raw : List (Nat × Str)) (hk : (raw.map (·.1)).Nodup) :
    (AList.values (raw.foldl (fun names kv => assignName names kv.1 kv.2 true) [])).Nodup := by
  exact foldl_assignName_nodup raw [] (by simpa [AList.keys] using hk) (by simp [AList.values])

/-- PARTIAL (what holds of the first-occurrence clause): a name that equals no name assigned so
far is stored unchanged -/
theorem first_occurrence_partial (names : AList Nat Str) (k : Nat) (name : Str)
    (hk : k ∉ AList.keys names) (hn : name ∉ AList.values names) :
    assignName names k name true = names ++ [(k, name)] := by
  rw [assignName_of_not_mem names k name true hn, IOL.set_of_not_mem names k name hk]

/-- the full clause fails (D18): the raw name `A__1` is a first occurrence, yet it is renamed
because the second `A` already took the generated name `A__1` -/
theorem first_occurrence_counterexample :
    AList.values ([(1, s "A"), (2, s "A"), (3, s "A__1")].foldl
      (fun names kv => assignName names kv.1 kv.2 true) []) = [s "A", s "A__1", s "A__1__1"] := by
  decide

/-- step lemmas: on a name / ballot not seen before, the autocorrect branch is the plain branch -/
theorem assignName_clean (names : AList Nat Str) (k : Nat) (name : Str) (hn : name ∉ AList.values names) :
    assignName names k name true = assignName names k name false := by
  rw [assignName_of_not_mem names k name true hn, assignName_false]

theorem ballotLine_clean (i : OrdinalIO.OrdInst) (raw : Str) (m : Nat) (o : Order)
    (hd : decodeOrd raw = .ok (some (m, o))) (ho : o ∉ AList.keys i.multiplicity) :
    OrdinalIO.ballotLine true i raw = OrdinalIO.ballotLine false i raw := by
  apply ballotLine_true_eq_false
  intro m' o' hd'
  have : decodeLine raw = .ok (some (m, o)) := hd
  rw [this] at hd'
  cases hd'
  exact ho

/-- on content that is already clean — the file written from a well-formed instance with pairwise
distinct names and header counts that match its ballots — `autocorrect=True` and
`autocorrect=False` produce the same instance -/
theorem clean_identity_ord {W : Type} (readW : Str → Option W) (i : OrdinalIO.OrdInst)
    (h : Spec.IO.wfOrd i = true) (hn : (AList.values i.header.altNames).Nodup)
    (hc : i.header.numAlternatives = i.header.altNames.length ∧
          i.header.numVoters = (AList.values i.multiplicity).sum ∧ i.numUniqueOrders = i.orders.length)
    (base ext : Str) (hext : EntryPoints.typeValid .ordinal ext = true) :
    EntryPoints.parseFile readW .ordinal base ext (OrdinalIO.write i) true false
      = EntryPoints.parseFile readW .ordinal base ext (OrdinalIO.write i) false false := by
  rw [parseFile_write_true readW i h hn hc base ext hext, C01.roundtrip readW i h base ext hext]

/-- non-vacuity of `ord_normal_form` / `ord_merge`: duplicate names, a duplicate ballot line, a
blank line — the parse succeeds, the ballots are merged, the voters recounted -/
example : (OrdinalIO.parse {} [s "# ALTERNATIVE NAME 1: A\n", s "# ALTERNATIVE NAME 2: A\n",
      s "3: 1,2\n", s " \n", s "4:1 , 2\n", s "1: 2,1\n"] true false).toOption.map
    (fun j => (j.multiplicity, j.header.numVoters, AList.values j.header.altNames))
  = some ([([[1], [2]], 7), ([[2], [1]], 1)], 8, [s "A", s "A__1"]) := by decide

/-- non-vacuity of `clean_identity_ord`: its hypotheses are satisfiable -/
example : let i : OrdinalIO.OrdInst :=
    { header := { fileName := s "a.soc", dataType := s "soc", numAlternatives := 2, numVoters := 3,
                  altNames := [(1, s "A"), (2, s "A__1")] },
      numUniqueOrders := 2, orders := [[[1], [2]], [[2], [1]]],
      multiplicity := [([[1], [2]], 2), ([[2], [1]], 1)] }
    Spec.IO.wfOrd i = true ∧ (AList.values i.header.altNames).Nodup ∧
    i.header.numAlternatives = i.header.altNames.length ∧
    i.header.numVoters = (AList.values i.multiplicity).sum ∧ i.numUniqueOrders = i.orders.length := by
  decide

end PrefVerif.C16
