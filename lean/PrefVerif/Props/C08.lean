import PrefVerif.Model.EntryPoints
import PrefVerif.Spec.IOWF
import PrefVerif.Spec.PrefLibFormat
import PrefVerif.Lemmas.C08Render
import PrefVerif.Lemmas.C08Sort
import PrefVerif.Lemmas.C08Roundtrip
import PrefVerif.Lemmas.C08Reader
/-!
# C08 — categorical preference files survive write → parse unchanged

Property theorems only (helper lemmas: shared `PrefVerif/Lemmas/IO*.lean`, and `PrefVerif/Lemmas/C08*.lean`).
-/
namespace PrefVerif.C08
open PrefVerif PrefVerif.Py PrefVerif.InstanceIO PrefVerif.CategoricalIO PrefVerif.EntryPoints PrefVerif.Spec.IO

/-- key lemma: the categorical ballot pattern (as a scanner) inverts the renderer on every ballot
with at least one category — empty categories first, last, consecutive; singletons; larger ones -/
theorem scan_render (b : Ballot) (hb : b ≠ []) :
    scanBallot (removeSpaces (strip (renderBallot b))) = b :=
  scanBallot_renderBallot b hb

theorem roundtrip {W : Type} (readW : Str → Option W) (i : CatInst) (h : wfCat i = true) (base : Str) :
    parseFile readW .categorical base (s "cat") (write i) false false = .ok (.cat (normCat i)) :=
  parseFile_write readW i h base

theorem roundtrip_get {W : Type} (readW : Str → Option W) (i : CatInst) (h : wfCat i = true) (base : Str) :
    getParsedInstance readW base (s "cat") (write i) false false = .ok (.cat (normCat i)) := by
  have hext : classOfExt (s "cat") = some .categorical := by decide
  simp only [getParsedInstance, hext]
  exact parseFile_write readW i h base

/-- same category count and names, alternative names, counts, metadata; exactly the same ballots
with the same multiplicities -/
theorem norm_same (i : CatInst) (h : wfCat i = true) :
    (normCat i).header = i.header ∧ (normCat i).numUniquePreferences = i.numUniquePreferences ∧
    (normCat i).numCategories = i.numCategories ∧ (normCat i).categoriesName = i.categoriesName ∧
    (normCat i).preferences.Perm i.preferences ∧
    (∀ b, (normCat i).multiplicity.get? b = i.multiplicity.get? b) ∧ wfCat (normCat i) = true :=
  ⟨rfl, rfl, rfl, rfl, IOL.stableSort_perm _ _, normCat_get? i h, wfCat_normCat i h⟩

theorem rewrite (i : CatInst) (h : wfCat i = true) : write (normCat i) = write i := by
  have h1 : stableSort (keyLe (normCat i).multiplicity) (normCat i).preferences
      = stableSort (keyLe i.multiplicity) i.preferences := sorted_normCat i h
  simp only [write, h1, normCat_get? i h]
  rfl

def expectedFields (i : CatInst) : List (Str × Str) :=
  [(s "FILE NAME", i.header.fileName), (s "TITLE", i.header.title), (s "DESCRIPTION", i.header.description),
   (s "DATA TYPE", i.header.dataType), (s "MODIFICATION TYPE", i.header.modificationType),
   (s "RELATES TO", i.header.relatesTo), (s "RELATED FILES", i.header.relatedFiles),
   (s "PUBLICATION DATE", i.header.publicationDate), (s "MODIFICATION DATE", i.header.modificationDate),
   (s "NUMBER ALTERNATIVES", natToStr i.header.numAlternatives), (s "NUMBER VOTERS", natToStr i.header.numVoters),
   (s "NUMBER UNIQUE PREFERENCES", natToStr i.numUniquePreferences),
   (s "NUMBER CATEGORIES", natToStr i.numCategories)]

theorem independent_reader (i : CatInst) (h : wfCat i = true) :
    Spec.Format.read false (write i) = some
      { fields := expectedFields i, altNames := i.header.altNames, catNames := i.categoriesName,
        ballots := (normCat i).preferences.map (fun b => ((i.multiplicity.get? b).getD 0, b)), edges := [] } ∧
    Spec.Format.nonIncreasing ((normCat i).preferences.map (fun b => (i.multiplicity.get? b).getD 0)) = true := by
  have hf : expectedFields i = IOL.kvMeta i.header ++ kvNum i := rfl
  exact ⟨by rw [reader_write i h, hf]; rfl, nonIncreasing_sorted i⟩

/-- non-vacuity: empty categories first / middle / last, unplaced alternatives, empty names -/
example : wfCat { header := { fileName := s "a.cat", dataType := s "cat", numAlternatives := 3, numVoters := 6,
                              altNames := [(1, s ""), (2, s "b: c"), (13, s "A__1")] },
                  numUniquePreferences := 4, numCategories := 3,
                  categoriesName := [(1, s "Yes"), (2, s ""), (3, s "{No}")],
                  preferences := [[[], [1, 13], []], [[2], [], [1]], [[], [], []], [[13, 2, 1], [], []]],
                  multiplicity := [([[], [1, 13], []], 2), ([[2], [], [1]], 2), ([[], [], []], 1),
                                   ([[13, 2, 1], [], []], 1)] } = true := by
  decide

end PrefVerif.C08
