import PrefVerif.Model.SingleWinner
import PrefVerif.Spec.Voting
import PrefVerif.Lemmas.C06Rules
import PrefVerif.Lemmas.C06KApproval
import PrefVerif.Lemmas.C06Borda
import PrefVerif.Lemmas.C06Sav
import PrefVerif.Lemmas.C06Copeland
/-!
# C06 — scoring rules return exactly the textbook winner set

Property theorems only (helper lemmas live in `PrefVerif/Lemmas/C06*.lean`).
`wfInst`: alternatives distinct, at least one order, every order non-empty with non-empty
pairwise-disjoint classes of known alternatives, multiplicities ≥ 1.
`Truthful i`: the declared data type is the one the ballots have.
-/
namespace PrefVerif.C06
open PrefVerif PrefVerif.SingleWinner PrefVerif.Spec PrefVerif.Py

-- `Truthful` is not needed by the proofs of `veto_correct`, `kApproval_correct` and
-- `copeland_correct` (the explicit `dataType` hypothesis already passes the guard); the
-- hypothesis is kept because the statements are fixed.
set_option linter.unusedVariables false

def Truthful (i : Inst) : Prop := i.dataType = typeOf i.alts i.profile

/-- the model answered `ok ws` and `ws` is exactly the set of maximisers of `score` -/
def Winners {β : Type} [LE β] (r : Res (List Nat)) (alts : List Nat) (score : Nat → β) : Prop :=
  ∃ ws, r = .ok ws ∧ IsArgmax alts score ws

theorem plurality_correct (i : Inst) (hwf : wfInst i = true) (ht : Truthful i) :
    Winners (pluralityWinner i) i.alts (pluralityScore (votes i.profile)) := by
  obtain ⟨ws, h1, h2⟩ := plurality_core i hwf
  exact ⟨ws, by simp only [pluralityWinner, requiresType, truthful_mem ht, if_true, pluralityCore, h1, ofOption], h2⟩

theorem veto_correct (i : Inst) (hwf : wfInst i = true) (ht : Truthful i)
    (hd : i.dataType = "soc" ∨ i.dataType = "toc") :
    ∃ ws, vetoWinner i = .ok ws ∧ IsArgmin i.alts (vetoScore (votes i.profile)) ws := by
  obtain ⟨ws, h1, h2⟩ := veto_core i hwf
  have hg : ["soc", "toc"].contains i.dataType = true := by
    rcases hd with h | h <;> simp [h]
  exact ⟨ws, by simp only [vetoWinner, requiresType, hg, if_true, h1, ofOption], h2⟩

theorem kApproval_correct (i : Inst) (k : Nat) (hk : 1 ≤ k) (hwf : wfInst i = true) (ht : Truthful i)
    (hd : i.dataType = "soc" ∨ i.dataType = "soi") :
    Winners (kApprovalWinner i k) i.alts (topCount k (votes i.profile)) := by
  obtain ⟨ws, h1, h2⟩ := kApproval_core i k hk hwf
  have hg : ["soc", "soi"].contains i.dataType = true := by
    rcases hd with h | h <;> simp [h]
  exact ⟨ws, by simp only [kApprovalWinner, requiresType, hg, if_true, h1, ofOption], h2⟩

theorem borda_correct (i : Inst) (hwf : wfInst i = true) (ht : Truthful i)
    (hd : i.dataType = "soc" ∨ i.dataType = "toc") :
    Winners (bordaWinner i) i.alts (bordaScore i.numAlternatives (votes i.profile)) := by
  have hc := typeOf_complete i.alts i.profile (by rw [← ht]; exact hd)
  obtain ⟨ws, h1, h2⟩ := borda_core i hwf hc
  have hg : ["soc", "toc"].contains i.dataType = true := by
    rcases hd with h | h <;> simp [h]
  have hg' : ["toc", "soc"].contains i.dataType = true := by
    rcases hd with h | h <;> simp [h]
  exact ⟨ws, by simp only [bordaWinner, requiresType, hg, hg', if_true, h1, ofOption], h2⟩

/-- Copeland counts pairwise contests won -/
theorem copeland_correct (i : Inst) (hwf : wfInst i = true) (ht : Truthful i)
    (hd : i.dataType = "soc") :
    Winners (copelandWinner i) i.alts (copelandScore i.alts (votes i.profile)) := by
  obtain ⟨ws, h1, h2⟩ := copeland_core i hwf
  have hg : ["soc"].contains i.dataType = true := by simp [hd]
  have hg' : ordinal4.contains i.dataType = true := by simp [hd, ordinal4]
  exact ⟨ws, by simp only [copelandWinner, requiresType, hg, hg', if_true, h1, ofOption], h2⟩

theorem approval_correct (i : Inst) (hwf : wfInst i = true) (ht : Truthful i)
    (ha : isApproval i = some true) :
    Winners (approvalWinner i) i.alts (pluralityScore (votes i.profile)) := by
  have : approvalWinner i = pluralityWinner i := by
    simp only [approvalWinner, requiresApproval, truthful_mem' ht, ha, Bool.not_true, Bool.false_eq_true, if_false]
  rw [this]; exact plurality_correct i hwf ht

theorem sav_correct (i : Inst) (hwf : wfInst i = true) (ht : Truthful i)
    (ha : isApproval i = some true) :
    Winners (satisfactionApprovalWinner i) i.alts (savScore (votes i.profile)) := by
  obtain ⟨ws, h1, h2⟩ := sav_core i hwf
  exact ⟨ws, by simp only [satisfactionApprovalWinner, requiresApproval, truthful_mem' ht, ha,
    Bool.not_true, Bool.false_eq_true, if_false, h1, ofOption], h2⟩

/-! ### guards: an instance whose type is outside the documented domain is refused -/

theorem plurality_guard (i : Inst) (h : i.dataType ∉ ["soc", "toc", "soi", "toi"]) :
    pluralityWinner i = .refused := by
  simp only [pluralityWinner, requiresType, ordinal4, List.contains_iff_mem]
  rw [if_neg h]
theorem veto_guard (i : Inst) (h : i.dataType ∉ ["soc", "toc"]) : vetoWinner i = .refused := by
  simp only [vetoWinner, requiresType, List.contains_iff_mem]
  rw [if_neg h]
theorem kApproval_guard (i : Inst) (k : Nat) (h : i.dataType ∉ ["soc", "soi"]) :
    kApprovalWinner i k = .refused := by
  simp only [kApprovalWinner, requiresType, List.contains_iff_mem]
  rw [if_neg h]
theorem borda_guard (i : Inst) (h : i.dataType ∉ ["soc", "toc"]) : bordaWinner i = .refused := by
  simp only [bordaWinner, requiresType, List.contains_iff_mem]
  rw [if_neg h]
theorem copeland_guard (i : Inst) (h : i.dataType ≠ "soc") : copelandWinner i = .refused := by
  have h' : i.dataType ∉ ["soc"] := by simpa using h
  simp only [copelandWinner, requiresType, List.contains_iff_mem]
  rw [if_neg h']
theorem approval_guard (i : Inst) (h : isApproval i = some false) :
    approvalWinner i = .refused ∧ satisfactionApprovalWinner i = .refused := by
  constructor <;> simp only [approvalWinner, satisfactionApprovalWinner, requiresApproval, h] <;> split <;> rfl

/-! ### merging / splitting: every score is a function of the multiset of ballots -/

theorem scores_perm (v w : List Order) (h : v.Perm w) (alts : List Nat) (m k a : Nat) :
    pluralityScore v a = pluralityScore w a ∧ vetoScore v a = vetoScore w a ∧
    topCount k v a = topCount k w a ∧ bordaScore m v a = bordaScore m w a ∧
    copelandScore alts v a = copelandScore alts w a ∧ savScore v a = savScore w a := by
  exact scores_perm' v w h alts m k a

/-- two instances over the same alternatives whose full profiles are the same multiset of
ballots have the same plurality winners (same statement for the other rules via `scores_perm`) -/
theorem plurality_regroup (i j : Inst) (hi : wfInst i = true) (hj : wfInst j = true)
    (hti : Truthful i) (htj : Truthful j) (ha : i.alts = j.alts)
    (hv : (votes i.profile).Perm (votes j.profile)) :
    ∃ wi wj, pluralityWinner i = .ok wi ∧ pluralityWinner j = .ok wj ∧ ∀ a, a ∈ wi ↔ a ∈ wj := by
  obtain ⟨wi, h1, h2⟩ := plurality_correct i hi hti
  obtain ⟨wj, h3, h4⟩ := plurality_correct j hj htj
  refine ⟨wi, wj, h1, h3, fun a => ?_⟩
  rw [h2 a, h4 a, ha]
  have : ∀ b, pluralityScore (votes i.profile) b = pluralityScore (votes j.profile) b :=
    fun b => (scores_perm' _ _ hv [] 0 0 b).1
  simp only [this]

/-- non-vacuity -/
example : wfInst { dataType := "toc", alts := [1, 2, 3], profile := [([[1], [2, 3]], 2), ([[3], [1], [2]], 1)] } = true
    ∧ Truthful { dataType := "toc", alts := [1, 2, 3], profile := [([[1], [2, 3]], 2), ([[3], [1], [2]], 1)] } := by
  refine ⟨by decide, ?_⟩
  unfold Truthful
  decide

end PrefVerif.C06
