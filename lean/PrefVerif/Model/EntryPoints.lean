import PrefVerif.Model.OrdinalIO
import PrefVerif.Model.CategoricalIO
import PrefVerif.Model.MatchingIO
/-!
Model of the parsing entry points: `parse_lines` (type gate), `parse_file`, `parse_str`,
`parse_url` (as repaired by D15) of `instance.py`, and `get_parsed_instance` of `utils.py`.
`os.path` is not modelled: the entry points receive the base name and the extension.
-/
namespace PrefVerif.EntryPoints
open PrefVerif.Py PrefVerif.InstanceIO

inductive Cls where
  | ordinal | categorical | matching
  deriving Repr, BEq, DecidableEq

/-- `type_validator` of the three classes -/
def typeValid : Cls → Str → Bool
  | .ordinal, t => [s "soc", s "soi", s "toc", s "toi"].contains t
  | .categorical, t => t == s "cat"
  | .matching, t => t == s "wmd"

inductive AnyInst (W : Type) where
  | ord (i : OrdinalIO.OrdInst)
  | cat (i : CategoricalIO.CatInst)
  | mat (i : MatchingIO.MatchInst W)

/-- a freshly constructed instance of the class (`__init__`): note the default data types -/
def fresh (W : Type) : Cls → AnyInst W
  | .ordinal => .ord { header := { dataType := s "toi" } }
  | .categorical => .cat { header := { dataType := s "cat" } }
  | .matching => .mat {}

def AnyInst.header {W : Type} : AnyInst W → Header
  | .ord i => i.header | .cat i => i.header | .mat i => i.header

def AnyInst.setHeader {W : Type} (f : Header → Header) : AnyInst W → AnyInst W
  | .ord i => .ord { i with header := f i.header }
  | .cat i => .cat { i with header := f i.header }
  | .mat i => .mat { i with header := f i.header }

/-- `parse_lines`: the `type_validator` gate, then the class's `parse` -/
def parseLines {W : Type} (readW : Str → Option W) (cls : Cls) (i : AnyInst W) (lines : List Str)
    (autocorrect headerOnly : Bool) : Except Err (AnyInst W) :=
  if !typeValid cls i.header.dataType then .error .typeError
  else match i with
    | .ord o => (OrdinalIO.parse o lines autocorrect headerOnly).map .ord
    | .cat c => (CategoricalIO.parse c lines autocorrect headerOnly).map .cat
    | .mat m => (MatchingIO.parse readW m lines autocorrect headerOnly).map .mat

/-- `parse_file(path)`: `file_name` = base name, `data_type` = extension, `readlines()` -/
def parseFile {W : Type} (readW : Str → Option W) (cls : Cls) (baseName ext content : Str)
    (autocorrect headerOnly : Bool) : Except Err (AnyInst W) :=
  let i := (fresh W cls).setHeader (fun h => { h with fileName := baseName, dataType := ext })
  parseLines readW cls i (readlines content) autocorrect headerOnly

/-- `parse_str(string, data_type, file_name)`: `splitlines()` -/
def parseStr {W : Type} (readW : Str → Option W) (cls : Cls) (content dataType fileName : Str)
    (autocorrect headerOnly : Bool) : Except Err (AnyInst W) :=
  let i := (fresh W cls).setHeader (fun h => { h with fileName := fileName, dataType := dataType })
  parseLines readW cls i (splitlines content) autocorrect headerOnly

/-- `parse_url(url)` after D15: `[l.strip() for l in data.read().decode().splitlines()]`;
`file_name` is the base name up to its first dot, `data_type` what follows the last dot -/
def parseUrl {W : Type} (readW : Str → Option W) (cls : Cls) (stem ext content : Str)
    (autocorrect headerOnly : Bool) : Except Err (AnyInst W) :=
  let i := (fresh W cls).setHeader (fun h => { h with fileName := stem, dataType := ext })
  parseLines readW cls i ((splitlines content).map strip) autocorrect headerOnly

/-- `get_parsed_instance`: extension → class (`none` = `TypeError`, unknown extension) -/
def classOfExt (ext : Str) : Option Cls :=
  if [s "soc", s "soi", s "toc", s "toi"].contains ext then some .ordinal
  else if ext == s "cat" then some .categorical
  else if ext == s "wmd" then some .matching
  else none

def getParsedInstance {W : Type} (readW : Str → Option W) (baseName ext content : Str)
    (autocorrect headerOnly : Bool) : Except Err (AnyInst W) :=
  match classOfExt ext with
  | none => .error .typeError
  | some cls => parseFile readW cls baseName ext content autocorrect headerOnly

end PrefVerif.EntryPoints
