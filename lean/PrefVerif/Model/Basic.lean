import PrefVerif.Py.AList
/-! Shared vocabulary: alternatives are `Nat`, an order is a list of indifference classes,
a profile is the `multiplicity` dict in insertion order. -/
namespace PrefVerif

abbrev Order := List (List Nat)
abbrev Profile := List (Order × Nat)

/-- the attributes of an `OrdinalInstance` the analysed functions read -/
structure Inst where
  dataType : String
  alts : List Nat          -- keys of `alternatives_name`, insertion order
  profile : Profile        -- `orders` with `multiplicity[order]`, storage order
  deriving Repr

def Inst.numAlternatives (i : Inst) : Nat := i.alts.length
def Inst.numVoters (i : Inst) : Nat := (i.profile.map (·.2)).sum

/-- all maximisers of a score dict: `{a for a in scores if scores[a] == max(scores.values())}`;
`none` is the `ValueError` of `max()` on an empty dict. -/
def argmaxKeys {β : Type} [Max β] [BEq β] (scores : List (Nat × β)) : Option (List Nat) :=
  match scores.map (·.2) with
  | [] => none
  | v :: vs =>
    let best := vs.foldl max v
    some ((scores.filter (fun p => p.2 == best)).map (·.1))

def argminKeys {β : Type} [Min β] [BEq β] (scores : List (Nat × β)) : Option (List Nat) :=
  match scores.map (·.2) with
  | [] => none
  | v :: vs =>
    let best := vs.foldl min v
    some ((scores.filter (fun p => p.2 == best)).map (·.1))

/-- outcome of a guarded library call -/
inductive Res (α : Type) where
  | ok (v : α)
  | refused            -- `PreferenceIncompatibleError`
  | valueError         -- `ValueError` (e.g. `max()` of an empty sequence)
  | typeError
  deriving Repr, BEq

/-- `@requires_preference_type(*dtype)` -/
def requiresType {α : Type} (dtypes : List String) (i : Inst) (f : Inst → Res α) : Res α :=
  if dtypes.contains i.dataType then f i else .refused

def ofOption {α : Type} : Option α → Res α
  | some v => .ok v
  | none => .valueError

end PrefVerif
