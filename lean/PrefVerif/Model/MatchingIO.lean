import PrefVerif.Model.InstanceIO
import PrefVerif.Py.Sort
/-!
Model of `WeightedDiGraph` and `MatchingInstance.parse` / `write`
(`preflibtools/instances/preflibinstance/matching.py`).

Weights are an opaque type `W` with `showW : W → Str` (`str(float)`) and `readW : Str → Option W`
(`float(str)`); the two facts assumed about them are hypotheses of the theorems, not axioms.
Node ids are non-negative (the file grammar of names cannot express a sign).
-/
namespace PrefVerif.MatchingIO
open PrefVerif.Py PrefVerif.InstanceIO

structure Graph (W : Type) where
  nodeMapping : AList Nat (List Nat) := []      -- node → set of successors (insertion order)
  weights : AList (Nat × Nat) W := []
  deriving Repr

def Graph.addNode {W : Type} (g : Graph W) (n : Nat) : Graph W :=
  if g.nodeMapping.contains n then g else { g with nodeMapping := AList.set g.nodeMapping n [] }

/-- `add_edge`: both nodes added, successor set updated, weight overwritten -/
def Graph.addEdge {W : Type} (g : Graph W) (a b : Nat) (w : W) : Graph W :=
  let g := (g.addNode a).addNode b
  let succ := (g.nodeMapping.get? a).getD []
  { nodeMapping := AList.set g.nodeMapping a (if succ.contains b then succ else succ ++ [b]),
    weights := AList.set g.weights (a, b) w }

def Graph.nodes {W : Type} (g : Graph W) : List Nat := AList.keys g.nodeMapping

/-- `edges()` as a list (a set in Python) -/
def Graph.edges {W : Type} (g : Graph W) : List (Nat × Nat × Option W) :=
  g.nodeMapping.flatMap (fun kv => kv.2.map (fun b => (kv.1, b, g.weights.get? (kv.1, b))))

structure MatchInst (W : Type) where
  header : Header := {}
  numEdges : Nat := 0
  graph : Graph W := {}
  deriving Repr

def headerStep {W : Type} (autocorrect : Bool) (i : MatchInst W) (line : Str) : Except Err (MatchInst W) :=
  if startsWith line (s "# NUMBER EDGES") then do
    let n ← intField (line.drop 15); .ok { i with numEdges := n }
  else do
    let h ← parseMetadata i.header line autocorrect; .ok { i with header := h }

/-- `(v1, v2, w) = line.strip().replace(" ", "").split(",")` -/
def edgeLine {W : Type} (readW : Str → Option W) (i : MatchInst W) (raw : Str) : Except Err (MatchInst W) :=
  match splitOn ',' (removeSpaces (strip raw)) with
  | [a, b, w] => do
    let a ← intField a
    let b ← intField b
    match readW w with
    | some w => .ok { i with graph := i.graph.addEdge a b w }
    | none => .error .valueError
  | _ => .error .valueError

def parse {W : Type} (readW : Str → Option W) (i0 : MatchInst W) (lines : List Str)
    (autocorrect headerOnly : Bool) : Except Err (MatchInst W) := do
  let (i, idx) ← headerLoop (headerStep autocorrect) i0 lines 0
  let i := { i with header := { i.header with numVoters := i.header.numAlternatives } }
  if headerOnly then return i
  let i ← (lines.drop idx).foldlM (edgeLine readW) i
  return { i with numEdges := ((AList.values i.graph.nodeMapping).map List.length).sum }

/-- `write`: nodes sorted, out-edges sorted by target -/
def write {W : Type} (showW : W → Str) (i : MatchInst W) : Str :=
  writeMetadata i.header
    ++ s "# NUMBER ALTERNATIVES: " ++ natToStr i.header.numAlternatives
    ++ s "\n# NUMBER EDGES: " ++ natToStr i.numEdges ++ s "\n"
    ++ writeAltNames i.header.altNames
    ++ ((stableSort (fun a b => decide (a ≤ b)) i.graph.nodes).flatMap (fun n =>
        (stableSort (fun a b => decide (a ≤ b)) ((i.graph.nodeMapping.get? n).getD [])).map (fun b =>
          natToStr n ++ s ", " ++ natToStr b ++ s ", "
            ++ (match i.graph.weights.get? (n, b) with | some w => showW w | none => []) ++ s "\n"))).flatten

end PrefVerif.MatchingIO
