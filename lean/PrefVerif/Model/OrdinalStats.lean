import PrefVerif.Model.Ordinal
/-!
Model of the remaining statistics of `properties/basic.py` on an ordinal instance:
`max_num_indif`, `min_num_indif`, `smallest_indif` (`largest_indif` is in `Model/Ordinal.lean`).
`max(xs + [d])` / `min(xs + [d])` are folds started at the default `d`.
-/
namespace PrefVerif.Ordinal
open PrefVerif PrefVerif.Py

/-- `len([p for p in o if len(p) > 1])` -/
def numIndif (o : Order) : Nat := (o.filter (fun c => c.length > 1)).length
/-- `max([len([p for p in o if len(p) > 1]) for o in preferences] + [0])` -/
def maxNumIndif (s : OrdState) : Nat := (s.orders.map numIndif).foldl max 0
/-- `min([...] + [instance.num_alternatives])` -/
def minNumIndif (s : OrdState) : Nat := (s.orders.map numIndif).foldl min s.numAlternatives
/-- `min([len(p) for o in preferences for p in o if len(p) > 0] + [instance.num_alternatives])` -/
def smallestIndif (s : OrdState) : Nat :=
  ((s.orders.flatten.map List.length).filter (· > 0)).foldl min s.numAlternatives

end PrefVerif.Ordinal
