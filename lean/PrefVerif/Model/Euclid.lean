import PrefVerif.Model.SingleCrossing
/-!
Model of `is_one_euclidean` (`preflibtools/properties/subdomains/ordinal/euclidean.py`) up to and
including the linear programme handed to the solver: the single-crossing pre-check, the colouring of
the alternatives from the two ends of the single-crossing arrangement returned by the pre-check (after
the repair `fix: is_one_euclidean takes the extreme voters from the single-crossing order`), the split into coloured and "grey"
alternatives, the axis built from the colours (`axis_dict` counting + stable descending sort),
`_restrict_preferences`, the constraint generation of `_one_euclidean_solve_lp` and the set
bookkeeping of `_one_euclidean_gen_sets`.  The code is modelled AS IT IS (defect D17b is not
repaired): grey alternatives never enter the LP.  The LP solver and the float arithmetic of the grey
placement are not modelled.

ASSUMPTION on Python `set` iteration (CPython 3.12, checked empirically by
`/tmp/agents/EUC/setorder.py`): the alternatives are `1..m` with `m ≤ 7`.  An int `k` hashes to
itself and lands in slot `k mod size` of a table of at least 8 slots, so every set of ints `< 8`
(however built: `set(dict)`, `set([...])`, set difference, after `remove`) iterates in INCREASING
order, and `set.pop()` pops the smallest element.  From `m = 8` on this fails (`{1, 8}` built by the
comprehension iterates `8, 1`); the model is only claimed for `m ≤ 7`.  Accordingly all functions
below take the alternatives `alts` sorted increasingly.
-/
namespace PrefVerif.Euclid
open PrefVerif.SingleCrossing

/-- colours: 0 red (C_M), 1 blue (C_R), 2 green (C_L), 3 grey -/
abbrev Colouring := List (Nat × Nat)

def colour (g : Colouring) (c : Nat) : Nat := (g.lookup c).getD 3
def setColour (g : Colouring) (c : Nat) (v : Nat) : Colouring :=
  g.map (fun kv => if kv.1 == c then (kv.1, v) else kv)

def idx (o : List Nat) (a : Nat) : Nat := o.idxOf a

/-- initial colouring -/
def initColouring (cs v1 vn : List Nat) (cMinus cPlus : Nat) : Colouring :=
  cs.map (fun c =>
    if (decide (idx v1 c < idx v1 cPlus) && decide (idx vn c < idx vn cMinus)) || c == cMinus || c == cPlus
    then (c, 0) else (c, 3))

/-- the pair loop over `itertools.permutations(C_set, 2)`; `none` = colouring cannot be completed -/
def colourPairs (v1 vn : List Nat) : List (Nat × Nat) → Colouring → Option Colouring
  | [], g => some g
  | (a, b) :: rest, g =>
    if decide (idx v1 a < idx v1 b) && decide (idx vn b < idx vn a) then
      if colour g a == 1 || colour g b == 2 then none
      else
        let g := if colour g a == 3 then setColour g a 2 else g
        let g := if colour g b == 3 then setColour g b 1 else g
        colourPairs v1 vn rest g
    else colourPairs v1 vn rest g

def orderedPairs (cs : List Nat) : List (Nat × Nat) :=
  cs.flatMap (fun a => (cs.filter (· != a)).map (fun b => (a, b)))

structure Stage where
  sc : Bool                      -- single-crossing pre-check passed
  coloured : Option Colouring    -- `none`: colouring stage failed
  grey : List Nat                -- alternatives left grey (C_set_minus)
  deriving Repr

/-- `sc_orders` of `is_SC, sc_orders = is_single_crossing(instance)`: the single-crossing arrangement found by
the pre-check (meaningful when the pre-check passed) -/
def scOrders (alts : List Nat) (orders : List (List Nat)) : List (List Nat) := (isSC orders alts.length).2

/-- everything up to the LP call for a given outcome `(isSc, s)` of the pre-check
`is_SC, sc_orders = is_single_crossing(instance)`; `v_1 = sc_orders[0]`, `v_n = sc_orders[-1]`: the two ends of
the single-crossing arrangement (NOT the first and last stored order) -/
def stageOn (alts : List Nat) (isSc : Bool) (s : List (List Nat)) : Stage :=
  if !isSc then { sc := false, coloured := none, grey := [] }
  else
    match s.head?, s.getLast? with
    | some v1, some vn =>
      let cMinus := v1.headD 0
      let cPlus := vn.headD 0
      let g0 := initColouring alts v1 vn cMinus cPlus
      match colourPairs v1 vn (orderedPairs alts) g0 with
      | none => { sc := true, coloured := none, grey := [] }
      | some g => { sc := true, coloured := some g, grey := alts.filter (fun c => colour g c == 3) }
    | _, _ => { sc := true, coloured := none, grey := [] }

/-- everything up to the LP call, with the pre-check of the model of `is_single_crossing` -/
def stage (alts : List Nat) (orders : List (List Nat)) : Stage :=
  stageOn alts (isSC orders alts.length).1 (scOrders alts orders)

/-! ## The axis -/

/-- `C_set_plus = set([c for c in C_set if gamma[c] != 3])`, enumerated increasingly -/
def colouredAlts (alts : List Nat) (g : Colouring) : List Nat := alts.filter (fun c => colour g c != 3)

/-- `itertools.combinations(l, 2)` -/
def combos2 : List Nat → List (Nat × Nat)
  | [] => []
  | a :: rest => rest.map (fun b => (a, b)) ++ combos2 rest

/-- the key of `axis_dict` incremented for the pair `(a, b)` (`none`: no branch of the
`if/elif` chain applies — impossible for colours in `{0, 1, 2}`) -/
def axisWinner (g : Colouring) (v1 vn : List Nat) (a b : Nat) : Option Nat :=
  let ga := colour g a
  let gb := colour g b
  if (ga == 2 && gb == 0) || (ga == 0 && gb == 1) || (ga == 2 && gb == 1) then some a
  else if (gb == 2 && ga == 0) || (gb == 0 && ga == 1) || (gb == 2 && ga == 1) then some b
  else if (ga == 0 && gb == 0) || (ga == 1 && gb == 1) then
    if idx v1 a < idx v1 b then some a else some b
  else if ga == 2 && gb == 2 then
    if idx vn a < idx vn b then some b else some a
  else none

/-- `axis_dict[k] += 1` -/
def bump (d : List (Nat × Nat)) (k : Nat) : List (Nat × Nat) :=
  d.map (fun kv => if kv.1 == k then (kv.1, kv.2 + 1) else kv)

/-- one round of the loop over `itertools.combinations(C_set_plus, 2)` -/
def axisStep (g : Colouring) (v1 vn : List Nat) (d : List (Nat × Nat)) (ab : Nat × Nat) : List (Nat × Nat) :=
  match axisWinner g v1 vn ab.1 ab.2 with
  | some k => bump d k
  | none => d

/-- `axis_dict` after the loop over `itertools.combinations(C_set_plus, 2)`; the keys are in
insertion order, i.e. the iteration order of `C_set_plus` -/
def axisDict (g : Colouring) (v1 vn : List Nat) (cplus : List Nat) : List (Nat × Nat) :=
  (combos2 cplus).foldl (axisStep g v1 vn) (cplus.map (fun c => (c, 0)))

/-- `[k for k, v in sorted(axis_dict.items(), key=lambda item: item[1], reverse=True)]`:
Python's sort is stable and `reverse=True` keeps equal elements in their original order, so this
is a stable sort for the order "larger count first" -/
def axisOf (g : Colouring) (v1 vn : List Nat) (cplus : List Nat) : List Nat :=
  (PrefVerif.Py.stableSort (fun x y => decide (y.2 ≤ x.2)) (axisDict g v1 vn cplus)).map (·.1)

/-- `_restrict_preferences(instance, C_set_plus)` -/
def restrictPreferences (orders : List (List Nat)) (cplus : List Nat) : List (List Nat) :=
  orders.map (fun pref => pref.filter (fun c => cplus.contains c))

/-! ## The linear programme of `_one_euclidean_solve_lp`

A constraint is `Σ coeffᵢ·varᵢ  (≤ | = | ≥)  rhs` over exact rationals, in the normal form
python-mip stores it (`lhs - rhs  sense  0`, the constant moved to the right-hand side). -/

inductive Var where
  | voter (i : Nat)         -- `voter_{i}`: position of voter `i`
  | alt (a : Nat)           -- `alternative_{a}`: position of alternative `a`
  deriving Repr, BEq, DecidableEq

inductive Sense where
  | le | eq | ge
  deriving Repr, BEq, DecidableEq

structure Constr where
  terms : List (Rat × Var)
  sense : Sense
  rhs : Rat
  deriving Repr

def eval (asg : Var → Rat) (terms : List (Rat × Var)) : Rat := (terms.map (fun t => t.1 * asg t.2)).sum

def satisfies (asg : Var → Rat) (c : Constr) : Bool :=
  match c.sense with
  | .le => decide (eval asg c.terms ≤ c.rhs)
  | .eq => decide (eval asg c.terms = c.rhs)
  | .ge => decide (eval asg c.terms ≥ c.rhs)

/-- `pairs = [(a, b) for a, b in itertools.combinations(axis, 2) if axis.index(a) < axis.index(b)]` -/
def lpPairs (axis : List Nat) : List (Nat × Nat) :=
  (combos2 axis).filter (fun ab => decide (idx axis ab.1 < idx axis ab.2))

/-- `all_vars[n + axis.index(a)] + 1 <= all_vars[n + axis.index(b)]`  ⇝  `x_a - x_b ≤ -1`
(`all_vars[n + axis.index(a)]` is the variable named `alternative_{axis[axis.index(a)]}`, and
`axis[axis.index(a)] == a`) -/
def axisConstr (a b : Nat) : Constr :=
  { terms := [(1, .alt a), (-1, .alt b)], sense := .le, rhs := -1 }

/-- `all_vars[i] + 1 <= (x_a + x_b) / 2`  ⇝  `v_i - x_a/2 - x_b/2 ≤ -1` -/
def voterLeft (i a b : Nat) : Constr :=
  { terms := [(1, .voter i), (-(1 : Rat) / 2, .alt a), (-(1 : Rat) / 2, .alt b)], sense := .le, rhs := -1 }

/-- `all_vars[i] >= (x_b + x_a) / 2 + 1`  ⇝  `v_i - x_b/2 - x_a/2 ≥ 1` -/
def voterRight (i a b : Nat) : Constr :=
  { terms := [(1, .voter i), (-(1 : Rat) / 2, .alt b), (-(1 : Rat) / 2, .alt a)], sense := .ge, rhs := 1 }

/-- the constraint of voter `i` (with restricted ranking `pref`) for the axis pair `(a, b)` -/
def voterConstr (i : Nat) (pref : List Nat) (a b : Nat) : Constr :=
  if idx pref a < idx pref b then voterLeft i a b else voterRight i a b

/-- the constraints added for one axis pair: the axis constraint, then one per voter `0..n-1` -/
def pairConstrs (preferences : List (List Nat)) (ab : Nat × Nat) : List Constr :=
  axisConstr ab.1 ab.2 ::
    (preferences.zipIdx).map (fun pi => voterConstr pi.2 pi.1 ab.1 ab.2)

/-- all constraints of `_one_euclidean_solve_lp(preferences, axis)`, in the order they are added -/
def lpConstraints (preferences : List (List Nat)) (axis : List Nat) : List Constr :=
  (lpPairs axis).flatMap (pairConstrs preferences)

/-! ## `_one_euclidean_gen_sets` -/

/-- state of the double loop: `ind`, `tmp`, and the dict `f` (keys in insertion order) -/
structure GenState where
  ind : Nat
  tmp : Option Nat
  f : List (Nat × List Nat)
  deriving Repr

/-- `if not ind in f: f[ind] = set()` / `f[ind].add(a)` (sets kept sorted, duplicate-free) -/
def addTo (f : List (Nat × List Nat)) (ind a : Nat) : List (Nat × List Nat) :=
  match f.lookup ind with
  | some _ => f.map (fun kv => if kv.1 == ind then (kv.1, if kv.2.contains a then kv.2 else (kv.2 ++ [a]).mergeSort) else kv)
  | none => f ++ [(ind, [a])]

/-- one step of the inner `for b in C_set_minus` for the popped `a` -/
def genStep (v1 : List Nat) (s : GenState) (ab : Nat × Nat) : GenState :=
  if idx v1 ab.1 > idx v1 ab.2 then
    let ind := if s.tmp.isNone then s.ind + 1 else s.ind
    { ind := ind, tmp := some ab.2, f := addTo s.f ind ab.1 }
  else { s with f := addTo s.f s.ind ab.1 }

structure GenSets where
  f : List (List Nat)
  g : List (List Nat)
  k : Nat
  /-- the contents of the caller's `C_set_plus` / `C_set_minus` after the call (both are mutated) -/
  plusAfter : List Nat
  minusAfter : List Nat
  deriving Repr

/-- `_one_euclidean_gen_sets(v_1, C_set_plus, C_set_minus)` for a non-empty `C_set_plus` (it always
contains the tops of the first and the last voter).  With `C_set_minus` non-empty the outer `while`
runs exactly once: the inner `while` pops `C_set_plus` empty (smallest element first) and for each
popped `a` scans `C_set_minus` increasingly; `tmp` is never reset, so `ind` is bumped at most once
inside.  Afterwards `tmp` (if any) is removed from `C_set_minus` and put in `g[ind]`, and
`g[ind + 1]` is (an alias of) what is left of `C_set_minus`. -/
def genSets (v1 : List Nat) (cplus cminus : List Nat) : GenSets :=
  if cminus.isEmpty then { f := [cplus], g := [], k := 1, plusAfter := cplus, minusAfter := cminus }
  else if cplus.isEmpty then { f := [], g := [], k := 0, plusAfter := cplus, minusAfter := cminus }
  else
    let s := (cplus.flatMap (fun a => cminus.map (fun b => (a, b)))).foldl (genStep v1)
      { ind := 0, tmp := none, f := [] }
    let f := s.f.map (·.2)
    match s.tmp with
    | some t =>
      let rest := cminus.filter (· != t)
      { f := f, g := [[t], rest], k := f.length, plusAfter := [], minusAfter := rest }
    | none => { f := f, g := [cminus], k := f.length, plusAfter := [], minusAfter := cminus }

/-! ## Everything up to the LP -/

structure LP where
  /-- `C_set_plus` -/
  cplus : List Nat
  axis : List Nat
  preferences : List (List Nat)
  constraints : List Constr
  /-- what `_one_euclidean_gen_sets` returns if the LP turns out feasible -/
  sets : GenSets

/-- the linear programme `is_one_euclidean` hands to the solver for a given outcome `(isSc, s)` of the
pre-check; `none` when the function returns `(False, None)` before reaching it (pre-check or colouring
failed).  `alts` sorted increasingly. -/
def lpOn (alts : List Nat) (orders : List (List Nat)) (isSc : Bool) (s : List (List Nat)) : Option LP :=
  match (stageOn alts isSc s).coloured, s.head?, s.getLast? with
  | some g, some v1, some vn =>
    let cplus := colouredAlts alts g
    let axis := axisOf g v1 vn cplus
    let prefs := restrictPreferences orders cplus
    some { cplus := cplus, axis := axis, preferences := prefs,
           constraints := lpConstraints prefs axis,
           sets := genSets v1 cplus ((stageOn alts isSc s).grey) }
  | _, _, _ => none

/-- … with the pre-check of the model of `is_single_crossing` -/
def lp (alts : List Nat) (orders : List (List Nat)) : Option LP :=
  lpOn alts orders (isSC orders alts.length).1 (scOrders alts orders)

end PrefVerif.Euclid
