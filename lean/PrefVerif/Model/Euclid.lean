import PrefVerif.Model.SingleCrossing
/-!
Model of the combinatorial part of `is_one_euclidean`
(`preflibtools/properties/subdomains/ordinal/euclidean.py`): the single-crossing pre-check, the
colouring of the alternatives from the first and last stored voters, the split into coloured and
"grey" alternatives and the axis built from the colours.  The code is modelled AS IT IS (defect D17
is not repaired): grey alternatives never enter the LP.  Python sets of small ints are enumerated
in increasing order.  The LP solver and the float arithmetic of the grey placement are not modelled.
-/
namespace PrefVerif.Euclid
open PrefVerif.SingleCrossing

/-- colours: 0 red (C_M), 1 blue (C_R), 2 green (C_L), 3 grey -/
abbrev Colouring := List (Nat × Nat)

def colour (g : Colouring) (c : Nat) : Nat := (g.lookup c).getD 3
def setColour (g : Colouring) (c : Nat) (v : Nat) : Colouring :=
  g.map (fun kv => if kv.1 == c then (kv.1, v) else kv)

def idx (o : List Nat) (a : Nat) : Nat := o.idxOf a

/-- initial colouring -/
def initColouring (cs v1 vn : List Nat) (cMinus cPlus : Nat) : Colouring :=
  cs.map (fun c =>
    if (decide (idx v1 c < idx v1 cPlus) && decide (idx vn c < idx vn cMinus)) || c == cMinus || c == cPlus
    then (c, 0) else (c, 3))

/-- the pair loop over `itertools.permutations(C_set, 2)`; `none` = colouring cannot be completed -/
def colourPairs (v1 vn : List Nat) : List (Nat × Nat) → Colouring → Option Colouring
  | [], g => some g
  | (a, b) :: rest, g =>
    if decide (idx v1 a < idx v1 b) && decide (idx vn b < idx vn a) then
      if colour g a == 1 || colour g b == 2 then none
      else
        let g := if colour g a == 3 then setColour g a 2 else g
        let g := if colour g b == 3 then setColour g b 1 else g
        colourPairs v1 vn rest g
    else colourPairs v1 vn rest g

def orderedPairs (cs : List Nat) : List (Nat × Nat) :=
  cs.flatMap (fun a => (cs.filter (· != a)).map (fun b => (a, b)))

structure Stage where
  sc : Bool                      -- single-crossing pre-check passed
  coloured : Option Colouring    -- `none`: colouring stage failed
  grey : List Nat                -- alternatives left grey (C_set_minus)
  deriving Repr

/-- everything up to the LP call -/
def stage (alts : List Nat) (orders : List (List Nat)) : Stage :=
  let (isSc, _) := isSC orders alts.length
  if !isSc then { sc := false, coloured := none, grey := [] }
  else
    match orders.head?, orders.getLast? with
    | some v1, some vn =>
      let cMinus := v1.headD 0
      let cPlus := vn.headD 0
      let g0 := initColouring alts v1 vn cMinus cPlus
      match colourPairs v1 vn (orderedPairs alts) g0 with
      | none => { sc := true, coloured := none, grey := [] }
      | some g => { sc := true, coloured := some g, grey := alts.filter (fun c => colour g c == 3) }
    | _, _ => { sc := true, coloured := none, grey := [] }

end PrefVerif.Euclid
