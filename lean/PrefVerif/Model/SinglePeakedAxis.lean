import PrefVerif.Model.Basic
/-!
Model of `is_single_peaked_axis` (as repaired by D7), `sp_cons_ones_matrix` and the type guards of
the weak-order recognisers in `singlepeakedness.py`.
-/
namespace PrefVerif.SinglePeakedAxis

/-- `indif_class_pos(order, alt)` (`none` = falls off the loop, Python `None`) -/
def indifClassPos : Order → Nat → Option Nat
  | [], _ => none
  | c :: o, a => if c.contains a then some 0 else (indifClassPos o a).map (· + 1)

/-- the scan over `positions` with `peak_passed` / `previous_position`; D7: a return to position 0
after having left the peak is rejected -/
def scan : Bool → Option Nat → List Nat → Bool
  | _, _, [] => true
  | passed, prev, pos :: rest =>
    if pos == 0 then
      if passed && prev != some 0 then false else scan true (some pos) rest
    else
      match prev with
      | none => scan passed (some pos) rest
      | some q =>
        if passed then (if pos < q then false else scan passed (some pos) rest)
        else (if pos > q then false else scan passed (some pos) rest)

/-- per-voter test (alternatives of the axis missing from the order read as position 0 is not
modelled: the orders are complete) -/
def orderOk (o : Order) (axis : List Nat) : Bool :=
  scan false none (axis.map (fun a => (indifClassPos o a).getD 0))

/-- `is_single_peaked_axis(instance, axis)`; `TypeError` unless the type is toc / soc -/
def isSinglePeakedAxis (i : Inst) (axis : List Nat) : Res Bool :=
  if !(["toc", "soc"].contains i.dataType) then .typeError
  else .ok (i.profile.all (fun om => orderOk om.1 axis))

/-- `sp_cons_ones_matrix`: one row per voter and prefix of classes; a row is the list of column
indices (positions in `alternatives_name`) holding a 1 -/
def consOnesRows (alts : List Nat) (orders : List Order) : List (List Nat) :=
  orders.flatMap (fun o => (List.range o.length).map (fun lvl =>
    ((o.take (lvl + 1)).flatten.map (fun a => alts.idxOf a))))

end PrefVerif.SinglePeakedAxis
