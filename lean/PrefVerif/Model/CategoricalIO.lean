import PrefVerif.Model.InstanceIO
import PrefVerif.Model.OrdinalIO
/-!
Model of `CategoricalInstance.parse` / `write`
(`preflibtools/instances/preflibinstance/categorical.py`); category-name pattern as repaired by
D16: `# CATEGORY NAME (\d+): ?(.*)`.
-/
namespace PrefVerif.CategoricalIO
open PrefVerif.Py PrefVerif.InstanceIO

abbrev Ballot := List (List Nat)

structure CatInst where
  header : Header := {}
  numUniquePreferences : Nat := 0
  numCategories : Nat := 0
  categoriesName : AList Nat Str := []
  preferences : List Ballot := []
  multiplicity : AList Ballot Nat := []
  deriving Repr, BEq, DecidableEq

/-- `re.findall(r"{[\d,]+?}|[\d,]+|{}", s)` followed by the group handling of `parse` -/
def scan : Nat → List Char → Ballot
  | 0, _ => []
  | _, [] => []
  | fuel+1, c :: cs =>
    if c == '{' then
      let run := cs.takeWhile OrdinalIO.isDC
      let rest := cs.dropWhile OrdinalIO.isDC
      match run, rest with
      | _ :: _, '}' :: rest' => OrdinalIO.tokens run [] :: scan fuel rest'
      | [], '}' :: rest' => [] :: scan fuel rest'
      | _, _ => scan fuel cs
    else if OrdinalIO.isDC c then
      let run := (c :: cs).takeWhile OrdinalIO.isDC
      let rest := (c :: cs).dropWhile OrdinalIO.isDC
      (OrdinalIO.tokens run []).map (fun a => [a]) ++ scan fuel rest
    else scan fuel cs

def scanBallot (cs : List Char) : Ballot := scan (cs.length + 1) cs

def assignCatName (names : AList Nat Str) (k : Nat) (name : Str) (autocorrect : Bool) : AList Nat Str :=
  assignName names k name autocorrect

/-- header step; note the code's `if … if … elif … else` shape: a `# NUMBER UNIQUE PREFERENCES`
line also falls through to `parse_metadata` (where it matches nothing) -/
def headerStep (autocorrect : Bool) (i : CatInst) (line : Str) : Except Err CatInst := do
  let i ← (if startsWith line (s "# NUMBER UNIQUE PREFERENCES") then do
      let n ← intField (line.drop 28); pure { i with numUniquePreferences := n }
    else pure i : Except Err CatInst)
  if startsWith line (s "# NUMBER CATEGORIES") then do
    let n ← intField (line.drop 20); .ok { i with numCategories := n }
  else if startsWith line (s "# CATEGORY NAME") then
    match matchNumbered (s "# CATEGORY NAME ") line with
    | some (c, name) => .ok { i with categoriesName := assignCatName i.categoriesName c name autocorrect }
    | none => .ok i
  else do
    let h ← parseMetadata i.header line autocorrect; .ok { i with header := h }

/-- one ballot line: `line.strip().replace(" ", "").split(":")` — a blank line raises -/
def ballotLine (autocorrect : Bool) (i : CatInst) (raw : Str) : Except Err CatInst :=
  match splitOn ':' (removeSpaces (strip raw)) with
  | [m, p] => do
    let mult ← intField m
    let pref := scanBallot p
    if autocorrect && AList.contains i.multiplicity pref then
      .ok { i with multiplicity := AList.upd i.multiplicity pref 0 (· + mult) }
    else
      .ok { i with preferences := i.preferences ++ [pref], multiplicity := AList.set i.multiplicity pref mult }
  | _ => .error .valueError

def parse (i0 : CatInst) (lines : List Str) (autocorrect headerOnly : Bool) : Except Err CatInst := do
  let (i, idx) ← headerLoop (headerStep autocorrect) i0 lines 0
  if headerOnly then return i
  let i ← (lines.drop idx).foldlM (ballotLine autocorrect) i
  if autocorrect then
    return { i with
      header := { i.header with numAlternatives := i.header.altNames.length,
                                numVoters := (AList.values i.multiplicity).sum },
      numUniquePreferences := i.preferences.eraseDups.length }
  return i

def renderCategory : List Nat → Str
  | [] => s "{}, "
  | [a] => natToStr a ++ s ", "
  | cl => s "{" ++ join (s ", ") (cl.map natToStr) ++ s "}, "

def renderBallot (b : Ballot) : Str := stripCommaSpace (b.map renderCategory).flatten

def keyLe (mult : AList Ballot Nat) (a b : Ballot) : Bool :=
  let ma := (mult.get? a).getD 0
  let mb := (mult.get? b).getD 0
  ma > mb || (ma == mb && a.length ≥ b.length)

def write (i : CatInst) : Str :=
  writeMetadata i.header
    ++ s "# NUMBER ALTERNATIVES: " ++ natToStr i.header.numAlternatives
    ++ s "\n# NUMBER VOTERS: " ++ natToStr i.header.numVoters
    ++ s "\n# NUMBER UNIQUE PREFERENCES: " ++ natToStr i.numUniquePreferences ++ s "\n"
    ++ s "# NUMBER CATEGORIES: " ++ natToStr i.numCategories ++ s "\n"
    ++ (i.categoriesName.map (fun kv => s "# CATEGORY NAME " ++ natToStr kv.1 ++ s ": " ++ kv.2 ++ s "\n")).flatten
    ++ writeAltNames i.header.altNames
    ++ ((stableSort (keyLe i.multiplicity) i.preferences).map (fun b =>
          natToStr ((i.multiplicity.get? b).getD 0) ++ s ": " ++ renderBallot b ++ s "\n")).flatten

end PrefVerif.CategoricalIO
