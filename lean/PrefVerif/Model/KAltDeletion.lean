/-!
Model of `preflibtools/properties/subdomains/ordinal/singlepeaked/k_alternative_deletion.py`
(`longest_single_peaked_axis` and its helpers: the Erdélyi–Lackner–Pfandler dynamic programme) and of
`k_alt_partition_approx` in `k_alternative_partition.py`.

The Python code iterates over `set`s of alternatives (`L[i]`, `remaining_alternatives`), over a `set` of
`frozenset`s (`extensions`) and over the `frozenset`s themselves (`list(X)[0]`, `list(X)[1]`); its result
depends on these iteration orders (first-found maximum, first value stored under a key, which of the two
alternatives goes left).  The orders are those of the CPython hash table, so the first part of this file
models that table (`Objects/setobject.c`, validated against CPython 3.12.1: open addressing, `LINEAR_PROBES = 9`,
`PERTURB_SHIFT = 5`, growth at `fill*5 >= mask*3`, `set_merge` for `copy`/`update`, `frozenset.__hash__`).

Design of `PySet`: the *logical* content (`elems`, distinct keys in first-insertion order) is maintained
independently of the *layout* (`mask`, `table`).  Iteration (`PySet.iter`) is `elems` sorted by the slot each
key occupies in `table`; when the layout is the CPython one this is the table order, and in any case it is a
permutation of `elems` (so the structural theorems do not depend on the hash-table simulation).
-/
namespace PrefVerif.KAlt

/-! ## CPython `set` layout -/

/-- equality and (unsigned 64-bit) hash of the keys of a set -/
structure HashKey (α : Type) where
  eq : α → α → Bool
  hash : α → Nat

structure PySet (α : Type) where
  /-- logical content: the distinct keys, in order of first insertion -/
  elems : List α
  /-- table size minus one (`so->mask`) -/
  mask : Nat
  /-- `so->table`: `(hash, key)` or empty; no dummies since nothing is ever deleted -/
  table : Array (Option (Nat × α))

namespace PySet
variable {α : Type}

/-- `set()`: the 8-slot small table -/
def empty : PySet α := ⟨[], 7, Array.replicate 8 none⟩

def free (table : Array (Option (Nat × α))) (i : Nat) : Bool := (table.getD i none).isNone

/-- the probe sequence of `set_insert_clean` / `set_add_entry` (identical when there are no dummies):
slot `i`, then `i+1 … i+9` when they fit below `mask`, then `i := (5 i + 1 + (perturb >>= 5)) & mask`.
Fuel: `perturb` vanishes after 13 shifts and `i ↦ 5 i + 1 mod 2^k` has full period, and the table is never
full, so `mask + 20` rounds always suffice. -/
def probe (mask : Nat) (table : Array (Option (Nat × α))) : Nat → Nat → Nat → Option Nat
  | 0, _, _ => none
  | fuel + 1, i, perturb =>
    let n := if i + 9 ≤ mask then 9 else 0
    match (List.range (n + 1)).find? (fun j => free table (i + j)) with
    | some j => some (i + j)
    | none =>
      let p := perturb >>> 5
      probe mask table fuel ((i * 5 + 1 + p) % (mask + 1)) p

/-- `set_insert_clean(table, mask, key, hash)` -/
def insertClean (mask : Nat) (table : Array (Option (Nat × α))) (h : Nat) (k : α) :
    Array (Option (Nat × α)) :=
  match probe mask table (mask + 20) (h % (mask + 1)) h with
  | some slot => table.setIfInBounds slot (some (h, k))
  | none => table

/-- slot occupied by `k` (table size when absent) -/
def slotOf (K : HashKey α) (s : PySet α) (k : α) : Nat :=
  s.table.toList.findIdx (fun e => match e with | some (_, k') => K.eq k k' | none => false)

/-- iteration order: the keys by increasing slot -/
def iter (K : HashKey α) (s : PySet α) : List α :=
  s.elems.mergeSort (fun a b => decide (slotOf K s a ≤ slotOf K s b))

/-- `key in s` -/
def contains (K : HashKey α) (s : PySet α) (k : α) : Bool := s.elems.any (fun e => K.eq k e)

def newSize : Nat → Nat → Nat → Nat
  | 0, size, _ => size
  | fuel + 1, size, minused => if size ≤ minused then newSize fuel (size * 2) minused else size

/-- `set_table_resize(so, minused)`: smallest power of two `> minused` (at least 8); all keys re-inserted in
the old table order; nothing happens when the small table would be rebuilt into itself -/
def resize (K : HashKey α) (s : PySet α) (minused : Nat) : PySet α :=
  let size := newSize 64 8 minused
  if size == 8 && s.mask == 7 then s
  else
    { elems := s.elems, mask := size - 1,
      table := (s.iter K).foldl (fun t k => insertClean (size - 1) t (K.hash k) k)
        (Array.replicate size none) }

/-- `set_add_entry` -/
def add (K : HashKey α) (s : PySet α) (k : α) : PySet α :=
  if s.contains K k then s
  else
    let s' : PySet α :=
      { elems := s.elems ++ [k], mask := s.mask, table := insertClean s.mask s.table (K.hash k) k }
    let used := s'.elems.length
    if used * 5 ≥ s.mask * 3 then resize K s' (if used > 50000 then used * 2 else used * 4) else s'

/-- `set_merge(so, other)` (`so.update(other)` for a set argument) -/
def merge (K : HashKey α) (so other : PySet α) : PySet α :=
  if other.elems.length == 0 then so
  else
    let so := if (so.elems.length + other.elems.length) * 5 ≥ so.mask * 3
      then resize K so ((so.elems.length + other.elems.length) * 2) else so
    if so.elems.length == 0 && so.mask == other.mask then
      { elems := other.elems, mask := so.mask, table := other.table }
    else if so.elems.length == 0 then
      { elems := other.elems, mask := so.mask,
        table := (other.iter K).foldl (fun t k => insertClean so.mask t (K.hash k) k) so.table }
    else (other.iter K).foldl (add K) so

/-- `s.copy()` -/
def copy (K : HashKey α) (s : PySet α) : PySet α := merge K empty s

end PySet

/-- `hash(n)` of a non-negative `int` -/
def hashNat (n : Nat) : Nat := n % (2 ^ 61 - 1)

def natKey : HashKey Nat := ⟨fun a b => a == b, hashNat⟩

/-- a `frozenset` of alternatives -/
abbrev FS := PySet Nat

def fsEq (a b : FS) : Bool := a.elems.length == b.elems.length && a.elems.all (fun x => b.elems.contains x)

def shuffleBits (h : Nat) : Nat := ((h ^^^ 89869747) ^^^ ((h <<< 16) % 2 ^ 64)) * 3644798167 % 2 ^ 64

/-- `frozenset_hash` (as `Py_uhash_t`) -/
def fsHash (s : FS) : Nat :=
  let h := (s.elems.map (fun e => shuffleBits (hashNat e))).foldl (· ^^^ ·) 0
  let h := h ^^^ ((s.elems.length + 1) * 1927868237 % 2 ^ 64)
  let h := h ^^^ ((h >>> 11) ^^^ (h >>> 25))
  let h := (h * 69069 + 907133923) % 2 ^ 64
  if h == 2 ^ 64 - 1 then 590923713 else h

def fsKey : HashKey FS := ⟨fsEq, fsHash⟩

/-- `frozenset(l)` for a list `l` -/
def mkFrozen (l : List Nat) : FS := l.foldl (PySet.add natKey) PySet.empty

/-! ## the dynamic programme -/

/-- an incomplete axis: `None` marks the hole in the middle -/
abbrev Axis := List (Option Nat)

/-- boundary identifier: the two entries left and the two entries right of the hole -/
abbrev Bnd := Option Nat × Option Nat × Option Nat × Option Nat

/-- `boundary(axis)` (the hole is always present in the axes the algorithm builds) -/
def boundary (axis : Axis) : Bnd :=
  let x := axis.idxOf none + 2
  let tmp : Axis := [none, none] ++ axis ++ [none, none]
  (tmp.getD (x - 2) none, tmp.getD (x - 1) none, tmp.getD (x + 1) none, tmp.getD (x + 2) none)

/-- `b is not None and b < n` -/
def ltO (b : Option Nat) (n : Nat) : Bool :=
  match b with
  | some v => decide (v < n)
  | none => false

/-- `[vote.index(b_i) if b_i is not None else None for b_i in bound]` -/
def bndIdx (vote : List Nat) (bound : Bnd) : Bnd :=
  (bound.1.map vote.idxOf, bound.2.1.map vote.idxOf, bound.2.2.1.map vote.idxOf, bound.2.2.2.map vote.idxOf)

/-- `check_case_4(b, x)` -/
def checkCase4 (b : Bnd) (x : Nat) : Bool :=
  let leftB := match b.1, b.2.1 with
    | some b0, some b1 => decide (b0 < b1) && decide (x < b1)
    | _, _ => false
  let rightB := match b.2.2.2, b.2.2.1 with
    | some b3, some b2 => decide (b3 < b2) && decide (x < b2)
    | _, _ => false
  leftB || rightB

/-- the `for vote in votes` loop of `case_3`; `none` is the early `return axis, False` -/
def case3Loop (bound : Bnd) (x : Nat) : List (List Nat) → Bool × Bool → Option (Bool × Bool)
  | [], fl => some fl
  | vote :: rest, (flagC, flagD) =>
    let idX := vote.idxOf x
    let b := bndIdx vote bound
    if b.2.1.isSome && b.2.2.1.isSome && (ltO b.2.1 idX && ltO b.2.2.1 idX) then none
    else if (b.1.isSome || b.2.2.2.isSome) && checkCase4 b idX then none
    else
      let flagC := if ltO b.2.2.1 idX then true else flagC
      let flagD := if ltO b.2.1 idX then true else flagD
      case3Loop bound x rest (flagC, flagD)

/-- `case_3(axis, X, votes)` with `x = list(X)[0]` (the argument is already the copy made by `place`) -/
def case3 (axis : Axis) (x : Nat) (votes : List (List Nat)) : Axis × Bool :=
  let bound := boundary axis
  let r := if bound.2.1.isSome || bound.2.2.1.isSome then case3Loop bound x votes (false, false)
    else some (false, false)
  match r with
  | none => (axis, false)
  | some (flagC, flagD) =>
    let idX := axis.idxOf none
    let idX := if flagD then idX + 1 else idX
    (axis.take idX ++ [some x] ++ axis.drop idX, !(flagC && flagD))

structure Flags2 where
  c1 : Bool
  d1 : Bool
  c2 : Bool
  d2 : Bool

/-- the `for vote in votes` loop of `case_2`; `none` is the early `return axis, False` -/
def case2Loop (bound : Bnd) (x1 x2 : Nat) : List (List Nat) → Flags2 → Option Flags2
  | [], fl => some fl
  | vote :: rest, fl =>
    let id1 := vote.idxOf x1
    let id2 := vote.idxOf x2
    let b := bndIdx vote bound
    if b.2.1.isSome && b.2.2.1.isSome &&
        ((ltO b.2.1 id1 && ltO b.2.2.1 id1) || (ltO b.2.1 id2 && ltO b.2.2.1 id2)) then none
    else if (b.1.isSome || b.2.2.2.isSome) && (checkCase4 b id1 || checkCase4 b id2) then none
    else
      let c1 := if ltO b.2.2.1 id1 && decide (id2 < id1) then true else fl.c1
      let c2 := if ltO b.2.2.1 id2 && decide (id1 < id2) then true else fl.c2
      let d1 := if ltO b.2.1 id1 && decide (id2 < id1) then true else fl.d1
      let d2 := if ltO b.2.1 id2 && decide (id1 < id2) then true else fl.d2
      if (c1 && d1) || (c2 && d2) || (c1 && c2) || (d1 && d2) then none
      else case2Loop bound x1 x2 rest ⟨c1, d1, c2, d2⟩

/-- `case_2(axis, X, votes)` with `x1, x2 = list(X)[0], list(X)[1]` -/
def case2 (axis : Axis) (x1 x2 : Nat) (votes : List (List Nat)) : Axis × Bool :=
  let bound := boundary axis
  let r := if bound.2.1.isSome || bound.2.2.1.isSome then case2Loop bound x1 x2 votes ⟨false, false, false, false⟩
    else some ⟨false, false, false, false⟩
  match r with
  | none => (axis, false)
  | some fl =>
    let idNone := axis.idxOf none
    let firstHalf := axis.take idNone
    let secondHalf := axis.drop (idNone + 1)
    if fl.c2 || fl.d1 then (firstHalf ++ [some x2] ++ [none] ++ ([some x1] ++ secondHalf), true)
    else (firstHalf ++ [some x1] ++ [none] ++ ([some x2] ++ secondHalf), true)

/-- `place(axis, X, votes)`; `X` is given as `list(X)` (one or two alternatives) -/
def place (axis : Axis) (X : List Nat) (votes : List (List Nat)) : Axis × Bool :=
  match X with
  | [x] => case3 axis x votes
  | [x1, x2] => case2 axis x1 x2 votes
  | _ => (axis, false)

/-- `last_check(unique_votes, previous_alternatives, alternatives)`; the two local sets are only tested for
membership and are kept as lists (`[-1]` of an empty list cannot occur: the new alternatives are ranked by
every vote) -/
def lastCheck (votes : List (List Nat)) (prev : List Nat) (alts : List Nat) : Bool :=
  let restriction := alts ++ prev
  let lastOfAll := votes.filterMap (fun v => (v.filter (fun a => restriction.contains a)).getLast?)
  let lastOfNew := votes.filterMap (fun v =>
    ((v.filter (fun a => restriction.contains a)).filter (fun a => alts.contains a)).getLast?)
  let previousAreLast := alts.all (fun alt => !(lastOfAll.contains alt && prev.length != 0))
  let bothNewAreLast := alts.all (fun alt => lastOfNew.contains alt)
  previousAreLast && bothNewAreLast

/-- inner loop of `get_L_sets`: one pass over `votes_copy`, returning the new `votes_copy` and `last` -/
def lRound (alternatives : List Nat) (prev : PySet Nat) :
    List (List Nat) → PySet Nat → List (List Nat) × PySet Nat
  | [], last => ([], last)
  | v :: vs, last =>
    let newOrder := v.filter (fun a => !prev.contains natKey a && alternatives.contains a)
    let last := match newOrder.getLast? with
      | some a => last.add natKey a
      | none => last
    let r := lRound alternatives prev vs last
    (newOrder :: r.1, r.2)

def lLoop (alternatives : List Nat) : Nat → List (List Nat) → PySet Nat → List (PySet Nat)
  | 0, _, _ => []
  | n + 1, votesCopy, prev =>
    let r := lRound alternatives prev votesCopy PySet.empty
    r.2 :: lLoop alternatives n r.1 r.2

/-- `get_L_sets(alternatives, unique_votes)`: the list `[L[1], …, L[m]]` -/
def getLSets (alternatives : List Nat) (votes : List (List Nat)) : List (PySet Nat) :=
  lLoop alternatives alternatives.length votes PySet.empty

/-- `remaining_alternatives` of `eligible_alternatives`: `L[i].copy()` updated with `L[i], …, L[m-1]`;
the argument is the suffix `[L[i], …, L[m]]` -/
def remainingSet (suffix : List (PySet Nat)) : PySet Nat :=
  match suffix with
  | [] => PySet.empty
  | Li :: _ => suffix.dropLast.foldl (PySet.merge natKey) (Li.copy natKey)

/-- the pairs generated by the set comprehension of `eligible_alternatives`, in generation order -/
def candidates (Li rem : PySet Nat) (Y : List Nat) (votes : List (List Nat)) : List (Nat × Nat) :=
  (Li.iter natKey).flatMap (fun x1 =>
    (rem.iter natKey).filterMap (fun x2 => if lastCheck votes Y [x1, x2] then some (x1, x2) else none))

/-- `eligible_alternatives(i, m, Y, L, unique_votes)` as the list of `list(X)` for `X` in the iteration
order of the resulting set; the argument is the suffix `[L[i], …, L[m]]` -/
def eligible (suffix : List (PySet Nat)) (Y : List Nat) (votes : List (List Nat)) : List (List Nat) :=
  match suffix with
  | [] => []
  | Li :: _ =>
    let cands := candidates Li (remainingSet suffix) Y votes
    let X : PySet FS := cands.foldl (fun s p => s.add fsKey (mkFrozen [p.1, p.2])) PySet.empty
    (X.iter fsKey).map (fun fs => fs.iter natKey)

/-- a key of the table `S`: boundary identifier and the alternatives placed last (as `list(X)`) -/
structure Key where
  bnd : Bnd
  X : List Nat

def Key.eq (a b : Key) : Bool :=
  a.bnd == b.bnd && a.X.length == b.X.length && a.X.all (fun x => b.X.contains x)

/-- `if k not in S: S[k] = A elif len(A) > len(S[k]): S[k] = A` on a dict in insertion order -/
def dictPut : List (Key × Axis) → Key → Axis → List (Key × Axis)
  | [], k, A => [(k, A)]
  | (k', A') :: rest, k, A =>
    if k'.eq k then (if A.length > A'.length then (k', A) :: rest else (k', A') :: rest)
    else (k', A') :: dictPut rest k A

structure St where
  S : List (Key × Axis)
  longest : Axis
  locked : Axis

/-- body of `for X in extensions` -/
def processX (votes : List (List Nat)) (A : Axis) (st : St) (X : List Nat) : St :=
  let r := place A X votes
  if r.2 then
    { S := dictPut st.S ⟨boundary r.1, X⟩ r.1,
      longest := if r.1.length > st.longest.length then r.1 else st.longest,
      locked := st.locked }
  else if r.1 != A && r.1.length > st.locked.length then { st with locked := r.1 }
  else st

/-- body of `for key in S[i - 1]`; `suffix = [L[i], …, L[m]]` -/
def processKey (votes : List (List Nat)) (suffix : List (PySet Nat)) (remaining : List Nat)
    (st : St) (e : Key × Axis) : St :=
  if !e.2.contains none then st
  else if e.2.length + remaining.length < st.longest.length then st
  else (eligible suffix e.1.X votes).foldl (processX votes e.2) st

/-- `for i in range(1, m + 1)`, by recursion on the suffix `[L[i], …, L[m]]`; `st.S` is `S[i-1]` -/
def mainLoop (votes : List (List Nat)) : List (PySet Nat) → St → List Nat → St
  | [], st, _ => st
  | Li :: rest, st, remaining =>
    let st' := st.S.foldl (processKey votes (Li :: rest) remaining) st
    mainLoop votes rest st' (remaining.filter (fun c => !Li.contains natKey c))

def initKey : Key := ⟨(none, none, none, none), []⟩

/-- `longest_single_peaked_axis(instance, alternatives)` for the strict complete orders `orders`
(`unique_votes`): the axis and the removed alternatives -/
def longestSinglePeakedAxis (orders : List (List Nat)) (alternatives : List Nat) : List Nat × List Nat :=
  let L := getLSets alternatives orders
  let st := mainLoop orders L ⟨[(initKey, [none])], [none], [none]⟩ alternatives
  let longest := if st.locked.length > st.longest.length then st.locked else st.longest
  let axis := (longest.erase none).filterMap id
  (axis, alternatives.filter (fun i => !axis.contains i))

/-- `k_alternative_deletion(instance)` -/
def kAlternativeDeletion (alts : List Nat) (orders : List (List Nat)) : List Nat × List Nat :=
  longestSinglePeakedAxis orders alts

/-- the `while len(alternatives) > 0` loop of `k_alt_partition_approx`; every round removes at least one
alternative (for a non-empty profile), so `fuel = len(alternatives)` rounds suffice -/
def partitionLoop (orders : List (List Nat)) : Nat → List Nat → List (List Nat)
  | 0, _ => []
  | fuel + 1, alternatives =>
    if alternatives.length > 0 then
      let r := longestSinglePeakedAxis orders alternatives
      r.1 :: partitionLoop orders fuel r.2
    else []

/-- `k_alt_partition_approx(instance)` -/
def kAltPartitionApprox (alts : List Nat) (orders : List (List Nat)) : List (List Nat) :=
  partitionLoop orders alts.length alts

end PrefVerif.KAlt
