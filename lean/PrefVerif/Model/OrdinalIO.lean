import PrefVerif.Model.InstanceIO
import PrefVerif.Model.Basic
import PrefVerif.Py.Sort
/-!
Model of `OrdinalInstance.parse` / `OrdinalInstance.write`
(`preflibtools/instances/preflibinstance/ordinal.py`).
-/
namespace PrefVerif.OrdinalIO
open PrefVerif.Py PrefVerif.InstanceIO

structure OrdInst where
  header : Header := {}
  numUniqueOrders : Nat := 0
  orders : List Order := []
  multiplicity : AList Order Nat := []
  deriving Repr, BEq, DecidableEq

def isDC (c : Char) : Bool := c.isDigit || c == ','

/-- `int(alt.strip()) for alt in group.split(",") if len(alt) > 0` on a `[\d,]*` run -/
def tokens : List Char → List Char → List Nat
  | [], acc => if acc.isEmpty then [] else [Nat.ofDigitChars 10 acc 0]
  | c :: cs, acc =>
    if c == ',' then
      (if acc.isEmpty then [] else [Nat.ofDigitChars 10 acc 0]) ++ tokens cs []
    else tokens cs (acc ++ [c])

/-- `re.findall(r"\{[\d,]+?\}|[\d,]+", s)` followed by the group handling of `parse`:
a brace group becomes one class, a bare run one singleton class per number -/
def scan : Nat → List Char → Order
  | 0, _ => []
  | _, [] => []
  | fuel+1, c :: cs =>
    if c == '{' then
      let run := cs.takeWhile isDC
      let rest := cs.dropWhile isDC
      match run, rest with
      | _ :: _, '}' :: rest' => tokens run [] :: scan fuel rest'
      | _, _ => scan fuel cs
    else if isDC c then
      let run := (c :: cs).takeWhile isDC
      let rest := (c :: cs).dropWhile isDC
      (tokens run []).map (fun a => [a]) ++ scan fuel rest
    else scan fuel cs

def scanOrder (cs : List Char) : Order := scan (cs.length + 1) cs

/-- header step: `# NUMBER UNIQUE ORDERS` is handled by the subclass, the rest by `parse_metadata` -/
def headerStep (autocorrect : Bool) (i : OrdInst) (line : Str) : Except Err OrdInst :=
  if startsWith line (s "# NUMBER UNIQUE ORDERS") then do
    let n ← intField (line.drop 23); .ok { i with numUniqueOrders := n }
  else do
    let h ← parseMetadata i.header line autocorrect; .ok { i with header := h }

/-- one ballot line: `"".join(line.split())`, skip if empty, `mult, order = line.split(":")` -/
def ballotLine (autocorrect : Bool) (i : OrdInst) (raw : Str) : Except Err OrdInst :=
  let line := removeWs raw
  if line.isEmpty then .ok i
  else match splitOn ':' (strip line) with
    | [m, o] => do
      let mult ← intField m
      let order := scanOrder o
      if autocorrect && AList.contains i.multiplicity order then
        .ok { i with multiplicity := AList.upd i.multiplicity order 0 (· + mult) }
      else
        .ok { i with orders := i.orders ++ [order], multiplicity := AList.set i.multiplicity order mult }
    | _ => .error .valueError

/-- `OrdinalInstance.parse(lines, autocorrect, header_only)` starting from instance `i0` -/
def parse (i0 : OrdInst) (lines : List Str) (autocorrect headerOnly : Bool) : Except Err OrdInst := do
  let (i, idx) ← headerLoop (headerStep autocorrect) i0 lines 0
  if headerOnly then return i
  let i ← (lines.drop idx).foldlM (ballotLine autocorrect) i
  if autocorrect then
    return { i with
      header := { i.header with numAlternatives := i.header.altNames.length,
                                numVoters := (AList.values i.multiplicity).sum },
      numUniqueOrders := i.orders.length }
  return i

def renderClass : List Nat → Str
  | [a] => natToStr a ++ s ", "
  | cl => s "{" ++ join (s ", ") (cl.map natToStr) ++ s "}, "

/-- `order_str.strip(", ")` of the concatenated classes -/
def renderOrder (o : Order) : Str := stripCommaSpace (o.map renderClass).flatten

/-- sort key `(-multiplicity[o], -len(o))`, compared lexicographically -/
def keyLe (mult : AList Order Nat) (a b : Order) : Bool :=
  let ma := (mult.get? a).getD 0
  let mb := (mult.get? b).getD 0
  ma > mb || (ma == mb && a.length ≥ b.length)

/-- `OrdinalInstance.write`: the text written to the file -/
def write (i : OrdInst) : Str :=
  writeMetadata i.header
    ++ s "# NUMBER ALTERNATIVES: " ++ natToStr i.header.numAlternatives
    ++ s "\n# NUMBER VOTERS: " ++ natToStr i.header.numVoters
    ++ s "\n# NUMBER UNIQUE ORDERS: " ++ natToStr i.numUniqueOrders ++ s "\n"
    ++ writeAltNames i.header.altNames
    ++ ((stableSort (keyLe i.multiplicity) i.orders).map (fun o =>
          natToStr ((i.multiplicity.get? o).getD 0) ++ s ": " ++ renderOrder o ++ s "\n")).flatten

end PrefVerif.OrdinalIO
