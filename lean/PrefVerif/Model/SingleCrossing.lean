import PrefVerif.Model.Distances
import PrefVerif.Py.AList
import PrefVerif.Py.Sort
/-!
Model of `preflibtools/properties/subdomains/ordinal/singlecrossing.py`, with the bucket branch as
repaired by D2 (every element of a bucket is kept; the verification pass decides).
Orders are the flattened strict orders (`flatten_strict`).
-/
namespace PrefVerif.SingleCrossing
open PrefVerif.Distances PrefVerif.Py

/-- `_is_ordered_profile_single_crossing`: for `i` in `1 .. len-2`,
`K(p0,pi) + K(pi,pi+1) == K(p0,pi+1)` -/
def isOrderedSC : List (List Nat) → Bool
  | [] => true
  | p0 :: rest =>
    let rec go : List (List Nat) → Bool
      | pi :: pj :: more => (kt p0 pi + kt pi pj == kt p0 pj) && go (pj :: more)
      | _ => true
    go rest

/-- the score loop over `orders[2:]`; `none` = the early `return False, None` -/
def scoreLoop (v1 v2 : List Nat) (k : Nat) : List (List Nat) → AList (List Nat) Int → Option (AList (List Nat) Int)
  | [], sc => some sc
  | o :: os, sc =>
    let k1 := kt v1 o
    let k2 := kt v2 o
    if k1 + k2 == k then scoreLoop v1 v2 k os (AList.set sc o (k1 : Int))
    else if k + k2 == k1 then scoreLoop v1 v2 k os (AList.set sc o (k1 : Int))
    else if k1 + k == k2 then scoreLoop v1 v2 k os (AList.set sc o (-(k1 : Int)))
    else none

/-- `is_single_crossing`: `n` = number of orders, `m` = number of alternatives -/
def isSC (orders : List (List Nat)) (m : Nat) : Bool × List (List Nat) :=
  match orders with
  | [] => (true, orders)
  | [_] => (true, orders)
  | v1 :: v2 :: rest =>
    let k := kt v1 v2
    match scoreLoop v1 v2 k rest (AList.set [] v2 (k : Int)) with
    | none => (false, [])
    | some sc =>
      let score := fun o => (AList.get? sc o).getD 0            -- `defaultdict(lambda: 0)`
      let n := orders.length
      let votersOrder :=
        if n < m then stableSort (fun a b => decide (score a ≤ score b)) orders
        else
          -- buckets indexed by `score + m**2`, read in increasing index, each in insertion order
          let idxs := List.range (2 * m * m + 1)
          idxs.flatMap (fun (ix : Nat) => orders.filter (fun o => score o + ((m * m : Nat) : Int) == (ix : Int)))
      if isOrderedSC votersOrder then (true, votersOrder) else (false, [])

def prefers (a b : Nat) (o : List Nat) : Bool := decide (o.idxOf a < o.idxOf b)

/-- `conflict_set(o1, o2)`: pairs `(min, max)` ordered differently by the two orders -/
def conflictSet (o1 o2 : List Nat) : List (Nat × Nat) :=
  let rec outer : List Nat → List (Nat × Nat)
    | [] => []
    | x :: rest =>
      (rest.filterMap (fun y =>
        if (prefers x y o1 && prefers y x o2) || (prefers y x o1 && prefers x y o2)
        then some (min x y, max x y) else none)) ++ outer rest
  (outer o1).eraseDups

def subset (a b : List (Nat × Nat)) : Bool := a.all (fun x => b.contains x)

/-- `is_SC_with_first(i, profile)` -/
def isSCWithFirst (oi : List Nat) (profile : List (List Nat)) : Bool :=
  -- the code recomputes both conflict sets inside the double loop; computing them once per `j`
  -- is the same function
  let cs := profile.map (conflictSet oi)
  cs.all (fun cij => cs.all (fun cik => subset cij cik || subset cik cij))

def isSCConflictSets (orders : List (List Nat)) : Bool :=
  orders.any (fun oi => isSCWithFirst oi orders)

end PrefVerif.SingleCrossing
