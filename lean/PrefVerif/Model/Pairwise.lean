import PrefVerif.Model.Basic
/-!
Model of `preflibtools/properties/pairwisecomparisons.py` and `instances/convert.py::order_to_pwg`.
`has_condorcet` is modelled as repaired (fix D6: it reads the `copeland_scores` table).
A `KeyError` (alternative not in `alternatives_name`, or repeated inside an order) is outside
the well-formedness domain; the totalised model leaves the table unchanged there.
-/
namespace PrefVerif.Pairwise
open PrefVerif.Py

abbrev Table := AList Nat (AList Nat Int)

/-- `{alt: {a: 0 for a in alts if a != alt} for alt in alts}` -/
def initTable (alts : List Nat) : Table :=
  alts.map (fun alt => (alt, (alts.filter (fun a => a != alt)).map (fun a => (a, (0 : Int)))))

/-- `scores[w][b] += d` on pre-initialised nested dicts -/
def bump (t : Table) (w b : Nat) (d : Int) : Table :=
  match AList.get? t w with
  | none => t
  | some row =>
    match AList.get? row b with
    | none => t
    | some v => AList.set t w (AList.set row b (v + d))

/-- body of `pairwise_scores` for one `(order, multiplicity)` -/
def pairwiseOrder (t : Table) (o : Order) (m : Nat) : Table :=
  (o.foldl (fun (acc : Table × List Nat) cls =>
    (cls.foldl (fun t beaten => acc.2.foldl (fun t w => bump t w beaten m) t) acc.1,
     acc.2 ++ cls)) (t, [])).1

def pairwiseScores (alts : List Nat) (p : Profile) : Table :=
  p.foldl (fun t om => pairwiseOrder t om.1 om.2) (initTable alts)

/-- body of `copeland_scores` for one `(order, multiplicity)` -/
def copelandOrder (t : Table) (o : Order) (m : Nat) : Table :=
  (o.foldl (fun (acc : Table × List Nat) cls =>
    (cls.foldl (fun t beaten =>
        acc.2.foldl (fun t w => bump (bump t w beaten m) beaten w (-(m : Int))) t) acc.1,
     acc.2 ++ cls)) (t, [])).1

def copelandScores (alts : List Nat) (p : Profile) : Table :=
  p.foldl (fun t om => copelandOrder t om.1 om.2) (initTable alts)

def listMin : List Int → Option Int
  | [] => none
  | v :: vs => some (vs.foldl min v)

/-- `any(min(s.values()) > 0 for s in scores.values())` (`>= 0` when `weak`); `none` models the
`ValueError` of `min()` on an empty row (one alternative) reached before a `True`. -/
def hasCondorcet (alts : List Nat) (p : Profile) (weak : Bool) : Option Bool :=
  let rows := (copelandScores alts p).map (·.2)
  let rec go : List (AList Nat Int) → Option Bool
    | [] => some false
    | r :: rs =>
      match listMin (AList.values r) with
      | none => none
      | some mn => if (if weak then mn ≥ 0 else mn > 0) then some true else go rs
  go rows

/-- `borda_scores`: `res[alt] += i * mult` with `i` the number of alternatives ranked strictly
below the class (counted from `num_alternatives`); a `defaultdict`, so only ranked alternatives
get a key, in order of first appearance. -/
def bordaOrder (res : AList Nat Int) (numAlts : Nat) (o : Order) (m : Nat) : AList Nat Int :=
  (o.foldl (fun (acc : AList Nat Int × Int) cls =>
    let i := acc.2 - cls.length
    (cls.foldl (fun r alt => AList.upd r alt 0 (· + i * m)) acc.1, i)) (res, (numAlts : Int))).1

def bordaScores (numAlts : Nat) (p : Profile) : AList Nat Int :=
  p.foldl (fun r om => bordaOrder r numAlts om.1 om.2) []

/-- data lines of `order_to_pwg`: `(score, a, b)` per entry of `pairwise_scores`, in table order,
together with `(num_voters, total, number of lines)` -/
def pwgLines (alts : List Nat) (p : Profile) : List (Int × Nat × Nat) :=
  (pairwiseScores alts p).flatMap (fun row => row.2.map (fun e => (e.2, row.1, e.1)))

def pwgCount (numVoters : Nat) (alts : List Nat) (p : Profile) : Nat × Int × Nat :=
  let ls := pwgLines alts p
  (numVoters, (ls.map (·.1)).sum, ls.length)

end PrefVerif.Pairwise
