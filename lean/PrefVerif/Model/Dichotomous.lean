import PrefVerif.Py.AList
/-!
Model of the approval-domain recognisers (`subdomains/dichotomous/*.py`) and of the glue of
`solve_consecutive_ones` (`consecutive_ones.py:6-29`), with `is_2_part` as repaired by D3.

The PQ-tree (`reorder_sets`) is a *parameter* `solver`: given the distinct column supports it
returns an ordering of them under which every element (row index) lies in an interval of sets, or
`none` (Python: `ValueError`).  Its contract `SolverOK` is a hypothesis of the theorems and is
exercised at run time (every returned order is re-checked by the verified witness checker; every
`False` is compared with the verified brute-force decider / planted Tucker obstructions).

A 0/1 matrix is a list of rows, each row a list of 0/1 entries of the same length.
-/
namespace PrefVerif.Dichotomous
open PrefVerif.Py

abbrev Matrix := List (List Nat)
abbrev Solver := List (List Nat) → Option (List (List Nat))

def numCols (m : Matrix) (dflt : Nat) : Nat := (m.head?.map List.length).getD dflt

/-- for each column, the (ascending) row indices holding a 1 — `np.argwhere(matrix == 1)` -/
def columnsIndices (m : Matrix) (nc : Nat) : List (List Nat) :=
  (List.range nc).map (fun c => (List.range m.length).filter (fun r => (m.getD r []).getD c 0 == 1))

/-- `indices_to_columns`: support ↦ columns having it, in column order -/
def groupColumns (cols : List (List Nat)) : AList (List Nat) (List Nat) :=
  (cols.zipIdx).foldl (fun d ci => AList.upd d ci.1 [] (· ++ [ci.2])) []

/-- `solve_consecutive_ones(matrix)` for a matrix with `nc` columns -/
def solveC1 (solver : Solver) (m : Matrix) (nc : Nat) : Option (List Nat) :=
  let groups := groupColumns (columnsIndices m nc)
  match solver (AList.keys groups) with
  | none => none
  | some ordering => some (ordering.flatMap (fun k => (AList.get? groups k).getD []))

def transpose (m : Matrix) (nc : Nat) : Matrix :=
  (List.range nc).map (fun c => m.map (fun row => row.getD c 0))

def complement (m : Matrix) : Matrix := m.map (fun row => row.map (fun v => 1 - v))

/-- `instance_to_ci_matrix`: one row per ballot (repeated ballots kept), columns in
`alternatives_name` order; `approved` = first category -/
def ciMatrix (alts : List Nat) (approved : List (List Nat)) : Matrix :=
  approved.map (fun app => alts.map (fun a => if app.contains a then 1 else 0))

def isCandidateInterval (solver : Solver) (alts : List Nat) (approved : List (List Nat)) : Option (List Nat) :=
  (solveC1 solver (ciMatrix alts approved) alts.length).map (fun idx => idx.map (fun i => alts.getD i 0))

def isCandidateExtremalInterval (solver : Solver) (alts : List Nat) (approved : List (List Nat)) :
    Option (List Nat) :=
  let m := ciMatrix alts approved
  (solveC1 solver (m ++ complement m) alts.length).map
    (fun idx => (idx.take alts.length).map (fun i => alts.getD i 0))

def isVoterInterval (solver : Solver) (alts : List Nat) (approved : List (List Nat)) : Option (List Nat) :=
  solveC1 solver (transpose (ciMatrix alts approved) alts.length) approved.length

def isVoterExtremalInterval (solver : Solver) (alts : List Nat) (approved : List (List Nat)) :
    Option (List Nat) :=
  let t := transpose (ciMatrix alts approved) alts.length
  solveC1 solver (t ++ complement t) approved.length

/-- `combinations(alternatives, 2)` -/
def pairs : List Nat → List (Nat × Nat)
  | [] => []
  | a :: rest => rest.map (fun b => (a, b)) ++ pairs rest

/-- the two rows per pair of `is_weakly_single_crossing`: ballots approving `a` not `b`, and `b` not `a` -/
def wscMatrix (alts : List Nat) (approved : List (List Nat)) : Matrix :=
  (pairs alts).flatMap (fun ab =>
    [approved.map (fun app => if app.contains ab.1 && !app.contains ab.2 then 1 else 0),
     approved.map (fun app => if app.contains ab.2 && !app.contains ab.1 then 1 else 0)])

def isWeaklySingleCrossing (solver : Solver) (alts : List Nat) (approved : List (List Nat)) : Option (List Nat) :=
  solveC1 solver (wscMatrix alts approved) approved.length

/-- `is_dichotomous_euclidean`: positions = indices in the candidate-interval order; a voter's
(position, radius) doubled to stay in the integers: `(2·pos, 2·radius)`; empty ballot at position −1 -/
def isDichotomousEuclidean (solver : Solver) (alts : List Nat) (approved : List (List Nat)) :
    Option (List (Int × Int) × List (Nat × Nat)) :=
  match isCandidateInterval solver alts approved with
  | none => none
  | some order =>
    let pos := fun a => order.idxOf a
    let voters := approved.map (fun app =>
      match app with
      | [] => ((-2 : Int), (0 : Int))
      | [a] => ((2 * pos a : Nat), 0)
      | _ =>
        let ps := app.map pos
        let l := ps.foldl min (ps.headD 0)
        let r := ps.foldl max (ps.headD 0)
        (((l + r : Nat) : Int), ((r - l : Nat) : Int)))
    some (voters, order.zipIdx)

def sameSet (a b : List Nat) : Bool := a.all (fun x => b.contains x) && b.all (fun x => a.contains x)
def disjoint (a b : List Nat) : Bool := a.all (fun x => !b.contains x)

/-- `is_part`: the distinct approval sets in order of first appearance, `none` if two of them
overlap without being equal -/
def isPart (approved : List (List Nat)) : Option (List (List Nat)) :=
  approved.foldl (fun acc app =>
    match acc with
    | none => none
    | some parts =>
      let rec go : List (List Nat) → Option Bool      -- some true: already there; some false: new; none: overlap
        | [] => some false
        | s :: rest => if sameSet s app then some true else if !disjoint app s then none else go rest
      match go parts with
      | none => none
      | some true => some parts
      | some false => some (parts ++ [app])) (some [])

/-- `is_2_part` after D3: at most two parts, and two parts must cover all alternatives -/
def is2Part (alts : List Nat) (approved : List (List Nat)) : Option (List (List Nat)) :=
  match isPart approved with
  | none => none
  | some parts =>
    if parts.length ≤ 1 then some parts
    else if parts.length == 2 && alts.all (fun a => (parts.getD 0 []).contains a || (parts.getD 1 []).contains a)
      then some parts
    else none

end PrefVerif.Dichotomous
