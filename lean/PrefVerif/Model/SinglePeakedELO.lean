import PrefVerif.Model.SinglePeakedAxis
/-!
Model of `is_single_peaked` (`singlepeakedness.py`): the Escoffier–Lang–Öztürk elimination of
last-ranked candidates for profiles of strict complete orders.

Input: `list_of_preferences`, i.e. the flattened strict orders in storage order (multiplicities are
dropped by the Python code as well).  The code is mirrored statement by statement:

* the mutable lists `list_of_preferences_SP`, `to_append_left`, `left_axis`, `right_axis` and the
  variables `x_i`, `x_j` are the fields of `State` (`x_i` and `x_j` are always assigned together, so
  they are one `Option (Nat × Nat)`: `none` = both `None`);
* one iteration of the `while` loop is `step`; the `while` itself is `loop`, a recursion on fuel
  (`fuel_irrelevant` in `Props/C03.lean`: any fuel above the length of the first remaining
  preference gives the same answer, because every iteration pops it);
* the `for i in range(len(list_of_preferences))` loops with their `break`s are `forLoop` over a
  body returning `Loop`: `fin` = fall through to the next iteration, `brk` = `break` with
  `end_flag = True`, `error` = a Python exception;
* how the run ended is recorded as an `Exit`; `Exit.result` is the returned tuple
  (`None` is rendered as `[]`).

`none` stands for every Python exception: the two `ValueError("We should never have ended up here
…")`, and (outside the domain of rankings) `list.index` of a missing value, `pop` from an empty
list and `list_of_preferences_SP[0]` on an empty profile.
-/
namespace PrefVerif.ELO
open PrefVerif PrefVerif.Py

/-- values of the dict `forced_position` -/
inductive Side where
  | left | right
  deriving DecidableEq, Repr

/-- `l.index(x)`; `none` = `ValueError` -/
def pyIndex (l : List Nat) (x : Nat) : Option Nat :=
  if x ∈ l then some (l.idxOf x) else none

/-- `l.pop()`: the shortened list and the popped element; `none` = `IndexError` -/
def pyPop (l : List Nat) : Option (List Nat × Nat) :=
  match l.getLast? with
  | none => none
  | some a => some (l.dropLast, a)

/-- `preference.pop()` for every preference, in order -/
def popAll : List (List Nat) → Option (List (List Nat × Nat))
  | [] => some []
  | p :: ps =>
    match pyPop p with
    | none => none
    | some r =>
      match popAll ps with
      | none => none
      | some rs => some (r :: rs)

/-- `if c not in last_candidates: last_candidates.append(c)` over the popped candidates -/
def firstAppearances (l : List Nat) : List Nat :=
  l.foldl (fun acc a => if a ∈ acc then acc else acc ++ [a]) []

/-- how the function stopped -/
inductive Exit where
  /-- `len(last_candidates) >= 3` -/
  | threeLast
  /-- one of the `is_SP = False  # contradiction` breaks -/
  | contra
  /-- Case 2(d): `axis` was built from a voter and `ok = is_single_peaked_axis(instance, axis)` -/
  | case2d (axis : List Nat) (ok : Bool)
  /-- the `while` condition failed because no candidate is left; `axis` is the final assembly -/
  | finished (axis : List Nat)
  deriving Repr, DecidableEq

/-- the returned tuple (`None` rendered as `[]`) -/
def Exit.result : Exit → Bool × List Nat
  | .threeLast => (false, [])
  | .contra => (false, [])
  | .case2d axis ok => if ok then (true, axis) else (false, [])
  | .finished axis => (true, axis)

/-- outcome of a loop body / of a whole `for` loop / of one `while` iteration -/
inductive Loop (α : Type) where
  | error
  | brk (e : Exit)
  | fin (a : α)

/-- `for i in range(len(list_of_preferences)): body` threading the loop-carried variables -/
def forLoop {α : Type} (body : List Nat → α → Loop α) : List (List Nat) → α → Loop α
  | [], a => .fin a
  | o :: os, a =>
    match body o a with
    | .fin a' => forLoop body os a'
    | .brk e => .brk e
    | .error => .error

structure State where
  /-- `list_of_preferences_SP` -/
  prefs : List (List Nat)
  /-- `to_append_left` -/
  tal : List Nat
  /-- `left_axis` -/
  left : List Nat
  /-- `right_axis` -/
  right : List Nat
  /-- `(x_i, x_j)` -/
  ends : Option (Nat × Nat)
  deriving Repr

/-- the instance's orders as seen by `is_single_peaked_axis`: singleton classes -/
def wrap (o : List Nat) : Order := o.map (fun a => [a])

/-- `is_single_peaked_axis(instance, axis)` on the (soc) instance -/
def axisTest (orders : List (List Nat)) (axis : List Nat) : Bool :=
  orders.all (fun o => SinglePeakedAxis.orderOk (wrap o) axis)

/-- `placed_candidates` as a membership test -/
def placed (s : State) (c : Nat) : Bool := c ∈ s.left || c ∈ s.right || c ∈ s.tal

/-- the axis of Case 2(d): the unplaced candidates in the order of voter `o` (reversed when `rev`) -/
def case2dAxis (s : State) (o : List Nat) (rev : Bool) : List Nat :=
  let mid := o.filter (fun c => !placed s c)
  s.tal ++ s.left ++ (if rev then mid.reverse else mid) ++ s.right

/-! ### one last candidate -/

/-- body of the loop of the one-candidate case; the loop-carried variable is `case` -/
def body1 (x xi xj : Nat) (o : List Nat) (case : Nat) : Loop Nat :=
  match pyIndex o x, pyIndex o xi, pyIndex o xj with
  | some ix, some ii, some ij =>
    if ii > ix ∧ ix > ij then            -- Case 3.(c) Inverse
      if case = 2 then .brk .contra else .fin 1
    else if ij > ix ∧ ix > ii then       -- Case 3.(c)
      if case = 1 then .brk .contra else .fin 2
    else if ix < ii ∧ ix < ij then       -- Case 3.(b)
      .fin case
    else .error                           -- "We should never have ended up here …"
  | _, _, _ => .error

/-- `len(last_candidates) == 1`, after the removal of `x` from the remaining preferences -/
def stepOne (orders : List (List Nat)) (s : State) (x : Nat) : Loop State :=
  match s.ends with
  | none => .fin { s with tal := s.tal ++ [x] }
  | some (xi, xj) =>
    match s.prefs with
    | [] => .error
    | p :: _ =>
      if p.length = 0 then .fin { s with left := s.left ++ [x] }
      else
        match forLoop (body1 x xi xj) orders 0 with
        | .error => .error
        | .brk e => .brk e
        | .fin case =>
          if case = 0 then .fin { s with left := s.left ++ [x], ends := some (x, xj) }
          else if case = 1 then .fin { s with left := s.left ++ [x], ends := some (x, xj) }
          else if case = 2 then .fin { s with right := x :: s.right, ends := some (xi, x) }
          else .fin s

/-! ### two last candidates -/

/-- loop-carried variables of the two-candidates loop: the local names `x`, `y` (swapped in place by
`x, y = y, x`) and the dict `forced_position` -/
structure L2 where
  x : Nat
  y : Nat
  forced : AList Nat Side
  deriving Repr

/-- the `if … elif …` chain, after the swap -/
def body2core (orders : List (List Nat)) (s : State) (o : List Nat) (ii ij ix iy x y : Nat)
    (forced : AList Nat Side) : Loop L2 :=
  if ij > ix ∧ ix > iy ∧ iy > ii then           -- Case 2.(d) Reverse
    let axis := case2dAxis s o false
    .brk (.case2d axis (axisTest orders axis))
  else if ii > ix ∧ ix > iy ∧ iy > ij then      -- Case 2.(d)
    let axis := case2dAxis s o true
    .brk (.case2d axis (axisTest orders axis))
  else if ii > ix ∧ ix > ij ∧ ij > iy then      -- Case 2.(c)
    if forced.get? x = some .right ∨ forced.get? y = some .left then .brk .contra
    else .fin ⟨x, y, (forced.set x .left).set y .right⟩
  else if ij > ix ∧ ix > ii ∧ ii > iy then      -- Case 2.(c) Inverse
    if forced.get? x = some .left ∨ forced.get? y = some .right then .brk .contra
    else .fin ⟨x, y, (forced.set x .right).set y .left⟩
  else if ix < ii ∧ ix < ij then                -- Case 2.(b)
    .fin ⟨x, y, forced⟩
  else .error                                    -- "We should never have ended up here …"

/-- body of the loop of the two-candidates case, including the swap that puts the lower-ranked of
the two under the name `x` -/
def body2 (orders : List (List Nat)) (s : State) (xi xj : Nat) (o : List Nat) (v : L2) : Loop L2 :=
  match pyIndex o v.x, pyIndex o v.y, pyIndex o xi, pyIndex o xj with
  | some ix, some iy, some ii, some ij =>
    if iy > ix then body2core orders s o ii ij iy ix v.y v.x v.forced
    else body2core orders s o ii ij ix iy v.x v.y v.forced
  | _, _, _, _ => .error

/-- the code after the loop (`if not end_flag:`): complete `forced_position`; the result is
`forced_position[x] == "left"`.  `none` = `KeyError` (unreachable: `x` is a key after the first
`if`) -/
def forcedLeft (v : L2) : Option Bool :=
  let f1 :=
    if !v.forced.contains v.x then
      if !v.forced.contains v.y then (v.forced.set v.x .left).set v.y .right
      else v.forced.set v.x (if v.forced.get? v.y = some .right then .left else .right)
    else v.forced
  let f2 :=
    if !f1.contains v.y then f1.set v.y (if f1.get? v.x = some .right then .left else .right)
    else f1
  (f2.get? v.x).map (fun sd => decide (sd = .left))

/-- `len(last_candidates) == 2`, after the removal of `x` and `y` from the remaining preferences -/
def stepTwo (orders : List (List Nat)) (s : State) (x y : Nat) : Loop State :=
  match s.ends with
  | none => .fin { s with left := s.left ++ [x], right := y :: s.right, ends := some (x, y) }
  | some (xi, xj) =>
    match forLoop (body2 orders s xi xj) orders ⟨x, y, []⟩ with
    | .error => .error
    | .brk e => .brk e
    | .fin v =>
      match forcedLeft v with
      | none => .error
      | some true =>
        .fin { s with left := s.left ++ [v.x], right := v.y :: s.right, ends := some (v.x, v.y) }
      | some false =>
        .fin { s with left := s.left ++ [v.y], right := v.x :: s.right, ends := some (v.y, v.x) }

/-! ### the `while` loop -/

/-- one iteration of the `while` loop -/
def step (orders : List (List Nat)) (s : State) : Loop State :=
  match popAll s.prefs with
  | none => .error
  | some popped =>
    let prefs := popped.map (·.1)
    match firstAppearances (popped.map (·.2)) with
    | [] => .error        -- unreachable: the profile is not empty
    | [x] => stepOne orders { s with prefs := prefs.map (fun p => p.erase x) } x
    | [x, y] => stepTwo orders { s with prefs := prefs.map (fun p => (p.erase x).erase y) } x y
    | _ :: _ :: _ :: _ => .brk .threeLast

/-- `while is_SP and len(list_of_preferences_SP[0]) >= 1 and not end_flag` followed by the final
assembly; `none` also when the fuel runs out (never, see `fuel_irrelevant`) -/
def loop (orders : List (List Nat)) : Nat → State → Option Exit
  | 0, _ => none
  | fuel + 1, s =>
    match s.prefs with
    | [] => none
    | p :: _ =>
      if p.length ≥ 1 then
        match step orders s with
        | .error => none
        | .brk e => some e
        | .fin s' => loop orders fuel s'
      else some (.finished (s.tal ++ s.left ++ s.right))

def init (orders : List (List Nat)) : State :=
  { prefs := orders, tal := [], left := [], right := [], ends := none }

/-- enough fuel: one iteration per candidate of the first preference, plus the final test -/
def fuelFor (orders : List (List Nat)) : Nat := (orders.headD []).length + 1

/-- the run with the way it ended -/
def run (orders : List (List Nat)) : Option Exit := loop orders (fuelFor orders) (init orders)

/-- `is_single_peaked(instance)` on `list_of_preferences = orders` -/
def isSinglePeaked (orders : List (List Nat)) : Option (Bool × List Nat) :=
  (run orders).map Exit.result

end PrefVerif.ELO
