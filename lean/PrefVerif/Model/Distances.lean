/-!
Model of `preflibtools/properties/distances.py` (statement by statement).

Python `ValueError` (length guard, and `tuple.index` on a missing element) is `none`.
Floats are never modelled: the two normalised distances are returned as exact
`(numerator, denominator)` pairs; the harness compares the implementation's float with
the correctly rounded quotient.
-/
namespace PrefVerif.Distances

/-- the inner double loop of `kendall_tau_distance`: for every `j1 < j2`,
`res += order2.index(order1[j1]) > order2.index(order1[j2])`. -/
def kt : List Nat → List Nat → Nat
  | [], _ => 0
  | x :: rest, b => (rest.filter (fun y => decide (b.idxOf x > b.idxOf y))).length + kt rest b

/-- `kendall_tau_distance(order1, order2)`: `ValueError` when the lengths differ, and (from
`tuple.index`) when a looked-up element is missing; every element of `order1` is looked up as
soon as there are two of them. -/
def kendallTau? (a b : List Nat) : Option Nat :=
  if a.length != b.length then none
  else if a.length ≥ 2 && !(a.all (fun x => b.contains x)) then none
  else some (kt a b)

/-- `norm += 1` once for every pair `j1 < j2` of the double loop -/
def pairCount : List Nat → Nat
  | [] => 0
  | _ :: rest => rest.length + pairCount rest

/-- outcome of `kendall_tau_distance(order1, order2, normalise=True)`: `ValueError` as for the plain
call, `ZeroDivisionError` when no pair was compared (`res / norm` with `norm = 0`), else the exact
fraction `res / norm` -/
inductive KtNorm where
  | valueError | zeroDivision | ok (num den : Nat)
  deriving DecidableEq, Repr

def kendallTauNorm (a b : List Nat) : KtNorm :=
  match kendallTau? a b with
  | none => .valueError
  | some r => if pairCount a = 0 then .zeroDivision else .ok r (pairCount a)

def absDiff (i j : Nat) : Nat := if i ≤ j then j - i else i - j

/-- `res += abs(j - order2.index(order1[j]))` for `j = start, start+1, …` -/
def footruleNumFrom : Nat → List Nat → List Nat → Nat
  | _, [], _ => 0
  | j, x :: rest, b => absDiff j (b.idxOf x) + footruleNumFrom (j + 1) rest b

def footruleNum (a b : List Nat) : Nat := footruleNumFrom 0 a b

/-- `np.floor(len(order1) ** 2 / 2)` -/
def footruleDen (n : Nat) : Nat := n * n / 2

/-- `spearman_footrule_distance` as an exact fraction. -/
def footrule? (a b : List Nat) : Option (Nat × Nat) :=
  if a.length != b.length then none
  else if !(a.all (fun x => b.contains x)) then none
  else some (footruleNum a b, footruleDen a.length)

/-- value of the loop variable `j` after
`for j in range(len(order1)): if order1[j] != order2[j]: break` (started from `j = 0`). -/
def sertelJ : List Nat → List Nat → Nat
  | x :: a, y :: b => if x != y then 0 else (match a with | [] => 0 | _ => 1 + sertelJ a b)
  | _, _ => 0

/-- `sertel_distance` as an exact fraction `(len-1-j, len-1)`. -/
def sertel? (a b : List Nat) : Option (Nat × Nat) :=
  if a.length != b.length then none
  else some (a.length - 1 - sertelJ a b, a.length - 1)

/-- `OrdinalInstance.full_profile`: every order repeated `multiplicity` times, in `orders` order. -/
def fullProfile {α : Type} (orders : List (α × Nat)) : List α :=
  orders.flatMap (fun p => List.replicate p.2 p.1)

/-- `distance_matrix(instance, f)`: zeros, then `res[i,j] = f(p[i], p[j])`, `res[j,i] = f(p[j], p[i])`
for `i < j`. -/
def distanceMatrix {α β : Type} (zero : β) (f : α → α → β) (profile : List α) : List (List β) :=
  (List.range profile.length).map (fun i =>
    (List.range profile.length).map (fun j =>
      if i = j then zero
      else match profile[i]?, profile[j]? with
        | some x, some y => f x y
        | _, _ => zero))

end PrefVerif.Distances
