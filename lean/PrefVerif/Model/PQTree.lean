import PrefVerif.Model.KAltDeletion
import PrefVerif.Model.Dichotomous
/-!
Model of the PQ-tree of `preflibtools/properties/subdomains/consecutive_ones.py` (ported from Sage's
`sage.graphs.pq_trees`): `reorder_sets`, `_set_contiguous`, `_new_P`, `_new_Q`, `_flatten`, the classes
`PQ`, `P`, `Q` (`__init__`, `reverse`, `__contains__`, `__iter__`, `number_of_children`, `ordering`,
`simplify`, `flatten`, `P.set_contiguous`, `Q.set_contiguous`), and `solve_consecutive_ones` / `isC1P` on
top of it.

Conventions of the translation

* A Python object graph becomes a value of `Tree`.  The code never stores the same `PQ` object in two
  places (every list handed to `P(...)`/`Q(...)` or assigned to `_children` consists of children of nodes
  that are dropped at the same moment), so in-place mutation of a node is modelled by returning the new
  value of that node: `x.reverse()` ↦ `Tree.reverse x`, `x.set_contiguous(v)` ↦ `setContiguous … x`
  returning the mutated node *and* the flag, `x.flatten()` ↦ `flattenMut x` (the node afterwards) and
  `flattenRet x` (the returned object).
* The leaves are the sets (`tuple`s: `PQ.__init__` turns lists into tuples) — compared by value;
  `PQ` objects define neither `__eq__` nor `__hash__`, so they are compared by identity.  Hence
  `e not in self._children` (`PQ.__init__`) can only drop a *leaf* equal to an earlier leaf
  (`dedupChildren`), and the dictionary `f_seq = dict(zip(self, seq))` maps the k-th child to the k-th flag
  (equal leaves get equal flags), which is modelled by zipping children and flags.
* `(FULL, ALIGNED)`, `(EMPTY, ALIGNED)`, `(PARTIAL, ALIGNED)`, `(PARTIAL, UNALIGNED)` are the only pairs
  ever returned (and the only keys of `sorting`): type `Flag`, with projections `Flag.fill`/`Flag.aligned`.
* Exceptions: `ValueError("Impossible")` ↦ `Err.impossible`, `ValueError("Bon, ben ca arrive O_o")` ↦
  `Err.bonBen` (both are `ValueError`s, i.e. "no" for `solve_consecutive_ones`/`isC1P`); an exception of
  any other class (`IndexError` of `liste[0]` / `self._children[-1]`, `AttributeError` of a method call on a
  tuple) ↦ `Err.crash`; `Err.fuel` is the model running out of fuel (no Python counterpart).
* Recursion: `reverse`, `__contains__`, `ordering`, `flatten`, `simplify` are structural.
  `set_contiguous` calls itself on every child, flattens, and calls itself *again* on every (mutated)
  child, so it is not structural; it is defined with fuel.  A call on a tree all of whose nodes have at
  least two children (every tree `set_contiguous` is ever called on) needs at most as much fuel as the tree
  has leaves; `reorderSets` supplies `2 · (number of sets) + 2`.  Running out of fuel would be reported
  as `Err.fuel` by `reorderSetsE` (proved impossible: `Props/C05PQ.lean`, `reorderSetsE_error`) and as
  `none` by `reorderSets`.
* `for i in s` with `s = set().union(*sets)`: CPython's table order, through `PrefVerif.KAlt.PySet`
  (`set().union(*sets)` adds the elements of each tuple in turn with `set_add_key`).
-/
namespace PrefVerif.PQTree
open PrefVerif.KAlt

inductive Tree where
  | leaf (set : List Nat)
  | p (children : List Tree)
  | q (children : List Tree)
  deriving Repr, Inhabited

/-- the four values `(FULL, ALIGNED)`, `(EMPTY, ALIGNED)`, `(PARTIAL, ALIGNED)`, `(PARTIAL, UNALIGNED)` -/
inductive Flag where
  | full | empty | partialAligned | partialUnaligned
  deriving DecidableEq, Repr, Inhabited

def FULL : Nat := 2
def PARTIAL : Nat := 1
def EMPTY : Nat := 0
def ALIGNED : Bool := true
def UNALIGNED : Bool := false

def Flag.fill : Flag → Nat
  | .full => FULL | .empty => EMPTY | .partialAligned => PARTIAL | .partialUnaligned => PARTIAL

def Flag.aligned : Flag → Bool
  | .partialUnaligned => UNALIGNED | _ => ALIGNED

inductive Err where
  | impossible | bonBen | crash | fuel
  deriving DecidableEq, Repr, Inhabited

namespace Tree

/-- `isinstance(t, PQ)` -/
def isPQ : Tree → Bool
  | .leaf _ => false
  | _ => true

/-- `self._children` (`__iter__` yields from it) -/
def children : Tree → List Tree
  | .leaf _ => []
  | .p cs => cs
  | .q cs => cs

/-- `self._children = cs` -/
def setChildren : Tree → List Tree → Tree
  | .leaf s, _ => .leaf s
  | .p _, cs => .p cs
  | .q _, cs => .q cs

/-- `number_of_children` -/
def numChildren (t : Tree) : Nat := t.children.length

mutual
/-- `v in t`: tuple membership for a leaf, `PQ.__contains__` (`any(v in i for i in self)`) for a node -/
def mem (v : Nat) : Tree → Bool
  | .leaf s => s.contains v
  | .p cs => memList v cs
  | .q cs => memList v cs
/-- `any(v in i for i in cs)` -/
def memList (v : Nat) : List Tree → Bool
  | [] => false
  | c :: cs => mem v c || memList v cs
end

/-- `any(v not in cc for cc in cs)` -/
def anyNotMem (v : Nat) : List Tree → Bool
  | [] => false
  | c :: cs => !mem v c || anyNotMem v cs

mutual
/-- the leaves from left to right: `PQ.ordering` for a node, `[t]` for a leaf -/
def frontier : Tree → List (List Nat)
  | .leaf s => [s]
  | .p cs => frontierList cs
  | .q cs => frontierList cs
def frontierList : List Tree → List (List Nat)
  | [] => []
  | c :: cs => frontier c ++ frontierList cs
end

mutual
/-- `PQ.reverse` (recursive; the identity on a leaf, which the code never calls it on) -/
def reverse : Tree → Tree
  | .leaf s => .leaf s
  | .p cs => .p (reverseList cs)
  | .q cs => .q (reverseList cs)
/-- every child reversed, then `list.reverse()` -/
def reverseList : List Tree → List Tree
  | [] => []
  | c :: cs => reverseList cs ++ [reverse c]
end

mutual
/-- the object returned by `_flatten(t)` -/
def flattenRet : Tree → Tree
  | .leaf s => .leaf s
  | .p [c] => flattenRet c
  | .p cs => .p (flattenRetList cs)
  | .q [c] => flattenRet c
  | .q cs => .q (flattenRetList cs)
def flattenRetList : List Tree → List Tree
  | [] => []
  | c :: cs => flattenRet c :: flattenRetList cs
end

/-- the node `t` itself after `_flatten(t)`: with one child only the child is (possibly) mutated, otherwise
`self._children = [_flatten(x) for x in self._children]` -/
def flattenMut : Tree → Tree
  | .leaf s => .leaf s
  | .p [c] => .p [flattenMut c]
  | .p cs => .p (flattenRetList cs)
  | .q [c] => .q [flattenMut c]
  | .q cs => .q (flattenRetList cs)

end Tree
open Tree

/-- `e in self._children` inside `PQ.__init__`: by value for tuples, by identity for `PQ` objects (and no
object is ever offered twice) -/
def inChildren : Tree → List Tree → Bool
  | .leaf s, acc => acc.any (fun c => match c with | .leaf s' => s == s' | _ => false)
  | _, _ => false

/-- the loop of `PQ.__init__` (`acc` = `self._children` so far) -/
def dedupChildren : List Tree → List Tree → List Tree
  | acc, [] => acc
  | acc, e :: rest => if inChildren e acc then dedupChildren acc rest else dedupChildren (acc ++ [e]) rest

/-- `P(seq)` -/
def mkP (seq : List Tree) : Tree := .p (dedupChildren [] seq)
/-- `Q(seq)` -/
def mkQ (seq : List Tree) : Tree := .q (dedupChildren [] seq)

/-- `_new_P(liste)`; callers guarantee `liste ≠ []` (otherwise `IndexError`, see `setContiguous`) -/
def newP (liste : List Tree) : Tree :=
  if liste.length > 1 then mkP liste else liste.headD (.leaf [])

/-- `_new_Q(liste)` -/
def newQ (liste : List Tree) : Tree :=
  if liste.length > 1 then mkQ liste else liste.headD (.leaf [])

/-- "is `c` partial?" as tested by `simplify`: a `PQ` containing a set with `v` and having a child without -/
def synPartial (v : Nat) (c : Tree) : Bool :=
  c.isPQ && mem v c && anyNotMem v c.children

mutual
/-- `t.simplify(v, left=…, right=…)` with exactly one of `left`, `right` (`right = false` means `left`).
Never called on a leaf. -/
def simplify (v : Nat) (right : Bool) : Tree → List Tree
  | .leaf s => [.leaf s]
  | .q cs => simplifyQ v right cs
  | .p cs =>
    let empty := simplifyEmpty v cs
    let full := simplifyFull v cs
    let partial_ := simplifyPartial v right cs []
    let empty := if empty.isEmpty then [] else [newP empty]
    let full := if full.isEmpty then [] else [newP full]
    if right then empty ++ partial_ ++ full else full ++ partial_ ++ empty
/-- the loop of the `Q` case -/
def simplifyQ (v : Nat) (right : Bool) : List Tree → List Tree
  | [] => []
  | c :: cs =>
    (if c.isPQ && mem v c && anyNotMem v c.children then simplify v right c else [c]) ++ simplifyQ v right cs
/-- the value of `partial` at the end of the loop of the `P` case (the last partial child wins) -/
def simplifyPartial (v : Nat) (right : Bool) : List Tree → List Tree → List Tree
  | [], acc => acc
  | c :: cs, acc =>
    if mem v c && (c.isPQ && anyNotMem v c.children) then simplifyPartial v right cs (simplify v right c)
    else simplifyPartial v right cs acc
/-- `empty` at the end of the loop of the `P` case -/
def simplifyEmpty (v : Nat) : List Tree → List Tree
  | [] => []
  | c :: cs => if mem v c then simplifyEmpty v cs else c :: simplifyEmpty v cs
/-- `full` at the end of the loop of the `P` case -/
def simplifyFull (v : Nat) : List Tree → List Tree
  | [] => []
  | c :: cs =>
    if mem v c && !(c.isPQ && anyNotMem v c.children) then c :: simplifyFull v cs else simplifyFull v cs
end

/-- `[f(x) for x in l]` where `f` may raise -/
def mapE {α β : Type} (f : α → Except Err β) : List α → Except Err (List β)
  | [] => .ok []
  | a :: as =>
    match f a with
    | .error e => .error e
    | .ok b =>
      match mapE f as with
      | .error e => .error e
      | .ok bs => .ok (b :: bs)

/-- the children sorted into the category `f` (`sorting[f_seq[i]].append(i)`) -/
def select (f : Flag) (rs : List (Tree × Flag)) : List Tree :=
  (rs.filter (fun r => r.2 == f)).map (·.1)

/-- the part of `P.set_contiguous` after `seq`/`f_seq` have been computed: `rs` = the children with
their flags -/
def restructureP (v : Nat) (rs : List (Tree × Flag)) : Except Err (Tree × Flag) :=
  let cs := rs.map (·.1)
  let n := cs.length
  let setFULL := select .full rs
  let setEMPTY := select .empty rs
  let setPA := select .partialAligned rs
  let setPU := select .partialUnaligned rs
  let nFULL := setFULL.length
  let nEMPTY := setEMPTY.length
  let nPA := setPA.length
  let nPU := setPU.length
  if nPA > 2 || (nPU ≥ 1 && nEMPTY + 1 != n) then .error .impossible
  else if nFULL == n then .ok (.p cs, .full)
  else if nEMPTY == n then .ok (.p cs, .empty)
  else if nPU == 1 then .ok (.p cs, .partialUnaligned)
  else if nPA == 1 && nEMPTY + 1 == n then .ok (.p (setEMPTY ++ setPA), .partialAligned)
  else
    let children := if nEMPTY > 0 then setEMPTY else []
    if nPA < 2 then
      let new := if nPA == 1 then simplify v true (setPA.headD (.leaf [])) else []
      let new := if nFULL > 0 then new ++ [newP setFULL] else new
      if new.isEmpty then .error .crash        -- `_new_Q([])`: IndexError
      else .ok (.p (children ++ [newQ new]), .partialAligned)
    else
      let second := Tree.reverse (setPA.getD 1 (.leaf []))
      let new := simplify v true (setPA.headD (.leaf []))
      let new := if nFULL > 0 then new ++ [newP setFULL] else new
      let new := new ++ simplify v false second
      .ok (.p (children ++ [newQ new]), .partialUnaligned)

/-- state of the final loop of `Q.set_contiguous` -/
structure QLoop where
  newChildren : List Tree
  seenNonempty : Bool
  seenRightEnd : Bool

/-- one round of `for i in self:` in the final `else` of `Q.set_contiguous` -/
def qStep (v : Nat) (st : QLoop) (r : Tree × Flag) : Except Err QLoop :=
  let i := r.1
  if r.2.fill == EMPTY then
    .ok { newChildren := st.newChildren ++ [i], seenNonempty := st.seenNonempty,
          seenRightEnd := if st.seenNonempty then true else st.seenRightEnd }
  else if st.seenRightEnd then .error .impossible
  else if r.2.fill == PARTIAL then
    if st.seenNonempty && r.2.aligned then
      .ok { newChildren := st.newChildren ++ simplify v false (Tree.reverse i), seenNonempty := true,
            seenRightEnd := true }
    else if st.seenNonempty && !r.2.aligned then .error .impossible
    else if !st.seenNonempty && !r.2.aligned then .error .bonBen
    else
      .ok { newChildren := st.newChildren ++ simplify v true i, seenNonempty := true,
            seenRightEnd := st.seenRightEnd }
  else
    .ok { newChildren := st.newChildren ++ [i], seenNonempty := true, seenRightEnd := st.seenRightEnd }

def qLoop (v : Nat) : QLoop → List (Tree × Flag) → Except Err QLoop
  | st, [] => .ok st
  | st, r :: rs =>
    match qStep v st r with
    | .error e => .error e
    | .ok st' => qLoop v st' rs

/-- the part of `Q.set_contiguous` after `seq`/`f_seq` have been computed -/
def restructureQ (v : Nat) (rs : List (Tree × Flag)) : Except Err (Tree × Flag) :=
  let n := rs.length
  let setFULL := select .full rs
  let setEMPTY := select .empty rs
  let setPA := select .partialAligned rs
  let setPU := select .partialUnaligned rs
  let nFULL := setFULL.length
  let nEMPTY := setEMPTY.length
  let nPA := setPA.length
  let nPU := setPU.length
  match rs.getLast? with
  | none => .error .crash                      -- `self._children[-1]`: IndexError
  | some last =>
    -- `self._children.reverse()`; the dictionary `f_seq` follows the children
    let rs := if last.2 == .empty || (last.2 == .partialAligned && nFULL + 1 == n) then rs.reverse else rs
    let cs := rs.map (·.1)
    if nPA > 2 || (nPU ≥ 1 && nEMPTY + 1 != n) then .error .impossible
    else if nFULL == n then .ok (.q cs, .full)
    else if nEMPTY == n then .ok (.q cs, .empty)
    else if nPU == 1 then .ok (.q cs, .partialUnaligned)
    else if nPA == 1 && nEMPTY + 1 == n then
      -- `set_PARTIAL_ALIGNED[0] == self._children[-1]`: is the partial child the last one?
      if (rs.getLast?.map (·.2)) == some .partialAligned then .ok (.q cs, .partialAligned)
      else .ok (.q cs, .partialUnaligned)
    else
      match qLoop v ⟨[], false, false⟩ rs with
      | .error e => .error e
      | .ok st => .ok (.q st.newChildren, if st.seenRightEnd then .partialUnaligned else .partialAligned)

/-- the children of a node after `self.flatten()` (return value discarded) -/
def flattenChildren (cs : List Tree) : List Tree :=
  match cs with
  | [c] => [flattenMut c]
  | _ => flattenRetList cs

/-- `_set_contiguous(tree, v)`: the tree afterwards and the returned pair -/
def setContiguous (v : Nat) : Nat → Tree → Except Err (Tree × Flag)
  | 0, _ => .error .fuel
  | _ + 1, .leaf s => .ok (.leaf s, if s.contains v then .full else .empty)
  | fuel + 1, .p cs =>
    -- `for x in self: _set_contiguous(x, v)`
    match mapE (setContiguous v fuel) cs with
    | .error e => .error e
    | .ok r1 =>
      -- `self.flatten()`, `seq = [_set_contiguous(x, v) for x in self]`
      match mapE (setContiguous v fuel) (flattenChildren (r1.map (·.1))) with
      | .error e => .error e
      | .ok rs => restructureP v rs
  | fuel + 1, .q cs =>
    match mapE (setContiguous v fuel) cs with
    | .error e => .error e
    | .ok r1 =>
      match mapE (setContiguous v fuel) (flattenChildren (r1.map (·.1))) with
      | .error e => .error e
      | .ok rs => restructureQ v rs

/-- `set().union(*sets)` iterated: the elements of the sets in CPython's table order -/
def unionSet (sets : List (List Nat)) : List Nat :=
  PySet.iter natKey (sets.foldl (fun s t => t.foldl (PySet.add natKey) s) PySet.empty)

/-- `for i in s: tree.set_contiguous(i); tree = _flatten(tree)` -/
def mainLoop (fuel : Nat) : List Nat → Tree → Except Err Tree
  | [], t => .ok t
  | i :: rest, t =>
    match t with
    | .leaf _ => .error .crash                  -- method call on a tuple
    | _ =>
      match setContiguous i fuel t with
      | .error e => .error e
      | .ok r => mainLoop fuel rest (flattenRet r.1)

/-- `tree.ordering()` -/
def ordering : Tree → Except Err (List (List Nat))
  | .leaf _ => .error .crash
  | t => .ok t.frontier

def fuelBound (sets : List (List Nat)) : Nat := 2 * sets.length + 2

/-- `reorder_sets(sets)` with the kind of failure -/
def reorderSetsE (sets : List (List Nat)) : Except Err (List (List Nat)) :=
  if sets.length ≤ 2 then .ok sets
  else
    let tree := mkP (sets.map .leaf)
    if tree.numChildren ≤ 2 then ordering tree
    else
      match mainLoop (fuelBound sets) (unionSet sets) tree with
      | .error e => .error e
      | .ok t => ordering t

/-- `reorder_sets(sets)`: `none` for an exception -/
def reorderSets (sets : List (List Nat)) : Option (List (List Nat)) :=
  match reorderSetsE sets with
  | .ok r => some r
  | .error _ => none

/-- `solve_consecutive_ones(matrix)[1]` (`none` for `(False, None)`), for a matrix with `nc` columns -/
def solveConsecutiveOnes (m : Dichotomous.Matrix) (nc : Nat) : Option (List Nat) :=
  Dichotomous.solveC1 reorderSets m nc

/-- `isC1P(matrix)` for a matrix with at least one row whose rows all have `nc ≥ 1` entries: the sets are
the column supports (repeated supports kept; `P(...)` removes them) -/
def isC1P (m : Dichotomous.Matrix) (nc : Nat) : Bool :=
  (reorderSets (Dichotomous.columnsIndices m nc)).isSome

end PrefVerif.PQTree
