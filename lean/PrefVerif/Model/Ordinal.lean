import PrefVerif.Model.Basic
/-!
Model of the incremental API of `OrdinalInstance`
(`preflibtools/instances/preflibinstance/ordinal.py`, `instances/sampling.py`,
`instances/sanity.py::orders`, and the helpers of `properties/basic.py` the property names).

The seven redundant fields are kept separately, each updated the way the corresponding
method updates it — the point of C02 is that they never diverge.
Alternative names are `"Alternative " + str(alt)`; only the key list is modelled.
Where the code iterates a Python `set` of alternatives the model inserts in first-appearance
order: only the *set* of keys is an observable of the property.
-/
namespace PrefVerif.Ordinal
open PrefVerif.Py

structure OrdState where
  altKeys : List Nat               -- keys of `alternatives_name`
  numAlternatives : Nat
  numVoters : Nat
  orders : List Order
  multiplicity : AList Order Nat
  numUniqueOrders : Nat
  dataType : String
  deriving Repr

def init : OrdState :=
  { altKeys := [], numAlternatives := 0, numVoters := 0, orders := [], multiplicity := [],
    numUniqueOrders := 0, dataType := "toi" }

/-- `if alt not in self.alternatives_name: self.alternatives_name[alt] = …` -/
def addAlt (keys : List Nat) (a : Nat) : List Nat := if keys.contains a then keys else keys ++ [a]

def listMax : List Nat → Option Nat
  | [] => none
  | v :: vs => some (vs.foldl max v)

/-- `infer_type`, including the early `return "toi"`.  An empty order (`max()` of an empty
sequence raises) is outside the domain; the totalised model reads its maximum as 0. -/
def inferTypeGo (numAlts : Nat) : List Order → Bool → Bool → String
  | [], strict, complete =>
    if strict && complete then "soc" else if strict then "soi" else if complete then "toc" else "toi"
  | o :: os, strict, complete =>
    let strict := if (listMax (o.map List.length)).getD 0 != 1 then false else strict
    let complete := if o.flatten.length != numAlts then false else complete
    if !strict && !complete then "toi" else inferTypeGo numAlts os strict complete

def inferType (s : OrdState) : String := inferTypeGo s.numAlternatives s.orders true true

/-- the common tail of `append_order`, `append_order_array`, `append_order_list` for one order -/
def addOne (s : OrdState) (o : Order) : OrdState :=
  if s.multiplicity.contains o then
    { s with multiplicity := AList.upd s.multiplicity o 0 (· + 1) }
  else
    { s with orders := s.orders ++ [o], multiplicity := AList.set s.multiplicity o 1,
             numUniqueOrders := s.numUniqueOrders + 1 }

/-- `append_order(order)`: `order` is an iterable of alternatives -/
def appendOrder (s : OrdState) (order : List Nat) : OrdState :=
  let keys := order.foldl addAlt s.altKeys
  let s := { s with altKeys := keys, numAlternatives := keys.length, numVoters := s.numVoters + 1 }
  let s := addOne s (order.map (fun a => [a]))
  { s with dataType := inferType s }

/-- `append_order_array(orders)`: rows of a 2-D array of alternatives -/
def appendOrderArray (s : OrdState) (orders : List (List Nat)) : OrdState :=
  let keys := orders.flatten.foldl addAlt s.altKeys
  let s := { s with altKeys := keys, numAlternatives := keys.length,
                    numVoters := s.numVoters + orders.length }
  let s := orders.foldl (fun s o => addOne s (o.map (fun a => [a]))) s
  { s with dataType := inferType s }

/-- `append_order_list(orders)`: orders given as sequences of classes -/
def appendOrderList (s : OrdState) (orders : List Order) : OrdState :=
  let keys := (orders.map List.flatten).flatten.foldl addAlt s.altKeys
  let s := { s with altKeys := keys, numAlternatives := keys.length,
                    numVoters := s.numVoters + orders.length }
  let s := orders.foldl addOne s
  { s with dataType := inferType s }

/-- `append_vote_map(vote_map)` — note the membership test is on `self.orders`, and
`num_unique_orders` is recomputed as `len(self.multiplicity)` -/
def appendVoteMap (s : OrdState) (vm : List (Order × Nat)) : OrdState :=
  let s := vm.foldl (fun s bm =>
    let o := bm.1
    let s := if !s.orders.contains o then
        { s with orders := s.orders ++ [o], multiplicity := AList.set s.multiplicity o bm.2 }
      else { s with multiplicity := AList.upd s.multiplicity o 0 (· + bm.2) }
    { s with numVoters := s.numVoters + bm.2, altKeys := o.flatten.foldl addAlt s.altKeys }) s
  let s := { s with numAlternatives := s.altKeys.length, numUniqueOrders := s.multiplicity.length }
  { s with dataType := inferType s }

/-- `prefsampling_ordinal_wrapper`: count the sampled rankings into a vote map -/
def samplerWrapper (votes : List (List Nat)) : List (Order × Nat) :=
  votes.foldl (fun vm v => AList.upd vm (v.map (fun a => [a])) 0 (· + 1)) []

/-- `populate_*`: `append_vote_map(wrapper(sampler(...)))` with the sampler's output a parameter -/
def populate (s : OrdState) (sampled : List (List Nat)) : OrdState :=
  appendVoteMap s (samplerWrapper sampled)

inductive Op where
  | order (o : List Nat)
  | array (os : List (List Nat))
  | list (os : List Order)
  | voteMap (vm : List (Order × Nat))
  | sample (votes : List (List Nat))
  deriving Repr

def step (s : OrdState) : Op → OrdState
  | .order o => appendOrder s o
  | .array os => appendOrderArray s os
  | .list os => appendOrderList s os
  | .voteMap vm => appendVoteMap s vm
  | .sample vs => populate s vs

def run (h : List Op) : OrdState := h.foldl step init

/-! ### views -/

def voteMap (s : OrdState) : List (Order × Nat) :=
  s.orders.map (fun o => (o, (s.multiplicity.get? o).getD 0))

def fullProfile (s : OrdState) : List Order :=
  s.orders.flatMap (fun o => List.replicate ((s.multiplicity.get? o).getD 0) o)

def flattenStrict (s : OrdState) : List (List Nat × Nat) :=
  s.orders.map (fun o => (o.map (fun c => c.headD 0), (s.multiplicity.get? o).getD 0))

/-! ### `properties/basic.py` statistics (defined when there is at least one order) -/

def largestBallot (s : OrdState) : Option Nat := listMax (s.orders.map (fun o => o.flatten.length))
def smallestBallot (s : OrdState) : Option Nat :=
  match s.orders.map (fun o => o.flatten.length) with
  | [] => none
  | v :: vs => some (vs.foldl min v)
/-- `max([len(p) for o in preferences for p in o if len(p) > 0] + [0])` -/
def largestIndif (s : OrdState) : Nat :=
  ((s.orders.flatten.map List.length).filter (· > 0)).foldl max 0
def isStrict (s : OrdState) : Bool := largestIndif s == 1
def isComplete (s : OrdState) : Option Bool := (smallestBallot s).map (· == s.numAlternatives)

/-! ### `sanity.orders`: the list of complaints, by kind -/

def sanityOrders (s : OrdState) : List String :=
  let alts := (s.orders.map List.flatten).flatten.eraseDups
  (if s.orders.length != s.multiplicity.length then ["len(orders)≠len(multiplicity)"] else []) ++
  (if s.numVoters != (s.multiplicity.values).sum then ["num_voters"] else []) ++
  (if s.numUniqueOrders != s.orders.length then ["num_unique_orders"] else []) ++
  (if !(alts.length ≤ s.numAlternatives) then ["more alternatives than header"] else []) ++
  (if alts.contains 0 then ["0 appears"] else []) ++
  (if s.dataType != inferType s then ["data_type"] else []) ++
  (if s.orders.eraseDups.length != s.orders.length then ["duplicate orders"] else []) ++
  s.orders.flatMap (fun o =>
    let app := o.flatten
    (if !(app.length ≤ s.numAlternatives) then ["too many alternatives"] else []) ++
    (if !(app.length ≤ app.eraseDups.length) then ["alternative repeated"] else []) ++
    (if (s.dataType == "soc" || s.dataType == "soi") && (listMax (o.map List.length)).getD 0 != 1
      then ["not strict"] else []))

end PrefVerif.Ordinal
