import PrefVerif.Model.SinglePeakedAxis
/-!
Model of the ILP constraint generators of `singlepeakedness.py`
(`sp_ILP_trans_cstr`, `sp_ILP_total_cstr`, `sp_ILP_pos_cstr`, `sp_ILP_cons_ones_cstr`,
`sp_ILP_cons_ones_vot_del_cstr` as repaired by D9, `sp_ILP_cons_ones_alt_del_cstr`) as functions
producing linear constraints, and of the read-back of the axis from the position variables.
The solver (CBC through python-mip) is a parameter; the harness captures the constraints the real
code hands to the solver and compares them with these.

A constraint is `Σ coeffᵢ·varᵢ  (≤ | = | ≥)  rhs` over exact rationals.
-/
namespace PrefVerif.ILP

inductive Var where
  | leftOf (a b : Nat)      -- 1 iff alternative index `a` is to the left of `b`
  | pos (a : Nat)           -- position of alternative index `a`, in `[1, m]`
  | delVoter (v : Nat)
  | delAlt (a : Nat)
  deriving Repr, BEq, DecidableEq

inductive Sense where
  | le | eq | ge
  deriving Repr, BEq, DecidableEq

structure Constr where
  terms : List (Rat × Var)
  sense : Sense
  rhs : Rat
  deriving Repr

def eval (asg : Var → Rat) (terms : List (Rat × Var)) : Rat := (terms.map (fun t => t.1 * asg t.2)).sum

def satisfies (asg : Var → Rat) (c : Constr) : Bool :=
  match c.sense with
  | .le => decide (eval asg c.terms ≤ c.rhs)
  | .eq => decide (eval asg c.terms = c.rhs)
  | .ge => decide (eval asg c.terms ≥ c.rhs)

def combos2 : List Nat → List (Nat × Nat)
  | [] => []
  | a :: rest => rest.map (fun b => (a, b)) ++ combos2 rest

def combos3 : List Nat → List (Nat × Nat × Nat)
  | [] => []
  | a :: rest => (combos2 rest).map (fun bc => (a, bc.1, bc.2)) ++ combos3 rest

/-- `L[x][y] + L[y][z] - 1 <= L[x][z]`, i.e. `L[x][y] + L[y][z] - L[x][z] ≤ 1` -/
def transOne (x y z : Nat) : Constr :=
  { terms := [(1, .leftOf x y), (1, .leftOf y z), (-1, .leftOf x z)], sense := .le, rhs := 1 }

/-- `sp_ILP_trans_cstr`: six constraints per triple `a1 < a2 < a3` -/
def transCstr (m : Nat) : List Constr :=
  (combos3 (List.range m)).flatMap (fun t =>
    let a1 := t.1; let a2 := t.2.1; let a3 := t.2.2
    [transOne a1 a2 a3, transOne a1 a3 a2, transOne a2 a1 a3, transOne a2 a3 a1, transOne a3 a1 a2,
     transOne a3 a2 a1])

/-- `sp_ILP_total_cstr`: `L[a1][a2] + L[a2][a1] == 1` -/
def totalCstr (m : Nat) : List Constr :=
  (combos2 (List.range m)).map (fun p =>
    { terms := [(1, .leftOf p.1 p.2), (1, .leftOf p.2 p.1)], sense := .eq, rhs := 1 })

/-- `pos[a] <= pos[b] + m*(1 - L[a][b])`  ⇝  `pos[a] - pos[b] + m·L[a][b] ≤ m` -/
def ordering (m a b : Nat) : Constr :=
  { terms := [(1, .pos a), (-1, .pos b), ((m : Rat), .leftOf a b)], sense := .le, rhs := m }

/-- `pos[b] - pos[a] >= 0.5*L[a][b] - (1 - L[a][b])*m`  ⇝  `pos[b] - pos[a] - (0.5 + m)·L[a][b] ≥ -m` -/
def diffPos (m a b : Nat) : Constr :=
  { terms := [(1, .pos b), (-1, .pos a), (-((1 : Rat) / 2 + m), .leftOf a b)], sense := .ge, rhs := -(m : Rat) }

/-- `sp_ILP_pos_cstr` -/
def posCstr (m : Nat) : List Constr :=
  (combos2 (List.range m)).flatMap (fun p =>
    [ordering m p.1 p.2, diffPos m p.1 p.2, ordering m p.2 p.1, diffPos m p.2 p.1])

/-- the 0/1 rows of `sp_cons_ones_matrix` as (ones, zeros) column-index lists, ascending -/
def rowSets (m : Nat) (row : List Nat) : List Nat × List Nat :=
  ((List.range m).filter (fun c => row.contains c), (List.range m).filter (fun c => !row.contains c))

/-- the two constraints for ones `i < j` and zero `k`, relaxed by the extra variables `relax` -/
def consOnesPair (i j k : Nat) (relax : List Var) : List Constr :=
  let r := relax.map (fun v => ((-1 : Rat), v))
  [{ terms := [(1, .leftOf i k), (1, .leftOf k j)] ++ r, sense := .le, rhs := 1 },
   { terms := [(1, .leftOf j k), (1, .leftOf k i)] ++ r, sense := .le, rhs := 1 }]

/-- constraints of one matrix row -/
def consOnesRow (m : Nat) (row : List Nat) (relax : Nat → Nat → Nat → List Var) : List Constr :=
  let (ones, zeros) := rowSets m row
  (combos2 ones).flatMap (fun ij => zeros.flatMap (fun k => consOnesPair ij.1 ij.2 k (relax ij.1 ij.2 k)))

/-- `sp_ILP_cons_ones_cstr` -/
def consOnesCstr (alts : List Nat) (orders : List Order) : List Constr :=
  (SinglePeakedAxis.consOnesRows alts orders).flatMap (fun row => consOnesRow alts.length row (fun _ _ _ => []))

/-- rows of the matrix tagged with the index of the voter they belong to (one row per class) -/
def rowsWithVoter (alts : List Nat) (orders : List Order) : List (List Nat × Nat) :=
  (orders.zipIdx).flatMap (fun ov =>
    (SinglePeakedAxis.consOnesRows alts [ov.1]).map (fun row => (row, ov.2)))

/-- `sp_ILP_cons_ones_vot_del_cstr` (D9 repaired): relaxed by the row's own voter variable -/
def consOnesVotDelCstr (alts : List Nat) (orders : List Order) : List Constr :=
  (rowsWithVoter alts orders).flatMap (fun rv =>
    consOnesRow alts.length rv.1 (fun _ _ _ => [.delVoter rv.2]))

/-- `sp_ILP_cons_ones_alt_del_cstr`: relaxed by the three alternatives involved -/
def consOnesAltDelCstr (alts : List Nat) (orders : List Order) : List Constr :=
  (SinglePeakedAxis.consOnesRows alts orders).flatMap (fun row =>
    consOnesRow alts.length row (fun i j k => [.delAlt i, .delAlt j, .delAlt k]))

/-- the whole model of `is_single_peaked_ILP` -/
def spModel (alts : List Nat) (orders : List Order) : List Constr :=
  let m := alts.length
  transCstr m ++ totalCstr m ++ consOnesCstr alts orders ++ posCstr m

def votDelModel (alts : List Nat) (orders : List Order) : List Constr :=
  let m := alts.length
  transCstr m ++ totalCstr m ++ consOnesVotDelCstr alts orders ++ posCstr m

def altDelModel (alts : List Nat) (orders : List Order) : List Constr :=
  let m := alts.length
  transCstr m ++ totalCstr m ++ consOnesAltDelCstr alts orders ++ posCstr m

/-- `axis[int(pos_a) - 1] = alternative a`: the axis read from integral position values -/
def readAxis (alts : List Nat) (posVal : Nat → Nat) : List Nat :=
  (List.range alts.length).foldl (fun axis a =>
    axis.set (posVal a - 1) (alts.getD a 0)) (List.replicate alts.length 0)

/-- the assignment induced by an axis of alternative indices: `L[a][b] = 1` iff `a` is left of `b`,
`pos[a]` = 1-based position -/
def ofAxis (axisIdx : List Nat) (delV delA : List Nat) : Var → Rat
  | .leftOf a b => if axisIdx.idxOf a < axisIdx.idxOf b then 1 else 0
  | .pos a => (axisIdx.idxOf a + 1 : Nat)
  | .delVoter v => if delV.contains v then 1 else 0
  | .delAlt a => if delA.contains a then 1 else 0

end PrefVerif.ILP
