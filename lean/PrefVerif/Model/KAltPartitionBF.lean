import PrefVerif.Model.KAltDeletion
/-!
Model of `k_alternative_partition_brut_force(instance, k)` and its helpers `dfs`, `extend` and
`singleton_pair_combinations` in
`preflibtools/properties/subdomains/ordinal/singlepeaked/k_alternative_partition.py`.

The helpers `get_L_sets` and `place` (`case_2`, `case_3`, `check_case_4`, `boundary`) of
`k_alternative_deletion.py` are those of `PrefVerif.KAlt` (`getLSets`, `place`), including the model `PySet` of
the CPython hash table: the only set iteration of this algorithm is `list(alts)` for the sets `alts = L[i]`
(`PySet.iter natKey`); everything else iterates over lists, tuples and a dict in insertion order.

Representation.
* `instance` is given by `alts = list(instance.alternatives_name.keys())` and
  `orders = [vote for vote, _ in instance.flatten_strict()]` (strict complete orders).
* A tuple `(a,)` / `(a, b)` of `singleton_pair_combinations` is the list `[a]` / `[a, b]`, which is also the
  `list(X)` that `KAlt.place` expects (`case_2` reads `list(X)[0], list(X)[1]`: tuple order).
* An incomplete axis is a `KAlt.Axis = List (Option Nat)`, `none` being the hole `None`.
* `shortest` / the result of `dfs` is an `Option (List Axis)` (`None` = no partition found).
* The dict `L_segmented` (keys `1 … m`, only ever looked up) is the list `[L_segmented[1], …, L_segmented[m]]`.
-/
namespace PrefVerif.KAltBF
open PrefVerif.KAlt

/-- `singleton_pair_combinations(items)`; `items.pop(0)` splits off the head, the first loop pairs it with each
of the remaining items in turn (`[i for i in items if i != pairing]` is the rest), the second part keeps it as a
singleton.  Every recursive call is on a strictly shorter list: `fuel = len(items)` suffices
(`spcAux_fuel` in `Lemmas/C18BFComb.lean`); the out-of-fuel value `[]` is never produced under that bound. -/
def spcAux : Nat → List Nat → List (List (List Nat))
  | _, [] => [[]]
  | _, [a] => [[[a]]]
  | 0, _ :: _ :: _ => []
  | fuel + 1, head :: pairing₀ :: rest =>
    let items := pairing₀ :: rest
    let combis := items.flatMap (fun pairing =>
      let remainingItems := items.filter (fun i => i != pairing)
      (spcAux fuel remainingItems).map (fun combi => [head, pairing] :: combi))
    combis ++ (spcAux fuel items).map (fun combi => [head] :: combi)

def singletonPairCombinations (items : List Nat) : List (List (List Nat)) := spcAux items.length items

/-- a queue entry of `extend`: `[unused_axes, used_axes]` -/
abbrev QEntry := List Axis × List Axis

/-- body of `for unused_axes, used_axes in queue` in `extend`: the entries appended to `new_queue` -/
def extendEntry (votes : List (List Nat)) (k : Nat) (alt : List Nat) (e : QEntry) : List QEntry :=
  let unusedAxes := e.1
  let usedAxes := e.2
  -- `for axis in unused_axes`
  let placed := unusedAxes.filterMap (fun axis =>
    let newAxis := (place axis alt votes).1
    if newAxis != axis then some (unusedAxes.filter (fun a => a != axis), usedAxes ++ [newAxis]) else none)
  -- `if len(unused_axes) + len(used_axes) < k`
  let fresh :=
    if unusedAxes.length + usedAxes.length < k then
      let newAxis := (place [none] alt votes).1
      if newAxis != [none] then [(unusedAxes, usedAxes ++ [newAxis])] else []
    else []
  placed ++ fresh

/-- one round of `for alt in extension`: `queue ↦ new_queue` -/
def extendStep (votes : List (List Nat)) (k : Nat) (queue : List QEntry) (alt : List Nat) : List QEntry :=
  queue.flatMap (extendEntry votes k alt)

/-- `extend(axes, extension, unique_votes, k)` -/
def extend (axes : List Axis) (extension : List (List Nat)) (votes : List (List Nat)) (k : Nat) :
    List (List Axis) :=
  let queue := extension.foldl (extendStep votes k) [(axes, [])]
  queue.map (fun e => e.1 ++ e.2)

/-- `shortest is None or n < len(shortest)` -/
def better (shortest : Option (List Axis)) (n : Nat) : Bool :=
  match shortest with
  | none => true
  | some s => decide (n < s.length)

/-- `dfs(i, axes, shortest, m, k, L, unique_votes)`; `L = [L[1], …, L[m]]`, so `L[i + 1]` is `L.getD i`.
The recursion increases `i` by one and stops at `i == m`: `fuel = m + 1 - i` suffices (the call from
`partitionBruteForce` has `i = 0`, `fuel = m + 1`); out of fuel the value is `shortest` (never reached). -/
def dfs (m k : Nat) (L : List (List (List (List Nat)))) (votes : List (List Nat)) :
    Nat → Nat → List Axis → Option (List Axis) → Option (List Axis)
  | 0, _, _, shortest => shortest
  | fuel + 1, i, axes, shortest =>
    if i == m then some axes
    else
      let extensions := L.getD i []
      extensions.foldl (fun shortest extension =>
        if extension.length > k then shortest
        else
          let newAxes := extend axes extension votes k
          newAxes.foldl (fun shortest ax =>
            if better shortest ax.length then
              match dfs m k L votes fuel (i + 1) ax shortest with
              | some completed => if better shortest completed.length then some completed else shortest
              | none => shortest
            else shortest) shortest) shortest

/-- `math.ceil(m / 2)` -/
def ceilHalf (m : Nat) : Nat := (m + 1) / 2

/-- `k_alternative_partition_brut_force(instance, k)`; `axes.remove(None)` removes the (first) hole of every
axis of the answer, after which the entries are alternatives -/
def partitionBruteForce (alts : List Nat) (orders : List (List Nat)) (k : Nat) : Option (List (List Nat)) :=
  let m := alts.length
  let k := if k > ceilHalf m then ceilHalf m else k
  let L := getLSets alts orders
  let Lsegmented := L.map (fun s => singletonPairCombinations (s.iter natKey))
  let partitions := dfs m k Lsegmented orders (m + 1) 0 [] none
  partitions.map (fun p => p.map (fun axis => (axis.erase none).filterMap id))

end PrefVerif.KAltBF
