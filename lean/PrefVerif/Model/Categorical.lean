import PrefVerif.Model.Basic
/-!
Model of `CategoricalInstance.from_ordinal`, `factorise_instance` and
`recompute_cardinality_param` (`preflibtools/instances/preflibinstance/categorical.py`),
as repaired by D12 (collapsing orders accumulate their multiplicities) and D13
(`factorise_instance` stores the duplicate-free list).

`relative_size_truncators` turn into per-order absolute truncators
`int(ceil(len(order) * t))`; the float arithmetic is not modelled: the per-order truncators are
a parameter of the model (computed by the harness with the library's formula).
-/
namespace PrefVerif.Categorical
open PrefVerif.Py

abbrev Ballot := List (List Nat)

/-- `while len(alts) < truncation_point and order_index < len(order): alts.extend(order[order_index])`:
returns the category and the remaining classes -/
def takeUntil (tp : Nat) : List (List Nat) → List Nat → List Nat × List (List Nat)
  | [], acc => (acc, [])
  | c :: rest, acc => if acc.length < tp then takeUntil tp rest (acc ++ c) else (acc, c :: rest)

/-- the `size_truncators` branch for one order -/
def catBySize : List Nat → List (List Nat) → Ballot
  | [], rest => if rest.isEmpty then [] else [rest.flatten]
  | tp :: tps, rest =>
    let (cat, rest') := takeUntil tp rest []
    if rest'.isEmpty then [cat] else cat :: catBySize tps rest'

/-- the `num_indif_classes` branch for one order: no early exit, so exhausted orders still
receive one (empty) category per remaining entry -/
def catByCount : List Nat → List (List Nat) → Ballot
  | [], rest => if rest.isEmpty then [] else [rest.flatten]
  | n :: ns, rest => (rest.take n).flatten :: catByCount ns (rest.drop n)

def padTo (n : Nat) (b : Ballot) : Ballot := b ++ List.replicate (n - b.length) []

inductive Mode where
  | size (tps : List Nat)
  | relative (perOrder : List (List Nat))   -- absolute truncators already computed per order
  | count (nums : List Nat)

def rawBallots (mode : Mode) (p : Profile) : List Ballot :=
  match mode with
  | .size tps => p.map (fun om => catBySize tps om.1)
  | .count ns => p.map (fun om => catByCount ns om.1)
  | .relative per => (p.zip per).map (fun x => catBySize x.2 x.1.1)

structure CatState where
  preferences : List Ballot
  multiplicity : AList Ballot Nat
  numCategories : Nat
  numVoters : Nat
  numUniquePreferences : Nat
  categoryKeys : List Nat        -- keys "1".."k" of `categories_name`
  deriving Repr

/-- the assembly loop of `from_ordinal` (after D12) followed by `recompute_cardinality_param` -/
def fromOrdinal (mode : Mode) (p : Profile) : Option CatState :=
  let raw := rawBallots mode p
  match raw.map List.length with
  | [] => none                                   -- `max()` of an empty sequence
  | l :: ls =>
    let k := ls.foldl max l
    let (prefs, mult) := (raw.zip (p.map (·.2))).foldl (fun (acc : List Ballot × AList Ballot Nat) bm =>
      let b := padTo k bm.1
      if acc.2.contains b then (acc.1, AList.upd acc.2 b 0 (· + bm.2))
      else (acc.1 ++ [b], AList.set acc.2 b bm.2)) ([], [])
    some { preferences := prefs, multiplicity := mult, numCategories := k,
           numVoters := (AList.values mult).sum, numUniquePreferences := prefs.eraseDups.length,
           categoryKeys := (List.range k).map (· + 1) }

/-- `factorise_instance(reset_multiplicity)` (after D13) on a raw ballot list and an existing
multiplicity table -/
def factorise (prefs : List Ballot) (mult : AList Ballot Nat) (reset : Bool) :
    List Ballot × AList Ballot Nat :=
  let mult := if reset then [] else mult
  let (newPrefs, mult) := prefs.foldl (fun (acc : List Ballot × AList Ballot Nat) b =>
    if !acc.2.contains b then (acc.1 ++ [b], AList.set acc.2 b 1)
    else (if acc.1.contains b then acc.1 else acc.1 ++ [b], AList.upd acc.2 b 0 (· + 1))) ([], mult)
  (newPrefs, mult)

end PrefVerif.Categorical
