import PrefVerif.Model.Pairwise
/-!
Model of `preflibtools/aggregation/singlewinner.py`, `properties/decorators.py` and
`properties/basic.py::is_approval`, as repaired by D4 (Copeland counts contests won),
D5 (satisfaction approval in exact arithmetic) and D11 (Bucklin / fallback).
Winner sets are returned as lists in score-dict order; the harness compares them as sets.
An empty order (`order[0]` raises `IndexError`) is outside the well-formedness domain; the
totalised model treats the missing class as empty.
-/
namespace PrefVerif.SingleWinner
open PrefVerif.Py PrefVerif.Pairwise

def addScore {β : Type} [Add β] [OfNat β 0] (s : AList Nat β) (a : Nat) (d : β) : AList Nat β :=
  AList.upd s a 0 (· + d)

def ordinal4 : List String := ["soc", "toc", "soi", "toi"]

def pluralityScores (p : Profile) : AList Nat Int :=
  p.foldl (fun s om => (om.1.headD []).foldl (fun s a => addScore s a (om.2 : Int)) s) []

def pluralityCore (i : Inst) : Res (List Nat) := ofOption (argmaxKeys (pluralityScores i.profile))

def pluralityWinner (i : Inst) : Res (List Nat) := requiresType ordinal4 i pluralityCore

def vetoScores (alts : List Nat) (p : Profile) : AList Nat Int :=
  p.foldl (fun s om => (om.1.getLastD []).foldl (fun s a => addScore s a (om.2 : Int)) s)
    (alts.foldl (fun s a => AList.set s a 0) [])

def vetoWinner (i : Inst) : Res (List Nat) :=
  requiresType ["soc", "toc"] i fun i => ofOption (argminKeys (vetoScores i.alts i.profile))

/-- `for x in order[:k]: scores[x[0]] += mult` -/
def kApprovalScores (k : Nat) (p : Profile) : AList Nat Int :=
  p.foldl (fun s om => (om.1.take k).foldl (fun s x => addScore s (x.headD 0) (om.2 : Int)) s) []

def kApprovalWinner (i : Inst) (k : Nat) : Res (List Nat) :=
  requiresType ["soc", "soi"] i fun i => ofOption (argmaxKeys (kApprovalScores k i.profile))

def bordaWinner (i : Inst) : Res (List Nat) :=
  requiresType ["soc", "toc"] i fun i =>
    -- the inner `borda_scores` carries its own guard ("toc", "soc")
    requiresType ["toc", "soc"] i fun i => ofOption (argmaxKeys (bordaScores i.numAlternatives i.profile))

/-- repaired `copeland_winner`: number of strictly positive margins in the row -/
def copelandWins (alts : List Nat) (p : Profile) : AList Nat Int :=
  (copelandScores alts p).map (fun row => (row.1, ((row.2.filter (fun e => e.2 > 0)).length : Int)))

def copelandWinner (i : Inst) : Res (List Nat) :=
  requiresType ["soc"] i fun i =>
    requiresType ordinal4 i fun i => ofOption (argmaxKeys (copelandWins i.alts i.profile))

/-- `smallest_ballot(instance) == instance.num_alternatives` -/
def isComplete (i : Inst) : Option Bool :=
  match i.profile.map (fun om => (om.1.map List.length).sum) with
  | [] => none
  | v :: vs => some (vs.foldl min v == i.numAlternatives)

/-- `is_approval` on an ordinal instance: `m == 1 or (m == 2 and is_complete)` with
`m = max(len(order))`; `none` = `ValueError` (no order) -/
def isApproval (i : Inst) : Option Bool :=
  match i.profile.map (fun om => om.1.length) with
  | [] => none
  | v :: vs =>
    let m := vs.foldl max v
    if m == 1 then some true
    else if m == 2 then isComplete i
    else some false

/-- `@requires_approval` (the inner `is_approval` is itself guarded by the ordinal/cat types) -/
def requiresApproval {α : Type} (i : Inst) (f : Inst → Res α) : Res α :=
  if !(ordinal4 ++ ["cat"]).contains i.dataType then .refused
  else match isApproval i with
    | none => .valueError
    | some true => f i
    | some false => .refused

def approvalWinner (i : Inst) : Res (List Nat) := requiresApproval i pluralityWinner

def savScores (p : Profile) : AList Nat Rat :=
  p.foldl (fun s om =>
    let top := om.1.headD []
    top.foldl (fun s a => addScore s a ((om.2 : Rat) / (top.length : Rat))) s) []

def satisfactionApprovalWinner (i : Inst) : Res (List Nat) :=
  requiresApproval i fun i => ofOption (argmaxKeys (savScores i.profile))

/-! ### Bucklin and fallback (C14) -/

/-- first-place scores: `scores[order[0][0]] += mult` -/
def firstScores (p : Profile) : AList Nat Int :=
  p.foldl (fun s om => addScore s ((om.1.headD []).headD 0) (om.2 : Int)) []

/-- one pass of the level loop at depth `pos` -/
def levelPass (p : Profile) (pos : Nat) (s : AList Nat Int) : AList Nat Int :=
  p.foldl (fun s om =>
    match om.1[pos]? with
    | some cls => addScore s (cls.headD 0) (om.2 : Int)
    | none => s) s

def maxValue (s : AList Nat Int) : Option Int :=
  match AList.values s with
  | [] => none
  | v :: vs => some (vs.foldl max v)

/-- `while current_max_value < quota and current_pos < num_alternatives`, with
`fuel = num_alternatives - current_pos`.  Returns the final score table and depth. -/
def levelLoop (p : Profile) (quota : Int) : Nat → Nat → AList Nat Int → AList Nat Int × Nat
  | 0, pos, s => (s, pos)
  | fuel + 1, pos, s =>
    if (maxValue s).getD 0 < quota then levelLoop p quota fuel (pos + 1) (levelPass p pos s)
    else (s, pos)

def thresholdScores (i : Inst) : AList Nat Int × Nat :=
  let quota : Int := (i.numVoters / 2 : Nat) + 1
  levelLoop i.profile quota (i.numAlternatives - 1) 1 (firstScores i.profile)

def fallbackWinner (i : Inst) : Res (List Nat) :=
  requiresType ["soc", "soi"] i fun i => ofOption (argmaxKeys (thresholdScores i).1)

def bucklinWinner (i : Inst) : Res (List Nat) :=
  requiresType ["soc"] i fun i => ofOption (argmaxKeys (thresholdScores i).1)

end PrefVerif.SingleWinner
