import PrefVerif.Model.Basic
/-!
Model of `single_peaked_tree.py` as repaired by D10 (`get_B` is a genuine intersection over all
voters; the elimination loop stops as soon as fewer than three alternatives remain).
Python `set`s are lists here; the enumeration order of `L_set` and the choice of `b ∈ B(a)` are the
list order — the property only speaks about the verdict and the validity of the returned tree.
-/
namespace PrefVerif.SPTree

def restrict (o : List Nat) (C : List Nat) : List Nat := o.filter (fun c => C.contains c)

def inter (a b : List Nat) : List Nat := a.filter (fun x => b.contains x)

/-- `B(i, a)` for one restricted order -/
def bOfVoter (r : List Nat) (a : Nat) : List Nat :=
  match r with
  | [] => []
  | top :: rest =>
    if top == a then (match rest with | [] => [] | second :: _ => [second])
    else r.takeWhile (fun c => c != a)

/-- `get_B(profile, alt_set, a)`: intersection over all voters -/
def getB (orders : List (List Nat)) (C : List Nat) (a : Nat) : List Nat :=
  match orders.map (fun o => bOfVoter (restrict o C) a) with
  | [] => []
  | b :: bs => bs.foldl inter b

/-- bottom-ranked alternatives of the restricted profile, in order of first appearance -/
def bottoms (orders : List (List Nat)) (C : List Nat) : List Nat :=
  (orders.filterMap (fun o => (restrict o C).getLast?)).eraseDups

/-- the `for a in L_set` loop; `none` = `return False, None` -/
def forLoop (orders : List (List Nat)) : List Nat → List Nat → List (Nat × Nat) → Option (List Nat × List (Nat × Nat))
  | [], C, tree => some (C, tree)
  | a :: ls, C, tree =>
    if C.length < 3 then some (C, tree)
    else match getB orders C a with
      | [] => none
      | b :: _ => forLoop orders ls (C.filter (· != a)) (tree ++ [(b, a)])

/-- `while len(C_set) >= 3` (fuel = number of alternatives: every round removes at least one) -/
def whileLoop (orders : List (List Nat)) : Nat → List Nat → List (Nat × Nat) → Option (List Nat × List (Nat × Nat))
  | 0, C, tree => some (C, tree)
  | fuel + 1, C, tree =>
    if C.length < 3 then some (C, tree)
    else match forLoop orders (bottoms orders C) C tree with
      | none => none
      | some (C', tree') => whileLoop orders fuel C' tree'

/-- `is_single_peaked_on_tree` -/
def isSPOnTree (alts : List Nat) (orders : List (List Nat)) : Option (List (Nat × Nat)) :=
  match whileLoop orders alts.length alts [] with
  | none => none
  | some (C, tree) =>
    match C with
    | [a, b] => some (tree ++ [(a, b)])
    | _ => some tree

end PrefVerif.SPTree
