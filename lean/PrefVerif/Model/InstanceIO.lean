import PrefVerif.Py.AList
import PrefVerif.Py.Str
/-!
Model of `preflibtools/instances/preflibinstance/instance.py`: `parse_metadata`,
`write_metadata`, and the entry points' line splitting.  The alternative-name pattern is modelled
as repaired by D16: `# ALTERNATIVE NAME (\d+): ?(.*)`.
-/
namespace PrefVerif.InstanceIO
open PrefVerif.Py

inductive Err where
  | valueError      -- `int()` / unpacking failure
  | typeError       -- data type not valid for the instance class
  deriving Repr, BEq, DecidableEq

/-- attributes of `PrefLibInstance` -/
structure Header where
  fileName : Str := []
  title : Str := []
  description : Str := []
  dataType : Str := []
  modificationType : Str := []
  relatesTo : Str := []
  relatedFiles : Str := []
  publicationDate : Str := []
  modificationDate : Str := []
  numAlternatives : Nat := 0
  numVoters : Nat := 0
  altNames : AList Nat Str := []
  deriving Repr, BEq, DecidableEq

def s (x : String) : Str := x.toList

def intField (v : Str) : Except Err Nat :=
  match toNat? v with
  | some n => .ok n
  | none => .error .valueError

/-- `re.match(r"# <PREFIX> (\d+): ?(.*)", line)`: after the literal prefix and one space, one or
more ASCII digits, a colon, an optional space, and the rest of the line up to the first `\n`.
Returns `(int(group 1), group 2)`. -/
def matchNumbered (prefixSp : Str) (line : Str) : Option (Nat × Str) :=
  if !startsWith line prefixSp then none
  else
    let rest := line.drop prefixSp.length
    let ds := rest.takeWhile Char.isDigit
    let after := rest.dropWhile Char.isDigit
    if ds.isEmpty then none
    else match after with
      | ':' :: tl =>
        let tl := match tl with | ' ' :: t => t | t => t
        some (Nat.ofDigitChars 10 ds 0, tl.takeWhile (fun c => c != '\n'))
      | _ => none

/-- the `__n` de-duplication loop: smallest `n ≥ 1` with `name__n` unused (`fuel` = number of
existing names + 1, enough by pigeonhole) -/
def freshSuffix (taken : List Str) (name : Str) : Nat → Nat → Str
  | 0, tmp => name ++ s "__" ++ natToStr tmp
  | fuel + 1, tmp =>
    let cand := name ++ s "__" ++ natToStr tmp
    if taken.contains cand then freshSuffix taken name fuel (tmp + 1) else cand

/-- name assignment under `autocorrect` -/
def assignName (names : AList Nat Str) (k : Nat) (name : Str) (autocorrect : Bool) : AList Nat Str :=
  let taken := AList.values names
  if autocorrect && taken.contains name then
    AList.set names k (freshSuffix taken name (taken.length + 1) 1)
  else AList.set names k name

/-- `parse_metadata(line)`: prefix dispatch in the code's order, slice offsets as in the code -/
def parseMetadata (h : Header) (line : Str) (autocorrect : Bool) : Except Err Header :=
  if startsWith line (s "# FILE NAME") then .ok { h with fileName := strip (line.drop 12) }
  else if startsWith line (s "# TITLE") then .ok { h with title := strip (line.drop 8) }
  else if startsWith line (s "# DESCRIPTION") then .ok { h with description := strip (line.drop 14) }
  else if startsWith line (s "# DATA TYPE") then .ok { h with dataType := strip (line.drop 12) }
  else if startsWith line (s "# MODIFICATION TYPE") then .ok { h with modificationType := strip (line.drop 20) }
  else if startsWith line (s "# RELATES TO") then .ok { h with relatesTo := strip (line.drop 13) }
  else if startsWith line (s "# RELATED FILES") then .ok { h with relatedFiles := strip (line.drop 16) }
  else if startsWith line (s "# PUBLICATION DATE") then .ok { h with publicationDate := strip (line.drop 19) }
  else if startsWith line (s "# MODIFICATION DATE") then .ok { h with modificationDate := strip (line.drop 20) }
  else if startsWith line (s "# NUMBER ALTERNATIVES") then do
    let n ← intField (line.drop 22); .ok { h with numAlternatives := n }
  else if startsWith line (s "# NUMBER VOTERS") then do
    let n ← intField (line.drop 16); .ok { h with numVoters := n }
  else if startsWith line (s "# ALTERNATIVE NAME") then
    match matchNumbered (s "# ALTERNATIVE NAME ") line with
    | some (alt, name) => .ok { h with altNames := assignName h.altNames alt name autocorrect }
    | none => .ok h
  else .ok h

/-- `write_metadata` -/
def writeMetadata (h : Header) : Str :=
  s "# FILE NAME: " ++ h.fileName ++ s "\n# TITLE: " ++ h.title ++ s "\n# DESCRIPTION: " ++ h.description
    ++ s "\n# DATA TYPE: " ++ h.dataType ++ s "\n# MODIFICATION TYPE: " ++ h.modificationType
    ++ s "\n# RELATES TO: " ++ h.relatesTo ++ s "\n# RELATED FILES: " ++ h.relatedFiles
    ++ s "\n# PUBLICATION DATE: " ++ h.publicationDate ++ s "\n# MODIFICATION DATE: " ++ h.modificationDate
    ++ s "\n"

def writeAltNames (names : AList Nat Str) : Str :=
  (names.map (fun kv => s "# ALTERNATIVE NAME " ++ natToStr kv.1 ++ s ": " ++ kv.2 ++ s "\n")).flatten

/-- index reached by `for i in range(len(lines)): … else: break` and the header after it.
`go` returns `(header, i)`; when every line is a header line the loop ends with `i = len - 1`. -/
def headerLoop {σ : Type} (step : σ → Str → Except Err σ) :
    σ → List Str → Nat → Except Err (σ × Nat)
  | st, [], i => .ok (st, i - 1)
  | st, l :: ls, i =>
    let line := strip l
    if startsWith line ['#'] then do
      let st' ← step st line
      headerLoop step st' ls (i + 1)
    else .ok (st, i)

end PrefVerif.InstanceIO
