/-!
Python `dict` as an association list in insertion order.
`set` updates in place when the key is present and appends otherwise — exactly CPython's
insertion-order semantics for a dict without deletions.
-/
namespace PrefVerif.Py

abbrev AList (κ ν : Type) := List (κ × ν)

namespace AList
variable {κ ν : Type} [BEq κ]

def get? (d : AList κ ν) (k : κ) : Option ν := (d.find? (fun p => p.1 == k)).map (·.2)

def contains (d : AList κ ν) (k : κ) : Bool := d.any (fun p => p.1 == k)

/-- `d[k] = v` -/
def set : AList κ ν → κ → ν → AList κ ν
  | [], k, v => [(k, v)]
  | (k', v') :: d, k, v => if k' == k then (k', v) :: d else (k', v') :: set d k v

/-- `d[k] = f(d.get(k, dflt))`: the `defaultdict` update `d[k] += x` -/
def upd (d : AList κ ν) (k : κ) (dflt : ν) (f : ν → ν) : AList κ ν :=
  set d k (f ((get? d k).getD dflt))

def keys (d : AList κ ν) : List κ := d.map (·.1)
def values (d : AList κ ν) : List ν := d.map (·.2)

end AList
end PrefVerif.Py
