/-! `list.sort(key=…)`: a stable sort.  Modelled as stable insertion sort on a key with a total
preorder `le`. -/
namespace PrefVerif.Py

/-- insert `x` after every element that is `≤ x` (keeps equal keys in input order) -/
def insertSorted {α : Type} (le : α → α → Bool) (x : α) : List α → List α
  | [] => [x]
  | y :: ys => if le y x then y :: insertSorted le x ys else x :: y :: ys

/-- stable sort: elements with equal keys keep their relative order -/
def stableSort {α : Type} (le : α → α → Bool) (l : List α) : List α :=
  l.foldl (fun acc x => insertSorted le x acc) []

end PrefVerif.Py
