/-!
Python `str` operations used by the PrefLib parsers and writers, over `List Char` (code points).
Each definition mirrors one CPython behaviour; the tables (`isSpace`, line boundaries) are compared
with CPython exhaustively over all code points by the harness self-test (`harness/pytables.py`).
-/
namespace PrefVerif.Py

abbrev Str := List Char

/-- `c.isspace()` for a one-character string (CPython 3.12 / Unicode 15) -/
def isSpace (c : Char) : Bool :=
  let n := c.toNat
  (0x09 ≤ n && n ≤ 0x0D) || (0x1C ≤ n && n ≤ 0x20) || n == 0x85 || n == 0xA0 || n == 0x1680
    || (0x2000 ≤ n && n ≤ 0x200A) || n == 0x2028 || n == 0x2029 || n == 0x202F || n == 0x205F
    || n == 0x3000

def lstrip (s : Str) : Str := s.dropWhile isSpace
def rstrip (s : Str) : Str := (s.reverse.dropWhile isSpace).reverse
/-- `s.strip()` -/
def strip (s : Str) : Str := rstrip (lstrip s)

/-- `"".join(s.split())`: drop every whitespace character -/
def removeWs (s : Str) : Str := s.filter (fun c => !isSpace c)

/-- `s.replace(" ", "")` -/
def removeSpaces (s : Str) : Str := s.filter (fun c => c != ' ')

/-- `s.strip(", ")` -/
def stripCommaSpace (s : Str) : Str :=
  let p := fun c : Char => c == ',' || c == ' '
  ((s.dropWhile p).reverse.dropWhile p).reverse

def startsWith (s p : Str) : Bool := p.isPrefixOf s

/-- `s.split(sep)` for a one-character separator (always at least one piece) -/
def splitOn (sep : Char) : Str → List Str
  | [] => [[]]
  | c :: cs =>
    if c == sep then [] :: splitOn sep cs
    else match splitOn sep cs with
      | [] => [[c]]
      | p :: ps => (c :: p) :: ps

/-- `str(n)` for a non-negative int -/
def natToStr (n : Nat) : Str := Nat.toDigits 10 n

/-- `int(s)` on the modelled fragment: surrounding whitespace, then one or more ASCII digits.
Anything else (sign, underscore, non-ASCII digit, empty) is `none`: a `ValueError`, or input
outside the fragment the generators stay in. -/
def toNat? (s : Str) : Option Nat :=
  let t := strip s
  if t.isEmpty || !(t.all Char.isDigit) then none else some (Nat.ofDigitChars 10 t 0)

/-- line boundaries of `str.splitlines()` (besides `\r\n`) -/
def isLineBreak (c : Char) : Bool :=
  let n := c.toNat
  n == 0x0A || n == 0x0B || n == 0x0C || n == 0x0D || n == 0x1C || n == 0x1D || n == 0x1E
    || n == 0x85 || n == 0x2028 || n == 0x2029

/-- `s.splitlines()` -/
def splitlinesGo : Str → Str → List Str
  | [], cur => if cur.isEmpty then [] else [cur.reverse]
  | '\r' :: '\n' :: cs, cur => cur.reverse :: splitlinesGo cs []
  | c :: cs, cur => if isLineBreak c then cur.reverse :: splitlinesGo cs [] else splitlinesGo cs (c :: cur)

def splitlines (s : Str) : List Str := splitlinesGo s []

/-- text-mode `file.readlines()` with universal newlines: `\r\n` and `\r` are translated to `\n`,
lines are cut after each `\n` and keep it -/
def readlinesGo : Str → Str → List Str
  | [], cur => if cur.isEmpty then [] else [cur.reverse]
  | '\r' :: '\n' :: cs, cur => ('\n' :: cur).reverse :: readlinesGo cs []
  | c :: cs, cur =>
    if c == '\n' || c == '\r' then ('\n' :: cur).reverse :: readlinesGo cs []
    else readlinesGo cs (c :: cur)

def readlines (s : Str) : List Str := readlinesGo s []

def join (sep : Str) (parts : List Str) : Str := List.intercalate sep parts

end PrefVerif.Py
