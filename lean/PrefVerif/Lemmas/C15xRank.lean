import PrefVerif.Props.C15
import PrefVerif.Props.C03Complete
import PrefVerif.Props.C04Complete
/-!
# C15x helper lemmas, part 1: the well-formedness hypotheses transfer along relabelling and along
permutations of the ballot list; Boolean forms of the exactness theorems of C03c / C04c.
-/
namespace PrefVerif.C15x
open PrefVerif PrefVerif.Spec PrefVerif.C15

variable {σ : Nat → Nat}

theorem map_inj_list (hσ : Inj σ) : ∀ (a b : List Nat), a.map σ = b.map σ → a = b
  | [], [], _ => rfl
  | [], _ :: _, h => by simp at h
  | _ :: _, [], h => by simp at h
  | x :: a, y :: b, h => by
    simp only [List.map_cons, List.cons.injEq] at h
    rw [hσ x y h.1, map_inj_list hσ a b h.2]

theorem nodup_map_inj (hσ : Inj σ) {l : List Nat} (h : l.Nodup) : (l.map σ).Nodup := by
  induction l with
  | nil => simp
  | cons x l ih =>
    rw [List.nodup_cons] at h
    rw [List.map_cons, List.nodup_cons]
    exact ⟨fun hm => h.1 ((mem_map_inj hσ l x).1 hm), ih h.2⟩

theorem nodup_map_map_inj (hσ : Inj σ) {l : List (List Nat)} (h : l.Nodup) :
    (l.map (fun o => o.map σ)).Nodup := by
  induction l with
  | nil => simp
  | cons x l ih =>
    rw [List.nodup_cons] at h
    rw [List.map_cons, List.nodup_cons]
    refine ⟨fun hm => h.1 ?_, ih h.2⟩
    obtain ⟨y, hy, hxy⟩ := List.mem_map.1 hm
    rw [← map_inj_list hσ _ _ hxy]; exact hy

theorem mem_map_iff_of_inj {o alts : List Nat} (h : ∀ a, a ∈ o ↔ a ∈ alts) :
    ∀ a, a ∈ o.map σ ↔ a ∈ alts.map σ := by
  intro a
  simp only [List.mem_map]
  constructor
  · rintro ⟨x, hx, rfl⟩; exact ⟨x, (h x).1 hx, rfl⟩
  · rintro ⟨x, hx, rfl⟩; exact ⟨x, (h x).2 hx, rfl⟩

theorem rankings03_relabel (hσ : Inj σ) {alts : List Nat} {orders : List (List Nat)}
    (hr : C03.Rankings alts orders) : C03.Rankings (alts.map σ) (orders.map (·.map σ)) := by
  refine ⟨nodup_map_inj hσ hr.1, ?_⟩
  intro o ho
  obtain ⟨o', ho', rfl⟩ := List.mem_map.1 ho
  exact ⟨nodup_map_inj hσ (hr.2 o' ho').1, mem_map_iff_of_inj (hr.2 o' ho').2⟩

theorem rankings03_perm {alts : List Nat} {orders orders' : List (List Nat)}
    (hr : C03.Rankings alts orders) (hp : orders.Perm orders') : C03.Rankings alts orders' :=
  ⟨hr.1, fun o ho => hr.2 o (hp.mem_iff.2 ho)⟩

theorem rankings04_relabel (hσ : Inj σ) {alts : List Nat} {orders : List (List Nat)}
    (hr : C04.Rankings alts orders) : C04.Rankings (alts.map σ) (orders.map (·.map σ)) := by
  refine ⟨nodup_map_inj hσ hr.1, ?_⟩
  intro o ho
  obtain ⟨o', ho', rfl⟩ := List.mem_map.1 ho
  obtain ⟨h1, h2, h3⟩ := hr.2 o' ho'
  exact ⟨nodup_map_inj hσ h1, nodup_map_inj hσ h2, mem_map_iff_of_inj h3⟩

theorem rankings04_perm {alts : List Nat} {orders orders' : List (List Nat)}
    (hr : C04.Rankings alts orders) (hp : orders.Perm orders') : C04.Rankings alts orders' :=
  ⟨hr.1, fun o ho => hr.2 o (hp.mem_iff.2 ho)⟩

theorem wrap_map (o : List Nat) : ELO.wrap (o.map σ) = relabelOrder σ (ELO.wrap o) := by
  simp [ELO.wrap, relabelOrder, List.map_map, Function.comp_def]

theorem map_wrap_relabel (orders : List (List Nat)) :
    (orders.map (·.map σ)).map ELO.wrap = (orders.map ELO.wrap).map (relabelOrder σ) := by
  simp only [List.map_map]
  apply List.map_congr_left
  intro o _
  exact wrap_map o

/-- Boolean form of `C04c.isSC_iff` -/
theorem isSC_eq_bruteSC (alts : List Nat) (orders : List (List Nat)) (h : C04.Rankings alts orders)
    (hn : orders.Nodup) : (SingleCrossing.isSC orders alts.length).1 = bruteSC alts orders := by
  rw [Bool.eq_iff_iff]
  exact (C04c.isSC_iff alts orders h hn).trans (C04.bruteSC_iff alts orders).symm

end PrefVerif.C15x
