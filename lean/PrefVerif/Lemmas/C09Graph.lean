import PrefVerif.Model.MatchingIO
import PrefVerif.Lemmas.IOyAList
/-!
# C09 — `WeightedDiGraph`: successor function, `add_node`, `add_edge`

A graph is looked at through its node set (`keys nodeMapping`), its successor function `succs`
and its weight lookup.  `addNode` changes only the node set; `addEdge a b w` adds `a`, `b` to the
node set, `b` to `succs a`, and sets the weight of `(a, b)`.
-/
namespace PrefVerif.C09
open PrefVerif PrefVerif.Py PrefVerif.MatchingIO PrefVerif.IOL

variable {W : Type}

/-- the graph invariant (same text as `wfGraph` in `Props/C09.lean`) -/
def WfG (g : Graph W) : Prop :=
  (AList.keys g.nodeMapping).Nodup ∧
  (∀ kv ∈ g.nodeMapping, kv.2.Nodup ∧ ∀ b ∈ kv.2, b ∈ AList.keys g.nodeMapping) ∧
  (AList.keys g.weights).Nodup ∧
  (∀ a b, (a, b) ∈ AList.keys g.weights ↔ ∃ succ, (a, succ) ∈ g.nodeMapping ∧ b ∈ succ)

/-- successor list of a node (empty for a non-node) -/
def succs (g : Graph W) (n : Nat) : List Nat := (g.nodeMapping.get? n).getD []

theorem mem_succs_iff (g : Graph W) (h : (AList.keys g.nodeMapping).Nodup) (a b : Nat) :
    b ∈ succs g a ↔ ∃ succ, (a, succ) ∈ g.nodeMapping ∧ b ∈ succ := by
  simp only [succs]
  constructor
  · intro hb
    cases hg : g.nodeMapping.get? a with
    | none => rw [hg] at hb; simp at hb
    | some sc => rw [hg] at hb; exact ⟨sc, (mem_iff_get? _ h a sc).2 hg, hb⟩
  · rintro ⟨sc, hm, hb⟩
    rw [(mem_iff_get? _ h a sc).1 hm]; exact hb

theorem succs_of_mem (g : Graph W) (h : (AList.keys g.nodeMapping).Nodup) {kv : Nat × List Nat}
    (hm : kv ∈ g.nodeMapping) : succs g kv.1 = kv.2 := by
  simp only [succs, (mem_iff_get? _ h kv.1 kv.2).1 hm, Option.getD_some]

theorem mem_nodes_of_mem_succs (g : Graph W) {a b : Nat} (h : b ∈ succs g a) : a ∈ g.nodes := by
  simp only [succs] at h
  cases hg : g.nodeMapping.get? a with
  | none => rw [hg] at h; simp at h
  | some sc => exact mem_keys_of_get? hg

/-- the invariant in terms of the successor function -/
theorem wfG_iff (g : Graph W) : WfG g ↔
    (AList.keys g.nodeMapping).Nodup ∧ (∀ a, (succs g a).Nodup) ∧
    (∀ a b, b ∈ succs g a → b ∈ g.nodes) ∧ (AList.keys g.weights).Nodup ∧
    (∀ a b, (a, b) ∈ AList.keys g.weights ↔ b ∈ succs g a) := by
  constructor
  · rintro ⟨h1, h2, h3, h4⟩
    refine ⟨h1, ?_, ?_, h3, fun a b => by rw [h4, mem_succs_iff g h1]⟩
    · intro a
      simp only [succs]
      cases hg : g.nodeMapping.get? a with
      | none => simp
      | some sc => exact (h2 (a, sc) ((mem_iff_get? _ h1 a sc).2 hg)).1
    · intro a b hb
      obtain ⟨sc, hm, hb⟩ := (mem_succs_iff g h1 a b).1 hb
      exact (h2 (a, sc) hm).2 b hb
  · rintro ⟨h1, h2, h3, h4, h5⟩
    refine ⟨h1, ?_, h4, fun a b => by rw [h5, mem_succs_iff g h1]⟩
    intro kv hkv
    have e := succs_of_mem g h1 hkv
    refine ⟨e ▸ h2 kv.1, fun b hb => h3 kv.1 b (e ▸ hb)⟩

/-! ## edges -/

theorem mem_edges_raw (g : Graph W) (e : Nat × Nat × Option W) :
    e ∈ g.edges ↔ ∃ sc, (e.1, sc) ∈ g.nodeMapping ∧ e.2.1 ∈ sc ∧ e.2.2 = g.weights.get? (e.1, e.2.1) := by
  obtain ⟨a, b, ow⟩ := e
  simp only [Graph.edges, List.mem_flatMap, List.mem_map, Prod.mk.injEq]
  constructor
  · rintro ⟨kv, hkv, b', hb', rfl, rfl, rfl⟩
    exact ⟨kv.2, hkv, hb', rfl⟩
  · rintro ⟨sc, hm, hb, rfl⟩
    exact ⟨(a, sc), hm, b, hb, rfl, rfl, rfl⟩

theorem mem_edges_iff (g : Graph W) (h : (AList.keys g.nodeMapping).Nodup) (e : Nat × Nat × Option W) :
    e ∈ g.edges ↔ e.2.1 ∈ succs g e.1 ∧ e.2.2 = g.weights.get? (e.1, e.2.1) := by
  rw [mem_edges_raw, mem_succs_iff g h]
  constructor
  · rintro ⟨sc, h1, h2, h3⟩; exact ⟨⟨sc, h1, h2⟩, h3⟩
  · rintro ⟨⟨sc, h1, h2⟩, h3⟩; exact ⟨sc, h1, h2, h3⟩

/-- `num_edges` as recomputed by the parser is the number of edges -/
theorem sum_lengths_eq (g : Graph W) :
    ((AList.values g.nodeMapping).map List.length).sum = g.edges.length := by
  simp only [Graph.edges, AList.values]
  induction g.nodeMapping with
  | nil => rfl
  | cons kv m ih =>
    simp only [List.map_cons, List.sum_cons, List.flatMap_cons, List.length_append, List.length_map, ih]

theorem nodup_edges (g : Graph W) (h : WfG g) : g.edges.Nodup := by
  obtain ⟨h1, h2, _, _⟩ := h
  simp only [Graph.edges, List.Nodup, List.pairwise_flatMap]
  constructor
  · intro kv hkv
    rw [List.pairwise_map]
    exact (h2 kv hkv).1.imp (fun hne he => hne (by simp at he; exact he.1))
  · have : g.nodeMapping.Pairwise (fun p q => p.1 ≠ q.1) := by
      simpa [AList.keys, List.Nodup, List.pairwise_map] using h1
    refine this.imp ?_
    intro p q hpq x hx y hy hxy
    obtain ⟨b, _, rfl⟩ := List.mem_map.1 hx
    obtain ⟨c, _, hc⟩ := List.mem_map.1 hy
    rw [← hc] at hxy
    exact hpq (by simpa using congrArg Prod.fst hxy)

/-! ## `addNode` -/

theorem nodeMapping_addNode (g : Graph W) (n : Nat) :
    (g.addNode n).nodeMapping
      = if n ∈ AList.keys g.nodeMapping then g.nodeMapping else AList.set g.nodeMapping n [] := by
  simp only [Graph.addNode]
  by_cases h : n ∈ AList.keys g.nodeMapping
  · simp [h, (contains_iff_mem_keys g.nodeMapping n).2 h]
  · have : AList.contains g.nodeMapping n = false := by
      cases hc : AList.contains g.nodeMapping n with
      | false => rfl
      | true => exact absurd ((contains_iff_mem_keys _ _).1 hc) h
    simp [h, this]

theorem weights_addNode (g : Graph W) (n : Nat) : (g.addNode n).weights = g.weights := by
  simp only [Graph.addNode]; split <;> rfl

theorem mem_nodes_addNode (g : Graph W) (n x : Nat) : x ∈ (g.addNode n).nodes ↔ x = n ∨ x ∈ g.nodes := by
  simp only [Graph.nodes, nodeMapping_addNode]
  split
  · rename_i h
    constructor
    · exact Or.inr
    · rintro (rfl | h')
      · exact h
      · exact h'
  · exact mem_keys_set _ _ _ _

theorem nodup_nodes_addNode (g : Graph W) (n : Nat) (h : (AList.keys g.nodeMapping).Nodup) :
    (AList.keys (g.addNode n).nodeMapping).Nodup := by
  rw [nodeMapping_addNode]
  split
  · exact h
  · exact nodup_keys_set _ _ _ h

theorem succs_addNode (g : Graph W) (n x : Nat) : succs (g.addNode n) x = succs g x := by
  simp only [succs, nodeMapping_addNode]
  split
  · rfl
  · rename_i h
    by_cases hx : x = n
    · subst hx
      rw [get?_set_same, get?_eq_none_of_not_mem _ _ h]; rfl
    · rw [get?_set_other _ _ _ _ hx]

/-! ## `addEdge` -/

/-- the two `add_node` calls of `add_edge` -/
abbrev add2 (g : Graph W) (a b : Nat) : Graph W := (g.addNode a).addNode b

theorem addEdge_eq (g : Graph W) (a b : Nat) (w : W) :
    g.addEdge a b w =
      { nodeMapping := AList.set (add2 g a b).nodeMapping a
          (if (succs g a).contains b then succs g a else succs g a ++ [b]),
        weights := AList.set g.weights (a, b) w } := by
  have hs : succs (add2 g a b) a = succs g a := by rw [succs_addNode, succs_addNode]
  simp only [succs] at hs
  simp only [Graph.addEdge, weights_addNode, hs, succs]
  rfl

theorem mem_nodes_addEdge (g : Graph W) (a b : Nat) (w : W) (x : Nat) :
    x ∈ (g.addEdge a b w).nodes ↔ x = a ∨ x = b ∨ x ∈ g.nodes := by
  have h1 := mem_nodes_addNode (g.addNode a) b x
  have h2 := mem_nodes_addNode g a x
  simp only [Graph.nodes] at h1 h2
  rw [addEdge_eq]
  simp only [Graph.nodes, mem_keys_set, h1, h2]
  constructor
  · rintro (h | h | h | h)
    · exact Or.inl h
    · exact Or.inr (Or.inl h)
    · exact Or.inl h
    · exact Or.inr (Or.inr h)
  · rintro (h | h | h)
    · exact Or.inl h
    · exact Or.inr (Or.inl h)
    · exact Or.inr (Or.inr (Or.inr h))

theorem nodup_nodes_addEdge (g : Graph W) (a b : Nat) (w : W) (h : (AList.keys g.nodeMapping).Nodup) :
    (AList.keys (g.addEdge a b w).nodeMapping).Nodup := by
  rw [addEdge_eq]
  exact nodup_keys_set _ _ _ (nodup_nodes_addNode _ _ (nodup_nodes_addNode _ _ h))

theorem succs_addEdge (g : Graph W) (a b : Nat) (w : W) (x : Nat) :
    succs (g.addEdge a b w) x
      = if x = a then (if (succs g a).contains b then succs g a else succs g a ++ [b]) else succs g x := by
  rw [addEdge_eq]
  simp only [succs]
  by_cases hx : x = a
  · subst hx; rw [get?_set_same]; simp
  · rw [get?_set_other _ _ _ _ hx]
    have e : succs (add2 g a b) x = succs g x := by rw [succs_addNode, succs_addNode]
    simp only [succs] at e
    simp [hx, e]

theorem mem_succs_addEdge (g : Graph W) (a b : Nat) (w : W) (x y : Nat) :
    y ∈ succs (g.addEdge a b w) x ↔ y ∈ succs g x ∨ (x = a ∧ y = b) := by
  rw [succs_addEdge]
  by_cases hx : x = a
  · subst hx
    simp only [if_true, true_and]
    split
    · rename_i hc
      have hb : b ∈ succs g x := by simpa using hc
      constructor
      · exact Or.inl
      · rintro (h | rfl)
        · exact h
        · exact hb
    · simp
  · simp [hx]

theorem nodup_succs_addEdge (g : Graph W) (a b : Nat) (w : W) (h : ∀ x, (succs g x).Nodup) (x : Nat) :
    (succs (g.addEdge a b w) x).Nodup := by
  rw [succs_addEdge]
  split
  · split
    · exact h a
    · rename_i hc
      have hb : b ∉ succs g a := by simpa using hc
      rw [List.nodup_append]
      refine ⟨h a, by simp, ?_⟩
      intro y hy z hz
      simp only [List.mem_singleton] at hz
      subst hz
      intro e; subst e; exact hb hy
  · exact h x

theorem weights_addEdge (g : Graph W) (a b : Nat) (w : W) :
    (g.addEdge a b w).weights = AList.set g.weights (a, b) w := by
  rw [addEdge_eq]

theorem get?_weights_addEdge (g : Graph W) (a b : Nat) (w : W) (x y : Nat) :
    (g.addEdge a b w).weights.get? (x, y)
      = if x = a ∧ y = b then some w else g.weights.get? (x, y) := by
  rw [weights_addEdge]
  by_cases h : x = a ∧ y = b
  · obtain ⟨rfl, rfl⟩ := h
    rw [get?_set_same]; simp
  · rw [get?_set_other _ _ _ _ (by intro e; cases e; exact h ⟨rfl, rfl⟩)]
    simp [h]

/-- `add_edge` keeps the invariant -/
theorem wfG_addEdge (g : Graph W) (a b : Nat) (w : W) (h : WfG g) : WfG (g.addEdge a b w) := by
  obtain ⟨h1, h2, h3, h4, h5⟩ := (wfG_iff g).1 h
  refine (wfG_iff _).2 ⟨nodup_nodes_addEdge g a b w h1, nodup_succs_addEdge g a b w h2, ?_, ?_, ?_⟩
  · intro x y hy
    rw [mem_nodes_addEdge]
    rcases (mem_succs_addEdge g a b w x y).1 hy with hy | ⟨_, rfl⟩
    · exact Or.inr (Or.inr (h3 x y hy))
    · exact Or.inr (Or.inl rfl)
  · rw [weights_addEdge]; exact nodup_keys_set _ _ _ h4
  · intro x y
    rw [weights_addEdge, mem_keys_set, mem_succs_addEdge, h5]
    constructor
    · rintro (e | e)
      · cases e; exact Or.inr ⟨rfl, rfl⟩
      · exact Or.inl e
    · rintro (e | ⟨rfl, rfl⟩)
      · exact Or.inr e
      · exact Or.inl rfl

/-- the edge set after `add_edge`: the new edge replaces any old edge between the same nodes -/
theorem mem_edges_addEdge (g : Graph W) (a b : Nat) (w : W) (h : (AList.keys g.nodeMapping).Nodup)
    (e : Nat × Nat × Option W) :
    e ∈ (g.addEdge a b w).edges ↔ (e = (a, b, some w) ∨ (e ∈ g.edges ∧ ¬(e.1 = a ∧ e.2.1 = b))) := by
  rw [mem_edges_iff _ (nodup_nodes_addEdge g a b w h), mem_edges_iff g h, mem_succs_addEdge,
    get?_weights_addEdge]
  obtain ⟨x, y, ow⟩ := e
  by_cases hxy : x = a ∧ y = b
  · obtain ⟨rfl, rfl⟩ := hxy
    simp
  · simp only [hxy, or_false, if_false, not_false_eq_true, and_true, Prod.mk.injEq]
    constructor
    · exact Or.inr
    · rintro (⟨rfl, rfl, _⟩ | h')
      · exact absurd ⟨rfl, rfl⟩ hxy
      · exact h'

end PrefVerif.C09
