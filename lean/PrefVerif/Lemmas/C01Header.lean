import PrefVerif.Lemmas.C01Ballot
import PrefVerif.Lemmas.C01Sort
/-!
# C01 — the written file as a list of lines, and the header loop on it
-/
namespace PrefVerif.C01
open PrefVerif PrefVerif.Py PrefVerif.InstanceIO PrefVerif.OrdinalIO PrefVerif.Spec.IO PrefVerif.IOL

def numUniqueKey : Str := s "# NUMBER UNIQUE ORDERS:"

/-- the three numeric lines of an ordinal file -/
def numLines (i : OrdInst) : List Str :=
  [numLine numAltKey i.header.numAlternatives, numLine numVotersKey i.header.numVoters,
   numLine numUniqueKey i.numUniqueOrders]

/-- header lines of the written file -/
def hdrLines (i : OrdInst) : List Str :=
  metaLines i.header ++ numLines i ++ i.header.altNames.map (numberedLine altPfx)

/-- ballot lines of the written file -/
def ballotLines (i : OrdInst) : List Str :=
  (sorted i).map (fun o => ballotText ((i.multiplicity.get? o).getD 0) o)

theorem write_eq (i : OrdInst) : write i = unlines (hdrLines i ++ ballotLines i) := by
  have hb : ((stableSort (keyLe i.multiplicity) i.orders).map (fun o =>
          natToStr ((i.multiplicity.get? o).getD 0) ++ s ": " ++ renderOrder o ++ s "\n")).flatten
      = unlines (ballotLines i) := by
    simp [unlines, ballotLines, ballotText, s, Function.comp_def]
  have hn : s "# NUMBER ALTERNATIVES: " ++ natToStr i.header.numAlternatives
      ++ s "\n# NUMBER VOTERS: " ++ natToStr i.header.numVoters
      ++ s "\n# NUMBER UNIQUE ORDERS: " ++ natToStr i.numUniqueOrders ++ s "\n" = unlines (numLines i) := by
    simp [unlines, numLines, numLine, numAltKey, numVotersKey, numUniqueKey, s]
  simp only [write, hb, writeMetadata_eq, writeAltNames_eq, hdrLines, unlines_append, ← hn]
  simp only [List.append_assoc]

theorem lineOK_numLines (i : OrdInst) : ∀ l ∈ numLines i, LineOK l := by
  intro l hl
  simp only [numLines, List.mem_cons, List.not_mem_nil, or_false] at hl
  rcases hl with rfl | rfl | rfl <;> exact lineOK_numLine (lineOK_of_all (by decide)) _

theorem lineOK_lines (i : OrdInst) (h : wfHeader i.header = true) :
    ∀ l ∈ hdrLines i ++ ballotLines i, LineOK l := by
  intro l hl
  simp only [hdrLines, List.mem_append] at hl
  rcases hl with ((hl | hl) | hl) | hl
  · exact lineOK_metaLines h l hl
  · exact lineOK_numLines i l hl
  · exact lineOK_altLines h l hl
  · obtain ⟨o, _, rfl⟩ := List.mem_map.1 hl
    exact lineOK_ballotText _ o

/-! ## the stripped header lines -/

/-- `hdrLines` as the header loop sees them -/
def hdrPl (i : OrdInst) : List Str :=
  Field.all.map (fun f => f.key ++ padded (f.get i.header))
    ++ [numAltKey ++ ' ' :: natToStr i.header.numAlternatives,
        numVotersKey ++ ' ' :: natToStr i.header.numVoters,
        numUniqueKey ++ ' ' :: natToStr i.numUniqueOrders]
    ++ i.header.altNames.map (fun kv => altPfx ++ natToStr kv.1 ++ ':' :: padded kv.2)

theorem strip_of_clean {t : Str} (h : cleanText t = true) : strip t = t := ((cleanText_iff t).1 h).2

theorem pl_hdrLines (i : OrdInst) (h : wfHeader i.header = true) : (hdrLines i).map pl = hdrPl i := by
  obtain ⟨hf, _, hv⟩ := (wfHeader_iff _).1 h
  have h1 := pl_numLine (s " NUMBER ALTERNATIVES") i.header.numAlternatives
  have h2 := pl_numLine (s " NUMBER VOTERS") i.header.numVoters
  have h3 := pl_numLine (s " NUMBER UNIQUE ORDERS") i.numUniqueOrders
  simp only [hdrLines, hdrPl, List.map_append, pl_metaLines _ (fun f => strip_of_clean (hf f)),
    pl_altLines _ (fun kv hkv => strip_of_clean (hv kv hkv)), numLines, List.map_cons, List.map_nil]
  congr 2
  rw [show numAltKey = '#' :: s " NUMBER ALTERNATIVES" ++ [':'] by decide,
      show numVotersKey = '#' :: s " NUMBER VOTERS" ++ [':'] by decide,
      show numUniqueKey = '#' :: s " NUMBER UNIQUE ORDERS" ++ [':'] by decide, h1, h2, h3]

theorem hdrPl_hash (i : OrdInst) : ∀ l ∈ hdrPl i, startsWith l ['#'] = true := by
  intro l hl
  simp only [hdrPl, List.mem_append, List.mem_map, List.mem_cons, List.not_mem_nil, or_false] at hl
  rcases hl with (⟨f, _, rfl⟩ | rfl | rfl | rfl) | ⟨kv, _, rfl⟩
  · exact startsWith_hash_cons _
  · exact startsWith_hash_cons _
  · exact startsWith_hash_cons _
  · exact startsWith_hash_cons _
  · exact startsWith_hash_cons _

end PrefVerif.C01
