import PrefVerif.Lemmas.C09Header
import PrefVerif.Lemmas.IOJoin
import PrefVerif.Lemmas.IOReader
/-!
# C09 — one written edge line, as the parser and as the independent reader see it
-/
namespace PrefVerif.C09
open PrefVerif PrefVerif.Py PrefVerif.InstanceIO PrefVerif.MatchingIO PrefVerif.Spec.IO PrefVerif.IOL

variable {W : Type}

/-- the contract of `repr` / `float` (same fields as `FloatOK` in `Props/C09.lean`) -/
structure FloatSpec (showW : W → Str) (readW : Str → Option W) : Prop where
  read_show : ∀ w, readW (showW w) = some w
  clean : ∀ w, ∀ c ∈ showW w, c ≠ ',' ∧ isSpace c = false ∧ isLineBreak c = false
  nonempty : ∀ w, showW w ≠ []

/-- text without whitespace at either end is left alone by `strip` -/
theorem strip_of_edged {l : Str} (h : Edged isSpace l) : strip l = l := by
  obtain ⟨_, h1, h2⟩ := h
  have hl : lstrip l = l := dropWhile_eq_self h1
  have hr : l.reverse.dropWhile isSpace = l.reverse :=
    dropWhile_eq_self (fun c hc => h2 c (by simpa using hc))
  simp [strip, hl, rstrip, hr]

theorem natToStr_edged (n : Nat) : Edged isSpace (natToStr n) :=
  edged_of_all (natToStr_ne_nil n) (fun _ hc => natToStr_no_space hc)

theorem edgeText_some (showW : W → Str) (a b : Nat) (w : W) :
    edgeText showW (a, b, some w) = natToStr a ++ ',' :: ' ' :: natToStr b ++ ',' :: ' ' :: showW w := rfl

theorem filter_natToStr (n : Nat) : (natToStr n).filter (fun c => c != ' ') = natToStr n := by
  apply List.filter_eq_self.2
  intro c hc
  simpa using natToStr_ne hc (d := ' ') (by decide)

theorem natToStr_no_comma (n : Nat) : ∀ c ∈ natToStr n, c ≠ ',' :=
  fun _ hc => natToStr_ne hc (by decide)

section
variable {showW : W → Str} {readW : Str → Option W} (hf : FloatSpec showW readW)
include hf

theorem showW_edged (w : W) : Edged isSpace (showW w) :=
  edged_of_all (hf.nonempty w) (fun c hc => (hf.clean w c hc).2.1)

theorem showW_ne_space (w : W) : ∀ c ∈ showW w, c ≠ ' ' := by
  intro c hc e; subst e
  exact absurd (hf.clean w _ hc).2.1 (by decide)

theorem strip_edgeText (a b : Nat) (w : W) :
    strip (edgeText showW (a, b, some w) ++ ['\n']) = edgeText showW (a, b, some w) := by
  rw [strip_snoc_newline]
  apply strip_of_edged
  have := Edged.append (natToStr_edged a) (showW_edged hf w) (',' :: ' ' :: natToStr b ++ [',', ' '])
  rw [edgeText_some]
  simpa using this

theorem filter_showW (w : W) : (showW w).filter (fun c => c != ' ') = showW w := by
  apply List.filter_eq_self.2
  intro c hc
  simpa using showW_ne_space hf w c hc

theorem removeSpaces_edgeText (a b : Nat) (w : W) :
    removeSpaces (edgeText showW (a, b, some w)) = natToStr a ++ ',' :: (natToStr b ++ ',' :: showW w) := by
  have e : edgeText showW (a, b, some w)
      = natToStr a ++ ([',', ' '] ++ (natToStr b ++ ([',', ' '] ++ showW w))) := by
    rw [edgeText_some]; simp
  rw [e]
  have hc : [',', ' '].filter (fun c => c != ' ') = [','] := by decide
  simp only [removeSpaces, List.filter_append, filter_natToStr, filter_showW hf, hc]
  rfl

/-- **the parser on a written edge line** -/
theorem edgeLine_written (i : MatchInst W) (a b : Nat) (w : W) :
    edgeLine readW i (edgeText showW (a, b, some w) ++ ['\n'])
      = .ok { i with graph := i.graph.addEdge a b w } := by
  have hsplit : splitOn ',' (natToStr a ++ ',' :: (natToStr b ++ ',' :: showW w))
      = [natToStr a, natToStr b, showW w] := by
    rw [splitOn_append_sep _ _ (natToStr_no_comma a), splitOn_append_sep _ _ (natToStr_no_comma b),
      splitOn_no_sep (fun c hc => (hf.clean w c hc).1)]
  have ha : intField (natToStr a) = .ok a := by simp [intField, toNat?_natToStr]
  have hb : intField (natToStr b) = .ok b := by simp [intField, toNat?_natToStr]
  simp only [edgeLine, strip_edgeText hf, removeSpaces_edgeText hf, hsplit, ha, hb, hf.read_show]
  rfl

/-- **the independent reader on a written edge line** -/
theorem reader_edgeText (a b : Nat) (w : W) :
    Spec.Format.edgeLine (edgeText showW (a, b, some w)) = some (a, b, showW w) := by
  have hsp : ∀ c ∈ ' ' :: natToStr b, c ≠ ',' := by
    intro c hc
    rcases List.mem_cons.1 hc with rfl | hc
    · decide
    · exact natToStr_no_comma b c hc
  have hsw : ∀ c ∈ ' ' :: showW w, c ≠ ',' := by
    intro c hc
    rcases List.mem_cons.1 hc with rfl | hc
    · decide
    · exact (hf.clean w c hc).1
  have hsplit : splitOn ',' (edgeText showW (a, b, some w))
      = [natToStr a, ' ' :: natToStr b, ' ' :: showW w] := by
    have e : edgeText showW (a, b, some w)
        = natToStr a ++ ',' :: ((' ' :: natToStr b) ++ ',' :: (' ' :: showW w)) := by
      rw [edgeText_some]; simp
    rw [e, splitOn_append_sep _ _ (natToStr_no_comma a), splitOn_append_sep _ _ hsp, splitOn_no_sep hsw]
  have f1 : (' ' :: natToStr b).filter (fun c => c != ' ') = natToStr b := by
    rw [List.filter_cons_of_neg (by decide), filter_natToStr]
  have f2 : (' ' :: showW w).filter (fun c => c != ' ') = showW w := by
    rw [List.filter_cons_of_neg (by decide), filter_showW hf]
  simp only [Spec.Format.edgeLine, hsplit, List.map_cons, List.map_nil, filter_natToStr, f1, f2,
    digitsToNat?_natToStr]

theorem lineOK_edgeText (a b : Nat) (w : W) : LineOK (edgeText showW (a, b, some w)) := by
  rw [edgeText_some]
  refine LineOK.append ?_ (LineOK.cons (c := ',') (by decide) (LineOK.cons (c := ' ') (by decide) ?_))
  · exact (lineOK_natToStr a).append
      (LineOK.cons (c := ',') (by decide) (LineOK.cons (c := ' ') (by decide) (lineOK_natToStr b)))
  · exact fun c hc => (hf.clean w c hc).2.2

end

theorem edgeText_not_hash (showW : W → Str) (e : Nat × Nat × Option W) :
    ['#'].isPrefixOf (edgeText showW e) = false := by
  cases hn : natToStr e.1 with
  | nil => exact absurd hn (natToStr_ne_nil _)
  | cons c v =>
    have hc : c.isDigit = true := natToStr_isDigit (n := e.1) (by simp [hn])
    have hb : ('#' == c) = false := by
      cases hh : '#' == c with
      | false => rfl
      | true => have := eq_of_beq hh; subst this; exact absurd hc (by decide)
    simp [edgeText, hn, List.isPrefixOf, hb]

theorem edgeText_ne_nil (showW : W → Str) (e : Nat × Nat × Option W) : edgeText showW e ≠ [] := by
  simp [edgeText, natToStr_ne_nil]

end PrefVerif.C09
