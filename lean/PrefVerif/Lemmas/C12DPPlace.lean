import PrefVerif.Model.KAltDeletion
/-!
What `place` does to the set of alternatives on an incomplete axis: either nothing (early `return axis, False`)
or the new alternatives are added.
-/
namespace PrefVerif.C12DP
open PrefVerif.KAlt

/-- the alternatives placed on an incomplete axis -/
def members (A : Axis) : List Nat := A.filterMap id

theorem members_append (A B : Axis) : members (A ++ B) = members A ++ members B := by
  simp [members, List.filterMap_append]

theorem members_erase_none (A : Axis) : members (A.erase none) = members A := by
  induction A with
  | nil => rfl
  | cons h t ih =>
    cases h with
    | none => simp [members]
    | some a =>
      rw [List.erase_cons_tail (by simp)]
      simp [members] at ih ⊢
      exact ih

theorem members_insert (A : Axis) (i x : Nat) :
    (members (A.take i ++ [some x] ++ A.drop i)).Perm (x :: members A) := by
  have h : (A.take i ++ [some x] ++ A.drop i).Perm (some x :: A) := by
    have := @List.perm_middle _ (some x) (A.take i) (A.drop i)
    simpa using this
  exact h.filterMap id

theorem members_split (A : Axis) :
    members (A.take (A.idxOf none)) ++ members (A.drop (A.idxOf none + 1)) = members A := by
  induction A with
  | nil => rfl
  | cons h t ih =>
    cases h with
    | none => simp [members]
    | some a =>
      have : (some a :: t).idxOf none = t.idxOf none + 1 := by
        simp [List.idxOf_cons]
      rw [this]
      simp only [List.take_succ_cons, List.drop_succ_cons]
      simp only [members, List.filterMap_cons, id] at ih ⊢
      simp [ih]

theorem case3_cases (A : Axis) (x : Nat) (votes : List (List Nat)) :
    case3 A x votes = (A, false) ∨ (members (case3 A x votes).1).Perm (x :: members A) := by
  unfold case3
  dsimp only
  split
  · exact Or.inl rfl
  · exact Or.inr (members_insert A _ x)

theorem case2_cases (A : Axis) (x1 x2 : Nat) (votes : List (List Nat)) :
    case2 A x1 x2 votes = (A, false) ∨
      ((case2 A x1 x2 votes).2 = true ∧ (members (case2 A x1 x2 votes).1).Perm (x1 :: x2 :: members A)) := by
  unfold case2
  dsimp only
  split
  · exact Or.inl rfl
  · refine Or.inr ?_
    have hs := members_split A
    split
    · refine ⟨rfl, ?_⟩
      simp only [members_append]
      rw [← hs]
      simp only [members, List.filterMap_cons, id, List.filterMap_nil]
      simp only [List.append_assoc, List.cons_append, List.nil_append]
      refine List.perm_middle.trans ?_
      refine (List.Perm.cons x2 List.perm_middle).trans ?_
      exact List.Perm.swap x1 x2 _
    · refine ⟨rfl, ?_⟩
      simp only [members_append]
      rw [← hs]
      simp only [members, List.filterMap_cons, id, List.filterMap_nil]
      simp only [List.append_assoc, List.cons_append, List.nil_append]
      refine List.perm_middle.trans ?_
      exact List.Perm.cons x1 List.perm_middle

/-- `place` for `X = list(X)` of one or two alternatives -/
theorem place_cases (A : Axis) (X : List Nat) (votes : List (List Nat)) :
    place A X votes = (A, false) ∨ (X ≠ [] ∧ (members (place A X votes).1).Perm (X ++ members A)) := by
  unfold place
  split
  · rcases case3_cases A _ votes with h | h
    · exact Or.inl h
    · exact Or.inr ⟨by simp, h⟩
  · rcases case2_cases A _ _ votes with h | h
    · exact Or.inl h
    · exact Or.inr ⟨by simp, h.2⟩
  · exact Or.inl rfl

end PrefVerif.C12DP
