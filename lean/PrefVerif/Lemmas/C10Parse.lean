import PrefVerif.Model.EntryPoints
import PrefVerif.Lemmas.IOzStrip
/-!
# C10 — the parsers only look at stripped lines

`headerLoop` strips every line before looking at it, and every ballot / edge line is normalised by
`removeWs` (ordinal) or `removeSpaces ∘ strip` (categorical, matching).  Hence
`parse i lines = parse i (lines.map strip)` for the three classes, and two line lists with the same
stripped lines parse identically.
-/
namespace PrefVerif.C10
open PrefVerif PrefVerif.Py PrefVerif.InstanceIO PrefVerif.EntryPoints PrefVerif.IOL

/-! ## generic -/

theorem foldlM_map_congr {σ ε : Type} (f : σ → Str → Except ε σ) (g : Str → Str)
    (h : ∀ a l, f a (g l) = f a l) (ls : List Str) (a : σ) :
    (ls.map g).foldlM f a = ls.foldlM f a := by
  induction ls generalizing a with
  | nil => rfl
  | cons l ls ih =>
    simp only [List.map_cons, List.foldlM_cons, h]
    cases f a l with
    | error e => rfl
    | ok b => exact ih b

theorem headerLoop_map_strip {σ : Type} (step : σ → Str → Except Err σ) (st : σ) (ls : List Str)
    (i : Nat) : headerLoop step st (ls.map strip) i = headerLoop step st ls i := by
  induction ls generalizing st i with
  | nil => rfl
  | cons l ls ih =>
    simp only [List.map_cons, headerLoop, strip_idem]
    split
    · cases step st (strip l) with
      | error e => rfl
      | ok st' => exact ih st' (i + 1)
    · rfl

/-! ## one ballot / edge line -/

theorem ord_ballotLine_strip (ac : Bool) (i : OrdinalIO.OrdInst) (raw : Str) :
    OrdinalIO.ballotLine ac i (strip raw) = OrdinalIO.ballotLine ac i raw := by
  simp only [OrdinalIO.ballotLine, removeWs_strip]

theorem cat_ballotLine_strip (ac : Bool) (i : CategoricalIO.CatInst) (raw : Str) :
    CategoricalIO.ballotLine ac i (strip raw) = CategoricalIO.ballotLine ac i raw := by
  simp only [CategoricalIO.ballotLine, strip_idem]

theorem mat_edgeLine_strip {W : Type} (readW : Str → Option W) (i : MatchingIO.MatchInst W) (raw : Str) :
    MatchingIO.edgeLine readW i (strip raw) = MatchingIO.edgeLine readW i raw := by
  simp only [MatchingIO.edgeLine, strip_idem]

/-! ## the three `parse` methods -/

theorem ord_parse_map_strip (i0 : OrdinalIO.OrdInst) (ls : List Str) (ac ho : Bool) :
    OrdinalIO.parse i0 (ls.map strip) ac ho = OrdinalIO.parse i0 ls ac ho := by
  simp only [OrdinalIO.parse, headerLoop_map_strip, ← List.map_drop,
    foldlM_map_congr _ strip (ord_ballotLine_strip ac)]

theorem cat_parse_map_strip (i0 : CategoricalIO.CatInst) (ls : List Str) (ac ho : Bool) :
    CategoricalIO.parse i0 (ls.map strip) ac ho = CategoricalIO.parse i0 ls ac ho := by
  simp only [CategoricalIO.parse, headerLoop_map_strip, ← List.map_drop,
    foldlM_map_congr _ strip (cat_ballotLine_strip ac)]

theorem mat_parse_map_strip {W : Type} (readW : Str → Option W) (i0 : MatchingIO.MatchInst W)
    (ls : List Str) (ac ho : Bool) :
    MatchingIO.parse readW i0 (ls.map strip) ac ho = MatchingIO.parse readW i0 ls ac ho := by
  simp only [MatchingIO.parse, headerLoop_map_strip, ← List.map_drop,
    foldlM_map_congr _ strip (mat_edgeLine_strip readW)]

/-- `parse_lines` only looks at the stripped lines -/
theorem parseLines_map_strip {W : Type} (readW : Str → Option W) (cls : Cls) (i : AnyInst W)
    (ls : List Str) (ac ho : Bool) :
    parseLines readW cls i (ls.map strip) ac ho = parseLines readW cls i ls ac ho := by
  cases i <;>
    simp only [parseLines, ord_parse_map_strip, cat_parse_map_strip, mat_parse_map_strip]

/-- two line lists with the same stripped lines parse identically -/
theorem parseLines_congr_strip {W : Type} (readW : Str → Option W) (cls : Cls) (i : AnyInst W)
    (ls' ls : List Str) (h : ls'.map strip = ls.map strip) (ac ho : Bool) :
    parseLines readW cls i ls' ac ho = parseLines readW cls i ls ac ho := by
  rw [← parseLines_map_strip readW cls i ls', h, parseLines_map_strip]

/-- pairwise padded lines have the same stripped lines -/
theorem map_strip_eq_of_padded (ls' ls : List Str) (hlen : ls'.length = ls.length)
    (h : ∀ p ∈ ls'.zip ls, ∃ pre post : Str, (∀ c ∈ pre, isSpace c = true) ∧
      (∀ c ∈ post, isSpace c = true) ∧ p.1 = pre ++ p.2 ++ post) :
    ls'.map strip = ls.map strip := by
  induction ls' generalizing ls with
  | nil =>
    cases ls with
    | nil => rfl
    | cons l ls => simp at hlen
  | cons l' ls' ih =>
    cases ls with
    | nil => simp at hlen
    | cons l ls =>
      obtain ⟨pre, post, hpre, hpost, he⟩ := h (l', l) (by simp)
      simp only at he
      rw [List.map_cons, List.map_cons, he, strip_pad hpre hpost,
        ih ls (by simpa using hlen) (fun p hp => h p (by simp [hp]))]

end PrefVerif.C10
