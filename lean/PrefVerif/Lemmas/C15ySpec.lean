import PrefVerif.Props.C12Opt
import PrefVerif.Props.Specs
import PrefVerif.Props.C15x
/-!
# C15y helper lemmas: `minAltDeletion` is invariant under relabelling and storage order, and is the number
of alternatives deleted by the dynamic programme.
-/
namespace PrefVerif.C15y
open PrefVerif PrefVerif.Spec PrefVerif.Spec.Nearly PrefVerif.KAlt PrefVerif.C15

/-! ### transfer of the minimum along a correspondence of feasible sub-lists -/

/-- if every feasible sub-list of `alts` has a feasible counterpart of the same length among the sub-lists of
`alts'`, the minimum for `alts'` is at most the one for `alts` -/
theorem minAltDeletion_le_of (alts alts' : List Nat) (orders orders' : List Order)
    (hn : alts.Nodup) (hn' : alts'.Nodup) (hlen : alts'.length = alts.length)
    (h : ∀ keep, keep.Sublist alts → bruteSP keep (orders.map (restrictOrder keep)) = true →
      ∃ keep', keep'.Sublist alts' ∧ bruteSP keep' (orders'.map (restrictOrder keep')) = true ∧
        keep'.length = keep.length) :
    minAltDeletion alts' orders' ≤ minAltDeletion alts orders := by
  obtain ⟨keep, hs, hb, he⟩ := (Specs.minAltDeletion_spec alts hn orders).1
  obtain ⟨keep', hs', hb', hl'⟩ := h keep hs hb
  have := (Specs.minAltDeletion_spec alts' hn' orders').2 keep' hs' hb'
  omega

/-! ### relabelling -/

theorem restrictOrder_relabel (σ : Nat → Nat) (hσ : Inj σ) (keep : List Nat) (o : Order) :
    restrictOrder (keep.map σ) (relabelOrder σ o) = relabelOrder σ (restrictOrder keep o) := by
  unfold restrictOrder relabelOrder
  induction o with
  | nil => rfl
  | cons c o ih =>
    have hc : (c.map σ).filter (fun a => (keep.map σ).contains a) =
        (c.filter (fun a => keep.contains a)).map σ := by
      rw [List.filter_map]
      congr 1
      apply List.filter_congr
      intro a _
      exact contains_map_inj hσ keep a
    simp only [List.map_cons, List.filter_cons, hc, List.isEmpty_map]
    split
    · rw [List.map_cons, ih]
    · exact ih

theorem map_restrictOrder_relabel (σ : Nat → Nat) (hσ : Inj σ) (keep : List Nat) (orders : List Order) :
    (orders.map (relabelOrder σ)).map (restrictOrder (keep.map σ)) =
      (orders.map (restrictOrder keep)).map (relabelOrder σ) := by
  simp only [List.map_map]
  apply List.map_congr_left
  intro o _
  exact restrictOrder_relabel σ hσ keep o

theorem minAltDeletion_relabel (σ : Nat → Nat) (hσ : Inj σ) (alts : List Nat) (hn : alts.Nodup)
    (orders : List Order) :
    minAltDeletion (alts.map σ) (orders.map (relabelOrder σ)) = minAltDeletion alts orders := by
  have hn' : (alts.map σ).Nodup := C15x.nodup_map_inj hσ hn
  apply Nat.le_antisymm
  · apply minAltDeletion_le_of alts (alts.map σ) orders _ hn hn' (List.length_map _)
    intro keep hs hb
    refine ⟨keep.map σ, hs.map σ, ?_, List.length_map _⟩
    rw [map_restrictOrder_relabel σ hσ, bruteSP_relabel σ hσ]
    exact hb
  · apply minAltDeletion_le_of (alts.map σ) alts _ orders hn' hn (List.length_map _).symm
    intro keep' hs' hb'
    obtain ⟨keep, hs, rfl⟩ := List.sublist_map_iff.1 hs'
    refine ⟨keep, hs, ?_, (List.length_map _).symm⟩
    rw [map_restrictOrder_relabel σ hσ, bruteSP_relabel σ hσ] at hb'
    exact hb'

/-! ### storage order -/

theorem map_restrictOrder_congr (keep keep' : List Nat) (h : ∀ a, a ∈ keep ↔ a ∈ keep') (orders : List Order) :
    orders.map (restrictOrder keep) = orders.map (restrictOrder keep') :=
  List.map_congr_left (fun o _ => C12DP.restrictOrder_congr keep keep' h o)

/-- the members of `keep`, in the order in which `alts` stores them -/
theorem filter_mem_perm (keep alts : List Nat) (hk : keep.Nodup) (hn : alts.Nodup) (hsub : ∀ a ∈ keep, a ∈ alts) :
    (alts.filter (fun a => keep.contains a)).Perm keep := by
  rw [List.perm_ext_iff_of_nodup (hn.sublist List.filter_sublist) hk]
  intro a
  simp only [List.mem_filter, List.contains_eq_mem, decide_eq_true_eq]
  exact ⟨fun h => h.2, fun h => ⟨hsub a h, h⟩⟩

theorem minAltDeletion_perm_le (alts alts' : List Nat) (orders orders' : List Order) (hn : alts.Nodup)
    (ha : alts.Perm alts') (hp : orders.Perm orders') :
    minAltDeletion alts' orders' ≤ minAltDeletion alts orders := by
  have hn' : alts'.Nodup := ha.nodup_iff.1 hn
  apply minAltDeletion_le_of alts alts' orders orders' hn hn' ha.length_eq.symm
  intro keep hs hb
  have hk : keep.Nodup := hs.nodup hn
  have hperm := filter_mem_perm keep alts' hk hn' (fun a h => ha.mem_iff.1 (hs.subset h))
  refine ⟨alts'.filter (fun a => keep.contains a), List.filter_sublist, ?_, hperm.length_eq⟩
  rw [← bruteSP_perm keep _ hperm.symm (orders.map (restrictOrder keep)) _ ?_]
  · exact hb
  · rw [map_restrictOrder_congr _ keep (fun a => hperm.mem_iff) orders']
    exact hp.map _

theorem minAltDeletion_perm (alts alts' : List Nat) (orders orders' : List Order) (hn : alts.Nodup)
    (ha : alts.Perm alts') (hp : orders.Perm orders') :
    minAltDeletion alts' orders' = minAltDeletion alts orders :=
  Nat.le_antisymm (minAltDeletion_perm_le alts alts' orders orders' hn ha hp)
    (minAltDeletion_perm_le alts' alts orders' orders (ha.nodup_iff.1 hn) ha.symm hp.symm)

/-! ### the dynamic programme attains the minimum -/

theorem restrictOrder_wrap (S : List Nat) (o : List Nat) :
    restrictOrder S (C12Opt.wrap o) = C12Opt.wrap (C12Opt.restrict S o) := by
  unfold restrictOrder C12Opt.wrap C12Opt.restrict
  induction o with
  | nil => rfl
  | cons a o ih =>
    simp only [List.map_cons, List.filter_cons]
    by_cases h : S.contains a = true
    · simp only [h, if_true, List.isEmpty_cons, Bool.not_false, List.map_cons, List.filter_nil]
      rw [ih]
    · simp only [h, List.filter_nil]
      exact ih

theorem map_restrictOrder_wrap (S : List Nat) (orders : List (List Nat)) :
    (orders.map C12Opt.wrap).map (restrictOrder S) = (orders.map (C12Opt.restrict S)).map C12Opt.wrap := by
  simp only [List.map_map]
  apply List.map_congr_left
  intro o _
  exact restrictOrder_wrap S o

theorem rankings_perm_alts {alts alts' : List Nat} {orders : List (List Nat)} (hr : C03.Rankings alts orders)
    (ha : alts.Perm alts') : C03.Rankings alts' orders :=
  ⟨ha.nodup_iff.1 hr.1, fun o ho => ⟨(hr.2 o ho).1, fun a => ((hr.2 o ho).2 a).trans ha.mem_iff⟩⟩

/-- validity: the alternatives of the returned axis, in the storage order of `alts`, are a feasible sub-list -/
theorem min_le_removed (alts : List Nat) (orders : List (List Nat)) (hr : C03.Rankings alts orders) :
    minAltDeletion alts (orders.map C12Opt.wrap) ≤ (kAlternativeDeletion alts orders).2.length := by
  have hcomp : ∀ o ∈ orders, ∀ a ∈ alts, a ∈ o := fun o ho a ha => ((hr.2 o ho).2 a).2 ha
  have hnd := C12DP.axis_nodup orders alts
  have hsub := C12DP.axis_subset orders alts
  have hperm := C12DP.axis_removed_perm orders alts hr.1
  have hsp := C12DP.axis_spOnSubset orders alts hcomp
  unfold kAlternativeDeletion
  generalize (longestSinglePeakedAxis orders alts).1 = ax at *
  generalize (longestSinglePeakedAxis orders alts).2 = rem at *
  have hw : orders.map C12DP.weak = orders.map C12Opt.wrap := rfl
  rw [hw, Specs.spOnSubset_iff _ _ _ hnd] at hsp
  have hk := filter_mem_perm ax alts hnd hr.1 hsub
  have hb : bruteSP (alts.filter (fun a => ax.contains a))
      ((orders.map C12Opt.wrap).map (restrictOrder (alts.filter (fun a => ax.contains a)))) = true := by
    rw [C11.bruteSP_iff]
    refine ⟨ax, hk.symm, ?_⟩
    rw [map_restrictOrder_congr _ ax (fun a => hk.mem_iff)]
    exact hsp.2
  have := (Specs.minAltDeletion_spec alts hr.1 (orders.map C12Opt.wrap)).2 _ List.filter_sublist hb
  have h1 := hk.length_eq
  have h2 := hperm.length_eq
  rw [List.length_append] at h2
  omega

/-- optimality: no feasible sub-list is longer than the returned axis -/
theorem removed_le_min (alts : List Nat) (orders : List (List Nat)) (hr : C03.Rankings alts orders)
    (hne : orders ≠ []) :
    (kAlternativeDeletion alts orders).2.length ≤ minAltDeletion alts (orders.map C12Opt.wrap) := by
  obtain ⟨keep, hs, hb, he⟩ := (Specs.minAltDeletion_spec alts hr.1 (orders.map C12Opt.wrap)).1
  rw [C11.bruteSP_iff, map_restrictOrder_wrap] at hb
  have hopt := C12Opt.deletion_optimal alts orders hr hne keep (hs.nodup hr.1) (fun a h => hs.subset h) hb
  have h2 := (C12DP.axis_removed_perm orders alts hr.1).length_eq
  rw [List.length_append] at h2
  unfold kAlternativeDeletion at hopt ⊢
  have := hs.length_le
  omega

end PrefVerif.C15y
