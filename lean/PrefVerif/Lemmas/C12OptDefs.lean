import PrefVerif.Lemmas.C12DPInvSP
import PrefVerif.Lemmas.C12DPSpec
import PrefVerif.Lemmas.C18BFLSets
import PrefVerif.Lemmas.C03cRound
/-!
# C12Opt, part 0: vocabulary of the optimality proof

`shape Fr Sr` is the incomplete axis with left part `Fr` and right part `Sr` (both read from the hole
outwards); `bndOf Fr Sr` its boundary identifier.  `Ideal orders S Fr M Sr`: the axis
`Fr.reverse ++ M ++ Sr` lists `S` and every order is single-peaked on it (`M` are the alternatives of `S`
not yet placed).  `above v ob x`: the boundary entry `ob` exists and vote `v` ranks it above `x`.
-/
namespace PrefVerif.C12Opt
open PrefVerif PrefVerif.KAlt PrefVerif.C12DP PrefVerif.C03 PrefVerif.C03c

def shape (Fr Sr : List Nat) : Axis := Fr.reverse.map some ++ none :: Sr.map some

def bndOf (Fr Sr : List Nat) : Bnd := (Fr.tail.head?, Fr.head?, Sr.head?, Sr.tail.head?)

theorem shape_Shape (Fr Sr : List Nat) : Shape (shape Fr Sr) Fr Sr := rfl

theorem boundary_shape (Fr Sr : List Nat) : boundary (shape Fr Sr) = bndOf Fr Sr :=
  (shape_Shape Fr Sr).boundary

theorem length_shape (Fr Sr : List Nat) : (shape Fr Sr).length = Fr.length + Sr.length + 1 := by
  simp [shape]; omega

theorem shape_contains_none (Fr Sr : List Nat) : (shape Fr Sr).contains none = true := by
  simp [shape]

/-- the boundary entry `ob` exists and `v` ranks it above `x` -/
def above (v : List Nat) (ob : Option Nat) (x : Nat) : Bool := ltO (ob.map v.idxOf) (v.idxOf x)

theorem above_iff (v : List Nat) (ob : Option Nat) (x : Nat) :
    above v ob x = true ↔ ∃ b, ob = some b ∧ lt v b x := by
  cases ob with
  | none => simp [above, ltO]
  | some b => simp [above, ltO, lt]

/-- some vote ranks both the boundary entry `ob` and `w` above `z` -/
def fC (votes : List (List Nat)) (ob : Option Nat) (z w : Nat) : Bool :=
  votes.any (fun v => above v ob z && decide (v.idxOf w < v.idxOf z))

theorem fC_iff (votes : List (List Nat)) (ob : Option Nat) (z w : Nat) :
    fC votes ob z w = true ↔ ∃ v ∈ votes, ∃ b, ob = some b ∧ lt v b z ∧ lt v w z := by
  simp only [fC, List.any_eq_true, Bool.and_eq_true, above_iff, decide_eq_true_eq]
  constructor
  · rintro ⟨v, hv, ⟨b, hb, h1⟩, h2⟩; exact ⟨v, hv, b, hb, h1, h2⟩
  · rintro ⟨v, hv, b, hb, h1, h2⟩; exact ⟨v, hv, ⟨b, hb, h1⟩, h2⟩

/-- `Fr.reverse ++ M ++ Sr` is a single-peaked axis of the profile restricted to `S` -/
def Ideal (orders : List (List Nat)) (S Fr M Sr : List Nat) : Prop :=
  (Fr.reverse ++ M ++ Sr).Perm S ∧ Valid orders (Fr.reverse ++ M ++ Sr)

end PrefVerif.C12Opt
