import PrefVerif.Lemmas.C05Solve
import PrefVerif.Lemmas.C05Contig
import PrefVerif.Lemmas.C05Perm
/-!
# C05 helper lemmas, part 8: common tools of the reductions

Rows given by an indicator, complemented rows, stacked matrices, relabelling column indices by
alternative names, and "interval with interval complement ⇔ prefix or suffix".
-/
namespace PrefVerif.C05
open PrefVerif PrefVerif.Dichotomous PrefVerif.Spec PrefVerif.Spec.Approval

variable {α : Type}

theorem mem_rowOnes_ind (l : List α) (b : α → Bool) (c : Nat) :
    c ∈ rowOnes (l.map (fun x => if b x then 1 else 0)) ↔ ∃ h : c < l.length, b l[c] = true := by
  rw [mem_rowOnes, List.getElem?_map]
  by_cases h : c < l.length
  · rw [List.getElem?_eq_getElem h]
    cases hb : b l[c] <;> simp [hb, h]
  · rw [List.getElem?_eq_none (by omega)]; simp [h]

theorem mem_rowOnes_compl_ind (l : List α) (b : α → Bool) (c : Nat) :
    c ∈ rowOnes ((l.map (fun x => if b x then 1 else 0)).map (fun v => 1 - v)) ↔
      ∃ h : c < l.length, b l[c] = false := by
  rw [mem_rowOnes, List.getElem?_map, List.getElem?_map]
  by_cases h : c < l.length
  · rw [List.getElem?_eq_getElem h]
    cases hb : b l[c] <;> simp [hb, h]
  · rw [List.getElem?_eq_none (by omega)]; simp [h]

theorem rowsOK_append (m m' : Matrix) (ord : List Nat) : RowsOK (m ++ m') ord ↔ RowsOK m ord ∧ RowsOK m' ord := by
  simp only [RowsOK, List.mem_append]
  exact ⟨fun h => ⟨fun r hr => h r (Or.inl hr), fun r hr => h r (Or.inr hr)⟩,
    fun h r hr => hr.elim (h.1 r) (h.2 r)⟩

/-! ### relabelling -/

theorem getD_of_lt (alts : List Nat) (i : Nat) (h : i < alts.length) : alts.getD i 0 = alts[i] := by
  simp [List.getD_eq_getElem?_getD, List.getElem?_eq_getElem h]

theorem map_getD_range (alts : List Nat) : (List.range alts.length).map (fun i => alts.getD i 0) = alts := by
  apply List.ext_getElem
  · simp
  · intro i h1 h2
    simp only [List.getElem_map, List.getElem_range]
    exact getD_of_lt alts i h2

theorem relabel_perm (alts idx : List Nat) (h : idx.Perm (List.range alts.length)) :
    (idx.map (fun i => alts.getD i 0)).Perm alts := by
  have := h.map (fun i => alts.getD i 0)
  rwa [map_getD_range] at this

theorem map_idxOf (alts : List Nat) (hn : alts.Nodup) : alts.map (fun a => alts.idxOf a) = List.range alts.length := by
  apply List.ext_getElem
  · simp
  · intro i h1 h2
    simp only [List.getElem_map, List.getElem_range]
    exact hn.idxOf_getElem i (by simpa using h1)

theorem exists_relabel (alts order : List Nat) (hn : alts.Nodup) (h : order.Perm alts) :
    ∃ idx : List Nat, idx.Perm (List.range alts.length) ∧ idx.map (fun i => alts.getD i 0) = order := by
  refine ⟨order.map (fun a => alts.idxOf a), ?_, ?_⟩
  · have := h.map (fun a => alts.idxOf a)
    rwa [map_idxOf alts hn] at this
  · rw [List.map_map]
    conv => rhs; rw [← List.map_id order]
    apply List.map_congr_left
    intro a ha
    have ha' : a ∈ alts := h.subset ha
    have hlt : alts.idxOf a < alts.length := List.idxOf_lt_length_of_mem ha'
    simp only [Function.comp, id]
    rw [getD_of_lt alts _ hlt]
    exact List.getElem_idxOf hlt

/-- intervals of the relabelled order are intervals of the index order -/
theorem interval_relabel (alts idx : List Nat) (h : idx.Perm (List.range alts.length)) (p : Nat → Prop) :
    Interval p (idx.map (fun i => alts.getD i 0)) ↔ Interval (fun c => ∃ h : c < alts.length, p alts[c]) idx := by
  rw [interval_map]
  have hc : ∀ c ∈ idx, (p (alts.getD c 0) ↔ ∃ h : c < alts.length, p alts[c]) := by
    intro c hc
    have hlt : c < alts.length := by simpa using h.subset hc
    rw [getD_of_lt alts c hlt]
    exact ⟨fun hp => ⟨hlt, hp⟩, fun ⟨_, hp⟩ => hp⟩
  exact ⟨fun hi => hi.congr hc, fun hi => hi.congr (fun c hcm => (hc c hcm).symm)⟩

end PrefVerif.C05
