import PrefVerif.Lemmas.C03Rank
import PrefVerif.Lemmas.C02AList
import PrefVerif.Lemmas.C07AList
/-!
# C03 helper lemmas, part 7: what the two `for` loops establish for every voter

When a candidate is placed next to `x_i` (resp. `x_j`) outside Case 2(d), every voter ranks it
better than `x_i` (resp. `x_j`).
-/
namespace PrefVerif.C03
open PrefVerif PrefVerif.ELO PrefVerif.Py

theorem pyIndex_eq_some {l : List Nat} {x i : Nat} (h : pyIndex l x = some i) : i = l.idxOf x := by
  unfold pyIndex at h
  split at h
  · simpa using h.symm
  · simp at h

/-- loop invariant depending on the voters already processed -/
theorem forLoop_fin_pre {α : Type} (body : List Nat → α → Loop α) (P : List (List Nat) → α → Prop)
    (hbody : ∀ done o a a', P done a → body o a = .fin a' → P (done ++ [o]) a') :
    ∀ (os done : List (List Nat)) (a a' : α), P done a → forLoop body os a = .fin a' → P (done ++ os) a' := by
  intro os
  induction os with
  | nil => intro done a a' hP h; simp only [forLoop, Loop.fin.injEq] at h; subst h; simpa using hP
  | cons o os ih =>
    intro done a a' hP h
    unfold forLoop at h
    cases hb : body o a with
    | error => rw [hb] at h; simp at h
    | brk e => rw [hb] at h; simp at h
    | fin a1 =>
      rw [hb] at h
      have := ih (done ++ [o]) a1 a' (hbody done o a a1 hP hb) h
      simpa using this

/-! ### one last candidate -/

/-- after the voters `done`: `case` is 0, 1 or 2 and it is compatible with all of them -/
def P1 (x xi xj : Nat) (done : List (List Nat)) (c : Nat) : Prop :=
  c ≤ 2 ∧ ∀ o ∈ done, (c = 0 → lt o x xi ∧ lt o x xj) ∧ (c = 1 → lt o x xi) ∧ (c = 2 → lt o x xj)

theorem body1_P1 {x xi xj : Nat} {done : List (List Nat)} {o : List Nat} {c c' : Nat}
    (hP : P1 x xi xj done c) (h : body1 x xi xj o c = .fin c') : P1 x xi xj (done ++ [o]) c' := by
  unfold body1 at h
  split at h
  · rename_i ix ii ij hx hi hj
    have ex := pyIndex_eq_some hx
    have ei := pyIndex_eq_some hi
    have ej := pyIndex_eq_some hj
    subst ex ei ej
    obtain ⟨hc, hold⟩ := hP
    have key : ∀ (P : Prop), P → P := fun _ p => p
    split at h
    · rename_i hcond
      split at h
      · simp at h
      · rename_i hc2
        simp only [Loop.fin.injEq] at h; subst h
        refine ⟨by omega, fun o' ho' => ?_⟩
        rcases List.mem_append.1 ho' with ho' | ho'
        · have := hold o' ho'
          unfold lt at this ⊢; omega
        · simp only [List.mem_singleton] at ho'; subst ho'
          unfold lt; omega
    · split at h
      · rename_i hcond
        split at h
        · simp at h
        · rename_i hc1
          simp only [Loop.fin.injEq] at h; subst h
          refine ⟨by omega, fun o' ho' => ?_⟩
          rcases List.mem_append.1 ho' with ho' | ho'
          · have := hold o' ho'
            unfold lt at this ⊢; omega
          · simp only [List.mem_singleton] at ho'; subst ho'
            unfold lt; omega
      · split at h
        · rename_i hcond
          simp only [Loop.fin.injEq] at h; subst h
          refine ⟨hc, fun o' ho' => ?_⟩
          rcases List.mem_append.1 ho' with ho' | ho'
          · exact hold o' ho'
          · simp only [List.mem_singleton] at ho'; subst ho'
            unfold lt; omega
        · simp at h
  · simp at h

theorem stepOne_fin_none {orders : List (List Nat)} {s s' : State} {x : Nat} (he : s.ends = none)
    (h : stepOne orders s x = .fin s') : s' = { s with tal := s.tal ++ [x] } := by
  obtain ⟨prefs, tal, left, right, ends⟩ := s
  simp only at he; subst he
  simp only [stepOne, Loop.fin.injEq] at h
  exact h.symm

theorem stepOne_fin_last {orders : List (List Nat)} {s s' : State} {x xi xj : Nat} {ps : List (List Nat)}
    (he : s.ends = some (xi, xj)) (hp : s.prefs = [] :: ps)
    (h : stepOne orders s x = .fin s') : s' = { s with left := s.left ++ [x] } := by
  obtain ⟨prefs, tal, left, right, ends⟩ := s
  simp only at he hp; subst he hp
  simp only [stepOne, List.length_nil, if_true, Loop.fin.injEq] at h
  exact h.symm

theorem stepOne_fin_some {orders : List (List Nat)} {s s' : State} {x xi xj : Nat} {p : List Nat}
    {ps : List (List Nat)} (he : s.ends = some (xi, xj)) (hp : s.prefs = p :: ps) (hne : p ≠ [])
    (h : stepOne orders s x = .fin s') :
    (s' = { s with left := s.left ++ [x], ends := some (x, xj) } ∧ ∀ o ∈ orders, lt o x xi) ∨
    (s' = { s with right := x :: s.right, ends := some (xi, x) } ∧ ∀ o ∈ orders, lt o x xj) := by
  obtain ⟨prefs, tal, left, right, ends⟩ := s
  simp only at he hp; subst he hp
  simp only [stepOne] at h
  have hlen : ¬ p.length = 0 := by
    cases p with
    | nil => exact absurd rfl hne
    | cons _ _ => simp
  simp only [hlen, if_false] at h
  split at h
  · simp at h
  · simp at h
  · rename_i case hfl
    have hP : P1 x xi xj ([] ++ orders) case :=
      forLoop_fin_pre (body1 x xi xj) (P1 x xi xj) (fun done o a a' hP hb => body1_P1 hP hb)
        orders [] 0 case ⟨by omega, by simp⟩ hfl
    simp only [List.nil_append] at hP
    obtain ⟨hc, hall⟩ := hP
    split at h
    · rename_i h0
      simp only [Loop.fin.injEq] at h
      exact Or.inl ⟨h.symm, fun o ho => ((hall o ho).1 h0).1⟩
    · split at h
      · rename_i h1
        simp only [Loop.fin.injEq] at h
        exact Or.inl ⟨h.symm, fun o ho => (hall o ho).2.1 h1⟩
      · split at h
        · rename_i h2
          simp only [Loop.fin.injEq] at h
          exact Or.inr ⟨h.symm, fun o ho => (hall o ho).2.2 h2⟩
        · omega

/-! ### two last candidates -/

/-- what voter `o` needs from the final placement, given the dict `f`: either `o` ranks both
candidates above both ends (any placement is fine), or `f` records a placement that is fine -/
def Rec2 (x y xi xj : Nat) (f : AList Nat Side) (o : List Nat) : Prop :=
  (lt o x xi ∧ lt o x xj ∧ lt o y xi ∧ lt o y xj) ∨
  (∃ w u, ((w = x ∧ u = y) ∨ (w = y ∧ u = x)) ∧ f.get? w = some .left ∧ f.get? u = some .right ∧
    lt o w xi ∧ lt o u xj)

/-- `forced_position` is empty or assigns opposite sides to the two candidates -/
def DictOk (x y : Nat) (f : AList Nat Side) : Prop :=
  (f.get? x = none ∧ f.get? y = none) ∨
  (f.get? x = some .left ∧ f.get? y = some .right) ∨
  (f.get? x = some .right ∧ f.get? y = some .left)

def P2 (x y xi xj : Nat) (done : List (List Nat)) (v : L2) : Prop :=
  Names x y v ∧ DictOk x y v.forced ∧ ∀ o ∈ done, Rec2 x y xi xj v.forced o

theorem get?_set2 (f : AList Nat Side) (k1 k2 : Nat) (v1 v2 : Side) (k : Nat) :
    ((f.set k1 v1).set k2 v2).get? k =
      if k2 = k then some v2 else if k1 = k then some v1 else f.get? k := by
  rw [C07.get?_set, C07.get?_set]

theorem rec2_mono {x y xi xj : Nat} {f f' : AList Nat Side} {o : List Nat}
    (hext : ∀ k sd, f.get? k = some sd → f'.get? k = some sd) (h : Rec2 x y xi xj f o) :
    Rec2 x y xi xj f' o := by
  rcases h with h | ⟨w, u, hwu, h1, h2, h3⟩
  · exact Or.inl h
  · exact Or.inr ⟨w, u, hwu, hext w _ h1, hext u _ h2, h3⟩

theorem body2core_P2 {orders : List (List Nat)} {s : State} {o : List Nat} {x y xi xj x' y' : Nat}
    {f : AList Nat Side} {v' : L2} (hxy : x ≠ y)
    (hn : (x' = x ∧ y' = y) ∨ (x' = y ∧ y' = x)) (hd : DictOk x y f)
    (hle : o.idxOf y' ≤ o.idxOf x')
    (h : body2core orders s o (o.idxOf xi) (o.idxOf xj) (o.idxOf x') (o.idxOf y') x' y' f = .fin v') :
    v'.x = x' ∧ v'.y = y' ∧ DictOk x y v'.forced ∧ Rec2 x y xi xj v'.forced o ∧
      ∀ k sd, f.get? k = some sd → v'.forced.get? k = some sd := by
  have hx'y' : x' ≠ y' := by
    rcases hn with ⟨a, b⟩ | ⟨a, b⟩ <;> subst a b
    · exact hxy
    · exact fun e => hxy e.symm
  have hy'x' : ¬ y' = x' := fun e => hx'y' e.symm
  unfold body2core at h
  split at h
  · simp at h
  · split at h
    · simp at h
    · split at h
      · -- Case 2.(c)
        rename_i hcond
        split at h
        · simp at h
        · rename_i hcheck
          simp only [Loop.fin.injEq] at h; subst h
          have hcheck1 : f.get? x' ≠ some .right := fun e => hcheck (Or.inl e)
          have hcheck2 : f.get? y' ≠ some .left := fun e => hcheck (Or.inr e)
          have gx : ((f.set x' .left).set y' .right).get? x' = some .left := by
            rw [get?_set2]; simp [hy'x']
          have gy : ((f.set x' .left).set y' .right).get? y' = some .right := by
            rw [get?_set2]; simp
          refine ⟨rfl, rfl, ?_, ?_, ?_⟩
          · rcases hn with ⟨a, b⟩ | ⟨a, b⟩ <;> subst a b
            · exact Or.inr (Or.inl ⟨gx, gy⟩)
            · exact Or.inr (Or.inr ⟨gy, gx⟩)
          · refine Or.inr ⟨x', y', ?_, gx, gy, ?_, ?_⟩
            · rcases hn with ⟨a, b⟩ | ⟨a, b⟩
              · exact Or.inl ⟨a, b⟩
              · exact Or.inr ⟨a, b⟩
            · unfold lt; omega
            · unfold lt; omega
          · intro k sd hk
            simp only
            rw [get?_set2]
            by_cases h1 : y' = k
            · subst h1
              rw [if_pos rfl]
              cases sd with
              | left => exact absurd hk hcheck2
              | right => rfl
            · rw [if_neg h1]
              by_cases h2 : x' = k
              · subst h2
                rw [if_pos rfl]
                cases sd with
                | left => rfl
                | right => exact absurd hk hcheck1
              · rw [if_neg h2]; exact hk
      · split at h
        · -- Case 2.(c) Inverse
          rename_i hcond
          split at h
          · simp at h
          · rename_i hcheck
            simp only [Loop.fin.injEq] at h; subst h
            have hcheck1 : f.get? x' ≠ some .left := fun e => hcheck (Or.inl e)
            have hcheck2 : f.get? y' ≠ some .right := fun e => hcheck (Or.inr e)
            have gx : ((f.set x' .right).set y' .left).get? x' = some .right := by
              rw [get?_set2]; simp [hy'x']
            have gy : ((f.set x' .right).set y' .left).get? y' = some .left := by
              rw [get?_set2]; simp
            refine ⟨rfl, rfl, ?_, ?_, ?_⟩
            · rcases hn with ⟨a, b⟩ | ⟨a, b⟩ <;> subst a b
              · exact Or.inr (Or.inr ⟨gx, gy⟩)
              · exact Or.inr (Or.inl ⟨gy, gx⟩)
            · refine Or.inr ⟨y', x', ?_, gy, gx, ?_, ?_⟩
              · rcases hn with ⟨a, b⟩ | ⟨a, b⟩
                · exact Or.inr ⟨b, a⟩
                · exact Or.inl ⟨b, a⟩
              · unfold lt; omega
              · unfold lt; omega
            · intro k sd hk
              simp only
              rw [get?_set2]
              by_cases h1 : y' = k
              · subst h1
                rw [if_pos rfl]
                cases sd with
                | left => rfl
                | right => exact absurd hk hcheck2
              · rw [if_neg h1]
                by_cases h2 : x' = k
                · subst h2
                  rw [if_pos rfl]
                  cases sd with
                  | left => exact absurd hk hcheck1
                  | right => rfl
                · rw [if_neg h2]; exact hk
        · split at h
          · -- Case 2.(b)
            rename_i hcond
            simp only [Loop.fin.injEq] at h; subst h
            refine ⟨rfl, rfl, hd, ?_, fun k sd hk => hk⟩
            left
            rcases hn with ⟨a, b⟩ | ⟨a, b⟩ <;> subst a b <;> unfold lt <;> omega
          · simp at h

theorem body2_P2 {orders : List (List Nat)} {s : State} {x y xi xj : Nat} {done : List (List Nat)}
    {o : List Nat} {v v' : L2} (hxy : x ≠ y) (hP : P2 x y xi xj done v)
    (h : body2 orders s xi xj o v = .fin v') : P2 x y xi xj (done ++ [o]) v' := by
  obtain ⟨hn, hd, hold⟩ := hP
  unfold body2 at h
  split at h
  · rename_i ix iy ii ij hx hy hi hj
    have ex := pyIndex_eq_some hx
    have ey := pyIndex_eq_some hy
    have ei := pyIndex_eq_some hi
    have ej := pyIndex_eq_some hj
    subst ex ey ei ej
    have finish : ∀ x' y', ((x' = x ∧ y' = y) ∨ (x' = y ∧ y' = x)) →
        (v'.x = x' ∧ v'.y = y' ∧ DictOk x y v'.forced ∧ Rec2 x y xi xj v'.forced o ∧
          ∀ k sd, v.forced.get? k = some sd → v'.forced.get? k = some sd) →
        P2 x y xi xj (done ++ [o]) v' := by
      intro x' y' hn' ⟨h1, h2, h3, h4, h5⟩
      refine ⟨?_, h3, ?_⟩
      · rcases hn' with ⟨a, b⟩ | ⟨a, b⟩
        · exact Or.inl ⟨h1.trans a, h2.trans b⟩
        · exact Or.inr ⟨h1.trans a, h2.trans b⟩
      · intro o' ho'
        rcases List.mem_append.1 ho' with ho' | ho'
        · exact rec2_mono h5 (hold o' ho')
        · simp only [List.mem_singleton] at ho'; subst ho'; exact h4
    split at h
    · rename_i hsw
      have hn' : (v.y = x ∧ v.x = y) ∨ (v.y = y ∧ v.x = x) := by
        rcases hn with ⟨a, b⟩ | ⟨a, b⟩
        · exact Or.inr ⟨b, a⟩
        · exact Or.inl ⟨b, a⟩
      exact finish v.y v.x hn' (body2core_P2 hxy hn' hd (by omega) h)
    · rename_i hsw
      exact finish v.x v.y hn (body2core_P2 hxy hn hd (by omega) h)
  · simp at h

theorem contains_eq_false_iff (f : AList Nat Side) (k : Nat) : f.contains k = false ↔ f.get? k = none := by
  rw [C07.get?_eq_none_iff, ← C02.contains_iff_mem_keys]
  simp

theorem contains_of_get? {f : AList Nat Side} {k : Nat} {sd : Side} (h : f.get? k = some sd) :
    f.contains k = true := by
  cases hc : f.contains k with
  | true => rfl
  | false => rw [contains_eq_false_iff] at hc; rw [hc] at h; simp at h

theorem forcedLeft_empty {vx vy : Nat} {f : AList Nat Side} (hne : vx ≠ vy) (dx : f.get? vx = none)
    (dy : f.get? vy = none) : forcedLeft ⟨vx, vy, f⟩ = some true := by
  have cx := (contains_eq_false_iff f vx).2 dx
  have cy := (contains_eq_false_iff f vy).2 dy
  have hne' : ¬ vy = vx := fun e => hne e.symm
  have c2 : ((f.set vx .left).set vy .right).contains vy = true :=
    contains_of_get? (sd := .right) (by rw [get?_set2]; simp)
  simp [forcedLeft, cx, cy, c2, get?_set2, hne']

theorem forcedLeft_full {vx vy : Nat} {f : AList Nat Side} {sx sy : Side} (dx : f.get? vx = some sx)
    (dy : f.get? vy = some sy) : forcedLeft ⟨vx, vy, f⟩ = some (decide (sx = .left)) := by
  have cx := contains_of_get? dx
  have cy := contains_of_get? dy
  simp [forcedLeft, cx, cy, dx]

/-- the code after the loop: the final placement is fine for every voter whose needs are recorded -/
theorem forcedLeft_spec {x y xi xj : Nat} {v : L2} (hxy : x ≠ y) (hn : Names x y v)
    (hd : DictOk x y v.forced) :
    (forcedLeft v = some true ∧ ∀ o, Rec2 x y xi xj v.forced o → lt o v.x xi ∧ lt o v.y xj) ∨
    (forcedLeft v = some false ∧ ∀ o, Rec2 x y xi xj v.forced o → lt o v.y xi ∧ lt o v.x xj) := by
  obtain ⟨vx, vy, f⟩ := v
  simp only at hd ⊢
  have hyx : y ≠ x := fun e => hxy e.symm
  rcases hd with ⟨dx, dy⟩ | ⟨dx, dy⟩ | ⟨dx, dy⟩
  · -- empty dict
    have hrec : ∀ o, Rec2 x y xi xj f o → lt o x xi ∧ lt o x xj ∧ lt o y xi ∧ lt o y xj := by
      intro o h
      rcases h with h | ⟨w, u, hwu, h1, _⟩
      · exact h
      · rcases hwu with ⟨a, _⟩ | ⟨a, _⟩ <;> subst a <;> simp_all
    left
    rcases hn with ⟨a, b⟩ | ⟨a, b⟩ <;> simp only at a b
    · rw [a, b]
      exact ⟨forcedLeft_empty hxy dx dy, fun o h => ⟨(hrec o h).1, (hrec o h).2.2.2⟩⟩
    · rw [a, b]
      exact ⟨forcedLeft_empty hyx dy dx, fun o h => ⟨(hrec o h).2.2.1, (hrec o h).2.1⟩⟩
  · -- x ↦ left, y ↦ right
    have hrec : ∀ o, Rec2 x y xi xj f o → lt o x xi ∧ lt o y xj := by
      intro o h
      rcases h with h | ⟨w, u, hwu, h1, h2, h3⟩
      · exact ⟨h.1, h.2.2.2⟩
      · rcases hwu with ⟨a, b⟩ | ⟨a, b⟩ <;> subst a b
        · exact h3
        · rw [dy] at h1; simp at h1
    rcases hn with ⟨a, b⟩ | ⟨a, b⟩ <;> simp only at a b
    · left; rw [a, b]
      exact ⟨by simpa using forcedLeft_full dx dy, hrec⟩
    · right; rw [a, b]
      exact ⟨by simpa using forcedLeft_full dy dx, hrec⟩
  · -- x ↦ right, y ↦ left
    have hrec : ∀ o, Rec2 x y xi xj f o → lt o y xi ∧ lt o x xj := by
      intro o h
      rcases h with h | ⟨w, u, hwu, h1, h2, h3⟩
      · exact ⟨h.2.2.1, h.2.1⟩
      · rcases hwu with ⟨a, b⟩ | ⟨a, b⟩ <;> subst a b
        · rw [dx] at h1; simp at h1
        · exact h3
    rcases hn with ⟨a, b⟩ | ⟨a, b⟩ <;> simp only at a b
    · right; rw [a, b]
      exact ⟨by simpa using forcedLeft_full dx dy, hrec⟩
    · left; rw [a, b]
      exact ⟨by simpa using forcedLeft_full dy dx, hrec⟩

theorem stepTwo_fin_none {orders : List (List Nat)} {s s' : State} {x y : Nat} (he : s.ends = none)
    (h : stepTwo orders s x y = .fin s') :
    s' = { s with left := s.left ++ [x], right := y :: s.right, ends := some (x, y) } := by
  obtain ⟨prefs, tal, left, right, ends⟩ := s
  simp only at he; subst he
  simp only [stepTwo, Loop.fin.injEq] at h
  exact h.symm

theorem stepTwo_fin_some {orders : List (List Nat)} {s s' : State} {x y xi xj : Nat} (hxy : x ≠ y)
    (he : s.ends = some (xi, xj)) (h : stepTwo orders s x y = .fin s') :
    ∃ a b, ((a = x ∧ b = y) ∨ (a = y ∧ b = x)) ∧
      s' = { s with left := s.left ++ [a], right := b :: s.right, ends := some (a, b) } ∧
      ∀ o ∈ orders, lt o a xi ∧ lt o b xj := by
  obtain ⟨prefs, tal, left, right, ends⟩ := s
  simp only at he; subst he
  simp only [stepTwo] at h
  split at h
  · simp at h
  · simp at h
  · rename_i v hfl
    have hP : P2 x y xi xj ([] ++ orders) v :=
      forLoop_fin_pre (body2 orders _ xi xj) (P2 x y xi xj) (fun done o a a' hP hb => body2_P2 hxy hP hb)
        orders [] ⟨x, y, []⟩ v ⟨Or.inl ⟨rfl, rfl⟩, Or.inl ⟨rfl, rfl⟩, by simp⟩ hfl
    simp only [List.nil_append] at hP
    obtain ⟨hn, hd, hall⟩ := hP
    rcases forcedLeft_spec (xi := xi) (xj := xj) hxy hn hd with ⟨hf, hgood⟩ | ⟨hf, hgood⟩
    · rw [hf] at h
      simp only [Loop.fin.injEq] at h
      exact ⟨v.x, v.y, hn, h.symm, fun o ho => hgood o (hall o ho)⟩
    · rw [hf] at h
      simp only [Loop.fin.injEq] at h
      refine ⟨v.y, v.x, ?_, h.symm, fun o ho => hgood o (hall o ho)⟩
      rcases hn with ⟨a, b⟩ | ⟨a, b⟩
      · exact Or.inr ⟨b, a⟩
      · exact Or.inl ⟨b, a⟩

end PrefVerif.C03
