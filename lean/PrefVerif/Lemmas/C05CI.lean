import PrefVerif.Lemmas.C05Reduce
/-!
# C05 helper lemmas, part 9: candidate interval
-/
namespace PrefVerif.C05
open PrefVerif PrefVerif.Dichotomous PrefVerif.Spec PrefVerif.Spec.Approval

theorem interval_congr_iff {α : Type} {p q : α → Prop} (l : List α) (h : ∀ x, p x ↔ q x) :
    Interval p l ↔ Interval q l :=
  ⟨fun hi => hi.congr (fun x _ => h x), fun hi => hi.congr (fun x _ => (h x).symm)⟩

theorem rowsOK_ciMatrix (alts : List Nat) (approved : List (List Nat)) (idx : List Nat) :
    RowsOK (ciMatrix alts approved) idx ↔
      ∀ s ∈ approved, Interval (fun c => ∃ h : c < alts.length, alts[c] ∈ s) idx := by
  simp only [RowsOK, ciMatrix, List.mem_map, forall_exists_index, and_imp, forall_apply_eq_imp_iff₂]
  refine forall_congr' fun s => imp_congr_right fun _ => ?_
  apply interval_congr_iff
  intro c
  rw [mem_rowOnes_ind alts (fun a => s.contains a) c]
  simp

theorem rowsOK_complement_ciMatrix (alts : List Nat) (approved : List (List Nat)) (idx : List Nat) :
    RowsOK (complement (ciMatrix alts approved)) idx ↔
      ∀ s ∈ approved, Interval (fun c => ∃ h : c < alts.length, ¬ alts[c] ∈ s) idx := by
  simp only [RowsOK, complement, ciMatrix, List.mem_map, forall_exists_index, and_imp,
    forall_apply_eq_imp_iff₂]
  refine forall_congr' fun s => imp_congr_right fun _ => ?_
  apply interval_congr_iff
  intro c
  rw [mem_rowOnes_compl_ind alts (fun a => s.contains a) c]
  simp

theorem ciWitness_iff (alts : List Nat) (hn : alts.Nodup) (approved : List (List Nat)) (order : List Nat) :
    ciWitness alts approved order = true ↔
      order.Perm alts ∧ ∀ s ∈ approved, Interval (fun a => a ∈ s) order := by
  simp only [ciWitness, Bool.and_eq_true, isPermOf_iff order alts hn, List.all_eq_true,
    contiguous_iff_interval]

/-- both directions of the reduction at once: the index orders accepted for the matrix are exactly
the relabellings of the candidate orders accepted by the specification -/
theorem ci_relabel (alts : List Nat) (approved : List (List Nat)) (idx : List Nat)
    (hp : idx.Perm (List.range alts.length)) :
    RowsOK (ciMatrix alts approved) idx ↔
      ∀ s ∈ approved, Interval (fun a => a ∈ s) (idx.map (fun i => alts.getD i 0)) := by
  rw [rowsOK_ciMatrix]
  refine forall_congr' fun s => imp_congr_right fun _ => ?_
  exact (interval_relabel alts idx hp (fun a => a ∈ s)).symm

theorem candidateInterval_spec (solver : Solver) (hs : SolverOKI solver) (alts : List Nat) (hn : alts.Nodup)
    (approved : List (List Nat)) :
    (∀ order, isCandidateInterval solver alts approved = some order → ciWitness alts approved order = true) ∧
    (isCandidateInterval solver alts approved = none → ¬ ∃ order, ciWitness alts approved order = true) := by
  obtain ⟨h1, h2⟩ := solveC1_spec solver hs (ciMatrix alts approved) alts.length
  constructor
  · intro order ho
    obtain ⟨idx, hidx, rfl⟩ := Option.map_eq_some_iff.1 ho
    obtain ⟨hp, hr⟩ := h1 idx hidx
    rw [ciWitness_iff alts hn]
    exact ⟨relabel_perm alts idx hp, (ci_relabel alts approved idx hp).1 hr⟩
  · intro hnone
    have hsol : solveC1 solver (ciMatrix alts approved) alts.length = none := Option.map_eq_none_iff.1 hnone
    rintro ⟨order, hw⟩
    rw [ciWitness_iff alts hn] at hw
    obtain ⟨idx, hp, rfl⟩ := exists_relabel alts order hn hw.1
    exact h2 hsol ⟨idx, hp, (ci_relabel alts approved idx hp).2 hw.2⟩

end PrefVerif.C05
