import PrefVerif.Lemmas.C05PQComplete
/-!
`reorder_sets` on arbitrary input (repeated sets allowed, as `isC1P` passes them): `P(sets)` keeps the first
occurrence of every set (`firstOccs`), and the answer is about the distinct sets.
-/
set_option linter.unusedSimpArgs false
namespace PrefVerif.PQTree
open Tree PrefVerif.KAlt

/-- the loop of `PQ.__init__` on sets: `acc` = the sets kept so far -/
def firstOccsAcc : List (List Nat) → List (List Nat) → List (List Nat)
  | acc, [] => acc
  | acc, s :: rest => if s ∈ acc then firstOccsAcc acc rest else firstOccsAcc (acc ++ [s]) rest

/-- the distinct sets in order of first occurrence -/
def firstOccs (sets : List (List Nat)) : List (List Nat) := firstOccsAcc [] sets

theorem inChildren_leaf (s : List Nat) (acc : List (List Nat)) :
    inChildren (.leaf s) (acc.map .leaf) = decide (s ∈ acc) := by
  induction acc with
  | nil => simp [inChildren]
  | cons a acc ih =>
    simp only [inChildren, List.map_cons, List.any_cons] at ih ⊢
    rw [ih]
    by_cases h : s = a <;> simp [h]

theorem dedupChildren_leaves (acc l : List (List Nat)) :
    dedupChildren (acc.map .leaf) (l.map .leaf) = (firstOccsAcc acc l).map .leaf := by
  induction l generalizing acc with
  | nil => simp [dedupChildren, firstOccsAcc]
  | cons s rest ih =>
    simp only [List.map_cons, dedupChildren, firstOccsAcc, inChildren_leaf, decide_eq_true_eq]
    split
    · exact ih acc
    · have := ih (acc ++ [s])
      simpa using this

theorem mkP_leaves (sets : List (List Nat)) : mkP (sets.map .leaf) = .p ((firstOccs sets).map .leaf) := by
  have := dedupChildren_leaves [] sets
  simpa [mkP, firstOccs] using this

theorem firstOccsAcc_spec (acc l : List (List Nat)) (hacc : acc.Nodup) :
    (firstOccsAcc acc l).Nodup ∧ (∀ s, s ∈ firstOccsAcc acc l ↔ s ∈ acc ∨ s ∈ l) ∧
      (firstOccsAcc acc l).length ≤ acc.length + l.length := by
  induction l generalizing acc with
  | nil => simp [firstOccsAcc, hacc]
  | cons x rest ih =>
    simp only [firstOccsAcc]
    split
    · rename_i hx
      obtain ⟨h1, h2, h3⟩ := ih acc hacc
      refine ⟨h1, ?_, by simp only [List.length_cons]; omega⟩
      intro s; rw [h2]
      constructor
      · rintro (h | h)
        · exact .inl h
        · exact .inr (List.mem_cons_of_mem _ h)
      · rintro (h | h)
        · exact .inl h
        · rcases List.mem_cons.1 h with rfl | h
          · exact .inl hx
          · exact .inr h
    · rename_i hx
      have hacc' : (acc ++ [x]).Nodup := by
        rw [List.nodup_append]
        refine ⟨hacc, by simp, ?_⟩
        intro a ha b hb hab
        simp only [List.mem_singleton] at hb
        subst hb; subst hab
        exact hx ha
      obtain ⟨h1, h2, h3⟩ := ih (acc ++ [x]) hacc'
      refine ⟨h1, ?_, by simp only [List.length_append, List.length_cons, List.length_nil] at h3 ⊢; omega⟩
      intro s; rw [h2]
      simp only [List.mem_append, List.mem_cons, List.not_mem_nil, or_false]
      constructor
      · rintro ((h | h) | h)
        · exact .inl h
        · exact .inr (.inl h)
        · exact .inr (.inr h)
      · rintro (h | h | h)
        · exact .inl (.inl h)
        · exact .inl (.inr h)
        · exact .inr h

theorem nodup_firstOccs (sets : List (List Nat)) : (firstOccs sets).Nodup :=
  (firstOccsAcc_spec [] sets (by simp)).1

theorem mem_firstOccs (sets : List (List Nat)) (s : List Nat) : s ∈ firstOccs sets ↔ s ∈ sets := by
  have := (firstOccsAcc_spec [] sets (by simp)).2.1 s
  simpa [firstOccs] using this

theorem length_firstOccs_le (sets : List (List Nat)) : (firstOccs sets).length ≤ sets.length := by
  have := (firstOccsAcc_spec [] sets (by simp)).2.2
  simpa [firstOccs] using this

theorem firstOccs_of_nodup {sets : List (List Nat)} (h : sets.Nodup) : firstOccs sets = sets := by
  have h1 := mkP_leaves sets
  have hfl : frontierList (sets.map .leaf) = sets := frontierList_map_leaf sets
  rw [mkP_eq (by rw [hfl]; exact h)] at h1
  simp only [Tree.p.injEq] at h1
  have := congrArg frontierList h1
  rw [frontierList_map_leaf, frontierList_map_leaf] at this
  exact this.symm

/-- an ordering of at most two sets has every element on an interval -/
theorem vseg_small (e : Nat) : ∀ l : List (List Nat), l.length ≤ 2 → VSeg e l := by
  intro l hl
  match l, hl with
  | [], _ => exact (noV_nil e).vseg
  | [a], _ =>
    by_cases ha : e ∈ a
    · exact AllVL.vseg (by intro x hx; simp only [List.mem_singleton] at hx; subst hx; exact ha)
    · exact NoV.vseg (by intro x hx; simp only [List.mem_singleton] at hx; subst hx; exact ha)
  | [a, b], _ =>
    by_cases ha : e ∈ a
    · refine Pre.vseg ?_
      by_cases hb : e ∈ b
      · exact AllVL.pre (by
          intro x hx
          simp only [List.mem_cons, List.not_mem_nil, or_false] at hx
          rcases hx with rfl | rfl <;> assumption)
      · exact ⟨[a], [b], rfl, by intro x hx; simp only [List.mem_singleton] at hx; subst hx; exact ha,
          by intro x hx; simp only [List.mem_singleton] at hx; subst hx; exact hb⟩
    · refine Suf.vseg ?_
      by_cases hb : e ∈ b
      · exact ⟨[a], [b], rfl, by intro x hx; simp only [List.mem_singleton] at hx; subst hx; exact ha,
          by intro x hx; simp only [List.mem_singleton] at hx; subst hx; exact hb⟩
      · exact NoV.suf (by
          intro x hx
          simp only [List.mem_cons, List.not_mem_nil, or_false] at hx
          rcases hx with rfl | rfl <;> assumption)

/-- **`reorder_sets` on arbitrary input**, with more than two sets: the answer is a rearrangement of the
distinct sets with every element on an interval, and it is `ok` as soon as such a rearrangement exists -/
theorem reorderSetsE_general (sets : List (List Nat)) (hlen : 2 < sets.length) :
    (∀ ord, reorderSetsE sets = .ok ord → ord.Perm (firstOccs sets) ∧ ∀ e, VSeg e ord) ∧
    ((∃ G : List (List Nat), G.Perm (firstOccs sets) ∧ ∀ u, VSeg u G) → ∃ ord, reorderSetsE sets = .ok ord) := by
  have hDnd := nodup_firstOccs sets
  have hfl : frontierList ((firstOccs sets).map .leaf) = firstOccs sets := frontierList_map_leaf _
  have hfr : frontier (.p ((firstOccs sets).map .leaf)) = firstOccs sets := by simp [hfl]
  unfold reorderSetsE
  rw [if_neg (by omega), mkP_leaves]
  simp only []
  by_cases hnc : (Tree.p ((firstOccs sets).map .leaf)).numChildren ≤ 2
  · rw [if_pos hnc]
    simp only [numChildren, children, List.length_map] at hnc
    refine ⟨?_, fun _ => ⟨_, rfl⟩⟩
    intro ord h
    have := ordering_ok h
    subst this
    rw [hfr]
    exact ⟨List.Perm.refl _, fun e => vseg_small e _ hnc⟩
  · rw [if_neg hnc]
    simp only [numChildren, children, List.length_map] at hnc
    have hflat : Flat (.p ((firstOccs sets).map .leaf)) := by
      rw [flat_p]
      refine ⟨by simp only [List.length_map]; omega, ?_⟩
      intro c hc
      obtain ⟨s, _, rfl⟩ := List.mem_map.1 hc
      simp
    have hnd' : (frontier (.p ((firstOccs sets).map .leaf))).Nodup := by rw [hfr]; exact hDnd
    constructor
    · intro ord h
      split at h
      · cases h
      rename_i t ht
      obtain ⟨_, hperm⟩ := mainLoop_ok hflat.wf hnd' ht
      obtain ⟨_, hseg⟩ := mainLoop_sound hflat hnd' ht
      have := ordering_ok h
      subst this
      rw [hfr] at hperm
      refine ⟨hperm, fun e => ?_⟩
      by_cases he : e ∈ unionSet sets
      · exact hseg e he _ (fr_frontier t)
      · apply NoV.vseg
        intro s hs hes
        exact he (mem_unionSet ((mem_firstOccs sets s).1 (hperm.mem_iff.1 hs)) hes)
    · rintro ⟨G, hperm, hv⟩
      have hG : Fr (.p ((firstOccs sets).map .leaf)) G :=
        (fr_p_iff _ _).2 ⟨G.map .leaf, hperm.map _, seq_map_leaf G⟩
      have hle := length_firstOccs_le sets
      obtain ⟨t', ht', hpq⟩ := mainLoop_complete (fuel := fuelBound sets) (elems := unionSet sets) hflat
        hnd' (by rw [hfr]; unfold fuelBound; omega) (by rw [hfr]; omega) hG (fun u _ => hv u)
      rw [ht']
      cases t' with
      | leaf s => simp [isPQ] at hpq
      | p cs => exact ⟨_, rfl⟩
      | q cs => exact ⟨_, rfl⟩

end PrefVerif.PQTree
