import PrefVerif.Lemmas.C05PQSeg
/-!
`simplify` and the orderings: the trees returned by `simplify`, taken in the order returned, only give
orderings of the simplified tree; `simplify(left)` of the reversed tree is the mirror image of
`simplify(right)`.
-/
set_option linter.unusedSimpArgs false
namespace PrefVerif.PQTree
open Tree

theorem fr_newP {l : List Tree} (h : (frontierList l).Nodup) (hne : l ≠ []) (f : List (List Nat)) :
    Fr (newP l) f ↔ Fr (.p l) f := by
  unfold newP
  split
  · rw [mkP_eq h]
  · match l, hne with
    | [c], _ => simp [fr_p_singleton]
    | _ :: _ :: _, _ => simp at *

theorem fr_newQ {l : List Tree} (h : (frontierList l).Nodup) (hne : l ≠ []) (f : List (List Nat)) :
    Fr (newQ l) f ↔ Fr (.q l) f := by
  unfold newQ
  split
  · rw [mkQ_eq h]
  · match l, hne with
    | [c], _ => simp [fr_q_singleton]
    | _ :: _ :: _, _ => simp at *

theorem fr_p_nil (f : List (List Nat)) : Fr (.p []) f ↔ f = [] := by
  rw [fr_p_iff]
  constructor
  · rintro ⟨cs', hp, hs⟩
    rw [List.perm_nil.1 hp] at hs
    exact (seq_nil f).1 hs
  · rintro rfl; exact ⟨[], List.Perm.refl _, (seq_nil _).2 rfl⟩

theorem fr_p_concat {A B : List Tree} {g₁ g₂ : List (List Nat)} (h₁ : Fr (.p A) g₁) (h₂ : Fr (.p B) g₂) :
    Fr (.p (A ++ B)) (g₁ ++ g₂) := by
  obtain ⟨A', hA, hs₁⟩ := (fr_p_iff _ _).1 h₁
  obtain ⟨B', hB, hs₂⟩ := (fr_p_iff _ _).1 h₂
  exact (fr_p_iff _ _).2 ⟨A' ++ B', hA.append hB, (seq_append _ _ _).2 ⟨g₁, g₂, rfl, hs₁, hs₂⟩⟩

/-- the optional `[_new_P(l)]` gives orderings of the `P` node over `l` -/
theorem seq_optP {l : List Tree} (h : (frontierList l).Nodup) {g : List (List Nat)}
    (hg : Seq (if l.isEmpty then [] else [newP l]) g) : Fr (.p l) g := by
  cases l with
  | nil => simp only [List.isEmpty_nil, if_true] at hg; rw [(seq_nil g).1 hg]; exact (fr_p_nil _).2 rfl
  | cons c cs =>
    simp only [List.isEmpty_cons, Bool.false_eq_true, if_false] at hg
    exact (fr_newP h (by simp) g).1 ((seq_singleton _ _).1 hg)

theorem seq_flatMap_of {v : Nat} {right : Bool} (cs : List Tree)
    (ih : ∀ c ∈ cs, synPartial v c = true → (frontier c).Nodup → ∀ g, Seq (simplify v right c) g → Fr c g)
    (hn : (frontierList cs).Nodup) (f : List (List Nat))
    (h : Seq (cs.flatMap (fun c => if synPartial v c then simplify v right c else [c])) f) : Seq cs f := by
  induction cs generalizing f with
  | nil => simpa using h
  | cons c cs ihc =>
    simp only [List.flatMap_cons] at h
    obtain ⟨g1, g2, rfl, hg1, hg2⟩ := (seq_append _ _ _).1 h
    have hnc : (frontier c).Nodup := nodup_frontier_of_mem List.mem_cons_self hn
    have hncs : (frontierList cs).Nodup := nodup_of_sublist_frontier (List.sublist_cons_self c cs) hn
    refine (seq_cons _ _ _).2 ⟨g1, g2, rfl, ?_, ihc (fun d hd => ih d (List.mem_cons_of_mem _ hd)) hncs g2 hg2⟩
    by_cases hs : synPartial v c = true
    · simp only [hs, if_true] at hg1
      exact ih c List.mem_cons_self hs hnc g1 hg1
    · simp only [hs, Bool.false_eq_true, if_false] at hg1
      exact (seq_singleton _ _).1 hg1

/-- **the trees returned by `simplify`, in the order returned, only give orderings of the tree** -/
theorem seq_simplify (v : Nat) (right : Bool) {t : Tree} (hok : SimpOK v t) (hn : (frontier t).Nodup) :
    ∀ f, Seq (simplify v right t) f → Fr t f := by
  induction hok with
  | leaf s => intro f h; simpa [simplify, seq_singleton] using h
  | p cs hlen hch ih =>
    intro f h
    simp only [frontier_p] at hn
    have hE : (frontierList (cs.filter (fun c => !mem v c))).Nodup :=
      nodup_of_sublist_frontier List.filter_sublist hn
    have hF : (frontierList (cs.filter (fun c => mem v c && !synPartial v c))).Nodup :=
      nodup_of_sublist_frontier List.filter_sublist hn
    have hP : ∀ g, Seq (simplifyPartial v right cs []) g → Fr (.p (cs.filter (synPartial v))) g := by
      intro g hg
      rw [simplifyPartial_eq] at hg
      match hf : cs.filter (synPartial v), hlen with
      | [], _ =>
        rw [hf] at hg
        simp only [List.getLast?_nil, Option.map_none, Option.getD_none] at hg
        rw [(seq_nil g).1 hg]; exact (fr_p_nil _).2 rfl
      | [c], _ =>
        rw [hf] at hg
        simp only [List.getLast?_singleton, Option.map_some, Option.getD_some] at hg
        have hc : c ∈ cs.filter (synPartial v) := by simp [hf]
        have hc' := List.mem_filter.1 hc
        exact (fr_p_singleton c g).2 (ih c hc'.1 hc'.2 (nodup_frontier_of_mem hc'.1 hn) g hg)
      | _ :: _ :: _, h => simp at h
    have h3 := split3_perm v cs
    simp only [simplify, simplifyEmpty_eq, simplifyFull_eq] at h
    cases right
    · simp only [Bool.false_eq_true, if_false] at h
      obtain ⟨g12, g3, rfl, h12, hg3⟩ := (seq_append _ _ _).1 h
      obtain ⟨g1, g2, rfl, hg1, hg2⟩ := (seq_append _ _ _).1 h12
      have := fr_p_concat (fr_p_concat (seq_optP hF hg1) (hP g2 hg2)) (seq_optP hE hg3)
      refine fr_p_perm ?_ _ this
      refine List.Perm.trans ?_ h3.symm
      refine List.perm_append_comm.trans ?_
      rw [List.append_assoc]
      exact List.Perm.append_left _ List.perm_append_comm
    · simp only [if_true] at h
      obtain ⟨g12, g3, rfl, h12, hg3⟩ := (seq_append _ _ _).1 h
      obtain ⟨g1, g2, rfl, hg1, hg2⟩ := (seq_append _ _ _).1 h12
      have := fr_p_concat (fr_p_concat (seq_optP hE hg1) (hP g2 hg2)) (seq_optP hF hg3)
      exact fr_p_perm h3.symm _ this
  | q cs hch ih =>
    intro f h
    simp only [frontier_q] at hn
    simp only [simplify, simplifyQ_eq] at h
    exact seq_q _ _ (seq_flatMap_of cs ih hn f h)

/-! ### mirror image -/

theorem reverseList_append (a b : List Tree) : reverseList (a ++ b) = reverseList b ++ reverseList a := by
  simp [reverseList_eq]

theorem frontierList_reverseList (cs : List Tree) : frontierList (reverseList cs) = (frontierList cs).reverse := by
  induction cs with
  | nil => simp [reverseList]
  | cons c cs ih => simp [reverseList, ih, frontier_reverse]

theorem filter_reverseList (P : Tree → Bool) (hP : ∀ c, P (reverse c) = P c) (cs : List Tree) :
    (reverseList cs).filter P = reverseList (cs.filter P) := by
  induction cs with
  | nil => simp [reverseList]
  | cons c cs ih =>
    simp only [reverseList, List.filter_append, ih, List.filter_cons, hP, List.filter_nil]
    by_cases hs : P c = true <;> simp [hs, reverseList]

theorem reverse_newP {l : List Tree} (h : (frontierList l).Nodup) : newP (reverseList l) = reverse (newP l) := by
  have h' : (frontierList (reverseList l)).Nodup := by
    rw [frontierList_reverseList]; exact (List.reverse_perm _).symm.nodup h
  unfold newP
  rw [length_reverseList]
  split
  · rw [mkP_eq h, mkP_eq h']; simp [reverse]
  · match l with
    | [] => simp [reverseList, reverse]
    | [c] => simp [reverseList]
    | _ :: _ :: _ => simp at *

theorem reverseList_optP {l : List Tree} (h : (frontierList l).Nodup) :
    (if (reverseList l).isEmpty then [] else [newP (reverseList l)]) =
      reverseList (if l.isEmpty then [] else [newP l]) := by
  cases l with
  | nil => simp [reverseList]
  | cons c cs =>
    have : (reverseList (c :: cs)).isEmpty = false := by simp [reverseList]
    rw [this, reverse_newP h]
    simp [reverseList]

/-- **`simplify(left)` of the reversed tree mirrors `simplify(right)`** -/
theorem simplify_reverse (v : Nat) {t : Tree} (hok : SimpOK v t) (hn : (frontier t).Nodup) :
    simplify v false (reverse t) = reverseList (simplify v true t) := by
  induction hok with
  | leaf s => simp [simplify, reverse, reverseList]
  | p cs hlen hch ih =>
    simp only [frontier_p] at hn
    have hE : (frontierList (cs.filter (fun c => !mem v c))).Nodup :=
      nodup_of_sublist_frontier List.filter_sublist hn
    have hF : (frontierList (cs.filter (fun c => mem v c && !synPartial v c))).Nodup :=
      nodup_of_sublist_frontier List.filter_sublist hn
    have hP : simplifyPartial v false (reverseList cs) [] = reverseList (simplifyPartial v true cs []) := by
      rw [simplifyPartial_eq, simplifyPartial_eq, filter_syn_reverseList]
      match hf : cs.filter (synPartial v), hlen with
      | [], _ => simp [reverseList]
      | [c], _ =>
        have hc : c ∈ cs.filter (synPartial v) := by simp [hf]
        have hc' := List.mem_filter.1 hc
        simpa [reverseList] using ih c hc'.1 hc'.2 (nodup_frontier_of_mem hc'.1 hn)
      | _ :: _ :: _, h => simp at h
    simp only [reverse, simplify, simplifyEmpty_eq, simplifyFull_eq, Bool.false_eq_true, if_false, if_true]
    rw [filter_reverseList (fun c => !mem v c) (fun c => by simp [mem_reverse]),
      filter_reverseList (fun c => mem v c && !synPartial v c) (fun c => by rw [mem_reverse, synPartial_reverse]),
      reverseList_optP hE, reverseList_optP hF, hP]
    simp only [reverseList_append, List.append_assoc]
  | q cs hch ih =>
    simp only [frontier_q] at hn
    simp only [reverse, simplify, simplifyQ_eq]
    clear hch
    induction cs with
    | nil => simp [reverseList]
    | cons c cs ihc =>
      have hnc : (frontier c).Nodup := nodup_frontier_of_mem List.mem_cons_self hn
      have hncs : (frontierList cs).Nodup := nodup_of_sublist_frontier (List.sublist_cons_self c cs) hn
      simp only [reverseList, List.flatMap_append, List.flatMap_cons, List.flatMap_nil, List.append_nil,
        reverseList_append, synPartial_reverse]
      rw [ihc (fun d hd => ih d (List.mem_cons_of_mem _ hd)) hncs]
      congr 1
      by_cases hs : synPartial v c = true
      · simp only [hs, if_true]
        exact ih c List.mem_cons_self hs hnc
      · simp [hs, reverseList]

end PrefVerif.PQTree
