import PrefVerif.Lemmas.C06Argmax
import PrefVerif.Lemmas.C06Incs
/-! C06: from a score dict to the winner set; well-formedness facts -/
namespace PrefVerif.C06
open PrefVerif PrefVerif.Py PrefVerif.SingleWinner PrefVerif.Spec

section dict
variable {β : Type} [OfNat β 0] [BEq β] [LawfulBEq β] {R : β → β → Prop} {op : β → β → β}

/-- defaultdict-style score table: only scored alternatives have a key, every stored score
is strictly better than `0` -/
theorem posDict_spec (S : Sel R op) (alts : List Nat) (score : Nat → β) (s : AList Nat β)
    (hnd : (AList.keys s).Nodup) (hsub : ∀ a ∈ AList.keys s, a ∈ alts)
    (hval : ∀ a, val s a = score a) (hpos : ∀ p ∈ s, ¬ R p.2 0) (hne : s ≠ []) :
    ∃ ws, selKeys op s = some ws ∧ ∀ a, a ∈ ws ↔ (a ∈ alts ∧ ∀ b ∈ alts, R (score b) (score a)) := by
  apply selKeys_spec S alts score s _ _ hne
  · intro p hp
    refine ⟨hsub _ (mem_keys_of_mem _ _ hp), ?_⟩
    rw [← hval, val, get?_of_mem s hnd p hp]; rfl
  · intro a _
    by_cases hk : a ∈ AList.keys s
    · left
      obtain ⟨p, hp, e⟩ := List.mem_map.1 hk
      exact ⟨p, hp, e⟩
    · right
      have : score a = 0 := by rw [← hval, val, (get?_eq_none_iff s a).2 hk]; rfl
      cases s with
      | nil => exact absurd rfl hne
      | cons q s => exact ⟨q, by simp, by rw [this]; exact hpos q (by simp)⟩

/-- pre-initialised score table: every alternative has a key -/
theorem fullDict_spec (S : Sel R op) (alts : List Nat) (score : Nat → β) (s : AList Nat β)
    (hnd : (AList.keys s).Nodup) (hsub : ∀ a ∈ AList.keys s, a ∈ alts)
    (hall : ∀ a ∈ alts, a ∈ AList.keys s)
    (hval : ∀ a ∈ alts, val s a = score a) (hne : alts ≠ []) :
    ∃ ws, selKeys op s = some ws ∧ ∀ a, a ∈ ws ↔ (a ∈ alts ∧ ∀ b ∈ alts, R (score b) (score a)) := by
  apply selKeys_spec S alts score s
  · intro p hp
    have hm := hsub _ (mem_keys_of_mem _ _ hp)
    refine ⟨hm, ?_⟩
    rw [← hval _ hm, val, get?_of_mem s hnd p hp]; rfl
  · intro a ha
    left
    obtain ⟨p, hp, e⟩ := List.mem_map.1 (hall a ha)
    exact ⟨p, hp, e⟩
  · intro e
    cases alts with
    | nil => exact hne rfl
    | cons a _ => have := hall a (by simp); simp [e, AList.keys] at this

end dict

/-! ### well-formedness -/

theorem wfOrder_iff (alts : List Nat) (o : Order) :
    wfOrder alts o = true ↔ o ≠ [] ∧ (∀ c ∈ o, c ≠ []) ∧ (∀ a ∈ o.flatten, a ∈ alts) ∧ o.flatten.Nodup := by
  simp only [wfOrder, Bool.and_eq_true, Bool.not_eq_true', List.isEmpty_eq_false_iff, List.all_eq_true,
    List.contains_iff_mem, decide_eq_true_eq, and_assoc]

theorem wfInst_iff (i : Inst) :
    wfInst i = true ↔ i.alts.Nodup ∧ i.profile ≠ [] ∧
      ∀ om ∈ i.profile, wfOrder i.alts om.1 = true ∧ 1 ≤ om.2 := by
  simp only [wfInst, Bool.and_eq_true, decide_eq_true_eq, Bool.not_eq_true', List.isEmpty_eq_false_iff,
    List.all_eq_true, ge_iff_le, and_assoc]

theorem head_mem_of_wf {alts : List Nat} {o : Order} (h : wfOrder alts o = true) :
    o.headD [] ≠ [] ∧ (∀ a ∈ o.headD [], a ∈ alts) ∧ (o.headD []).Nodup := by
  obtain ⟨h1, h2, h3, h4⟩ := (wfOrder_iff alts o).1 h
  cases o with
  | nil => exact absurd rfl h1
  | cons c o =>
    simp only [List.headD_cons]
    refine ⟨h2 c (by simp), fun a ha => h3 a (by simp [ha]), ?_⟩
    rw [List.flatten_cons] at h4
    exact (List.nodup_append.1 h4).1

theorem typeOf_mem (alts : List Nat) (p : Profile) : typeOf alts p ∈ ordinal4 := by
  simp only [typeOf, ordinal4]
  split
  · simp
  · split
    · simp
    · split <;> simp

theorem typeOf_strict (alts : List Nat) (p : Profile) (h : typeOf alts p = "soc" ∨ typeOf alts p = "soi") :
    ∀ om ∈ p, isStrictOrder om.1 = true := by
  have : p.all (fun om => isStrictOrder om.1) = true := by
    revert h
    simp only [typeOf]
    cases p.all (fun om => isStrictOrder om.1) <;> cases p.all (fun om => isCompleteOrder alts om.1) <;> decide
  simpa using this

theorem typeOf_complete (alts : List Nat) (p : Profile) (h : typeOf alts p = "soc" ∨ typeOf alts p = "toc") :
    ∀ om ∈ p, isCompleteOrder alts om.1 = true := by
  have : p.all (fun om => isCompleteOrder alts om.1) = true := by
    revert h
    simp only [typeOf]
    cases p.all (fun om => isStrictOrder om.1) <;> cases p.all (fun om => isCompleteOrder alts om.1) <;> decide
  simpa using this

end PrefVerif.C06
