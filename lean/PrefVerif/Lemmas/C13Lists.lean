import PrefVerif.Model.SPTree
/-!
# C13 helper lemmas — list facts about `restrict`, `bOfVoter`, `getB`, `bottoms`
-/
namespace PrefVerif.C13
open PrefVerif.SPTree

theorem mem_restrict {o C : List Nat} {x : Nat} : x ∈ restrict o C ↔ x ∈ o ∧ x ∈ C := by
  simp [restrict, List.mem_filter]

theorem restrict_nodup {o : List Nat} (C : List Nat) (h : o.Nodup) : (restrict o C).Nodup :=
  h.sublist List.filter_sublist

theorem restrict_filter (o C : List Nat) (a : Nat) :
    restrict o (C.filter (· != a)) = (restrict o C).filter (· != a) := by
  unfold restrict
  rw [List.filter_filter]
  apply List.filter_congr
  intro x _
  by_cases hx : x = a <;> simp [hx, List.mem_filter]

theorem restrict_self {o C : List Nat} (h : ∀ x ∈ o, x ∈ C) : restrict o C = o := by
  unfold restrict
  exact List.filter_eq_self.2 (fun x hx => by simpa using h x hx)

theorem mem_inter {a b : List Nat} {x : Nat} : x ∈ inter a b ↔ x ∈ a ∧ x ∈ b := by
  simp [inter, List.mem_filter]

theorem mem_foldl_inter {x : Nat} : ∀ (bs : List (List Nat)) (b : List Nat),
    x ∈ bs.foldl inter b ↔ x ∈ b ∧ ∀ l ∈ bs, x ∈ l := by
  intro bs
  induction bs with
  | nil => intro b; simp
  | cons c cs ih =>
    intro b
    rw [List.foldl_cons, ih, mem_inter]
    simp only [List.mem_cons, forall_eq_or_imp]
    exact and_assoc

/-- `getB` is a genuine intersection over all voters -/
theorem mem_getB {orders : List (List Nat)} {C : List Nat} {a x : Nat}
    (h : x ∈ getB orders C a) : ∀ o ∈ orders, x ∈ bOfVoter (restrict o C) a := by
  cases orders with
  | nil => intro o ho; cases ho
  | cons o os =>
    simp only [getB, List.map_cons] at h
    rw [mem_foldl_inter] at h
    intro o' ho'
    rcases List.mem_cons.1 ho' with rfl | ho'
    · exact h.1
    · exact h.2 _ (List.mem_map.2 ⟨o', ho', rfl⟩)

theorem getB_ne_nil_orders {orders : List (List Nat)} {C : List Nat} {a x : Nat}
    (h : x ∈ getB orders C a) : orders ≠ [] := by
  rintro rfl
  simp [getB] at h

theorem mem_takeWhile_ne {a x : Nat} : ∀ (l : List Nat), x ∈ l.takeWhile (fun c => c != a) →
    x ∈ l ∧ x ≠ a := by
  intro l
  induction l with
  | nil => intro h; cases h
  | cons y t ih =>
    intro h
    rw [List.takeWhile_cons] at h
    split at h
    · next hy =>
      rcases List.mem_cons.1 h with rfl | h
      · exact ⟨List.mem_cons_self .., by simpa using hy⟩
      · exact ⟨List.mem_cons_of_mem _ (ih h).1, (ih h).2⟩
    · cases h

/-- members of `B(i, a)` are other alternatives of the restricted order -/
theorem mem_bOfVoter {r : List Nat} {a b : Nat} (hr : r.Nodup) (h : b ∈ bOfVoter r a) :
    b ∈ r ∧ b ≠ a := by
  cases r with
  | nil => cases h
  | cons top rest =>
    simp only [bOfVoter] at h
    split at h
    · next htop =>
      have htop : top = a := by simpa using htop
      cases rest with
      | nil => cases h
      | cons second tl =>
        simp only [List.mem_singleton] at h
        subst h; subst htop
        refine ⟨by simp, ?_⟩
        intro hb
        have := (List.nodup_cons.1 hr).1
        exact this (hb ▸ List.mem_cons_self ..)
    · exact mem_takeWhile_ne _ h

/-- what precedes `a` lies in every prefix containing `a` -/
theorem mem_take_of_mem_takeWhile {a x : Nat} : ∀ (l : List Nat) (k : Nat), a ∈ l.take k →
    x ∈ l.takeWhile (fun c => c != a) → x ∈ l.take k := by
  intro l
  induction l with
  | nil => intro k _ h; cases h
  | cons y t ih =>
    intro k ha hx
    cases k with
    | zero => cases ha
    | succ k =>
      rw [List.takeWhile_cons] at hx
      rw [List.take_succ_cons] at ha ⊢
      split at hx
      · next hy =>
        have hya : y ≠ a := by simpa using hy
        rcases List.mem_cons.1 hx with rfl | hx
        · exact List.mem_cons_self ..
        · rcases List.mem_cons.1 ha with rfl | ha
          · exact absurd rfl hya
          · exact List.mem_cons_of_mem _ (ih k ha hx)
      · cases hx

/-- the key fact behind Trick's attachment rule: a prefix of the restricted order that contains `a`
either contains nothing else or contains `b ∈ B(i, a)` -/
theorem bOfVoter_take {r : List Nat} {a b : Nat} (h : b ∈ bOfVoter r a) (k : Nat)
    (ha : a ∈ r.take k) : (r.take k).filter (· != a) = [] ∨ b ∈ r.take k := by
  cases r with
  | nil => cases h
  | cons top rest =>
    simp only [bOfVoter] at h
    split at h
    · next htop =>
      have htop : top = a := by simpa using htop
      cases rest with
      | nil => cases h
      | cons second tl =>
        simp only [List.mem_singleton] at h
        subst h; subst htop
        match k with
        | 0 => cases ha
        | 1 => left; simp
        | k + 2 => right; simp
    · exact Or.inr (mem_take_of_mem_takeWhile _ k ha h)

/-- filtering a prefix gives a prefix of the filtered list -/
theorem take_filter_prefix (p : Nat → Bool) : ∀ (l : List Nat) (k : Nat),
    ∃ j, (l.take k).filter p = (l.filter p).take j := by
  intro l
  induction l with
  | nil => intro k; exact ⟨0, by simp⟩
  | cons y t ih =>
    intro k
    cases k with
    | zero => exact ⟨0, by simp⟩
    | succ k =>
      obtain ⟨j, hj⟩ := ih k
      rw [List.take_succ_cons]
      by_cases hy : p y = true
      · exact ⟨j + 1, by simp [hy, hj]⟩
      · exact ⟨j, by simp [hy, hj]⟩

theorem length_filter_ne {a : Nat} : ∀ (C : List Nat), C.Nodup → a ∈ C →
    (C.filter (· != a)).length + 1 = C.length := by
  intro C
  induction C with
  | nil => intro _ h; cases h
  | cons y t ih =>
    intro hnd ha
    have ⟨hy, ht⟩ := List.nodup_cons.1 hnd
    by_cases hya : y = a
    · subst hya
      have : t.filter (· != y) = t :=
        List.filter_eq_self.2 (fun x hx => by
          have : x ≠ y := fun h => hy (h ▸ hx)
          simpa using this)
      simp [this]
    · have hat : a ∈ t := by
        rcases List.mem_cons.1 ha with rfl | h
        · exact absurd rfl hya
        · exact h
      have := ih ht hat
      simp [hya, this]

theorem nodup_eraseDups : ∀ (n : Nat) (l : List Nat), l.length ≤ n → l.eraseDups.Nodup := by
  intro n
  induction n with
  | zero =>
    intro l hl
    have : l = [] := List.eq_nil_of_length_eq_zero (by omega)
    subst this; simp
  | succ n ih =>
    intro l hl
    cases l with
    | nil => simp
    | cons a t =>
      rw [List.eraseDups_cons, List.nodup_cons]
      constructor
      · rw [List.mem_eraseDups, List.mem_filter]
        rintro ⟨_, h⟩
        simp at h
      · apply ih
        have := List.length_filter_le (fun b => !b == a) t
        simp only [List.length_cons] at hl
        omega

theorem bottoms_nodup (orders : List (List Nat)) (C : List Nat) : (bottoms orders C).Nodup :=
  nodup_eraseDups _ _ (Nat.le_refl _)

theorem mem_bottoms {orders : List (List Nat)} {C : List Nat} {a : Nat}
    (h : a ∈ bottoms orders C) : a ∈ C := by
  unfold bottoms at h
  rw [List.mem_eraseDups, List.mem_filterMap] at h
  obtain ⟨o, _, ho⟩ := h
  exact (mem_restrict.1 (List.mem_of_getLast? ho)).2

theorem bottoms_ne_nil {orders : List (List Nat)} {C : List Nat} {o : List Nat} {c : Nat}
    (ho : o ∈ orders) (hc : c ∈ C) (hco : c ∈ o) : bottoms orders C ≠ [] := by
  have hr : restrict o C ≠ [] := List.ne_nil_of_mem (mem_restrict.2 ⟨hco, hc⟩)
  have hmem : (restrict o C).getLast hr ∈ bottoms orders C := by
    unfold bottoms
    rw [List.mem_eraseDups, List.mem_filterMap]
    exact ⟨o, ho, List.getLast?_eq_some_getLast hr⟩
  exact List.ne_nil_of_mem hmem

end PrefVerif.C13
