import PrefVerif.Lemmas.C05Seg
/-!
# C05 helper lemmas, part 2: the checker `contiguous` decides `Seg`/`Interval`
-/
namespace PrefVerif.C05
open PrefVerif.Spec

variable {α : Type}

theorem mem_takeWhile_imp {f : α → Bool} {l : List α} {x : α} (h : x ∈ l.takeWhile f) : f x = true := by
  induction l with
  | nil => simp at h
  | cons a l ih =>
    by_cases ha : f a = true
    · rw [List.takeWhile_cons_of_pos ha] at h
      rcases List.mem_cons.1 h with rfl | h
      · exact ha
      · exact ih h
    · rw [List.takeWhile_cons_of_neg ha] at h; simp at h

theorem dropWhile_append_of_all {f : α → Bool} (A R : List α) (h : ∀ x ∈ A, f x = true) :
    (A ++ R).dropWhile f = R.dropWhile f := by
  induction A with
  | nil => rfl
  | cons a A ih =>
    have ha : f a = true := h a (by simp)
    rw [List.cons_append, List.dropWhile_cons_of_pos ha]
    exact ih (fun x hx => h x (by simp [hx]))

theorem dropWhile_of_all {f : α → Bool} (A : List α) (h : ∀ x ∈ A, f x = true) : A.dropWhile f = [] := by
  simpa using dropWhile_append_of_all A [] h

theorem dropWhile_of_none {f : α → Bool} (L : List α) (h : ∀ x ∈ L, f x = false) : L.dropWhile f = L := by
  cases L with
  | nil => rfl
  | cons a L => rw [List.dropWhile_cons_of_neg (by simp [h a (by simp)])]

theorem trimmed_all_iff_seg (m : α → Bool) (l : List α) :
    ((l.dropWhile (fun a => !m a)).reverse.dropWhile (fun a => !m a)).all m = true ↔
      Seg (fun a => m a = true) l := by
  constructor
  · intro h
    simp only [List.all_eq_true] at h
    have h1 := (List.takeWhile_append_dropWhile (p := fun a => !m a) (l := l)).symm
    have h2 := (List.takeWhile_append_dropWhile (p := fun a => !m a)
      (l := (l.dropWhile (fun a => !m a)).reverse)).symm
    have h3 : l.dropWhile (fun a => !m a) =
        (((l.dropWhile (fun a => !m a)).reverse).dropWhile (fun a => !m a)).reverse ++
        (((l.dropWhile (fun a => !m a)).reverse).takeWhile (fun a => !m a)).reverse := by
      rw [← List.reverse_append, ← h2, List.reverse_reverse]
    refine ⟨l.takeWhile (fun a => !m a),
      (((l.dropWhile (fun a => !m a)).reverse).dropWhile (fun a => !m a)).reverse,
      (((l.dropWhile (fun a => !m a)).reverse).takeWhile (fun a => !m a)).reverse, ?_, ?_, ?_, ?_⟩
    · rw [List.append_assoc, ← h3]; exact h1
    · intro x hx; have := mem_takeWhile_imp hx; simpa using this
    · intro x hx; exact h x (List.mem_reverse.1 hx)
    · intro x hx; have := mem_takeWhile_imp (List.mem_reverse.1 hx); simpa using this
  · rintro ⟨A, B, C, rfl, hA, hB, hC⟩
    have hA' : ∀ x ∈ A, (!m x) = true := by intro x hx; simpa using hA x hx
    have hC' : ∀ x ∈ C.reverse, (!m x) = true := by
      intro x hx; simpa using hC x (List.mem_reverse.1 hx)
    have hB' : ∀ x ∈ B.reverse, (!m x) = false := by
      intro x hx; simpa using hB x (List.mem_reverse.1 hx)
    rw [List.append_assoc, dropWhile_append_of_all A _ hA']
    cases B with
    | nil =>
      have : ∀ x ∈ C, (!m x) = true := by intro x hx; simpa using hC x hx
      rw [List.nil_append, dropWhile_of_all C this]; rfl
    | cons b B =>
      have hb : ¬ (!m b) = true := by simpa using hB b (by simp)
      rw [List.cons_append, List.dropWhile_cons_of_neg (p := fun a => !m a) hb, ← List.cons_append, List.reverse_append,
        dropWhile_append_of_all _ _ hC', dropWhile_of_none _ hB']
      simp only [List.all_eq_true]
      intro x hx; exact hB x (List.mem_reverse.1 hx)

theorem contiguous_iff_seg (axis S : List Nat) : contiguous axis S = true ↔ Seg (· ∈ S) axis := by
  have := trimmed_all_iff_seg (fun a => S.contains a) axis
  unfold contiguous
  simp only [List.contains_iff_mem] at this
  exact this

theorem contiguous_iff_interval (axis S : List Nat) : contiguous axis S = true ↔ Interval (· ∈ S) axis :=
  (contiguous_iff_seg axis S).trans interval_iff_seg.symm

end PrefVerif.C05
