import PrefVerif.Lemmas.C05PQSimplify
/-!
The children sorted by flag (`select`), `mapE`, and the possible outcomes of the restructuring step of
`P.set_contiguous` as an explicit case list (`restructureP_shape`).
-/
set_option linter.unusedSimpArgs false
namespace PrefVerif.PQTree
open Tree

/-! ### `select` -/

theorem mem_select {c : Tree} {f : Flag} {rs : List (Tree × Flag)} : c ∈ select f rs ↔ (c, f) ∈ rs := by
  simp only [select, List.mem_map, List.mem_filter, beq_iff_eq]
  constructor
  · rintro ⟨⟨c', f'⟩, ⟨hm, hf⟩, rfl⟩
    simp only at hf
    subst hf
    exact hm
  · intro h
    exact ⟨(c, f), ⟨h, rfl⟩, rfl⟩

theorem select_sublist (f : Flag) (rs : List (Tree × Flag)) : (select f rs).Sublist (rs.map (·.1)) :=
  List.Sublist.map _ List.filter_sublist

theorem select_cons (f : Flag) (r : Tree × Flag) (rs : List (Tree × Flag)) :
    select f (r :: rs) = if r.2 = f then r.1 :: select f rs else select f rs := by
  simp only [select, List.filter_cons, beq_iff_eq]
  split <;> simp

theorem select_perm4 (rs : List (Tree × Flag)) :
    (rs.map (·.1)).Perm (select .full rs ++ select .empty rs ++ select .partialAligned rs ++
      select .partialUnaligned rs) := by
  induction rs with
  | nil => simp [select]
  | cons r rs ih =>
    obtain ⟨c, f⟩ := r
    simp only [List.map_cons, select_cons]
    cases f
    · simpa using ih
    · simp only [reduceCtorEq, if_false, if_true]
      refine (List.Perm.cons c ih).trans ?_
      simp only [List.append_assoc]
      exact List.perm_middle.symm
    · simp only [reduceCtorEq, if_false, if_true]
      refine (List.Perm.cons c ih).trans ?_
      simp only [List.append_assoc, List.cons_append]
      exact List.perm_middle.symm.trans (List.Perm.append_left _ List.perm_middle.symm)
    · simp only [reduceCtorEq, if_false, if_true]
      refine (List.Perm.cons c ih).trans ?_
      exact List.perm_middle.symm

theorem select_length_sum (rs : List (Tree × Flag)) :
    rs.length = (select .full rs).length + (select .empty rs).length +
      (select .partialAligned rs).length + (select .partialUnaligned rs).length := by
  have := (select_perm4 rs).length_eq
  simp only [List.length_map, List.length_append] at this
  omega

theorem select_all {f : Flag} {rs : List (Tree × Flag)} (h : (select f rs).length = rs.length) :
    ∀ r ∈ rs, r.2 = f := by
  induction rs with
  | nil => simp
  | cons r rs ih =>
    have hle : (select f rs).length ≤ rs.length := by
      simpa using (select_sublist f rs).length_le
    rw [select_cons] at h
    split at h
    · rename_i hr
      intro r' hr'
      rcases List.mem_cons.1 hr' with rfl | hr'
      · exact hr
      · exact ih (by simpa using h) r' hr'
    · simp only [List.length_cons] at h
      omega

theorem select_eq_nil_of_all {f g : Flag} {rs : List (Tree × Flag)} (h : ∀ r ∈ rs, r.2 = g) (hfg : f ≠ g) :
    select f rs = [] := by
  cases hs : select f rs with
  | nil => rfl
  | cons c cs =>
    have : c ∈ select f rs := by simp [hs]
    have := h _ (mem_select.1 this)
    exact absurd this.symm (by simpa using hfg.symm)

/-! ### `mapE` -/

inductive Forall2 {α β : Type} (R : α → β → Prop) : List α → List β → Prop
  | nil : Forall2 R [] []
  | cons {a : α} {b : β} {as : List α} {bs : List β} : R a b → Forall2 R as bs → Forall2 R (a :: as) (b :: bs)

theorem mapE_ok {α β : Type} {f : α → Except Err β} {l : List α} {r : List β} (h : mapE f l = .ok r) :
    Forall2 (fun a b => f a = .ok b) l r := by
  induction l generalizing r with
  | nil =>
    simp only [mapE, Except.ok.injEq] at h
    subst h
    exact .nil
  | cons a as ih =>
    simp only [mapE] at h
    split at h
    · cases h
    · rename_i b hb
      split at h
      · cases h
      · rename_i bs hbs
        simp only [Except.ok.injEq] at h
        subst h
        exact .cons hb (ih hbs)

theorem forall₂_length {α β : Type} {R : α → β → Prop} {l : List α} {r : List β}
    (h : Forall2 R l r) : l.length = r.length := by
  induction h with
  | nil => rfl
  | cons _ _ ih => simp [ih]

/-! ### the outcomes of `restructureP` -/

/-- the optional `[_new_P(set_FULL)]` -/
def optP (l : List Tree) : List Tree := if l.isEmpty then [] else [newP l]

theorem restructureP_shape {v : Nat} {rs : List (Tree × Flag)} {t' : Tree} {f' : Flag}
    (h : restructureP v rs = .ok (t', f')) :
    ((select .full rs).length = rs.length ∧ t' = .p (rs.map (·.1)) ∧ f' = .full) ∨
    ((select .empty rs).length = rs.length ∧ t' = .p (rs.map (·.1)) ∧ f' = .empty) ∨
    ((select .partialUnaligned rs).length = 1 ∧ (select .empty rs).length + 1 = rs.length ∧
        t' = .p (rs.map (·.1)) ∧ f' = .partialUnaligned) ∨
    ((select .partialAligned rs).length = 1 ∧ (select .empty rs).length + 1 = rs.length ∧
        t' = .p (select .empty rs ++ select .partialAligned rs) ∧ f' = .partialAligned) ∨
    (select .partialUnaligned rs = [] ∧ select .partialAligned rs = [] ∧ select .full rs ≠ [] ∧
        select .empty rs ≠ [] ∧
        t' = .p (select .empty rs ++ [newQ [newP (select .full rs)]]) ∧ f' = .partialAligned) ∨
    (select .partialUnaligned rs = [] ∧ select .full rs ≠ [] ∧
        ∃ c0, select .partialAligned rs = [c0] ∧
        t' = .p (select .empty rs ++ [newQ (simplify v true c0 ++ [newP (select .full rs)])]) ∧
        f' = .partialAligned) ∨
    (select .partialUnaligned rs = [] ∧
        ∃ c0 c1, select .partialAligned rs = [c0, c1] ∧
        t' = .p (select .empty rs ++
          [newQ (simplify v true c0 ++ optP (select .full rs) ++ simplify v false (Tree.reverse c1))]) ∧
        f' = .partialUnaligned) := by
  have hsum := select_length_sum rs
  unfold restructureP at h
  simp only [List.length_map] at h
  split at h
  · cases h
  rename_i h1
  split at h
  · rename_i h2
    simp only [Except.ok.injEq, Prod.mk.injEq] at h
    exact .inl ⟨by simpa using h2, h.1.symm, h.2.symm⟩
  rename_i h2
  split at h
  · rename_i h3
    simp only [Except.ok.injEq, Prod.mk.injEq] at h
    exact .inr (.inl ⟨by simpa using h3, h.1.symm, h.2.symm⟩)
  rename_i h3
  split at h
  · rename_i h4
    simp only [Except.ok.injEq, Prod.mk.injEq] at h
    simp only [beq_iff_eq] at h4
    refine .inr (.inr (.inl ⟨h4, ?_, h.1.symm, h.2.symm⟩))
    simp only [gt_iff_lt, ge_iff_le, bne_iff_ne, ne_eq, Bool.or_eq_true, decide_eq_true_eq,
      Bool.and_eq_true, not_or, not_and, Decidable.not_not] at h1
    exact h1.2 (by omega)
  rename_i h4
  split at h
  · rename_i h5
    simp only [Except.ok.injEq, Prod.mk.injEq] at h
    simp only [Bool.and_eq_true, beq_iff_eq] at h5
    exact .inr (.inr (.inr (.inl ⟨h5.1, h5.2, h.1.symm, h.2.symm⟩)))
  rename_i h5
  simp only [gt_iff_lt, ge_iff_le, bne_iff_ne, ne_eq, Bool.or_eq_true, decide_eq_true_eq,
    Bool.and_eq_true, not_or, not_and, Decidable.not_not, beq_iff_eq] at h1 h2 h3 h4 h5
  have hPU : select .partialUnaligned rs = [] := by
    apply List.eq_nil_of_length_eq_zero
    by_cases hz : (select .partialUnaligned rs).length = 0
    · exact hz
    · have := h1.2 (by omega); omega
  have hE : (if (select .empty rs).length > 0 then select .empty rs else []) = select .empty rs := by
    split
    · rfl
    · rename_i hz
      exact (List.eq_nil_of_length_eq_zero (by omega)).symm
  rw [hE] at h
  simp only [hPU, List.length_nil] at hsum
  have hFpos : select .full rs ≠ [] → ((select .full rs).length > 0) = True := by
    intro hF; simpa using List.length_pos_iff.2 hF
  match hs : select .partialAligned rs with
  | [] =>
    simp only [hs, List.length_nil] at hsum h5 h
    have hF : select .full rs ≠ [] := by
      intro hF
      simp only [hF, List.length_nil] at hsum
      exact h3 (by omega)
    have hEne : select .empty rs ≠ [] := by
      intro hE'
      simp only [hE', List.length_nil] at hsum
      exact h2 (by omega)
    simp [hFpos hF] at h
    exact .inr (.inr (.inr (.inr (.inl ⟨hPU, rfl, hF, hEne, h.1.symm, h.2.symm⟩))))
  | [c0] =>
    simp only [hs, List.length_cons, List.length_nil] at hsum h5 h
    have hF : select .full rs ≠ [] := by
      intro hF
      simp only [hF, List.length_nil] at hsum
      exact h5 trivial (by omega)
    simp [hFpos hF] at h
    exact .inr (.inr (.inr (.inr (.inr (.inl ⟨hPU, hF, c0, rfl, h.1.symm, h.2.symm⟩)))))
  | [c0, c1] =>
    simp only [hs, List.length_cons, List.length_nil] at h
    refine .inr (.inr (.inr (.inr (.inr (.inr ⟨hPU, c0, c1, rfl, ?_⟩)))))
    by_cases hF : select .full rs = []
    · simp [hF] at h
      simp [optP, hF, h.1.symm, h.2.symm]
    · simp [hFpos hF] at h
      simp [optP, hF, h.1.symm, h.2.symm]
  | _ :: _ :: _ :: _ =>
    simp [hs] at h1

/-! ### the outcomes of `restructureQ` and of one round of its loop -/

theorem restructureQ_shape {v : Nat} {rs : List (Tree × Flag)} {t' : Tree} {f' : Flag}
    (h : restructureQ v rs = .ok (t', f')) :
    ∃ rs', (rs' = rs ∨ rs' = rs.reverse) ∧ rs ≠ [] ∧
    (((select .full rs).length = rs.length ∧ t' = .q (rs'.map (·.1)) ∧ f' = .full) ∨
     ((select .empty rs).length = rs.length ∧ t' = .q (rs'.map (·.1)) ∧ f' = .empty) ∨
     ((select .partialUnaligned rs).length = 1 ∧ (select .empty rs).length + 1 = rs.length ∧
        t' = .q (rs'.map (·.1)) ∧ f' = .partialUnaligned) ∨
     ((select .partialAligned rs).length = 1 ∧ (select .empty rs).length + 1 = rs.length ∧
        t' = .q (rs'.map (·.1)) ∧
        ((f' = .partialAligned ∧ rs'.getLast?.map (·.2) = some .partialAligned) ∨ f' = .partialUnaligned)) ∨
     (select .partialUnaligned rs = [] ∧ (select .partialAligned rs).length ≤ 2 ∧
        (select .full rs).length ≠ rs.length ∧ (select .empty rs).length ≠ rs.length ∧
        ∃ st, qLoop v ⟨[], false, false⟩ rs' = .ok st ∧ t' = .q st.newChildren ∧
          f' = if st.seenRightEnd then .partialUnaligned else .partialAligned)) := by
  have hsum := select_length_sum rs
  unfold restructureQ at h
  simp only [] at h
  split at h
  · cases h
  rename_i last hlast
  have hne : rs ≠ [] := by
    intro hnil; simp [hnil] at hlast
  generalize hrs' : (if (last.2 == Flag.empty || last.2 == Flag.partialAligned &&
      (select Flag.full rs).length + 1 == rs.length) = true then rs.reverse else rs) = rs' at h
  have hrs'' : rs' = rs ∨ rs' = rs.reverse := by
    rw [← hrs']; split
    · exact .inr rfl
    · exact .inl rfl
  refine ⟨rs', hrs'', hne, ?_⟩
  split at h
  · cases h
  rename_i h1
  split at h
  · rename_i h2
    simp only [Except.ok.injEq, Prod.mk.injEq] at h
    exact .inl ⟨by simpa using h2, h.1.symm, h.2.symm⟩
  rename_i h2
  split at h
  · rename_i h3
    simp only [Except.ok.injEq, Prod.mk.injEq] at h
    exact .inr (.inl ⟨by simpa using h3, h.1.symm, h.2.symm⟩)
  rename_i h3
  simp only [gt_iff_lt, ge_iff_le, bne_iff_ne, ne_eq, Bool.or_eq_true, decide_eq_true_eq,
    Bool.and_eq_true, not_or, not_and, Decidable.not_not, beq_iff_eq] at h1 h2 h3
  split at h
  · rename_i h4
    simp only [Except.ok.injEq, Prod.mk.injEq] at h
    simp only [beq_iff_eq] at h4
    exact .inr (.inr (.inl ⟨h4, h1.2 (by omega), h.1.symm, h.2.symm⟩))
  rename_i h4
  simp only [beq_iff_eq] at h4
  split at h
  · rename_i h5
    simp only [Bool.and_eq_true, beq_iff_eq] at h5
    split at h
    · rename_i h6
      simp only [Except.ok.injEq, Prod.mk.injEq] at h
      exact .inr (.inr (.inr (.inl ⟨h5.1, h5.2, h.1.symm, .inl ⟨h.2.symm, by simpa using h6⟩⟩)))
    · simp only [Except.ok.injEq, Prod.mk.injEq] at h
      exact .inr (.inr (.inr (.inl ⟨h5.1, h5.2, h.1.symm, .inr h.2.symm⟩)))
  rename_i h5
  have hPU : select .partialUnaligned rs = [] := by
    apply List.eq_nil_of_length_eq_zero
    by_cases hz : (select .partialUnaligned rs).length = 0
    · exact hz
    · have := h1.2 (by omega); omega
  split at h
  · cases h
  rename_i st hst
  simp only [Except.ok.injEq, Prod.mk.injEq] at h
  exact .inr (.inr (.inr (.inr ⟨hPU, by omega, h2, h3, st, hst, h.1.symm, h.2.symm⟩)))

/-- one round of the loop of `Q.set_contiguous`, by the flag of the child -/
theorem qStep_shape {v : Nat} {st st' : QLoop} {i : Tree} {f : Flag} (h : qStep v st (i, f) = .ok st') :
    (f = .empty ∧ st' = ⟨st.newChildren ++ [i], st.seenNonempty,
        if st.seenNonempty then true else st.seenRightEnd⟩) ∨
    (f = .full ∧ st.seenRightEnd = false ∧ st' = ⟨st.newChildren ++ [i], true, false⟩) ∨
    (f = .partialAligned ∧ st.seenRightEnd = false ∧ st.seenNonempty = true ∧
        st' = ⟨st.newChildren ++ simplify v false (Tree.reverse i), true, true⟩) ∨
    (f = .partialAligned ∧ st.seenRightEnd = false ∧ st.seenNonempty = false ∧
        st' = ⟨st.newChildren ++ simplify v true i, true, false⟩) := by
  obtain ⟨nc, sn, sre⟩ := st
  cases f <;> cases sn <;> cases sre <;>
    simp [qStep, Flag.fill, Flag.aligned, EMPTY, PARTIAL, FULL, ALIGNED, UNALIGNED] at h ⊢ <;>
    exact h.symm

end PrefVerif.PQTree
