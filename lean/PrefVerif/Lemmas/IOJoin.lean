import PrefVerif.Lemmas.IOStr
/-!
# Reusable facts about `join` (`sep.join(parts)`) and `stripCommaSpace` (`s.strip(", ")`)

The writers build a line as `"".join(piece + ", " for piece in …).strip(", ")`; these lemmas turn
that into `", ".join(pieces)`.
-/
namespace PrefVerif.IOL
open PrefVerif.Py

theorem join_nil (sep : Str) : join sep [] = [] := by simp [join, List.intercalate]
theorem join_singleton (sep a : Str) : join sep [a] = a := by simp [join, List.intercalate]
theorem join_cons_cons (sep a b : Str) (l : List Str) :
    join sep (a :: b :: l) = a ++ sep ++ join sep (b :: l) := by
  simp [join, List.intercalate_cons_cons]

/-- concatenating `piece ++ sep` over a non-empty list is joining with `sep` plus a trailing `sep` -/
theorem flatten_map_append_sep {α : Type} (f : α → Str) (sep : Str) (l : List α) (h : l ≠ []) :
    (l.map (fun x => f x ++ sep)).flatten = join sep (l.map f) ++ sep := by
  induction l with
  | nil => exact absurd rfl h
  | cons a l ih =>
    cases l with
    | nil => simp [join_singleton]
    | cons b l =>
      have := ih (by simp)
      simp only [List.map_cons, List.flatten_cons] at this ⊢
      rw [this, join_cons_cons]; simp

/-- every character of a joined string comes from the separator or from a part -/
theorem mem_join {sep : Str} {l : List Str} {c : Char} (h : c ∈ join sep l) :
    c ∈ sep ∨ ∃ x ∈ l, c ∈ x := by
  induction l with
  | nil => simp [join_nil] at h
  | cons a l ih =>
    cases l with
    | nil => rw [join_singleton] at h; exact Or.inr ⟨a, by simp, h⟩
    | cons b l =>
      rw [join_cons_cons] at h
      rcases List.mem_append.1 h with h | h
      · rcases List.mem_append.1 h with h | h
        · exact Or.inr ⟨a, by simp, h⟩
        · exact Or.inl h
      · rcases ih h with h | ⟨x, hx, hc⟩
        · exact Or.inl h
        · exact Or.inr ⟨x, by simp [hx], hc⟩

theorem filter_join (q : Char → Bool) (sep : Str) (l : List Str) :
    (join sep l).filter q = join (sep.filter q) (l.map (fun x => x.filter q)) := by
  induction l with
  | nil => simp [join_nil]
  | cons a l ih =>
    cases l with
    | nil => simp [join_singleton]
    | cons b l =>
      simp only [List.map_cons] at ih ⊢
      rw [join_cons_cons, join_cons_cons, List.filter_append, List.filter_append, ih]

theorem removeWs_join (sep : Str) (l : List Str) :
    removeWs (join sep l) = join (removeWs sep) (l.map removeWs) := filter_join _ sep l

/-- `x` is non-empty and neither starts nor ends with a character satisfying `p` -/
def Edged (p : Char → Bool) (x : Str) : Prop :=
  x ≠ [] ∧ (∀ c, x.head? = some c → p c = false) ∧ (∀ c, x.getLast? = some c → p c = false)

theorem Edged.append {p : Char → Bool} {a b : Str} (ha : Edged p a) (hb : Edged p b) (m : Str) :
    Edged p (a ++ m ++ b) := by
  obtain ⟨ha0, ha1, _⟩ := ha
  obtain ⟨hb0, _, hb2⟩ := hb
  refine ⟨by simp [ha0], ?_, ?_⟩
  · intro c hc
    cases a with
    | nil => exact absurd rfl ha0
    | cons x a => exact ha1 c (by simpa using hc)
  · intro c hc
    rw [List.getLast?_append] at hc
    cases hb' : b.getLast? with
    | none => simp [List.getLast?_eq_none_iff] at hb'; exact absurd hb' hb0
    | some d => rw [hb'] at hc; simp at hc; subst hc; exact hb2 d hb'

theorem edged_join {p : Char → Bool} (sep : Str) (l : List Str) (hl : l ≠ [])
    (h : ∀ x ∈ l, Edged p x) : Edged p (join sep l) := by
  induction l with
  | nil => exact absurd rfl hl
  | cons a l ih =>
    cases l with
    | nil => simpa [join_singleton] using h a (by simp)
    | cons b l =>
      rw [join_cons_cons]
      exact Edged.append (h a (by simp)) (ih (by simp) (fun x hx => h x (by simp [hx]))) sep

theorem edged_of_cons_snoc {p : Char → Bool} (c d : Char) (m : Str) (hc : p c = false) (hd : p d = false) :
    Edged p (c :: m ++ [d]) := by
  refine ⟨by simp, ?_, ?_⟩
  · intro x hx; simp at hx; subst hx; exact hc
  · intro x hx
    have : (c :: m ++ [d]).getLast? = some d := by
      rw [show c :: m ++ [d] = (c :: m) ++ [d] from rfl, List.getLast?_append]; simp
    rw [this] at hx; simp at hx; subst hx; exact hd

theorem edged_of_all {p : Char → Bool} {x : Str} (h0 : x ≠ []) (h : ∀ c ∈ x, p c = false) : Edged p x :=
  ⟨h0, fun c hc => h c (List.mem_of_mem_head? hc), fun c hc => h c (List.mem_of_getLast? hc)⟩

/-- `(x + ", ").strip(", ") = x` when `x` has no comma or space at either end -/
theorem stripCommaSpace_append_sep {x : Str} (h : Edged (fun c => c == ',' || c == ' ') x) :
    stripCommaSpace (x ++ [',', ' ']) = x := by
  obtain ⟨h0, h1, h2⟩ := h
  have e1 : (x ++ [',', ' ']).dropWhile (fun c => c == ',' || c == ' ') = x ++ [',', ' '] := by
    apply dropWhile_eq_self
    intro c hc
    cases x with
    | nil => exact absurd rfl h0
    | cons a x => exact h1 c (by simpa using hc)
  have e2 : x.reverse.dropWhile (fun c => c == ',' || c == ' ') = x.reverse :=
    dropWhile_eq_self (fun c hc => h2 c (by simpa using hc))
  simp only [stripCommaSpace, e1]
  simp [e2]

theorem stripCommaSpace_nil : stripCommaSpace [] = [] := rfl

end PrefVerif.IOL
