import PrefVerif.Lemmas.C03Loops
import PrefVerif.Lemmas.C03Run
/-!
# C03 helper lemmas, part 8: the soundness invariant

Outside Case 2(d), every candidate is placed next to an end that every voter ranks below it.  Hence
for every voter the ranks improve along `to_append_left ++ left_axis` and worsen along
`right_axis`: the final axis is single-peaked for every voter.
-/
namespace PrefVerif.C03
open PrefVerif PrefVerif.ELO PrefVerif.Py

/-- `m` is still to be placed -/
def memM (s : State) (m : Nat) : Prop := ∃ p ∈ s.prefs, m ∈ p

/-- `x_i` is the last element of `left_axis` and `x_j` the first of `right_axis` -/
def EndsOk (s : State) : Prop :=
  match s.ends with
  | none => s.left = [] ∧ s.right = []
  | some (xi, xj) => (∃ L0, s.left = L0 ++ [xi]) ∧ (∃ R0, s.right = xj :: R0)

/-- the per-voter invariant while candidates remain -/
def Full (o : List Nat) (s : State) : Prop :=
  Desc o (s.tal ++ s.left) ∧ Asc o s.right ∧ (∀ t ∈ s.tal, ∀ m, memM s m → lt o m t) ∧
  (∀ xi xj, s.ends = some (xi, xj) → ∀ m, memM s m → lt o m xi ∨ lt o m xj)

def SInv (alts : List Nat) (orders : List (List Nat)) (s : State) : Prop :=
  Inv alts s ∧ (∀ o ∈ orders, ∃ p ∈ s.prefs, p.Sublist o) ∧
  ((EndsOk s ∧ ∀ o ∈ orders, Full o s) ∨
   (headLen s = 0 ∧ ∀ o ∈ orders, Bitonic o (s.tal ++ s.left ++ s.right)))

theorem desc_append {o l : List Nat} {x : Nat} (h : Desc o l) (hx : ∀ a ∈ l, lt o x a) :
    Desc o (l ++ [x]) := by
  unfold Desc at h ⊢
  rw [List.pairwise_append]
  refine ⟨h, by simp, ?_⟩
  intro a ha b hb
  simp only [List.mem_singleton] at hb; subst hb
  exact hx a ha

/-! ### facts about one round -/

section Round
variable {alts : List Nat} {orders : List (List Nat)} {prefs : List (List Nat)} {tal left right : List Nat}
  {popped : List (List Nat × Nat)}

theorem round_mem (hinv : ∀ p ∈ prefs, (tal ++ left ++ p ++ right).Perm alts)
    (hprefs : prefs = popped.map (fun r => r.1 ++ [r.2])) {m : Nat} (hm : ∃ p ∈ prefs, m ∈ p)
    {r : List Nat × Nat} (hr : r ∈ popped) : m ∈ r.1 ++ [r.2] := by
  obtain ⟨p, hp, hmp⟩ := hm
  have hr' : r.1 ++ [r.2] ∈ prefs := by rw [hprefs]; exact List.mem_map.2 ⟨r, hr, rfl⟩
  exact (prefs_perm (hinv p hp) (hinv _ hr')).mem_iff.1 hmp

/-- every voter ranks its popped candidate below all the other remaining candidates -/
theorem round_worst (hn : alts.Nodup) (ho : ∀ o ∈ orders, o.Perm alts)
    (hinv : ∀ p ∈ prefs, (tal ++ left ++ p ++ right).Perm alts)
    (hsub : ∀ o ∈ orders, ∃ p ∈ prefs, p.Sublist o)
    (hprefs : prefs = popped.map (fun r => r.1 ++ [r.2])) :
    ∀ o ∈ orders, ∃ r ∈ popped, (r.1 ++ [r.2]).Sublist o ∧
      ∀ m, (∃ p ∈ prefs, m ∈ p) → m ≠ r.2 → lt o m r.2 := by
  intro o hoo
  obtain ⟨p, hp, hpo⟩ := hsub o hoo
  have hp' := hp
  rw [hprefs] at hp'
  obtain ⟨r, hr, rfl⟩ := List.mem_map.1 hp'
  refine ⟨r, hr, hpo, fun m hm hne => ?_⟩
  have hmem := round_mem hinv hprefs hm hr
  have hmd : m ∈ r.1 := by
    rcases List.mem_append.1 hmem with h | h
    · exact h
    · exact absurd (List.mem_singleton.1 h) hne
  exact sublist_rank hpo ((ho o hoo).symm.nodup hn) m hmd

end Round

/-! ### one last candidate -/

theorem sound_one {alts : List Nat} {orders : List (List Nat)} {s s' : State}
    {popped : List (List Nat × Nat)} {x : Nat} (hn : alts.Nodup) (ho : ∀ o ∈ orders, o.Perm alts)
    (hinv : Inv alts s) (hsub : ∀ o ∈ orders, ∃ p ∈ s.prefs, p.Sublist o)
    (hprefs : s.prefs = popped.map (fun r => r.1 ++ [r.2]))
    (hlast : ∀ r ∈ popped, r.2 = x) (hE : EndsOk s) (hF : ∀ o ∈ orders, Full o s)
    (h : stepOne orders { s with prefs := (popped.map (·.1)).map (fun p => p.erase x) } x = .fin s') :
    (∀ o ∈ orders, ∃ p ∈ s'.prefs, p.Sublist o) ∧
    ((EndsOk s' ∧ ∀ o ∈ orders, Full o s') ∨
     (headLen s' = 0 ∧ ∀ o ∈ orders, Bitonic o (s'.tal ++ s'.left ++ s'.right))) := by
  obtain ⟨prefs, tal, left, right, ends⟩ := s
  simp only at hprefs hsub
  have hperm := hinv.2
  simp only at hperm
  have hpne : popped ≠ [] := by
    intro e; rw [e] at hprefs; exact hinv.1 hprefs
  have hW := round_worst hn ho hperm hsub hprefs
  -- the candidate `x` is still to be placed before the round
  have hxM : ∃ p ∈ prefs, x ∈ p := by
    obtain ⟨r, hr⟩ := List.exists_mem_of_ne_nil _ hpne
    exact ⟨r.1 ++ [r.2], by rw [hprefs]; exact List.mem_map.2 ⟨r, hr, rfl⟩, by simp [hlast r hr]⟩
  -- the remaining candidates after the round
  have hmem' : ∀ m, (∃ p ∈ (popped.map (·.1)).map (fun p => p.erase x), m ∈ p) →
      (∃ p ∈ prefs, m ∈ p) ∧ m ≠ x := by
    rintro m ⟨p, hp, hmp⟩
    simp only [List.map_map, List.mem_map, Function.comp] at hp
    obtain ⟨r, hr, rfl⟩ := hp
    have hr' : r.1 ++ [r.2] ∈ prefs := by rw [hprefs]; exact List.mem_map.2 ⟨r, hr, rfl⟩
    have hnd := pref_nodup hn (hperm _ hr')
    have hmr : m ∈ r.1 := List.mem_of_mem_erase hmp
    refine ⟨⟨_, hr', List.mem_append_left _ hmr⟩, ?_⟩
    intro e; subst e
    rw [← hlast r hr] at hmr
    exact (List.nodup_append.1 hnd).2.2 _ hmr _ (by simp) rfl
  have hsub' : ∀ o ∈ orders, ∃ p ∈ (popped.map (·.1)).map (fun p => p.erase x), p.Sublist o := by
    intro o hoo
    obtain ⟨r, hr, hso, _⟩ := hW o hoo
    refine ⟨r.1.erase x, ?_, ?_⟩
    · simp only [List.map_map, List.mem_map, Function.comp]; exact ⟨r, hr, rfl⟩
    · exact (List.erase_sublist.trans (List.sublist_append_left _ _)).trans hso
  have hbetter : ∀ o ∈ orders, ∀ m, (∃ p ∈ (popped.map (·.1)).map (fun p => p.erase x), m ∈ p) →
      lt o m x := by
    intro o hoo m hm
    obtain ⟨r, hr, _, hw⟩ := hW o hoo
    obtain ⟨h1, h2⟩ := hmem' m hm
    rw [hlast r hr] at hw
    exact hw m h1 h2
  cases hends : ends with
  | none =>
    subst hends
    have := stepOne_fin_none (by rfl) h
    subst this
    simp only [EndsOk] at hE
    obtain ⟨hl, hr⟩ := hE
    subst hl hr
    refine ⟨hsub', Or.inl ⟨by simp [EndsOk], fun o hoo => ?_⟩⟩
    obtain ⟨hD, hA, hJ0, _⟩ := hF o hoo
    simp only [List.append_nil] at hD
    refine ⟨?_, hA, ?_, ?_⟩
    · simp only [List.append_nil]
      exact desc_append hD (fun t ht => hJ0 t ht x hxM)
    · intro t ht m hm
      rcases List.mem_append.1 ht with ht | ht
      · exact hJ0 t ht m (hmem' m hm).1
      · simp only [List.mem_singleton] at ht; subst ht
        exact hbetter o hoo m hm
    · intro xi xj he; simp at he
  | some e =>
    obtain ⟨xi, xj⟩ := e
    subst hends
    simp only [EndsOk] at hE
    obtain ⟨⟨L0, hl⟩, ⟨R0, hr⟩⟩ := hE
    subst hl hr
    cases popped with
    | nil => exact absurd rfl hpne
    | cons r rs =>
      by_cases hemp : r.1.erase x = []
      · -- the very last candidate
        have := stepOne_fin_last (xi := xi) (xj := xj) (ps := (rs.map (·.1)).map (fun p => p.erase x))
          (by rfl) (by simp [hemp]) h
        subst this
        refine ⟨hsub', Or.inr ⟨by simp [headLen, hemp], fun o hoo => ?_⟩⟩
        obtain ⟨hD, hA, _, hJ3⟩ := hF o hoo
        simp only at hD hA hJ3 ⊢
        rcases hJ3 xi xj rfl x hxM with hx | hx
        · refine ⟨tal ++ (L0 ++ [xi]) ++ [x], xj :: R0, by simp, ?_, hA⟩
          rw [← List.append_assoc] at hD ⊢
          exact desc_append_of_last hD hx
        · refine ⟨tal ++ (L0 ++ [xi]), x :: xj :: R0, by simp, hD, ?_⟩
          exact asc_cons_of_head hA hx
      · rcases stepOne_fin_some (xi := xi) (xj := xj) (p := r.1.erase x)
          (ps := (rs.map (·.1)).map (fun p => p.erase x)) (by rfl) (by simp) hemp h with
          ⟨hs', hall⟩ | ⟨hs', hall⟩
        · subst hs'
          refine ⟨hsub', Or.inl ⟨⟨⟨L0 ++ [xi], rfl⟩, ⟨R0, rfl⟩⟩, fun o hoo => ?_⟩⟩
          obtain ⟨hD, hA, hJ0, _⟩ := hF o hoo
          simp only at hD hA hJ0 ⊢
          refine ⟨?_, hA, fun t ht m hm => hJ0 t ht m (hmem' m hm).1, ?_⟩
          · rw [← List.append_assoc] at hD
            rw [← List.append_assoc, ← List.append_assoc]
            exact desc_append_of_last hD (hall o hoo)
          · intro xi' xj' he m hm
            simp only [Option.some.injEq, Prod.mk.injEq] at he
            obtain ⟨rfl, rfl⟩ := he
            exact Or.inl (hbetter o hoo m hm)
        · subst hs'
          refine ⟨hsub', Or.inl ⟨⟨⟨L0, rfl⟩, ⟨xj :: R0, rfl⟩⟩, fun o hoo => ?_⟩⟩
          obtain ⟨hD, hA, hJ0, _⟩ := hF o hoo
          simp only at hD hA hJ0 ⊢
          refine ⟨hD, asc_cons_of_head hA (hall o hoo), fun t ht m hm => hJ0 t ht m (hmem' m hm).1, ?_⟩
          intro xi' xj' he m hm
          simp only [Option.some.injEq, Prod.mk.injEq] at he
          obtain ⟨rfl, rfl⟩ := he
          exact Or.inr (hbetter o hoo m hm)

/-! ### two last candidates -/

theorem sound_two {alts : List Nat} {orders : List (List Nat)} {s s' : State}
    {popped : List (List Nat × Nat)} {x y : Nat} (hn : alts.Nodup) (ho : ∀ o ∈ orders, o.Perm alts)
    (hinv : Inv alts s) (hsub : ∀ o ∈ orders, ∃ p ∈ s.prefs, p.Sublist o)
    (hprefs : s.prefs = popped.map (fun r => r.1 ++ [r.2])) (hxy : x ≠ y)
    (hlast : ∀ r ∈ popped, r.2 = x ∨ r.2 = y)
    (hxM : memM s x) (hE : EndsOk s) (hF : ∀ o ∈ orders, Full o s)
    (h : stepTwo orders { s with prefs := (popped.map (·.1)).map (fun p => (p.erase x).erase y) } x y
      = .fin s') :
    (∀ o ∈ orders, ∃ p ∈ s'.prefs, p.Sublist o) ∧ EndsOk s' ∧ ∀ o ∈ orders, Full o s' := by
  obtain ⟨prefs, tal, left, right, ends⟩ := s
  simp only [memM] at hprefs hsub hxM
  have hperm := hinv.2
  simp only at hperm
  have hW := round_worst hn ho hperm hsub hprefs
  have hmem' : ∀ m, (∃ p ∈ (popped.map (·.1)).map (fun p => (p.erase x).erase y), m ∈ p) →
      (∃ p ∈ prefs, m ∈ p) ∧ m ≠ x ∧ m ≠ y := by
    rintro m ⟨p, hp, hmp⟩
    simp only [List.map_map, List.mem_map, Function.comp] at hp
    obtain ⟨r, hr, rfl⟩ := hp
    have hr' : r.1 ++ [r.2] ∈ prefs := by rw [hprefs]; exact List.mem_map.2 ⟨r, hr, rfl⟩
    have hnd := pref_nodup hn (hperm _ hr')
    have hnd1 : r.1.Nodup := (List.nodup_append.1 hnd).1
    have h1 := (List.Nodup.mem_erase_iff (hnd1.erase x)).1 hmp
    have h2 := (List.Nodup.mem_erase_iff hnd1).1 h1.2
    exact ⟨⟨_, hr', List.mem_append_left _ h2.2⟩, h2.1, h1.1⟩
  have hsub' : ∀ o ∈ orders,
      ∃ p ∈ (popped.map (·.1)).map (fun p => (p.erase x).erase y), p.Sublist o := by
    intro o hoo
    obtain ⟨r, hr, hso, _⟩ := hW o hoo
    refine ⟨(r.1.erase x).erase y, ?_, ?_⟩
    · simp only [List.map_map, List.mem_map, Function.comp]; exact ⟨r, hr, rfl⟩
    · exact ((List.erase_sublist.trans List.erase_sublist).trans (List.sublist_append_left _ _)).trans hso
  have hbetter : ∀ o ∈ orders, ∀ m,
      (∃ p ∈ (popped.map (·.1)).map (fun p => (p.erase x).erase y), m ∈ p) → lt o m x ∨ lt o m y := by
    intro o hoo m hm
    obtain ⟨r, hr, _, hw⟩ := hW o hoo
    obtain ⟨h1, h2, h3⟩ := hmem' m hm
    rcases hlast r hr with e | e <;> rw [e] at hw
    · exact Or.inl (hw m h1 h2)
    · exact Or.inr (hw m h1 h3)
  cases hends : ends with
  | none =>
    subst hends
    have := stepTwo_fin_none (by rfl) h
    subst this
    simp only [EndsOk] at hE
    obtain ⟨hl, hr⟩ := hE
    subst hl hr
    refine ⟨hsub', ⟨⟨[], rfl⟩, ⟨[], rfl⟩⟩, fun o hoo => ?_⟩
    obtain ⟨hD, hA, hJ0, _⟩ := hF o hoo
    simp only [List.append_nil] at hD hJ0
    refine ⟨?_, ?_, fun t ht m hm => hJ0 t ht m (hmem' m hm).1, ?_⟩
    · simp only [List.nil_append]
      exact desc_append hD (fun t ht => hJ0 t ht x hxM)
    · exact List.pairwise_singleton _ _
    · intro xi' xj' he m hm
      simp only [Option.some.injEq, Prod.mk.injEq] at he
      obtain ⟨rfl, rfl⟩ := he
      exact hbetter o hoo m hm
  | some e =>
    obtain ⟨xi, xj⟩ := e
    subst hends
    simp only [EndsOk] at hE
    obtain ⟨⟨L0, hl⟩, ⟨R0, hr⟩⟩ := hE
    subst hl hr
    obtain ⟨a, b, hab, hs', hall⟩ := stepTwo_fin_some (xi := xi) (xj := xj) hxy (by rfl) h
    subst hs'
    refine ⟨hsub', ⟨⟨L0 ++ [xi], rfl⟩, ⟨xj :: R0, rfl⟩⟩, fun o hoo => ?_⟩
    obtain ⟨hD, hA, hJ0, _⟩ := hF o hoo
    simp only at hD hA hJ0 ⊢
    refine ⟨?_, asc_cons_of_head hA (hall o hoo).2, fun t ht m hm => hJ0 t ht m (hmem' m hm).1, ?_⟩
    · rw [← List.append_assoc] at hD
      rw [← List.append_assoc, ← List.append_assoc]
      exact desc_append_of_last hD (hall o hoo).1
    · intro xi' xj' he m hm
      simp only [Option.some.injEq, Prod.mk.injEq] at he
      obtain ⟨rfl, rfl⟩ := he
      rcases hab with ⟨rfl, rfl⟩ | ⟨rfl, rfl⟩
      · exact hbetter o hoo m hm
      · exact (hbetter o hoo m hm).symm

/-! ### one iteration and the whole loop -/

theorem step_sound {alts : List Nat} {orders : List (List Nat)} {s s' : State} (hn : alts.Nodup)
    (ho : ∀ o ∈ orders, o.Perm alts) (hS : SInv alts orders s) (hlen : 1 ≤ headLen s)
    (h : step orders s = .fin s') : SInv alts orders s' := by
  obtain ⟨hinv, hsub, hrest⟩ := hS
  have hinv' := step_fin hn hinv h
  have hEF : EndsOk s ∧ ∀ o ∈ orders, Full o s := by
    rcases hrest with h | ⟨h0, _⟩
    · exact h
    · omega
  obtain ⟨hE, hF⟩ := hEF
  unfold step at h
  split at h
  · simp at h
  · rename_i popped hpop
    have hprefs := popAll_eq_some hpop
    have hfa : ∀ r ∈ popped, r.2 ∈ firstAppearances (popped.map (·.2)) := fun r hr =>
      (mem_firstAppearances _ _).2 (List.mem_map.2 ⟨r, hr, rfl⟩)
    split at h
    · simp at h
    · rename_i x hx
      have hlast : ∀ r ∈ popped, r.2 = x := by
        intro r hr; have := hfa r hr; rw [hx] at this; simpa using this
      obtain ⟨h1, h2⟩ := sound_one hn ho hinv hsub hprefs hlast hE hF h
      exact ⟨hinv', h1, h2⟩
    · rename_i x y hx
      have hnd := firstAppearances_nodup (popped.map (·.2))
      rw [hx] at hnd
      have hxy : x ≠ y := by
        intro e; subst e; simp at hnd
      have hlast : ∀ r ∈ popped, r.2 = x ∨ r.2 = y := by
        intro r hr; have := hfa r hr; rw [hx] at this; simpa using this
      have hxM : memM s x := by
        have : x ∈ firstAppearances (popped.map (·.2)) := by rw [hx]; simp
        rw [mem_firstAppearances] at this
        obtain ⟨r, hr, e⟩ := List.mem_map.1 this
        exact ⟨r.1 ++ [r.2], by rw [hprefs]; exact List.mem_map.2 ⟨r, hr, rfl⟩, by simp [e]⟩
      obtain ⟨h1, h2, h3⟩ := sound_two hn ho hinv hsub hprefs hxy hlast hxM hE hF h
      exact ⟨hinv', h1, Or.inl ⟨h2, h3⟩⟩
    · simp at h

/-- a run that stops because no candidate is left returns an axis on which every voter's ranks
improve and then worsen -/
theorem loop_sound {alts : List Nat} {orders : List (List Nat)} (hn : alts.Nodup)
    (ho : ∀ o ∈ orders, o.Perm alts) :
    ∀ (fuel : Nat) (s : State) (axis : List Nat), SInv alts orders s →
      loop orders fuel s = some (.finished axis) → ∀ o ∈ orders, Bitonic o axis := by
  intro fuel
  induction fuel with
  | zero => intro s axis _ h; simp [loop] at h
  | succ f ih =>
    intro s axis hS h
    unfold loop at h
    split at h
    · simp at h
    · rename_i p ps hps
      split at h
      · rename_i hlen
        split at h
        · simp at h
        · rename_i e' hst
          simp only [Option.some.injEq] at h; subst h
          -- a `break` never produces `finished`
          exfalso
          unfold step at hst
          split at hst
          · simp at hst
          · split at hst
            · simp at hst
            · have := stepOne_brk hst; simp at this
            · rcases stepTwo_brk hst with h | ⟨_, _, _, h⟩ <;> simp at h
            · simp at hst
        · rename_i s' hst
          exact ih s' axis (step_sound hn ho hS (by simp [headLen, hps]; omega) hst) h
      · rename_i hlen
        simp only [Option.some.injEq, Exit.finished.injEq] at h; subst h
        obtain ⟨_, _, hrest⟩ := hS
        rcases hrest with ⟨_, hF⟩ | ⟨_, hB⟩
        · intro o hoo
          obtain ⟨hD, hA, _⟩ := hF o hoo
          exact ⟨s.tal ++ s.left, s.right, rfl, hD, hA⟩
        · exact hB

end PrefVerif.C03
