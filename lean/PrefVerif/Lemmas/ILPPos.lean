import PrefVerif.Lemmas.ILPOrder
/-!
# ILP helper lemmas, part 4: the position constraints

Along the encoded axis the position variables increase by at least 1/2 per step; `m` integers of
`[1, m]` in strictly increasing order are `1, …, m`, so the position of an alternative is its rank.
Conversely the ranks satisfy the position constraints.
-/
namespace PrefVerif.ILPP
open PrefVerif PrefVerif.ILP

variable {asg : Var → Rat}

/-- the statements of `ordering m a b` and `diffPos m a b` -/
def PosAt (asg : Var → Rat) (m a b : Nat) : Prop :=
  asg (.pos a) - asg (.pos b) + (m : Rat) * asg (.leftOf a b) ≤ m ∧
  -(m : Rat) ≤ asg (.pos b) - asg (.pos a) - ((1 : Rat) / 2 + m) * asg (.leftOf a b)

theorem sat_posCstr (m : Nat) :
    Sat asg (posCstr m) ↔ ∀ a b, a < b → b < m → PosAt asg m a b ∧ PosAt asg m b a := by
  unfold posCstr PosAt
  rw [sat_flatMap]
  constructor
  · intro h a b hab hb
    have := h (a, b) ((mem_combos2_range m a b).2 ⟨hab, hb⟩)
    simp only [sat_cons, satisfies_ordering, satisfies_diffPos] at this
    exact ⟨⟨this.1, this.2.1⟩, this.2.2.1, this.2.2.2.1⟩
  · rintro h ⟨a, b⟩ hp
    obtain ⟨hab, hb⟩ := (mem_combos2_range m a b).1 hp
    obtain ⟨⟨h1, h2⟩, h3, h4⟩ := h a b hab hb
    simp only [sat_cons, satisfies_ordering, satisfies_diffPos]
    exact ⟨h1, h2, h3, h4, sat_nil⟩

theorem posAt_of_sat {m : Nat} (h : Sat asg (posCstr m)) (a b : Nat) (ha : a < m) (hb : b < m)
    (hab : a ≠ b) : PosAt asg m a b := by
  have h' := (sat_posCstr m).1 h
  rcases Nat.lt_or_gt_of_ne hab with h1 | h1
  · exact (h' a b h1 hb).1
  · exact (h' b a h1 ha).2

theorem cast_succ_le {p q : Nat} (h : p < q) : (p : Rat) + 1 ≤ q := by
  have : ((p + 1 : Nat) : Rat) ≤ q := Rat.natCast_le_natCast.2 h
  rwa [Rat.natCast_add] at this

/-! ### strictly increasing integers of `[1, n]` -/

theorem sorted_gap (q : List Nat) (hq : q.Pairwise (· < ·)) :
    ∀ j (hj : j < q.length) i (hij : i ≤ j), q[i] + (j - i) ≤ q[j] := by
  intro j
  induction j with
  | zero =>
    intro hj i hij
    have : i = 0 := by omega
    subst this; simp
  | succ j ih =>
    intro hj i hij
    by_cases e : i = j + 1
    · subst e; simp
    · have h1 := ih (by omega) i (by omega)
      have h2 := List.pairwise_iff_getElem.1 hq j (j + 1) (by omega) hj (by omega)
      omega

theorem sorted_range (q : List Nat) (hq : q.Pairwise (· < ·)) (hb : ∀ x ∈ q, 1 ≤ x ∧ x ≤ q.length)
    (i : Nat) (h : i < q.length) : q[i] = i + 1 := by
  have h0 := sorted_gap q hq i h 0 (by omega)
  have h1 := (hb q[0] (List.getElem_mem _)).1
  have h2 := sorted_gap q hq (q.length - 1) (by omega) i (by omega)
  have h3 := (hb q[q.length - 1] (List.getElem_mem _)).2
  omega

/-! ### soundness: positions are ranks -/

theorem pos_eq_rank {m : Nat} {ax : List Nat} (hp : ax.Perm (List.range m)) (hE : Encodes asg ax)
    (hpos : ∀ a, a < m → ∃ k : Nat, 1 ≤ k ∧ k ≤ m ∧ asg (.pos a) = k) (hs : Sat asg (posCstr m))
    (a : Nat) (ha : a < m) : asg (.pos a) = (ax.idxOf a + 1 : Nat) := by
  have hn : ax.Nodup := hp.nodup_iff.2 List.nodup_range
  have hlen : ax.length = m := by simpa using hp.length_eq
  have hlt : ∀ x ∈ ax, x < m := fun x hx => List.mem_range.1 (hp.subset hx)
  let p : Nat → Nat := fun x => if h : x < m then Classical.choose (hpos x h) else 0
  have hpv : ∀ x, x < m → 1 ≤ p x ∧ p x ≤ m ∧ asg (.pos x) = p x := by
    intro x hx
    simp only [p, hx, dif_pos]
    exact Classical.choose_spec (hpos x hx)
  -- strictly increasing along the axis
  have hinc : ∀ x ∈ ax, ∀ y ∈ ax, ax.idxOf x < ax.idxOf y → p x < p y := by
    intro x hx y hy hxy
    have hne : x ≠ y := fun e => by subst e; omega
    have hL : asg (.leftOf x y) = 1 := (hE.iff x hx y hy hne).2 hxy
    have hc := (posAt_of_sat hs x y (hlt x hx) (hlt y hy) hne).2
    rw [hL, (hpv x (hlt x hx)).2.2, (hpv y (hlt y hy)).2.2] at hc
    have : (p x : Rat) < p y := by grind
    exact Rat.natCast_lt_natCast.1 this
  have hq : (ax.map p).Pairwise (· < ·) := by
    rw [List.pairwise_map, List.pairwise_iff_getElem]
    intro i j hi hj hij
    apply hinc _ (List.getElem_mem _) _ (List.getElem_mem _)
    rw [hn.idxOf_getElem i hi, hn.idxOf_getElem j hj]; exact hij
  have hb : ∀ v ∈ ax.map p, 1 ≤ v ∧ v ≤ (ax.map p).length := by
    intro v hv
    obtain ⟨x, hx, rfl⟩ := List.mem_map.1 hv
    have := hpv x (hlt x hx)
    rw [List.length_map, hlen]; exact ⟨this.1, this.2.1⟩
  have hax : a ∈ ax := hp.symm.subset (List.mem_range.2 ha)
  have hia := List.idxOf_lt_length_of_mem hax
  have := sorted_range (ax.map p) hq hb (ax.idxOf a) (by simpa using hia)
  rw [List.getElem_map, List.getElem_idxOf hia] at this
  rw [(hpv a ha).2.2, this]

/-! ### completeness: the ranks satisfy the constraints -/

theorem ofAxis_pos (ax dv da : List Nat) (a : Nat) :
    ofAxis ax dv da (.pos a) = ((ax.idxOf a + 1 : Nat) : Rat) := rfl

theorem ofAxis_posAt (ax dv da : List Nat) (m a b : Nat) (hlen : ax.length = m) (ha : a ∈ ax)
    (hb : b ∈ ax) : PosAt (ofAxis ax dv da) m a b := by
  have hia := List.idxOf_lt_length_of_mem ha
  have hib := List.idxOf_lt_length_of_mem hb
  have h1 : ((ax.idxOf a + 1 : Nat) : Rat) ≤ m := Rat.natCast_le_natCast.2 (by omega)
  have h2 : ((ax.idxOf b + 1 : Nat) : Rat) ≤ m := Rat.natCast_le_natCast.2 (by omega)
  have h3 : (0 : Rat) ≤ ((ax.idxOf a + 1 : Nat) : Rat) := Rat.natCast_nonneg
  have h4 : (0 : Rat) ≤ ((ax.idxOf b + 1 : Nat) : Rat) := Rat.natCast_nonneg
  simp only [PosAt, ofAxis_pos, ofAxis_leftOf]
  by_cases h : ax.idxOf a < ax.idxOf b
  · have h5 : ((ax.idxOf a + 1 : Nat) : Rat) + 1 ≤ ((ax.idxOf b + 1 : Nat) : Rat) :=
      cast_succ_le (by omega)
    simp only [h, if_true]
    constructor <;> grind
  · simp only [h, if_false]
    constructor <;> grind

theorem ofAxis_sat_pos (ax dv da : List Nat) (m : Nat) (hp : ax.Perm (List.range m)) :
    Sat (ofAxis ax dv da) (posCstr m) := by
  have hlen : ax.length = m := by simpa using hp.length_eq
  refine (sat_posCstr m).2 (fun a b hab hb => ?_)
  have ha' : a ∈ ax := hp.symm.subset (List.mem_range.2 (by omega))
  have hb' : b ∈ ax := hp.symm.subset (List.mem_range.2 hb)
  exact ⟨ofAxis_posAt ax dv da m a b hlen ha' hb', ofAxis_posAt ax dv da m b a hlen hb' ha'⟩

end PrefVerif.ILPP
