import PrefVerif.Lemmas.IOHeader
import PrefVerif.Lemmas.IOAList
/-!
# `parse_metadata` on the lines `write_metadata` wrote

One lemma per kind of line (text field, numeric field, numbered name), on the *stripped* line.
-/
namespace PrefVerif.IOL
open PrefVerif.Py PrefVerif.InstanceIO PrefVerif.Spec.IO

/-- a text field line sets its field to the stripped remainder, whatever follows the colon -/
theorem parseMetadata_field (f : Field) (h : Header) (w : Str) (ac : Bool) :
    parseMetadata h (f.key ++ w) ac = .ok (f.set h (strip w)) := by
  cases f <;>
    simp [parseMetadata, startsWith, Field.key, Field.name, Field.set, s, List.isPrefixOf]

theorem intField_space_natToStr (n : Nat) : intField (' ' :: natToStr n) = .ok n := by
  simp [intField, toNat?_space_natToStr]

def numAltKey : Str := s "# NUMBER ALTERNATIVES:"
def numVotersKey : Str := s "# NUMBER VOTERS:"

theorem parseMetadata_numAlternatives (h : Header) (n : Nat) (ac : Bool) :
    parseMetadata h (numAltKey ++ ' ' :: natToStr n) ac = .ok { h with numAlternatives := n } := by
  have := intField_space_natToStr n
  simp [parseMetadata, startsWith, numAltKey, s, List.isPrefixOf, this]
  rfl

theorem parseMetadata_numVoters (h : Header) (n : Nat) (ac : Bool) :
    parseMetadata h (numVotersKey ++ ' ' :: natToStr n) ac = .ok { h with numVoters := n } := by
  have := intField_space_natToStr n
  simp [parseMetadata, startsWith, numVotersKey, s, List.isPrefixOf, this]
  rfl

theorem isPrefixOf_append_self (p r : Str) : p.isPrefixOf (p ++ r) = true := by
  induction p with
  | nil => simp
  | cons a p ih => simp [ih]

/-- the numbered-name pattern `<prefix>(\d+): ?(.*)` on a stripped written line -/
theorem matchNumbered_numbered (pfx : Str) (k : Nat) (v : Str) (hv : ∀ c ∈ v, c ≠ '\n') :
    matchNumbered pfx (pfx ++ natToStr k ++ ':' :: padded v) = some (k, v) := by
  have hrun := takeWhile_run (p := Char.isDigit) (natToStr k) (':' :: padded v)
    (fun c hc => natToStr_isDigit hc) (by intro c hc; simp at hc; subst hc; decide)
  have hd : (pfx ++ natToStr k ++ ':' :: padded v).drop pfx.length = natToStr k ++ ':' :: padded v := by
    simp
  have htw : ∀ t : Str, (∀ c ∈ t, c ≠ '\n') → t.takeWhile (fun c => c != '\n') = t := by
    intro t ht
    apply takeWhile_eq_self_of_all
    intro c hc; simpa using ht c hc
  have hpre : startsWith (pfx ++ natToStr k ++ ':' :: padded v) pfx = true := by
    rw [List.append_assoc]; exact isPrefixOf_append_self _ _
  simp only [matchNumbered, hpre, hd, hrun.1, hrun.2, natToStr_isEmpty, ofDigitChars_natToStr]
  cases v with
  | nil => simp [padded]
  | cons a v => simp [padded, htw (a :: v) hv]

/-- an `# ALTERNATIVE NAME k: name` line (stripped) records the name under key `k` -/
theorem parseMetadata_altName (h : Header) (k : Nat) (v : Str) (hv : ∀ c ∈ v, c ≠ '\n') :
    parseMetadata h (altPfx ++ natToStr k ++ ':' :: padded v) false
      = .ok { h with altNames := AList.set h.altNames k v } := by
  have hm := matchNumbered_numbered altPfx k v hv
  generalize hL : altPfx ++ natToStr k ++ ':' :: padded v = L at hm
  have hs : ∀ q : Str, startsWith L q = startsWith (altPfx ++ (natToStr k ++ ':' :: padded v)) q := by
    intro q; rw [← hL, List.append_assoc]
  have h1 : startsWith L (s "# FILE NAME") = false := by rw [hs]; simp [startsWith, altPfx, s, List.isPrefixOf]
  have h2 : startsWith L (s "# TITLE") = false := by rw [hs]; simp [startsWith, altPfx, s, List.isPrefixOf]
  have h3 : startsWith L (s "# DESCRIPTION") = false := by rw [hs]; simp [startsWith, altPfx, s, List.isPrefixOf]
  have h4 : startsWith L (s "# DATA TYPE") = false := by rw [hs]; simp [startsWith, altPfx, s, List.isPrefixOf]
  have h5 : startsWith L (s "# MODIFICATION TYPE") = false := by rw [hs]; simp [startsWith, altPfx, s, List.isPrefixOf]
  have h6 : startsWith L (s "# RELATES TO") = false := by rw [hs]; simp [startsWith, altPfx, s, List.isPrefixOf]
  have h7 : startsWith L (s "# RELATED FILES") = false := by rw [hs]; simp [startsWith, altPfx, s, List.isPrefixOf]
  have h8 : startsWith L (s "# PUBLICATION DATE") = false := by rw [hs]; simp [startsWith, altPfx, s, List.isPrefixOf]
  have h9 : startsWith L (s "# MODIFICATION DATE") = false := by rw [hs]; simp [startsWith, altPfx, s, List.isPrefixOf]
  have h10 : startsWith L (s "# NUMBER ALTERNATIVES") = false := by rw [hs]; simp [startsWith, altPfx, s, List.isPrefixOf]
  have h11 : startsWith L (s "# NUMBER VOTERS") = false := by rw [hs]; simp [startsWith, altPfx, s, List.isPrefixOf]
  have h12 : startsWith L (s "# ALTERNATIVE NAME") = true := by rw [hs]; simp [startsWith, altPfx, s, List.isPrefixOf]
  have hm' : matchNumbered (s "# ALTERNATIVE NAME ") L = some (k, v) := hm
  simp only [parseMetadata, h1, h2, h3, h4, h5, h6, h7, h8, h9, h10, h11, h12, hm', assignName]
  simp

end PrefVerif.IOL
