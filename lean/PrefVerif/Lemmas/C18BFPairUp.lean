import PrefVerif.Lemmas.C18BFComb
/-!
Pairing up consecutive items: the partition into pairs (and one last singleton) used for the cap `⌈m/2⌉`.
-/
namespace PrefVerif.C18BF
open PrefVerif.KAltBF

/-- consecutive pairs (and a last singleton) -/
def pairUp : List Nat → List (List Nat)
  | [] => []
  | [a] => [[a]]
  | a :: b :: t => [a, b] :: pairUp t

theorem pairUp_spec (l : List Nat) :
    (pairUp l).flatten = l ∧ (pairUp l).length = (l.length + 1) / 2 ∧
      ∀ b ∈ pairUp l, b ≠ [] ∧ b.length ≤ 2 := by
  induction l using pairUp.induct with
  | case1 => simp [pairUp]
  | case2 a => simp [pairUp]
  | case3 a b t ih =>
    obtain ⟨h1, h2, h3⟩ := ih
    refine ⟨by simp [pairUp, h1], by simp [pairUp, h2]; omega, ?_⟩
    intro x hx
    simp only [pairUp, List.mem_cons] at hx
    rcases hx with rfl | hx
    · simp
    · exact h3 x hx

/-- an odd number of items leaves a singleton -/
theorem pairUp_odd (l : List Nat) (h : l.length % 2 = 1) : ∃ x, [x] ∈ pairUp l := by
  induction l using pairUp.induct with
  | case1 => simp at h
  | case2 a => exact ⟨a, by simp [pairUp]⟩
  | case3 a b t ih =>
    obtain ⟨x, hx⟩ := ih (by simp only [List.length_cons] at h; omega)
    exact ⟨x, by simp [pairUp, hx]⟩

/-- `singleton_pair_combinations` lists the consecutive pairing -/
theorem pairUp_mem_spc (l : List Nat) (hnd : l.Nodup) : pairUp l ∈ singletonPairCombinations l := by
  induction l using pairUp.induct with
  | case1 => simp [pairUp, spc_nil]
  | case2 a => rw [spc_cons, spc_nil]; simp [pairUp]
  | case3 a b t ih =>
    have hndbt : (b :: t).Nodup := (List.nodup_cons.1 hnd).2
    have hbt : b ∉ t := (List.nodup_cons.1 hndbt).1
    have hndt : t.Nodup := (List.nodup_cons.1 hndbt).2
    rw [spc_cons, List.mem_append]
    refine Or.inl (List.mem_flatMap.2 ⟨b, by simp, ?_⟩)
    have hf : (b :: t).filter (fun i => i != b) = t := by
      rw [List.filter_cons_of_neg (by simp), List.filter_eq_self]
      intro y hy
      have : y ≠ b := fun e => hbt (e ▸ hy)
      simpa using this
    rw [hf]
    exact List.mem_map.2 ⟨pairUp t, ih hndt, rfl⟩

/-- … and the one that keeps the first item single -/
theorem single_pairUp_mem_spc (x : Nat) (l : List Nat) (hnd : l.Nodup) :
    ([x] :: pairUp l) ∈ singletonPairCombinations (x :: l) := by
  rw [spc_cons, List.mem_append]
  exact Or.inr (List.mem_map.2 ⟨pairUp l, pairUp_mem_spc l hnd, rfl⟩)

end PrefVerif.C18BF
