import PrefVerif.Lemmas.C06Table
import PrefVerif.Spec.Voting
/-! C06: the pairwise contests enumerated by `copeland_scores` for one order are exactly the
pairs `(x, y)` with `x` ranked strictly above `y`, each once -/
namespace PrefVerif.C06
open PrefVerif PrefVerif.Py PrefVerif.Pairwise PrefVerif.Spec

/-- contests enumerated for the remaining classes `o`, `prev` being already ranked -/
def pairsAux : List Nat → Order → List (Nat × Nat)
  | _, [] => []
  | prev, c :: o => c.flatMap (fun b => prev.map (fun w => (w, b))) ++ pairsAux (prev ++ c) o

theorem copelandOrder_fold (m : Nat) (o : Order) (t : Table) (prev : List Nat) :
    (o.foldl (fun (acc : Table × List Nat) cls =>
      (cls.foldl (fun t beaten =>
          acc.2.foldl (fun t w => bump (bump t w beaten m) beaten w (-(m : Int))) t) acc.1,
       acc.2 ++ cls)) (t, prev)).1 = (pairsAux prev o).foldl (stepC m) t := by
  induction o generalizing t prev with
  | nil => rfl
  | cons c o ih =>
    rw [List.foldl_cons, ih, pairsAux, List.foldl_append]
    congr 1
    simp only [List.foldl_flatMap, List.foldl_map, stepC]

theorem copelandOrder_eq (t : Table) (o : Order) (m : Nat) :
    copelandOrder t o m = (pairsAux [] o).foldl (stepC m) t := copelandOrder_fold m o t []

theorem classIdx?_isSome (o : Order) (a : Nat) : (classIdx? o a).isSome = true ↔ a ∈ o.flatten := by
  induction o with
  | nil => simp [classIdx?]
  | cons c o ih =>
    simp only [classIdx?, List.flatten_cons, List.mem_append]
    by_cases h : a ∈ c
    · simp [h]
    · simp [h, ih]

theorem above_cons (c : List Nat) (o : Order) (x y : Nat) :
    above (c :: o) x y = if x ∈ c then (decide (y ∉ c) && (classIdx? o y).isSome)
      else (decide (y ∉ c) && above o x y) := by
  simp only [above, classIdx?, List.contains_iff_mem]
  by_cases hx : x ∈ c <;> by_cases hy : y ∈ c <;> simp only [hx, hy, ↓reduceIte]
  · simp
  · cases classIdx? o y <;> simp
  · cases classIdx? o x <;> simp
  · cases classIdx? o x <;> cases classIdx? o y <;> simp

theorem above_mem (o : Order) (x y : Nat) (h : above o x y = true) : y ∈ o.flatten := by
  rw [← classIdx?_isSome]
  unfold above at h
  cases hx : classIdx? o x <;> cases hy : classIdx? o y <;> simp [hx, hy] at h ⊢

theorem count_map_pair (prev : List Nat) (b x y : Nat) (hp : prev.Nodup) :
    (prev.map (fun w => (w, b))).count (x, y) = if b = y ∧ x ∈ prev then 1 else 0 := by
  induction prev with
  | nil => simp
  | cons w prev ih =>
    have hp' := List.nodup_cons.1 hp
    rw [List.map_cons, List.count_cons, ih hp'.2]
    by_cases hb : b = y <;> by_cases hw : w = x
    · subst hb; subst hw; simp [hp'.1]
    · have : ¬ x = w := fun e => hw e.symm
      simp [hb, hw, this]
    · simp [hb]
    · simp [hb]

theorem count_pairs_chunk (prev c : List Nat) (x y : Nat) (hp : prev.Nodup) (hc : c.Nodup) :
    (c.flatMap (fun b => prev.map (fun w => (w, b)))).count (x, y)
      = if y ∈ c ∧ x ∈ prev then 1 else 0 := by
  induction c with
  | nil => simp
  | cons b c ih =>
    have hc' := List.nodup_cons.1 hc
    rw [List.flatMap_cons, List.count_append, ih hc'.2]
    have h1 := count_map_pair prev b x y hp
    rw [h1]
    by_cases hb : b = y
    · subst hb; simp [hc'.1]
    · have : ¬ y = b := fun e => hb e.symm
      simp [hb, this]

theorem count_pairsAux (o : Order) (prev : List Nat) (x y : Nat) (hnd : (prev ++ o.flatten).Nodup) :
    (pairsAux prev o).count (x, y)
      = if y ∈ o.flatten ∧ (x ∈ prev ∨ above o x y = true) then 1 else 0 := by
  induction o generalizing prev with
  | nil => simp [pairsAux]
  | cons c o ih =>
    rw [List.flatten_cons, ← List.append_assoc] at hnd
    have h1 := List.nodup_append.1 hnd
    have h2 := List.nodup_append.1 h1.1
    rw [pairsAux, List.count_append, count_pairs_chunk _ _ _ _ h2.1 h2.2.1, ih _ hnd, above_cons]
    have d1 : ∀ a, a ∈ prev → a ∈ c → False := fun a ha hb => h2.2.2 a ha a hb rfl
    have d2 : ∀ a, a ∈ prev → a ∈ o.flatten → False :=
      fun a ha hb => h1.2.2 a (List.mem_append_left _ ha) a hb rfl
    have d3 : ∀ a, a ∈ c → a ∈ o.flatten → False :=
      fun a ha hb => h1.2.2 a (List.mem_append_right _ ha) a hb rfl
    have hab := above_mem o x y
    have hs := classIdx?_isSome o y
    simp only [List.flatten_cons, List.mem_append]
    by_cases hx : x ∈ c <;> by_cases hy : y ∈ c <;> by_cases hxp : x ∈ prev <;>
      by_cases hyo : y ∈ o.flatten <;> simp [hx, hy, hxp, hyo] <;> grind

end PrefVerif.C06
