import PrefVerif.Lemmas.C20Kendall
/-!
# C20 helper lemmas — Sertel loop, guards, `full_profile`, `distance_matrix`
-/
namespace PrefVerif.C20
open PrefVerif.Distances PrefVerif.Spec

theorem sertelJ_single (x : Nat) (b : List Nat) : sertelJ [x] b = 0 := by
  cases b <;> simp [sertelJ]

theorem sertelJ_nil_right (a : List Nat) : sertelJ a [] = 0 := by
  cases a <;> simp [sertelJ]

theorem sertelJ_cons2 (x z y : Nat) (a b : List Nat) :
    sertelJ (x :: z :: a) (y :: b) = if x = y then 1 + sertelJ (z :: a) b else 0 := by
  rw [sertelJ]; simp; intro h; exact absurd h (by simp)

theorem sertelJ_symm (a : List Nat) : ∀ b : List Nat, a.length = b.length → sertelJ a b = sertelJ b a := by
  induction a with
  | nil => intro b _; cases b <;> simp [sertelJ]
  | cons x a ih =>
    intro b hl
    cases b with
    | nil => simp at hl
    | cons y b =>
      have hl' : a.length = b.length := by simpa using hl
      cases a with
      | nil =>
        cases b with
        | nil => simp [sertelJ_single]
        | cons _ _ => simp at hl'
      | cons z a =>
        cases b with
        | nil => simp at hl'
        | cons w b =>
          have := ih (w :: b) hl'
          rw [sertelJ_cons2, sertelJ_cons2, this]
          by_cases hxy : x = y
          · subst hxy; simp
          · have : ¬ y = x := fun e => hxy e.symm
            simp [hxy, this]

theorem sertelJ_self (a : List Nat) : sertelJ a a = a.length - 1 := by
  induction a with
  | nil => rfl
  | cons x a ih =>
    cases a with
    | nil => simp [sertelJ_single]
    | cons z a =>
      rw [sertelJ_cons2, ih]
      simp
      omega

theorem sertelJ_dropLast (a : List Nat) :
    ∀ b : List Nat, a.length = b.length → a.length - 1 ≤ sertelJ a b → a.dropLast = b.dropLast := by
  induction a with
  | nil => intro b hl _; cases b <;> simp at hl ⊢
  | cons x a ih =>
    intro b hl hj
    cases b with
    | nil => simp at hl
    | cons y b =>
      have hl' : a.length = b.length := by simpa using hl
      cases a with
      | nil =>
        cases b with
        | nil => simp
        | cons _ _ => simp at hl'
      | cons z a =>
        cases b with
        | nil => simp at hl'
        | cons w b =>
          rw [sertelJ_cons2] at hj
          by_cases hxy : x = y
          · subst hxy
            have hj' : (z :: a).length - 1 ≤ sertelJ (z :: a) (w :: b) := by
              simp at hj ⊢
              omega
            have := ih (w :: b) hl' hj'
            simp only [List.dropLast_cons_cons] at this ⊢
            rw [this]
          · simp [hxy] at hj

theorem eq_of_sameRanking_dropLast (a b : List Nat) (h : SameRanking a b)
    (hd : a.dropLast = b.dropLast) : a = b := by
  have hl := h.length_eq
  cases a with
  | nil =>
    simp at hl
    exact (List.length_eq_zero_iff.1 hl.symm).symm
  | cons x a' =>
    have hb : b ≠ [] := by intro e; simp [e] at hl
    have ea := List.dropLast_concat_getLast (l := x :: a') (by simp)
    have eb := List.dropLast_concat_getLast hb
    generalize (x :: a').getLast (by simp) = s at ea
    generalize b.getLast hb = t at eb
    rw [← hd] at eb
    generalize (x :: a').dropLast = p at ea eb
    rw [← ea, ← eb] at h ⊢
    have hs : s ∈ p ++ [t] := (h.2.2 s).1 (by simp)
    have hn : s ∉ p := by
      have := h.1
      rw [List.nodup_append] at this
      intro hsp
      exact this.2.2 s hsp s (by simp) rfl
    rcases List.mem_append.1 hs with h1 | h1
    · exact absurd h1 hn
    · simp at h1; rw [h1]

theorem all_contains_of_sameRanking (a b : List Nat) (h : SameRanking a b) :
    a.all (fun x => b.contains x) = true := by
  rw [List.all_eq_true]
  intro x hx
  simpa using (h.2.2 x).1 hx

theorem fullProfile_length' {α : Type} (os : List (α × Nat)) :
    (fullProfile os).length = (os.map (·.2)).sum := by
  induction os with
  | nil => rfl
  | cons p os ih =>
    simp only [fullProfile, List.flatMap_cons, List.length_append, List.length_replicate,
      List.map_cons, List.sum_cons] at ih ⊢
    rw [ih]

theorem distanceMatrix_get {α β : Type} (z : β) (f : α → α → β) (p : List α) (i j : Nat)
    (hi : i < p.length) (hj : j < p.length) :
    ((distanceMatrix z f p)[i]?.bind (·[j]?)) = some (if i = j then z else f p[i] p[j]) := by
  simp [distanceMatrix, hi, hj]

theorem distanceMatrix_get_none_left {α β : Type} (z : β) (f : α → α → β) (p : List α) (i j : Nat)
    (hi : ¬ i < p.length) : ((distanceMatrix z f p)[i]?.bind (·[j]?)) = none := by
  have : (distanceMatrix z f p)[i]? = none := by
    simp [distanceMatrix]; omega
  simp [this]

theorem distanceMatrix_get_none_right {α β : Type} (z : β) (f : α → α → β) (p : List α) (i j : Nat)
    (hj : ¬ j < p.length) : ((distanceMatrix z f p)[i]?.bind (·[j]?)) = none := by
  by_cases hi : i < p.length
  · simp [distanceMatrix, hi]; omega
  · exact distanceMatrix_get_none_left z f p i j hi

end PrefVerif.C20
