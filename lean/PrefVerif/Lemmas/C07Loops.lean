import PrefVerif.Lemmas.C07Bump
import PrefVerif.Spec.Voting
/-!
# C07 helper lemmas: the per-order loop of `pairwise_scores` / `copeland_scores`
-/
namespace PrefVerif.C07
open PrefVerif PrefVerif.Pairwise PrefVerif.Py PrefVerif.Spec

set_option linter.unusedSimpArgs false

/-- the common loop skeleton: for each class, for each `beaten` in it, for each `w` ranked
before, apply `f t w beaten`; then extend `alternatives_before` -/
def orderLoop (f : Table → Nat → Nat → Table) (acc : Table × List Nat) (o : Order) :
    Table × List Nat :=
  o.foldl (fun (acc : Table × List Nat) cls =>
    (cls.foldl (fun t beaten => acc.2.foldl (fun t w => f t w beaten) t) acc.1, acc.2 ++ cls)) acc

theorem pairwiseOrder_eq (t : Table) (o : Order) (m : Nat) :
    pairwiseOrder t o m = (orderLoop (fun t w b => bump t w b m) (t, []) o).1 := rfl

theorem copelandOrder_eq (t : Table) (o : Order) (m : Nat) :
    copelandOrder t o m
      = (orderLoop (fun t w b => bump (bump t w b m) b w (-(m : Int))) (t, []) o).1 := rfl

theorem inv_orderLoop {β : Type} (P : Table → β) (f : Table → Nat → Nat → Table)
    (h : ∀ t w b, P (f t w b) = P t) (acc : Table × List Nat) (o : Order) :
    P (orderLoop f acc o).1 = P acc.1 := by
  induction o generalizing acc with
  | nil => rfl
  | cons cls o ih =>
    simp only [orderLoop, List.foldl_cons] at ih ⊢
    rw [ih]
    simp only
    apply inv_foldl P
    intro t b
    apply inv_foldl P
    intro t w
    exact h t w b

/-- total increment of one cell over the whole loop, for a per-iteration increment `g w beaten` -/
def tot (g : Nat → Nat → Int) : List Nat → Order → Int
  | _, [] => 0
  | before, cls :: o =>
    (cls.map (fun b => (before.map (fun w => g w b)).sum)).sum + tot g (before ++ cls) o

theorem look_orderLoop (f : Table → Nat → Nat → Table) (g : Nat → Nat → Int) (x y : Nat)
    (h : ∀ t w b, look (f t w b) x y = (look t x y).map (· + g w b))
    (acc : Table × List Nat) (o : Order) :
    look (orderLoop f acc o).1 x y = (look acc.1 x y).map (· + tot g acc.2 o) := by
  induction o generalizing acc with
  | nil => simp [orderLoop, tot]
  | cons cls o ih =>
    simp only [orderLoop, List.foldl_cons] at ih ⊢
    rw [ih]
    simp only [tot]
    rw [look_foldl cls _ (fun b => (acc.2.map (fun w => g w b)).sum) x y]
    · simp [Option.map_map, Function.comp_def, Int.add_assoc]
    · intro t b _
      rw [look_foldl acc.2 _ (fun w => g w b) x y]
      intro t w _
      exact h t w b

theorem sum_map_add {α : Type} (l : List α) (f g : α → Int) :
    (l.map (fun a => f a + g a)).sum = (l.map f).sum + (l.map g).sum := by
  induction l with
  | nil => simp
  | cons a l ih => simp only [List.map_cons, List.sum_cons, ih]; omega

theorem tot_add (g₁ g₂ : Nat → Nat → Int) (before : List Nat) (o : Order) :
    tot (fun w b => g₁ w b + g₂ w b) before o = tot g₁ before o + tot g₂ before o := by
  induction o generalizing before with
  | nil => simp [tot]
  | cons cls o ih =>
    simp only [tot, ih, sum_map_add]
    omega

/-- number of loop iterations `(w, beaten) = (x, y)` -/
def cnt (x y : Nat) : List Nat → Order → Nat
  | _, [] => 0
  | before, cls :: o => cls.count y * before.count x + cnt x y (before ++ cls) o

theorem tot_indicator (x y : Nat) (d : Int) (before : List Nat) (o : Order) :
    tot (fun w b => if x = w ∧ y = b then d else 0) before o = (cnt x y before o : Int) * d := by
  induction o generalizing before with
  | nil => simp [tot, cnt]
  | cons cls o ih =>
    simp only [tot, cnt, ih, sum_map_ite_eq, sum_map_mul_count]
    simp only [Int.natCast_add, Int.natCast_mul, Int.add_mul, Int.mul_assoc]

theorem tot_indicator' (x y : Nat) (d : Int) (before : List Nat) (o : Order) :
    tot (fun w b => if x = b ∧ y = w then d else 0) before o = (cnt y x before o : Int) * d := by
  rw [← tot_indicator]
  congr 1
  funext w b
  simp [and_comm]

theorem look_pairwiseOrder (t : Table) (o : Order) (m : Nat) (x y : Nat) :
    look (pairwiseOrder t o m) x y = (look t x y).map (· + (cnt x y [] o : Int) * m) := by
  rw [pairwiseOrder_eq,
    look_orderLoop _ (fun w b => if x = w ∧ y = b then (m : Int) else 0) x y
      (fun t w b => look_bump t w b m x y), tot_indicator]

theorem look_copelandOrder (t : Table) (o : Order) (m : Nat) (x y : Nat) :
    look (copelandOrder t o m) x y
      = (look t x y).map (· + ((cnt x y [] o : Int) * m - (cnt y x [] o : Int) * m)) := by
  rw [copelandOrder_eq,
    look_orderLoop _ (fun w b => (if x = w ∧ y = b then (m : Int) else 0)
        + (if x = b ∧ y = w then (-(m : Int)) else 0)) x y, tot_add, tot_indicator, tot_indicator']
  · congr 1
    funext v
    simp only [Int.mul_neg]
    omega
  · intro t w b
    rw [look_bump, look_bump]
    simp [Option.map_map, Function.comp_def, Int.add_assoc]

theorem keys_pairwiseOrder (t : Table) (o : Order) (m : Nat) :
    AList.keys (pairwiseOrder t o m) = AList.keys t := by
  rw [pairwiseOrder_eq]
  exact inv_orderLoop AList.keys _ (fun t w b => keys_bump t w b m) _ o

theorem rowKeys_pairwiseOrder (t : Table) (o : Order) (m : Nat) (x : Nat) :
    rowKeys (pairwiseOrder t o m) x = rowKeys t x := by
  rw [pairwiseOrder_eq]
  exact inv_orderLoop (fun t => rowKeys t x) _ (fun t w b => rowKeys_bump t w b m x) _ o

theorem keys_copelandOrder (t : Table) (o : Order) (m : Nat) :
    AList.keys (copelandOrder t o m) = AList.keys t := by
  rw [copelandOrder_eq]
  exact inv_orderLoop AList.keys _ (fun t w b => by rw [keys_bump, keys_bump]) _ o

theorem rowKeys_copelandOrder (t : Table) (o : Order) (m : Nat) (x : Nat) :
    rowKeys (copelandOrder t o m) x = rowKeys t x := by
  rw [copelandOrder_eq]
  exact inv_orderLoop (fun t => rowKeys t x) _
    (fun t w b => by simp only [rowKeys_bump]) _ o

end PrefVerif.C07
