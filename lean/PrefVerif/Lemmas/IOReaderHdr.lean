import PrefVerif.Lemmas.IOReader
/-!
# The independent reader on written header lines

`keyValue` of the three kinds of header line, and how the numbered-key filters of `read` treat them.
-/
namespace PrefVerif.IOL
open PrefVerif.Py PrefVerif.InstanceIO PrefVerif.Spec.Format

theorem name_no_colon (f : Field) : ∀ c ∈ f.name, c ≠ ':' := by cases f <;> decide

theorem keyValue_fieldLine (f : Field) (v : Str) : keyValue (fieldLine f v) = (f.name, v) := by
  have e : fieldLine f v = '#' :: ' ' :: f.name ++ ':' :: ' ' :: v := by simp [fieldLine, Field.key]
  rw [e, keyValue_line _ _ (name_no_colon f)]

theorem keyValue_numLine (k : Str) (hk : ∀ c ∈ k, c ≠ ':') (n : Nat) :
    keyValue (numLine ('#' :: ' ' :: k ++ [':']) n) = (k, natToStr n) := by
  have e : numLine ('#' :: ' ' :: k ++ [':']) n = '#' :: ' ' :: k ++ ':' :: ' ' :: natToStr n := by
    simp [numLine]
  rw [e, keyValue_line _ _ hk]

theorem keyValue_numberedLine (p : Str) (hp : ∀ c ∈ p, c ≠ ':') (kv : Nat × Str) :
    keyValue (numberedLine ('#' :: ' ' :: p) kv) = (p ++ natToStr kv.1, kv.2) := by
  have e : numberedLine ('#' :: ' ' :: p) kv = '#' :: ' ' :: (p ++ natToStr kv.1) ++ ':' :: ' ' :: kv.2 := by
    simp [numberedLine]
  rw [e, keyValue_line]
  intro c hc
  rcases List.mem_append.1 hc with h | h
  · exact hp c h
  · exact natToStr_ne h (by decide)

/-- key/value pairs of the `write_metadata` lines -/
def kvMeta (h : Header) : List (Str × Str) := Field.all.map (fun f => (f.name, f.get h))

/-- key/value pairs of numbered-name lines -/
def kvNumbered (pfx : String) (names : AList Nat Str) : List (Str × Str) :=
  names.map (fun kv => (pfx.toList ++ natToStr kv.1, kv.2))

theorem map_keyValue_metaLines (h : Header) : (metaLines h).map keyValue = kvMeta h := by
  simp only [metaLines, kvMeta, List.map_map]
  apply List.map_congr_left
  intro f _; exact keyValue_fieldLine f _

theorem map_keyValue_altLines (names : AList Nat Str) :
    (names.map (numberedLine altPfx)).map keyValue = kvNumbered "ALTERNATIVE NAME " names := by
  simp only [kvNumbered, List.map_map]
  apply List.map_congr_left
  intro kv _
  exact keyValue_numberedLine (s "ALTERNATIVE NAME ") (by decide) kv

theorem numberedKey_of_not_prefix (pfx : String) (key : Str) (h : pfx.toList.isPrefixOf key = false) :
    numberedKey pfx key = none := by
  simp [numberedKey, h]

theorem numberedKey_alt_field (f : Field) : numberedKey "ALTERNATIVE NAME " f.name = none := by
  apply numberedKey_of_not_prefix
  cases f <;> simp [Field.name, s, List.isPrefixOf]

theorem numberedKey_cat_field (f : Field) : numberedKey "CATEGORY NAME " f.name = none := by
  apply numberedKey_of_not_prefix
  cases f <;> simp [Field.name, s, List.isPrefixOf]

/-- numbered-name lines are picked up by their own prefix … -/
theorem filterMap_numbered_self (pfx : String) (names : AList Nat Str) :
    (kvNumbered pfx names).filterMap (fun kv => (numberedKey pfx kv.1).map (fun n => (n, kv.2)))
      = names := by
  induction names with
  | nil => rfl
  | cons kv names ih =>
    simp only [kvNumbered, List.map_cons] at ih ⊢
    rw [List.filterMap_cons, numberedKey_numbered]
    simp only [Option.map_some]
    rw [ih]

/-- … and ignored under a prefix that does not match -/
theorem filterMap_numbered_other (pfx q : String) (names : AList Nat Str)
    (h : ∀ r : Str, q.toList.isPrefixOf (pfx.toList ++ r) = false) :
    (kvNumbered pfx names).filterMap (fun kv => (numberedKey q kv.1).map (fun n => (n, kv.2))) = [] := by
  apply List.filterMap_eq_nil_iff.2
  intro kv hkv
  obtain ⟨x, _, rfl⟩ := List.mem_map.1 hkv
  simp [numberedKey_of_not_prefix q _ (h _)]

theorem filterMap_alt_kvMeta (h : Header) :
    (kvMeta h).filterMap (fun kv => (numberedKey "ALTERNATIVE NAME " kv.1).map (fun n => (n, kv.2))) = [] := by
  apply List.filterMap_eq_nil_iff.2
  intro kv hkv
  obtain ⟨f, _, rfl⟩ := List.mem_map.1 hkv
  simp [numberedKey_alt_field]

theorem filterMap_cat_kvMeta (h : Header) :
    (kvMeta h).filterMap (fun kv => (numberedKey "CATEGORY NAME " kv.1).map (fun n => (n, kv.2))) = [] := by
  apply List.filterMap_eq_nil_iff.2
  intro kv hkv
  obtain ⟨f, _, rfl⟩ := List.mem_map.1 hkv
  simp [numberedKey_cat_field]

theorem filter_fields_kvMeta (h : Header) :
    (kvMeta h).filter (fun kv => (numberedKey "ALTERNATIVE NAME " kv.1).isNone
      && (numberedKey "CATEGORY NAME " kv.1).isNone) = kvMeta h := by
  apply List.filter_eq_self.2
  intro kv hkv
  obtain ⟨f, _, rfl⟩ := List.mem_map.1 hkv
  simp [numberedKey_alt_field, numberedKey_cat_field]

theorem filter_fields_kvNumbered_alt (names : AList Nat Str) :
    (kvNumbered "ALTERNATIVE NAME " names).filter (fun kv => (numberedKey "ALTERNATIVE NAME " kv.1).isNone
      && (numberedKey "CATEGORY NAME " kv.1).isNone) = [] := by
  apply List.filter_eq_nil_iff.2
  intro kv hkv
  obtain ⟨x, _, rfl⟩ := List.mem_map.1 hkv
  have := numberedKey_numbered "ALTERNATIVE NAME " x.1
  simp only [this, Option.isNone_some, Bool.false_and, Bool.false_eq_true, not_false_eq_true]

end PrefVerif.IOL
