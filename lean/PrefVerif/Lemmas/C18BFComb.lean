import PrefVerif.Model.KAltPartitionBF
/-!
`singleton_pair_combinations(items)` enumerates exactly the partitions of `items` into singletons and pairs:
the fuel of the model is enough, every enumerated list of blocks is such a partition, and every such partition
is enumerated (up to the order of the blocks and the order inside the pairs).
-/
namespace PrefVerif.C18BF
open PrefVerif.KAltBF

theorem flatMap_congr' {α β : Type} {f g : α → List β} (l : List α) (h : ∀ a ∈ l, f a = g a) :
    l.flatMap f = l.flatMap g := by
  induction l with
  | nil => rfl
  | cons x xs ih =>
    rw [List.flatMap_cons, List.flatMap_cons, h x (by simp), ih (fun a ha => h a (by simp [ha]))]

theorem length_filter_ne_lt (t : List Nat) (p : Nat) (hp : p ∈ t) :
    (t.filter (fun i => i != p)).length < t.length := by
  rw [List.length_filter_lt_length_iff_exists]
  exact ⟨p, hp, by simp⟩

/-- more fuel than `len(items)` does not change the result -/
theorem spcAux_fuel (f g : Nat) (l : List Nat) (hf : l.length ≤ f) (hg : l.length ≤ g) :
    spcAux f l = spcAux g l := by
  induction f generalizing g l with
  | zero =>
    have : l = [] := List.eq_nil_of_length_eq_zero (by omega)
    subst this
    cases g <;> rfl
  | succ f ih =>
    match l, hf, hg with
    | [], _, _ => cases g <;> rfl
    | [a], _, _ => cases g <;> rfl
    | a :: b :: rest, hf, hg =>
      cases g with
      | zero => simp at hg
      | succ g =>
        simp only [List.length_cons] at hf hg
        simp only [spcAux]
        congr 1
        · apply flatMap_congr'
          intro p hp
          have hlt := length_filter_ne_lt (b :: rest) p hp
          simp only [List.length_cons] at hlt
          rw [ih g _ (by omega) (by omega)]
        · rw [ih g _ (by simp; omega) (by simp; omega)]

/-- the recursion of `singleton_pair_combinations` -/
theorem spc_nil : singletonPairCombinations [] = [[]] := rfl

theorem spc_cons (a : Nat) (t : List Nat) :
    singletonPairCombinations (a :: t) =
      t.flatMap (fun p => (singletonPairCombinations (t.filter (fun i => i != p))).map (fun c => [a, p] :: c)) ++
      (singletonPairCombinations t).map (fun c => [a] :: c) := by
  cases t with
  | nil => rfl
  | cons b rest =>
    unfold singletonPairCombinations
    simp only [List.length_cons, spcAux]
    congr 1
    · apply flatMap_congr'
      intro p hp
      have hlt := length_filter_ne_lt (b :: rest) p hp
      simp only [List.length_cons] at hlt
      rw [spcAux_fuel (rest.length + 1) _ _ (by omega) (Nat.le_refl _)]

/-- a list of blocks partitions `items` into singletons and pairs -/
def IsSPPartition (items : List Nat) (c : List (List Nat)) : Prop :=
  c.flatten.Perm items ∧ ∀ b ∈ c, b.length = 1 ∨ b.length = 2

theorem nodup_filter {l : List Nat} (h : l.Nodup) (p : Nat → Bool) : (l.filter p).Nodup :=
  h.sublist List.filter_sublist

/-- soundness: everything enumerated is a partition into singletons and pairs -/
theorem spc_sound (items : List Nat) (hnd : items.Nodup) :
    ∀ c ∈ singletonPairCombinations items, IsSPPartition items c := by
  generalize hn : items.length = n
  induction n using Nat.strongRecOn generalizing items with
  | _ n ih =>
    cases items with
    | nil =>
      intro c hc
      rw [spc_nil] at hc
      simp only [List.mem_singleton] at hc
      subst hc
      exact ⟨by simp, by simp⟩
    | cons a t =>
      intro c hc
      rw [spc_cons, List.mem_append] at hc
      have hndt : t.Nodup := (List.nodup_cons.1 hnd).2
      simp only [List.length_cons] at hn
      rcases hc with hc | hc
      · rw [List.mem_flatMap] at hc
        obtain ⟨p, hp, hc⟩ := hc
        rw [List.mem_map] at hc
        obtain ⟨c', hc', rfl⟩ := hc
        have hlt := length_filter_ne_lt t p hp
        obtain ⟨h1, h2⟩ := ih _ (by omega) (t.filter (fun i => i != p)) (nodup_filter hndt _) rfl c' hc'
        refine ⟨?_, ?_⟩
        · rw [List.flatten_cons]
          have h3 : (p :: c'.flatten).Perm t := by
            refine (List.Perm.cons p h1).trans ?_
            rw [← hndt.erase_eq_filter]
            exact (List.perm_cons_erase hp).symm
          exact List.Perm.cons a h3
        · intro b hb
          simp only [List.mem_cons] at hb
          rcases hb with rfl | hb
          · exact Or.inr rfl
          · exact h2 b hb
      · rw [List.mem_map] at hc
        obtain ⟨c', hc', rfl⟩ := hc
        obtain ⟨h1, h2⟩ := ih _ (by omega) t hndt rfl c' hc'
        refine ⟨?_, ?_⟩
        · rw [List.flatten_cons]
          exact List.Perm.cons a h1
        · intro b hb
          simp only [List.mem_cons] at hb
          rcases hb with rfl | hb
          · exact Or.inl rfl
          · exact h2 b hb

/-- two lists of blocks describe the same partition (blocks up to the order of their elements) -/
def SameBlocks (c c' : List (List Nat)) : Prop :=
  (∀ b ∈ c, ∃ b' ∈ c', b'.Perm b) ∧ (∀ b' ∈ c', ∃ b ∈ c, b'.Perm b)

theorem flatten_erase_perm (c : List (List Nat)) (b : List Nat) (hb : b ∈ c) :
    c.flatten.Perm (b ++ (c.erase b).flatten) := by
  have := (List.perm_cons_erase hb).flatten
  rwa [List.flatten_cons] at this

/-- completeness: every partition into singletons and pairs is enumerated -/
theorem spc_complete (items : List Nat) (hnd : items.Nodup) (c : List (List Nat)) (hc : IsSPPartition items c) :
    ∃ c' ∈ singletonPairCombinations items, SameBlocks c c' := by
  generalize hn : items.length = n
  induction n using Nat.strongRecOn generalizing items c with
  | _ n ih =>
    obtain ⟨hperm, hlen⟩ := hc
    cases items with
    | nil =>
      have hcnil : c = [] := by
        cases c with
        | nil => rfl
        | cons b c0 =>
          exfalso
          have hb := hlen b (by simp)
          have : (b ++ c0.flatten).length = 0 := by
            have := hperm.length_eq
            simpa using this
          rw [List.length_append] at this
          omega
      subst hcnil
      exact ⟨[], by simp [spc_nil], by simp [SameBlocks]⟩
    | cons a t =>
      have hndt : t.Nodup := (List.nodup_cons.1 hnd).2
      have hat : a ∉ t := (List.nodup_cons.1 hnd).1
      simp only [List.length_cons] at hn
      have ha : a ∈ c.flatten := hperm.mem_iff.2 (by simp)
      rw [List.mem_flatten] at ha
      obtain ⟨b, hbc, hab⟩ := ha
      have hfl := (flatten_erase_perm c b hbc).symm.trans hperm
      have hlen' : ∀ b' ∈ c.erase b, b'.length = 1 ∨ b'.length = 2 :=
        fun b' hb' => hlen b' (List.mem_of_mem_erase hb')
      have hmemc : ∀ b0 ∈ c, b0 = b ∨ b0 ∈ c.erase b := by
        intro b0 hb0
        have := (List.perm_cons_erase hbc).mem_iff.1 hb0
        simpa using this
      -- the block of `a` is `[a]`, `[a, p]` or `[p, a]`
      have hcases : b = [a] ∨ ∃ p, (b = [a, p] ∨ b = [p, a]) := by
        rcases hlen b hbc with h1 | h2
        · left
          match b, h1, hab with
          | [x], _, hab => simp at hab; rw [hab]
        · right
          match b, h2, hab with
          | [x, y], _, hab =>
            simp only [List.mem_cons, List.not_mem_nil, or_false] at hab
            rcases hab with rfl | rfl
            · exact ⟨y, Or.inl rfl⟩
            · exact ⟨x, Or.inr rfl⟩
      rcases hcases with rfl | ⟨p, hbp⟩
      · -- singleton
        have hrest : (c.erase [a]).flatten.Perm t := by
          have : (a :: (c.erase [a]).flatten).Perm (a :: t) := by simpa using hfl
          exact this.cons_inv
        obtain ⟨c', hc', hs1, hs2⟩ := ih _ (by omega) t hndt (c.erase [a]) ⟨hrest, hlen'⟩ rfl
        refine ⟨[a] :: c', ?_, ?_, ?_⟩
        · rw [spc_cons, List.mem_append]
          exact Or.inr (List.mem_map.2 ⟨c', hc', rfl⟩)
        · intro b0 hb0
          rcases hmemc b0 hb0 with rfl | hb0
          · exact ⟨[a], by simp, List.Perm.refl _⟩
          · obtain ⟨b', hb', hp⟩ := hs1 b0 hb0
            exact ⟨b', by simp [hb'], hp⟩
        · intro b' hb'
          simp only [List.mem_cons] at hb'
          rcases hb' with rfl | hb'
          · exact ⟨[a], hbc, List.Perm.refl _⟩
          · obtain ⟨b0, hb0, hp⟩ := hs2 b' hb'
            exact ⟨b0, List.mem_of_mem_erase hb0, hp⟩
      · -- pair
        have hbperm : ([a, p] : List Nat).Perm b := by
          rcases hbp with rfl | rfl
          · exact List.Perm.refl _
          · exact List.Perm.swap _ _ _
        have hfl2 : (a :: p :: (c.erase b).flatten).Perm (a :: t) := by
          have := (List.Perm.append_right (c.erase b).flatten hbperm).trans hfl
          simpa using this
        have hpt : (p :: (c.erase b).flatten).Perm t := hfl2.cons_inv
        have hp : p ∈ t := hpt.mem_iff.1 (by simp)
        have hrest : (c.erase b).flatten.Perm (t.filter (fun i => i != p)) := by
          rw [← hndt.erase_eq_filter]
          have := hpt.erase p
          simpa using this
        have hlt := length_filter_ne_lt t p hp
        obtain ⟨c', hc', hs1, hs2⟩ := ih _ (by omega) (t.filter (fun i => i != p)) (nodup_filter hndt _)
          (c.erase b) ⟨hrest, hlen'⟩ rfl
        refine ⟨[a, p] :: c', ?_, ?_, ?_⟩
        · rw [spc_cons, List.mem_append]
          refine Or.inl (List.mem_flatMap.2 ⟨p, hp, ?_⟩)
          exact List.mem_map.2 ⟨c', hc', rfl⟩
        · intro b0 hb0
          rcases hmemc b0 hb0 with rfl | hb0
          · exact ⟨[a, p], by simp, hbperm⟩
          · obtain ⟨b', hb', hp'⟩ := hs1 b0 hb0
            exact ⟨b', by simp [hb'], hp'⟩
        · intro b' hb'
          simp only [List.mem_cons] at hb'
          rcases hb' with rfl | hb'
          · exact ⟨b, hbc, hbperm⟩
          · obtain ⟨b0, hb0, hp'⟩ := hs2 b' hb'
            exact ⟨b0, List.mem_of_mem_erase hb0, hp'⟩

end PrefVerif.C18BF
