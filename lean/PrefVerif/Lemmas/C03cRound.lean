import PrefVerif.Lemmas.C03cValley
import PrefVerif.Lemmas.C03Sound
/-!
# C03 completeness, part 4: the existential invariant and the facts available in one round

`Ex alts orders T L R`: some axis of the form `T ++ L ++ M ++ R` lists every alternative once and is a
single-peaked axis of the profile.  (`T`, `L`, `R` are `to_append_left`, `left_axis`, `right_axis`.)
A single-peaked profile satisfies it initially; every iteration of the `while` loop preserves it;
every `False` exit contradicts it.
-/
namespace PrefVerif.C03c
open PrefVerif PrefVerif.ELO PrefVerif.Spec PrefVerif.C03

/-- every voter is single-peaked on the axis -/
def Valid (orders : List (List Nat)) (axis : List Nat) : Prop := ∀ o ∈ orders, NoValley o axis

theorem valid_iff_SPOnAxis {alts : List Nat} {orders : List (List Nat)} (hr : Rankings alts orders)
    {axis : List Nat} (hax : axis.Perm alts) : SPOnAxis (orders.map wrap) axis ↔ Valid orders axis := by
  have hsub : ∀ o ∈ orders, ∀ a ∈ axis, a ∈ o := fun o ho a ha =>
    (hr.perm o ho).mem_iff.2 (hax.mem_iff.1 ha)
  constructor
  · intro h o ho
    apply noValley_of_contig (hsub o ho)
    intro n
    have := h (wrap o) (List.mem_map.2 ⟨o, ho, rfl⟩) n
    rwa [topClasses_wrap] at this
  · intro h o' ho' k
    obtain ⟨o, ho, rfl⟩ := List.mem_map.1 ho'
    rw [topClasses_wrap]
    exact contig_of_noValley (hsub o ho) (h o ho) k

/-- the existential invariant -/
def Ex (alts : List Nat) (orders : List (List Nat)) (T L R : List Nat) : Prop :=
  ∃ M, (T ++ L ++ M ++ R).Perm alts ∧ Valid orders (T ++ L ++ M ++ R)

theorem Ex.of_eq {alts : List Nat} {orders : List (List Nat)} {T L R T' L' R' M : List Nat} (M' : List Nat)
    (e : T' ++ L' ++ M' ++ R' = T ++ L ++ M ++ R) (hM : (T ++ L ++ M ++ R).Perm alts)
    (hV : Valid orders (T ++ L ++ M ++ R)) : Ex alts orders T' L' R' :=
  ⟨M', e ▸ hM, e ▸ hV⟩

/-- reflection of the block of unplaced candidates when every voter ranks it above the rest -/
theorem reflect_valid {alts : List Nat} {orders : List (List Nat)} {A M B : List Nat}
    (hM : (A ++ M ++ B).Perm alts) (hV : Valid orders (A ++ M ++ B))
    (habove : ∀ o ∈ orders, Desc o A ∧ Asc o B ∧ (∀ m ∈ M, ∀ z ∈ A, lt o m z) ∧
      (∀ m ∈ M, ∀ z ∈ B, lt o m z)) :
    (A ++ M.reverse ++ B).Perm alts ∧ Valid orders (A ++ M.reverse ++ B) := by
  refine ⟨?_, fun o ho => ?_⟩
  · exact (((List.Perm.refl A).append (List.reverse_perm M)).append (List.Perm.refl B)).trans hM
  · obtain ⟨h1, h2, h3, h4⟩ := habove o ho
    exact reflect_block h1 h2 h3 h4 (hV o ho)

/-! ### lists with given ends -/

theorem two_ends {M : List Nat} {x y : Nat} (hxy : x ≠ y)
    (hx : (∃ M', M = x :: M') ∨ (∃ M', M = M' ++ [x]))
    (hy : (∃ M', M = y :: M') ∨ (∃ M', M = M' ++ [y])) :
    (∃ M'', M = x :: (M'' ++ [y])) ∨ (∃ M'', M = y :: (M'' ++ [x])) := by
  rcases hx with ⟨M1, h1⟩ | ⟨M1, h1⟩ <;> rcases hy with ⟨M2, h2⟩ | ⟨M2, h2⟩
  · rw [h1] at h2; simp only [List.cons.injEq] at h2; exact absurd h2.1 hxy
  · left
    rcases List.eq_nil_or_concat M1 with rfl | ⟨M1', c, rfl⟩
    · rw [h1] at h2
      cases M2 with
      | nil => simp only [List.nil_append, List.cons.injEq, and_true] at h2; exact absurd h2 hxy
      | cons a M2 => simp at h2
    · rw [h1, List.concat_eq_append] at h2
      have := List.append_inj' (s₁ := x :: M1') (t₁ := [c]) (s₂ := M2) (t₂ := [y]) (by simpa using h2) rfl
      simp only [List.cons.injEq, and_true] at this
      refine ⟨M1', ?_⟩
      rw [h1, List.concat_eq_append, this.2]
  · right
    rcases List.eq_nil_or_concat M2 with rfl | ⟨M2', c, rfl⟩
    · rw [h2] at h1
      cases M1 with
      | nil => simp only [List.nil_append, List.cons.injEq, and_true] at h1; exact absurd h1.symm hxy
      | cons a M1 => simp at h1
    · rw [h2, List.concat_eq_append] at h1
      have := List.append_inj' (s₁ := y :: M2') (t₁ := [c]) (s₂ := M1) (t₂ := [x]) (by simpa using h1) rfl
      simp only [List.cons.injEq, and_true] at this
      refine ⟨M2', ?_⟩
      rw [h2, List.concat_eq_append, this.2]
  · rw [h1] at h2
    have := List.append_inj' h2 rfl
    simp only [List.cons.injEq, and_true] at this
    exact absurd this.2 hxy

/-- a duplicate-free list with at least two elements does not begin and end with the same element -/
theorem head_last_false {M M1 M2 : List Nat} {x : Nat} (hn : M.Nodup) (hlen : 2 ≤ M.length)
    (h1 : M = x :: M1) (h2 : M = M2 ++ [x]) : False := by
  rcases List.eq_nil_or_concat M1 with rfl | ⟨M1', c, rfl⟩
  · rw [h1] at hlen; simp at hlen
  · rw [h1, List.concat_eq_append] at h2 hn
    have := List.append_inj' (s₁ := x :: M1') (t₁ := [c]) (s₂ := M2) (t₂ := [x]) (by simpa using h2) rfl
    simp only [List.cons.injEq, and_true] at this
    have hc := this.2
    subst hc
    simp at hn

/-! ### one round -/

/-- the situation at the beginning of an iteration: the remaining preferences have just been popped,
and `T ++ L ++ M ++ R` is a single-peaked axis -/
structure Round (alts : List Nat) (orders : List (List Nat)) (s : State)
    (popped : List (List Nat × Nat)) (M : List Nat) : Prop where
  hn : alts.Nodup
  ho : ∀ o ∈ orders, o.Perm alts
  hperm : ∀ p ∈ s.prefs, (s.tal ++ s.left ++ p ++ s.right).Perm alts
  hsub : ∀ o ∈ orders, ∃ p ∈ s.prefs, p.Sublist o
  hsub' : ∀ p ∈ s.prefs, ∃ o ∈ orders, p.Sublist o
  hprefs : s.prefs = popped.map (fun r => r.1 ++ [r.2])
  hM : (s.tal ++ s.left ++ M ++ s.right).Perm alts
  hV : Valid orders (s.tal ++ s.left ++ M ++ s.right)

section
variable {alts : List Nat} {orders : List (List Nat)} {s : State} {popped : List (List Nat × Nat)}
  {M : List Nat}

theorem Round.nodup (R : Round alts orders s popped M) : M.Nodup := pref_nodup R.hn R.hM

theorem Round.pref_mem (R : Round alts orders s popped M) {r : List Nat × Nat} (hr : r ∈ popped) :
    r.1 ++ [r.2] ∈ s.prefs := by
  rw [R.hprefs]; exact List.mem_map.2 ⟨r, hr, rfl⟩

theorem Round.perm_pref (R : Round alts orders s popped M) {r : List Nat × Nat} (hr : r ∈ popped) :
    M.Perm (r.1 ++ [r.2]) :=
  prefs_perm R.hM (R.hperm _ (R.pref_mem hr))

theorem Round.last_mem (R : Round alts orders s popped M) {r : List Nat × Nat} (hr : r ∈ popped) :
    r.2 ∈ M := (R.perm_pref hr).mem_iff.2 (by simp)

theorem Round.mem_order (R : Round alts orders s popped M) {m : Nat} (hm : m ∈ M) {o : List Nat}
    (hoo : o ∈ orders) : m ∈ o :=
  (R.ho o hoo).mem_iff.2 (R.hM.mem_iff.1 (by simp [hm]))

theorem Round.placed_mem_order (R : Round alts orders s popped M) {z : Nat}
    (hz : z ∈ s.tal ++ s.left ∨ z ∈ s.right) {o : List Nat} (hoo : o ∈ orders) : z ∈ o := by
  refine (R.ho o hoo).mem_iff.2 (R.hM.mem_iff.1 ?_)
  rcases hz with h | h
  · exact List.mem_append_left _ (List.mem_append_left _ h)
  · exact List.mem_append_right _ h

theorem Round.memM (R : Round alts orders s popped M) (hpne : popped ≠ []) {m : Nat} (hm : m ∈ M) :
    memM s m := by
  obtain ⟨r, hr⟩ := List.exists_mem_of_ne_nil _ hpne
  exact ⟨_, R.pref_mem hr, (R.perm_pref hr).mem_iff.1 hm⟩

theorem Round.exists_voter (R : Round alts orders s popped M) (hpne : popped ≠ []) : ∃ o, o ∈ orders := by
  obtain ⟨r, hr⟩ := List.exists_mem_of_ne_nil _ hpne
  obtain ⟨o, ho, _⟩ := R.hsub' _ (R.pref_mem hr)
  exact ⟨o, ho⟩

/-- the popped candidate of a remaining preference is ranked last of `M` by the voter it comes from -/
theorem Round.popped_worst (R : Round alts orders s popped M) {r : List Nat × Nat} (hr : r ∈ popped) :
    ∃ o ∈ orders, ∀ m ∈ M, m ≠ r.2 → lt o m r.2 := by
  obtain ⟨o, ho, hs⟩ := R.hsub' _ (R.pref_mem hr)
  refine ⟨o, ho, fun m hm hne => ?_⟩
  have hmem := (R.perm_pref hr).mem_iff.1 hm
  have hmd : m ∈ r.1 := by
    rcases List.mem_append.1 hmem with h | h
    · exact h
    · exact absurd (List.mem_singleton.1 h) hne
  exact sublist_rank hs ((R.ho o ho).symm.nodup R.hn) m hmd

/-- every voter ranks some popped candidate last of `M` -/
theorem Round.voter_worst (R : Round alts orders s popped M) {o : List Nat} (hoo : o ∈ orders) :
    ∃ r ∈ popped, ∀ m ∈ M, m ≠ r.2 → lt o m r.2 := by
  obtain ⟨p, hp, hs⟩ := R.hsub o hoo
  have hp' := hp
  rw [R.hprefs] at hp'
  obtain ⟨r, hr, rfl⟩ := List.mem_map.1 hp'
  refine ⟨r, hr, fun m hm hne => ?_⟩
  have hmem := (R.perm_pref hr).mem_iff.1 hm
  have hmd : m ∈ r.1 := by
    rcases List.mem_append.1 hmem with h | h
    · exact h
    · exact absurd (List.mem_singleton.1 h) hne
  exact sublist_rank hs ((R.ho o hoo).symm.nodup R.hn) m hmd

/-- every popped candidate is at one of the two ends of `M` -/
theorem Round.at_end (R : Round alts orders s popped M) {r : List Nat × Nat} (hr : r ∈ popped) :
    (∃ M', M = r.2 :: M') ∨ (∃ M', M = M' ++ [r.2]) := by
  obtain ⟨o, ho, hw⟩ := R.popped_worst hr
  exact worst_at_end (R.hV o ho) R.nodup (R.last_mem hr) hw

end

/-! ### when the block of unplaced candidates is ranked above everything placed -/

theorem above_none {o : List Nat} {s : State} {M : List Nat} (hF : Full o s) (hl : s.left = [])
    (hr : s.right = []) (hmem : ∀ m ∈ M, memM s m) :
    Desc o (s.tal ++ s.left) ∧ Asc o s.right ∧ (∀ m ∈ M, ∀ z ∈ s.tal ++ s.left, lt o m z) ∧
      (∀ m ∈ M, ∀ z ∈ s.right, lt o m z) := by
  obtain ⟨hD, hA, hJ0, _⟩ := hF
  refine ⟨hD, hA, fun m hm z hz => ?_, fun m _ z hz => ?_⟩
  · rw [hl, List.append_nil] at hz
    exact hJ0 z hz m (hmem m hm)
  · rw [hr] at hz; simp at hz

theorem above_some {o : List Nat} {s : State} {M L0 R0 : List Nat} {xi xj : Nat} (hF : Full o s)
    (hl : s.left = L0 ++ [xi]) (hr : s.right = xj :: R0) (h : ∀ m ∈ M, lt o m xi ∧ lt o m xj) :
    Desc o (s.tal ++ s.left) ∧ Asc o s.right ∧ (∀ m ∈ M, ∀ z ∈ s.tal ++ s.left, lt o m z) ∧
      (∀ m ∈ M, ∀ z ∈ s.right, lt o m z) := by
  obtain ⟨hD, hA, _, _⟩ := hF
  refine ⟨hD, hA, fun m hm z hz => ?_, fun m hm z hz => ?_⟩
  · rw [hl, ← List.append_assoc] at hz hD
    rcases List.mem_append.1 hz with hz | hz
    · have := (List.pairwise_append.1 hD).2.2 z hz xi (by simp)
      exact lt_trans (h m hm).1 this
    · simp only [List.mem_singleton] at hz; subst hz; exact (h m hm).1
  · rw [hr] at hz hA
    rcases List.mem_cons.1 hz with hz | hz
    · subst hz; exact (h m hm).2
    · exact lt_trans (h m hm).2 ((List.pairwise_cons.1 hA).1 z hz)

/-- everything of `M` is above both ends as soon as the voter's worst of `M` is -/
theorem all_above_of_worst {o M : List Nat} {l xi xj : Nat} (hw : ∀ m ∈ M, m ≠ l → lt o m l)
    (h1 : lt o l xi) (h2 : lt o l xj) : ∀ m ∈ M, lt o m xi ∧ lt o m xj := by
  intro m hm
  by_cases e : m = l
  · subst e; exact ⟨h1, h2⟩
  · exact ⟨lt_trans (hw m hm e) h1, lt_trans (hw m hm e) h2⟩

end PrefVerif.C03c
