import PrefVerif.Spec.Euclid
/-!
# Specs helper lemmas, part 4: the embedding checker `ranksByDistance`
-/
namespace PrefVerif.Specs
open PrefVerif PrefVerif.Spec

/-- `a` is strictly closer to `x` than `b` whenever both have a position -/
def Closer (x : Rat) (pos : Nat → Option Rat) (a b : Nat) : Prop :=
  ∀ ya yb, pos a = some ya → pos b = some yb → Euclid.dist x ya < Euclid.dist x yb

theorem ranksByDistance_iff (x : Rat) (pos : Nat → Option Rat) (l : List Nat) :
    Euclid.ranksByDistance x pos l = true ↔
      ((∀ a ∈ l, (pos a).isSome) ∧ l.Pairwise (Closer x pos)) := by
  induction l with
  | nil => simp [Euclid.ranksByDistance]
  | cons a l ih =>
    cases l with
    | nil => simp [Euclid.ranksByDistance]
    | cons b rest =>
      rw [Euclid.ranksByDistance, Bool.and_eq_true, ih]
      constructor
      · rintro ⟨hab, hall, hpw⟩
        cases ha : pos a with
        | none => simp [ha] at hab
        | some ya =>
          cases hb : pos b with
          | none => simp [ha, hb] at hab
          | some yb =>
            simp only [ha, hb, decide_eq_true_eq] at hab
            refine ⟨?_, ?_⟩
            · intro c hc
              rcases List.mem_cons.1 hc with rfl | hc
              · simp [ha]
              · exact hall c hc
            · refine List.pairwise_cons.2 ⟨?_, hpw⟩
              intro c hc ya' yc hya hyc
              rw [ha] at hya
              cases hya
              rcases List.mem_cons.1 hc with rfl | hc
              · rw [hb] at hyc; cases hyc; exact hab
              · have hbc := (List.pairwise_cons.1 hpw).1 c hc yb yc hb hyc
                exact Std.lt_trans hab hbc
      · rintro ⟨hall, hpw⟩
        obtain ⟨hac, hpw'⟩ := List.pairwise_cons.1 hpw
        refine ⟨?_, fun c hc => hall c (List.mem_cons_of_mem _ hc), hpw'⟩
        have ha := hall a (by simp)
        have hb := hall b (by simp)
        obtain ⟨ya, hya⟩ := Option.isSome_iff_exists.1 ha
        obtain ⟨yb, hyb⟩ := Option.isSome_iff_exists.1 hb
        simp only [hya, hyb, decide_eq_true_eq]
        exact hac b (by simp) ya yb hya hyb

theorem all_zip_iff {α β : Type} (f : α × β → Bool) (l : List α) (l' : List β) (hlen : l'.length = l.length) :
    (l.zip l').all f = true ↔ ∀ i (hi : i < l.length) (hv : i < l'.length), f (l[i], l'[i]) = true := by
  simp only [List.all_eq_true]
  constructor
  · intro h i hi hv
    have hz : i < (l.zip l').length := by simp only [List.length_zip]; omega
    have := h _ (List.getElem_mem hz)
    rwa [List.getElem_zip] at this
  · intro h p hp
    obtain ⟨i, hi, rfl⟩ := List.getElem_of_mem hp
    have hi' := hi
    simp only [List.length_zip] at hi'
    rw [List.getElem_zip]
    exact h i (by omega) (by omega)

end PrefVerif.Specs
