import PrefVerif.Lemmas.C18BFComb
/-!
`singleton_pair_combinations` lists every partition into singletons and pairs exactly once: the list has no
repeated entry, and two entries that describe the same partition (up to the order of blocks and the order inside
pairs) are equal.
-/
namespace PrefVerif.C18BF
open PrefVerif.KAltBF

/-- shape of an entry of `singleton_pair_combinations(a :: t)` -/
theorem spc_cons_mem (a : Nat) (t : List Nat) (c : List (List Nat)) (hc : c ∈ singletonPairCombinations (a :: t)) :
    (∃ p ∈ t, ∃ c0 ∈ singletonPairCombinations (t.filter (fun i => i != p)), c = [a, p] :: c0) ∨
    (∃ c0 ∈ singletonPairCombinations t, c = [a] :: c0) := by
  rw [spc_cons, List.mem_append] at hc
  rcases hc with hc | hc
  · rw [List.mem_flatMap] at hc
    obtain ⟨p, hp, hc⟩ := hc
    rw [List.mem_map] at hc
    obtain ⟨c0, hc0, rfl⟩ := hc
    exact Or.inl ⟨p, hp, c0, hc0, rfl⟩
  · rw [List.mem_map] at hc
    obtain ⟨c0, hc0, rfl⟩ := hc
    exact Or.inr ⟨c0, hc0, rfl⟩

theorem nodup_map_cons {α : Type} (b : α) (l : List (List α)) (h : l.Nodup) : (l.map (fun c => b :: c)).Nodup := by
  induction l with
  | nil => exact List.nodup_nil
  | cons x xs ih =>
    rw [List.nodup_cons] at h
    rw [List.map_cons, List.nodup_cons]
    refine ⟨?_, ih h.2⟩
    intro hm
    rw [List.mem_map] at hm
    obtain ⟨y, hy, he⟩ := hm
    have : y = x := (List.cons.inj he).2
    subst this
    exact h.1 hy

theorem nodup_flatMap_of {α β : Type} (f : α → List β) (l : List α) (h1 : ∀ a ∈ l, (f a).Nodup)
    (hl : l.Nodup) (h2 : ∀ a ∈ l, ∀ b ∈ l, a ≠ b → ∀ x ∈ f a, x ∉ f b) : (l.flatMap f).Nodup := by
  induction l with
  | nil => exact List.nodup_nil
  | cons a t ih =>
    rw [List.nodup_cons] at hl
    rw [List.flatMap_cons, List.nodup_append]
    refine ⟨h1 a (by simp), ih (fun b hb => h1 b (by simp [hb])) hl.2
      (fun b hb c hc => h2 b (by simp [hb]) c (by simp [hc])), ?_⟩
    intro x hx y hy hxy
    subst hxy
    rw [List.mem_flatMap] at hy
    obtain ⟨b, hb, hxb⟩ := hy
    have hab : a ≠ b := by intro e; subst e; exact hl.1 hb
    exact h2 a (by simp) b (by simp [hb]) hab x hx hxb

/-- no entry is listed twice -/
theorem spc_nodup (items : List Nat) (hnd : items.Nodup) : (singletonPairCombinations items).Nodup := by
  generalize hn : items.length = n
  induction n using Nat.strongRecOn generalizing items with
  | _ n ih =>
    cases items with
    | nil => rw [spc_nil]; simp
    | cons a t =>
      have hndt : t.Nodup := (List.nodup_cons.1 hnd).2
      simp only [List.length_cons] at hn
      rw [spc_cons, List.nodup_append]
      refine ⟨?_, ?_, ?_⟩
      · apply nodup_flatMap_of
        · intro p hp
          have hlt := length_filter_ne_lt t p hp
          exact nodup_map_cons _ _ (ih _ (by omega) _ (nodup_filter hndt _) rfl)
        · exact hndt
        · intro p _ q _ hpq x hx hx'
          rw [List.mem_map] at hx hx'
          obtain ⟨c, _, rfl⟩ := hx
          obtain ⟨c', _, he⟩ := hx'
          have := (List.cons.inj he).1
          simp only [List.cons.injEq, and_true, true_and] at this
          exact hpq this.symm
      · exact nodup_map_cons _ _ (ih _ (by omega) t hndt rfl)
      · intro x hx y hy hxy
        subst hxy
        rw [List.mem_flatMap] at hx
        obtain ⟨p, _, hx⟩ := hx
        rw [List.mem_map] at hx hy
        obtain ⟨c, _, rfl⟩ := hx
        obtain ⟨c', _, he⟩ := hy
        have := (List.cons.inj he).1
        simp at this

/-- two entries describing the same partition are equal -/
theorem spc_canonical (items : List Nat) (hnd : items.Nodup) (c c' : List (List Nat))
    (hc : c ∈ singletonPairCombinations items) (hc' : c' ∈ singletonPairCombinations items)
    (hs : SameBlocks c c') : c = c' := by
  generalize hn : items.length = n
  induction n using Nat.strongRecOn generalizing items c c' with
  | _ n ih =>
    cases items with
    | nil =>
      rw [spc_nil, List.mem_singleton] at hc hc'
      rw [hc, hc']
    | cons a t =>
      have hndt : t.Nodup := (List.nodup_cons.1 hnd).2
      have hat : a ∉ t := (List.nodup_cons.1 hnd).1
      simp only [List.length_cons] at hn
      -- common shape: first block `B` starting with `a`, rest a partition of some `t' ⊆ t`
      have shape : ∀ d ∈ singletonPairCombinations (a :: t),
          ∃ B d0 t', d = B :: d0 ∧ a ∈ B ∧ d0 ∈ singletonPairCombinations t' ∧ t'.Nodup ∧ t'.length < n ∧
            (∀ x ∈ t', x ∈ t) ∧ ((B = [a] ∧ t' = t) ∨ ∃ p ∈ t, B = [a, p] ∧ t' = t.filter (fun i => i != p)) := by
        intro d hd
        rcases spc_cons_mem a t d hd with ⟨p, hp, d0, hd0, rfl⟩ | ⟨d0, hd0, rfl⟩
        · have hlt := length_filter_ne_lt t p hp
          exact ⟨[a, p], d0, _, rfl, by simp, hd0, nodup_filter hndt _, by omega,
            fun x hx => (List.mem_filter.1 hx).1, Or.inr ⟨p, hp, rfl, rfl⟩⟩
        · exact ⟨[a], d0, t, rfl, by simp, hd0, hndt, by omega, fun x hx => hx, Or.inl ⟨rfl, rfl⟩⟩
      obtain ⟨B, c0, t1, rfl, haB, hc0, hnd1, hlt1, hsub1, hB⟩ := shape c hc
      obtain ⟨B', c0', t2, rfl, haB', hc0', hnd2, hlt2, hsub2, hB'⟩ := shape c' hc'
      have hfl1 := (spc_sound t1 hnd1 c0 hc0).1
      have hfl2 := (spc_sound t2 hnd2 c0' hc0').1
      -- `a` occurs in no block of the rests
      have hno1 : ∀ b ∈ c0, a ∉ b := by
        intro b hb hab
        exact hat (hsub1 a (hfl1.mem_iff.1 (List.mem_flatten.2 ⟨b, hb, hab⟩)))
      have hno2 : ∀ b ∈ c0', a ∉ b := by
        intro b hb hab
        exact hat (hsub2 a (hfl2.mem_iff.1 (List.mem_flatten.2 ⟨b, hb, hab⟩)))
      obtain ⟨hs1, hs2⟩ := hs
      -- the first blocks agree
      have hBB : B'.Perm B := by
        obtain ⟨b', hb', hp⟩ := hs1 B (by simp)
        simp only [List.mem_cons] at hb'
        rcases hb' with rfl | hb'
        · exact hp
        · exact absurd (hp.mem_iff.2 haB) (hno2 b' hb')
      have hBeq : B = B' ∧ t1 = t2 := by
        rcases hB with ⟨rfl, rfl⟩ | ⟨p, _, rfl, rfl⟩
        · rcases hB' with ⟨rfl, rfl⟩ | ⟨p', _, rfl, rfl⟩
          · exact ⟨rfl, rfl⟩
          · have := hBB.length_eq; simp at this
        · rcases hB' with ⟨rfl, rfl⟩ | ⟨p', _, rfl, rfl⟩
          · have := hBB.length_eq; simp at this
          · have h1 : ([p'] : List Nat).Perm [p] := hBB.cons_inv
            have : p' = p := by
              have hm : p' ∈ [p] := h1.mem_iff.1 (List.mem_singleton.2 rfl)
              simpa using hm
            subst this
            exact ⟨rfl, rfl⟩
      obtain ⟨rfl, rfl⟩ := hBeq
      -- the rests describe the same partition of `t1`
      have hsame : SameBlocks c0 c0' := by
        constructor
        · intro b hb
          obtain ⟨b', hb', hp⟩ := hs1 b (by simp [hb])
          simp only [List.mem_cons] at hb'
          rcases hb' with rfl | hb'
          · exact absurd (hp.mem_iff.1 haB) (hno1 b hb)
          · exact ⟨b', hb', hp⟩
        · intro b' hb'
          obtain ⟨b, hb, hp⟩ := hs2 b' (by simp [hb'])
          simp only [List.mem_cons] at hb
          rcases hb with rfl | hb
          · exact absurd (hp.mem_iff.2 haB) (hno2 b' hb')
          · exact ⟨b, hb, hp⟩
      rw [ih _ hlt1 t1 hnd1 c0 c0' hc0 hc0' hsame rfl]

end PrefVerif.C18BF
