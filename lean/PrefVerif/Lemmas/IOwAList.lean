import PrefVerif.Lemmas.IOAList
/-!
# More facts about the insertion-ordered dict model (`AList`): `contains`, `set`, `upd`

Used by the autocorrect proofs (C16): `d[k] += m` (`upd … 0 (· + m)`) keeps the keys duplicate-free,
adds `m` to the entry of `k` and to the sum of the values, and on a present key of a dict with
distinct keys it is the `map` that adds `m` to every entry with key `k`.
-/
namespace PrefVerif.IOLw
open PrefVerif.Py PrefVerif.IOL

variable {κ ν : Type} [BEq κ] [LawfulBEq κ]

theorem contains_iff_mem_keys (d : AList κ ν) (k : κ) :
    AList.contains d k = true ↔ k ∈ AList.keys d := by
  induction d with
  | nil => simp [AList.contains, AList.keys]
  | cons p d ih =>
    simp only [AList.contains, AList.keys, List.any_cons, List.map_cons, List.mem_cons,
      Bool.or_eq_true, beq_iff_eq] at ih ⊢
    rw [ih]
    constructor
    · rintro (h | h)
      · exact Or.inl h.symm
      · exact Or.inr h
    · rintro (h | h)
      · exact Or.inl h.symm
      · exact Or.inr h

theorem contains_eq_false_iff (d : AList κ ν) (k : κ) :
    AList.contains d k = false ↔ k ∉ AList.keys d := by
  rw [← contains_iff_mem_keys]; simp

omit [LawfulBEq κ] in
/-- `any` in `merged` is `contains` -/
theorem any_eq_contains (d : AList κ ν) (k : κ) : d.any (fun e => e.1 == k) = AList.contains d k := rfl

/-- `d[k] = v` on a present key keeps the keys -/
theorem keys_set_of_mem (d : AList κ ν) (k : κ) (v : ν) (h : k ∈ AList.keys d) :
    AList.keys (AList.set d k v) = AList.keys d := by
  induction d with
  | nil => simp [AList.keys] at h
  | cons p d ih =>
    obtain ⟨k', v'⟩ := p
    cases hkk : k' == k with
    | true => simp [AList.set, hkk, AList.keys]
    | false =>
      have hd : k ∈ AList.keys d := by
        simp only [AList.keys, List.map_cons, List.mem_cons] at h
        rcases h with rfl | h
        · simp at hkk
        · exact h
      have := ih hd
      simp only [AList.keys] at this ⊢
      simp [AList.set, hkk, this]

theorem keys_set_of_not_mem (d : AList κ ν) (k : κ) (v : ν) (h : k ∉ AList.keys d) :
    AList.keys (AList.set d k v) = AList.keys d ++ [k] := by
  rw [set_of_not_mem d k v h, keys_append]; rfl

omit [BEq κ] [LawfulBEq κ] in
theorem values_append (d e : AList κ ν) : AList.values (d ++ e) = AList.values d ++ AList.values e := by
  simp [AList.values]

theorem values_set_of_not_mem (d : AList κ ν) (k : κ) (v : ν) (h : k ∉ AList.keys d) :
    AList.values (AList.set d k v) = AList.values d ++ [v] := by
  rw [set_of_not_mem d k v h, values_append]; rfl

/-- `set` keeps the keys duplicate-free -/
theorem nodup_keys_set (d : AList κ ν) (k : κ) (v : ν) (h : (AList.keys d).Nodup) :
    (AList.keys (AList.set d k v)).Nodup := by
  by_cases hk : k ∈ AList.keys d
  · rw [keys_set_of_mem d k v hk]; exact h
  · rw [keys_set_of_not_mem d k v hk]
    exact List.nodup_append.2 ⟨h, by simp, by
      intro a ha b hb hab
      simp only [List.mem_singleton] at hb
      subst hb; subst hab; exact hk ha⟩

/-- lookup after `d[k] = v` -/
theorem get?_set (d : AList κ ν) (k o : κ) (v : ν) :
    AList.get? (AList.set d k v) o = if k == o then some v else AList.get? d o := by
  induction d with
  | nil =>
    cases hko : k == o <;> simp [AList.set, AList.get?, hko]
  | cons p d ih =>
    obtain ⟨k', v'⟩ := p
    simp only [AList.get?] at ih ⊢
    cases hkk : k' == k with
    | true =>
      have := eq_of_beq hkk; subst this
      cases hko : k' == o <;> simp [AList.set, hko]
    | false =>
      simp only [AList.set, hkk, Bool.false_eq_true, if_false, List.find?_cons]
      cases hko' : k' == o with
      | true =>
        have := eq_of_beq hko'; subst this
        have : (k == k') = false := by
          cases h : k == k' with
          | false => rfl
          | true => have := eq_of_beq h; subst this; simp at hkk
        simp [this]
      | false => exact ih

omit [LawfulBEq κ] in
/-- sum bookkeeping for `set`: the old value of `k` leaves, `v` enters -/
theorem sum_values_set (d : AList κ Nat) (k : κ) (v : Nat) :
    (AList.values (AList.set d k v)).sum + (AList.get? d k).getD 0 = (AList.values d).sum + v := by
  induction d with
  | nil => simp [AList.set, AList.values, AList.get?]
  | cons p d ih =>
    obtain ⟨k', v'⟩ := p
    simp only [AList.get?, AList.values] at ih ⊢
    cases hkk : k' == k with
    | true => simp [AList.set, hkk]; omega
    | false =>
      simp only [AList.set, hkk, Bool.false_eq_true, if_false, List.map_cons, List.sum_cons,
        List.find?_cons]
      omega

omit [LawfulBEq κ] in
/-- `d[k] += m` adds `m` to the sum of the values -/
theorem sum_values_upd (d : AList κ Nat) (k : κ) (m : Nat) :
    (AList.values (AList.upd d k 0 (· + m))).sum = (AList.values d).sum + m := by
  have := sum_values_set d k ((AList.get? d k).getD 0 + m)
  simp only [AList.upd]
  omega

/-- `d[k] += m` adds `m` to the entry of `k` and nothing elsewhere -/
theorem get?_upd (d : AList κ Nat) (k o : κ) (m : Nat) :
    (AList.get? (AList.upd d k 0 (· + m)) o).getD 0
      = (AList.get? d o).getD 0 + if k == o then m else 0 := by
  simp only [AList.upd, get?_set]
  cases hko : k == o with
  | true => have := eq_of_beq hko; subst this; simp
  | false => simp

theorem nodup_keys_upd (d : AList κ ν) (k : κ) (dflt : ν) (f : ν → ν) (h : (AList.keys d).Nodup) :
    (AList.keys (AList.upd d k dflt f)).Nodup := nodup_keys_set d k _ h

/-- `d[k] += m` on an absent key is `d[k] = m` -/
theorem upd_of_not_mem (d : AList κ Nat) (k : κ) (m : Nat) (h : k ∉ AList.keys d) :
    AList.upd d k 0 (· + m) = AList.set d k m := by
  simp [AList.upd, get?_eq_none_of_not_mem d k h]

omit [LawfulBEq κ] in
theorem map_bump_of_not_mem [LawfulBEq κ] (d : AList κ Nat) (k : κ) (m : Nat) (h : k ∉ AList.keys d) :
    d.map (fun e => if e.1 == k then (e.1, e.2 + m) else e) = d := by
  induction d with
  | nil => rfl
  | cons p d ih =>
    obtain ⟨k', v'⟩ := p
    simp only [AList.keys, List.map_cons, List.mem_cons, not_or] at h
    have hk : (k' == k) = false := by
      cases hkk : k' == k with
      | false => rfl
      | true => exact absurd (eq_of_beq hkk).symm h.1
    simp only [List.map_cons, hk, Bool.false_eq_true, if_false]
    rw [ih h.2]

/-- on a present key of a dict with distinct keys, `d[k] += m` is the `map` of `merged` -/
theorem upd_eq_map (d : AList κ Nat) (k : κ) (m : Nat) (hnd : (AList.keys d).Nodup)
    (hk : k ∈ AList.keys d) :
    AList.upd d k 0 (· + m) = d.map (fun e => if e.1 == k then (e.1, e.2 + m) else e) := by
  induction d with
  | nil => simp [AList.keys] at hk
  | cons p d ih =>
    obtain ⟨k', v'⟩ := p
    simp only [AList.keys, List.map_cons, List.nodup_cons] at hnd
    cases hkk : k' == k with
    | true =>
      have := eq_of_beq hkk; subst this
      simp only [AList.upd, AList.get?, List.find?_cons, BEq.rfl, Option.map_some, Option.getD_some,
        AList.set, if_true, List.map_cons]
      rw [map_bump_of_not_mem d k' m hnd.1]
    | false =>
      have hd : k ∈ AList.keys d := by
        simp only [AList.keys, List.map_cons, List.mem_cons] at hk
        rcases hk with rfl | h
        · simp at hkk
        · exact h
      have := ih hnd.2 hd
      simp only [AList.upd, AList.get?] at this ⊢
      simp only [List.find?_cons, hkk, AList.set, Bool.false_eq_true, if_false, List.map_cons]
      rw [this]

/-- in a dict with distinct keys every entry is found under its key -/
theorem get?_of_mem (d : AList κ ν) (hnd : (AList.keys d).Nodup) (q : κ × ν) (hq : q ∈ d) :
    AList.get? d q.1 = some q.2 := by
  induction d with
  | nil => simp at hq
  | cons p d ih =>
    obtain ⟨k', v'⟩ := p
    simp only [AList.keys, List.map_cons, List.nodup_cons] at hnd
    rcases List.mem_cons.1 hq with rfl | hq'
    · simp [AList.get?]
    · have hne : (k' == q.1) = false := by
        cases hkk : k' == q.1 with
        | false => rfl
        | true => exact absurd (List.mem_map.2 ⟨q, hq', (eq_of_beq hkk).symm⟩) hnd.1
      have := ih hnd.2 hq'
      simp only [AList.get?] at this ⊢
      simp [hne, this]

/-- the values of a dict with distinct keys, read through its keys -/
theorem map_get?_keys (d : AList κ Nat) (hnd : (AList.keys d).Nodup) :
    (AList.keys d).map (fun k => (AList.get? d k).getD 0) = AList.values d := by
  simp only [AList.keys, AList.values, List.map_map]
  apply List.map_congr_left
  intro q hq
  simp [get?_of_mem d hnd q hq]

end PrefVerif.IOLw
