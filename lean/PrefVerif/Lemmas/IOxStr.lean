import PrefVerif.Lemmas.IOJoin
/-!
# Further reusable string facts: `strip` on edged text, `removeSpaces` (`s.replace(" ", "")`)
-/
namespace PrefVerif.IOL
open PrefVerif.Py

/-- text that neither starts nor ends with whitespace is left alone by `strip` -/
theorem strip_of_edged {x : Str} (h : Edged isSpace x) : strip x = x := by
  obtain ⟨_, h1, h2⟩ := h
  have hl : lstrip x = x := dropWhile_eq_self h1
  have hr : x.reverse.dropWhile isSpace = x.reverse :=
    dropWhile_eq_self (fun c hc => h2 c (by simpa using hc))
  simp [strip, hl, rstrip, hr]

theorem edged_append_right {p : Char → Bool} {a b : Str} (ha : Edged p a) (hb : Edged p b) :
    Edged p (a ++ b) := by
  simpa using Edged.append ha hb []

theorem removeSpaces_append (a b : Str) : removeSpaces (a ++ b) = removeSpaces a ++ removeSpaces b := by
  simp [removeSpaces]

theorem removeSpaces_join (sep : Str) (l : List Str) :
    removeSpaces (join sep l) = join (removeSpaces sep) (l.map removeSpaces) := filter_join _ sep l

theorem removeSpaces_of_no_space {l : Str} (h : ∀ c ∈ l, c ≠ ' ') : removeSpaces l = l := by
  simp only [removeSpaces]
  apply List.filter_eq_self.2
  intro c hc; simpa using h c hc

theorem removeSpaces_no_space (l : Str) : ∀ c ∈ removeSpaces l, c ≠ ' ' := by
  intro c hc
  simpa [removeSpaces] using (List.mem_filter.1 hc).2

theorem mem_of_mem_removeSpaces {l : Str} {c : Char} (h : c ∈ removeSpaces l) : c ∈ l :=
  (List.mem_filter.1 h).1

theorem removeSpaces_natToStr (n : Nat) : removeSpaces (natToStr n) = natToStr n :=
  removeSpaces_of_no_space (fun _ hc => natToStr_ne hc (by decide))

end PrefVerif.IOL
