import PrefVerif.Lemmas.C07Loops
/-!
# C07 helper lemmas: the voter-level specification (`above`, `prefCount`, `votes`) versus the
iteration count `cnt` of the loop
-/
namespace PrefVerif.C07
open PrefVerif PrefVerif.Pairwise PrefVerif.Py PrefVerif.Spec

set_option linter.unusedSimpArgs false

theorem classIdx?_eq_none (o : Order) (a : Nat) : classIdx? o a = none ↔ a ∉ o.flatten := by
  induction o with
  | nil => simp [classIdx?]
  | cons c o ih =>
    by_cases h : a ∈ c <;> simp [classIdx?, h, ih]

theorem above_nil (x y : Nat) : above [] x y = false := by simp [above, classIdx?]

theorem above_cons (c : List Nat) (o : Order) (x y : Nat) :
    above (c :: o) x y =
      if x ∈ c then (decide (y ∉ c) && decide (y ∈ o.flatten))
      else if y ∈ c then false else above o x y := by
  have hy := classIdx?_eq_none o y
  by_cases hx : x ∈ c <;> by_cases hyc : y ∈ c
  · simp [above, classIdx?, hx, hyc]
  · cases hj : classIdx? o y with
    | none => simp [above, classIdx?, hx, hyc, hj, hy.mp hj]
    | some j =>
      have : y ∈ o.flatten := by
        false_or_by_contra; rename_i hn; rw [← hy] at hn; simp [hn] at hj
      simp [above, classIdx?, hx, hyc, hj, this]
  · cases hi : classIdx? o x <;> simp [above, classIdx?, hx, hyc, hi]
  · cases hi : classIdx? o x <;> cases hj : classIdx? o y <;>
      simp [above, classIdx?, hx, hyc, hi, hj]

theorem above_mem (o : Order) (x y : Nat) (h : above o x y = true) :
    x ∈ o.flatten ∧ y ∈ o.flatten := by
  have hx := classIdx?_eq_none o x
  have hy := classIdx?_eq_none o y
  unfold above at h
  cases hi : classIdx? o x <;> cases hj : classIdx? o y <;> simp [hi, hj] at h
  constructor
  · false_or_by_contra; rename_i hn; rw [← hx] at hn; simp [hn] at hi
  · false_or_by_contra; rename_i hn; rw [← hy] at hn; simp [hn] at hj

/-- for a well-formed order the loop hits `(x, y)` exactly once when `x` is strictly above `y`
(or `x` was already in `alternatives_before`), and never otherwise -/
theorem cnt_eq (x y : Nat) (before : List Nat) (o : Order) (hnd : (before ++ o.flatten).Nodup) :
    cnt x y before o
      = (if x ∈ before ∧ y ∈ o.flatten then 1 else 0) + (if above o x y = true then 1 else 0) := by
  induction o generalizing before with
  | nil => simp [cnt, above_nil]
  | cons cls o ih =>
    have hnd' : ((before ++ cls) ++ o.flatten).Nodup := by
      simpa [List.append_assoc] using hnd
    have ih' := ih (before ++ cls) hnd'
    have hab := above_mem o x y
    rw [List.nodup_append] at hnd hnd'
    obtain ⟨hb, hco, hdis⟩ := hnd
    obtain ⟨hbc, ho, hdis'⟩ := hnd'
    simp only [List.flatten_cons] at hco hdis
    rw [List.nodup_append] at hco
    obtain ⟨hc, _, hdis''⟩ := hco
    simp only [cnt, ih', above_cons, hc.count, hb.count, List.flatten_cons, List.mem_append]
    have d1 : x ∈ before → x ∉ cls := fun h1 h2 => hdis x h1 x (by simp [h2]) rfl
    have d2 : x ∈ before → x ∉ o.flatten := fun h1 h2 => hdis x h1 x (by simp [h2]) rfl
    have d3 : x ∈ cls → x ∉ o.flatten := fun h1 h2 => hdis'' x h1 x h2 rfl
    have d4 : y ∈ cls → y ∉ o.flatten := fun h1 h2 => hdis'' y h1 y h2 rfl
    by_cases h1 : x ∈ before <;> by_cases h2 : x ∈ cls <;> by_cases h3 : y ∈ cls <;>
      by_cases h4 : y ∈ o.flatten <;> by_cases h5 : above o x y = true <;>
      simp_all

theorem cnt_eq_above (x y : Nat) (o : Order) (hnd : o.flatten.Nodup) :
    cnt x y [] o = if above o x y = true then 1 else 0 := by
  rw [cnt_eq x y [] o (by simpa using hnd)]
  simp

/-! ### the full profile -/

theorem natCast_sum (l : List Nat) : ((l.sum : Nat) : Int) = (l.map (fun (n : Nat) => (n : Int))).sum := by
  induction l with
  | nil => rfl
  | cons a l ih => simp [List.sum_cons, ih]

/-- `prefCount` on the replicated profile is a multiplicity-weighted sum over the stored orders -/
theorem prefCount_votes (p : Profile) (a b : Nat) :
    ((prefCount (votes p) a b : Nat) : Int)
      = (p.map (fun om => (if above om.1 a b = true then 1 else 0 : Int) * (om.2 : Int))).sum := by
  unfold prefCount votes
  rw [List.countP_flatMap, natCast_sum, List.map_map]
  congr 1
  apply List.map_congr_left
  intro om _
  simp only [Function.comp, List.countP_replicate]
  split <;> simp

end PrefVerif.C07
