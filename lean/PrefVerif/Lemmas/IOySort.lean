import PrefVerif.Lemmas.IOSort
/-!
# Sorting a duplicate-free list of numbers is canonical

Two duplicate-free lists with the same members sort (ascending) to the same list: the sorted
duplicate-free permutation is unique.  Used for `sorted(set)` in the matching writer (C09).
-/
namespace PrefVerif.IOL
open PrefVerif.Py

/-- the comparison `sorted()` uses on node ids -/
abbrev natLe : Nat → Nat → Bool := fun a b => decide (a ≤ b)

theorem natLe_total (a b : Nat) : natLe a b = true ∨ natLe b a = true := by
  simp only [natLe, decide_eq_true_eq]; omega

theorem natLe_trans (a b c : Nat) : natLe a b = true → natLe b c = true → natLe a c = true := by
  simp only [natLe, decide_eq_true_eq]; omega

theorem natSort_sorted (l : List Nat) : SortedBy natLe (stableSort natLe l) :=
  stableSort_sorted natLe_total natLe_trans l

/-- lists with the same members, one of them duplicate-free … -/
theorem natSort_eq_of_perm {l₁ l₂ : List Nat} (h : l₁.Perm l₂) :
    stableSort natLe l₁ = stableSort natLe l₂ := by
  have hp : (stableSort natLe l₁).Perm (stableSort natLe l₂) :=
    (stableSort_perm natLe l₁).trans (h.trans (stableSort_perm natLe l₂).symm)
  refine List.Perm.eq_of_pairwise (le := fun a b => natLe a b = true) ?_ (natSort_sorted l₁)
    (natSort_sorted l₂) hp
  intro a b _ _ hab hba
  simp only [natLe, decide_eq_true_eq] at hab hba
  omega

/-- `sorted(s)` only depends on the set `s` -/
theorem natSort_canon {l₁ l₂ : List Nat} (h₁ : l₁.Nodup) (h₂ : l₂.Nodup)
    (h : ∀ a, a ∈ l₁ ↔ a ∈ l₂) : stableSort natLe l₁ = stableSort natLe l₂ :=
  natSort_eq_of_perm ((List.perm_ext_iff_of_nodup h₁ h₂).2 h)

end PrefVerif.IOL
