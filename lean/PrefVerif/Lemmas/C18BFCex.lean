import PrefVerif.Lemmas.C18BFLSets
import PrefVerif.Lemmas.C12DPSpec
import PrefVerif.Model.KAltPartitionBF
/-!
The brute force is not complete: a profile of three orders over six alternatives that has a partition into two
single-peaked axes, for which `k_alternative_partition_brut_force(instance, 2)` returns `None` (and three axes
for `k ≥ 3`).  Reason: every alternative is placed at the step given by its *global* `L` set, but `place` assumes
that the alternatives placed later on the same axis are ranked above it by every vote; here `3 ∈ L[2]` and
`4 ∈ L[3]` although the first two votes rank `3` above `4` (restricted to the axis `6 4 3 2` both belong to the
second `L` set).

The proof does not depend on the modelled CPython iteration order of the sets `L[i]`: the search fails for every
order in which `list(L[i])` can list them (checked by kernel evaluation, no `native_decide`).
-/
namespace PrefVerif.C18BF
open PrefVerif.KAlt PrefVerif.KAltBF PrefVerif.C12DP PrefVerif.Spec.Nearly

def cexAlts : List Nat := [1, 2, 3, 4, 5, 6]
def cexOrders : List (List Nat) := [[1, 2, 3, 4, 5, 6], [5, 2, 3, 4, 1, 6], [5, 1, 4, 3, 6, 2]]
def cexAxes : List (List Nat) := [[1, 5], [6, 4, 3, 2]]

def cexPerms2 : List (List Nat) := [[6, 2], [2, 6]]
def cexPerms3 : List (List Nat) := [[5, 1, 3], [5, 3, 1], [1, 5, 3], [1, 3, 5], [3, 5, 1], [3, 1, 5]]

/-- the contents of the sets `L[1], …, L[6]` -/
theorem cex_L : (getLSets cexAlts cexOrders).map (fun s => s.elems) = [[6, 2], [5, 1, 3], [4], [], [], []] := by
  decide +kernel

theorem cex_perm2 (l : List Nat) (h : l.Perm [6, 2]) : l ∈ cexPerms2 := by
  have hl := h.length_eq
  match l, hl with
  | [x, y], _ =>
    have hx : x ∈ [6, 2] := h.mem_iff.1 (by simp)
    have hy : y ∈ [6, 2] := h.mem_iff.1 (by simp)
    have hnd : [x, y].Nodup := h.nodup_iff.2 (by decide)
    have key : ∀ x ∈ [6, 2], ∀ y ∈ [6, 2], [x, y].Nodup → [x, y] ∈ cexPerms2 := by decide
    exact key x hx y hy hnd

theorem cex_perm3 (l : List Nat) (h : l.Perm [5, 1, 3]) : l ∈ cexPerms3 := by
  have hl := h.length_eq
  match l, hl with
  | [x, y, z], _ =>
    have hx : x ∈ [5, 1, 3] := h.mem_iff.1 (by simp)
    have hy : y ∈ [5, 1, 3] := h.mem_iff.1 (by simp)
    have hz : z ∈ [5, 1, 3] := h.mem_iff.1 (by simp)
    have hnd : [x, y, z].Nodup := h.nodup_iff.2 (by decide)
    have key : ∀ x ∈ [5, 1, 3], ∀ y ∈ [5, 1, 3], ∀ z ∈ [5, 1, 3], [x, y, z].Nodup → [x, y, z] ∈ cexPerms3 := by
      decide
    exact key x hx y hy z hz hnd

/-- the call on the example, with the only unknowns (the iteration orders of `L[1]` and `L[2]`) made explicit -/
theorem cex_unfold (k : Nat) : ∃ s0 ∈ cexPerms2, ∃ s1 ∈ cexPerms3,
    partitionBruteForce cexAlts cexOrders k =
      (dfs 6 (if k > 3 then 3 else k)
        [singletonPairCombinations s0, singletonPairCombinations s1, singletonPairCombinations [4],
          singletonPairCombinations [], singletonPairCombinations [], singletonPairCombinations []]
        cexOrders 7 0 [] none).map (fun p => p.map (fun axis => (axis.erase none).filterMap id)) := by
  have hL := cex_L
  unfold partitionBruteForce
  dsimp only
  generalize getLSets cexAlts cexOrders = G at hL
  have hlen : G.length = 6 := by
    have := congrArg List.length hL
    simpa using this
  match G, hlen, hL with
  | [g0, g1, g2, g3, g4, g5], _, hL =>
    simp only [List.map_cons, List.map_nil, List.cons.injEq, and_true] at hL
    obtain ⟨h0, h1, h2, h3, h4, h5⟩ := hL
    have i0 := cex_perm2 _ (h0 ▸ iter_perm natKey g0)
    have i1 := cex_perm3 _ (h1 ▸ iter_perm natKey g1)
    have i2 : g2.iter natKey = [4] := List.perm_singleton.1 (h2 ▸ iter_perm natKey g2)
    have i3 : g3.iter natKey = [] := List.perm_nil.1 (h3 ▸ iter_perm natKey g3)
    have i4 : g4.iter natKey = [] := List.perm_nil.1 (h4 ▸ iter_perm natKey g4)
    have i5 : g5.iter natKey = [] := List.perm_nil.1 (h5 ▸ iter_perm natKey g5)
    have hm : cexAlts.length = 6 := rfl
    have hc : ceilHalf 6 = 3 := rfl
    refine ⟨_, i0, _, i1, ?_⟩
    simp only [List.map_cons, List.map_nil, i2, i3, i4, i5, hm, hc, Nat.reduceAdd]

/-- the search with `k = 2` fails whatever the iteration order of the two non-trivial `L` sets -/
theorem cex_dfs2 : ∀ s0 ∈ cexPerms2, ∀ s1 ∈ cexPerms3,
    dfs 6 2 [singletonPairCombinations s0, singletonPairCombinations s1, singletonPairCombinations [4],
      singletonPairCombinations [], singletonPairCombinations [], singletonPairCombinations []]
      cexOrders 7 0 [] none = none := by
  decide +kernel

/-- the search with `k = 3` finds three axes whatever the iteration order -/
theorem cex_dfs3 : ∀ s0 ∈ cexPerms2, ∀ s1 ∈ cexPerms3,
    (dfs 6 3 [singletonPairCombinations s0, singletonPairCombinations s1, singletonPairCombinations [4],
      singletonPairCombinations [], singletonPairCombinations [], singletonPairCombinations []]
      cexOrders 7 0 [] none).map List.length = some 3 := by
  decide +kernel

theorem cex_none : partitionBruteForce cexAlts cexOrders 2 = none := by
  obtain ⟨s0, h0, s1, h1, h⟩ := cex_unfold 2
  rw [h]
  have : (if 2 > 3 then 3 else 2) = 2 := by decide
  rw [this, cex_dfs2 s0 h0 s1 h1]
  rfl

theorem cex_three (k : Nat) (hk : 3 ≤ k) :
    ∃ axes, partitionBruteForce cexAlts cexOrders k = some axes ∧ axes.length = 3 := by
  obtain ⟨s0, h0, s1, h1, h⟩ := cex_unfold k
  have hk3 : (if k > 3 then 3 else k) = 3 := by split <;> omega
  rw [hk3] at h
  have h3 := cex_dfs3 s0 h0 s1 h1
  rw [Option.map_eq_some_iff] at h3
  obtain ⟨p, hp, hlen⟩ := h3
  rw [hp] at h
  exact ⟨_, h, by simpa using hlen⟩

theorem cex_cert : partitionCert cexAlts (cexOrders.map weak) cexAxes = true := by decide

end PrefVerif.C18BF
