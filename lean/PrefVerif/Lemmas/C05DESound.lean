import PrefVerif.Lemmas.C05DE
/-!
# C05 helper lemmas, part 15: dichotomous Euclidean — the witness checker unfolded; soundness
-/
namespace PrefVerif.C05
open PrefVerif PrefVerif.Dichotomous PrefVerif.Spec PrefVerif.Spec.Approval

theorem decide_eq_bool_iff (P : Prop) [Decidable P] (b : Bool) : decide P = b ↔ (P ↔ b = true) := by
  cases b <;> by_cases h : P <;> simp [h]

theorem deWitness_iff (alts : List Nat) (approved : List (List Nat)) (voters : List (Int × Int))
    (altPos : List (Nat × Nat)) :
    deWitness alts approved voters altPos = true ↔
      voters.length = approved.length ∧ (altPos.map (·.1)).Nodup ∧ (altPos.map (·.2)).Nodup ∧
      (∀ a ∈ alts, a ∈ altPos.map (·.1)) ∧ altPos.length = alts.length ∧
      ∀ sv ∈ approved.zip voters, ∀ ap ∈ altPos,
        ((((2 * ap.2 : Nat) : Int) - sv.2.1 ≤ sv.2.2 ∧ -(((2 * ap.2 : Nat) : Int) - sv.2.1) ≤ sv.2.2) ↔
          ap.1 ∈ sv.1) := by
  simp only [deWitness, Bool.and_eq_true, beq_iff_eq, List.all_eq_true, List.contains_iff_mem,
    decide_eq_bool_iff, iff_true, and_assoc]

theorem mem_zip_map_self {α β : Type} (l : List α) (f : α → β) (sv : α × β) (h : sv ∈ l.zip (l.map f)) :
    sv.1 ∈ l ∧ sv.2 = f sv.1 := by
  induction l with
  | nil => simp at h
  | cons x l ih =>
    simp only [List.map_cons, List.zip_cons_cons, List.mem_cons] at h
    rcases h with rfl | h
    · exact ⟨by simp, rfl⟩
    · exact ⟨by simp [(ih h).1], (ih h).2⟩

theorem de_sound (alts : List Nat) (hn : alts.Nodup) (approved : List (List Nat))
    (hsub : ∀ s ∈ approved, ∀ a ∈ s, a ∈ alts) (order : List Nat) (hp : order.Perm alts)
    (hI : ∀ s ∈ approved, Interval (fun a => a ∈ s) order) :
    deWitness alts approved (approved.map (deVoter order)) order.zipIdx = true := by
  have hno : order.Nodup := hp.nodup_iff.2 hn
  rw [deWitness_iff]
  refine ⟨by simp, ?_, ?_, ?_, ?_, ?_⟩
  · rw [List.zipIdx_map_fst]; exact hno
  · rw [List.zipIdx_map_snd]; exact List.nodup_range'
  · intro a ha; rw [List.zipIdx_map_fst]; exact hp.symm.subset ha
  · rw [List.length_zipIdx]; exact hp.length_eq
  · intro sv hsv ap hap
    obtain ⟨hs, hv⟩ := mem_zip_map_self approved (deVoter order) sv hsv
    rw [List.mem_zipIdx_iff_getElem?] at hap
    obtain ⟨hlt, he⟩ := List.getElem?_eq_some_iff.1 hap
    rw [hv, ← he]
    exact deVoter_within order sv.1 hno (fun a ha => hp.symm.subset (hsub sv.1 hs a ha)) (hI sv.1 hs) ap.2 hlt

end PrefVerif.C05
