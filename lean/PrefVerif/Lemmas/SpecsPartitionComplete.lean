import PrefVerif.Lemmas.SpecsPartition
/-!
# Specs helper lemmas, part 3: `setPartitions` enumerates every set partition
-/
namespace PrefVerif.Specs
open PrefVerif PrefVerif.Spec PrefVerif.Spec.Nearly

variable {α : Type}

/-- in a duplicate-free concatenation a non-empty block cannot reoccur (up to order) elsewhere -/
theorem block_unique (A C : List (List α)) (b b2 : List α) (hnd : (A ++ b :: C).flatten.Nodup)
    (hne : b ≠ []) (hperm : b.Perm b2) (hmem : b2 ∈ A ∨ b2 ∈ C) : False := by
  obtain ⟨y, hy⟩ := List.exists_mem_of_ne_nil b hne
  have hy2 : y ∈ b2 := hperm.subset hy
  simp only [List.flatten_append, List.flatten_cons] at hnd
  obtain ⟨_, h2, h3⟩ := List.nodup_append.1 hnd
  rcases hmem with h | h
  · exact h3 y (List.mem_flatten.2 ⟨b2, h, hy2⟩) y (List.mem_append_left _ hy) rfl
  · obtain ⟨_, _, h4⟩ := List.nodup_append.1 h2
    exact h4 y hy y (List.mem_flatten.2 ⟨b2, h, hy2⟩) rfl

theorem flatten_split_perm (A C : List (List α)) (B1 B2 : List α) (x : α) :
    (A ++ (B1 ++ x :: B2) :: C).flatten.Perm (x :: (A ++ (B1 ++ B2) :: C).flatten) := by
  have := List.perm_middle (a := x) (l₁ := A.flatten ++ B1) (l₂ := B2 ++ C.flatten)
  simpa only [List.flatten_append, List.flatten_cons, List.append_assoc, List.cons_append] using this

theorem flatten_drop_perm (A C : List (List α)) (x : α) :
    (A ++ [x] :: C).flatten.Perm (x :: (A ++ C).flatten) := by
  simp only [List.flatten_append, List.flatten_cons, List.cons_append, List.nil_append]
  exact List.perm_middle

theorem setPartitions_complete' (l : List α) :
    ∀ p : List (List α), l.Nodup → p.flatten.Perm l → (∀ b ∈ p, b ≠ []) →
      ∃ q ∈ setPartitions l, q.length = p.length ∧ ∀ b ∈ p, ∃ c ∈ q, c.Perm b := by
  induction l with
  | nil =>
    intro p _ hp hne
    have hnil : p.flatten = [] := List.Perm.eq_nil hp
    cases p with
    | nil => exact ⟨[], by simp [setPartitions], rfl, by simp⟩
    | cons b p =>
      exfalso
      have hb : b = [] := by
        simp only [List.flatten_cons, List.append_eq_nil_iff] at hnil
        exact hnil.1
      exact hne b (by simp) hb
  | cons x xs ih =>
    intro p hl hp hne
    obtain ⟨hxn, hxs⟩ := List.nodup_cons.1 hl
    have hx : x ∈ p.flatten := hp.symm.subset List.mem_cons_self
    obtain ⟨b, hb, hxb⟩ := List.mem_flatten.1 hx
    obtain ⟨A, C, rfl⟩ := List.append_of_mem hb
    obtain ⟨B1, B2, rfl⟩ := List.append_of_mem hxb
    by_cases hB : B1 ++ B2 = []
    · -- `x` is a block of its own
      obtain ⟨rfl, rfl⟩ := List.append_eq_nil_iff.1 hB
      have hp' : (A ++ C).flatten.Perm xs := ((flatten_drop_perm A C x).symm.trans hp).cons_inv
      have hne' : ∀ c ∈ A ++ C, c ≠ [] := fun c hc => hne c (by
        rcases List.mem_append.1 hc with h | h
        · exact List.mem_append_left _ h
        · exact List.mem_append_right _ (List.mem_cons_of_mem _ h))
      obtain ⟨q', hq', hlen, hmatch⟩ := ih _ hxs hp' hne'
      refine ⟨[x] :: q', (mem_setPartitions_cons x xs _).2 ⟨q', hq', Or.inl rfl⟩, ?_, ?_⟩
      · simp only [List.length_cons, List.length_append, hlen]; omega
      · intro c hc
        simp only [List.mem_append, List.mem_cons] at hc
        rcases hc with h | rfl | h
        · obtain ⟨d, hd, hdp⟩ := hmatch c (List.mem_append_left _ h)
          exact ⟨d, List.mem_cons_of_mem _ hd, hdp⟩
        · exact ⟨[x], List.mem_cons_self, List.Perm.refl _⟩
        · obtain ⟨d, hd, hdp⟩ := hmatch c (List.mem_append_right _ h)
          exact ⟨d, List.mem_cons_of_mem _ hd, hdp⟩
    · -- `x` shares its block with other elements
      have hp' : (A ++ (B1 ++ B2) :: C).flatten.Perm xs :=
        ((flatten_split_perm A C B1 B2 x).symm.trans hp).cons_inv
      have hnd : (A ++ (B1 ++ B2) :: C).flatten.Nodup := hp'.nodup_iff.2 hxs
      have hne' : ∀ c ∈ A ++ (B1 ++ B2) :: C, c ≠ [] := fun c hc => by
        simp only [List.mem_append, List.mem_cons] at hc
        rcases hc with h | rfl | h
        · exact hne c (List.mem_append_left _ h)
        · exact hB
        · exact hne c (List.mem_append_right _ (List.mem_cons_of_mem _ h))
      obtain ⟨q', hq', hlen, hmatch⟩ := ih _ hxs hp' hne'
      obtain ⟨c', hc', hc'p⟩ := hmatch (B1 ++ B2) (by simp)
      obtain ⟨A', C', rfl⟩ := List.append_of_mem hc'
      refine ⟨A' ++ (x :: c') :: C',
        (mem_setPartitions_cons x xs _).2 ⟨_, hq', Or.inr ⟨A', c', C', rfl, rfl⟩⟩, ?_, ?_⟩
      · simp only [List.length_append, List.length_cons] at hlen ⊢; exact hlen
      · intro c hc
        have key : ∀ c, (c ∈ A ∨ c ∈ C) → ∃ d ∈ A' ++ (x :: c') :: C', d.Perm c := by
          intro c hcm
          obtain ⟨d, hd, hdp⟩ := hmatch c (by
            rcases hcm with h | h
            · exact List.mem_append_left _ h
            · exact List.mem_append_right _ (List.mem_cons_of_mem _ h))
          simp only [List.mem_append, List.mem_cons] at hd
          rcases hd with h | rfl | h
          · exact ⟨d, List.mem_append_left _ h, hdp⟩
          · exact (block_unique A C (B1 ++ B2) c hnd hB (hc'p.symm.trans hdp) hcm).elim
          · exact ⟨d, List.mem_append_right _ (List.mem_cons_of_mem _ h), hdp⟩
        simp only [List.mem_append, List.mem_cons] at hc
        rcases hc with h | rfl | h
        · exact key c (Or.inl h)
        · exact ⟨x :: c', by simp, (hc'p.cons x).trans List.perm_middle.symm⟩
        · exact key c (Or.inr h)

end PrefVerif.Specs
