import PrefVerif.Model.SinglePeakedAxis
import PrefVerif.Lemmas.C05Seg
/-!
# C11 helper lemmas, part 1: the position scan accepts exactly the "valley" lists

`Contig ps`: every strict lower level set `{i | ps[i] < k}` is an interval of indices.
For a list of class positions that takes the value 0 somewhere (or is empty) the scan of
`is_single_peaked_axis` accepts iff `Contig` holds.
-/
namespace PrefVerif.C11
open PrefVerif PrefVerif.SinglePeakedAxis PrefVerif.C05

/-- every strict lower level set is an interval of indices -/
def Contig (ps : List Nat) : Prop := ∀ k : Nat, Interval (· < k) ps

def Incr (ps : List Nat) : Prop := ps.Pairwise (· ≤ ·)

theorem incr_cons_cons {q p : Nat} {ps : List Nat} (hqp : q ≤ p) : Incr (q :: p :: ps) ↔ Incr (p :: ps) := by
  unfold Incr
  constructor
  · intro h; exact (List.pairwise_cons.1 h).2
  · intro h
    rw [List.pairwise_cons]
    refine ⟨?_, h⟩
    intro a ha
    rcases List.mem_cons.1 ha with rfl | ha
    · exact hqp
    · have := (List.pairwise_cons.1 h).1 a ha; omega

theorem not_incr_of_lt {q p : Nat} {ps : List Nat} (hpq : p < q) : ¬ Incr (q :: p :: ps) := by
  intro h
  have := (List.pairwise_cons.1 h).1 p (by simp)
  omega

/-- after the peak: the positions must not decrease, and 0 may only continue a run of 0s -/
theorem scan_true (q : Nat) (ps : List Nat) : scan true (some q) ps = true ↔ Incr (q :: ps) := by
  induction ps generalizing q with
  | nil => simp [scan, Incr]
  | cons p ps ih =>
    unfold scan
    by_cases hp : p = 0
    · subst hp
      by_cases hq : q = 0
      · subst hq
        simp only [beq_self_eq_true, if_true, Bool.true_and, bne_self_eq_false, Bool.false_eq_true,
          if_false, ih]
        exact (incr_cons_cons (Nat.le_refl 0)).symm
      · have h1 : (some q != some 0) = true := by simp [hq]
        simp only [beq_self_eq_true, if_true, Bool.true_and, h1]
        have := not_incr_of_lt (q := q) (p := 0) (ps := ps) (by omega)
        simp [this]
    · have h0 : (p == 0) = false := by simp [hp]
      simp only [h0, Bool.false_eq_true, if_false, if_true]
      by_cases h : p < q
      · simp only [h, if_true, Bool.false_eq_true, false_iff]
        exact not_incr_of_lt h
      · simp only [h, if_false, ih]
        exact (incr_cons_cons (by omega)).symm

theorem Contig.tail {q : Nat} {ps : List Nat} (h : Contig (q :: ps)) : Contig ps :=
  fun k => (h k).tail

theorem incr_contig {ps : List Nat} (h : Incr ps) : Contig ps := by
  intro k i j l hij hjl hl hi hlk
  have : ps[j] ≤ ps[l] := List.pairwise_iff_getElem.1 h j l (by omega) hl hjl
  omega

/-- a list that starts at position 0: all lower level sets are prefixes -/
theorem contig_zero_cons {ps : List Nat} : Contig (0 :: ps) ↔ Incr (0 :: ps) := by
  constructor
  · intro h
    unfold Incr
    rw [List.pairwise_cons]
    refine ⟨fun a _ => Nat.zero_le a, ?_⟩
    rw [List.pairwise_iff_getElem]
    intro i j hi hj hij
    have := h (ps[j] + 1) 0 (i + 1) (j + 1) (by omega) (by omega) (by simp; omega)
    simp only [List.getElem_cons_zero, List.getElem_cons_succ] at this
    have := this (by omega) (by omega)
    omega
  · exact incr_contig

theorem contig_step_le {q p : Nat} {ps : List Nat} (hpq : p ≤ q) :
    Contig (q :: p :: ps) ↔ Contig (p :: ps) := by
  constructor
  · exact Contig.tail
  · intro h k i j l hij hjl hl hi hlk
    match i, j, l, hij, hjl, hl, hi, hlk with
    | 0, 1, l+2, _, _, _, hi, _ =>
      simp only [List.getElem_cons_zero, List.getElem_cons_succ] at hi ⊢; omega
    | 0, j+2, l+3, _, _, hl, hi, hlk =>
      have := h k 0 (j+1) (l+2) (by omega) (by omega) (by simp at hl ⊢; omega)
      simp only [List.getElem_cons_zero, List.getElem_cons_succ] at hi hlk this ⊢
      exact this (by omega) hlk
    | i+1, j+2, l+3, _, _, hl, hi, hlk =>
      have := h k i (j+1) (l+2) (by omega) (by omega) (by simp at hl ⊢; omega)
      simp only [List.getElem_cons_succ] at hi hlk this ⊢
      exact this hi hlk

theorem contig_step_gt {q p : Nat} {ps : List Nat} (hpq : q < p) :
    Contig (q :: p :: ps) ↔ Incr (p :: ps) := by
  constructor
  · intro h
    have hge : ∀ l, (hl : l < ps.length) → p ≤ ps[l] := by
      intro l hl
      have := h (max q ps[l] + 1) 0 1 (l+2) (by omega) (by omega) (by simp; omega)
      simp only [List.getElem_cons_succ, List.getElem_cons_zero] at this
      have := this (by omega) (by omega)
      omega
    have hinc : ∀ j l, (hjl : j < l) → (hl : l < ps.length) → ps[j]'(by omega) ≤ ps[l] := by
      intro j l hjl hl
      have hj : j < ps.length := by omega
      have := h (max q ps[l] + 1) 0 (j+2) (l+2) (by omega) (by omega) (by simp; omega)
      simp only [List.getElem_cons_succ, List.getElem_cons_zero] at this
      have h1 := hge j hj
      have h2 := hge l hl
      have := this (by omega) (by omega)
      omega
    unfold Incr
    rw [List.pairwise_cons]
    refine ⟨?_, ?_⟩
    · intro a ha
      obtain ⟨l, hl, rfl⟩ := List.getElem_of_mem ha
      exact hge l hl
    · exact List.pairwise_iff_getElem.2 (fun i j hi hj hij => hinc i j hij hj)
  · intro h
    exact incr_contig ((incr_cons_cons (by omega)).2 h)

/-- before the peak, with a previous non-zero position, and the peak still to come -/
theorem scan_false_some (q : Nat) (ps : List Nat) (hq : q ≠ 0) (h0 : 0 ∈ ps) :
    scan false (some q) ps = true ↔ Contig (q :: ps) := by
  induction ps generalizing q with
  | nil => simp at h0
  | cons p ps ih =>
    unfold scan
    by_cases hp : p = 0
    · subst hp
      simp only [beq_self_eq_true, if_true, Bool.false_and, Bool.false_eq_true, if_false, scan_true]
      rw [contig_step_le (Nat.zero_le q), contig_zero_cons]
    · have hb : (p == 0) = false := by simp [hp]
      have h0' : 0 ∈ ps := by
        rcases List.mem_cons.1 h0 with h | h
        · exact absurd h.symm hp
        · exact h
      simp only [hb, Bool.false_eq_true, if_false]
      by_cases h : p > q
      · simp only [h, if_true, Bool.false_eq_true, false_iff]
        rw [contig_step_gt h]
        intro hinc
        have := (List.pairwise_cons.1 hinc).1 0 h0'
        omega
      · simp only [h, if_false]
        rw [ih p hp h0', contig_step_le (by omega)]

/-- the scan accepts a list of class positions containing the peak (position 0) exactly when all
its strict lower level sets are intervals -/
theorem scan_iff_contig (ps : List Nat) (h0 : ps = [] ∨ 0 ∈ ps) :
    scan false none ps = true ↔ Contig ps := by
  cases ps with
  | nil =>
    simp only [scan, true_iff]
    intro k i j l _ _ hl; simp at hl
  | cons p ps =>
    have h0 : 0 ∈ p :: ps := by
      rcases h0 with h | h
      · cases h
      · exact h
    unfold scan
    by_cases hp : p = 0
    · subst hp
      simp only [beq_self_eq_true, if_true, Bool.false_and, Bool.false_eq_true, if_false, scan_true]
      exact contig_zero_cons.symm
    · have hb : (p == 0) = false := by simp [hp]
      have h0' : 0 ∈ ps := by
        rcases List.mem_cons.1 h0 with h | h
        · exact absurd h.symm hp
        · exact h
      simp only [hb, Bool.false_eq_true, if_false]
      exact scan_false_some p ps hp h0'

end PrefVerif.C11
