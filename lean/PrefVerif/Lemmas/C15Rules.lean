import PrefVerif.Spec.Domains
import PrefVerif.Spec.Voting
import PrefVerif.Model.Distances
import PrefVerif.Lemmas.C15Relabel
/-!
# C15 helper lemmas, part 3: relabelling — Kendall-tau, single-crossing, pairwise counts, scores
-/
namespace PrefVerif.C15
open PrefVerif PrefVerif.Spec

variable {σ : Nat → Nat}

theorem kt_relabel' (hσ : ∀ a b, σ a = σ b → a = b) (a b : List Nat) :
    Distances.kt (a.map σ) (b.map σ) = Distances.kt a b := by
  induction a with
  | nil => rfl
  | cons x rest ih =>
    simp only [List.map_cons, Distances.kt, ih, List.filter_map, List.length_map]
    congr 3
    funext y
    simp only [Function.comp, idxOf_map_inj hσ]

theorem prefers_relabel (hσ : ∀ a b, σ a = σ b → a = b) (o : List Nat) (a b : Nat) :
    prefers (o.map σ) (σ a) (σ b) = prefers o a b := by
  simp only [prefers, idxOf_map_inj hσ]

theorem switches_relabel (hσ : ∀ a b, σ a = σ b → a = b) (a b : Nat) (s : List (List Nat)) :
    switches (σ a) (σ b) (s.map (List.map σ)) = switches a b s := by
  induction s with
  | nil => rfl
  | cons o1 s ih =>
    cases s with
    | nil => rfl
    | cons o2 rest =>
      simp only [List.map_cons, switches, prefers_relabel hσ]
      simp only [List.map_cons] at ih
      rw [ih]

theorem scSeq_relabel' (hσ : ∀ a b, σ a = σ b → a = b) (alts : List Nat) (s : List (List Nat)) :
    scSeq (alts.map σ) (s.map (List.map σ)) = scSeq alts s := by
  unfold scSeq
  simp only [List.all_map]
  congr 1
  funext a
  simp only [Function.comp]
  congr 1
  funext b
  simp only [Function.comp, beq_inj hσ, switches_relabel hσ]

theorem bruteSC_relabel' (hσ : ∀ a b, σ a = σ b → a = b) (alts : List Nat) (orders : List (List Nat)) :
    bruteSC (alts.map σ) (orders.map (List.map σ)) = bruteSC alts orders := by
  unfold bruteSC
  rw [perms_map, List.any_map]
  congr 1
  funext s
  exact scSeq_relabel' hσ alts s

/-! ### pairwise counts -/

theorem classIdx_relabel (hσ : ∀ a b, σ a = σ b → a = b) (o : Order) (a : Nat) :
    classIdx? (o.map (fun c => c.map σ)) (σ a) = classIdx? o a := by
  induction o with
  | nil => rfl
  | cons c o ih => simp only [List.map_cons, classIdx?, contains_map_inj hσ, ih]

theorem above_relabel (hσ : ∀ a b, σ a = σ b → a = b) (o : Order) (a b : Nat) :
    above (o.map (fun c => c.map σ)) (σ a) (σ b) = above o a b := by
  simp only [above, classIdx_relabel hσ]

theorem prefCount_relabel' (hσ : ∀ a b, σ a = σ b → a = b) (v : List Order) (a b : Nat) :
    prefCount (v.map (fun o => o.map (fun c => c.map σ))) (σ a) (σ b) = prefCount v a b := by
  unfold prefCount
  rw [List.countP_map]
  congr 1
  funext o
  exact above_relabel hσ o a b

theorem margin_relabel (hσ : ∀ a b, σ a = σ b → a = b) (v : List Order) (a b : Nat) :
    margin (v.map (fun o => o.map (fun c => c.map σ))) (σ a) (σ b) = margin v a b := by
  simp only [margin, prefCount_relabel' hσ]

theorem condorcet_relabel' (hσ : ∀ a b, σ a = σ b → a = b) (alts : List Nat) (v : List Order) (weak : Bool) :
    condorcet (alts.map σ) (v.map (fun o => o.map (fun c => c.map σ))) weak = condorcet alts v weak := by
  unfold condorcet
  simp only [List.any_map, List.all_map]
  congr 1
  funext a
  simp only [Function.comp]
  congr 1
  funext b
  simp only [Function.comp, beq_inj hσ, margin_relabel hσ]

/-! ### scores -/

theorem pluralityScore_relabel (hσ : ∀ a b, σ a = σ b → a = b) (v : List Order) (a : Nat) :
    pluralityScore (v.map (fun o => o.map (fun c => c.map σ))) (σ a) = pluralityScore v a := by
  unfold pluralityScore
  rw [List.countP_map]
  congr 1
  funext o
  cases o with
  | nil => rfl
  | cons c o => simp only [Function.comp, List.map_cons, List.headD_cons, contains_map_inj hσ]

theorem vetoScore_relabel (hσ : ∀ a b, σ a = σ b → a = b) (v : List Order) (a : Nat) :
    vetoScore (v.map (fun o => o.map (fun c => c.map σ))) (σ a) = vetoScore v a := by
  unfold vetoScore
  rw [List.countP_map]
  congr 1
  funext o
  show ((o.map (List.map σ)).getLastD (List.map σ [])).contains (σ a) = _
  rw [List.getLastD_map, contains_map_inj hσ]

theorem heads_relabel (L : List (List Nat)) (hne : ∀ c ∈ L, c ≠ []) :
    (L.map (fun c => c.map σ)).map (fun c => c.headD 0) = (L.map (fun c => c.headD 0)).map σ := by
  induction L with
  | nil => rfl
  | cons c L ih =>
    have hc : c ≠ [] := hne c (by simp)
    have ih' := ih (fun d hd => hne d (by simp [hd]))
    cases c with
    | nil => exact absurd rfl hc
    | cons x c =>
      simp only [List.map_cons, List.headD_cons, List.cons.injEq, true_and]
      exact ih'

theorem inTop_relabel (hσ : ∀ a b, σ a = σ b → a = b) (k : Nat) (o : Order) (hne : ∀ c ∈ o, c ≠ []) (a : Nat) :
    inTop k (o.map (fun c => c.map σ)) (σ a) = inTop k o a := by
  unfold inTop
  rw [← List.map_take, heads_relabel _ (fun c hc => hne c (List.mem_of_mem_take hc)), contains_map_inj hσ]

theorem topCount_relabel (hσ : ∀ a b, σ a = σ b → a = b) (k : Nat) (v : List Order)
    (hne : ∀ o ∈ v, ∀ c ∈ o, c ≠ []) (a : Nat) :
    topCount k (v.map (fun o => o.map (fun c => c.map σ))) (σ a) = topCount k v a := by
  unfold topCount
  rw [List.countP_map]
  apply List.countP_congr
  intro o ho
  simp only [Function.comp, inTop_relabel hσ k o (hne o ho)]

theorem bordaOf_relabel (hσ : ∀ a b, σ a = σ b → a = b) (i : Int) (o : Order) (a : Nat) :
    bordaOf i (o.map (fun c => c.map σ)) (σ a) = bordaOf i o a := by
  induction o generalizing i with
  | nil => rfl
  | cons c o ih => simp only [List.map_cons, bordaOf, contains_map_inj hσ, List.length_map, ih]

theorem bordaScore_relabel (hσ : ∀ a b, σ a = σ b → a = b) (m : Nat) (v : List Order) (a : Nat) :
    bordaScore m (v.map (fun o => o.map (fun c => c.map σ))) (σ a) = bordaScore m v a := by
  unfold bordaScore
  rw [List.map_map]
  congr 2
  funext o
  exact bordaOf_relabel hσ _ o a

theorem savScore_relabel (hσ : ∀ a b, σ a = σ b → a = b) (v : List Order) (a : Nat) :
    savScore (v.map (fun o => o.map (fun c => c.map σ))) (σ a) = savScore v a := by
  unfold savScore
  rw [List.map_map]
  congr 2
  funext o
  cases o with
  | nil => rfl
  | cons c o =>
    simp only [Function.comp, List.map_cons, List.headD_cons, contains_map_inj hσ, List.length_map]
    rfl

theorem argmaxSet_relabel' (alts : List Nat) (score score' : Nat → Int)
    (h : ∀ a, score' (σ a) = score a) :
    argmaxSet (alts.map σ) score' = (argmaxSet alts score).map σ := by
  unfold argmaxSet
  rw [List.filter_map]
  congr 2
  funext a
  simp only [Function.comp, List.all_map, h]
  congr 1
  funext b
  simp only [Function.comp, h]

end PrefVerif.C15
