import PrefVerif.Lemmas.C02Sanity
/-! `is_strict` / `is_complete` of `properties/basic.py` on a consistent state. -/
namespace PrefVerif.C02
open PrefVerif PrefVerif.Ordinal PrefVerif.Spec PrefVerif.Py

theorem foldl_min_eq (xs : List Nat) (a n : Nat) (ha : a ≤ n) (hx : ∀ x ∈ xs, x ≤ n) :
    xs.foldl min a = n ↔ a = n ∧ ∀ x ∈ xs, x = n := by
  induction xs generalizing a with
  | nil => simp
  | cons x xs ih =>
    have hx1 : x ≤ n := hx x (List.mem_cons_self ..)
    rw [List.foldl_cons, ih (min a x) (by omega) (fun y hy => hx y (List.mem_cons_of_mem _ hy))]
    simp only [List.mem_cons, forall_eq_or_imp]
    constructor
    · rintro ⟨h1, h2⟩; exact ⟨by omega, by omega, h2⟩
    · rintro ⟨h1, h2, h3⟩; exact ⟨by omega, h3⟩

theorem foldl_max_zero_eq_one (l : List Nat) (hne : l ≠ []) (hx : ∀ x ∈ l, 1 ≤ x) :
    l.foldl max 0 = 1 ↔ ∀ x ∈ l, x = 1 := by
  cases l with
  | nil => exact absurd rfl hne
  | cons a xs =>
    rw [List.foldl_cons, Nat.zero_max,
      foldl_max_eq_one xs a (hx a (List.mem_cons_self ..)) (fun y hy => hx y (List.mem_cons_of_mem _ hy))]
    simp

theorem cons_orders_ne_nil {s : OrdState} {v : List Order} (hc : Consistent s v) (hne : v ≠ []) :
    s.orders ≠ [] := by
  cases v with
  | nil => exact absurd rfl hne
  | cons o v =>
    intro h
    have := (hc.support o).2 (List.mem_cons_self ..)
    rw [h] at this
    exact absurd this (List.not_mem_nil)

theorem cons_isStrict {s : OrdState} {v : List Order} (hc : Consistent s v)
    (hv : ∀ o ∈ v, wfVote o = true) (hne : v ≠ []) :
    isStrict s = v.all isStrictOrder := by
  have hwf : ∀ o ∈ s.orders, o ≠ [] ∧ ∀ c ∈ o, c ≠ [] := by
    intro o ho
    obtain ⟨h1, h2, _⟩ := (wfVote_iff o).1 (hv o ((hc.support o).1 ho))
    exact ⟨h1, h2⟩
  have hpos : ∀ x ∈ s.orders.flatten.map List.length, 1 ≤ x := by
    intro x hx
    obtain ⟨c, hc', rfl⟩ := List.mem_map.1 hx
    obtain ⟨o, ho, hco⟩ := List.mem_flatten.1 hc'
    have := (hwf o ho).2 c hco
    cases c with
    | nil => exact absurd rfl this
    | cons _ _ => simp
  have hfilter : (s.orders.flatten.map List.length).filter (· > 0) = s.orders.flatten.map List.length := by
    rw [List.filter_eq_self]
    intro x hx
    have := hpos x hx
    simp only [gt_iff_lt, decide_eq_true_eq]; omega
  have hne' : s.orders.flatten.map List.length ≠ [] := by
    have hon := cons_orders_ne_nil hc hne
    cases hos : s.orders with
    | nil => exact absurd hos hon
    | cons o os =>
      have ho : o ∈ s.orders := hos ▸ List.mem_cons_self ..
      have hone := (hwf o ho).1
      cases o with
      | nil => exact absurd rfl hone
      | cons c cs => simp
  unfold isStrict largestIndif
  rw [hfilter, Bool.eq_iff_iff, beq_iff_eq, foldl_max_zero_eq_one _ hne' hpos, List.all_eq_true]
  simp only [List.mem_map, List.mem_flatten, isStrictOrder, List.all_eq_true, beq_iff_eq]
  constructor
  · intro H o ho c hco
    exact H _ ⟨c, ⟨o, (hc.support o).2 ho, hco⟩, rfl⟩
  · rintro H x ⟨c, ⟨o, ho, hco⟩, rfl⟩
    exact H o ((hc.support o).1 ho) c hco

theorem cons_isComplete {s : OrdState} {v : List Order} (hc : Consistent s v)
    (hv : ∀ o ∈ v, wfVote o = true) (hne : v ≠ []) :
    isComplete s = some (v.all (fun o => o.flatten.length == s.numAlternatives)) := by
  have hon := cons_orders_ne_nil hc hne
  have hle := cons_ballot_le hc hv
  have hall : v.all (fun o => o.flatten.length == s.numAlternatives)
      = s.orders.all (fun o => o.flatten.length == s.numAlternatives) :=
    (all_congr_mem hc.support (fun _ _ => rfl)).symm
  rw [hall]
  unfold isComplete smallestBallot
  cases hos : s.orders with
  | nil => exact absurd hos hon
  | cons o os =>
    rw [hos] at hle
    simp only [List.map_cons, Option.map_some, Option.some.injEq]
    rw [Bool.eq_iff_iff, beq_iff_eq,
      foldl_min_eq _ _ _ (hle o (List.mem_cons_self ..)) (by
        intro x hx
        obtain ⟨o', ho', rfl⟩ := List.mem_map.1 hx
        exact hle o' (List.mem_cons_of_mem _ ho'))]
    simp

end PrefVerif.C02
