import PrefVerif.Lemmas.C05PQSeg
/-!
`NoV`/`AllVL`/`Suf`/`Pre`/`VSeg` one set at a time, and what an interval of sets with `v` means for the
pieces of a concatenation.
-/
set_option linter.unusedSimpArgs false
namespace PrefVerif.PQTree

def HasV (v : Nat) (f : List (List Nat)) : Prop := ∃ s ∈ f, v ∈ s
def HasN (v : Nat) (f : List (List Nat)) : Prop := ∃ s ∈ f, v ∉ s

theorem noV_cons {v : Nat} {s : List Nat} {l : List (List Nat)} : NoV v (s :: l) ↔ v ∉ s ∧ NoV v l := by
  simp [NoV]
theorem allVL_cons {v : Nat} {s : List Nat} {l : List (List Nat)} : AllVL v (s :: l) ↔ v ∈ s ∧ AllVL v l := by
  simp [AllVL]

theorem noV_append {v : Nat} {a b : List (List Nat)} : NoV v (a ++ b) ↔ NoV v a ∧ NoV v b := by
  simp only [NoV, List.mem_append]
  constructor
  · intro h; exact ⟨fun s hs => h s (.inl hs), fun s hs => h s (.inr hs)⟩
  · rintro ⟨h1, h2⟩ s (hs | hs)
    · exact h1 s hs
    · exact h2 s hs

theorem allVL_append {v : Nat} {a b : List (List Nat)} : AllVL v (a ++ b) ↔ AllVL v a ∧ AllVL v b := by
  simp only [AllVL, List.mem_append]
  constructor
  · intro h; exact ⟨fun s hs => h s (.inl hs), fun s hs => h s (.inr hs)⟩
  · rintro ⟨h1, h2⟩ s (hs | hs)
    · exact h1 s hs
    · exact h2 s hs

theorem not_hasV_iff {v : Nat} {f : List (List Nat)} : ¬ HasV v f ↔ NoV v f := by
  simp only [HasV, NoV, not_exists, not_and]

theorem not_hasN_iff {v : Nat} {f : List (List Nat)} : ¬ HasN v f ↔ AllVL v f := by
  simp only [HasN, AllVL, not_exists, not_and, Decidable.not_not]

theorem hasV_append {v : Nat} {a b : List (List Nat)} : HasV v (a ++ b) ↔ HasV v a ∨ HasV v b := by
  simp only [HasV, List.mem_append]
  constructor
  · rintro ⟨s, hs | hs, hv⟩
    · exact .inl ⟨s, hs, hv⟩
    · exact .inr ⟨s, hs, hv⟩
  · rintro (⟨s, hs, hv⟩ | ⟨s, hs, hv⟩)
    · exact ⟨s, .inl hs, hv⟩
    · exact ⟨s, .inr hs, hv⟩

theorem hasV_or_noV (v : Nat) (f : List (List Nat)) : HasV v f ∨ NoV v f := by
  by_cases h : HasV v f
  · exact .inl h
  · exact .inr (not_hasV_iff.1 h)

theorem hasN_or_allVL (v : Nat) (f : List (List Nat)) : HasN v f ∨ AllVL v f := by
  by_cases h : HasN v f
  · exact .inl h
  · exact .inr (not_hasN_iff.1 h)

theorem pre_cons {v : Nat} {s : List Nat} {l : List (List Nat)} :
    Pre v (s :: l) ↔ (v ∈ s ∧ Pre v l) ∨ (v ∉ s ∧ NoV v l) := by
  constructor
  · rintro ⟨w, e, h, hw, he⟩
    cases w with
    | nil =>
      simp only [List.nil_append] at h
      subst h
      exact .inr (noV_cons.1 he)
    | cons a w' =>
      simp only [List.cons_append, List.cons.injEq] at h
      obtain ⟨rfl, rfl⟩ := h
      exact .inl ⟨(allVL_cons.1 hw).1, w', e, rfl, (allVL_cons.1 hw).2, he⟩
  · rintro (⟨hs, w, e, rfl, hw, he⟩ | ⟨hs, hl⟩)
    · exact ⟨s :: w, e, rfl, allVL_cons.2 ⟨hs, hw⟩, he⟩
    · exact ⟨[], s :: l, rfl, allVL_nil v, noV_cons.2 ⟨hs, hl⟩⟩

theorem suf_cons {v : Nat} {s : List Nat} {l : List (List Nat)} :
    Suf v (s :: l) ↔ (v ∈ s ∧ AllVL v l) ∨ (v ∉ s ∧ Suf v l) := by
  constructor
  · rintro ⟨e, w, h, he, hw⟩
    cases e with
    | nil =>
      simp only [List.nil_append] at h
      subst h
      exact .inl (allVL_cons.1 hw)
    | cons a e' =>
      simp only [List.cons_append, List.cons.injEq] at h
      obtain ⟨rfl, rfl⟩ := h
      exact .inr ⟨(noV_cons.1 he).1, e', w, rfl, (noV_cons.1 he).2, hw⟩
  · rintro (⟨hs, hl⟩ | ⟨hs, e, w, rfl, he, hw⟩)
    · exact ⟨[], s :: l, rfl, noV_nil v, allVL_cons.2 ⟨hs, hl⟩⟩
    · exact ⟨s :: e, w, rfl, noV_cons.2 ⟨hs, he⟩, hw⟩

theorem vseg_cons {v : Nat} {s : List Nat} {l : List (List Nat)} :
    VSeg v (s :: l) ↔ (v ∈ s ∧ Pre v l) ∨ (v ∉ s ∧ VSeg v l) := by
  constructor
  · rintro ⟨A, B, C, h, hA, hB, hC⟩
    cases A with
    | nil =>
      cases B with
      | nil =>
        simp only [List.nil_append] at h
        subst h
        have := noV_cons.1 (show NoV v (s :: l) from hC)
        exact .inr ⟨this.1, NoV.vseg this.2⟩
      | cons b B' =>
        simp only [List.nil_append, List.cons_append, List.cons.injEq] at h
        obtain ⟨rfl, rfl⟩ := h
        have := allVL_cons.1 (show AllVL v (s :: B') from hB)
        exact .inl ⟨this.1, B', C, rfl, this.2, hC⟩
    | cons a A' =>
      simp only [List.cons_append, List.cons.injEq] at h
      obtain ⟨rfl, rfl⟩ := h
      have := noV_cons.1 (show NoV v (s :: A') from hA)
      exact .inr ⟨this.1, A', B, C, rfl, this.2, hB, hC⟩
  · rintro (⟨hs, w, e, rfl, hw, he⟩ | ⟨hs, A, B, C, rfl, hA, hB, hC⟩)
    · exact ⟨[], s :: w, e, rfl, by simp, allVL_cons.2 ⟨hs, hw⟩, he⟩
    · exact ⟨s :: A, B, C, rfl, noV_cons.2 ⟨hs, hA⟩, hB, hC⟩

/-! ### pieces of a concatenation -/

theorem Pre.of_noV_or {v : Nat} {l : List (List Nat)} (h : NoV v l) : Pre v l := h.pre

theorem pre_append {v : Nat} {x y : List (List Nat)} :
    Pre v (x ++ y) ↔ (AllVL v x ∧ Pre v y) ∨ (Pre v x ∧ NoV v y) := by
  induction x with
  | nil =>
    simp only [List.nil_append]
    constructor
    · intro h; exact .inl ⟨allVL_nil v, h⟩
    · rintro (⟨_, h⟩ | ⟨_, h⟩)
      · exact h
      · exact h.pre
  | cons s x ih =>
    simp only [List.cons_append, pre_cons, ih, allVL_cons, noV_append]
    constructor
    · rintro (⟨hs, ⟨h1, h2⟩ | ⟨h1, h2⟩⟩ | ⟨hs, h1, h2⟩)
      · exact .inl ⟨⟨hs, h1⟩, h2⟩
      · exact .inr ⟨.inl ⟨hs, h1⟩, h2⟩
      · exact .inr ⟨.inr ⟨hs, h1⟩, h2⟩
    · rintro (⟨⟨hs, h1⟩, h2⟩ | ⟨⟨hs, h1⟩ | ⟨hs, h1⟩, h2⟩)
      · exact .inl ⟨hs, .inl ⟨h1, h2⟩⟩
      · exact .inl ⟨hs, .inr ⟨h1, h2⟩⟩
      · exact .inr ⟨hs, h1, h2⟩

theorem suf_append {v : Nat} {x y : List (List Nat)} :
    Suf v (x ++ y) ↔ (Suf v x ∧ AllVL v y) ∨ (NoV v x ∧ Suf v y) := by
  induction x with
  | nil =>
    simp only [List.nil_append]
    constructor
    · intro h; exact .inr ⟨noV_nil v, h⟩
    · rintro (⟨_, h⟩ | ⟨_, h⟩)
      · exact h.suf
      · exact h
  | cons s x ih =>
    simp only [List.cons_append, suf_cons, ih, allVL_append, noV_cons]
    constructor
    · rintro (⟨hs, h1, h2⟩ | ⟨hs, ⟨h1, h2⟩ | ⟨h1, h2⟩⟩)
      · exact .inl ⟨.inl ⟨hs, h1⟩, h2⟩
      · exact .inl ⟨.inr ⟨hs, h1⟩, h2⟩
      · exact .inr ⟨⟨hs, h1⟩, h2⟩
    · rintro (⟨⟨hs, h1⟩ | ⟨hs, h1⟩, h2⟩ | ⟨⟨hs, h1⟩, h2⟩)
      · exact .inl ⟨hs, h1, h2⟩
      · exact .inr ⟨hs, .inl ⟨h1, h2⟩⟩
      · exact .inr ⟨hs, .inr ⟨h1, h2⟩⟩

theorem vseg_append {v : Nat} {x y : List (List Nat)} :
    VSeg v (x ++ y) ↔ (Suf v x ∧ Pre v y) ∨ (VSeg v x ∧ NoV v y) ∨ (NoV v x ∧ VSeg v y) := by
  induction x with
  | nil =>
    simp only [List.nil_append]
    constructor
    · intro h; exact .inr (.inr ⟨noV_nil v, h⟩)
    · rintro (⟨_, h⟩ | ⟨_, h⟩ | ⟨_, h⟩)
      · exact h.vseg
      · exact h.vseg
      · exact h
  | cons s x ih =>
    simp only [List.cons_append, vseg_cons, ih, suf_cons, pre_append, noV_cons]
    constructor
    · rintro (⟨hs, ⟨h1, h2⟩ | ⟨h1, h2⟩⟩ | ⟨hs, ⟨h1, h2⟩ | ⟨h1, h2⟩ | ⟨h1, h2⟩⟩)
      · exact .inl ⟨.inl ⟨hs, h1⟩, h2⟩
      · exact .inr (.inl ⟨.inl ⟨hs, h1⟩, h2⟩)
      · exact .inl ⟨.inr ⟨hs, h1⟩, h2⟩
      · exact .inr (.inl ⟨.inr ⟨hs, h1⟩, h2⟩)
      · exact .inr (.inr ⟨⟨hs, h1⟩, h2⟩)
    · rintro (⟨⟨hs, h1⟩ | ⟨hs, h1⟩, h2⟩ | ⟨⟨hs, h1⟩ | ⟨hs, h1⟩, h2⟩ | ⟨⟨hs, h1⟩, h2⟩)
      · exact .inl ⟨hs, .inl ⟨h1, h2⟩⟩
      · exact .inr ⟨hs, .inl ⟨h1, h2⟩⟩
      · exact .inl ⟨hs, .inr ⟨h1, h2⟩⟩
      · exact .inr ⟨hs, .inr (.inl ⟨h1, h2⟩)⟩
      · exact .inr ⟨hs, .inr (.inr ⟨h1, h2⟩)⟩

theorem NoV.not_hasV {v : Nat} {f : List (List Nat)} (h : NoV v f) (h' : HasV v f) : False :=
  not_hasV_iff.2 h h'

theorem AllVL.not_hasN {v : Nat} {f : List (List Nat)} (h : AllVL v f) (h' : HasN v f) : False :=
  not_hasN_iff.2 h h'

/-- both pieces contain sets with `v`: the first is aligned to the right, the second to the left -/
theorem vseg_append_hasV {v : Nat} {x y : List (List Nat)} (h : VSeg v (x ++ y)) (hx : HasV v x) (hy : HasV v y) :
    Suf v x ∧ Pre v y := by
  rcases vseg_append.1 h with h1 | ⟨_, h2⟩ | ⟨h2, _⟩
  · exact h1
  · exact absurd hy (not_hasV_iff.2 h2)
  · exact absurd hx (not_hasV_iff.2 h2)

theorem suf_append_hasV {v : Nat} {x y : List (List Nat)} (h : Suf v (x ++ y)) (hx : HasV v x) :
    Suf v x ∧ AllVL v y := by
  rcases suf_append.1 h with h1 | ⟨h2, _⟩
  · exact h1
  · exact absurd hx (not_hasV_iff.2 h2)

theorem pre_append_hasV {v : Nat} {x y : List (List Nat)} (h : Pre v (x ++ y)) (hy : HasV v y) :
    AllVL v x ∧ Pre v y := by
  rcases pre_append.1 h with h1 | ⟨_, h2⟩
  · exact h1
  · exact absurd hy (not_hasV_iff.2 h2)

theorem VSeg.left {v : Nat} {x y : List (List Nat)} (h : VSeg v (x ++ y)) : VSeg v x := by
  rcases vseg_append.1 h with ⟨h1, _⟩ | ⟨h1, _⟩ | ⟨h1, _⟩
  · exact h1.vseg
  · exact h1
  · exact h1.vseg

theorem VSeg.right {v : Nat} {x y : List (List Nat)} (h : VSeg v (x ++ y)) : VSeg v y := by
  rcases vseg_append.1 h with ⟨_, h1⟩ | ⟨_, h1⟩ | ⟨_, h1⟩
  · exact h1.vseg
  · exact h1.vseg
  · exact h1

theorem Suf.left {v : Nat} {x y : List (List Nat)} (h : Suf v (x ++ y)) : Suf v x := by
  rcases suf_append.1 h with ⟨h1, _⟩ | ⟨h1, _⟩
  · exact h1
  · exact h1.suf

theorem Suf.right {v : Nat} {x y : List (List Nat)} (h : Suf v (x ++ y)) : Suf v y := by
  rcases suf_append.1 h with ⟨_, h1⟩ | ⟨_, h1⟩
  · exact h1.suf
  · exact h1

theorem Pre.left {v : Nat} {x y : List (List Nat)} (h : Pre v (x ++ y)) : Pre v x := by
  rcases pre_append.1 h with ⟨h1, _⟩ | ⟨h1, _⟩
  · exact h1.pre
  · exact h1

theorem Pre.right {v : Nat} {x y : List (List Nat)} (h : Pre v (x ++ y)) : Pre v y := by
  rcases pre_append.1 h with ⟨_, h1⟩ | ⟨_, h1⟩
  · exact h1
  · exact h1.pre

/-- a suffix-aligned piece followed by a non-empty piece without `v` has no set with `v` -/
theorem suf_append_noV {v : Nat} {x y : List (List Nat)} (h : Suf v (x ++ y)) (hy : NoV v y) (hne : y ≠ []) :
    NoV v x := by
  rcases suf_append.1 h with ⟨_, h1⟩ | ⟨h1, _⟩
  · exfalso
    obtain ⟨s, hs⟩ := List.exists_mem_of_ne_nil _ hne
    exact hy s hs (h1 s hs)
  · exact h1

theorem pre_append_noV {v : Nat} {x y : List (List Nat)} (h : Pre v (x ++ y)) (hx : NoV v x) (hne : x ≠ []) :
    NoV v y := by
  rcases pre_append.1 h with ⟨h1, _⟩ | ⟨_, h1⟩
  · exfalso
    obtain ⟨s, hs⟩ := List.exists_mem_of_ne_nil _ hne
    exact hx s hs (h1 s hs)
  · exact h1

/-- `Suf` and `Pre` at once on a list with and without `v`: impossible -/
theorem suf_pre_absurd {v : Nat} {f : List (List Nat)} (hs : Suf v f) (hp : Pre v f) (hv : HasV v f) (hn : HasN v f) :
    False := by
  induction f with
  | nil => obtain ⟨s, hs', _⟩ := hv; cases hs'
  | cons s l ih =>
    rcases suf_cons.1 hs with ⟨h1, h2⟩ | ⟨h1, h2⟩
    · -- everything has v
      obtain ⟨s', hs', hn'⟩ := hn
      rcases List.mem_cons.1 hs' with rfl | hs'
      · exact hn' h1
      · exact hn' (h2 s' hs')
    · rcases pre_cons.1 hp with ⟨h3, _⟩ | ⟨_, h4⟩
      · exact h1 h3
      · obtain ⟨s', hs', hv'⟩ := hv
        rcases List.mem_cons.1 hs' with rfl | hs'
        · exact h1 hv'
        · exact h4 s' hs' hv'

end PrefVerif.PQTree
