import PrefVerif.Model.SingleWinner
import PrefVerif.Spec.Voting
/-!
# C14 helper lemmas, part 1: association lists, `addScore`, `max` folds, `argmaxKeys`
-/
namespace PrefVerif.C14
open PrefVerif PrefVerif.SingleWinner PrefVerif.Spec PrefVerif.Py

/-! ### `get?` / `set` -/

theorem get?_nil (k : Nat) : AList.get? ([] : AList Nat Int) k = none := rfl

theorem get?_cons (k' : Nat) (v' : Int) (d : AList Nat Int) (k : Nat) :
    AList.get? ((k', v') :: d) k = if k' = k then some v' else AList.get? d k := by
  unfold AList.get?
  by_cases h : k' = k <;> simp [h]

theorem set_cons (k' : Nat) (v' : Int) (d : AList Nat Int) (k : Nat) (v : Int) :
    AList.set ((k', v') :: d) k v = if k' = k then (k', v) :: d else (k', v') :: AList.set d k v := by
  by_cases h : k' = k <;> simp [AList.set, h]

theorem get?_set_same (d : AList Nat Int) (k : Nat) (v : Int) :
    AList.get? (AList.set d k v) k = some v := by
  induction d with
  | nil => simp [AList.set, get?_cons]
  | cons e d ih =>
    obtain ⟨k', v'⟩ := e
    rw [set_cons]
    by_cases h : k' = k <;> simp [h, get?_cons, ih]

theorem get?_set_other (d : AList Nat Int) (k x : Nat) (v : Int) (hx : x ≠ k) :
    AList.get? (AList.set d k v) x = AList.get? d x := by
  induction d with
  | nil =>
    have : k ≠ x := fun h => hx h.symm
    simp [AList.set, get?_cons, get?_nil, this]
  | cons e d ih =>
    obtain ⟨k', v'⟩ := e
    rw [set_cons]
    by_cases h : k' = k
    · subst h
      have : k' ≠ x := fun h => hx h.symm
      simp [get?_cons, this]
    · simp [h, get?_cons, ih]

theorem keys_set (d : AList Nat Int) (k : Nat) (v : Int) :
    (AList.set d k v).map (·.1) =
      if k ∈ d.map (·.1) then d.map (·.1) else d.map (·.1) ++ [k] := by
  induction d with
  | nil => simp [AList.set]
  | cons e d ih =>
    obtain ⟨k', v'⟩ := e
    rw [set_cons]
    by_cases h : k' = k
    · simp [h]
    · have h' : ¬ k = k' := fun e => h e.symm
      simp only [h, if_false, List.map_cons, ih, List.mem_cons, h', false_or]
      split <;> simp

theorem keys_nodup_set (d : AList Nat Int) (k : Nat) (v : Int) (h : (d.map (·.1)).Nodup) :
    ((AList.set d k v).map (·.1)).Nodup := by
  rw [keys_set]
  split
  · exact h
  · rename_i hk
    rw [List.nodup_append]
    refine ⟨h, by simp, ?_⟩
    intro a ha b hb
    simp at hb
    subst hb
    intro e
    exact hk (e ▸ ha)

/-! ### `addScore` -/

theorem get?_addScore (s : AList Nat Int) (a : Nat) (d : Int) (x : Nat) :
    ((addScore s a d).get? x).getD 0 = (s.get? x).getD 0 + if x = a then d else 0 := by
  unfold addScore AList.upd
  by_cases h : x = a
  · subst h
    simp [get?_set_same]
  · simp [get?_set_other _ _ _ _ h, h]

theorem keys_nodup_addScore (s : AList Nat Int) (a : Nat) (d : Int) (h : (s.map (·.1)).Nodup) :
    ((addScore s a d).map (·.1)).Nodup := keys_nodup_set _ _ _ h

/-- a fold that adds `om.2` to the key selected by `g` (or does nothing) -/
def stepBy (g : Order → Option Nat) (s : AList Nat Int) (om : Order × Nat) : AList Nat Int :=
  match g om.1 with
  | some k => addScore s k (om.2 : Int)
  | none => s

/-- weighted number of ballots of the compressed profile satisfying `q` -/
def wcount (p : Profile) (q : Order → Bool) : Nat :=
  (p.map (fun om => if q om.1 then om.2 else 0)).sum

theorem get?_foldl_stepBy (g : Order → Option Nat) (p : Profile) (s : AList Nat Int) (x : Nat) :
    ((p.foldl (stepBy g) s).get? x).getD 0 =
      (s.get? x).getD 0 + (wcount p (fun o => g o == some x) : Int) := by
  induction p generalizing s with
  | nil => simp [wcount]
  | cons om p ih =>
    rw [List.foldl_cons, ih]
    have : ((stepBy g s om).get? x).getD 0 =
        (s.get? x).getD 0 + ((if (g om.1 == some x) = true then om.2 else 0 : Nat) : Int) := by
      unfold stepBy
      cases hg : g om.1 with
      | none => simp
      | some k =>
        simp only [get?_addScore]
        by_cases hk : x = k
        · subst hk; simp
        · have : ¬ k = x := fun e => hk e.symm
          simp [hk, this]
    rw [this]
    simp only [wcount, List.map_cons, List.sum_cons]
    omega

theorem keys_nodup_foldl_stepBy (g : Order → Option Nat) (p : Profile) (s : AList Nat Int)
    (h : (s.map (·.1)).Nodup) : ((p.foldl (stepBy g) s).map (·.1)).Nodup := by
  induction p generalizing s with
  | nil => exact h
  | cons om p ih =>
    rw [List.foldl_cons]
    apply ih
    unfold stepBy
    split
    · exact keys_nodup_addScore _ _ _ h
    · exact h

/-! ### tables with distinct keys -/

theorem get?_eq_some_iff_mem (s : AList Nat Int) (h : (s.map (·.1)).Nodup) (a : Nat) (v : Int) :
    s.get? a = some v ↔ (a, v) ∈ s := by
  induction s with
  | nil => simp [get?_nil]
  | cons e s ih =>
    obtain ⟨k', v'⟩ := e
    simp only [List.map_cons, List.nodup_cons] at h
    rw [get?_cons]
    by_cases hk : k' = a
    · subst hk
      simp only [if_true, List.mem_cons, Prod.mk.injEq, true_and, Option.some.injEq]
      constructor
      · intro e; exact Or.inl e.symm
      · rintro (e | hm)
        · exact e.symm
        · exact absurd (List.mem_map.mpr ⟨_, hm, rfl⟩) h.1
    · simp only [hk, if_false, List.mem_cons, Prod.mk.injEq, ih h.2]
      constructor
      · intro hm; exact Or.inr hm
      · rintro (⟨e, _⟩ | hm)
        · exact absurd e.symm hk
        · exact hm

/-! ### `foldl max` -/

theorem foldl_max_spec (vs : List Int) (v : Int) :
    (∀ x ∈ v :: vs, x ≤ vs.foldl max v) ∧ vs.foldl max v ∈ v :: vs := by
  induction vs generalizing v with
  | nil => simp
  | cons w vs ih =>
    rw [List.foldl_cons]
    obtain ⟨h1, h2⟩ := ih (max v w)
    constructor
    · intro x hx
      have hm := h1 (max v w) (List.mem_cons_self ..)
      rcases List.mem_cons.mp hx with rfl | hx
      · omega
      · rcases List.mem_cons.mp hx with rfl | hx
        · omega
        · exact h1 x (List.mem_cons_of_mem _ hx)
    · rcases List.mem_cons.mp h2 with e | hm
      · rw [e]
        by_cases hvw : v ≤ w
        · have : max v w = w := by omega
          rw [this]; simp
        · have : max v w = v := by omega
          rw [this]; simp
      · exact List.mem_cons_of_mem _ (List.mem_cons_of_mem _ hm)

theorem snd_mem_of_mem {s : AList Nat Int} {a : Nat} {v : Int} (hm : (a, v) ∈ s) :
    v ∈ s.map (·.2) := List.mem_map.mpr ⟨(a, v), hm, rfl⟩

/-- a table `s` with distinct keys reads the counting function `c` -/
def Reads (s : AList Nat Int) (c : Nat → Nat) : Prop :=
  (s.map (·.1)).Nodup ∧ ∀ a, (s.get? a).getD 0 = (c a : Int)

theorem Reads.mem {s : AList Nat Int} {c : Nat → Nat} (h : Reads s c) {a : Nat} {v : Int}
    (hm : (a, v) ∈ s) : v = (c a : Int) := by
  have := (get?_eq_some_iff_mem s h.1 a v).mpr hm
  have h2 := h.2 a
  rw [this] at h2
  simpa using h2

theorem Reads.mem_of_pos {s : AList Nat Int} {c : Nat → Nat} (h : Reads s c) {a : Nat}
    (hp : 1 ≤ c a) : (a, (c a : Int)) ∈ s := by
  have h2 := h.2 a
  cases hg : s.get? a with
  | none => rw [hg] at h2; simp at h2; omega
  | some v =>
    rw [hg] at h2
    simp at h2
    subst h2
    exact (get?_eq_some_iff_mem s h.1 a _).mp hg

/-- `max(scores.values()) < q + 1` (with the `getD 0` of the model) iff no alternative reaches
`q + 1` -/
theorem maxValue_lt_iff {s : AList Nat Int} {c : Nat → Nat} (h : Reads s c) (alts : List Nat)
    (halts : ∀ a, 1 ≤ c a → a ∈ alts) (q : Nat) :
    ((maxValue s).getD 0 < (q : Int) + 1) ↔
      alts.any (fun a => decide (c a ≥ q + 1)) = false := by
  rw [List.any_eq_false]
  simp only [decide_eq_true_eq]
  unfold maxValue AList.values
  cases hs : s with
  | nil =>
    subst hs
    simp only [List.map_nil, Option.getD_none]
    constructor
    · intro _ a _ hc
      have := h.2 a
      simp [get?_nil] at this
      omega
    · intro _; omega
  | cons e s' =>
    simp only [List.map_cons, Option.getD_some]
    obtain ⟨h1, h2⟩ := foldl_max_spec (s'.map (·.2)) e.2
    constructor
    · intro hlt a _ hc
      have hm : (a, (c a : Int)) ∈ s := h.mem_of_pos (by omega)
      have : (c a : Int) ∈ e.2 :: s'.map (·.2) := by
        have := snd_mem_of_mem hm
        rw [hs] at this
        simpa using this
      have := h1 _ this
      omega
    · intro hall
      have hmem : List.foldl max e.2 (s'.map (·.2)) ∈ (e :: s').map (·.2) := by simpa using h2
      obtain ⟨⟨a, v⟩, hm, hv⟩ := List.mem_map.mp hmem
      rw [← hs] at hm
      have hva := h.mem hm
      simp only at hv
      rw [← hv, hva]
      by_cases hc : c a ≥ q + 1
      · exact absurd hc (hall a (halts a (by omega)))
      · omega

/-- `argmaxKeys` of a table reading `c` is the arg-max set of `c` over the alternatives -/
theorem argmaxKeys_reads {s : AList Nat Int} {c : Nat → Nat} (h : Reads s c) (alts : List Nat)
    (halts : ∀ a, 1 ≤ c a → a ∈ alts) (hpos : ∃ a0, 1 ≤ c a0) :
    ∃ ws, argmaxKeys s = some ws ∧ ∀ a, a ∈ ws ↔ a ∈ argmaxSet alts c := by
  obtain ⟨a0, ha0⟩ := hpos
  have hm0 : (a0, (c a0 : Int)) ∈ s := h.mem_of_pos ha0
  unfold argmaxKeys
  cases hs : s with
  | nil => rw [hs] at hm0; simp at hm0
  | cons e s' =>
    simp only [List.map_cons]
    refine ⟨_, rfl, ?_⟩
    obtain ⟨h1, h2⟩ := foldl_max_spec (s'.map (·.2)) e.2
    generalize hbest : List.foldl max e.2 (s'.map (·.2)) = best at h1 h2
    rw [← hs]
    have hle : ∀ a v, (a, v) ∈ s → v ≤ best := by
      intro a v hm
      apply h1
      have := snd_mem_of_mem hm
      rw [hs] at this
      simpa using this
    obtain ⟨⟨b, vb⟩, hbm, hbv⟩ : ∃ e' ∈ s, e'.2 = best := by
      have : best ∈ (e :: s').map (·.2) := by simpa using h2
      rw [← hs] at this
      obtain ⟨e', hm, hv⟩ := List.mem_map.mp this
      exact ⟨e', hm, hv⟩
    simp only at hbv
    subst hbv
    have hvb := h.mem hbm
    have hb1 : 1 ≤ c b := by
      have := hle _ _ hm0
      omega
    intro a
    unfold argmaxSet
    simp only [List.mem_map, List.mem_filter, beq_iff_eq, List.all_eq_true, decide_eq_true_eq]
    constructor
    · rintro ⟨⟨a', v⟩, ⟨hm, hv⟩, rfl⟩
      simp only at hv ⊢
      have hva := h.mem hm
      have ha1 : 1 ≤ c a' := by omega
      refine ⟨halts _ ha1, ?_⟩
      intro x _
      by_cases hx : 1 ≤ c x
      · have := hle _ _ (h.mem_of_pos hx)
        omega
      · omega
    · rintro ⟨_, hall⟩
      have hba := hall b (halts b hb1)
      have ha1 : 1 ≤ c a := by omega
      have hma := h.mem_of_pos ha1
      have := hle _ _ hma
      refine ⟨(a, (c a : Int)), ⟨hma, ?_⟩, rfl⟩
      simp only
      omega

end PrefVerif.C14
