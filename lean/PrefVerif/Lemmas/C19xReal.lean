import PrefVerif.Props.C19
import PrefVerif.Props.C04Complete
import PrefVerif.Lemmas.C19xRat
/-!
# C19x helper lemmas, part 2: reading an embedding order by order; stored left to right ⇒ single-crossing
-/
namespace PrefVerif.C19x
open PrefVerif PrefVerif.Euclid PrefVerif.Spec

/-- the voter at `v` ranks the alternatives `alts` (placed by `x`) as the order `o` does -/
def Rep (alts : List Nat) (x : Nat → Rat) (o : List Nat) (v : Rat) : Prop :=
  ∀ a ∈ alts, ∀ b ∈ alts, (o.idxOf a < o.idxOf b ↔ Euclid.dist v (x a) < Euclid.dist v (x b))

theorem rep_of_realises (alts : List Nat) (orders : List (List Nat)) (voters : List Rat) (x : Nat → Rat)
    (hord : ∀ o ∈ orders, o.Perm alts)
    (hreal : Spec.Euclid.realises orders voters (alts.map (fun a => (a, x a))) = true)
    (i : Nat) (hi : i < orders.length) (hv : i < voters.length) : Rep alts x orders[i] voters[i] := by
  have hp : orders[i].Perm alts := hord _ (List.getElem_mem hi)
  have key : ∀ a ∈ alts, ∀ b ∈ alts, orders[i].idxOf a < orders[i].idxOf b →
      Euclid.dist voters[i] (x a) < Euclid.dist voters[i] (x b) := fun a ha b hb hlt =>
    C19.closer_of_realises orders voters _ hreal i hi hv a b (hp.mem_iff.2 hb) hlt (x a) (x b)
      (C19.lookup_axis_map alts x a ha) (C19.lookup_axis_map alts x b hb)
  intro a ha b hb
  refine ⟨key a ha b hb, fun hd => ?_⟩
  by_cases hab : a = b
  · subst hab; exact absurd rfl (dist_irrefl _ _ _ hd)
  · have := C19.idxOf_ne_of_ne orders[i] a b (hp.mem_iff.2 ha) (hp.mem_iff.2 hb) hab
    rcases Nat.lt_or_gt_of_ne this with h | h
    · exact h
    · exact absurd (key b hb a ha h) (dist_asymm _ _ _ hd)

theorem Rep.total {alts : List Nat} {x : Nat → Rat} {o : List Nat} {v : Rat} (h : Rep alts x o v)
    (hp : o.Perm alts) {a b : Nat} (ha : a ∈ alts) (hb : b ∈ alts) (hab : a ≠ b) :
    Euclid.dist v (x a) < Euclid.dist v (x b) ∨ Euclid.dist v (x b) < Euclid.dist v (x a) := by
  have := C19.idxOf_ne_of_ne o a b (hp.mem_iff.2 ha) (hp.mem_iff.2 hb) hab
  rcases Nat.lt_or_gt_of_ne this with h' | h'
  · exact Or.inl ((h a ha b hb).1 h')
  · exact Or.inr ((h b hb a ha).1 h')

theorem Rep.inj {alts : List Nat} {x : Nat → Rat} {o : List Nat} {v : Rat} (h : Rep alts x o v)
    (hp : o.Perm alts) {a b : Nat} (ha : a ∈ alts) (hb : b ∈ alts) (hab : a ≠ b) : x a ≠ x b := by
  rcases h.total hp ha hb hab with h' | h'
  · exact dist_irrefl _ _ _ h'
  · exact (dist_irrefl _ _ _ h').symm

theorem headD_mem {o alts : List Nat} (hp : o.Perm alts) (hne : alts ≠ []) : o.headD 0 ∈ alts := by
  cases o with
  | nil => exact absurd hp.symm.eq_nil hne
  | cons c rest => exact hp.mem_iff.1 (by simp)

/-- the top of an order is the alternative nearest to the voter -/
theorem Rep.top {alts : List Nat} {x : Nat → Rat} {o : List Nat} {v : Rat} (h : Rep alts x o v)
    (hp : o.Perm alts) (hne : alts ≠ []) {c : Nat} (hc : c ∈ alts) :
    Euclid.dist v (x (o.headD 0)) ≤ Euclid.dist v (x c) := by
  cases o with
  | nil => exact absurd hp.symm.eq_nil hne
  | cons t rest =>
    simp only [List.headD_cons]
    by_cases e : t = c
    · subst e; exact Rat.le_refl
    · have ht : t ∈ alts := hp.mem_iff.1 (by simp)
      have : (t :: rest).idxOf t < (t :: rest).idxOf c := by
        rw [List.idxOf_cons, List.idxOf_cons]
        have : (t == c) = false := by simpa using e
        simp [this]
      exact Rat.le_of_lt ((h t ht c hc).1 this)

/-- two rankings of the same alternatives that order every pair alike are equal -/
theorem eq_of_same_order (alts o1 o2 : List Nat) (h1 : SameRanking alts o1) (h2 : SameRanking alts o2)
    (h : ∀ a ∈ alts, ∀ b ∈ alts, o1.idxOf a < o1.idxOf b → o2.idxOf a < o2.idxOf b) : o1 = o2 := by
  have hs : SameRanking o1 o2 := h1.symm.trans h2
  rw [← C20.kt_eq_zero_iff o1 o2 hs, C04.kt_eq_dis_univ o2 h1]
  unfold dis
  rw [List.countP_eq_zero]
  intro p hp
  obtain ⟨hp1, hp2⟩ := C20.mem_pairs.1 hp
  simp only [before, Bool.and_eq_true, decide_eq_true_eq, not_and]
  intro hlt
  have := h _ hp1 _ hp2 hlt
  omega

theorem sameRanking_of_perm {alts o : List Nat} (halts : alts.Nodup) (hp : o.Perm alts) : SameRanking alts o :=
  ⟨halts, hp.nodup_iff.2 halts, fun _ => hp.mem_iff.symm⟩

/-- two voters at the same place have the same ranking -/
theorem eq_of_rep (alts : List Nat) (x : Nat → Rat) (o1 o2 : List Nat) (v : Rat) (halts : alts.Nodup)
    (hp1 : o1.Perm alts) (hp2 : o2.Perm alts) (h1 : Rep alts x o1 v) (h2 : Rep alts x o2 v) : o1 = o2 :=
  eq_of_same_order alts o1 o2 (sameRanking_of_perm halts hp1) (sameRanking_of_perm halts hp2)
    (fun a ha b hb hlt => (h2 a ha b hb).2 ((h1 a ha b hb).1 hlt))

/-! ### single-crossing -/

theorem switches_le_one_of_mono (a b : Nat) (c : Bool) (s : List (List Nat))
    (h : s.Pairwise (fun o1 o2 => prefers o2 a b = c → prefers o1 a b = c)) : switches a b s ≤ 1 := by
  induction s with
  | nil => simp [switches]
  | cons o1 s ih =>
    cases s with
    | nil => simp [switches]
    | cons o2 l =>
      obtain ⟨h1, h2⟩ := List.pairwise_cons.1 h
      rw [C04.switches_cons_cons]
      by_cases e : prefers o1 a b = prefers o2 a b
      · simp only [e, bne_self_eq_false, Bool.false_eq_true, if_false, Nat.zero_add]
        exact ih h2
      · have hb : (prefers o1 a b != prefers o2 a b) = true := by simpa using e
        have h2c : prefers o2 a b ≠ c := fun e2 => e ((h1 o2 (by simp) e2).trans e2.symm)
        have : switches a b (o2 :: l) = 0 := by
          rw [C04.switches_eq_zero_iff]
          intro p hp
          have hpc : prefers p a b ≠ c := fun e2 => h2c ((List.pairwise_cons.1 h2).1 p hp e2)
          revert hpc h2c
          cases prefers p a b <;> cases prefers o2 a b <;> cases c <;> simp
        simp only [hb, if_true, this]
        omega

theorem sc_of_stored (alts : List Nat) (orders : List (List Nat)) (voters : List Rat) (x : Nat → Rat)
    (hord : ∀ o ∈ orders, o.Perm alts) (hlen : voters.length = orders.length)
    (hrep : ∀ i (hi : i < orders.length) (hv : i < voters.length), Rep alts x orders[i] voters[i])
    (hmono : voters.Pairwise (· ≤ ·)) : SCSeq alts orders := by
  intro a ha b hb hab
  have mono : ∀ i j (hij : i < j) (hj : j < orders.length), voters[i]'(by omega) ≤ voters[j]'(by omega) :=
    fun i j hij hj => List.pairwise_iff_getElem.1 hmono i j (by omega) (by omega) hij
  by_cases h0 : orders.length = 0
  · rw [List.length_eq_zero_iff.1 h0]; simp [switches]
  have hx : x a ≠ x b :=
    (hrep 0 (by omega) (by omega)).inj (hord _ (List.getElem_mem _)) ha hb hab
  rcases (show x a < x b ∨ x b < x a by grind) with hlt | hgt
  · apply switches_le_one_of_mono a b true
    rw [List.pairwise_iff_getElem]
    intro i j hi hj hij hp
    simp only [prefers, decide_eq_true_eq] at hp ⊢
    have r1 := hrep i hi (by omega)
    have r2 := hrep j hj (by omega)
    exact (r1 a ha b hb).2 (closer_mono_left _ _ _ _ (mono i j hij hj) hlt ((r2 a ha b hb).1 hp))
  · apply switches_le_one_of_mono a b false
    rw [List.pairwise_iff_getElem]
    intro i j hi hj hij hp
    simp only [prefers, decide_eq_false_iff_not] at hp ⊢
    have r1 := hrep i hi (by omega)
    have r2 := hrep j hj (by omega)
    have hpj : orders[j].Perm alts := hord _ (List.getElem_mem hj)
    have hne := C19.idxOf_ne_of_ne orders[j] a b (hpj.mem_iff.2 ha) (hpj.mem_iff.2 hb) hab
    have hd : Euclid.dist voters[j] (x b) < Euclid.dist voters[j] (x a) := (r2 b hb a ha).1 (by omega)
    have := closer_mono_left _ _ _ _ (mono i j hij hj) hgt hd
    intro hc
    exact dist_asymm _ _ _ this ((r1 a ha b hb).1 hc)

end PrefVerif.C19x
