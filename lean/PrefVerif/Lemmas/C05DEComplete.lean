import PrefVerif.Lemmas.C05DESound
/-!
# C05 helper lemmas, part 16: dichotomous Euclidean — any embedding on the line yields a candidate
interval order (sort the alternatives by position); the recogniser's specification
-/
namespace PrefVerif.C05
open PrefVerif PrefVerif.Dichotomous PrefVerif.Spec PrefVerif.Spec.Approval

theorem de_complete (alts : List Nat) (hn : alts.Nodup) (approved : List (List Nat))
    (voters : List (Int × Int)) (altPos : List (Nat × Nat))
    (h : deWitness alts approved voters altPos = true) :
    ∃ order : List Nat, order.Perm alts ∧ ∀ s ∈ approved, Interval (fun a => a ∈ s) order := by
  rw [deWitness_iff] at h
  obtain ⟨hlen, hn1, _, hcov, hl, hw⟩ := h
  have hperm : (altPos.mergeSort (fun x y => decide (x.2 ≤ y.2))).Perm altPos := List.mergeSort_perm _ _
  have hsorted : (altPos.mergeSort (fun x y => decide (x.2 ≤ y.2))).Pairwise
      (fun x y => decide (x.2 ≤ y.2) = true) :=
    List.pairwise_mergeSort (le := fun x y => decide (x.2 ≤ y.2))
      (fun a b c h1 h2 => by simp only [decide_eq_true_eq] at h1 h2 ⊢; omega)
      (fun a b => by simp only [Bool.or_eq_true, decide_eq_true_eq]; omega) altPos
  generalize altPos.mergeSort (fun x y => decide (x.2 ≤ y.2)) = sorted at hperm hsorted
  refine ⟨sorted.map (·.1), ?_, ?_⟩
  · have h1 : (sorted.map (·.1)).Perm (altPos.map (·.1)) := hperm.map _
    have h2 : alts.Perm (altPos.map (·.1)) :=
      perm_of_nodup_subset_length _ _ hn hcov (by simp [hl])
    exact h1.trans h2.symm
  · intro s hs
    obtain ⟨i, hi, rfl⟩ := List.getElem_of_mem hs
    have hiv : i < voters.length := by omega
    have hmem : (approved[i], voters[i]) ∈ approved.zip voters :=
      List.mem_iff_getElem.2 ⟨i, by simp; omega, by simp⟩
    rw [interval_map]
    intro a b c hab hbc hc ha' hc'
    have hwa := hw _ hmem sorted[a] (hperm.subset (List.getElem_mem _))
    have hwb := hw _ hmem sorted[b] (hperm.subset (List.getElem_mem _))
    have hwc := hw _ hmem sorted[c] (hperm.subset (List.getElem_mem _))
    have hpw := List.pairwise_iff_getElem.1 hsorted
    have h1 := hpw a b (by omega) (by omega) hab
    have h2 := hpw b c (by omega) hc hbc
    simp only [decide_eq_true_eq] at h1 h2
    simp only at hwa hwb hwc ha' hc' ⊢
    rw [← hwb]
    have h3 := hwa.2 ha'
    have h4 := hwc.2 hc'
    omega

theorem dichotomousEuclidean_spec (solver : Solver) (hs : SolverOKI solver) (alts : List Nat)
    (hn : alts.Nodup) (approved : List (List Nat)) (hsub : ∀ s ∈ approved, ∀ a ∈ s, a ∈ alts) :
    (∀ v p, isDichotomousEuclidean solver alts approved = some (v, p) → deWitness alts approved v p = true) ∧
    (isDichotomousEuclidean solver alts approved = none →
        ¬ ∃ (v : List (Int × Int)) (p : List (Nat × Nat)), deWitness alts approved v p = true) := by
  obtain ⟨h1, h2⟩ := candidateInterval_spec solver hs alts hn approved
  rw [isDichotomousEuclidean_eq]
  constructor
  · intro v p hvp
    obtain ⟨order, ho, he⟩ := Option.map_eq_some_iff.1 hvp
    simp only [Prod.mk.injEq] at he
    obtain ⟨rfl, rfl⟩ := he
    have hw := (ciWitness_iff alts hn approved order).1 (h1 order ho)
    exact de_sound alts hn approved hsub order hw.1 hw.2
  · intro hnone
    have hci := Option.map_eq_none_iff.1 hnone
    rintro ⟨v, p, hw⟩
    obtain ⟨order, hp, hI⟩ := de_complete alts hn approved v p hw
    exact h2 hci ⟨order, (ciWitness_iff alts hn approved order).2 ⟨hp, hI⟩⟩

end PrefVerif.C05
