import PrefVerif.Lemmas.C12OptPlace
import PrefVerif.Lemmas.C12OptValley
/-!
# C12Opt, part 6: one step of the path — `place` on any stored axis with the boundary of the ideal axis
-/
namespace PrefVerif.C12Opt
open PrefVerif PrefVerif.KAlt PrefVerif.C12DP PrefVerif.C03 PrefVerif.C03c

theorem bndOf_eq {Fr' Sr' Fr Sr : List Nat} (h : bndOf Fr' Sr' = bndOf Fr Sr) :
    Fr'.tail.head? = Fr.tail.head? ∧ Fr'.head? = Fr.head? ∧ Sr'.head? = Sr.head? ∧
      Sr'.tail.head? = Sr.tail.head? := by
  unfold bndOf at h
  simp only [Prod.mk.injEq] at h
  exact h

theorem bndOf_cons_left {Fr' Sr' Fr Sr : List Nat} (h : bndOf Fr' Sr' = bndOf Fr Sr) (x : Nat) :
    bndOf (x :: Fr') Sr' = bndOf (x :: Fr) Sr := by
  obtain ⟨_, h2, h3, h4⟩ := bndOf_eq h
  simp [bndOf, h2, h3, h4]

theorem bndOf_cons_right {Fr' Sr' Fr Sr : List Nat} (h : bndOf Fr' Sr' = bndOf Fr Sr) (x : Nat) :
    bndOf Fr' (x :: Sr') = bndOf Fr (x :: Sr) := by
  obtain ⟨h1, h2, h3, _⟩ := bndOf_eq h
  simp [bndOf, h1, h2, h3]

/-- what the path needs from `place` -/
structure PlaceRes (orders : List (List Nat)) (S Fr M Sr Fr' Sr' X : List Nat) : Prop where
  ex : ∃ Fr2 M2 Sr2 Fr2' Sr2' b, place (shape Fr' Sr') X orders = (shape Fr2' Sr2', b) ∧
    bndOf Fr2' Sr2' = bndOf Fr2 Sr2 ∧
    Fr2'.length + Sr2'.length = Fr'.length + Sr'.length + X.length ∧
    Fr2.length + Sr2.length = Fr.length + Sr.length + X.length ∧
    Ideal orders S Fr2 M2 Sr2 ∧ (X ++ M2).Perm M ∧ (b = false → M2 = [])

theorem place_single (orders : List (List Nat)) (S Fr M Sr Fr' Sr' : List Nat) (x : Nat) (hS : S.Nodup)
    (hrank : ∀ o ∈ orders, ∀ a ∈ S, a ∈ o) (hI : Ideal orders S Fr M Sr)
    (hb : bndOf Fr' Sr' = bndOf Fr Sr) (hx : x ∈ M)
    (hw : ∀ o ∈ orders, ∀ m ∈ M, m ≠ x → lt o m x) :
    PlaceRes orders S Fr M Sr Fr' Sr' [x] := by
  obtain ⟨hne, M2, hperm, hid, hlock⟩ := single_step orders S Fr M Sr x hS hrank hI hx hw
  obtain ⟨_, e2, e3, _⟩ := bndOf_eq hb
  have hc := case3_shape orders Fr' Sr' x (by rw [hb]; exact hne)
  rw [e2, e3] at hc
  constructor
  by_cases hfd : orders.any (fun v => above v Fr.head? x) = true
  · rw [if_pos hfd] at hid hc
    refine ⟨Fr, M2, x :: Sr, Fr', x :: Sr', _, hc, bndOf_cons_right hb x, by simp; omega, by simp; omega,
      hid, hperm, ?_⟩
    intro hbf
    apply hlock
    simpa using hbf
  · rw [if_neg hfd] at hid hc
    refine ⟨x :: Fr, M2, Sr, x :: Fr', Sr', _, hc, bndOf_cons_left hb x, by simp; omega, by simp; omega,
      hid, hperm, ?_⟩
    intro hbf
    apply hlock
    simpa using hbf

theorem place_pair (orders : List (List Nat)) (S Fr M M' Sr Fr' Sr' : List Nat) (x1 x2 : Nat) (hS : S.Nodup)
    (hrank : ∀ o ∈ orders, ∀ a ∈ S, a ∈ o) (hI : Ideal orders S Fr M Sr)
    (hb : bndOf Fr' Sr' = bndOf Fr Sr)
    (hM : M = x1 :: (M' ++ [x2]) ∨ M = x2 :: (M' ++ [x1]))
    (hw : ∀ o ∈ orders, (∀ m ∈ M, m ≠ x1 → lt o m x1) ∨ (∀ m ∈ M, m ≠ x2 → lt o m x2)) :
    PlaceRes orders S Fr M Sr Fr' Sr' [x1, x2] := by
  obtain ⟨hne1, hne2, hgood, M2, hperm, hid⟩ := pair_step orders S Fr M M' Sr x1 x2 hS hrank hI hM hw
  obtain ⟨_, e2, e3, _⟩ := bndOf_eq hb
  have hc := case2_shape orders Fr' Sr' x1 x2 (by rw [hb]; exact hne1) (by rw [hb]; exact hne2)
    (by rw [e2, e3]; exact hgood)
  rw [e2, e3] at hc
  constructor
  by_cases hcd : (fC orders Sr.head? x2 x1 || fC orders Fr.head? x1 x2) = true
  · rw [if_pos hcd] at hid hc
    refine ⟨x2 :: Fr, M2, x1 :: Sr, x2 :: Fr', x1 :: Sr', true, hc, ?_, by simp; omega, by simp; omega,
      hid, hperm, by simp⟩
    exact bndOf_cons_right (bndOf_cons_left hb x2) x1
  · rw [if_neg hcd] at hid hc
    refine ⟨x1 :: Fr, M2, x2 :: Sr, x1 :: Fr', x2 :: Sr', true, hc, ?_, by simp; omega, by simp; omega,
      hid, hperm, by simp⟩
    exact bndOf_cons_right (bndOf_cons_left hb x1) x2

end PrefVerif.C12Opt
