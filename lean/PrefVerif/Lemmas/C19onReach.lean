import PrefVerif.Lemmas.C19xAxis
import PrefVerif.Lemmas.C19fixMirror
/-!
# C19x helper lemmas for an arbitrary arrangement `s` returned by the pre-check: a 1-Euclidean profile reaches
the LP of `Euclid.lpOn … true s` with a left-to-right axis (up to mirroring)
-/
namespace PrefVerif.C19x
open PrefVerif PrefVerif.Euclid PrefVerif.Spec

/-- with the two ends `v1`, `vn` of the arrangement `s` returned by the pre-check sitting at `u < w`, the
colouring stage succeeds and the axis handed to the LP lists the coloured alternatives from left to right -/
theorem reach_lpOn_geo (alts : List Nat) (orders s : List (List Nat)) (v1 vn : List Nat) (u w : Rat)
    (x : Nat → Rat) (halts : alts.Nodup)
    (hh : s.head? = some v1) (hl : s.getLast? = some vn)
    (G : Geo alts x v1 vn u w) :
    ∃ l, lpOn alts orders true s = some l ∧ l.axis.Pairwise (fun a b => x a < x b) := by
  obtain ⟨g, hg, hinv⟩ := colouring_some G
  have hst := C19.stageOn_coloured alts s _ _ g hh hl hg
  refine ⟨_, by unfold lpOn; rw [hst, hh, hl], ?_⟩
  exact axis_sorted G hinv halts

/-- a 1-Euclidean profile (distinct orders, ANY storage order) reaches the LP through the colouring stage
whatever arrangement `s` of its orders the pre-check returned, and the axis handed to the LP lists the
coloured alternatives from left to right either in the given embedding or in its mirror image -/
theorem reach_lpOn (alts : List Nat) (orders s : List (List Nat))
    (halts : alts.Nodup) (hord : ∀ o ∈ orders, o.Perm alts) (hnd : orders.Nodup)
    (h2 : 2 ≤ orders.length) (hperm : s.Perm orders) (voters : List Rat) (x : Nat → Rat)
    (hreal : Spec.Euclid.realises orders voters (alts.map (fun a => (a, x a))) = true) :
    ∃ l, lpOn alts orders true s = some l ∧
      (l.axis.Pairwise (fun a b => x a < x b) ∨ l.axis.Pairwise (fun a b => -x a < -x b)) := by
  have hlen : voters.length = orders.length := ((Specs.realises_iff _ _ _).1 hreal).1
  have hrep := rep_of_realises alts orders voters x hord hreal
  have hslen : s.length = orders.length := hperm.length_eq
  have hsnd : s.Nodup := hperm.nodup_iff.2 hnd
  have hlast : s.length - 1 < s.length := by omega
  have hh : s.head? = some (s[0]'(by omega)) := by
    rw [List.head?_eq_getElem?, List.getElem?_eq_getElem]
  have hl : s.getLast? = some (s[s.length - 1]) := by
    rw [List.getLast?_eq_getElem?, List.getElem?_eq_getElem]
  have hne1n : s[0]'(by omega) ≠ s[s.length - 1] :=
    List.pairwise_iff_getElem.1 hsnd 0 (s.length - 1) (by omega) hlast (by omega)
  obtain ⟨j1, hj1, e1⟩ := List.mem_iff_getElem.1 (hperm.mem_iff.1 (List.getElem_mem (show 0 < s.length by omega)))
  obtain ⟨jn, hjn, en⟩ := List.mem_iff_getElem.1 (hperm.mem_iff.1 (List.getElem_mem hlast))
  have p1 : (s[0]'(by omega)).Perm alts := e1 ▸ hord _ (List.getElem_mem hj1)
  have pn : (s[s.length - 1]).Perm alts := en ▸ hord _ (List.getElem_mem hjn)
  have r1 : Rep alts x (s[0]'(by omega)) (voters[j1]'(by omega)) := e1 ▸ hrep j1 hj1 (by omega)
  have rn : Rep alts x (s[s.length - 1]) (voters[jn]'(by omega)) := en ▸ hrep jn hjn (by omega)
  have hne : alts ≠ [] := by
    intro e
    apply hne1n
    rw [e] at p1 pn
    rw [p1.eq_nil, pn.eq_nil]
  have hneq : voters[j1]'(by omega) ≠ voters[jn]'(by omega) := by
    intro e
    rw [e] at r1
    exact hne1n (eq_of_rep alts x _ _ _ halts p1 pn r1 rn)
  rcases (show voters[j1]'(by omega) < voters[jn]'(by omega) ∨ voters[jn]'(by omega) < voters[j1]'(by omega) by
    grind) with hlt | hgt
  · obtain ⟨l, hlp, hax⟩ := reach_lpOn_geo alts orders s _ _ _ _ x halts hh hl ⟨hne, p1, pn, r1, rn, hlt⟩
    exact ⟨l, hlp, Or.inl hax⟩
  · obtain ⟨l, hlp, hax⟩ := reach_lpOn_geo alts orders s _ _ _ _ (fun a => -x a) halts hh hl
      ⟨hne, p1, pn, r1.mirror, rn.mirror, by grind⟩
    exact ⟨l, hlp, Or.inr hax⟩

end PrefVerif.C19x
