import PrefVerif.Lemmas.C11Order
import PrefVerif.Lemmas.C05Reduce
/-!
# C11 helper lemmas, part 3: the rows of the consecutive-ones matrix

A row is the set of column indices of the union of the best classes of one voter; relabelling the
columns by the alternatives' names transports contiguity.
-/
namespace PrefVerif.C11
open PrefVerif PrefVerif.SinglePeakedAxis PrefVerif.Spec PrefVerif.C05

theorem mem_consOnesRows (alts : List Nat) (orders : List Order) (r : List Nat) :
    r ∈ consOnesRows alts orders ↔
      ∃ o ∈ orders, ∃ lvl, lvl < o.length ∧ r = (topClasses o (lvl + 1)).map (fun a => alts.idxOf a) := by
  simp only [consOnesRows, List.mem_flatMap, List.mem_map, List.mem_range, topClasses]
  constructor
  · rintro ⟨o, ho, lvl, hl, rfl⟩; exact ⟨o, ho, lvl, hl, rfl⟩
  · rintro ⟨o, ho, lvl, hl, rfl⟩; exact ⟨o, ho, lvl, hl, rfl⟩

/-- the set of column indices of a set of alternatives, read on a column order, versus the set
itself read on the corresponding axis of alternatives -/
theorem contiguous_relabel (alts : List Nat) (hn : alts.Nodup) (ord : List Nat)
    (hp : ord.Perm (List.range alts.length)) (T : List Nat) (hT : ∀ a ∈ T, a ∈ alts) :
    Contiguous ord (T.map (fun a => alts.idxOf a)) ↔ Contiguous (ord.map (fun i => alts.getD i 0)) T := by
  rw [contiguous_def_iff, contiguous_def_iff, interval_relabel alts ord hp]
  have hc : ∀ c ∈ ord, (c ∈ T.map (fun a => alts.idxOf a) ↔ ∃ h : c < alts.length, alts[c] ∈ T) := by
    intro c hc
    have hlt : c < alts.length := by simpa using hp.subset hc
    constructor
    · intro hm
      obtain ⟨a, ha, hac⟩ := List.mem_map.1 hm
      refine ⟨hlt, ?_⟩
      have hlt' : alts.idxOf a < alts.length := List.idxOf_lt_length_of_mem (hT a ha)
      have : alts[alts.idxOf a] = a := List.getElem_idxOf hlt'
      subst hac
      rw [this]; exact ha
    · rintro ⟨_, hm⟩
      exact List.mem_map.2 ⟨alts[c], hm, hn.idxOf_getElem c hlt⟩
  exact ⟨fun h => h.congr hc, fun h => h.congr (fun c hcm => (hc c hcm).symm)⟩

theorem consOnes_iff_core (alts : List Nat) (hn : alts.Nodup) (orders : List Order)
    (ho : ∀ o ∈ orders, ∀ a ∈ o.flatten, a ∈ alts) (ord : List Nat)
    (hp : ord.Perm (List.range alts.length)) :
    (∀ r ∈ consOnesRows alts orders, Contiguous ord r) ↔
      SPOnAxis orders (ord.map (fun i => alts.getD i 0)) := by
  unfold SPOnAxis
  constructor
  · intro h o hoo
    rw [forall_topClasses_iff_succ (fun S => Contiguous _ S) (contiguous_nil _)]
    intro lvl hl
    rw [← contiguous_relabel alts hn ord hp _
      (fun a ha => ho o hoo a (mem_flatten_of_mem_topClasses ha))]
    exact h _ ((mem_consOnesRows alts orders _).2 ⟨o, hoo, lvl, hl, rfl⟩)
  · intro h r hr
    obtain ⟨o, hoo, lvl, _, rfl⟩ := (mem_consOnesRows alts orders r).1 hr
    rw [contiguous_relabel alts hn ord hp _
      (fun a ha => ho o hoo a (mem_flatten_of_mem_topClasses ha))]
    exact h o hoo _

end PrefVerif.C11
