import PrefVerif.Model.Dichotomous
import PrefVerif.Spec.Approval
/-!
# C05 helper lemmas, part 4: `is_part` / `is_2_part`
-/
namespace PrefVerif.C05
open PrefVerif PrefVerif.Dichotomous PrefVerif.Spec

def SameSet (a b : List Nat) : Prop := ∀ x, x ∈ a ↔ x ∈ b
def Disj (a b : List Nat) : Prop := ∀ x ∈ a, x ∉ b

theorem sameSet_eq : Approval.sameSet = Dichotomous.sameSet := rfl

theorem sameSet_iff (a b : List Nat) : Dichotomous.sameSet a b = true ↔ SameSet a b := by
  simp only [Dichotomous.sameSet, SameSet, Bool.and_eq_true, List.all_eq_true, List.contains_iff_mem]
  exact ⟨fun h x => ⟨h.1 x, h.2 x⟩, fun h => ⟨fun x => (h x).1, fun x => (h x).2⟩⟩

theorem disjoint_iff (a b : List Nat) : Dichotomous.disjoint a b = true ↔ Disj a b := by
  simp [Dichotomous.disjoint, Disj]

theorem all_not_contains_iff (a b : List Nat) : a.all (fun x => !b.contains x) = true ↔ Disj a b := by
  simp [Disj]

theorem SameSet.refl (a : List Nat) : SameSet a a := fun _ => Iff.rfl
theorem SameSet.symm {a b : List Nat} (h : SameSet a b) : SameSet b a := fun x => (h x).symm
theorem SameSet.trans {a b c : List Nat} (h : SameSet a b) (h' : SameSet b c) : SameSet a c :=
  fun x => (h x).trans (h' x)
theorem Disj.symm {a b : List Nat} (h : Disj a b) : Disj b a := fun x hb ha => h x ha hb
theorem Disj.congr {a b a' b' : List Nat} (h : Disj a b) (ha : SameSet a a') (hb : SameSet b b') : Disj a' b' :=
  fun x hx hx' => h x ((ha x).2 hx) ((hb x).2 hx')

/-! ### the inner loop -/

theorem go_some_true (app : List Nat) (parts : List (List Nat)) (h : isPart.go app parts = some true) :
    ∃ s ∈ parts, SameSet s app := by
  induction parts with
  | nil => simp [isPart.go] at h
  | cons s rest ih =>
    simp only [isPart.go] at h
    split at h
    · next hs => exact ⟨s, by simp, (sameSet_iff _ _).1 hs⟩
    · split at h
      · simp at h
      · obtain ⟨t, ht, hst⟩ := ih h
        exact ⟨t, by simp [ht], hst⟩

theorem go_some_false (app : List Nat) (parts : List (List Nat)) (h : isPart.go app parts = some false) :
    ∀ s ∈ parts, ¬ SameSet s app ∧ Disj app s := by
  induction parts with
  | nil => simp
  | cons s rest ih =>
    simp only [isPart.go] at h
    split at h
    · simp at h
    · next hs =>
      split at h
      · simp at h
      · next hd =>
        intro t ht
        rcases List.mem_cons.1 ht with rfl | ht
        · refine ⟨fun hh => hs ((sameSet_iff _ _).2 hh), (disjoint_iff _ _).1 ?_⟩
          simpa using hd
        · exact ih h t ht

theorem go_none (app : List Nat) (parts : List (List Nat)) (h : isPart.go app parts = none) :
    ∃ s ∈ parts, ¬ SameSet s app ∧ ¬ Disj app s := by
  induction parts with
  | nil => simp [isPart.go] at h
  | cons s rest ih =>
    simp only [isPart.go] at h
    split at h
    · simp at h
    · next hs =>
      split at h
      · next hd =>
        refine ⟨s, by simp, fun hh => hs ((sameSet_iff _ _).2 hh), fun hh => ?_⟩
        have := (disjoint_iff _ _).2 hh
        simp [this] at hd
      · obtain ⟨t, ht, hst⟩ := ih h
        exact ⟨t, by simp [ht], hst⟩

/-! ### the outer loop -/

def partStep (acc : Option (List (List Nat))) (app : List Nat) : Option (List (List Nat)) :=
  match acc with
  | none => none
  | some parts =>
    match isPart.go app parts with
    | none => none
    | some true => some parts
    | some false => some (parts ++ [app])

theorem isPart_eq (approved : List (List Nat)) : isPart approved = approved.foldl partStep (some []) := rfl

theorem foldl_partStep_none (l : List (List Nat)) : l.foldl partStep none = none := by
  induction l with
  | nil => rfl
  | cons a l ih => simpa [partStep] using ih

def distinctStep (acc : List (List Nat)) (s : List Nat) : List (List Nat) :=
  if acc.any (Approval.sameSet s) then acc else acc ++ [s]

theorem distinctSets_eq (l : List (List Nat)) : Approval.distinctSets l = l.foldl distinctStep [] := rfl

theorem distinctSets_append_singleton (l : List (List Nat)) (s : List Nat) :
    Approval.distinctSets (l ++ [s]) = distinctStep (Approval.distinctSets l) s := by
  simp [distinctSets_eq, List.foldl_append]

structure PartInv (pre parts : List (List Nat)) : Prop where
  cover : ∀ s ∈ pre, ∃ t ∈ parts, SameSet s t
  sub : ∀ t ∈ parts, t ∈ pre
  pw : parts.Pairwise Disj
  eq : parts = Approval.distinctSets pre

theorem PartInv.nil : PartInv [] [] := ⟨by simp, by simp, List.Pairwise.nil, rfl⟩

theorem PartInv.keep {pre parts : List (List Nat)} (h : PartInv pre parts) (app : List Nat)
    (hg : isPart.go app parts = some true) : PartInv (pre ++ [app]) parts := by
  obtain ⟨s, hs, hsa⟩ := go_some_true app parts hg
  refine ⟨?_, fun t ht => by simp [h.sub t ht], h.pw, ?_⟩
  · intro u hu
    rcases List.mem_append.1 hu with hu | hu
    · exact h.cover u hu
    · simp only [List.mem_singleton] at hu; subst hu; exact ⟨s, hs, hsa.symm⟩
  · rw [distinctSets_append_singleton, ← h.eq, distinctStep]
    have : parts.any (Approval.sameSet app) = true := by
      rw [List.any_eq_true]; exact ⟨s, hs, by rw [sameSet_eq]; exact (sameSet_iff _ _).2 hsa.symm⟩
    simp [this]

theorem PartInv.add {pre parts : List (List Nat)} (h : PartInv pre parts) (app : List Nat)
    (hg : isPart.go app parts = some false) : PartInv (pre ++ [app]) (parts ++ [app]) := by
  have hf := go_some_false app parts hg
  refine ⟨?_, ?_, ?_, ?_⟩
  · intro u hu
    rcases List.mem_append.1 hu with hu | hu
    · obtain ⟨t, ht, hut⟩ := h.cover u hu
      exact ⟨t, by simp [ht], hut⟩
    · simp only [List.mem_singleton] at hu; subst hu; exact ⟨u, by simp, SameSet.refl _⟩
  · intro t ht
    rcases List.mem_append.1 ht with ht | ht
    · simp [h.sub t ht]
    · simp only [List.mem_singleton] at ht; simp [ht]
  · rw [List.pairwise_append]
    refine ⟨h.pw, List.pairwise_singleton _ _, ?_⟩
    intro a ha b hb
    simp only [List.mem_singleton] at hb; subst hb
    exact (hf a ha).2.symm
  · rw [distinctSets_append_singleton, ← h.eq, distinctStep]
    have : parts.any (Approval.sameSet app) = false := by
      rw [List.any_eq_false]
      intro s hs hsa
      rw [sameSet_eq] at hsa
      exact (hf s hs).1 ((sameSet_iff _ _).1 hsa).symm
    simp [this]

/-- a pair of approval sets that overlap without being equal -/
def Clash (l : List (List Nat)) : Prop := ∃ s ∈ l, ∃ t ∈ l, ¬ SameSet s t ∧ ¬ Disj s t

theorem foldl_partStep_spec (rest pre parts : List (List Nat)) (h : PartInv pre parts) :
    (∀ parts', rest.foldl partStep (some parts) = some parts' → PartInv (pre ++ rest) parts') ∧
    (rest.foldl partStep (some parts) = none → Clash (pre ++ rest)) := by
  induction rest generalizing pre parts with
  | nil =>
    constructor
    · intro parts' hp; simp at hp; subst hp; simpa using h
    · intro hp; simp at hp
  | cons app rest ih =>
    rw [List.foldl_cons]
    have happ : pre ++ app :: rest = (pre ++ [app]) ++ rest := by simp
    rw [happ]
    cases hg : isPart.go app parts with
    | none =>
      have hstep : partStep (some parts) app = none := by simp [partStep, hg]
      rw [hstep, foldl_partStep_none]
      refine ⟨fun _ hp => by simp at hp, fun _ => ?_⟩
      obtain ⟨s, hs, h1, h2⟩ := go_none app parts hg
      exact ⟨s, by simp [h.sub s hs], app, by simp, h1, fun hd => h2 hd.symm⟩
    | some b =>
      cases b with
      | true =>
        have hstep : partStep (some parts) app = some parts := by simp [partStep, hg]
        rw [hstep]; exact ih _ _ (h.keep app hg)
      | false =>
        have hstep : partStep (some parts) app = some (parts ++ [app]) := by simp [partStep, hg]
        rw [hstep]; exact ih _ _ (h.add app hg)

theorem isPart_spec (approved : List (List Nat)) :
    (∀ parts, isPart approved = some parts → PartInv approved parts) ∧
    (isPart approved = none → Clash approved) := by
  have := foldl_partStep_spec approved [] [] PartInv.nil
  simpa [isPart_eq] using this

/-! ### the specifications -/

theorem isPartition_iff (l : List (List Nat)) :
    Approval.isPartition l = true ↔ ∀ s ∈ l, ∀ t ∈ l, SameSet s t ∨ Disj s t := by
  simp only [Approval.isPartition, List.all_eq_true, Bool.or_eq_true, sameSet_eq, sameSet_iff]
  constructor
  · intro h s hs t ht
    rcases h s hs t ht with h1 | h1
    · exact Or.inl h1
    · exact Or.inr ((all_not_contains_iff _ _).1 (List.all_eq_true.2 h1))
  · intro h s hs t ht
    rcases h s hs t ht with h1 | h1
    · exact Or.inl h1
    · exact Or.inr (List.all_eq_true.1 ((all_not_contains_iff _ _).2 h1))

theorem Clash.not_isPartition {l : List (List Nat)} (h : Clash l) : Approval.isPartition l = false := by
  obtain ⟨s, hs, t, ht, h1, h2⟩ := h
  cases hp : Approval.isPartition l with
  | false => rfl
  | true => rcases (isPartition_iff l).1 hp s hs t ht with h3 | h3 <;> contradiction

theorem pairwise_mem_cases {α : Type} {R : α → α → Prop} {l : List α} (h : l.Pairwise R) :
    ∀ a ∈ l, ∀ b ∈ l, a = b ∨ R a b ∨ R b a := by
  induction l with
  | nil => simp
  | cons x l ih =>
    rw [List.pairwise_cons] at h
    intro a ha b hb
    rcases List.mem_cons.1 ha with rfl | ha' <;> rcases List.mem_cons.1 hb with rfl | hb'
    · exact Or.inl rfl
    · exact Or.inr (Or.inl (h.1 b hb'))
    · exact Or.inr (Or.inr (h.1 a ha'))
    · exact ih h.2 a ha' b hb'

theorem PartInv.isPartition {pre parts : List (List Nat)} (h : PartInv pre parts) :
    Approval.isPartition pre = true := by
  rw [isPartition_iff]
  intro s hs t ht
  obtain ⟨p, hp, hsp⟩ := h.cover s hs
  obtain ⟨q, hq, htq⟩ := h.cover t ht
  rcases pairwise_mem_cases h.pw p hp q hq with rfl | hd | hd
  · exact Or.inl (hsp.trans htq.symm)
  · exact Or.inr (hd.congr hsp.symm htq.symm)
  · exact Or.inr (hd.symm.congr hsp.symm htq.symm)

theorem PartInv.partWitness {pre parts : List (List Nat)} (h : PartInv pre parts) :
    Approval.partWitness pre parts = true := by
  simp only [Approval.partWitness, Bool.and_eq_true, List.all_eq_true, List.any_eq_true, sameSet_eq,
    sameSet_iff, Bool.or_eq_true, beq_iff_eq]
  refine ⟨⟨h.cover, fun p hp => ⟨p, h.sub p hp, SameSet.refl p⟩⟩, ?_⟩
  rintro ⟨p, i⟩ hpi ⟨q, j⟩ hqj
  by_cases hij : i = j
  · exact Or.inl hij
  · right
    apply List.all_eq_true.1
    rw [all_not_contains_iff]
    rw [List.mem_zipIdx_iff_getElem?] at hpi hqj
    simp only at hpi hqj
    obtain ⟨hi, rfl⟩ := List.getElem?_eq_some_iff.1 hpi
    obtain ⟨hj, rfl⟩ := List.getElem?_eq_some_iff.1 hqj
    have hpw := List.pairwise_iff_getElem.1 h.pw
    rcases Nat.lt_or_gt_of_ne hij with hlt | hlt
    · exact hpw i j hi hj hlt
    · exact (hpw j i hj hi hlt).symm

end PrefVerif.C05
