import PrefVerif.Spec.NearlySP
import PrefVerif.Lemmas.C05Perm
/-!
# Specs helper lemmas, part 1: `sublists`, maxima of lengths, the trivial feasible points of the
deletion optima
-/
namespace PrefVerif.Specs
open PrefVerif PrefVerif.Spec PrefVerif.Spec.Nearly

theorem mem_sublists' {α : Type} (l : List α) : ∀ s : List α, s ∈ sublists l ↔ s.Sublist l := by
  induction l with
  | nil => intro s; simp [sublists]
  | cons x xs ih =>
    intro s
    simp only [sublists, List.mem_append, List.mem_map, ih, List.sublist_cons_iff]
    constructor
    · rintro (h | ⟨t, ht, rfl⟩)
      · exact Or.inl h
      · exact Or.inr ⟨t, rfl, ht⟩
    · rintro (h | ⟨t, rfl, ht⟩)
      · exact Or.inl h
      · exact Or.inr ⟨t, ht, rfl⟩

/-! ### `foldl max` -/

theorem le_foldl_max (L : List Nat) : ∀ a : Nat, a ≤ L.foldl max a := by
  induction L with
  | nil => intro a; exact Nat.le_refl _
  | cons n L ih => intro a; exact Nat.le_trans (Nat.le_max_left a n) (ih (max a n))

theorem le_foldl_max_of_mem (L : List Nat) : ∀ a : Nat, ∀ n ∈ L, n ≤ L.foldl max a := by
  induction L with
  | nil => intro a n hn; simp at hn
  | cons m L ih =>
    intro a n hn
    rcases List.mem_cons.1 hn with rfl | hn
    · exact Nat.le_trans (Nat.le_max_right a n) (le_foldl_max L _)
    · exact ih _ n hn

theorem foldl_max_mem (L : List Nat) : ∀ a : Nat, L.foldl max a = a ∨ L.foldl max a ∈ L := by
  induction L with
  | nil => intro a; exact Or.inl rfl
  | cons m L ih =>
    intro a
    rcases ih (max a m) with h | h
    · rw [List.foldl_cons, h]
      rcases Nat.le_total a m with hle | hle
      · right; rw [Nat.max_eq_right hle]; exact List.mem_cons_self
      · left; exact Nat.max_eq_left hle
    · right; exact List.mem_cons_of_mem _ h

/-- the longest member of a non-empty family of lists is attained, and dominates -/
theorem longest_spec {β : Type} (ok : List (List β)) (c0 : List β) (h0 : c0 ∈ ok) :
    (∃ keep ∈ ok, keep.length = (ok.map List.length).foldl max 0) ∧
    (∀ keep ∈ ok, keep.length ≤ (ok.map List.length).foldl max 0) := by
  have hle : ∀ keep ∈ ok, keep.length ≤ (ok.map List.length).foldl max 0 := fun keep hk =>
    le_foldl_max_of_mem _ 0 _ (List.mem_map.2 ⟨keep, hk, rfl⟩)
  refine ⟨?_, hle⟩
  rcases foldl_max_mem (ok.map List.length) 0 with h | h
  · refine ⟨c0, h0, ?_⟩
    have := hle c0 h0
    omega
  · obtain ⟨keep, hk, he⟩ := List.mem_map.1 h
    exact ⟨keep, hk, he⟩

/-- generic form of the two deletion optima -/
theorem deletion_spec {β : Type} (base : List β) (P : List β → Bool) (hnil : P [] = true) :
    (∃ keep, keep.Sublist base ∧ P keep = true ∧
        base.length - keep.length = base.length - (((sublists base).filter P).map List.length).foldl max 0) ∧
    (∀ keep, keep.Sublist base → P keep = true →
        base.length - (((sublists base).filter P).map List.length).foldl max 0 ≤ base.length - keep.length) := by
  have h0 : ([] : List β) ∈ (sublists base).filter P :=
    List.mem_filter.2 ⟨(mem_sublists' base []).2 (List.nil_sublist _), hnil⟩
  obtain ⟨⟨keep, hk, he⟩, hle⟩ := longest_spec _ _ h0
  constructor
  · obtain ⟨hs, hp⟩ := List.mem_filter.1 hk
    exact ⟨keep, (mem_sublists' base keep).1 hs, hp, by rw [he]⟩
  · intro keep hs hp
    have := hle keep (List.mem_filter.2 ⟨(mem_sublists' base keep).2 hs, hp⟩)
    omega

/-! ### trivial feasible points -/

theorem contiguous_nil (S : List Nat) : contiguous [] S = true := rfl

theorem spOnAxis_nil_axis (orders : List Order) : spOnAxis orders [] = true := by
  simp only [spOnAxis, contiguous_nil, List.all_eq_true, implies_true]

theorem bruteSP_nil_alts (orders : List Order) : bruteSP [] orders = true := by
  simp only [bruteSP, perms, List.any_cons, spOnAxis_nil_axis, Bool.true_or]

theorem bruteSP_nil_orders (alts : List Nat) : bruteSP alts [] = true := by
  simp only [bruteSP, List.any_eq_true]
  exact ⟨alts, (C05.mem_perms_iff alts alts).2 (List.Perm.refl _), rfl⟩

end PrefVerif.Specs
