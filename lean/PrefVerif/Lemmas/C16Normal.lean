import PrefVerif.Lemmas.C16Ballot
/-!
# C16 — the normal form after an autocorrect parse, and the merge of the ballot lines
-/
namespace PrefVerif.C16
open PrefVerif PrefVerif.Py PrefVerif.InstanceIO PrefVerif.Spec PrefVerif.IOL PrefVerif.IOLw

/-- the three stages of a successful ordinal autocorrect parse -/
theorem ord_parse_true_ok (i0 j : OrdinalIO.OrdInst) (lines : List Str)
    (h : OrdinalIO.parse i0 lines true false = .ok j) :
    ∃ i1 idx i2, headerLoop (OrdinalIO.headerStep true) i0 lines 0 = .ok (i1, idx) ∧
      (lines.drop idx).foldlM (OrdinalIO.ballotLine true) i1 = .ok i2 ∧
      j = { i2 with
        header := { i2.header with numAlternatives := i2.header.altNames.length,
                                   numVoters := (AList.values i2.multiplicity).sum },
        numUniqueOrders := i2.orders.length } := by
  simp only [OrdinalIO.parse] at h
  cases hl : headerLoop (OrdinalIO.headerStep true) i0 lines 0 with
  | error e => rw [hl] at h; cases h
  | ok p =>
    obtain ⟨i1, idx⟩ := p
    rw [hl] at h
    simp only [bind, Except.bind, Bool.false_eq_true, if_false] at h
    cases hf : (lines.drop idx).foldlM (OrdinalIO.ballotLine true) i1 with
    | error e => rw [hf] at h; cases h
    | ok i2 =>
      rw [hf] at h
      simp only [if_true, pure, Except.pure] at h
      cases h
      exact ⟨i1, idx, i2, rfl, hf, rfl⟩

theorem ord_normal (lines : List Str) (j : OrdinalIO.OrdInst)
    (h : OrdinalIO.parse {} lines true false = .ok j) :
    j.orders.Nodup ∧ AList.keys j.multiplicity = j.orders ∧
    j.header.numVoters = (AList.values j.multiplicity).sum ∧
    j.numUniqueOrders = j.orders.length ∧
    j.header.numAlternatives = j.header.altNames.length := by
  obtain ⟨i1, idx, i2, hl, hf, rfl⟩ := ord_parse_true_ok {} j lines h
  have h1 : i1.orders = [] ∧ i1.multiplicity = [] :=
    headerLoop_inv (OrdinalIO.headerStep true) (fun a => a.orders = [] ∧ a.multiplicity = [])
      (fun a x b ha hs => by
        obtain ⟨e1, e2⟩ := headerStep_tbl true a b x hs
        exact ⟨e1.trans ha.1, e2.trans ha.2⟩)
      lines {} i1 0 idx ⟨rfl, rfl⟩ hl
  have h2 : InvOrd i1.header i2 :=
    foldlM_inv (OrdinalIO.ballotLine true) (InvOrd i1.header)
      (fun a x b ha hs => ballotLine_inv i1.header a b x ha hs) _ i1 i2
      ⟨by rw [h1.1, h1.2]; rfl, by rw [h1.1]; exact List.nodup_nil, rfl⟩ hf
  exact ⟨h2.2.1, h2.1, rfl, rfl, rfl⟩

/-- the three stages of a successful categorical autocorrect parse -/
theorem cat_parse_true_ok (i0 j : CategoricalIO.CatInst) (lines : List Str)
    (h : CategoricalIO.parse i0 lines true false = .ok j) :
    ∃ i1 idx i2, headerLoop (CategoricalIO.headerStep true) i0 lines 0 = .ok (i1, idx) ∧
      (lines.drop idx).foldlM (CategoricalIO.ballotLine true) i1 = .ok i2 ∧
      j = { i2 with
        header := { i2.header with numAlternatives := i2.header.altNames.length,
                                   numVoters := (AList.values i2.multiplicity).sum },
        numUniquePreferences := i2.preferences.eraseDups.length } := by
  simp only [CategoricalIO.parse] at h
  cases hl : headerLoop (CategoricalIO.headerStep true) i0 lines 0 with
  | error e => rw [hl] at h; cases h
  | ok p =>
    obtain ⟨i1, idx⟩ := p
    rw [hl] at h
    simp only [bind, Except.bind, Bool.false_eq_true, if_false] at h
    cases hf : (lines.drop idx).foldlM (CategoricalIO.ballotLine true) i1 with
    | error e => rw [hf] at h; cases h
    | ok i2 =>
      rw [hf] at h
      simp only [if_true, pure, Except.pure] at h
      cases h
      exact ⟨i1, idx, i2, rfl, hf, rfl⟩

theorem cat_normal (lines : List Str) (j : CategoricalIO.CatInst)
    (h : CategoricalIO.parse {} lines true false = .ok j) :
    j.preferences.Nodup ∧ AList.keys j.multiplicity = j.preferences ∧
    j.header.numVoters = (AList.values j.multiplicity).sum ∧
    j.numUniquePreferences = j.preferences.length ∧
    j.header.numAlternatives = j.header.altNames.length := by
  obtain ⟨i1, idx, i2, hl, hf, rfl⟩ := cat_parse_true_ok {} j lines h
  have h1 : i1.preferences = [] ∧ i1.multiplicity = [] :=
    headerLoop_inv (CategoricalIO.headerStep true) (fun a => a.preferences = [] ∧ a.multiplicity = [])
      (fun a x b ha hs => by
        obtain ⟨e1, e2⟩ := catHeaderStep_tbl true a b x hs
        exact ⟨e1.trans ha.1, e2.trans ha.2⟩)
      lines {} i1 0 idx ⟨rfl, rfl⟩ hl
  have h2 : InvCat i2 :=
    foldlM_inv (CategoricalIO.ballotLine true) InvCat
      (fun a x b ha hs => catBallotLine_inv a b x ha hs) _ i1 i2
      ⟨by rw [h1.1, h1.2]; rfl, by rw [h1.1]; exact List.nodup_nil⟩ hf
  refine ⟨h2.2, h2.1, rfl, ?_, rfl⟩
  show i2.preferences.eraseDups.length = i2.preferences.length
  rw [eraseDups_of_nodup _ h2.2]

/-! ## the table is the merge of the lines -/

/-- the ballot fold under autocorrect, on lines that all decode to a ballot -/
theorem ord_fold_bumpAll (ballots : List Str) (decoded : List (Nat × Order)) (i : OrdinalIO.OrdInst)
    (hi : InvOrd i.header i) (hd : ballots.mapM decodeLine = .ok (decoded.map some)) :
    ∃ j, ballots.foldlM (OrdinalIO.ballotLine true) i = .ok j ∧
      j.multiplicity = bumpAll i.multiplicity decoded ∧ InvOrd i.header j := by
  induction ballots generalizing i decoded with
  | nil =>
    have := mapM_nil_ok _ _ hd
    cases decoded with
    | nil => exact ⟨i, rfl, rfl, hi⟩
    | cons d ds => simp at this
  | cons b bs ih =>
    obtain ⟨y, ys, hb, hbs, hy⟩ := mapM_cons_ok _ _ _ _ hd
    cases decoded with
    | nil => simp at hy
    | cons d ds =>
      obtain ⟨m, o⟩ := d
      simp only [List.map_cons, List.cons.injEq] at hy
      obtain ⟨rfl, rfl⟩ := hy
      have hstep := ballotLine_some true i b m o hb
      have hinv := applyOrd_inv i.header i m o hi
      obtain ⟨j, hj1, hj2, hj3⟩ := ih ds (applyOrd true i m o) hinv hbs
      refine ⟨j, ?_, ?_, hj3⟩
      · simp only [List.foldlM_cons, hstep, bind, Except.bind]
        exact hj1
      · rw [hj2, bumpAll_cons]
        show bumpAll (stepTbl true i.orders i.multiplicity m o).2 ds = _
        rw [stepTbl_snd]

theorem ord_merge_decodeLine (i : OrdinalIO.OrdInst) (ballots : List Str) (decoded : List (Nat × Order))
    (hi : i.orders = [] ∧ i.multiplicity = [])
    (hd : ballots.mapM decodeLine = .ok (decoded.map some)) :
    ∃ j, ballots.foldlM (OrdinalIO.ballotLine true) i = .ok j ∧
      j.multiplicity = Autocorrect.merged (decoded.map (fun mo => (mo.1, mo.2))) ∧
      j.orders = AList.keys j.multiplicity ∧ j.header = i.header := by
  obtain ⟨j, h1, h2, h3⟩ := ord_fold_bumpAll ballots decoded i
    ⟨by rw [hi.1, hi.2]; rfl, by rw [hi.1]; exact List.nodup_nil, rfl⟩ hd
  refine ⟨j, h1, ?_, h3.1.symm, h3.2.2⟩
  rw [h2, hi.2, merged_eq_bumpAll]
  simp

end PrefVerif.C16
