import PrefVerif.Lemmas.C19xAxis
/-!
# C19x helper lemmas, part 5: a profile stored left to right reaches the LP with a left-to-right axis;
an embedding of the profile embeds the restricted preferences
-/
namespace PrefVerif.C19x
open PrefVerif PrefVerif.Euclid PrefVerif.Spec

/-- restricting an embedding to a subset of the alternatives realises the restricted rankings -/
theorem realises_restrict (alts : List Nat) (orders : List (List Nat)) (voters : List Rat) (x : Nat → Rat)
    (cplus axis : List Nat) (hsub : ∀ a ∈ cplus, a ∈ alts) (hperm : axis.Perm cplus)
    (hreal : Spec.Euclid.realises orders voters (alts.map (fun a => (a, x a))) = true) :
    Spec.Euclid.realises (restrictPreferences orders cplus) voters (axis.map (fun a => (a, x a))) = true := by
  simp only [Euclid.realises, Bool.and_eq_true, beq_iff_eq] at hreal ⊢
  obtain ⟨hlen, hall⟩ := hreal
  have hlen' : voters.length = (restrictPreferences orders cplus).length := by
    simp [restrictPreferences, hlen]
  refine ⟨hlen', (Specs.all_zip_iff _ _ voters hlen').2 fun i hi hv => ?_⟩
  have hi0 : i < orders.length := by simpa [restrictPreferences] using hi
  have hr : Euclid.ranksByDistance voters[i] (fun a => (alts.map (fun a => (a, x a))).lookup a) orders[i] = true :=
    (Specs.all_zip_iff _ orders voters hlen).1 hall i hi0 hv
  obtain ⟨_, hpw⟩ := (Specs.ranksByDistance_iff _ _ _).1 hr
  have e : (restrictPreferences orders cplus)[i] = orders[i].filter (fun c => cplus.contains c) := by
    simp [restrictPreferences]
  show Euclid.ranksByDistance voters[i] (fun a => (axis.map (fun a => (a, x a))).lookup a)
    (restrictPreferences orders cplus)[i] = true
  rw [e, Specs.ranksByDistance_iff]
  have hmem : ∀ a ∈ orders[i].filter (fun c => cplus.contains c), a ∈ axis ∧ a ∈ alts := by
    intro a ha
    have : a ∈ cplus := by simpa using (List.mem_filter.1 ha).2
    exact ⟨hperm.mem_iff.2 this, hsub a this⟩
  refine ⟨fun a ha => ?_, List.Pairwise.imp_of_mem ?_ (hpw.filter _)⟩
  · rw [C19.lookup_axis_map axis x a (hmem a ha).1]; rfl
  · intro a b ha hb hc ya yb hya hyb
    replace hya : (axis.map (fun a => (a, x a))).lookup a = some ya := hya
    replace hyb : (axis.map (fun a => (a, x a))).lookup b = some yb := hyb
    rw [C19.lookup_axis_map axis x a (hmem a ha).1] at hya
    rw [C19.lookup_axis_map axis x b (hmem b hb).1] at hyb
    cases hya; cases hyb
    exact hc _ _ (C19.lookup_axis_map alts x a (hmem a ha).2) (C19.lookup_axis_map alts x b (hmem b hb).2)

/-- a 1-Euclidean profile stored from the leftmost to the rightmost voter passes the pre-check and
the colouring stage, and the axis handed to the LP lists the coloured alternatives from left to right -/
theorem reach_lp (alts : List Nat) (orders : List (List Nat))
    (halts : alts.Nodup) (hord : ∀ o ∈ orders, o.Perm alts) (hnd : orders.Nodup)
    (h2 : 2 ≤ orders.length) (voters : List Rat) (x : Nat → Rat)
    (hreal : Spec.Euclid.realises orders voters (alts.map (fun a => (a, x a))) = true)
    (hmono : voters.Pairwise (· ≤ ·)) :
    ∃ l, lp alts orders = some l ∧ l.axis.Pairwise (fun a b => x a < x b) := by
  have hlen : voters.length = orders.length := ((Specs.realises_iff _ _ _).1 hreal).1
  have hrep := rep_of_realises alts orders voters x hord hreal
  have hne01 : orders[0] ≠ orders[1] := List.pairwise_iff_getElem.1 hnd 0 1 (by omega) (by omega) (by omega)
  have hne : alts ≠ [] := by
    intro e
    apply hne01
    have h0 := hord _ (List.getElem_mem (show 0 < orders.length by omega))
    have h1 := hord _ (List.getElem_mem (show 1 < orders.length by omega))
    rw [e] at h0 h1
    rw [h0.eq_nil, h1.eq_nil]
  have hlast : orders.length - 1 < orders.length := by omega
  have hh : orders.head? = some orders[0] := by
    rw [List.head?_eq_getElem?, List.getElem?_eq_getElem]
  have hl : orders.getLast? = some (orders[orders.length - 1]) := by
    rw [List.getLast?_eq_getElem?, List.getElem?_eq_getElem]
  have p1 := hord _ (List.getElem_mem (show 0 < orders.length by omega))
  have pn := hord _ (List.getElem_mem hlast)
  have r1 := hrep 0 (by omega) (by omega)
  have rn := hrep (orders.length - 1) hlast (by omega)
  have hle : voters[0]'(by omega) ≤ voters[orders.length - 1]'(by omega) :=
    List.pairwise_iff_getElem.1 hmono 0 (orders.length - 1) (by omega) (by omega) (by omega)
  have hneq : voters[0]'(by omega) ≠ voters[orders.length - 1]'(by omega) := by
    intro e
    rw [e] at r1
    exact List.pairwise_iff_getElem.1 hnd 0 (orders.length - 1) (by omega) hlast (by omega)
      (eq_of_rep alts x _ _ _ halts p1 pn r1 rn)
  have G : Geo alts x orders[0] (orders[orders.length - 1]) (voters[0]'(by omega))
      (voters[orders.length - 1]'(by omega)) := ⟨hne, p1, pn, r1, rn, by grind⟩
  have hsc : (SingleCrossing.isSC orders alts.length).1 = true :=
    C04c.isSC_complete alts orders ⟨halts, fun o ho => sameRanking_of_perm halts (hord o ho)⟩ hnd
      ⟨orders, List.Perm.refl _, sc_of_stored alts orders voters x hord hlen hrep hmono⟩
  obtain ⟨g, hg, hinv⟩ := colouring_some G
  have hst := stage_coloured alts orders _ _ g hsc hh hl hg
  refine ⟨_, by unfold lp; rw [hst, hh, hl], ?_⟩
  exact axis_sorted G hinv halts

end PrefVerif.C19x
