import PrefVerif.Lemmas.C19xAxis
import PrefVerif.Lemmas.C19fixMirror
import PrefVerif.Lemmas.C19onReach
/-!
# C19x helper lemmas, part 5: a 1-Euclidean profile reaches the LP with a left-to-right axis (up to mirroring);
an embedding of the profile embeds the restricted preferences
-/
namespace PrefVerif.C19x
open PrefVerif PrefVerif.Euclid PrefVerif.Spec

/-- restricting an embedding to a subset of the alternatives realises the restricted rankings -/
theorem realises_restrict (alts : List Nat) (orders : List (List Nat)) (voters : List Rat) (x : Nat → Rat)
    (cplus axis : List Nat) (hsub : ∀ a ∈ cplus, a ∈ alts) (hperm : axis.Perm cplus)
    (hreal : Spec.Euclid.realises orders voters (alts.map (fun a => (a, x a))) = true) :
    Spec.Euclid.realises (restrictPreferences orders cplus) voters (axis.map (fun a => (a, x a))) = true := by
  simp only [Euclid.realises, Bool.and_eq_true, beq_iff_eq] at hreal ⊢
  obtain ⟨hlen, hall⟩ := hreal
  have hlen' : voters.length = (restrictPreferences orders cplus).length := by
    simp [restrictPreferences, hlen]
  refine ⟨hlen', (Specs.all_zip_iff _ _ voters hlen').2 fun i hi hv => ?_⟩
  have hi0 : i < orders.length := by simpa [restrictPreferences] using hi
  have hr : Euclid.ranksByDistance voters[i] (fun a => (alts.map (fun a => (a, x a))).lookup a) orders[i] = true :=
    (Specs.all_zip_iff _ orders voters hlen).1 hall i hi0 hv
  obtain ⟨_, hpw⟩ := (Specs.ranksByDistance_iff _ _ _).1 hr
  have e : (restrictPreferences orders cplus)[i] = orders[i].filter (fun c => cplus.contains c) := by
    simp [restrictPreferences]
  show Euclid.ranksByDistance voters[i] (fun a => (axis.map (fun a => (a, x a))).lookup a)
    (restrictPreferences orders cplus)[i] = true
  rw [e, Specs.ranksByDistance_iff]
  have hmem : ∀ a ∈ orders[i].filter (fun c => cplus.contains c), a ∈ axis ∧ a ∈ alts := by
    intro a ha
    have : a ∈ cplus := by simpa using (List.mem_filter.1 ha).2
    exact ⟨hperm.mem_iff.2 this, hsub a this⟩
  refine ⟨fun a ha => ?_, List.Pairwise.imp_of_mem ?_ (hpw.filter _)⟩
  · rw [C19.lookup_axis_map axis x a (hmem a ha).1]; rfl
  · intro a b ha hb hc ya yb hya hyb
    replace hya : (axis.map (fun a => (a, x a))).lookup a = some ya := hya
    replace hyb : (axis.map (fun a => (a, x a))).lookup b = some yb := hyb
    rw [C19.lookup_axis_map axis x a (hmem a ha).1] at hya
    rw [C19.lookup_axis_map axis x b (hmem b hb).1] at hyb
    cases hya; cases hyb
    exact hc _ _ (C19.lookup_axis_map alts x a (hmem a ha).2) (C19.lookup_axis_map alts x b (hmem b hb).2)

/-- a 1-Euclidean profile (distinct orders, ANY storage order) passes the pre-check and the colouring
stage, and the axis handed to the LP lists the coloured alternatives from left to right either in the
given embedding or in its mirror image -/
theorem reach_lp (alts : List Nat) (orders : List (List Nat))
    (halts : alts.Nodup) (hord : ∀ o ∈ orders, o.Perm alts) (hnd : orders.Nodup)
    (h2 : 2 ≤ orders.length) (voters : List Rat) (x : Nat → Rat)
    (hreal : Spec.Euclid.realises orders voters (alts.map (fun a => (a, x a))) = true) :
    ∃ l, lp alts orders = some l ∧
      (l.axis.Pairwise (fun a b => x a < x b) ∨ l.axis.Pairwise (fun a b => -x a < -x b)) := by
  have hR : C04.Rankings alts orders := ⟨halts, fun o ho => sameRanking_of_perm halts (hord o ho)⟩
  have hsc : (SingleCrossing.isSC orders alts.length).1 = true :=
    C04c.isSC_complete alts orders hR hnd (sc_of_realised alts orders voters x hord hreal)
  have hs : SingleCrossing.isSC orders alts.length = (true, scOrders alts orders) := by
    rw [← hsc]; rfl
  obtain ⟨hperm, _⟩ := C04.isSC_sound alts orders _ hR hnd hs
  unfold lp
  rw [hsc]
  exact reach_lpOn alts orders _ halts hord hnd h2 hperm voters x hreal

end PrefVerif.C19x
