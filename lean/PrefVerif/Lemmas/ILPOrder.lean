import PrefVerif.Lemmas.ILPEval
/-!
# ILP helper lemmas, part 2: transitivity + totality + binarity = a permutation

A relation that is total and transitive on the members of a duplicate-free list can be sorted; the
sorted list recovers the relation as "index less than".  The `leftOf` variables of a feasible
integral point are such a relation on `range m`; conversely the assignment induced by an axis
satisfies the transitivity and totality constraints.
-/
namespace PrefVerif.ILPP
open PrefVerif PrefVerif.ILP

/-! ### sorting by a relation -/

theorem insert_sorted (R : Nat → Nat → Prop) (x : Nat) (s : List Nat)
    (hs : s.Pairwise R) (htot : ∀ y ∈ s, R x y ∨ R y x)
    (htr : ∀ y ∈ s, ∀ z ∈ s, R x y → R y z → R x z) :
    ∃ s' : List Nat, s'.Perm (x :: s) ∧ s'.Pairwise R := by
  induction s with
  | nil => exact ⟨[x], .refl _, List.pairwise_singleton _ _⟩
  | cons y s0 ih =>
    have hy := List.pairwise_cons.1 hs
    rcases htot y (by simp) with hxy | hyx
    · refine ⟨x :: y :: s0, .refl _, List.pairwise_cons.2 ⟨?_, hs⟩⟩
      intro z hz
      rcases List.mem_cons.1 hz with rfl | hz0
      · exact hxy
      · exact htr y (by simp) z (by simp [hz0]) hxy (hy.1 z hz0)
    · obtain ⟨s', hp, hpw⟩ := ih hy.2 (fun z hz => htot z (by simp [hz]))
        (fun a ha b hb => htr a (by simp [ha]) b (by simp [hb]))
      refine ⟨y :: s', (hp.cons y).trans (List.Perm.swap x y s0), List.pairwise_cons.2 ⟨?_, hpw⟩⟩
      intro z hz
      rcases List.mem_cons.1 (hp.subset hz) with rfl | hz0
      · exact hyx
      · exact hy.1 z hz0

theorem exists_sorted (R : Nat → Nat → Prop) (l : List Nat) (hn : l.Nodup)
    (htot : ∀ a ∈ l, ∀ b ∈ l, a ≠ b → R a b ∨ R b a)
    (htr : ∀ a ∈ l, ∀ b ∈ l, ∀ c ∈ l, R a b → R b c → R a c) :
    ∃ s : List Nat, s.Perm l ∧ s.Pairwise R := by
  induction l with
  | nil => exact ⟨[], .refl _, List.Pairwise.nil⟩
  | cons x t ih =>
    have hx := List.nodup_cons.1 hn
    obtain ⟨s, hp, hpw⟩ := ih hx.2
      (fun a ha b hb => htot a (by simp [ha]) b (by simp [hb]))
      (fun a ha b hb c hc => htr a (by simp [ha]) b (by simp [hb]) c (by simp [hc]))
    have hmem : ∀ y ∈ s, y ∈ t := fun y hy => hp.subset hy
    obtain ⟨s', hp', hpw'⟩ := insert_sorted R x s hpw
      (fun y hy => htot x (by simp) y (by simp [hmem y hy]) (fun h => hx.1 (h ▸ hmem y hy)))
      (fun y hy z hz => htr x (by simp) y (by simp [hmem y hy]) z (by simp [hmem z hz]))
    exact ⟨s', hp'.trans (hp.cons x), hpw'⟩

theorem rel_of_idxOf_lt (R : Nat → Nat → Prop) (s : List Nat) (hs : s.Pairwise R) (a b : Nat)
    (ha : a ∈ s) (hb : b ∈ s) (h : s.idxOf a < s.idxOf b) : R a b := by
  have hia := List.idxOf_lt_length_of_mem ha
  have hib := List.idxOf_lt_length_of_mem hb
  have := List.pairwise_iff_getElem.1 hs _ _ hia hib h
  rwa [List.getElem_idxOf hia, List.getElem_idxOf hib] at this

theorem idxOf_inj {s : List Nat} {a b : Nat} (ha : a ∈ s) (hb : b ∈ s) (h : s.idxOf a = s.idxOf b) : a = b := by
  have hia := List.idxOf_lt_length_of_mem ha
  have hib := List.idxOf_lt_length_of_mem hb
  have h1 : s[s.idxOf a] = a := List.getElem_idxOf hia
  have h2 : s[s.idxOf b] = b := List.getElem_idxOf hib
  rw [← h1, ← h2]; simp only [h]

theorem rel_iff_idxOf (R : Nat → Nat → Prop) (s : List Nat) (hs : s.Pairwise R)
    (hasym : ∀ a ∈ s, ∀ b ∈ s, a ≠ b → R a b → ¬ R b a) (a b : Nat) (ha : a ∈ s) (hb : b ∈ s)
    (hab : a ≠ b) : R a b ↔ s.idxOf a < s.idxOf b := by
  refine ⟨fun h => ?_, rel_of_idxOf_lt R s hs a b ha hb⟩
  rcases Nat.lt_trichotomy (s.idxOf a) (s.idxOf b) with hlt | heq | hgt
  · exact hlt
  · exact absurd (idxOf_inj ha hb heq) hab
  · exact absurd (rel_of_idxOf_lt R s hs b a hb ha hgt) (hasym a ha b hb hab h)

/-! ### the `leftOf` variables spell out the order of a list -/

/-- on the members of `ax` the `leftOf` values are 0/1 and say "left of on `ax`" -/
structure Encodes (asg : Var → Rat) (ax : List Nat) : Prop where
  bin : ∀ a ∈ ax, ∀ b ∈ ax, Bin (asg (.leftOf a b))
  iff : ∀ a ∈ ax, ∀ b ∈ ax, a ≠ b → (asg (.leftOf a b) = 1 ↔ ax.idxOf a < ax.idxOf b)

variable {asg : Var → Rat}

theorem Encodes.eq_zero_iff {ax : List Nat} (h : Encodes asg ax) {a b : Nat} (ha : a ∈ ax) (hb : b ∈ ax)
    (hab : a ≠ b) : asg (.leftOf a b) = 0 ↔ ax.idxOf b < ax.idxOf a := by
  have h1 := h.iff a ha b hb hab
  have hne : ax.idxOf a ≠ ax.idxOf b := fun he => hab (idxOf_inj ha hb he)
  rcases h.bin a ha b hb with h0 | h0
  · have : ¬ ax.idxOf a < ax.idxOf b := fun hl => by
      have := h1.2 hl; rw [h0] at this; exact absurd this (by decide)
    exact ⟨fun _ => by omega, fun _ => h0⟩
  · have := h1.1 h0
    exact ⟨fun hz => by rw [h0] at hz; exact absurd hz (by decide), fun hl => by omega⟩

/-! ### the transitivity and totality constraints -/

/-- the statement of `transOne x y z` -/
def TransAt (asg : Var → Rat) (x y z : Nat) : Prop :=
  asg (.leftOf x y) + asg (.leftOf y z) - asg (.leftOf x z) ≤ 1

theorem sat_transCstr (m : Nat) :
    Sat asg (transCstr m) ↔ ∀ a b c, a < b → b < c → c < m →
      TransAt asg a b c ∧ TransAt asg a c b ∧ TransAt asg b a c ∧ TransAt asg b c a ∧
      TransAt asg c a b ∧ TransAt asg c b a := by
  unfold transCstr
  rw [sat_flatMap]
  constructor
  · intro h a b c hab hbc hc
    have := h (a, b, c) ((mem_combos3_range m a b c).2 ⟨hab, hbc, hc⟩)
    simp only [sat_cons, satisfies_transOne] at this
    exact ⟨this.1, this.2.1, this.2.2.1, this.2.2.2.1, this.2.2.2.2.1, this.2.2.2.2.2.1⟩
  · rintro h ⟨a, b, c⟩ ht
    obtain ⟨hab, hbc, hc⟩ := (mem_combos3_range m a b c).1 ht
    obtain ⟨h1, h2, h3, h4, h5, h6⟩ := h a b c hab hbc hc
    simp only [sat_cons, satisfies_transOne]
    exact ⟨h1, h2, h3, h4, h5, h6, sat_nil⟩

theorem sat_totalCstr (m : Nat) :
    Sat asg (totalCstr m) ↔ ∀ a b, a < b → b < m → asg (.leftOf a b) + asg (.leftOf b a) = 1 := by
  unfold totalCstr
  rw [sat_map]
  constructor
  · intro h a b hab hb
    exact (satisfies_total a b).1 (h (a, b) ((mem_combos2_range m a b).2 ⟨hab, hb⟩))
  · rintro h ⟨a, b⟩ hp
    obtain ⟨hab, hb⟩ := (mem_combos2_range m a b).1 hp
    exact (satisfies_total a b).2 (h a b hab hb)

theorem transAt_of_sat {m : Nat} (h : Sat asg (transCstr m)) (x y z : Nat) (hx : x < m) (hy : y < m)
    (hz : z < m) (hxy : x ≠ y) (hyz : y ≠ z) (hxz : x ≠ z) : TransAt asg x y z := by
  have h' := (sat_transCstr m).1 h
  rcases Nat.lt_or_gt_of_ne hxy with h1 | h1 <;> rcases Nat.lt_or_gt_of_ne hyz with h2 | h2 <;>
    rcases Nat.lt_or_gt_of_ne hxz with h3 | h3
  · exact (h' x y z h1 h2 hz).1
  · omega
  · exact (h' x z y h3 h2 hy).2.1
  · exact (h' z x y h3 h1 hy).2.2.2.1
  · exact (h' y x z h1 h3 hz).2.2.1
  · exact (h' y z x h2 h3 hx).2.2.2.2.1
  · omega
  · exact (h' z y x h2 h1 hx).2.2.2.2.2

theorem total_of_sat {m : Nat} (h : Sat asg (totalCstr m)) (a b : Nat) (ha : a < m) (hb : b < m)
    (hab : a ≠ b) : asg (.leftOf a b) + asg (.leftOf b a) = 1 := by
  have h' := (sat_totalCstr m).1 h
  rcases Nat.lt_or_gt_of_ne hab with h1 | h1
  · exact h' a b h1 hb
  · have := h' b a h1 ha; grind

/-- soundness half: a binary point satisfying transitivity and totality encodes a permutation -/
theorem encodes_of_sat {m : Nat} (hbin : ∀ a b, a < m → b < m → Bin (asg (.leftOf a b)))
    (htr : Sat asg (transCstr m)) (htot : Sat asg (totalCstr m)) :
    ∃ ax : List Nat, ax.Perm (List.range m) ∧ Encodes asg ax := by
  let R : Nat → Nat → Prop := fun a b => asg (.leftOf a b) = 1
  have hasym : ∀ a b, a < m → b < m → a ≠ b → R a b → ¬ R b a := by
    intro a b ha hb hab h1 h2
    have := total_of_sat htot a b ha hb hab
    simp only [R] at h1 h2
    rw [h1, h2] at this; grind
  obtain ⟨s, hp, hpw⟩ := exists_sorted R (List.range m) List.nodup_range
    (by
      intro a ha b hb hab
      have ha' := List.mem_range.1 ha
      have hb' := List.mem_range.1 hb
      have ht := total_of_sat htot a b ha' hb' hab
      rcases hbin a b ha' hb' with h0 | h1
      · right; simp only [R]; rw [h0] at ht; grind
      · left; exact h1)
    (by
      intro a ha b hb c hc hab hbc
      have ha' := List.mem_range.1 ha
      have hb' := List.mem_range.1 hb
      have hc' := List.mem_range.1 hc
      by_cases e1 : a = b
      · subst e1; exact hbc
      by_cases e2 : b = c
      · subst e2; exact hab
      by_cases e3 : a = c
      · subst e3; exact absurd hbc (hasym a b ha' hb' e1 hab)
      have ht := transAt_of_sat htr a b c ha' hb' hc' e1 e2 e3
      simp only [TransAt, R] at ht hab hbc ⊢
      rw [hab, hbc] at ht
      rcases hbin a c ha' hc' with h0 | h1
      · rw [h0] at ht; grind
      · exact h1)
  have hlt : ∀ a ∈ s, a < m := fun a ha => List.mem_range.1 (hp.subset ha)
  refine ⟨s, hp, ⟨fun a ha b hb => hbin a b (hlt a ha) (hlt b hb), fun a ha b hb hab => ?_⟩⟩
  exact rel_iff_idxOf R s hpw
    (fun a ha b hb hab => hasym a b (hlt a ha) (hlt b hb) hab) a b ha hb hab

/-! ### the assignment induced by an axis -/

theorem ofAxis_leftOf (ax dv da : List Nat) (a b : Nat) :
    ofAxis ax dv da (.leftOf a b) = if ax.idxOf a < ax.idxOf b then 1 else 0 := rfl

theorem ofAxis_bin (ax dv da : List Nat) (a b : Nat) : Bin (ofAxis ax dv da (.leftOf a b)) := by
  rw [ofAxis_leftOf]; unfold Bin; split <;> simp

theorem encodes_ofAxis (ax dv da : List Nat) : Encodes (ofAxis ax dv da) ax := by
  refine ⟨fun a _ b _ => ofAxis_bin ax dv da a b, fun a _ b _ _ => ?_⟩
  rw [ofAxis_leftOf]
  split
  · simp [*]
  · rename_i h; simp only [h, iff_false]; decide

theorem ofAxis_transAt (ax dv da : List Nat) (x y z : Nat) : TransAt (ofAxis ax dv da) x y z := by
  simp only [TransAt, ofAxis_leftOf]
  by_cases h1 : ax.idxOf x < ax.idxOf y <;> by_cases h2 : ax.idxOf y < ax.idxOf z <;>
    by_cases h3 : ax.idxOf x < ax.idxOf z <;> simp only [h1, h2, h3, if_true, if_false] <;> grind

theorem ofAxis_sat_trans (ax dv da : List Nat) (m : Nat) : Sat (ofAxis ax dv da) (transCstr m) :=
  (sat_transCstr m).2 (fun _ _ _ _ _ _ =>
    ⟨ofAxis_transAt .., ofAxis_transAt .., ofAxis_transAt .., ofAxis_transAt .., ofAxis_transAt ..,
     ofAxis_transAt ..⟩)

theorem ofAxis_sat_total (ax dv da : List Nat) (m : Nat) (hp : ax.Perm (List.range m)) :
    Sat (ofAxis ax dv da) (totalCstr m) := by
  refine (sat_totalCstr m).2 (fun a b hab hb => ?_)
  have ha' : a ∈ ax := hp.symm.subset (List.mem_range.2 (by omega))
  have hb' : b ∈ ax := hp.symm.subset (List.mem_range.2 hb)
  have hne : ax.idxOf a ≠ ax.idxOf b := fun he => by have := idxOf_inj ha' hb' he; omega
  simp only [ofAxis_leftOf]
  by_cases h1 : ax.idxOf a < ax.idxOf b
  · have h2 : ¬ ax.idxOf b < ax.idxOf a := by omega
    simp only [h1, h2, if_true, if_false]; grind
  · have h2 : ax.idxOf b < ax.idxOf a := by omega
    simp only [h1, h2, if_true, if_false]; grind

end PrefVerif.ILPP
