import PrefVerif.Lemmas.C01Header
/-!
# C01 — `OrdinalInstance.parse` on the written file
-/
namespace PrefVerif.C01
open PrefVerif PrefVerif.Py PrefVerif.InstanceIO PrefVerif.OrdinalIO PrefVerif.Spec.IO PrefVerif.IOL

/-! ## the header step -/

/-- on every line that is not `# NUMBER UNIQUE ORDERS` the step is `parse_metadata` on the header -/
theorem headerStep_lift (ac : Bool) (i : OrdInst) (a : Header) (line : Str)
    (h : startsWith line (s "# NUMBER UNIQUE ORDERS") = false) :
    headerStep ac { i with header := a } line
      = (parseMetadata a line ac).map (fun h => { i with header := h }) := by
  simp only [headerStep, h]
  cases parseMetadata a line ac <;> rfl

theorem headerStep_numUnique (ac : Bool) (i : OrdInst) (n : Nat) :
    headerStep ac i (numUniqueKey ++ ' ' :: natToStr n) = .ok { i with numUniqueOrders := n } := by
  have := intField_space_natToStr n
  simp [headerStep, startsWith, numUniqueKey, s, List.isPrefixOf, this]
  rfl

theorem field_not_unique (f : Field) (w : Str) :
    startsWith (f.key ++ w) (s "# NUMBER UNIQUE ORDERS") = false := by
  cases f <;> simp [startsWith, Field.key, Field.name, s, List.isPrefixOf]

theorem numAlt_not_unique (w : Str) : startsWith (numAltKey ++ w) (s "# NUMBER UNIQUE ORDERS") = false := by
  simp [startsWith, numAltKey, s, List.isPrefixOf]

theorem numVoters_not_unique (w : Str) :
    startsWith (numVotersKey ++ w) (s "# NUMBER UNIQUE ORDERS") = false := by
  simp [startsWith, numVotersKey, s, List.isPrefixOf]

theorem alt_not_unique (w : Str) : startsWith (altPfx ++ w) (s "# NUMBER UNIQUE ORDERS") = false := by
  simp [startsWith, altPfx, s, List.isPrefixOf]

/-- the header of the written file, folded from any starting instance without names: header and
`numUniqueOrders` are those of `i`, the rest is untouched -/
theorem fold_header (i i0 : OrdInst) (h : wfHeader i.header = true) (h0 : i0.header.altNames = []) :
    (hdrPl i).foldlM (headerStep false) i0
      = .ok { i0 with header := i.header, numUniqueOrders := i.numUniqueOrders } := by
  obtain ⟨hf, hk, hv⟩ := (wfHeader_iff _).1 h
  -- part 1: the nine text fields
  have hA : (Field.all.map (fun f => f.key ++ padded (f.get i.header))).foldlM (headerStep false) i0
      = .ok { i0 with header := { i.header with numAlternatives := i0.header.numAlternatives,
                                                numVoters := i0.header.numVoters, altNames := [] } } := by
    have := foldlM_lift (fun a l => parseMetadata a l false) (headerStep false)
      (fun a => { i0 with header := a }) (Field.all.map (fun f => f.key ++ padded (f.get i.header)))
      (by
        intro l hl a
        obtain ⟨f, _, rfl⟩ := List.mem_map.1 hl
        exact headerStep_lift false i0 a _ (field_not_unique f _))
      i0.header
    rw [← pl_metaLines _ (fun f => strip_of_clean (hf f)), foldlM_metaLines i0.header i.header
      (fun f => strip_of_clean (hf f)) false, h0] at this
    rw [← pl_metaLines _ (fun f => strip_of_clean (hf f))]
    exact this
  -- part 2: the numeric fields
  have hB : ∀ j : OrdInst,
      [numAltKey ++ ' ' :: natToStr i.header.numAlternatives,
       numVotersKey ++ ' ' :: natToStr i.header.numVoters,
       numUniqueKey ++ ' ' :: natToStr i.numUniqueOrders].foldlM (headerStep false) j
      = .ok { j with header := { j.header with numAlternatives := i.header.numAlternatives,
                                               numVoters := i.header.numVoters },
                     numUniqueOrders := i.numUniqueOrders } := by
    intro j
    have e1 := headerStep_lift false j j.header _ (numAlt_not_unique (' ' :: natToStr i.header.numAlternatives))
    rw [parseMetadata_numAlternatives] at e1
    have e2 := headerStep_lift false j { j.header with numAlternatives := i.header.numAlternatives } _
      (numVoters_not_unique (' ' :: natToStr i.header.numVoters))
    rw [parseMetadata_numVoters] at e2
    simp only [List.foldlM_cons, List.foldlM_nil]
    rw [show j = { j with header := j.header } from rfl, e1]
    simp only [Except.map, bind, Except.bind]
    rw [e2]
    simp only [Except.map]
    rw [headerStep_numUnique]
    rfl
  -- part 3: the alternative names
  have hC : ∀ j : OrdInst, j.header.altNames = [] →
      (i.header.altNames.map (fun kv => altPfx ++ natToStr kv.1 ++ ':' :: padded kv.2)).foldlM
        (headerStep false) j = .ok { j with header := { j.header with altNames := i.header.altNames } } := by
    intro j hj
    have := foldlM_lift (fun a l => parseMetadata a l false) (headerStep false)
      (fun a => { j with header := a })
      (i.header.altNames.map (fun kv => altPfx ++ natToStr kv.1 ++ ':' :: padded kv.2))
      (by
        intro l hl a
        obtain ⟨kv, _, rfl⟩ := List.mem_map.1 hl
        rw [List.append_assoc]
        exact headerStep_lift false j a _ (alt_not_unique _))
      j.header
    rw [← pl_altLines _ (fun kv hkv => strip_of_clean (hv kv hkv)),
      foldlM_altLines_nil j.header i.header.altNames hj hk hv] at this
    rw [← pl_altLines _ (fun kv hkv => strip_of_clean (hv kv hkv))]
    exact this
  rw [hdrPl, foldlM_append_ok _ _ _ _ _ (by rw [foldlM_append_ok _ _ _ _ _ hA]; exact hB _), hC _ rfl]

end PrefVerif.C01
