import PrefVerif.Model.SingleWinner
/-! C06: association-list (Python dict) lemmas and the generic "fold of `+=`" lemma -/
namespace PrefVerif.C06
open PrefVerif PrefVerif.Py PrefVerif.SingleWinner

section alist
variable {ν : Type}

theorem get?_nil (k : Nat) : AList.get? ([] : AList Nat ν) k = none := rfl

theorem get?_cons (p : Nat × ν) (d : AList Nat ν) (k : Nat) :
    AList.get? (p :: d) k = if p.1 = k then some p.2 else AList.get? d k := by
  simp only [AList.get?, List.find?_cons]
  by_cases h : p.1 = k
  · simp [h]
  · have : (p.1 == k) = false := by simpa using h
    simp [this, h]

theorem get?_set_same (d : AList Nat ν) (k : Nat) (v : ν) : AList.get? (AList.set d k v) k = some v := by
  induction d with
  | nil => simp [AList.set, get?_cons]
  | cons p d ih =>
    simp only [AList.set]
    by_cases h : p.1 = k <;> simp [h, get?_cons, ih]

theorem get?_set_other (d : AList Nat ν) (k k' : Nat) (v : ν) (hne : k' ≠ k) :
    AList.get? (AList.set d k v) k' = AList.get? d k' := by
  induction d with
  | nil => simp [AList.set, get?_cons, get?_nil, Ne.symm hne]
  | cons p d ih =>
    simp only [AList.set]
    by_cases h : p.1 = k
    · simp only [h, beq_self_eq_true, ↓reduceIte, get?_cons]
      have : ¬ k = k' := fun e => hne e.symm
      simp [this]
    · simp [h, get?_cons, ih]

theorem mem_set (d : AList Nat ν) (k : Nat) (v : ν) (p : Nat × ν) (hp : p ∈ AList.set d k v) :
    p ∈ d ∨ p = (k, v) := by
  induction d with
  | nil => simp [AList.set] at hp; exact Or.inr hp
  | cons q d ih =>
    simp only [AList.set] at hp
    by_cases h : q.1 = k
    · simp only [h, beq_self_eq_true, ↓reduceIte, List.mem_cons] at hp
      rcases hp with hp | hp
      · right; exact hp
      · left; simp [hp]
    · simp only [beq_iff_eq, h, ↓reduceIte, List.mem_cons] at hp
      rcases hp with hp | hp
      · left; simp [hp]
      · rcases ih hp with h' | h'
        · left; simp [h']
        · exact Or.inr h'

theorem mem_keys_set (d : AList Nat ν) (k : Nat) (v : ν) (x : Nat) :
    x ∈ AList.keys (AList.set d k v) ↔ x ∈ AList.keys d ∨ x = k := by
  induction d with
  | nil => simp [AList.set, AList.keys]
  | cons q d ih =>
    simp only [AList.set]
    by_cases h : q.1 = k
    · simp only [h, beq_self_eq_true, ↓reduceIte]
      simp only [AList.keys, List.map_cons, List.mem_cons, h]
      grind
    · simp only [beq_iff_eq, h, ↓reduceIte]
      simp only [AList.keys, List.map_cons, List.mem_cons] at ih ⊢
      rw [ih]; grind

theorem nodup_keys_set (d : AList Nat ν) (k : Nat) (v : ν) (hd : (AList.keys d).Nodup) :
    (AList.keys (AList.set d k v)).Nodup := by
  induction d with
  | nil => simp [AList.set, AList.keys]
  | cons q d ih =>
    simp only [AList.set]
    by_cases h : q.1 = k
    · simp only [h, beq_self_eq_true, ↓reduceIte]
      simpa [AList.keys, h] using hd
    · simp only [beq_iff_eq, h, ↓reduceIte]
      have hd' : q.1 ∉ AList.keys d ∧ (AList.keys d).Nodup := by simpa [AList.keys] using hd
      have := mem_keys_set d k v q.1
      have ih' := ih hd'.2
      simp only [AList.keys, List.map_cons, List.nodup_cons] at this ih' ⊢
      refine ⟨?_, ih'⟩
      rw [this]; simp only [AList.keys] at hd'; grind

theorem get?_eq_none_iff (d : AList Nat ν) (k : Nat) : AList.get? d k = none ↔ k ∉ AList.keys d := by
  induction d with
  | nil => simp [get?_nil, AList.keys]
  | cons q d ih =>
    rw [get?_cons]
    simp only [AList.keys, List.map_cons, List.mem_cons] at ih ⊢
    by_cases h : q.1 = k <;> simp [h, ih] <;> grind

theorem get?_of_mem (d : AList Nat ν) (hd : (AList.keys d).Nodup) (p : Nat × ν) (hp : p ∈ d) :
    AList.get? d p.1 = some p.2 := by
  induction d with
  | nil => simp at hp
  | cons q d ih =>
    rw [get?_cons]
    have hd' : q.1 ∉ AList.keys d ∧ (AList.keys d).Nodup := by simpa [AList.keys] using hd
    rcases List.mem_cons.1 hp with rfl | hp
    · simp
    · have : q.1 ≠ p.1 := by
        intro e; apply hd'.1; rw [e]; exact List.mem_map.2 ⟨p, hp, rfl⟩
      simp [this, ih hd'.2 hp]

theorem mem_keys_of_mem (d : AList Nat ν) (p : Nat × ν) (hp : p ∈ d) : p.1 ∈ AList.keys d :=
  List.mem_map.2 ⟨p, hp, rfl⟩

end alist
end PrefVerif.C06
