import PrefVerif.Spec.Domains
import PrefVerif.Spec.Distances
import PrefVerif.Lemmas.C20Kendall
/-!
# C04 helpers: additivity of Kendall-tau along `a, b, c` ⇔ no pair switches both between
`a, b` and between `b, c`.
-/
namespace PrefVerif.C04
open PrefVerif PrefVerif.Spec PrefVerif.Distances PrefVerif.C20

theorem countP_add_disj {α : Type} (p q : α → Bool) (l : List α)
    (hd : ∀ x ∈ l, p x = true → q x = false) :
    l.countP p + l.countP q = l.countP (fun x => p x || q x) := by
  induction l with
  | nil => rfl
  | cons x l ih =>
    have ih' := ih (fun y hy => hd y (List.mem_cons_of_mem _ hy))
    have hx := hd x List.mem_cons_self
    simp only [List.countP_cons]
    cases hp : p x
    · cases hq : q x <;> simp <;> omega
    · simp [hx hp]; omega

theorem countP_eq_iff_of_imp {α : Type} (r s : α → Bool) (l : List α)
    (h : ∀ x ∈ l, r x = true → s x = true) :
    l.countP r = l.countP s ↔ ∀ x ∈ l, s x = true → r x = true := by
  induction l with
  | nil => simp
  | cons x l ih =>
    have h' : ∀ y ∈ l, r y = true → s y = true := fun y hy => h y (List.mem_cons_of_mem _ hy)
    have ih' := ih h'
    have hle : l.countP r ≤ l.countP s := List.countP_mono_left h'
    have hx := h x List.mem_cons_self
    simp only [List.countP_cons, List.forall_mem_cons]
    cases hr : r x
    · cases hs : s x
      · simp [ih']
      · simp; omega
    · simp [hx hr, ih']

theorem dis_add_iff (a b c u : List Nat) (hb : ∀ x ∈ u, x ∈ b) :
    dis a b u + dis b c u = dis a c u ↔
      ∀ x ∈ u, ∀ y ∈ u,
        ((a.idxOf x < a.idxOf y ∧ b.idxOf y < b.idxOf x) ∨ (b.idxOf x < b.idxOf y ∧ c.idxOf y < c.idxOf x)) →
          (a.idxOf x < a.idxOf y ∧ c.idxOf y < c.idxOf x) := by
  unfold dis
  rw [countP_add_disj, eq_comm, countP_eq_iff_of_imp]
  · constructor
    · intro h x hx y hy hor
      have := h (x, y) (mem_pairs.2 ⟨hx, hy⟩)
      simpa [before] using this (by simpa [before] using hor)
    · intro h p hp hor
      have hm := mem_pairs.1 hp
      have := h p.1 hm.1 p.2 hm.2 (by simpa [before] using hor)
      simpa [before] using this
  · intro p hp hac
    have hm := mem_pairs.1 hp
    simp only [Bool.and_eq_true, Bool.or_eq_true, before, decide_eq_true_eq] at hac ⊢
    obtain ⟨h1, h2⟩ := hac
    by_cases hb1 : b.idxOf p.2 < b.idxOf p.1
    · exact Or.inl ⟨h1, hb1⟩
    · right
      refine ⟨?_, h2⟩
      have hne : b.idxOf p.1 ≠ b.idxOf p.2 := by
        intro heq
        have := idxOf_inj_of_mem (hb _ hm.1) heq
        rw [this] at h1; omega
      omega
  · intro p _ hab
    simp only [Bool.and_eq_true, Bool.and_eq_false_iff, before, decide_eq_true_eq, decide_eq_false_iff_not] at hab ⊢
    left; omega

end PrefVerif.C04

namespace PrefVerif.C04
open PrefVerif PrefVerif.Spec PrefVerif.Distances PrefVerif.C20

/-- in a ranking containing both, exactly one of two distinct alternatives comes first -/
theorem prefers_total {o : List Nat} {x y : Nat} (hx : x ∈ o) (hne : x ≠ y) :
    prefers o y x = !prefers o x y := by
  have hne' : o.idxOf x ≠ o.idxOf y := fun e => hne (idxOf_inj_of_mem hx e)
  simp only [prefers]
  by_cases h : o.idxOf x < o.idxOf y
  · simp [h]; omega
  · simp [h]; omega

theorem kt_eq_dis_univ {alts a : List Nat} (b : List Nat) (ha : SameRanking alts a) :
    kt a b = dis a b alts := by
  rw [kt_eq_dis' a b ha.2.1, dis_perm_univ a b ha.perm.symm]

/-- Kendall-tau is additive along `a, b, c` iff every pair on which `b` differs from `a` is ordered
by `c` as by `b` -/
theorem kt_add_iff {alts a b c : List Nat} (ha : SameRanking alts a) (hb : SameRanking alts b)
    (hc : SameRanking alts c) :
    kt a b + kt b c = kt a c ↔
      ∀ x ∈ alts, ∀ y ∈ alts, x ≠ y → prefers b x y ≠ prefers a x y → prefers c x y = prefers b x y := by
  rw [kt_eq_dis_univ b ha, kt_eq_dis_univ c hb, kt_eq_dis_univ c ha,
    dis_add_iff a b c alts (fun x hx => (hb.2.2 x).1 hx)]
  constructor
  · intro h x hx y hy hne hba
    have hxy := h x hx y hy
    have hyx := h y hy x hx
    have ta : a.idxOf x ≠ a.idxOf y := fun e => hne (idxOf_inj_of_mem ((ha.2.2 x).1 hx) e)
    have tb : b.idxOf x ≠ b.idxOf y := fun e => hne (idxOf_inj_of_mem ((hb.2.2 x).1 hx) e)
    have tc : c.idxOf x ≠ c.idxOf y := fun e => hne (idxOf_inj_of_mem ((hc.2.2 x).1 hx) e)
    simp only [prefers, ne_eq, decide_eq_decide] at hba ⊢
    omega
  · intro h x hx y hy hor
    have hne : x ≠ y := by
      rintro rfl
      omega
    have hxy := h x hx y hy hne
    have ta : a.idxOf x ≠ a.idxOf y := fun e => hne (idxOf_inj_of_mem ((ha.2.2 x).1 hx) e)
    have tb : b.idxOf x ≠ b.idxOf y := fun e => hne (idxOf_inj_of_mem ((hb.2.2 x).1 hx) e)
    have tc : c.idxOf x ≠ c.idxOf y := fun e => hne (idxOf_inj_of_mem ((hc.2.2 x).1 hx) e)
    simp only [prefers, ne_eq, decide_eq_decide] at hxy
    omega

end PrefVerif.C04
