import PrefVerif.Lemmas.C03Spec
/-!
# C03 helper lemmas, part 6: ranks of a strict order; an axis on which a voter's ranks first improve
and then worsen is a single-peaked axis for that voter
-/
namespace PrefVerif.C03
open PrefVerif PrefVerif.ELO PrefVerif.Spec

/-- voter `o` ranks `a` strictly better than `b` (`o.index(a) < o.index(b)`) -/
def lt (o : List Nat) (a b : Nat) : Prop := o.idxOf a < o.idxOf b

/-- along `l` the voter's ranks strictly improve -/
def Desc (o l : List Nat) : Prop := l.Pairwise (fun a b => lt o b a)

/-- along `l` the voter's ranks strictly worsen -/
def Asc (o l : List Nat) : Prop := l.Pairwise (fun a b => lt o a b)

/-- improving then worsening -/
def Bitonic (o axis : List Nat) : Prop := ∃ A B, axis = A ++ B ∧ Desc o A ∧ Asc o B

theorem mem_take_iff_idxOf (o : List Nat) (a n : Nat) (h : a ∈ o) : a ∈ o.take n ↔ o.idxOf a < n := by
  induction o generalizing n with
  | nil => simp at h
  | cons b o ih =>
    cases n with
    | zero => simp
    | succ n =>
      rw [List.take_succ_cons, List.mem_cons, List.idxOf_cons]
      by_cases hb : b = a
      · subst hb; simp
      · have hin : a ∈ o := by
          rcases List.mem_cons.1 h with e | e
          · exact absurd e.symm hb
          · exact e
        have hbeq : (b == a) = false := by simpa using hb
        have hab : ¬ a = b := fun e => hb e.symm
        simp only [hbeq, cond_false, hab, false_or, ih n hin]
        omega

theorem nodup_pairwise_idxOf {o : List Nat} (hn : o.Nodup) : o.Pairwise (fun a b => lt o a b) := by
  rw [List.pairwise_iff_getElem]
  intro i j hi hj hij
  unfold lt
  rw [hn.idxOf_getElem i hi, hn.idxOf_getElem j hj]
  exact hij

/-- in a remaining preference (a sublist of the voter's order) the popped candidate is ranked below
all the others -/
theorem sublist_rank {d o : List Nat} {l : Nat} (hs : (d ++ [l]).Sublist o) (hn : o.Nodup) :
    ∀ m ∈ d, lt o m l := by
  have := (nodup_pairwise_idxOf hn).sublist hs
  rw [List.pairwise_append] at this
  intro m hm
  exact this.2.2 m hm l (by simp)

/-- a voter whose ranks improve and then worsen along the axis is single-peaked on it -/
theorem bitonic_contiguous {o axis : List Nat} (hsub : ∀ a ∈ axis, a ∈ o) (hb : Bitonic o axis)
    (n : Nat) : Contiguous axis (o.take n) := by
  obtain ⟨A, B, rfl, hA, hB⟩ := hb
  intro i j k hij hjk hk hi hkk
  have hj : j < (A ++ B).length := by omega
  have hi' : i < (A ++ B).length := by omega
  rw [getElem!_pos (A ++ B) i hi'] at hi
  rw [getElem!_pos (A ++ B) k hk] at hkk
  rw [getElem!_pos (A ++ B) j hj]
  rw [mem_take_iff_idxOf o _ n (hsub _ (List.getElem_mem _))] at hi hkk ⊢
  by_cases hjA : j < A.length
  · have hiA : i < A.length := by omega
    have := (List.pairwise_iff_getElem.1 hA) i j hiA hjA hij
    unfold lt at this
    rw [List.getElem_append_left hiA] at hi
    rw [List.getElem_append_left hjA]
    omega
  · have hjA' : A.length ≤ j := by omega
    have hkA' : A.length ≤ k := by omega
    rw [List.getElem_append_right hkA'] at hkk
    rw [List.getElem_append_right hjA']
    have := (List.pairwise_iff_getElem.1 hB) (j - A.length) (k - A.length)
      (by rw [List.length_append] at hj; omega) (by rw [List.length_append] at hk; omega) (by omega)
    unfold lt at this
    omega

/-- appending a candidate that is better than the current last one -/
theorem desc_append_of_last {o L0 : List Nat} {xi x : Nat} (h : Desc o (L0 ++ [xi])) (hx : lt o x xi) :
    Desc o (L0 ++ [xi] ++ [x]) := by
  unfold Desc at h ⊢
  rw [List.pairwise_append]
  refine ⟨h, by simp, ?_⟩
  intro a ha b hb
  simp only [List.mem_singleton] at hb; subst hb
  rw [List.pairwise_append] at h
  rcases List.mem_append.1 ha with ha | ha
  · have := h.2.2 a ha xi (by simp)
    unfold lt at this hx ⊢; omega
  · simp only [List.mem_singleton] at ha; subst ha; exact hx

/-- prepending a candidate that is better than the current first one -/
theorem asc_cons_of_head {o R0 : List Nat} {xj x : Nat} (h : Asc o (xj :: R0)) (hx : lt o x xj) :
    Asc o (x :: xj :: R0) := by
  unfold Asc at h ⊢
  rw [List.pairwise_cons]
  refine ⟨?_, h⟩
  intro a ha
  rw [List.pairwise_cons] at h
  rcases List.mem_cons.1 ha with ha | ha
  · subst ha; exact hx
  · have := h.1 a ha
    unfold lt at this hx ⊢; omega

end PrefVerif.C03
