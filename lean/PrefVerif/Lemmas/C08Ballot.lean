import PrefVerif.Lemmas.C08Render
import PrefVerif.Lemmas.C01Ballot
import PrefVerif.Lemmas.IOLoop
/-!
# C08 — ballot lines: what `write` produces is read back by `ballotLine`
-/
namespace PrefVerif.C08
open PrefVerif PrefVerif.Py PrefVerif.InstanceIO PrefVerif.CategoricalIO PrefVerif.IOL

/-- `m: categories` — one ballot line without its `\n` -/
def ballotText (m : Nat) (b : Ballot) : Str := natToStr m ++ ':' :: ' ' :: renderBallot b

theorem ballotText_eq (m : Nat) (b : Ballot) : ballotText m b = C01.ballotText m b := by
  rw [ballotText, C01.ballotText, renderBallot_eq_renderOrder]

theorem lineOK_ballotText (m : Nat) (b : Ballot) : LineOK (ballotText m b) := by
  rw [ballotText_eq]; exact C01.lineOK_ballotText m b

/-- a ballot line does not look like a header line -/
theorem ballotText_not_hash (m : Nat) (b : Ballot) :
    startsWith (strip (ballotText m b ++ ['\n'])) ['#'] = false := by
  rw [ballotText_eq]; exact C01.ballotText_not_hash m b

theorem ballotText_edged_space (m : Nat) (b : Ballot) (hb : b ≠ []) : Edged isSpace (ballotText m b) := by
  have h1 : Edged isSpace (natToStr m) :=
    edged_of_all (natToStr_ne_nil m) (fun c hc => natToStr_no_space hc)
  have := Edged.append h1 (renderBallot_edged_space b hb) [':', ' ']
  simpa [ballotText] using this

/-- `line.strip().replace(" ", "")` of a written ballot line -/
theorem removeSpaces_strip_ballotText (m : Nat) (b : Ballot) (hb : b ≠ []) :
    removeSpaces (strip (ballotText m b ++ ['\n'])) = natToStr m ++ ':' :: cBallot b := by
  rw [strip_snoc_newline, strip_of_edged (ballotText_edged_space m b hb), ballotText,
    removeSpaces_append, removeSpaces_natToStr,
    show (':' :: ' ' :: renderBallot b) = [':', ' '] ++ renderBallot b from rfl, removeSpaces_append,
    removeSpaces_renderBallot]
  simp [show removeSpaces [':', ' '] = [':'] by decide]

theorem cBallot_ne_colon (b : Ballot) : ∀ c ∈ cBallot b, c ≠ ':' := by
  rw [cBallot_eq]; exact C01.cOrder_ne_colon b

/-- one written ballot line, read back (no `autocorrect`): the ballot is appended and its
multiplicity recorded -/
theorem ballotLine_written (i0 : CatInst) (m : Nat) (b : Ballot) (hb : b ≠ []) :
    ballotLine false i0 (ballotText m b ++ ['\n'])
      = .ok { i0 with preferences := i0.preferences ++ [b],
                      multiplicity := AList.set i0.multiplicity b m } := by
  have hsplit : splitOn ':' (natToStr m ++ ':' :: cBallot b) = [natToStr m, cBallot b] :=
    splitOn_pair _ _ (fun c hc => natToStr_ne hc (by decide)) (cBallot_ne_colon b)
  have hint : intField (natToStr m) = .ok m := by simp [intField, toNat?_natToStr]
  simp only [ballotLine, removeSpaces_strip_ballotText m b hb, hsplit, hint, scanBallot_cBallot b]
  simp
  rfl

end PrefVerif.C08
