import PrefVerif.Lemmas.C19xReal
/-!
# C19x helper lemmas, part 3: the colouring stage succeeds and the colours say where the alternatives lie
-/
namespace PrefVerif.C19x
open PrefVerif PrefVerif.Euclid PrefVerif.Spec

/-- one end `v1` of the arrangement found by the pre-check sits at `u`, the other end `vn` at `w`, and `u < w` -/
structure Geo (alts : List Nat) (x : Nat → Rat) (v1 vn : List Nat) (u w : Rat) : Prop where
  ne : alts ≠ []
  p1 : v1.Perm alts
  pn : vn.Perm alts
  r1 : Rep alts x v1 u
  rn : Rep alts x vn w
  lt : u < w

/-- the test deciding the initial colour red -/
def isRed0 (v1 vn : List Nat) (c : Nat) : Bool :=
  (decide (idx v1 c < idx v1 (vn.headD 0)) && decide (idx vn c < idx vn (v1.headD 0))) ||
    c == v1.headD 0 || c == vn.headD 0

section
variable {alts : List Nat} {x : Nat → Rat} {v1 vn : List Nat} {u w : Rat}

theorem Geo.cm_mem (G : Geo alts x v1 vn u w) : v1.headD 0 ∈ alts := headD_mem G.p1 G.ne
theorem Geo.cp_mem (G : Geo alts x v1 vn u w) : vn.headD 0 ∈ alts := headD_mem G.pn G.ne

theorem Geo.tops_le (G : Geo alts x v1 vn u w) : x (v1.headD 0) ≤ x (vn.headD 0) :=
  C19x.tops_le u w _ _ G.lt (G.r1.top G.p1 G.ne G.cp_mem) (G.rn.top G.pn G.ne G.cm_mem)

theorem Geo.red_pos (G : Geo alts x v1 vn u w) {c : Nat} (hc : c ∈ alts) (h : isRed0 v1 vn c = true) :
    x (v1.headD 0) ≤ x c ∧ x c ≤ x (vn.headD 0) := by
  simp only [isRed0, idx, Bool.or_eq_true, Bool.and_eq_true, beq_iff_eq] at h
  rcases h with (⟨h1, h2⟩ | rfl) | rfl
  · exact red_between u w _ _ _ G.lt (G.r1.top G.p1 G.ne hc) (G.rn.top G.pn G.ne hc)
      ((G.r1 c hc _ G.cp_mem).1 (of_decide_eq_true h1)) ((G.rn c hc _ G.cm_mem).1 (of_decide_eq_true h2))
  · exact ⟨Rat.le_refl, G.tops_le⟩
  · exact ⟨G.tops_le, Rat.le_refl⟩

theorem Geo.green_pos (G : Geo alts x v1 vn u w) {a b : Nat} (ha : a ∈ alts) (hb : b ∈ alts)
    (h1 : idx v1 a < idx v1 b) (h2 : idx vn b < idx vn a) (hr : isRed0 v1 vn a = false) :
    x a < x (v1.headD 0) := by
  simp only [isRed0, idx, Bool.or_eq_false_iff, Bool.and_eq_false_iff, beq_eq_false_iff_ne] at hr
  obtain ⟨⟨hr, hacm⟩, hacp⟩ := hr
  refine green_lt u w _ _ _ _ G.lt ((G.r1 a ha b hb).1 h1) ((G.rn b hb a ha).1 h2) ?_
    (G.r1.top G.p1 G.ne ha) (G.rn.top G.pn G.ne hb) ?_ (G.rn.total G.pn ha G.cm_mem hacm)
  · rintro ⟨c1, c2⟩
    rcases hr with hr | hr
    · exact of_decide_eq_false hr ((G.r1 a ha _ G.cp_mem).2 c1)
    · exact of_decide_eq_false hr ((G.rn a ha _ G.cm_mem).2 c2)
  · rcases G.r1.total G.p1 ha G.cp_mem hacp with h | h
    · exact Or.inl h
    · exact Or.inr (Or.inl h)

theorem Geo.blue_pos (G : Geo alts x v1 vn u w) {a b : Nat} (ha : a ∈ alts) (hb : b ∈ alts)
    (h1 : idx v1 a < idx v1 b) (h2 : idx vn b < idx vn a) (hr : isRed0 v1 vn b = false) :
    x (vn.headD 0) < x b := by
  simp only [isRed0, idx, Bool.or_eq_false_iff, Bool.and_eq_false_iff, beq_eq_false_iff_ne] at hr
  obtain ⟨⟨hr, hbcm⟩, hbcp⟩ := hr
  refine blue_gt u w _ _ _ _ G.lt ((G.r1 a ha b hb).1 h1) ((G.rn b hb a ha).1 h2) ?_
    (G.rn.top G.pn G.ne hb) (G.r1.top G.p1 G.ne ha) ?_ (G.r1.total G.p1 hb G.cp_mem hbcp)
  · rintro ⟨c1, c2⟩
    rcases hr with hr | hr
    · exact of_decide_eq_false hr ((G.r1 b hb _ G.cp_mem).2 c1)
    · exact of_decide_eq_false hr ((G.rn b hb _ G.cm_mem).2 c2)
  · rcases G.rn.total G.pn hb G.cm_mem hbcm with h | h
    · exact Or.inl h
    · exact Or.inr (Or.inl h)

theorem Geo.no_blue_left (G : Geo alts x v1 vn u w) {a b : Nat} (ha : a ∈ alts) (hb : b ∈ alts)
    (h1 : idx v1 a < idx v1 b) (h2 : idx vn b < idx vn a) : ¬ x (vn.headD 0) < x a :=
  cross_left_le u w _ _ _ G.lt ((G.r1 a ha b hb).1 h1) ((G.rn b hb a ha).1 h2) (G.rn.top G.pn G.ne hb)

theorem Geo.no_green_right (G : Geo alts x v1 vn u w) {a b : Nat} (ha : a ∈ alts) (hb : b ∈ alts)
    (h1 : idx v1 a < idx v1 b) (h2 : idx vn b < idx vn a) : ¬ x b < x (v1.headD 0) :=
  cross_right_ge u w _ _ _ G.lt ((G.r1 a ha b hb).1 h1) ((G.rn b hb a ha).1 h2) (G.r1.top G.p1 G.ne ha)

/-- right of the first voter's top, the first voter ranks from left to right -/
theorem Geo.v1_order (G : Geo alts x v1 vn u w) {a b : Nat} (ha : a ∈ alts) (hb : b ∈ alts) (hab : a ≠ b)
    (hpa : x (v1.headD 0) ≤ x a) (hpb : x (v1.headD 0) ≤ x b) : idx v1 a < idx v1 b ↔ x a < x b := by
  have hx := G.r1.inj G.p1 ha hb hab
  constructor
  · intro h
    rcases (show x a < x b ∨ x b < x a by grind) with h' | h'
    · exact h'
    · exact absurd ((G.r1 a ha b hb).1 h) (right_of_top u _ _ _ hpb h' (G.r1.top G.p1 G.ne ha))
  · intro h
    rcases G.r1.total G.p1 ha hb hab with h' | h'
    · exact (G.r1 a ha b hb).2 h'
    · exact absurd h' (right_of_top u _ _ _ hpa h (G.r1.top G.p1 G.ne hb))

/-- left of the last voter's top, the last voter ranks from right to left -/
theorem Geo.vn_order (G : Geo alts x v1 vn u w) {a b : Nat} (ha : a ∈ alts) (hb : b ∈ alts) (hab : a ≠ b)
    (hqa : x a ≤ x (vn.headD 0)) (hqb : x b ≤ x (vn.headD 0)) : idx vn a < idx vn b ↔ x b < x a := by
  have hx := G.rn.inj G.pn ha hb hab
  constructor
  · intro h
    rcases (show x a < x b ∨ x b < x a by grind) with h' | h'
    · exact absurd ((G.rn a ha b hb).1 h) (left_of_top w _ _ _ hqb h' (G.rn.top G.pn G.ne ha))
    · exact h'
  · intro h
    rcases G.rn.total G.pn ha hb hab with h' | h'
    · exact (G.rn a ha b hb).2 h'
    · exact absurd h' (left_of_top w _ _ _ hqa h (G.rn.top G.pn G.ne hb))

end

/-! ### the colouring -/

theorem colour_setColour_ne (g : Colouring) (c v c' : Nat) (h : c' ≠ c) :
    colour (setColour g c v) c' = colour g c' := by
  unfold colour setColour
  congr 1
  induction g with
  | nil => rfl
  | cons kv g ih =>
    rw [List.map_cons, List.lookup_cons, List.lookup_cons]
    by_cases e : kv.1 = c
    · have e1 : (kv.1 == c) = true := by simpa using e
      have e2 : (c' == kv.1) = false := by simpa [e] using h
      simp only [e1, if_true, e2]
      exact ih
    · have e1 : (kv.1 == c) = false := by simpa using e
      simp only [e1, Bool.false_eq_true, if_false]
      cases (c' == kv.1)
      · exact ih
      · rfl

theorem colour_setColour_self (g : Colouring) (c v : Nat) :
    colour (setColour g c v) c = v ∨ colour (setColour g c v) c = colour g c := by
  unfold colour setColour
  induction g with
  | nil => right; rfl
  | cons kv g ih =>
    rw [List.map_cons, List.lookup_cons, List.lookup_cons]
    by_cases e : kv.1 = c
    · have e1 : (kv.1 == c) = true := by simpa using e
      have e2 : (c == kv.1) = true := by simpa using e.symm
      left
      simp [e1, e2]
    · have e1 : (kv.1 == c) = false := by simpa using e
      have e2 : (c == kv.1) = false := by simpa using (Ne.symm e)
      simp only [e1, Bool.false_eq_true, if_false, e2]
      exact ih

theorem lookup_map_mk (f : Nat → Nat) (cs : List Nat) (c : Nat) (hc : c ∈ cs) :
    (cs.map (fun c => (c, f c))).lookup c = some (f c) := by
  induction cs with
  | nil => simp at hc
  | cons d cs ih =>
    rw [List.map_cons, List.lookup_cons]
    by_cases e : c = d
    · subst e; simp
    · have : (c == d) = false := by simpa using e
      rw [this]
      rcases List.mem_cons.1 hc with h | h
      · exact absurd h e
      · exact ih h

theorem colour_init (cs v1 vn : List Nat) (c : Nat) (hc : c ∈ cs) :
    colour (initColouring cs v1 vn (v1.headD 0) (vn.headD 0)) c = if isRed0 v1 vn c then 0 else 3 := by
  have : initColouring cs v1 vn (v1.headD 0) (vn.headD 0) =
      cs.map (fun c => (c, if isRed0 v1 vn c then 0 else 3)) := by
    unfold initColouring isRed0
    apply List.map_congr_left
    intro d _
    split <;> rfl
  rw [this, colour, lookup_map_mk _ cs c hc]
  rfl

/-- what the colours mean -/
def Inv (alts : List Nat) (x : Nat → Rat) (v1 vn : List Nat) (g : Colouring) : Prop :=
  ∀ c ∈ alts,
    (colour g c = 0 → x (v1.headD 0) ≤ x c ∧ x c ≤ x (vn.headD 0)) ∧
    (colour g c = 1 → x (vn.headD 0) < x c) ∧
    (colour g c = 2 → x c < x (v1.headD 0)) ∧
    (colour g c = 3 → isRed0 v1 vn c = false) ∧
    colour g c ≤ 3

section
variable {alts : List Nat} {x : Nat → Rat} {v1 vn : List Nat} {u w : Rat}

theorem inv_init (G : Geo alts x v1 vn u w) :
    Inv alts x v1 vn (initColouring alts v1 vn (v1.headD 0) (vn.headD 0)) := by
  intro c hc
  rw [colour_init alts v1 vn c hc]
  by_cases h : isRed0 v1 vn c = true
  · rw [if_pos h]
    exact ⟨fun _ => G.red_pos hc h, by intro; omega, by intro; omega, by intro; omega, by omega⟩
  · rw [if_neg h]
    exact ⟨by intro; omega, by intro; omega, by intro; omega, fun _ => by simpa using h, by omega⟩

theorem inv_set {g : Colouring} (hinv : Inv alts x v1 vn g) (c v : Nat) (h3 : colour g c = 3)
    (hv : v = 1 ∨ v = 2) (h1 : v = 1 → x (vn.headD 0) < x c) (h2 : v = 2 → x c < x (v1.headD 0)) :
    Inv alts x v1 vn (setColour g c v) := by
  intro c' hc'
  by_cases e : c' = c
  · subst e
    rcases colour_setColour_self g c' v with h | h
    · rw [h]
      exact ⟨by intro; omega, h1, h2, by intro; omega, by omega⟩
    · rw [h]; exact hinv c' hc'
  · rw [colour_setColour_ne g c v c' e]; exact hinv c' hc'

theorem colourPairs_some (G : Geo alts x v1 vn u w) (ps : List (Nat × Nat))
    (hps : ∀ p ∈ ps, p.1 ∈ alts ∧ p.2 ∈ alts) (g : Colouring) (hinv : Inv alts x v1 vn g) :
    ∃ g', colourPairs v1 vn ps g = some g' ∧ Inv alts x v1 vn g' := by
  induction ps generalizing g with
  | nil => exact ⟨g, rfl, hinv⟩
  | cons p ps ih =>
    obtain ⟨a, b⟩ := p
    obtain ⟨ha, hb⟩ := hps (a, b) (by simp)
    have hps' : ∀ p ∈ ps, p.1 ∈ alts ∧ p.2 ∈ alts := fun p hp => hps p (List.mem_cons_of_mem _ hp)
    unfold colourPairs
    by_cases hx : (decide (idx v1 a < idx v1 b) && decide (idx vn b < idx vn a)) = true
    · rw [if_pos hx]
      simp only [Bool.and_eq_true, decide_eq_true_eq] at hx
      obtain ⟨hx1, hx2⟩ := hx
      have na : colour g a ≠ 1 := fun e => G.no_blue_left ha hb hx1 hx2 ((hinv a ha).2.1 e)
      have nb : colour g b ≠ 2 := fun e => G.no_green_right ha hb hx1 hx2 ((hinv b hb).2.2.1 e)
      have hno : (colour g a == 1 || colour g b == 2) = false := by simp [na, nb]
      rw [hno]
      simp only [Bool.false_eq_true, if_false]
      apply ih hps'
      have hinv1 : Inv alts x v1 vn (if (colour g a == 3) = true then setColour g a 2 else g) := by
        split
        · next h3 =>
          have h3' : colour g a = 3 := by simpa using h3
          exact inv_set hinv a 2 h3' (Or.inr rfl) (by omega)
            (fun _ => G.green_pos ha hb hx1 hx2 ((hinv a ha).2.2.2.1 h3'))
        · exact hinv
      generalize (if (colour g a == 3) = true then setColour g a 2 else g) = g1 at hinv1 ⊢
      split
      · next h3 =>
        have h3' := beq_iff_eq.1 h3
        exact inv_set hinv1 b 1 h3' (Or.inl rfl)
          (fun _ => G.blue_pos ha hb hx1 hx2 ((hinv1 b hb).2.2.2.1 h3')) (by omega)
      · exact hinv1
    · rw [if_neg hx]
      exact ih hps' g hinv

theorem mem_orderedPairs (cs : List Nat) (p : Nat × Nat) (h : p ∈ orderedPairs cs) : p.1 ∈ cs ∧ p.2 ∈ cs := by
  unfold orderedPairs at h
  obtain ⟨a, ha, hp⟩ := List.mem_flatMap.1 h
  obtain ⟨b, hb, rfl⟩ := List.mem_map.1 hp
  exact ⟨ha, (List.mem_filter.1 hb).1⟩

/-- the colouring stage succeeds, and its colours say where the alternatives lie -/
theorem colouring_some (G : Geo alts x v1 vn u w) :
    ∃ g, colourPairs v1 vn (orderedPairs alts) (initColouring alts v1 vn (v1.headD 0) (vn.headD 0)) = some g ∧
      Inv alts x v1 vn g :=
  colourPairs_some G _ (mem_orderedPairs alts) _ (inv_init G)

end

theorem stage_coloured (alts : List Nat) (orders : List (List Nat)) (v1 vn : List Nat) (g : Colouring)
    (hsc : (SingleCrossing.isSC orders alts.length).1 = true)
    (hh : (scOrders alts orders).head? = some v1) (hl : (scOrders alts orders).getLast? = some vn)
    (hg : colourPairs v1 vn (orderedPairs alts) (initColouring alts v1 vn (v1.headD 0) (vn.headD 0)) = some g) :
    (stage alts orders).coloured = some g := by
  unfold stage
  rw [hsc]
  exact C19.stageOn_coloured alts _ v1 vn g hh hl hg

end PrefVerif.C19x
