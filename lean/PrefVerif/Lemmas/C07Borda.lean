import PrefVerif.Lemmas.C07Table
/-!
# C07 helper lemmas: `borda_scores`
-/
namespace PrefVerif.C07
open PrefVerif PrefVerif.Pairwise PrefVerif.Py PrefVerif.Spec

set_option linter.unusedSimpArgs false

/-- `res[a]` of a `defaultdict(int)` -/
def val (r : AList Nat Int) (a : Nat) : Int := (AList.get? r a).getD 0

theorem val_upd (r : AList Nat Int) (alt : Nat) (c : Int) (a : Nat) :
    val (AList.upd r alt 0 (· + c)) a = val r a + if a = alt then c else 0 := by
  simp only [val, AList.upd, get?_set]
  by_cases h : alt = a
  · subst h; simp
  · have : ¬ a = alt := fun h' => h h'.symm
    simp [h, this]

theorem val_cls (cls : List Nat) (c : Int) (r : AList Nat Int) (a : Nat) :
    val (cls.foldl (fun r alt => AList.upd r alt 0 (· + c)) r) a
      = val r a + (cls.count a : Int) * c := by
  induction cls generalizing r with
  | nil => simp
  | cons x cls ih =>
    rw [List.foldl_cons, ih, val_upd, List.count_cons]
    by_cases h : a = x
    · subst h; simp [Int.add_mul]; omega
    · have : ¬ x = a := fun h' => h h'.symm
      simp [h, this]

/-- total Borda increment of `a` over one order, starting the countdown at `i` -/
def bsum (a : Nat) : Int → Order → Int
  | _, [] => 0
  | i, c :: o => (c.count a : Int) * (i - c.length) + bsum a (i - c.length) o

theorem val_bordaLoop (o : Order) (m : Nat) (a : Nat) (r : AList Nat Int) (i : Int) :
    val (o.foldl (fun (acc : AList Nat Int × Int) cls =>
      let i := acc.2 - cls.length
      (cls.foldl (fun r alt => AList.upd r alt 0 (· + i * m)) acc.1, i)) (r, i)).1 a
      = val r a + bsum a i o * m := by
  induction o generalizing r i with
  | nil => simp [bsum]
  | cons c o ih =>
    rw [List.foldl_cons]
    simp only
    rw [ih, val_cls, bsum]
    simp only [Int.add_mul, Int.mul_assoc, Int.add_assoc]

theorem val_bordaOrder (res : AList Nat Int) (n : Nat) (o : Order) (m : Nat) (a : Nat) :
    val (bordaOrder res n o m) a = val res a + bsum a n o * m :=
  val_bordaLoop o m a res n

theorem bsum_of_not_mem (a : Nat) (i : Int) (o : Order) (h : a ∉ o.flatten) : bsum a i o = 0 := by
  induction o generalizing i with
  | nil => rfl
  | cons c o ih =>
    simp only [List.flatten_cons, List.mem_append, not_or] at h
    simp [bsum, List.count_eq_zero.mpr h.1, ih _ h.2]

theorem bsum_eq_bordaOf (a : Nat) (i : Int) (o : Order) (hnd : o.flatten.Nodup) :
    bsum a i o = bordaOf i o a := by
  induction o generalizing i with
  | nil => rfl
  | cons c o ih =>
    simp only [List.flatten_cons, List.nodup_append] at hnd
    obtain ⟨hc, ho, hdis⟩ := hnd
    by_cases h : a ∈ c
    · have hn : a ∉ o.flatten := fun h' => hdis a h a h' rfl
      simp [bsum, bordaOf, h, hc.count, bsum_of_not_mem a _ o hn]
    · simp [bsum, bordaOf, h, List.count_eq_zero.mpr h, ih _ ho]

theorem sum_replicate_int (n : Nat) (c : Int) : (List.replicate n c).sum = c * n := by
  induction n with
  | zero => simp
  | succ n ih => simp only [List.replicate_succ, List.sum_cons, ih]; rw [Int.natCast_succ, Int.mul_add]; omega

theorem bordaScore_votes (n : Nat) (p : Profile) (a : Nat) :
    bordaScore n (votes p) a = (p.map (fun om => bordaOf (n : Int) om.1 a * (om.2 : Int))).sum := by
  induction p with
  | nil => simp [bordaScore, votes]
  | cons om p ih =>
    simp only [bordaScore, votes, List.flatMap_cons, List.map_append, List.sum_append,
      List.map_replicate, sum_replicate_int, List.map_cons, List.sum_cons] at ih ⊢
    rw [ih]

theorem val_bordaScores (alts : List Nat) (n : Nat) (p : Profile)
    (h : ∀ om ∈ p, wfOrder alts om.1 = true) (a : Nat) (r : AList Nat Int) :
    val (p.foldl (fun r om => bordaOrder r n om.1 om.2) r) a
      = val r a + (p.map (fun om => bordaOf (n : Int) om.1 a * (om.2 : Int))).sum := by
  induction p generalizing r with
  | nil => simp
  | cons om p ih =>
    rw [List.foldl_cons, ih (fun om' h' => h om' (by simp [h'])), val_bordaOrder,
      bsum_eq_bordaOf a n om.1 (wfOrder_nodup (h om (by simp)))]
    simp only [List.map_cons, List.sum_cons, Int.add_assoc]

end PrefVerif.C07
