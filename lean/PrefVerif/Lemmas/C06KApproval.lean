import PrefVerif.Lemmas.C06Rules
/-! C06: k-approval and veto -/
namespace PrefVerif.C06
open PrefVerif PrefVerif.Py PrefVerif.SingleWinner PrefVerif.Spec

theorem headD_mem {c : List Nat} (h : c ≠ []) : c.headD 0 ∈ c := by
  cases c with
  | nil => exact absurd rfl h
  | cons x c => simp

theorem heads_nodup (o : Order) (hne : ∀ c ∈ o, c ≠ []) (hnd : o.flatten.Nodup) :
    (o.map (fun c => c.headD 0)).Nodup := by
  induction o with
  | nil => simp
  | cons c o ih =>
    rw [List.flatten_cons, List.nodup_append] at hnd
    simp only [List.map_cons, List.nodup_cons]
    refine ⟨?_, ih (fun c' h => hne c' (by simp [h])) hnd.2.1⟩
    intro hmem
    obtain ⟨c', hc', e⟩ := List.mem_map.1 hmem
    have h1 : c.headD 0 ∈ c := headD_mem (hne c (by simp))
    have h2 : c'.headD 0 ∈ o.flatten := List.mem_flatten.2 ⟨c', hc', headD_mem (hne c' (by simp [hc']))⟩
    exact hnd.2.2 _ h1 _ h2 e.symm

theorem heads_mem (o : Order) (hne : ∀ c ∈ o, c ≠ []) (a : Nat) (ha : a ∈ o.map (fun c => c.headD 0)) :
    a ∈ o.flatten := by
  obtain ⟨c, hc, rfl⟩ := List.mem_map.1 ha
  exact List.mem_flatten.2 ⟨c, hc, headD_mem (hne c hc)⟩

theorem kApprovalScores_eq (k : Nat) (p : Profile) :
    kApprovalScores k p = applyIncs [] (p.flatMap (fun om =>
      ((om.1.take k).map (fun c => c.headD 0)).map (fun a => (a, (om.2 : Int))))) := by
  simp only [kApprovalScores, applyIncs, List.foldl_flatMap, List.foldl_map]

theorem kApproval_core (i : Inst) (k : Nat) (hk : 1 ≤ k) (hwf : wfInst i = true) :
    ∃ ws, argmaxKeys (kApprovalScores k i.profile) = some ws ∧
      IsArgmax i.alts (topCount k (votes i.profile)) ws := by
  obtain ⟨_, hp, hall⟩ := (wfInst_iff i).1 hwf
  rw [kApprovalScores_eq]
  apply countRule_spec i.alts i.profile _ (fun o a => inTop k o a)
  · cases hpr : i.profile with
    | nil => exact absurd hpr hp
    | cons om p =>
      obtain ⟨h1, _⟩ := (wfOrder_iff _ _).1 (hall om (by simp [hpr])).1
      simp only [List.flatMap_cons, ne_eq, List.append_eq_nil_iff, List.map_eq_nil_iff, not_and,
        List.take_eq_nil_iff]
      intro h; rcases h with h | h
      · omega
      · exact absurd h h1
  · intro om hom x hx
    obtain ⟨a, ha, rfl⟩ := List.mem_map.1 hx
    obtain ⟨h1, h2, h3, h4⟩ := (wfOrder_iff _ _).1 (hall om hom).1
    have hsub : ((om.1.take k).map (fun c => c.headD 0)).Sublist (om.1.map (fun c => c.headD 0)) :=
      (List.take_sublist k om.1).map _
    exact ⟨h3 a (heads_mem om.1 h2 a (hsub.subset ha)), by have := (hall om hom).2; simp; omega⟩
  · intro om hom a
    obtain ⟨h1, h2, h3, h4⟩ := (wfOrder_iff _ _).1 (hall om hom).1
    have hsub : ((om.1.take k).map (fun c => c.headD 0)).Sublist (om.1.map (fun c => c.headD 0)) :=
      (List.take_sublist k om.1).map _
    rw [tot_map_const_int _ _ _ (hsub.nodup (heads_nodup om.1 h2 h4))]
    simp only [inTop, List.contains_iff_mem]

/-! ### veto -/

theorem getLastD_mem' (o : Order) (h : o ≠ []) : o.getLastD [] ∈ o := by
  rw [List.getLastD_eq_getLast?, List.getLast?_eq_some_getLast h]
  exact List.getLast_mem h

theorem class_nodup (o : Order) (c : List Nat) (hc : c ∈ o) (hnd : o.flatten.Nodup) : c.Nodup := by
  induction o with
  | nil => simp at hc
  | cons c' o ih =>
    rw [List.flatten_cons, List.nodup_append] at hnd
    rcases List.mem_cons.1 hc with rfl | hc
    · exact hnd.1
    · exact ih hc hnd.2.1

/-- `{a: 0 for a in alts}` on top of `s` -/
def zeroInit (alts : List Nat) (s : AList Nat Int) : AList Nat Int :=
  alts.foldl (fun s a => AList.set s a 0) s

theorem zeroInit_spec (alts : List Nat) (s : AList Nat Int) (hnd : (AList.keys s).Nodup)
    (hz : ∀ p ∈ s, p.2 = 0) :
    (AList.keys (zeroInit alts s)).Nodup ∧ (∀ p ∈ zeroInit alts s, p.2 = 0) ∧
    ∀ x, x ∈ AList.keys (zeroInit alts s) ↔ x ∈ AList.keys s ∨ x ∈ alts := by
  induction alts generalizing s with
  | nil => exact ⟨hnd, hz, by simp [zeroInit]⟩
  | cons a alts ih =>
    have := ih (AList.set s a 0) (nodup_keys_set _ _ _ hnd) (by
      intro p hp
      rcases mem_set _ _ _ _ hp with h | h
      · exact hz p h
      · rw [h])
    simp only [zeroInit, List.foldl_cons] at this ⊢
    refine ⟨this.1, this.2.1, fun x => ?_⟩
    rw [this.2.2 x, mem_keys_set]; simp only [List.mem_cons]; grind

theorem vetoScores_eq (alts : List Nat) (p : Profile) :
    vetoScores alts p = applyIncs (zeroInit alts [])
      (p.flatMap (fun om => (om.1.getLastD []).map (fun a => (a, (om.2 : Int))))) := by
  simp only [vetoScores, applyIncs, zeroInit, List.foldl_flatMap, List.foldl_map]

theorem veto_core (i : Inst) (hwf : wfInst i = true) :
    ∃ ws, argminKeys (vetoScores i.alts i.profile) = some ws ∧
      IsArgmin i.alts (vetoScore (votes i.profile)) ws := by
  obtain ⟨_, hp, hall⟩ := (wfInst_iff i).1 hwf
  obtain ⟨z1, z2, z3⟩ := zeroInit_spec i.alts [] (by simp [AList.keys]) (by simp)
  have hlast : ∀ om ∈ i.profile, om.1.getLastD [] ∈ om.1 ∧ (om.1.getLastD []).Nodup ∧
      ∀ a ∈ om.1.getLastD [], a ∈ i.alts := by
    intro om hom
    obtain ⟨h1, h2, h3, h4⟩ := (wfOrder_iff _ _).1 (hall om hom).1
    have hm := getLastD_mem' om.1 h1
    exact ⟨hm, class_nodup _ _ hm h4, fun a ha => h3 a (List.mem_flatten.2 ⟨_, hm, ha⟩)⟩
  have halts : i.alts ≠ [] := by
    cases hpr : i.profile with
    | nil => exact absurd hpr hp
    | cons om p =>
      obtain ⟨h1, h2, h3, h4⟩ := (wfOrder_iff _ _).1 (hall om (by simp [hpr])).1
      cases ho : om.1 with
      | nil => exact absurd ho h1
      | cons c o =>
        have hc := h2 c (by simp [ho])
        cases c with
        | nil => exact absurd rfl hc
        | cons a c =>
          intro e
          have := h3 a (by simp [ho])
          simp [e] at this
  rw [vetoScores_eq]
  obtain ⟨ws, h1, h2⟩ := fullDict_spec selInt_min i.alts
    (fun a => ((vetoScore (votes i.profile) a : Nat) : Int))
    (applyIncs (zeroInit i.alts [])
      (i.profile.flatMap (fun om => (om.1.getLastD []).map (fun a => (a, (om.2 : Int))))))
    (nodup_keys_applyIncs _ _ z1)
    (by
      intro a ha
      rcases (mem_keys_applyIncs _ _ _).1 ha with h | h
      · simpa [AList.keys] using (z3 a).1 h
      · obtain ⟨x, hx, rfl⟩ := List.mem_map.1 h
        obtain ⟨om, hom, hx⟩ := List.mem_flatMap.1 hx
        obtain ⟨b, hb, rfl⟩ := List.mem_map.1 hx
        exact (hlast om hom).2.2 b hb)
    (fun a ha => (mem_keys_applyIncs _ _ _).2 (Or.inl ((z3 a).2 (Or.inr ha))))
    (by
      intro a _
      rw [val_applyIncs_int, tot_flatMap_countP _ (fun o => (o.getLastD []).contains a) a i.profile
        (fun om hom => by
          rw [tot_map_const_int _ _ _ (hlast om hom).2.1]; simp only [List.contains_iff_mem])]
      have : val (zeroInit i.alts []) a = 0 := by
        unfold val
        cases hg : AList.get? (zeroInit i.alts []) a with
        | none => rfl
        | some v => exact z2 _ (mem_of_get?_some _ _ _ hg)
      rw [this]; simp [vetoScore])
    halts
  exact ⟨ws, by rw [argminKeys_eq]; exact h1, isArgmin_cast h2⟩

end PrefVerif.C06
