import PrefVerif.Lemmas.C06AList
import PrefVerif.Model.Pairwise
/-! C06: the nested pairwise table as a function `alts → alts → Int` -/
namespace PrefVerif.C06
open PrefVerif PrefVerif.Py PrefVerif.Pairwise

theorem get?_map {ν : Type} (l : List Nat) (g : Nat → ν) (k : Nat) :
    AList.get? (l.map (fun x => (x, g x))) k = if k ∈ l then some (g k) else none := by
  induction l with
  | nil => simp [get?_nil]
  | cons x l ih =>
    rw [List.map_cons, get?_cons, ih]
    by_cases h : x = k
    · subst h; simp
    · have : ¬ k = x := fun e => h e.symm
      simp [h, this]

theorem set_map {ν : Type} (l : List Nat) (g : Nat → ν) (k : Nat) (v : ν) (hk : k ∈ l) (hnd : l.Nodup) :
    AList.set (l.map (fun x => (x, g x))) k v = l.map (fun x => (x, if x = k then v else g x)) := by
  induction l with
  | nil => simp at hk
  | cons x l ih =>
    have hnd' := List.nodup_cons.1 hnd
    simp only [List.map_cons, AList.set]
    by_cases h : x = k
    · subst h
      simp only [beq_self_eq_true, ↓reduceIte, List.cons.injEq, true_and]
      apply List.map_congr_left
      intro y hy
      have : ¬ y = x := fun e => hnd'.1 (e ▸ hy)
      simp [this]
    · have hk' : k ∈ l := by
        rcases List.mem_cons.1 hk with e | e
        · exact absurd e.symm h
        · exact e
      simp only [beq_iff_eq, h, ↓reduceIte, ih hk' hnd'.2]

/-- row of `x` -/
def rowOf (alts : List Nat) (f : Nat → Nat → Int) (x : Nat) : AList Nat Int :=
  (alts.filter (fun y => y != x)).map (fun y => (y, f x y))

/-- the table whose entry `[x][y]` is `f x y` -/
def tbl (alts : List Nat) (f : Nat → Nat → Int) : Table :=
  alts.map (fun x => (x, rowOf alts f x))

theorem initTable_eq (alts : List Nat) : initTable alts = tbl alts (fun _ _ => 0) := rfl

theorem rowOf_congr (alts : List Nat) (f g : Nat → Nat → Int) (x : Nat)
    (h : ∀ y ∈ alts, y ≠ x → f x y = g x y) : rowOf alts f x = rowOf alts g x := by
  apply List.map_congr_left
  intro y hy
  simp only [List.mem_filter, bne_iff_ne] at hy
  rw [h y hy.1 hy.2]

theorem tbl_congr (alts : List Nat) (f g : Nat → Nat → Int)
    (h : ∀ x ∈ alts, ∀ y ∈ alts, y ≠ x → f x y = g x y) : tbl alts f = tbl alts g := by
  apply List.map_congr_left
  intro x hx
  rw [rowOf_congr alts f g x (h x hx)]

theorem bump_tbl (alts : List Nat) (hnd : alts.Nodup) (f : Nat → Nat → Int) (w b : Nat) (d : Int) :
    bump (tbl alts f) w b d = tbl alts (fun x y => if x = w ∧ y = b then f x y + d else f x y) := by
  unfold bump
  rw [tbl, get?_map]
  by_cases hw : w ∈ alts
  · simp only [hw, ↓reduceIte]
    rw [rowOf, get?_map]
    by_cases hb : b ∈ alts.filter (fun y => y != w)
    · simp only [hb, ↓reduceIte]
      rw [set_map _ _ _ _ hb (hnd.sublist List.filter_sublist), set_map _ _ _ _ hw hnd]
      apply List.map_congr_left
      intro x hx
      by_cases hxw : x = w
      · subst hxw
        simp only [↓reduceIte, true_and, Prod.mk.injEq]
        apply List.map_congr_left
        intro y _
        by_cases hy : y = b <;> simp [hy]
      · simp only [hxw, ↓reduceIte]
        rw [rowOf_congr alts f (fun x y => if x = w ∧ y = b then f x y + d else f x y) x
          (fun y _ _ => by simp [hxw])]
    · simp only [hb, ↓reduceIte]
      apply tbl_congr
      intro x hx y hy hyx
      by_cases h : x = w ∧ y = b
      · exfalso; apply hb
        obtain ⟨rfl, rfl⟩ := h
        simp [hy, hyx]
      · simp [h]
  · simp only [hw, ↓reduceIte]
    apply tbl_congr
    intro x hx y _ _
    have : ¬ x = w := fun e => hw (e ▸ hx)
    simp [this]

/-- one pairwise contest `w` above `b` with weight `m` in `copeland_scores` -/
def stepC (m : Nat) (t : Table) (wb : Nat × Nat) : Table :=
  bump (bump t wb.1 wb.2 m) wb.2 wb.1 (-(m : Int))

theorem foldl_stepC (alts : List Nat) (hnd : alts.Nodup) (m : Nat) (L : List (Nat × Nat))
    (f : Nat → Nat → Int) :
    L.foldl (stepC m) (tbl alts f)
      = tbl alts (fun x y => f x y + (m : Int) * ((L.count (x, y) : Int) - (L.count (y, x) : Int))) := by
  induction L generalizing f with
  | nil => simp
  | cons wb L ih =>
    rw [List.foldl_cons, stepC, bump_tbl alts hnd, bump_tbl alts hnd, ih]
    congr 1
    funext x y
    simp only [List.count_cons, beq_iff_eq, Prod.ext_iff]
    by_cases h1 : wb.1 = x <;> by_cases h2 : wb.2 = y <;> by_cases h3 : wb.1 = y <;> by_cases h4 : wb.2 = x <;>
      simp [h1, h2, h3, h4, eq_comm] <;> grind

end PrefVerif.C06
