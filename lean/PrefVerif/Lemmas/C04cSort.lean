import PrefVerif.Lemmas.C04cScore
import PrefVerif.Lemmas.IOSort
/-!
# C04 completeness helpers (3): scores are pairwise distinct and increase along the arrangement, so
sorting by score (stable sort or concatenated buckets) rebuilds the arrangement itself, which then
passes the verification pass.
-/
namespace PrefVerif.C04c
open PrefVerif PrefVerif.Spec PrefVerif.Distances PrefVerif.SingleCrossing PrefVerif.C04 PrefVerif.C20
open PrefVerif.Py

theorem inj_of_pairwise_lt {α : Type} (f : α → Int) (s : List α)
    (hs : s.Pairwise (fun a b => f a < f b)) : ∀ a ∈ s, ∀ b ∈ s, f a = f b → a = b := by
  intro a ha b hb
  have hp : s.Pairwise (fun a b => f a = f b → a = b) :=
    hs.imp (fun h e => absurd e (Int.ne_of_lt h))
  rcases pairwise_forall_or s hp (fun _ _ => rfl) a ha b hb with h | h
  · exact h
  · intro e; exact (h e.symm).symm

/-- a list sorted by `f` is determined by its elements when `f` is injective on them -/
theorem eq_of_sorted {α : Type} (f : α → Int) (V s : List α) (hp : V.Perm s)
    (hV : V.Pairwise (fun a b => f a ≤ f b)) (hs : s.Pairwise (fun a b => f a < f b)) : V = s := by
  refine List.Perm.eq_of_pairwise (le := fun a b => f a ≤ f b) ?_ hV (hs.imp (fun h => Int.le_of_lt h)) hp
  intro a b ha hb h1 h2
  exact inj_of_pairwise_lt f s hs a (hp.mem_iff.1 ha) b hb (by omega)

/-- reading the buckets by increasing index yields a list sorted by the bucket key -/
theorem bucket_sorted {α : Type} (f : α → Int) (l : List α) (n : Nat) :
    ((List.range n).flatMap (fun (ix : Nat) => l.filter (fun o => f o == (ix : Int)))).Pairwise
      (fun a b => f a ≤ f b) := by
  rw [List.pairwise_flatMap]
  constructor
  · intro ix _
    apply List.pairwise_of_forall_mem_list
    intro a ha b hb
    simp only [List.mem_filter, beq_iff_eq] at ha hb
    omega
  · refine List.pairwise_lt_range.imp ?_
    intro i j hij x hx y hy
    simp only [List.mem_filter, beq_iff_eq] at hx hy
    omega

/-- both ways of ordering the voters by score (stable sort if `n < m`, buckets otherwise) rebuild `s`
when the scores increase strictly along `s` -/
theorem votersOrder_eq (orders s : List (List Nat)) (m : Nat) (score f : List Nat → Int)
    (hperm : s.Perm orders) (hscore : ∀ o ∈ orders, score o = f o)
    (hs : s.Pairwise (fun a b => f a < f b))
    (hb : ∀ o ∈ orders, -((m * m : Nat) : Int) ≤ score o ∧ score o ≤ ((m * m : Nat) : Int)) :
    (if orders.length < m then stableSort (fun a b => decide (score a ≤ score b)) orders
      else (List.range (2 * m * m + 1)).flatMap (fun (ix : Nat) =>
        orders.filter (fun o => score o + ((m * m : Nat) : Int) == (ix : Int)))) = s := by
  by_cases hnm : orders.length < m
  · rw [if_pos hnm]
    refine eq_of_sorted f _ s ((IOL.stableSort_perm _ _).trans hperm.symm) ?_ hs
    have hsorted := IOL.stableSort_sorted (le := fun a b => decide (score a ≤ score b))
      (fun a b => by simp only [decide_eq_true_eq]; omega)
      (fun a b c => by simp only [decide_eq_true_eq]; omega) orders
    refine List.Pairwise.imp_of_mem ?_ hsorted
    intro a b ha hb' hab
    rw [← hscore a ((IOL.mem_stableSort _ _ _).1 ha), ← hscore b ((IOL.mem_stableSort _ _ _).1 hb')]
    simpa using hab
  · rw [if_neg hnm]
    have e : 2 * m * m + 1 = 2 * (m * m) + 1 := by rw [Nat.mul_assoc]
    rw [e]
    have hpm := bucket_perm (fun o => score o + ((m * m : Nat) : Int)) orders (2 * (m * m) + 1)
      (fun o ho => by have := hb o ho; omega)
    refine eq_of_sorted f _ s (hpm.trans hperm.symm) ?_ hs
    have hsorted := bucket_sorted (fun o => score o + ((m * m : Nat) : Int)) orders (2 * (m * m) + 1)
    refine List.Pairwise.imp_of_mem ?_ hsorted
    intro a b ha hb' hab
    rw [← hscore a (hpm.mem_iff.1 ha), ← hscore b (hpm.mem_iff.1 hb')]
    omega

/-- if `s` is a single-crossing arrangement of the stored orders in which the first stored order
comes before the second, `is_single_crossing` returns exactly `s` -/
theorem isSC_of_arr {alts : List Nat} {s : List (List Nat)} (A : Arr alts s) (v1 v2 : List Nat)
    (rest : List (List Nat)) (m : Nat) (hlen : v1.length = m) (hperm : s.Perm (v1 :: v2 :: rest))
    (p1 p2 : Nat) (h12 : p1 < p2) (hp1 : p1 < s.length) (hp2 : p2 < s.length) (e1 : s[p1] = v1)
    (e2 : s[p2] = v2) :
    isSC (v1 :: v2 :: rest) m = (true, s) := by
  subst e1 e2
  have hnd : (s[p1] :: s[p2] :: rest).Nodup := hperm.nodup_iff.1 A.nd
  have hnd1 := (List.nodup_cons.1 hnd).1
  have hnd2 := (List.nodup_cons.1 (List.nodup_cons.1 hnd).2).1
  -- every remaining order passes one of the three tests
  have hsteps : ∀ o ∈ rest, Step s[p1] s[p2] (kt s[p1] s[p2]) (sdist s p1 s[p1]) o := by
    intro o ho
    have hos : o ∈ s := hperm.mem_iff.2 (by simp [ho])
    obtain ⟨p, hp, rfl⟩ := List.mem_iff_getElem.1 hos
    refine step_at A p1 p2 h12 hp2 p hp ?_ ?_
    · rintro rfl; exact hnd1 (by simp [ho])
    · rintro rfl; exact hnd2 ho
  obtain ⟨sc, hsc, hget⟩ := scoreLoop_some s[p1] s[p2] (kt s[p1] s[p2]) (sdist s p1 s[p1]) rest
    (AList.set [] s[p2] ((kt s[p1] s[p2] : Nat) : Int)) hsteps
  -- the stored score is the signed distance
  have hscore : ∀ o ∈ s[p1] :: s[p2] :: rest,
      (AList.get? sc o).getD 0 = sdist s p1 s[p1] o := by
    intro o ho
    rw [hget o]
    by_cases hr : o ∈ rest
    · rw [if_pos hr]; rfl
    · rw [if_neg hr, C07.get?_set]
      rcases List.mem_cons.1 ho with rfl | ho
      · have hne : ¬ s[p2] = s[p1] := fun e => hnd1 (by simp [e])
        rw [if_neg hne, sdist_getElem A.nd p1 _ p1 hp1, if_pos (Nat.le_refl _), A.self p1 hp1]
        rfl
      · rcases List.mem_cons.1 ho with rfl | ho
        · rw [if_pos rfl, sdist_getElem A.nd p1 _ p2 hp2, if_pos (by omega)]
          rfl
        · exact absurd ho hr
  have hbound : ∀ o ∈ s[p1] :: s[p2] :: rest,
      -((m * m : Nat) : Int) ≤ (AList.get? sc o).getD 0 ∧ (AList.get? sc o).getD 0 ≤ ((m * m : Nat) : Int) := by
    intro o ho
    rw [hscore o ho, ← hlen]
    exact sdist_abs_le s p1 s[p1] o
  have hV := votersOrder_eq (s[p1] :: s[p2] :: rest) s m (fun o => (AList.get? sc o).getD 0)
    (sdist s p1 s[p1]) hperm hscore (sdist_pairwise A p1 hp1) hbound
  have hord : isOrderedSC s = true := (isOrderedSC_iff' alts s A.rk).2 A.sc
  simp only [isSC, hsc]
  rw [hV, if_pos hord]

end PrefVerif.C04c
