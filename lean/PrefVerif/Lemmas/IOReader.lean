import PrefVerif.Spec.PrefLibFormat
import PrefVerif.Lemmas.IOHeader
/-!
# Reusable facts about the independent reader `Spec.Format`

line splitting, `# KEY: value` lines, decimal numbers, numbered keys, and the item tokeniser
(`itemsGo`) one character class at a time.
-/
namespace PrefVerif.IOL
open PrefVerif.Py PrefVerif.Spec.Format

/-- the reader's lines of a written file are its (non-empty) lines -/
theorem splitLines_unlines (ls : List Str) (h : ∀ l ∈ ls, LineOK l) (hne : ∀ l ∈ ls, l ≠ []) :
    splitLines (unlines ls) = ls := by
  rw [splitLines, splitOn_unlines ls (fun l hl => (h l hl).ne_nl), List.filter_append]
  have : ls.filter (fun l => !l.isEmpty) = ls := by
    apply List.filter_eq_self.2
    intro l hl
    cases l with
    | nil => exact absurd rfl (hne _ hl)
    | cons _ _ => rfl
  rw [this]; simp

/-- `# KEY: value` is split at the first colon -/
theorem keyValue_line (k v : Str) (hk : ∀ c ∈ k, c ≠ ':') :
    keyValue ('#' :: ' ' :: k ++ ':' :: ' ' :: v) = (k, v) := by
  have hrun := takeWhile_run (p := fun c => c != ':') k (':' :: ' ' :: v)
    (fun c hc => by simpa using hk c hc) (by intro c hc; simp at hc; subst hc; decide)
  simp only [keyValue, List.cons_append, List.drop_succ_cons, List.drop_zero, hrun.1, hrun.2]

theorem digitsToNat?_natToStr (n : Nat) : digitsToNat? (natToStr n) = some n := by
  have : (natToStr n).foldl (fun n c => 10 * n + (c.toNat - 48)) 0 = Nat.ofDigitChars 10 (natToStr n) 0 := rfl
  simp [digitsToNat?, natToStr_isEmpty, natToStr_all_isDigit, this, ofDigitChars_natToStr]

theorem numberedKey_numbered (pfx : String) (k : Nat) :
    numberedKey pfx (pfx.toList ++ natToStr k) = some k := by
  have h1 : pfx.toList.isPrefixOf (pfx.toList ++ natToStr k) = true := by
    induction pfx.toList with
    | nil => simp
    | cons a p ih => simp [ih]
  have h2 : (pfx.toList ++ natToStr k).drop pfx.length = natToStr k := by
    rw [← String.length_toList]; simp
  simp [numberedKey, h1, h2, digitsToNat?_natToStr]

/-! ## `mapM` in `Option`, `nonIncreasing` -/

theorem mapM_map_some {ι α β : Type} (L : List ι) (φ : ι → α) (f : α → Option β) (g : ι → β)
    (h : ∀ x ∈ L, f (φ x) = some (g x)) : (L.map φ).mapM f = some (L.map g) := by
  induction L with
  | nil => rfl
  | cons x L ih =>
    simp only [List.map_cons, List.mapM_cons, h x (by simp), ih (fun y hy => h y (by simp [hy]))]
    rfl

theorem nonIncreasing_of_pairwise (l : List Nat) (h : l.Pairwise (fun a b => a ≥ b)) :
    nonIncreasing l = true := by
  induction l with
  | nil => rfl
  | cons a l ih =>
    cases l with
    | nil => rfl
    | cons b l =>
      have h' := List.pairwise_cons.1 h
      simp [nonIncreasing, h'.1 b (by simp), ih h'.2]

/-! ## the item tokeniser, one step at a time -/

theorem itemsGo_space (cs : Str) (done : List (List Nat)) (grp : Option (List Nat)) (ds : Str) :
    itemsGo (' ' :: cs) done grp ds = itemsGo cs done grp ds := by
  simp [itemsGo]

theorem itemsGo_digits (D cs : Str) (done : List (List Nat)) (grp : Option (List Nat)) (ds : Str)
    (hD : ∀ c ∈ D, c.isDigit = true) :
    itemsGo (D ++ cs) done grp ds = itemsGo cs done grp (D.reverse ++ ds) := by
  induction D generalizing ds with
  | nil => simp
  | cons c D ih =>
    have hc := hD c (by simp)
    have hsp : (c == ' ') = false := digit_bne hc (by decide)
    have step : itemsGo (c :: (D ++ cs)) done grp ds = itemsGo (D ++ cs) done grp (c :: ds) := by
      cases grp <;> (rw [itemsGo]; simp only [hsp, hc, Bool.false_eq_true, if_false, if_true])
    rw [List.cons_append, step, ih _ (fun d hd => hD d (by simp [hd]))]
    simp

theorem digitsToNat?_rev_natToStr (a : Nat) : digitsToNat? ((natToStr a).reverse ++ []).reverse = some a := by
  simp [digitsToNat?_natToStr]

theorem rev_natToStr_isEmpty (a : Nat) : ((natToStr a).reverse ++ ([] : Str)).isEmpty = false := by
  simp [natToStr_ne_nil]

/-- a number: its digits are collected -/
theorem itemsGo_number (a : Nat) (cs : Str) (done : List (List Nat)) (grp : Option (List Nat)) :
    itemsGo (natToStr a ++ cs) done grp [] = itemsGo cs done grp ((natToStr a).reverse ++ []) :=
  itemsGo_digits _ _ _ _ _ (fun _ hc => natToStr_isDigit hc)

theorem itemsGo_comma_top_num (a : Nat) (cs : Str) (done : List (List Nat)) :
    itemsGo (',' :: cs) done none ((natToStr a).reverse ++ []) = itemsGo cs ([a] :: done) none [] := by
  rw [itemsGo]
  simp [digitsToNat?_natToStr, natToStr_ne_nil]

theorem itemsGo_comma_top_nil (cs : Str) (done : List (List Nat)) :
    itemsGo (',' :: cs) done none [] = itemsGo cs done none [] := by
  rw [itemsGo]; simp

theorem itemsGo_open (cs : Str) (done : List (List Nat)) :
    itemsGo ('{' :: cs) done none [] = itemsGo cs done (some []) [] := by
  rw [itemsGo]; simp

theorem itemsGo_comma_grp_num (a : Nat) (cs : Str) (done : List (List Nat)) (g : List Nat) :
    itemsGo (',' :: cs) done (some g) ((natToStr a).reverse ++ []) = itemsGo cs done (some (a :: g)) [] := by
  rw [itemsGo]
  simp [digitsToNat?_natToStr, natToStr_ne_nil]

theorem itemsGo_close_num (a : Nat) (cs : Str) (done : List (List Nat)) (g : List Nat) :
    itemsGo ('}' :: cs) done (some g) ((natToStr a).reverse ++ [])
      = itemsGo cs ((a :: g).reverse :: done) none [] := by
  rw [itemsGo]
  simp [digitsToNat?_natToStr, natToStr_ne_nil]

theorem itemsGo_close_nil (cs : Str) (done : List (List Nat)) (g : List Nat) :
    itemsGo ('}' :: cs) done (some g) [] = itemsGo cs (g.reverse :: done) none [] := by
  rw [itemsGo]; simp

theorem itemsGo_end_nil (done : List (List Nat)) : itemsGo [] done none [] = some done.reverse := by
  simp [itemsGo]

theorem itemsGo_end_num (a : Nat) (done : List (List Nat)) :
    itemsGo [] done none ((natToStr a).reverse ++ []) = some ([a] :: done).reverse := by
  simp [itemsGo, digitsToNat?_natToStr, natToStr_ne_nil]

end PrefVerif.IOL

namespace PrefVerif.IOL
open PrefVerif.Py PrefVerif.Spec.Format

/-- the body of a brace group `a, b, …}` read inside a group -/
theorem itemsGo_group_body (a : Nat) (cl : List Nat) (rest : Str) (done : List (List Nat)) (g : List Nat) :
    itemsGo (join [',', ' '] ((a :: cl).map natToStr) ++ '}' :: rest) done (some g) []
      = itemsGo rest ((g.reverse ++ a :: cl) :: done) none [] := by
  induction cl generalizing a g with
  | nil =>
    simp only [List.map_cons, List.map_nil, join, List.intercalate, List.intersperse_singleton,
      List.flatten_cons, List.flatten_nil, List.append_nil]
    rw [itemsGo_number, itemsGo_close_num]; simp
  | cons b cl ih =>
    have e : join [',', ' '] ((a :: b :: cl).map natToStr) ++ '}' :: rest
        = natToStr a ++ (',' :: ' ' :: (join [',', ' '] ((b :: cl).map natToStr) ++ '}' :: rest)) := by
      simp [join, List.intercalate_cons_cons]
    rw [e, itemsGo_number, itemsGo_comma_grp_num, itemsGo_space, ih b (a :: g)]
    simp

/-- what the reader returns, given the header lines, the body lines and the parsed ballots -/
theorem read_ballots (text : Str) (hdrL bodyL : List Str) (bs : List (Nat × List (List Nat)))
    (hlines : splitLines text = hdrL ++ bodyL)
    (hh : ∀ l ∈ hdrL, ['#'].isPrefixOf l = true)
    (hb : ∀ l, bodyL.head? = some l → ['#'].isPrefixOf l = false)
    (hbs : bodyL.mapM ballotLine = some bs) :
    Spec.Format.read false text = some
      { fields := (hdrL.map keyValue).filter (fun kv => (numberedKey "ALTERNATIVE NAME " kv.1).isNone
                                    && (numberedKey "CATEGORY NAME " kv.1).isNone),
        altNames := (hdrL.map keyValue).filterMap
          (fun kv => (numberedKey "ALTERNATIVE NAME " kv.1).map (fun n => (n, kv.2))),
        catNames := (hdrL.map keyValue).filterMap
          (fun kv => (numberedKey "CATEGORY NAME " kv.1).map (fun n => (n, kv.2))),
        ballots := bs, edges := [] } := by
  have hrun := takeWhile_run (p := fun l : Str => ['#'].isPrefixOf l) hdrL bodyL hh hb
  simp only [Spec.Format.read, hlines, hrun.1, hrun.2, hbs, Bool.false_eq_true, if_false]
  rfl

end PrefVerif.IOL
