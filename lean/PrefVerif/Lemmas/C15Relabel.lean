import PrefVerif.Spec.Domains
import PrefVerif.Lemmas.C15Perm
/-!
# C15 helper lemmas, part 2: relabelling the alternatives by an injective `σ` — lists, `contiguous`,
single-peakedness, `perms`.  (`Inj σ` and `relabelOrder σ` of `Props/C15.lean` are written out.)
-/
namespace PrefVerif.C15
open PrefVerif PrefVerif.Spec

variable {σ : Nat → Nat}

theorem beq_inj (hσ : ∀ a b, σ a = σ b → a = b) (a b : Nat) : (σ a == σ b) = (a == b) := by
  rw [Bool.eq_iff_iff]
  simp only [beq_iff_eq]
  exact ⟨hσ a b, fun h => h ▸ rfl⟩

theorem contains_map_inj (hσ : ∀ a b, σ a = σ b → a = b) (S : List Nat) (a : Nat) :
    (S.map σ).contains (σ a) = S.contains a := by
  induction S with
  | nil => rfl
  | cons x S ih => simp only [List.map_cons, List.contains_cons, ih, beq_inj hσ]

theorem mem_map_inj (hσ : ∀ a b, σ a = σ b → a = b) (S : List Nat) (a : Nat) :
    σ a ∈ S.map σ ↔ a ∈ S := by
  have := contains_map_inj hσ S a
  rw [Bool.eq_iff_iff] at this
  simpa using this

theorem idxOf_map_inj (hσ : ∀ a b, σ a = σ b → a = b) (l : List Nat) (a : Nat) :
    (l.map σ).idxOf (σ a) = l.idxOf a := by
  induction l with
  | nil => rfl
  | cons x l ih => simp only [List.map_cons, List.idxOf_cons, ih, beq_inj hσ]

theorem contiguous_relabel' (hσ : ∀ a b, σ a = σ b → a = b) (axis S : List Nat) :
    contiguous (axis.map σ) (S.map σ) = contiguous axis S := by
  have hf : ((fun a => !(S.map σ).contains a) ∘ σ) = (fun a => !S.contains a) := by
    funext a; simp only [Function.comp, contains_map_inj hσ]
  have hg : ((fun a => (S.map σ).contains a) ∘ σ) = (fun a => S.contains a) := by
    funext a; simp only [Function.comp, contains_map_inj hσ]
  unfold contiguous
  simp only [List.dropWhile_map, ← List.map_reverse, List.all_map, hf, hg]

theorem topClasses_relabel (o : Order) (k : Nat) :
    topClasses (o.map (fun c => c.map σ)) k = (topClasses o k).map σ := by
  simp only [topClasses, List.map_flatten, List.map_take]

theorem spOnAxis_relabel' (hσ : ∀ a b, σ a = σ b → a = b) (orders : List Order) (axis : List Nat) :
    spOnAxis (orders.map (fun o => o.map (fun c => c.map σ))) (axis.map σ) = spOnAxis orders axis := by
  unfold spOnAxis
  rw [List.all_map]
  congr 1
  funext o
  simp only [Function.comp, List.length_map, topClasses_relabel, contiguous_relabel' hσ]

/-! ### `perms` commutes with `map` -/

theorem insertions_map {α β : Type} (f : α → β) (x : α) (l : List α) :
    insertions (f x) (l.map f) = (insertions x l).map (List.map f) := by
  induction l with
  | nil => rfl
  | cons y ys ih =>
    simp only [List.map_cons, insertions, ih, List.map_map]
    congr 1

theorem perms_map {α β : Type} (f : α → β) (l : List α) :
    perms (l.map f) = (perms l).map (List.map f) := by
  induction l with
  | nil => rfl
  | cons x xs ih =>
    simp only [List.map_cons, perms, ih, List.flatMap_map, List.map_flatMap, insertions_map]

theorem bruteSP_relabel' (hσ : ∀ a b, σ a = σ b → a = b) (alts : List Nat) (orders : List Order) :
    bruteSP (alts.map σ) (orders.map (fun o => o.map (fun c => c.map σ))) = bruteSP alts orders := by
  unfold bruteSP
  rw [perms_map, List.any_map]
  congr 1
  funext ax
  exact spOnAxis_relabel' hσ orders ax

end PrefVerif.C15
