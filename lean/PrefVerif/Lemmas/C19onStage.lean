import PrefVerif.Model.Euclid
/-!
# C19 helper lemmas for an arbitrary outcome `(isSc, s)` of the pre-check: the pieces of
`Euclid.stageOn` / `Euclid.lpOn`
-/
namespace PrefVerif.C19
open PrefVerif PrefVerif.Euclid

theorem stageOn_grey_aux (alts : List Nat) (isSc : Bool) (s : List (List Nat)) :
    (stageOn alts isSc s).grey =
      match (stageOn alts isSc s).coloured with
      | some g => alts.filter (fun c => colour g c == 3)
      | none => [] := by
  unfold stageOn
  cases isSc
  · rfl
  · cases s.head? with
    | none => rfl
    | some v1 =>
      cases s.getLast? with
      | none => rfl
      | some vn =>
        simp only [Bool.not_true, Bool.false_eq_true, if_false]
        cases colourPairs v1 vn (orderedPairs alts)
            (initColouring alts v1 vn (v1.headD 0) (vn.headD 0)) with
        | none => rfl
        | some g' => rfl

/-- the grey set reported by `stageOn` is the set of alternatives coloured 3 -/
theorem stageOn_grey (alts : List Nat) (isSc : Bool) (s : List (List Nat)) (g : Colouring)
    (h : (stageOn alts isSc s).coloured = some g) :
    (stageOn alts isSc s).grey = alts.filter (fun c => colour g c == 3) := by
  rw [stageOn_grey_aux, h]

/-- unfolding of `Euclid.lpOn` -/
theorem lpOn_eq_some (alts : List Nat) (orders : List (List Nat)) (isSc : Bool) (s : List (List Nat)) (l : LP)
    (h : lpOn alts orders isSc s = some l) :
    ∃ g v1 vn, (stageOn alts isSc s).coloured = some g ∧
      l.cplus = colouredAlts alts g ∧ l.axis = axisOf g v1 vn l.cplus ∧
      l.preferences = restrictPreferences orders l.cplus ∧
      l.constraints = lpConstraints l.preferences l.axis := by
  unfold lpOn at h
  split at h
  · next g v1 vn hg _ _ =>
    simp only [Option.some.injEq] at h
    subst h
    exact ⟨g, v1, vn, hg, rfl, rfl, rfl, rfl⟩
  · simp at h

/-- the colouring stage of `stageOn` for a passed pre-check, from the two ends of the arrangement -/
theorem stageOn_coloured (alts : List Nat) (s : List (List Nat)) (v1 vn : List Nat) (g : Colouring)
    (hh : s.head? = some v1) (hl : s.getLast? = some vn)
    (hg : colourPairs v1 vn (orderedPairs alts) (initColouring alts v1 vn (v1.headD 0) (vn.headD 0)) = some g) :
    (stageOn alts true s).coloured = some g := by
  unfold stageOn
  simp only [Bool.not_true, Bool.false_eq_true, if_false, hh, hl, hg]

end PrefVerif.C19
