import PrefVerif.Lemmas.C17Coarsen
/-!
# C17 helper lemmas, part 4: tightened versions of the two grouping rules

`Spec.sizeRuleGroups` / `Spec.countRuleGroups` are satisfied by the model (see `catBySize_rule_gen`,
`catByCount_rule_gen`) but they also accept a few groupings the code never produces: a trailing
*empty* "left-over" category (`sizeRuleGroups [1] [[[7]], []]`, `countRuleGroups [] [[]]`), an empty
grouping under a non-empty truncator list (`sizeRuleGroups [1] []`), and — for the size rule — a
category after the order is exhausted (the code exits early).  The strict predicates below remove
that slack, and are proved *sound and complete*: a grouping satisfies the strict rule iff its
categories are exactly what the code produces.  No hypothesis on the order is needed.
-/
namespace PrefVerif.C17
open PrefVerif PrefVerif.Categorical PrefVerif.Spec PrefVerif.Py

/-- size rule, tightened: as `sizeRuleGroups`, and moreover a further category exists only if
classes are left over (early exit), the left-over category is non-empty, and a non-empty truncator
list yields at least one category -/
def sizeRuleStrict : List Nat → List (List (List Nat)) → Bool
  | [], [] => true
  | [], [g] => !g.isEmpty
  | [], _ :: _ :: _ => false
  | _ :: _, [] => false
  | tp :: tps, g :: gs =>
    (decide (g.dropLast.flatten.length < tp) || g.isEmpty)
      && (gs.isEmpty ||
          (decide (tp ≤ g.flatten.length) && !gs.flatten.isEmpty && sizeRuleStrict tps gs))

/-- count rule, tightened: as `countRuleGroups`, and the left-over category is non-empty -/
def countRuleStrict : List Nat → List (List (List Nat)) → Bool
  | [], [] => true
  | [], [g] => !g.isEmpty
  | [], _ :: _ :: _ => false
  | _ :: _, [] => false
  | n :: ns, g :: gs =>
    decide (g.length ≤ n) && (decide (g.length = n) || gs.all List.isEmpty) && countRuleStrict ns gs

/-! ### soundness: the model satisfies the strict rules -/

theorem catBySize_rule_strict (tps : List Nat) (o : List (List Nat)) :
    ∃ groups : List (List (List Nat)), groups.flatten = o ∧ catBySize tps o = groups.map List.flatten ∧
      sizeRuleStrict tps groups = true := by
  induction tps generalizing o with
  | nil =>
    cases o with
    | nil => exact ⟨[], by simp [catBySize, sizeRuleStrict]⟩
    | cons c o => exact ⟨[c :: o], by simp [catBySize, sizeRuleStrict]⟩
  | cons tp tps ih =>
    obtain ⟨g, rest', h1, h2, h3, h4⟩ := takeUntil_spec tp o []
    simp only [List.nil_append] at h1 h3 h4
    have hA : (decide (g.dropLast.flatten.length < tp) || g.isEmpty) = true := by
      simp only [Bool.or_eq_true, decide_eq_true_eq, List.isEmpty_iff]
      rcases h3 with h3 | h3
      · exact Or.inr h3
      · exact Or.inl h3
    by_cases hr : rest' = []
    · subst hr
      refine ⟨[g], by simp [h2], ?_, ?_⟩
      · simp [catBySize, h1]
      · simp only [sizeRuleStrict, hA, List.isEmpty_nil, Bool.true_or, Bool.and_true]
    · obtain ⟨gs, hg1, hg2, hg3⟩ := ih rest'
      have hre : rest'.isEmpty = false := by cases rest' <;> simp_all
      refine ⟨g :: gs, by simp [h2, hg1], ?_, ?_⟩
      · simp [catBySize, h1, hre, hg2]
      · have hB : tp ≤ g.flatten.length := by
          rcases h4 with h4 | h4
          · exact absurd h4 hr
          · exact h4
        simp only [sizeRuleStrict, hA, decide_eq_true hB, hg1, hre, hg3, Bool.not_false,
          Bool.and_true, Bool.or_true]

theorem catByCount_rule_strict (ns : List Nat) (o : List (List Nat)) :
    ∃ groups : List (List (List Nat)), groups.flatten = o ∧ catByCount ns o = groups.map List.flatten ∧
      countRuleStrict ns groups = true := by
  induction ns generalizing o with
  | nil =>
    cases o with
    | nil => exact ⟨[], by simp [catByCount, countRuleStrict]⟩
    | cons c o => exact ⟨[c :: o], by simp [catByCount, countRuleStrict]⟩
  | cons n ns ih =>
    obtain ⟨gs, hg1, hg2, hg3⟩ := ih (o.drop n)
    refine ⟨o.take n :: gs, by simp [hg1], by simp [catByCount, hg2], ?_⟩
    simp only [countRuleStrict, hg3, Bool.and_true, Bool.and_eq_true, Bool.or_eq_true,
      decide_eq_true_eq]
    refine ⟨by simp [List.length_take]; omega, ?_⟩
    by_cases hl : n ≤ o.length
    · left; simp [List.length_take]; omega
    · right
      apply all_isEmpty_of_flatten_nil
      rw [hg1]; simp; omega

/-! ### completeness: the strict rules determine the ballot -/

theorem takeUntil_complete (tp : Nat) (g r : List (List Nat)) (acc : List Nat)
    (h1 : g = [] ∨ (acc ++ g.dropLast.flatten).length < tp)
    (h2 : r = [] ∨ tp ≤ (acc ++ g.flatten).length) :
    takeUntil tp (g ++ r) acc = (acc ++ g.flatten, r) := by
  induction g generalizing acc with
  | nil =>
    cases r with
    | nil => simp [takeUntil]
    | cons c r =>
      have : ¬ acc.length < tp := by
        rcases h2 with h2 | h2
        · cases h2
        · simp at h2; omega
      simp [takeUntil, this]
  | cons c g ih =>
    have hacc : acc.length < tp := by
      rcases h1 with h1 | h1
      · cases h1
      · simp at h1; omega
    have h1' : g = [] ∨ (acc ++ c ++ g.dropLast.flatten).length < tp := by
      cases g with
      | nil => exact Or.inl rfl
      | cons d g =>
        right
        rcases h1 with h1 | h1
        · cases h1
        · simpa [List.dropLast] using h1
    have h2' : r = [] ∨ tp ≤ (acc ++ c ++ g.flatten).length := by
      rcases h2 with h2 | h2
      · exact Or.inl h2
      · right; simpa using h2
    have := ih (acc ++ c) h1' h2'
    simp only [List.cons_append, takeUntil, hacc, if_true, this, List.flatten_cons, List.append_assoc]

theorem sizeRuleStrict_complete (tps : List Nat) (groups : List (List (List Nat)))
    (h : sizeRuleStrict tps groups = true) :
    catBySize tps groups.flatten = groups.map List.flatten := by
  induction tps generalizing groups with
  | nil =>
    match groups, h with
    | [], _ => simp [catBySize]
    | [g], h =>
      simp only [sizeRuleStrict, Bool.not_eq_eq_eq_not, Bool.not_true] at h
      simp [catBySize, h]
  | cons tp tps ih =>
    match groups, h with
    | g :: gs, h =>
      simp only [sizeRuleStrict, Bool.and_eq_true, Bool.or_eq_true, decide_eq_true_eq,
        List.isEmpty_iff, Bool.not_eq_eq_eq_not, Bool.not_true] at h
      obtain ⟨hA, hB⟩ := h
      have h1 : g = [] ∨ (([] : List Nat) ++ g.dropLast.flatten).length < tp := by
        rcases hA with hA | hA
        · exact Or.inr (by simpa using hA)
        · exact Or.inl hA
      rcases hB with hB | ⟨⟨hB1, hB2⟩, hB3⟩
      · subst hB
        have := takeUntil_complete tp g [] [] h1 (Or.inl rfl)
        simp only [List.append_nil, List.nil_append] at this
        simp [catBySize, this]
      · have := takeUntil_complete tp g gs.flatten [] h1 (Or.inr (by simpa using hB1))
        simp only [List.nil_append] at this
        simp [catBySize, this, hB2, ih gs hB3]

theorem countRuleStrict_complete (ns : List Nat) (groups : List (List (List Nat)))
    (h : countRuleStrict ns groups = true) :
    catByCount ns groups.flatten = groups.map List.flatten := by
  induction ns generalizing groups with
  | nil =>
    match groups, h with
    | [], _ => simp [catByCount]
    | [g], h =>
      simp only [countRuleStrict, Bool.not_eq_eq_eq_not, Bool.not_true] at h
      simp [catByCount, h]
  | cons n ns ih =>
    match groups, h with
    | g :: gs, h =>
      simp only [countRuleStrict, Bool.and_eq_true, Bool.or_eq_true, decide_eq_true_eq] at h
      obtain ⟨⟨hA, hB⟩, hC⟩ := h
      have hgs : gs.all List.isEmpty = true → gs.flatten = [] := by
        intro hall
        simp only [List.all_eq_true, List.isEmpty_iff] at hall
        simpa [List.flatten_eq_nil_iff] using hall
      have ht : (g ++ gs.flatten).take n = g := by
        rcases hB with hB | hB
        · rw [← hB, List.take_left]
        · rw [hgs hB, List.append_nil, List.take_of_length_le hA]
      have hd : (g ++ gs.flatten).drop n = gs.flatten := by
        rcases hB with hB | hB
        · rw [← hB, List.drop_left]
        · rw [hgs hB, List.append_nil, List.drop_of_length_le hA]
      simp only [List.flatten_cons, catByCount, ht, hd, ih gs hC, List.map_cons]

end PrefVerif.C17
