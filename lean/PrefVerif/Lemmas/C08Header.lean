import PrefVerif.Lemmas.C08Ballot
import PrefVerif.Lemmas.C08Sort
/-!
# C08 — the written file as a list of lines, and the header loop on it
-/
namespace PrefVerif.C08
open PrefVerif PrefVerif.Py PrefVerif.InstanceIO PrefVerif.CategoricalIO PrefVerif.Spec.IO PrefVerif.IOL

def numUniqueKey : Str := s "# NUMBER UNIQUE PREFERENCES:"
def numCatKey : Str := s "# NUMBER CATEGORIES:"
def catPfx : Str := s "# CATEGORY NAME "

/-- the four numeric lines of a categorical file -/
def numLines (i : CatInst) : List Str :=
  [numLine numAltKey i.header.numAlternatives, numLine numVotersKey i.header.numVoters,
   numLine numUniqueKey i.numUniquePreferences, numLine numCatKey i.numCategories]

/-- the `# CATEGORY NAME k: name` lines -/
def catLines (i : CatInst) : List Str := i.categoriesName.map (numberedLine catPfx)

/-- header lines of the written file -/
def hdrLines (i : CatInst) : List Str :=
  metaLines i.header ++ numLines i ++ catLines i ++ i.header.altNames.map (numberedLine altPfx)

/-- ballot lines of the written file -/
def ballotLines (i : CatInst) : List Str :=
  (sorted i).map (fun b => ballotText ((i.multiplicity.get? b).getD 0) b)

theorem write_eq (i : CatInst) : write i = unlines (hdrLines i ++ ballotLines i) := by
  have hb : ((stableSort (keyLe i.multiplicity) i.preferences).map (fun b =>
          natToStr ((i.multiplicity.get? b).getD 0) ++ s ": " ++ renderBallot b ++ s "\n")).flatten
      = unlines (ballotLines i) := by
    simp [unlines, ballotLines, ballotText, s, Function.comp_def]
  have hn : s "# NUMBER ALTERNATIVES: " ++ natToStr i.header.numAlternatives
      ++ s "\n# NUMBER VOTERS: " ++ natToStr i.header.numVoters
      ++ s "\n# NUMBER UNIQUE PREFERENCES: " ++ natToStr i.numUniquePreferences ++ s "\n"
      ++ s "# NUMBER CATEGORIES: " ++ natToStr i.numCategories ++ s "\n" = unlines (numLines i) := by
    simp [unlines, numLines, numLine, numAltKey, numVotersKey, numUniqueKey, numCatKey, s]
  have hc : (i.categoriesName.map (fun kv =>
          s "# CATEGORY NAME " ++ natToStr kv.1 ++ s ": " ++ kv.2 ++ s "\n")).flatten
      = unlines (catLines i) := by
    simp [unlines, catLines, numberedLine, catPfx, s, Function.comp_def]
  simp only [write, hb, hc, writeMetadata_eq, writeAltNames_eq, hdrLines, unlines_append, ← hn]
  simp only [List.append_assoc]

theorem lineOK_numLines (i : CatInst) : ∀ l ∈ numLines i, LineOK l := by
  intro l hl
  simp only [numLines, List.mem_cons, List.not_mem_nil, or_false] at hl
  rcases hl with rfl | rfl | rfl | rfl <;> exact lineOK_numLine (lineOK_of_all (by decide)) _

theorem lineOK_catPfx : LineOK catPfx := lineOK_of_all (by decide)

theorem lineOK_catLines (i : CatInst) (hcv : ∀ kv ∈ i.categoriesName, cleanText kv.2 = true) :
    ∀ l ∈ catLines i, LineOK l := by
  intro l hl
  obtain ⟨kv, hkv, rfl⟩ := List.mem_map.1 hl
  exact lineOK_numberedLine lineOK_catPfx kv ((cleanText_iff _).1 (hcv kv hkv)).1

theorem lineOK_lines (i : CatInst) (h : wfHeader i.header = true)
    (hcv : ∀ kv ∈ i.categoriesName, cleanText kv.2 = true) :
    ∀ l ∈ hdrLines i ++ ballotLines i, LineOK l := by
  intro l hl
  simp only [hdrLines, List.mem_append] at hl
  rcases hl with (((hl | hl) | hl) | hl) | hl
  · exact lineOK_metaLines h l hl
  · exact lineOK_numLines i l hl
  · exact lineOK_catLines i hcv l hl
  · exact lineOK_altLines h l hl
  · obtain ⟨b, _, rfl⟩ := List.mem_map.1 hl
    exact lineOK_ballotText _ b

/-! ## the stripped header lines -/

/-- `hdrLines` as the header loop sees them -/
def hdrPl (i : CatInst) : List Str :=
  Field.all.map (fun f => f.key ++ padded (f.get i.header))
    ++ [numAltKey ++ ' ' :: natToStr i.header.numAlternatives,
        numVotersKey ++ ' ' :: natToStr i.header.numVoters,
        numUniqueKey ++ ' ' :: natToStr i.numUniquePreferences,
        numCatKey ++ ' ' :: natToStr i.numCategories]
    ++ i.categoriesName.map (fun kv => catPfx ++ natToStr kv.1 ++ ':' :: padded kv.2)
    ++ i.header.altNames.map (fun kv => altPfx ++ natToStr kv.1 ++ ':' :: padded kv.2)

theorem strip_of_clean {t : Str} (h : cleanText t = true) : strip t = t := ((cleanText_iff t).1 h).2

theorem pl_catLines (names : AList Nat Str) (hw : ∀ kv ∈ names, strip kv.2 = kv.2) :
    (names.map (numberedLine catPfx)).map pl
      = names.map (fun kv => catPfx ++ natToStr kv.1 ++ ':' :: padded kv.2) := by
  simp only [List.map_map]
  apply List.map_congr_left
  intro kv hkv
  exact pl_numberedLine (s " CATEGORY NAME ") kv.1 (hw kv hkv)

theorem pl_hdrLines (i : CatInst) (h : wfHeader i.header = true)
    (hcv : ∀ kv ∈ i.categoriesName, cleanText kv.2 = true) : (hdrLines i).map pl = hdrPl i := by
  obtain ⟨hf, _, hv⟩ := (wfHeader_iff _).1 h
  have h1 := pl_numLine (s " NUMBER ALTERNATIVES") i.header.numAlternatives
  have h2 := pl_numLine (s " NUMBER VOTERS") i.header.numVoters
  have h3 := pl_numLine (s " NUMBER UNIQUE PREFERENCES") i.numUniquePreferences
  have h4 := pl_numLine (s " NUMBER CATEGORIES") i.numCategories
  simp only [hdrLines, hdrPl, catLines, List.map_append, pl_metaLines _ (fun f => strip_of_clean (hf f)),
    pl_altLines _ (fun kv hkv => strip_of_clean (hv kv hkv)),
    pl_catLines _ (fun kv hkv => strip_of_clean (hcv kv hkv)), numLines, List.map_cons, List.map_nil]
  congr 3
  rw [show numAltKey = '#' :: s " NUMBER ALTERNATIVES" ++ [':'] by decide,
      show numVotersKey = '#' :: s " NUMBER VOTERS" ++ [':'] by decide,
      show numUniqueKey = '#' :: s " NUMBER UNIQUE PREFERENCES" ++ [':'] by decide,
      show numCatKey = '#' :: s " NUMBER CATEGORIES" ++ [':'] by decide, h1, h2, h3, h4]

theorem hdrPl_hash (i : CatInst) : ∀ l ∈ hdrPl i, startsWith l ['#'] = true := by
  intro l hl
  simp only [hdrPl, List.mem_append, List.mem_map, List.mem_cons, List.not_mem_nil, or_false] at hl
  rcases hl with ((⟨f, _, rfl⟩ | rfl | rfl | rfl | rfl) | ⟨kv, _, rfl⟩) | ⟨kv, _, rfl⟩ <;>
    exact startsWith_hash_cons _

end PrefVerif.C08
