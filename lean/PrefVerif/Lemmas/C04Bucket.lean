import PrefVerif.Model.SingleCrossing
import PrefVerif.Lemmas.IOSort
/-!
# C04 helpers: the voter ordering computed by `is_single_crossing` is a permutation of the input
(sort branch: `stableSort_perm`; bucket branch: every score lies in `[-m², m²]`).
-/
namespace PrefVerif.C04
open PrefVerif PrefVerif.SingleCrossing PrefVerif.Distances PrefVerif.Py

theorem kt_le_sq (a b : List Nat) : kt a b ≤ a.length * a.length := by
  induction a with
  | nil => simp [kt]
  | cons x rest ih =>
    have h1 := List.length_filter_le (fun y => decide (b.idxOf x > b.idxOf y)) rest
    simp only [kt, List.length_cons]
    have : (rest.length + 1) * (rest.length + 1) = rest.length * rest.length + 2 * rest.length + 1 := by
      rw [Nat.add_mul, Nat.mul_add]; omega
    omega

theorem filter_disj_perm {α : Type} (p q r : α → Bool) (l : List α)
    (hr : ∀ x ∈ l, r x = (p x || q x)) (hd : ∀ x ∈ l, p x = true → q x = false) :
    (l.filter r).Perm (l.filter p ++ l.filter q) := by
  induction l with
  | nil => simp
  | cons x l ih =>
    have ih' := ih (fun y hy => hr y (List.mem_cons_of_mem _ hy)) (fun y hy => hd y (List.mem_cons_of_mem _ hy))
    have hrx := hr x List.mem_cons_self
    have hdx := hd x List.mem_cons_self
    cases hp : p x
    · cases hq : q x
      · simp [hp, hq, hrx]; exact ih'
      · simp only [List.filter_cons, hp, hq, hrx, Bool.or_true, if_true, Bool.false_eq_true, if_false]
        exact (ih'.cons x).trans List.perm_middle.symm
    · have hq := hdx hp
      simp only [List.filter_cons, hp, hq, hrx, Bool.or_false, if_true, Bool.false_eq_true, if_false,
        List.cons_append]
      exact ih'.cons x

theorem bucket_prefix_perm {α : Type} (f : α → Int) (l : List α) (n : Nat) :
    ((List.range n).flatMap (fun (ix : Nat) => l.filter (fun o => f o == (ix : Int)))).Perm
      (l.filter (fun o => decide (0 ≤ f o) && decide (f o < (n : Int)))) := by
  induction n with
  | zero =>
    simp only [List.range_zero, List.flatMap_nil]
    have : l.filter (fun o => decide (0 ≤ f o) && decide (f o < ((0 : Nat) : Int))) = [] := by
      rw [List.filter_eq_nil_iff]
      intro a _
      simp only [Bool.and_eq_true, decide_eq_true_eq]
      omega
    rw [this]
  | succ n ih =>
    rw [List.range_succ, List.flatMap_append]
    simp only [List.flatMap_cons, List.flatMap_nil, List.append_nil]
    refine (ih.append_right _).trans (filter_disj_perm _ _ _ l ?_ ?_).symm
    · intro x _
      rw [Bool.eq_iff_iff]
      simp only [Bool.and_eq_true, Bool.or_eq_true, decide_eq_true_eq, beq_iff_eq]
      omega
    · intro x _
      simp only [Bool.and_eq_true, decide_eq_true_eq, beq_eq_false_iff_ne]
      omega

theorem bucket_perm {α : Type} (f : α → Int) (l : List α) (n : Nat)
    (h : ∀ o ∈ l, 0 ≤ f o ∧ f o < (n : Int)) :
    ((List.range n).flatMap (fun (ix : Nat) => l.filter (fun o => f o == (ix : Int)))).Perm l := by
  have h1 := bucket_prefix_perm f l n
  have h2 : l.filter (fun o => decide (0 ≤ f o) && decide (f o < (n : Int))) = l := by
    rw [List.filter_eq_self]
    intro a ha
    simp [h a ha]
  rwa [h2] at h1

/-- every stored score lies in `[-M, M]` -/
def Bounded (M : Nat) (sc : AList (List Nat) Int) : Prop := ∀ p ∈ sc, -(M : Int) ≤ p.2 ∧ p.2 ≤ (M : Int)

theorem mem_set (sc : AList (List Nat) Int) (k : List Nat) (v : Int) (p : List Nat × Int)
    (hp : p ∈ AList.set sc k v) : p ∈ sc ∨ p.2 = v := by
  induction sc with
  | nil =>
    simp only [AList.set, List.mem_singleton] at hp
    right; rw [hp]
  | cons q d ih =>
    obtain ⟨k', v'⟩ := q
    simp only [AList.set] at hp
    split at hp
    · rcases List.mem_cons.1 hp with rfl | h
      · right; rfl
      · left; exact List.mem_cons_of_mem _ h
    · rcases List.mem_cons.1 hp with rfl | h
      · left; exact List.mem_cons_self
      · rcases ih h with h | h
        · left; exact List.mem_cons_of_mem _ h
        · right; exact h

theorem Bounded.set {M : Nat} {sc : AList (List Nat) Int} (h : Bounded M sc) (k : List Nat) (v : Int)
    (hv : -(M : Int) ≤ v ∧ v ≤ (M : Int)) : Bounded M (AList.set sc k v) := by
  intro p hp
  rcases mem_set sc k v p hp with h' | h'
  · exact h p h'
  · rw [h']; exact hv

theorem Bounded.get {M : Nat} {sc : AList (List Nat) Int} (h : Bounded M sc) (o : List Nat) :
    -(M : Int) ≤ (AList.get? sc o).getD 0 ∧ (AList.get? sc o).getD 0 ≤ (M : Int) := by
  unfold AList.get?
  cases hf : sc.find? (fun p => p.1 == o) with
  | none => simp
  | some p =>
    simp only [Option.map_some, Option.getD_some]
    exact h p (List.mem_of_find?_eq_some hf)

theorem scoreLoop_bounded (v1 v2 : List Nat) (k M : Nat) (os : List (List Nat)) :
    ∀ sc sc', (∀ o ∈ os, kt v1 o ≤ M) → Bounded M sc → scoreLoop v1 v2 k os sc = some sc' →
      Bounded M sc' := by
  induction os with
  | nil =>
    intro sc sc' _ hb h
    simp only [scoreLoop, Option.some.injEq] at h
    rw [← h]; exact hb
  | cons o os ih =>
    intro sc sc' hk hb h
    have hko := hk o List.mem_cons_self
    have hk' : ∀ o ∈ os, kt v1 o ≤ M := fun o ho => hk o (List.mem_cons_of_mem _ ho)
    simp only [scoreLoop] at h
    split at h
    · exact ih _ _ hk' (hb.set o _ (by omega)) h
    · split at h
      · exact ih _ _ hk' (hb.set o _ (by omega)) h
      · split at h
        · exact ih _ _ hk' (hb.set o _ (by omega)) h
        · exact absurd h (by simp)

end PrefVerif.C04

namespace PrefVerif.C04
open PrefVerif PrefVerif.SingleCrossing PrefVerif.Distances PrefVerif.Py

theorem ite_pair_true {V s : List (List Nat)}
    (h : (if isOrderedSC V = true then (true, V) else (false, ([] : List (List Nat)))) = (true, s)) :
    s = V ∧ isOrderedSC V = true := by
  split at h
  · rename_i hv
    simp only [Prod.mk.injEq, true_and] at h
    exact ⟨h.symm, hv⟩
  · simp at h

/-- a True answer of `is_single_crossing` returns a permutation of the input that passed the
verification pass -/
theorem isSC_true (orders s : List (List Nat)) (m : Nat) (hlen : ∀ o ∈ orders, o.length = m)
    (hr : isSC orders m = (true, s)) : s.Perm orders ∧ isOrderedSC s = true := by
  match orders, hlen, hr with
  | [], _, hr =>
    simp only [isSC, Prod.mk.injEq, true_and] at hr
    subst hr; exact ⟨List.Perm.refl _, rfl⟩
  | [o], _, hr =>
    simp only [isSC, Prod.mk.injEq, true_and] at hr
    subst hr; exact ⟨List.Perm.refl _, rfl⟩
  | v1 :: v2 :: rest, hlen, hr =>
    simp only [isSC] at hr
    cases hsc : scoreLoop v1 v2 (kt v1 v2) rest (AList.set [] v2 ((kt v1 v2 : Nat) : Int)) with
    | none => rw [hsc] at hr; simp at hr
    | some sc =>
      rw [hsc] at hr
      dsimp only at hr
      split at hr
      · obtain ⟨rfl, hord⟩ := ite_pair_true hr
        exact ⟨IOL.stableSort_perm _ _, hord⟩
      · obtain ⟨rfl, hord⟩ := ite_pair_true hr
        refine ⟨?_, hord⟩
        have hv1 : v1.length = m := hlen v1 (by simp)
        have hb : Bounded (m * m) sc := by
          refine scoreLoop_bounded v1 v2 _ (m * m) rest _ sc ?_ ?_ hsc
          · intro o _
            have := kt_le_sq v1 o
            rwa [hv1] at this
          · intro p hp
            simp only [AList.set, List.mem_singleton] at hp
            have := kt_le_sq v1 v2
            rw [hv1] at this
            rw [hp]; simp only; omega
        have e : 2 * m * m + 1 = 2 * (m * m) + 1 := by rw [Nat.mul_assoc]
        rw [e]
        apply bucket_perm (fun o => (AList.get? sc o).getD 0 + ((m * m : Nat) : Int))
        intro o _
        have := hb.get o
        omega

end PrefVerif.C04
