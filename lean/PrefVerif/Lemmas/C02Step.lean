import PrefVerif.Lemmas.C02Core
/-! Per-entry-point preservation of the C02 invariant (everything except `data_type`). -/
namespace PrefVerif.C02
open PrefVerif PrefVerif.Ordinal PrefVerif.Spec PrefVerif.Py

/-! ### `addAlt` -/

theorem mem_foldl_addAlt (l keys : List Nat) (a : Nat) :
    a ∈ l.foldl addAlt keys ↔ a ∈ keys ∨ a ∈ l := by
  induction l generalizing keys with
  | nil => simp
  | cons x l ih =>
    rw [List.foldl_cons, ih]
    unfold addAlt
    split
    · next h =>
      have hx : x ∈ keys := by simpa using h
      simp only [List.mem_cons]
      constructor
      · rintro (h | h)
        · exact Or.inl h
        · exact Or.inr (Or.inr h)
      · rintro (h | h | h)
        · exact Or.inl h
        · exact Or.inl (h ▸ hx)
        · exact Or.inr h
    · simp only [List.mem_append, List.mem_cons, List.not_mem_nil, or_false]
      constructor
      · rintro ((h | h) | h)
        · exact Or.inl h
        · exact Or.inr (Or.inl h)
        · exact Or.inr (Or.inr h)
      · rintro (h | h | h)
        · exact Or.inl (Or.inl h)
        · exact Or.inl (Or.inr h)
        · exact Or.inr h

theorem nodup_foldl_addAlt (l keys : List Nat) (h : keys.Nodup) : (l.foldl addAlt keys).Nodup := by
  induction l generalizing keys with
  | nil => simpa
  | cons x l ih =>
    rw [List.foldl_cons]
    apply ih
    unfold addAlt
    split
    · exact h
    · next hx =>
      have hx : x ∉ keys := by simpa using hx
      rw [List.nodup_append]
      refine ⟨h, by simp, ?_⟩
      intro a ha b hb
      simp only [List.mem_singleton] at hb
      subst hb
      intro hab; subst hab; exact hx ha

theorem flatten_map_singleton (l : List Nat) : (l.map (fun a => [a])).flatten = l := by
  induction l with
  | nil => rfl
  | cons a l ih => simp [ih]

/-! ### the invariant without `data_type` -/

/-- the part of the invariant that holds inside the `append_vote_map` loop -/
structure Mid (s : OrdState) (v : List Order) : Prop where
  core : Core s.orders s.multiplicity v
  voters : s.numVoters = v.length
  alts : ∀ a, a ∈ s.altKeys ↔ ∃ o ∈ v, a ∈ o.flatten
  altsNodup : s.altKeys.Nodup

/-- `Consistent` without the `type` field -/
structure Pre (s : OrdState) (v : List Order) : Prop where
  mid : Mid s v
  unique : s.numUniqueOrders = s.orders.length
  numAlts : s.numAlternatives = s.altKeys.length

theorem Mid.perm {s : OrdState} {v w : List Order} (h : Mid s v) (hp : v.Perm w) : Mid s w :=
  ⟨h.core.perm hp, by rw [h.voters, hp.length_eq],
   fun a => by
    rw [h.alts a]
    constructor
    · rintro ⟨o, ho, ha⟩; exact ⟨o, hp.mem_iff.1 ho, ha⟩
    · rintro ⟨o, ho, ha⟩; exact ⟨o, hp.mem_iff.2 ho, ha⟩,
   h.altsNodup⟩

theorem Pre.perm {s : OrdState} {v w : List Order} (h : Pre s v) (hp : v.Perm w) : Pre s w :=
  ⟨h.mid.perm hp, h.unique, h.numAlts⟩

theorem Pre.init : Pre init [] :=
  ⟨⟨Core.nil, rfl, by simp [Ordinal.init], by simp [Ordinal.init]⟩, rfl, rfl⟩

/-- alternatives after adding the alternatives `L` of the new votes `w` -/
theorem alts_step {keys L : List Nat} {v w : List Order}
    (h : ∀ a, a ∈ keys ↔ ∃ o ∈ v, a ∈ o.flatten) (hL : ∀ a, a ∈ L ↔ ∃ o ∈ w, a ∈ o.flatten) :
    ∀ a, a ∈ L.foldl addAlt keys ↔ ∃ o ∈ v ++ w, a ∈ o.flatten := by
  intro a
  rw [mem_foldl_addAlt, h a, hL a]
  simp only [List.mem_append]
  constructor
  · rintro (⟨o, ho, ha⟩ | ⟨o, ho, ha⟩)
    · exact ⟨o, Or.inl ho, ha⟩
    · exact ⟨o, Or.inr ho, ha⟩
  · rintro ⟨o, ho | ho, ha⟩
    · exact Or.inl ⟨o, ho, ha⟩
    · exact Or.inr ⟨o, ho, ha⟩

/-! ### `addOne` -/

theorem addOne_frame (s : OrdState) (o : Order) :
    (addOne s o).altKeys = s.altKeys ∧ (addOne s o).numAlternatives = s.numAlternatives ∧
    (addOne s o).numVoters = s.numVoters ∧ (addOne s o).dataType = s.dataType := by
  unfold addOne; split <;> simp

theorem addOne_core (s : OrdState) (o : Order) (v : List Order)
    (h : Core s.orders s.multiplicity v) (hu : s.numUniqueOrders = s.orders.length) :
    Core (addOne s o).orders (addOne s o).multiplicity (v ++ [o]) ∧
    (addOne s o).numUniqueOrders = (addOne s o).orders.length := by
  unfold addOne
  split
  · next hc =>
    have ho : o ∈ s.orders := h.keys ▸ (contains_iff_mem_keys _ _).1 hc
    exact ⟨h.add_old o 1 ho, hu⟩
  · next hc =>
    have ho : o ∉ s.orders := fun hm => hc ((contains_iff_mem_keys _ _).2 (h.keys ▸ hm))
    exact ⟨h.add_new o 1 (Nat.le_refl 1) ho, by simp [hu]⟩

theorem foldl_addOne_frame (os : List Order) (s : OrdState) :
    (os.foldl addOne s).altKeys = s.altKeys ∧ (os.foldl addOne s).numAlternatives = s.numAlternatives ∧
    (os.foldl addOne s).numVoters = s.numVoters := by
  induction os generalizing s with
  | nil => simp
  | cons o os ih =>
    rw [List.foldl_cons]
    obtain ⟨h1, h2, h3⟩ := ih (addOne s o)
    obtain ⟨g1, g2, g3, _⟩ := addOne_frame s o
    exact ⟨h1.trans g1, h2.trans g2, h3.trans g3⟩

theorem foldl_addOne_core (os : List Order) (s : OrdState) (v : List Order)
    (h : Core s.orders s.multiplicity v) (hu : s.numUniqueOrders = s.orders.length) :
    Core (os.foldl addOne s).orders (os.foldl addOne s).multiplicity (v ++ os) ∧
    (os.foldl addOne s).numUniqueOrders = (os.foldl addOne s).orders.length := by
  induction os generalizing s v with
  | nil => simpa using ⟨h, hu⟩
  | cons o os ih =>
    rw [List.foldl_cons]
    obtain ⟨h1, h2⟩ := addOne_core s o v h hu
    have := ih (addOne s o) (v ++ [o]) h1 h2
    simpa using this

/-! ### `append_order_list` and the two entry points that reduce to it -/

theorem appendOrderList_pre (s : OrdState) (os v : List Order) (h : Pre s v) :
    Pre (appendOrderList s os) (v ++ os) := by
  unfold appendOrderList
  simp only
  generalize hs0 : ({ s with altKeys := _, numAlternatives := _, numVoters := _ } : OrdState) = s0
  have e1 : s0.orders = s.orders := by subst hs0; rfl
  have e2 : s0.multiplicity = s.multiplicity := by subst hs0; rfl
  have e3 : s0.numUniqueOrders = s.numUniqueOrders := by subst hs0; rfl
  have e4 : s0.altKeys = (os.map List.flatten).flatten.foldl addAlt s.altKeys := by subst hs0; rfl
  have e5 : s0.numAlternatives = s0.altKeys.length := by subst hs0; rfl
  have e6 : s0.numVoters = s.numVoters + os.length := by subst hs0; rfl
  obtain ⟨c, u⟩ := foldl_addOne_core os s0 v (by rw [e1, e2]; exact h.mid.core) (by rw [e3, e1]; exact h.unique)
  obtain ⟨f1, f2, f3⟩ := foldl_addOne_frame os s0
  refine ⟨⟨c, ?_, ?_, ?_⟩, u, ?_⟩
  · show (os.foldl addOne s0).numVoters = _
    rw [f3, e6, h.mid.voters]; simp
  · show ∀ a, a ∈ (os.foldl addOne s0).altKeys ↔ _
    rw [f1, e4]
    apply alts_step h.mid.alts
    intro a
    simp only [List.mem_flatten, List.mem_map]
    constructor
    · rintro ⟨l, ⟨o, ho, rfl⟩, ha⟩
      exact ⟨o, ho, List.mem_flatten.1 ha⟩
    · rintro ⟨o, ho, ha⟩
      exact ⟨o.flatten, ⟨o, ho, rfl⟩, List.mem_flatten.2 ha⟩
  · show (os.foldl addOne s0).altKeys.Nodup
    rw [f1, e4]
    exact nodup_foldl_addAlt _ _ h.mid.altsNodup
  · show (os.foldl addOne s0).numAlternatives = (os.foldl addOne s0).altKeys.length
    rw [f1, f2, e5]

theorem appendOrderArray_eq (s : OrdState) (os : List (List Nat)) :
    appendOrderArray s os = appendOrderList s (os.map (fun o => o.map (fun a => [a]))) := by
  unfold appendOrderArray appendOrderList
  have : (os.map (fun o => o.map (fun a => [a]))).map List.flatten = os := by
    rw [List.map_map]
    conv => rhs; rw [← List.map_id os]
    apply List.map_congr_left
    intro o _
    simp [flatten_map_singleton]
  simp only [this, List.length_map, List.foldl_map]

theorem appendOrder_eq (s : OrdState) (o : List Nat) :
    appendOrder s o = appendOrderList s [o.map (fun a => [a])] := by
  unfold appendOrder appendOrderList
  simp [flatten_map_singleton]

end PrefVerif.C02
