import PrefVerif.Lemmas.ILPOrder
import PrefVerif.Lemmas.C05Seg
/-!
# ILP helper lemmas, part 3: the consecutive-ones constraints of one matrix row

Under an assignment whose `leftOf` variables encode the order of a list `ax`, the (possibly relaxed)
constraints of a row hold iff the row is contiguous on `ax`, where `ax` collects exactly the indices
whose triples are not relaxed.
-/
namespace PrefVerif.ILPP
open PrefVerif PrefVerif.ILP PrefVerif.Spec PrefVerif.C05

variable {asg : Var → Rat}

theorem bin_add_le_one {x y : Rat} (hx : Bin x) (hy : Bin y) : x + y ≤ 1 ↔ ¬ (x = 1 ∧ y = 1) := by
  rcases hx with rfl | rfl <;> rcases hy with rfl | rfl <;> grind

theorem bin_le_one {x : Rat} (hx : Bin x) : x ≤ 1 := by rcases hx with rfl | rfl <;> grind

theorem bin_nonneg {x : Rat} (hx : Bin x) : 0 ≤ x := by rcases hx with rfl | rfl <;> grind

/-- contiguity in terms of positions of members -/
theorem contiguous_iff_noBetween (ax : List Nat) (hn : ax.Nodup) (r : List Nat) :
    Contiguous ax r ↔ ∀ i ∈ ax, ∀ j ∈ ax, ∀ k ∈ ax, i ∈ r → j ∈ r → k ∉ r →
      ¬ (ax.idxOf i < ax.idxOf k ∧ ax.idxOf k < ax.idxOf j) := by
  rw [contiguous_def_iff]
  constructor
  · intro h i hi j hj k hk hir hjr hkr ⟨h1, h2⟩
    have hli := List.idxOf_lt_length_of_mem hi
    have hlj := List.idxOf_lt_length_of_mem hj
    have hlk := List.idxOf_lt_length_of_mem hk
    have := h (ax.idxOf i) (ax.idxOf k) (ax.idxOf j) h1 h2 hlj
    rw [List.getElem_idxOf hli, List.getElem_idxOf hlj, List.getElem_idxOf hlk] at this
    exact hkr (this hir hjr)
  · intro h p q s hpq hqs hs hp hs'
    apply Classical.byContradiction
    intro hq
    have := h ax[p] (List.getElem_mem _) ax[s] (List.getElem_mem _) ax[q] (List.getElem_mem _) hp hs' hq
    rw [hn.idxOf_getElem p (by omega), hn.idxOf_getElem q (by omega), hn.idxOf_getElem s hs] at this
    exact this ⟨hpq, hqs⟩

/-- the constraints of a row, spelled out -/
theorem sat_consOnesRow (m : Nat) (r : List Nat) (relax : Nat → Nat → Nat → List Var) :
    Sat asg (consOnesRow m r relax) ↔ ∀ i j k, i < j → j < m → k < m → i ∈ r → j ∈ r → k ∉ r →
      (asg (.leftOf i k) + asg (.leftOf k j) - relaxSum asg (relax i j k) ≤ 1 ∧
       asg (.leftOf j k) + asg (.leftOf k i) - relaxSum asg (relax i j k) ≤ 1) := by
  have hpw : ((List.range m).filter (fun c => r.contains c)).Pairwise (· < ·) :=
    List.pairwise_lt_range.filter _
  simp only [consOnesRow, rowSets, sat_flatMap, sat_consOnesPair]
  constructor
  · intro h i j k hij hj hk hi hjr hkr
    refine h (i, j) ((mem_combos2 hpw i j).2 ⟨?_, ?_, hij⟩) k ?_
    · simp [List.mem_filter, hi]; omega
    · simp [List.mem_filter, hjr, hj]
    · simp [List.mem_filter, hkr, hk]
  · rintro h ⟨i, j⟩ hij k hk
    obtain ⟨hi, hj, hlt⟩ := (mem_combos2 hpw i j).1 hij
    simp only [List.mem_filter, List.mem_range, List.contains_iff_mem, Bool.not_eq_true'] at hi hj hk
    have hk' : k ∉ r := by
      have := hk.2; simpa using this
    exact h i j k hlt hj.1 hk.1 hi.2 hj.2 hk'

/-- a relaxed triple is satisfied by any binary point -/
theorem relaxed_ok {x y S : Rat} (hx : Bin x) (hy : Bin y) (hS : 1 ≤ S) : x + y - S ≤ 1 := by
  have := bin_le_one hx; have := bin_le_one hy; grind

theorem sat_row_iff {m : Nat} {ax : List Nat} (hn : ax.Nodup) (hE : Encodes asg ax)
    (hbin : ∀ a b, a < m → b < m → Bin (asg (.leftOf a b))) (hax : ∀ a ∈ ax, a < m)
    (r : List Nat) (relax : Nat → Nat → Nat → List Var)
    (hS : ∀ i j k, i < m → j < m → k < m →
      (relaxSum asg (relax i j k) = 0 ∧ i ∈ ax ∧ j ∈ ax ∧ k ∈ ax) ∨
      (1 ≤ relaxSum asg (relax i j k) ∧ ¬ (i ∈ ax ∧ j ∈ ax ∧ k ∈ ax))) :
    Sat asg (consOnesRow m r relax) ↔ Contiguous ax r := by
  rw [sat_consOnesRow, contiguous_iff_noBetween ax hn]
  constructor
  · intro h i hi j hj k hk hir hjr hkr ⟨h1, h2⟩
    have hik : i ≠ k := fun e => hkr (e ▸ hir)
    have hjk : j ≠ k := fun e => hkr (e ▸ hjr)
    have hij : i ≠ j := fun e => by subst e; omega
    have e1 : asg (.leftOf i k) = 1 := (hE.iff i hi k hk hik).2 h1
    have e2 : asg (.leftOf k j) = 1 := (hE.iff k hk j hj (Ne.symm hjk)).2 h2
    rcases Nat.lt_or_gt_of_ne hij with hlt | hlt
    · have hc := (h i j k hlt (hax j hj) (hax k hk) hir hjr hkr).1
      rcases hS i j k (hax i hi) (hax j hj) (hax k hk) with ⟨h0, _⟩ | ⟨_, hno⟩
      · rw [h0, e1, e2] at hc; grind
      · exact hno ⟨hi, hj, hk⟩
    · have hc := (h j i k hlt (hax i hi) (hax k hk) hjr hir hkr).2
      rcases hS j i k (hax j hj) (hax i hi) (hax k hk) with ⟨h0, _⟩ | ⟨_, hno⟩
      · rw [h0, e1, e2] at hc; grind
      · exact hno ⟨hj, hi, hk⟩
  · intro h i j k hij hj hk hir hjr hkr
    have hi : i < m := by omega
    rcases hS i j k hi hj hk with ⟨h0, hia, hja, hka⟩ | ⟨h1, _⟩
    · have hik : i ≠ k := fun e => hkr (e ▸ hir)
      have hjk : j ≠ k := fun e => hkr (e ▸ hjr)
      rw [h0]
      refine ⟨?_, ?_⟩
      · have : asg (.leftOf i k) + asg (.leftOf k j) ≤ 1 := by
          rw [bin_add_le_one (hbin i k hi hk) (hbin k j hk hj)]
          rintro ⟨e1, e2⟩
          exact h i hia j hja k hka hir hjr hkr
            ⟨(hE.iff i hia k hka hik).1 e1, (hE.iff k hka j hja (Ne.symm hjk)).1 e2⟩
        grind
      · have : asg (.leftOf j k) + asg (.leftOf k i) ≤ 1 := by
          rw [bin_add_le_one (hbin j k hj hk) (hbin k i hk hi)]
          rintro ⟨e1, e2⟩
          exact h j hja i hia k hka hjr hir hkr
            ⟨(hE.iff j hja k hka hjk).1 e1, (hE.iff k hka i hia (Ne.symm hik)).1 e2⟩
        grind
    · exact ⟨relaxed_ok (hbin i k hi hk) (hbin k j hk hj) h1,
        relaxed_ok (hbin j k hj hk) (hbin k i hk hi) h1⟩

/-- a row all of whose triples are relaxed imposes nothing -/
theorem sat_row_of_relaxed {m : Nat} (hbin : ∀ a b, a < m → b < m → Bin (asg (.leftOf a b)))
    (r : List Nat) (relax : Nat → Nat → Nat → List Var)
    (hS : ∀ i j k, 1 ≤ relaxSum asg (relax i j k)) : Sat asg (consOnesRow m r relax) := by
  rw [sat_consOnesRow]
  intro i j k hij hj hk _ _ _
  have hi : i < m := by omega
  exact ⟨relaxed_ok (hbin i k hi hk) (hbin k j hk hj) (hS i j k),
    relaxed_ok (hbin j k hj hk) (hbin k i hk hi) (hS i j k)⟩

end PrefVerif.ILPP
