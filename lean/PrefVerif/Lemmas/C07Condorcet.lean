import PrefVerif.Lemmas.C07Table
/-!
# C07 helper lemmas: `has_condorcet` and the `order_to_pwg` lines
-/
namespace PrefVerif.C07
open PrefVerif PrefVerif.Pairwise PrefVerif.Py PrefVerif.Spec

set_option linter.unusedSimpArgs false

theorem le_foldl_min (c v : Int) (vs : List Int) :
    c ≤ vs.foldl min v ↔ c ≤ v ∧ ∀ u ∈ vs, c ≤ u := by
  induction vs generalizing v with
  | nil => simp
  | cons u vs ih =>
    simp only [List.foldl_cons, ih, Int.le_min, List.mem_cons, forall_eq_or_imp, and_assoc]

theorem lt_foldl_min (c v : Int) (vs : List Int) :
    c < vs.foldl min v ↔ c < v ∧ ∀ u ∈ vs, c < u := by
  induction vs generalizing v with
  | nil => simp
  | cons u vs ih =>
    simp only [List.foldl_cons, ih, Int.lt_min, List.mem_cons, forall_eq_or_imp, and_assoc]

/-- the per-row test of `has_condorcet` -/
def rowOk (weak : Bool) (vals : List Int) : Bool :=
  vals.all (fun v => if weak then decide (v ≥ 0) else decide (v > 0))

theorem listMin_test (weak : Bool) (v : Int) (vs : List Int) :
    listMin (v :: vs) = some (vs.foldl min v) ∧
    (decide (if weak = true then vs.foldl min v ≥ 0 else vs.foldl min v > 0))
      = rowOk weak (v :: vs) := by
  refine ⟨rfl, ?_⟩
  rw [Bool.eq_iff_iff]
  cases weak
  · simp [rowOk, lt_foldl_min]
  · simp [rowOk, le_foldl_min]

theorem go_eq (weak : Bool) (rows : List (AList Nat Int)) (h : ∀ r ∈ rows, r ≠ []) :
    hasCondorcet.go weak rows = some (rows.any (fun r => rowOk weak (AList.values r))) := by
  induction rows with
  | nil => simp [hasCondorcet.go]
  | cons r rows ih =>
    have hr : r ≠ [] := h r (by simp)
    have ih' := ih (fun r' hr' => h r' (by simp [hr']))
    obtain ⟨e, r', rfl⟩ := List.exists_cons_of_ne_nil hr
    have ht := listMin_test weak e.2 (AList.values r')
    have hv : AList.values (e :: r') = e.2 :: AList.values r' := rfl
    unfold hasCondorcet.go
    rw [hv, ht.1]
    simp only [List.any_cons, ih', hv, ← ht.2]
    by_cases hc : (if weak = true then (AList.values r').foldl min e.2 ≥ 0
        else (AList.values r').foldl min e.2 > 0)
    · simp [hc]
    · simp [hc]

theorem filter_ne_ne_nil (alts : List Nat) (hnd : alts.Nodup) (h2 : 2 ≤ alts.length) (a : Nat) :
    alts.filter (fun b => b != a) ≠ [] := by
  match alts, hnd, h2 with
  | x :: y :: rest, hnd, _ =>
    have hxy : x ≠ y := by
      intro h; subst h; simp at hnd
    intro hf
    rw [List.filter_eq_nil_iff] at hf
    have hx := hf x (by simp)
    have hy := hf y (by simp)
    simp at hx hy
    omega

theorem hasCondorcet_eq (alts : List Nat) (p : Profile) (hnd : alts.Nodup)
    (h : ∀ om ∈ p, wfOrder alts om.1 = true) (h2 : 2 ≤ alts.length) (weak : Bool) :
    hasCondorcet alts p weak = some (condorcet alts (votes p) weak) := by
  unfold hasCondorcet
  simp only [copelandScores_eq alts p hnd h, List.map_map, Function.comp_def]
  rw [go_eq]
  · congr 1
    unfold condorcet
    rw [List.any_map]
    apply List.any_congr rfl
    intro a
    simp only [Function.comp, rowOk, AList.values, List.map_map, List.all_map, List.all_filter]
    apply List.all_congr rfl
    intro b
    by_cases hab : a = b
    · subst hab; simp
    · have h1 : (b != a) = true := by simpa using fun h => hab h.symm
      have h2 : (a == b) = false := by simpa using hab
      cases weak <;> simp [h1, h2]
  · intro r hr
    simp only [List.mem_map] at hr
    obtain ⟨a, _, rfl⟩ := hr
    simpa using filter_ne_ne_nil alts hnd h2 a

/-! ### `order_to_pwg` -/

theorem pwgLines_eq (alts : List Nat) (p : Profile) (hnd : alts.Nodup)
    (h : ∀ om ∈ p, wfOrder alts om.1 = true) :
    pwgLines alts p = alts.flatMap (fun a => (alts.filter (fun b => b != a)).map
      (fun b => (((prefCount (votes p) a b : Nat) : Int), a, b))) := by
  unfold pwgLines
  rw [pairwiseScores_eq alts p hnd h, List.flatMap_map]
  simp [List.map_map, Function.comp_def]

theorem length_filter_ne (alts : List Nat) (hnd : alts.Nodup) (a : Nat) (ha : a ∈ alts) :
    (alts.filter (fun b => b != a)).length = alts.length - 1 := by
  induction alts with
  | nil => simp at ha
  | cons x xs ih =>
    rw [List.nodup_cons] at hnd
    by_cases hx : x = a
    · subst hx
      have : xs.filter (fun b => b != x) = xs := by
        rw [List.filter_eq_self]
        intro b hb
        have : b ≠ x := by rintro rfl; exact hnd.1 hb
        simpa using this
      simp [this]
    · have ha' : a ∈ xs := by
        simp only [List.mem_cons] at ha
        rcases ha with rfl | ha
        · exact absurd rfl hx
        · exact ha
      have hl : 0 < xs.length := List.length_pos_of_mem ha'
      simp [List.filter_cons, hx, ih hnd.2 ha']
      omega

theorem length_flatMap_const {α β : Type} (l : List α) (f : α → List β) (n : Nat)
    (h : ∀ a ∈ l, (f a).length = n) : (l.flatMap f).length = l.length * n := by
  induction l with
  | nil => simp
  | cons a l ih =>
    simp only [List.flatMap_cons, List.length_append, List.length_cons, h a (by simp),
      ih (fun b hb => h b (by simp [hb]))]
    rw [Nat.succ_mul]; omega

theorem length_pwgLines (alts : List Nat) (p : Profile) (hnd : alts.Nodup)
    (h : ∀ om ∈ p, wfOrder alts om.1 = true) :
    (pwgLines alts p).length = alts.length * (alts.length - 1) := by
  rw [pwgLines_eq alts p hnd h]
  apply length_flatMap_const
  intro a ha
  rw [List.length_map, length_filter_ne alts hnd a ha]

end PrefVerif.C07
