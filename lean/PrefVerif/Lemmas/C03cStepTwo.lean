import PrefVerif.Lemmas.C03cLoops
/-!
# C03 completeness, part 3: the two-candidates step when both ends exist — where the two candidates
go and why, and what a `break` means
-/
namespace PrefVerif.C03c
open PrefVerif PrefVerif.ELO PrefVerif.Py PrefVerif.C03

theorem q2_init (orders : List (List Nat)) (xi xj x y : Nat) : Q2 orders xi xj x y ⟨x, y, []⟩ :=
  ⟨Or.inl ⟨rfl, rfl⟩, Or.inl ⟨rfl, rfl⟩, fun a _ => by simp [AList.get?] at a,
    fun a _ => by simp [AList.get?] at a⟩

theorem forLoop_Q2 {orders : List (List Nat)} {s : State} {x y xi xj : Nat} (hxy : x ≠ y) :
    (∀ v, forLoop (body2 orders s xi xj) orders ⟨x, y, []⟩ = .fin v → Q2 orders xi xj x y v) ∧
    (∀ e, forLoop (body2 orders s xi xj) orders ⟨x, y, []⟩ = .brk e →
      ∃ o ∈ orders, ∃ v, Q2 orders xi xj x y v ∧ body2 orders s xi xj o v = .brk e) :=
  forLoop_mem (body2 orders s xi xj) (Q2 orders xi xj x y) orders
    (fun _ hoo _ a' hQ hb => (body2_Q2 hoo hxy hQ).1 a' hb) ⟨x, y, []⟩ (q2_init orders xi xj x y)

/-- with an empty dict every voter ranks both candidates above both ends -/
theorem rec2_empty {x y xi xj : Nat} {f : AList Nat Side} {o : List Nat} (dx : f.get? x = none)
    (dy : f.get? y = none) (h : Rec2 x y xi xj f o) :
    lt o x xi ∧ lt o x xj ∧ lt o y xi ∧ lt o y xj := by
  rcases h with h | ⟨w, u, hwu, h1, _⟩
  · exact h
  · rcases hwu with ⟨a, _⟩ | ⟨a, _⟩ <;> subst a <;> simp_all

theorem stepTwo_some_fin {orders : List (List Nat)} {s s' : State} {x y xi xj : Nat} (hxy : x ≠ y)
    (he : s.ends = some (xi, xj)) (h : stepTwo orders s x y = .fin s') :
    ∃ a b, ((a = x ∧ b = y) ∨ (a = y ∧ b = x)) ∧
      s' = { s with left := s.left ++ [a], right := b :: s.right, ends := some (a, b) } ∧
      ((∀ o ∈ orders, lt o x xi ∧ lt o x xj ∧ lt o y xi ∧ lt o y xj) ∨
        ∃ o ∈ orders, ForceLR xi xj o a b) := by
  obtain ⟨prefs, tal, left, right, ends⟩ := s
  simp only at he; subst he
  simp only [stepTwo] at h
  split at h
  · simp at h
  · simp at h
  · rename_i v hfl
    have hP : P2 x y xi xj ([] ++ orders) v :=
      forLoop_fin_pre (body2 orders _ xi xj) (P2 x y xi xj) (fun done o a a' hP hb => body2_P2 hxy hP hb)
        orders [] ⟨x, y, []⟩ v ⟨Or.inl ⟨rfl, rfl⟩, Or.inl ⟨rfl, rfl⟩, by simp⟩ hfl
    simp only [List.nil_append] at hP
    obtain ⟨hn, hd0, hall⟩ := hP
    obtain ⟨_, hd, hF⟩ := (forLoop_Q2 hxy).1 v hfl
    have hne := names_ne hxy hn
    have hnsw : (v.y = x ∧ v.x = y) ∨ (v.y = y ∧ v.x = x) := by
      rcases hn with ⟨a, b⟩ | ⟨a, b⟩
      · exact Or.inr ⟨b, a⟩
      · exact Or.inl ⟨b, a⟩
    obtain ⟨vx, vy, f⟩ := v
    simp only at hd hF hne hn hnsw hall hd0
    rcases hd with ⟨dx, dy⟩ | ⟨dx, dy⟩ | ⟨dx, dy⟩
    · -- empty dict
      have hf := forcedLeft_empty hne dx dy
      rw [hf] at h
      simp only [Loop.fin.injEq] at h
      refine ⟨vx, vy, hn, h.symm, Or.inl fun o ho => ?_⟩
      have dxy : f.get? x = none ∧ f.get? y = none := by
        rcases hn with ⟨a, b⟩ | ⟨a, b⟩ <;> simp only at a b <;> subst a b
        · exact ⟨dx, dy⟩
        · exact ⟨dy, dx⟩
      exact rec2_empty dxy.1 dxy.2 (hall o ho)
    · have hf := forcedLeft_full dx dy
      rw [hf] at h
      simp only [decide_true, Loop.fin.injEq] at h
      exact ⟨vx, vy, hn, h.symm, Or.inr (hF.1 dx dy)⟩
    · have hf := forcedLeft_full dx dy
      rw [hf] at h
      simp only [reduceCtorEq, decide_false, Loop.fin.injEq] at h
      exact ⟨vy, vx, hnsw, h.symm, Or.inr (hF.2 dx dy)⟩

/-- a `break` of the two-candidates step: two voters force opposite placements, or Case 2(d) -/
theorem stepTwo_some_brk {orders : List (List Nat)} {s : State} {x y xi xj : Nat} {e : Exit}
    (hxy : x ≠ y) (he : s.ends = some (xi, xj)) (h : stepTwo orders s x y = .brk e) :
    (e = .contra ∧ ∃ o1 ∈ orders, ∃ o2 ∈ orders, ∃ w u, ((w = x ∧ u = y) ∨ (w = y ∧ u = x)) ∧
        ForceLR xi xj o1 w u ∧ ForceLR xi xj o2 u w) ∨
    ∃ o ∈ orders, ∃ x' y', ((x' = x ∧ y' = y) ∨ (x' = y ∧ y' = x)) ∧
      ((e = .case2d (case2dAxis s o false) (axisTest orders (case2dAxis s o false)) ∧
          lt o xi y' ∧ lt o y' x') ∨
       (e = .case2d (case2dAxis s o true) (axisTest orders (case2dAxis s o true)) ∧
          lt o xj y' ∧ lt o y' x')) := by
  obtain ⟨prefs, tal, left, right, ends⟩ := s
  simp only at he; subst he
  simp only [stepTwo] at h
  split at h
  · simp at h
  · rename_i e' hfl
    simp only [Loop.brk.injEq] at h; subst h
    obtain ⟨o, hoo, v, hQ, hb⟩ := (forLoop_Q2 hxy).2 e' hfl
    rcases (body2_Q2 hoo hxy hQ).2 e' hb with ⟨hc, o1, ho1, w, u, hwu, hf⟩ | ⟨x', y', hn, h2d⟩
    · exact Or.inl ⟨hc, o1, ho1, o, hoo, w, u, hwu, hf⟩
    · exact Or.inr ⟨o, hoo, x', y', hn, h2d⟩
  · split at h <;> simp at h

end PrefVerif.C03c
