import PrefVerif.Model.KAltPartitionBF
import PrefVerif.Lemmas.C12DPSP
/-!
`extend(axes, extension, unique_votes, k)`: every list of incomplete axes it returns keeps "one hole per axis,
no vote has an interior local minimum on an axis, no empty axis, at most `k` axes", and carries exactly the
alternatives of `axes` plus those of `extension`.
-/
namespace PrefVerif.C18BF
open PrefVerif.KAlt PrefVerif.KAltBF PrefVerif.C12DP

/-- all the alternatives placed on a list of incomplete axes -/
def allMembers (axs : List Axis) : List Nat := axs.flatMap members

theorem allMembers_append (a b : List Axis) : allMembers (a ++ b) = allMembers a ++ allMembers b := by
  simp [allMembers, List.flatMap_append]

theorem allMembers_cons (A : Axis) (b : List Axis) : allMembers (A :: b) = members A ++ allMembers b := by
  simp [allMembers, List.flatMap_cons]

/-- invariant of a list of incomplete axes carrying the alternatives `P` -/
structure AxesInv (votes : List (List Nat)) (k : Nat) (P : List Nat) (axs : List Axis) : Prop where
  sp : ∀ A ∈ axs, AxSP votes A
  ne : ∀ A ∈ axs, members A ≠ []
  perm : (allMembers axs).Perm P
  len : axs.length ≤ k

theorem AxesInv.congr {votes k P P' axs} (h : AxesInv votes k P axs) (hp : P.Perm P') :
    AxesInv votes k P' axs := ⟨h.sp, h.ne, h.perm.trans hp, h.len⟩

theorem nodup_of_flatMap {α β : Type} (f : α → List β) (l : List α) (h : (l.flatMap f).Nodup) (a : α)
    (ha : a ∈ l) : (f a).Nodup := by
  induction l with
  | nil => cases ha
  | cons x xs ih =>
    rw [List.flatMap_cons, List.nodup_append] at h
    simp only [List.mem_cons] at ha
    rcases ha with rfl | ha
    · exact h.1
    · exact ih h.2.1 ha

/-- distinct axes: they carry disjoint non-empty sets of alternatives -/
theorem axes_nodup (axs : List Axis) (h : (allMembers axs).Nodup) (hne : ∀ A ∈ axs, members A ≠ []) :
    axs.Nodup := by
  induction axs with
  | nil => exact List.nodup_nil
  | cons A rest ih =>
    rw [allMembers_cons, List.nodup_append] at h
    rw [List.nodup_cons]
    refine ⟨?_, ih h.2.1 (fun B hB => hne B (by simp [hB]))⟩
    intro hA
    obtain ⟨x, hx⟩ := List.exists_mem_of_ne_nil _ (hne A (by simp))
    have : x ∈ allMembers rest := by
      unfold allMembers
      rw [List.mem_flatMap]
      exact ⟨A, hA, hx⟩
    exact h.2.2 x hx x this rfl

theorem members_hole : members [none] = [] := rfl

/-- a successful `place` (the axis changed) -/
theorem place_changed (votes : List (List Nat)) (A : Axis) (X : List Nat)
    (hne : ((place A X votes).1 != A) = true) (hA : AxSP votes A) :
    AxSP votes (place A X votes).1 ∧ X ≠ [] ∧ (members (place A X votes).1).Perm (X ++ members A) := by
  refine ⟨place_sp votes A X hA, ?_⟩
  rcases place_cases A X votes with h | h
  · rw [h] at hne
    simp at hne
  · exact h

theorem filter_ne_perm (unused : List Axis) (axis : Axis) (hmem : axis ∈ unused) (hnd : unused.Nodup) :
    unused.Perm (axis :: unused.filter (fun a => a != axis)) := by
  rw [← hnd.erase_eq_filter]
  exact List.perm_cons_erase hmem

/-- body of `for unused_axes, used_axes in queue` -/
theorem extendEntry_inv (votes : List (List Nat)) (k : Nat) (alt P : List Nat) (e : QEntry)
    (hP : P.Nodup) (h : AxesInv votes k P (e.1 ++ e.2)) :
    ∀ e' ∈ extendEntry votes k alt e, AxesInv votes k (alt ++ P) (e'.1 ++ e'.2) := by
  obtain ⟨unused, used⟩ := e
  dsimp only at h
  intro e' he'
  unfold extendEntry at he'
  dsimp only at he'
  rw [List.mem_append] at he'
  rcases he' with he' | he'
  · -- an unused axis is extended
    rw [List.mem_filterMap] at he'
    obtain ⟨axis, hax, he'⟩ := he'
    split at he'
    · rename_i hne
      cases he'
      dsimp only
      have hsp : AxSP votes axis := h.sp axis (by simp [hax])
      obtain ⟨hsp', hXne, hperm⟩ := place_changed votes axis alt hne hsp
      have hndAll : (allMembers (unused ++ used)).Nodup := h.perm.nodup_iff.2 hP
      have hndU : unused.Nodup := by
        apply axes_nodup
        · rw [allMembers_append, List.nodup_append] at hndAll; exact hndAll.1
        · intro B hB; exact h.ne B (by simp [hB])
      have hfp := filter_ne_perm unused axis hax hndU
      refine ⟨?_, ?_, ?_, ?_⟩
      · intro B hB
        simp only [List.mem_append, List.mem_filter, List.mem_singleton] at hB
        rcases hB with hB | hB | rfl
        · exact h.sp B (by simp [hB.1])
        · exact h.sp B (by simp [hB])
        · exact hsp'
      · intro B hB
        simp only [List.mem_append, List.mem_filter, List.mem_singleton] at hB
        rcases hB with hB | hB | rfl
        · exact h.ne B (by simp [hB.1])
        · exact h.ne B (by simp [hB])
        · intro hnil
          have hl := hperm.length_eq
          rw [hnil, List.length_append] at hl
          have : alt.length > 0 := List.length_pos_iff.2 hXne
          simp at hl
          omega
      · -- the alternatives
        have h1 : (allMembers unused).Perm (members axis ++ allMembers (unused.filter (fun a => a != axis))) := by
          have := hfp.flatMap_right members
          simpa [allMembers, List.flatMap_cons] using this
        have h2 := h.perm
        rw [allMembers_append] at h2
        rw [allMembers_append, allMembers_append]
        have h3 : (allMembers [(place axis alt votes).1]).Perm (alt ++ members axis) := by
          simpa [allMembers] using hperm
        -- F ++ (U ++ N)  ~  alt ++ (members axis ++ F) ++ U
        refine (List.Perm.append_left _ (List.Perm.append_left _ h3)).trans ?_
        have h4 : (alt ++ (members axis ++ allMembers (unused.filter (fun a => a != axis)) ++ allMembers used)).Perm
            (alt ++ P) := List.Perm.append_left _ ((List.Perm.append_right _ h1.symm).trans h2)
        refine List.Perm.trans ?_ h4
        -- pure rearrangement
        generalize allMembers (unused.filter (fun a => a != axis)) = F
        generalize allMembers used = U
        generalize members axis = M
        have : (F ++ (U ++ (alt ++ M))).Perm ((alt ++ M) ++ (F ++ U)) := by
          rw [← List.append_assoc]
          exact List.perm_append_comm
        refine this.trans ?_
        rw [List.append_assoc]
        refine List.Perm.append_left _ ?_
        rw [← List.append_assoc]
      · have hlt : (unused.filter (fun a => a != axis)).length < unused.length := by
          rw [List.length_filter_lt_length_iff_exists]
          exact ⟨axis, hax, by simp⟩
        have := h.len
        simp only [List.length_append, List.length_cons, List.length_nil] at this ⊢
        omega
    · cases he'
  · -- a new axis is opened
    split at he'
    · rename_i hlt
      split at he'
      · rename_i hne
        simp only [List.mem_singleton] at he'
        subst he'
        dsimp only
        obtain ⟨hsp', hXne, hperm⟩ := place_changed votes [none] alt hne (axSP_init votes)
        refine ⟨?_, ?_, ?_, ?_⟩
        · intro B hB
          simp only [List.mem_append, List.mem_singleton] at hB
          rcases hB with hB | hB | rfl
          · exact h.sp B (by simp [hB])
          · exact h.sp B (by simp [hB])
          · exact hsp'
        · intro B hB
          simp only [List.mem_append, List.mem_singleton] at hB
          rcases hB with hB | hB | rfl
          · exact h.ne B (by simp [hB])
          · exact h.ne B (by simp [hB])
          · intro hnil
            have hl := hperm.length_eq
            rw [hnil, List.length_append] at hl
            have : alt.length > 0 := List.length_pos_iff.2 hXne
            simp at hl
            omega
        · have h2 := h.perm
          rw [← List.append_assoc, allMembers_append]
          have h3 : (allMembers [(place [none] alt votes).1]).Perm alt := by
            simpa [allMembers, members_hole] using hperm
          exact (List.Perm.append h2 h3).trans List.perm_append_comm
        · simp only [List.length_append, List.length_cons, List.length_nil]
          omega
      · cases he'
    · cases he'

/-- `for alt in extension` -/
theorem extendFold_inv (votes : List (List Nat)) (k : Nat) (ext : List (List Nat)) (P : List Nat)
    (queue : List QEntry) (hP : (ext.flatten ++ P).Nodup)
    (h : ∀ e ∈ queue, AxesInv votes k P (e.1 ++ e.2)) :
    ∀ e ∈ ext.foldl (extendStep votes k) queue, AxesInv votes k (ext.flatten ++ P) (e.1 ++ e.2) := by
  induction ext generalizing P queue with
  | nil => simpa using h
  | cons alt rest ih =>
    rw [List.foldl_cons]
    have hperm : (rest.flatten ++ (alt ++ P)).Perm ((alt :: rest).flatten ++ P) := by
      rw [List.flatten_cons, List.append_assoc]
      exact List.perm_append_comm_assoc _ _ _
    have hP' : (rest.flatten ++ (alt ++ P)).Nodup := hperm.nodup_iff.2 hP
    have hPnd : P.Nodup := by
      rw [List.nodup_append] at hP; exact hP.2.1
    intro e he
    refine (ih (alt ++ P) (extendStep votes k queue alt) hP' ?_ e he).congr hperm
    intro e' he'
    unfold extendStep at he'
    rw [List.mem_flatMap] at he'
    obtain ⟨e0, he0, he'⟩ := he'
    exact extendEntry_inv votes k alt P e0 hPnd (h e0 he0) e' he'

/-- `extend` -/
theorem extend_inv (votes : List (List Nat)) (k : Nat) (axes : List Axis) (ext : List (List Nat)) (P : List Nat)
    (hP : (ext.flatten ++ P).Nodup) (h : AxesInv votes k P axes) :
    ∀ ax ∈ extend axes ext votes k, AxesInv votes k (ext.flatten ++ P) ax := by
  intro ax hax
  unfold extend at hax
  dsimp only at hax
  rw [List.mem_map] at hax
  obtain ⟨e, he, rfl⟩ := hax
  apply extendFold_inv votes k ext P [(axes, [])] hP _ e he
  intro e0 he0
  simp only [List.mem_singleton] at he0
  subst he0
  simpa using h

end PrefVerif.C18BF
