import PrefVerif.Lemmas.C12DPInv
import PrefVerif.Lemmas.C12DPSP
/-!
Every axis stored in the table `S`, `longest` and `locked_axis` has one hole and no vote with an interior local
minimum, through all the loops of `longest_single_peaked_axis`.
-/
namespace PrefVerif.C12DP
open PrefVerif.KAlt

structure InvSP (votes : List (List Nat)) (st : St) : Prop where
  S : ∀ e ∈ st.S, AxSP votes e.2
  longest : AxSP votes st.longest
  locked : AxSP votes st.locked

theorem processX_sp (votes : List (List Nat)) (A : Axis) (X : List Nat) (st : St) (hA : AxSP votes A)
    (hst : InvSP votes st) : InvSP votes (processX votes A st X) := by
  have hp := place_sp votes A X hA
  unfold processX
  dsimp only
  split
  · refine ⟨?_, ?_, hst.locked⟩
    · intro e he
      rcases mem_dictPut _ _ _ _ he with h | h | ⟨k', A', _, _, h⟩
      · exact hst.S e h
      · subst h; exact hp
      · subst h; exact hp
    · dsimp only; split
      · exact hp
      · exact hst.longest
  · split
    · exact ⟨hst.S, hst.longest, hp⟩
    · exact hst

theorem processKey_sp (votes : List (List Nat)) (suffix : List (PySet Nat)) (remaining : List Nat)
    (e : Key × Axis) (st : St) (he : AxSP votes e.2) (hst : InvSP votes st) :
    InvSP votes (processKey votes suffix remaining st e) := by
  unfold processKey
  split
  · exact hst
  · split
    · exact hst
    · apply foldl_inv (InvSP votes) _ _ _ hst
      intro st' X _ hst'
      exact processX_sp votes e.2 X st' he hst'

theorem mainLoop_sp (votes : List (List Nat)) (suffix : List (PySet Nat)) (remaining : List Nat) (st : St)
    (hst : InvSP votes st) : InvSP votes (mainLoop votes suffix st remaining) := by
  induction suffix generalizing st remaining with
  | nil => exact hst
  | cons Li rest ih =>
    unfold mainLoop
    apply ih
    apply foldl_inv (InvSP votes) _ _ _ hst
    intro st' e hemem hst'
    exact processKey_sp votes _ remaining e st' (hst.S e hemem) hst'

theorem st0_sp (votes : List (List Nat)) : InvSP votes st0 := by
  refine ⟨?_, axSP_init votes, axSP_init votes⟩
  intro e he
  simp only [st0, List.mem_singleton] at he
  subst he
  exact axSP_init votes

end PrefVerif.C12DP
