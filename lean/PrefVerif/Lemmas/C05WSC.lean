import PrefVerif.Lemmas.C05CI
/-!
# C05 helper lemmas, part 13: weakly single-crossing
-/
namespace PrefVerif.C05
open PrefVerif PrefVerif.Dichotomous PrefVerif.Spec PrefVerif.Spec.Approval

theorem mem_zipIdx_filter {α : Type} (l : List α) (b : α → Bool) (r : Nat) :
    r ∈ (l.zipIdx.filter (fun si => b si.1)).map (·.2) ↔ ∃ h : r < l.length, b l[r] = true := by
  simp only [List.mem_map, List.mem_filter]
  constructor
  · rintro ⟨⟨s, i⟩, ⟨hm, hs⟩, rfl⟩
    rw [List.mem_zipIdx_iff_getElem?] at hm
    simp only at hm hs ⊢
    obtain ⟨h, he⟩ := List.getElem?_eq_some_iff.1 hm
    exact ⟨h, by rw [he]; exact hs⟩
  · rintro ⟨h, ha⟩
    exact ⟨(l[r], r), ⟨by rw [List.mem_zipIdx_iff_getElem?]; simp [h], ha⟩, rfl⟩

/-- ballots approving `a` but not `b` -/
def wscSet (approved : List (List Nat)) (a b : Nat) : List Nat :=
  (approved.zipIdx.filter (fun si => si.1.contains a && !si.1.contains b)).map (·.2)

theorem wscSet_self (approved : List (List Nat)) (a r : Nat) : ¬ r ∈ wscSet approved a a := by
  rw [wscSet, mem_zipIdx_filter approved (fun s => s.contains a && !s.contains a)]
  simp

theorem mem_rowOnes_wsc (approved : List (List Nat)) (a b r : Nat) :
    r ∈ rowOnes (approved.map (fun app => if app.contains a && !app.contains b then 1 else 0)) ↔
      r ∈ wscSet approved a b := by
  rw [mem_rowOnes_ind approved (fun app => app.contains a && !app.contains b) r, wscSet,
    mem_zipIdx_filter approved (fun s => s.contains a && !s.contains b)]

theorem mem_pairs_mem (alts : List Nat) (a b : Nat) (h : (a, b) ∈ pairs alts) : a ∈ alts ∧ b ∈ alts := by
  induction alts with
  | nil => simp [pairs] at h
  | cons x rest ih =>
    simp only [pairs, List.mem_append, List.mem_map, Prod.mk.injEq] at h
    rcases h with ⟨y, hy, rfl, rfl⟩ | h
    · exact ⟨by simp, by simp [hy]⟩
    · exact ⟨by simp [(ih h).1], by simp [(ih h).2]⟩

theorem mem_pairs_of_ne (alts : List Nat) (a b : Nat) (ha : a ∈ alts) (hb : b ∈ alts) (hne : a ≠ b) :
    (a, b) ∈ pairs alts ∨ (b, a) ∈ pairs alts := by
  induction alts with
  | nil => simp at ha
  | cons x rest ih =>
    simp only [pairs, List.mem_append, List.mem_map, Prod.mk.injEq]
    rcases List.mem_cons.1 ha with rfl | ha' <;> rcases List.mem_cons.1 hb with rfl | hb'
    · exact absurd rfl hne
    · exact Or.inl (Or.inl ⟨b, hb', rfl, rfl⟩)
    · exact Or.inr (Or.inl ⟨a, ha', rfl, rfl⟩)
    · rcases ih ha' hb' with h | h
      · exact Or.inl (Or.inr h)
      · exact Or.inr (Or.inr h)

theorem rowsOK_wscMatrix (alts : List Nat) (approved : List (List Nat)) (ord : List Nat) :
    RowsOK (wscMatrix alts approved) ord ↔
      ∀ a ∈ alts, ∀ b ∈ alts, a = b ∨ Interval (fun r => r ∈ wscSet approved a b) ord := by
  have hrow : ∀ a b, Interval (fun c => c ∈ rowOnes
      (approved.map (fun app => if app.contains a && !app.contains b then 1 else 0))) ord ↔
      Interval (fun r => r ∈ wscSet approved a b) ord :=
    fun a b => interval_congr_iff ord (mem_rowOnes_wsc approved a b)
  simp only [RowsOK, wscMatrix, List.mem_flatMap, List.mem_cons, List.not_mem_nil, or_false,
    forall_exists_index, and_imp]
  constructor
  · intro h a ha b hb
    by_cases hab : a = b
    · exact Or.inl hab
    · right
      rcases mem_pairs_of_ne alts a b ha hb hab with hp | hp
      · exact (hrow a b).1 (h _ (a, b) hp (Or.inl rfl))
      · exact (hrow a b).1 (h _ (b, a) hp (Or.inr rfl))
  · rintro h row ⟨a, b⟩ hp (rfl | rfl)
    · obtain ⟨ha, hb⟩ := mem_pairs_mem alts a b hp
      rw [hrow]
      rcases h a ha b hb with rfl | hi
      · exact interval_of_forall_not (fun r _ => wscSet_self approved a r)
      · exact hi
    · obtain ⟨ha, hb⟩ := mem_pairs_mem alts a b hp
      rw [hrow]
      rcases h b hb a ha with rfl | hi
      · exact interval_of_forall_not (fun r _ => wscSet_self approved b r)
      · exact hi

theorem wscWitness_iff (alts : List Nat) (approved : List (List Nat)) (ord : List Nat) :
    wscWitness alts approved ord = true ↔
      ord.Perm (List.range approved.length) ∧
        ∀ a ∈ alts, ∀ b ∈ alts, a = b ∨ Interval (fun r => r ∈ wscSet approved a b) ord := by
  simp only [wscWitness, Bool.and_eq_true, isPermOf_range_iff, List.all_eq_true, Bool.or_eq_true,
    beq_iff_eq, contiguous_iff_interval, wscSet]

theorem weaklySingleCrossing_spec (solver : Solver) (hs : SolverOKI solver) (alts : List Nat)
    (approved : List (List Nat)) :
    (∀ order, isWeaklySingleCrossing solver alts approved = some order →
        wscWitness alts approved order = true) ∧
    (isWeaklySingleCrossing solver alts approved = none →
        ¬ ∃ order, wscWitness alts approved order = true) := by
  obtain ⟨h1, h2⟩ := solveC1_spec solver hs (wscMatrix alts approved) approved.length
  simp only [wscWitness_iff, ← rowsOK_wscMatrix]
  exact ⟨h1, h2⟩

end PrefVerif.C05
