import PrefVerif.Lemmas.C02AList
import PrefVerif.Model.Ordinal
import PrefVerif.Spec.Ordinal
/-! The core invariant of C02: (orders, multiplicity) against the multiset of votes. -/
namespace PrefVerif.C02
open PrefVerif PrefVerif.Ordinal PrefVerif.Spec PrefVerif.Py

/-- `orders`/`multiplicity` describe exactly the multiset `v` -/
structure Core (ords : List Order) (mult : AList Order Nat) (v : List Order) : Prop where
  cnt : ∀ o, (AList.get? mult o).getD 0 = v.count o
  keys : AList.keys mult = ords
  nodup : ords.Nodup
  support : ∀ o, o ∈ ords ↔ o ∈ v

theorem Core.nil : Core [] [] [] :=
  ⟨by intro o; simp [AList.get?], rfl, List.nodup_nil, by simp⟩

theorem Core.perm {ords : List Order} {mult : AList Order Nat} {v w : List Order} (h : Core ords mult v) (hp : v.Perm w) : Core ords mult w :=
  ⟨fun o => by rw [h.cnt o, hp.count_eq], h.keys, h.nodup, fun o => by rw [h.support o, hp.mem_iff]⟩

theorem Core.add_new {ords : List Order} {mult : AList Order Nat} {v : List Order} (h : Core ords mult v) (o : Order) (m : Nat) (hm : 1 ≤ m)
    (ho : o ∉ ords) : Core (ords ++ [o]) (AList.set mult o m) (v ++ List.replicate m o) := by
  have hov : o ∉ v := fun hv => ho ((h.support o).2 hv)
  refine ⟨?_, ?_, ?_, ?_⟩
  · intro o'
    by_cases he : o' = o
    · subst he
      rw [get?_set_same, List.count_append, List.count_replicate_self,
        List.count_eq_zero_of_not_mem hov]
      simp
    · rw [get?_set_other _ _ _ _ he, h.cnt o', List.count_append, List.count_replicate]
      have : (o == o') = false := beq_eq_false_iff_ne.mpr (Ne.symm he)
      simp [this]
  · rw [keys_set_of_not_mem _ _ _ (h.keys ▸ ho), h.keys]
  · rw [List.nodup_append]
    refine ⟨h.nodup, by simp, ?_⟩
    intro a ha b hb
    simp only [List.mem_singleton] at hb
    subst hb
    intro hab; subst hab; exact ho ha
  · intro o'
    simp only [List.mem_append, List.mem_singleton, List.mem_replicate, h.support o']
    constructor
    · rintro (h' | h')
      · exact Or.inl h'
      · exact Or.inr ⟨by omega, h'⟩
    · rintro (h' | h')
      · exact Or.inl h'
      · exact Or.inr h'.2

theorem Core.add_old {ords : List Order} {mult : AList Order Nat} {v : List Order} (h : Core ords mult v) (o : Order) (m : Nat)
    (ho : o ∈ ords) : Core ords (AList.upd mult o 0 (· + m)) (v ++ List.replicate m o) := by
  have hov : o ∈ v := (h.support o).1 ho
  unfold AList.upd
  refine ⟨?_, ?_, h.nodup, ?_⟩
  · intro o'
    by_cases he : o' = o
    · subst he
      rw [get?_set_same, List.count_append, List.count_replicate_self, h.cnt o']
      simp
    · rw [get?_set_other _ _ _ _ he, h.cnt o', List.count_append, List.count_replicate]
      have : (o == o') = false := beq_eq_false_iff_ne.mpr (Ne.symm he)
      simp [this]
  · rw [keys_set_of_mem _ _ _ (h.keys ▸ ho), h.keys]
  · intro o'
    simp only [List.mem_append, List.mem_replicate, h.support o']
    constructor
    · exact fun h' => Or.inl h'
    · rintro (h' | h')
      · exact h'
      · exact h'.2 ▸ hov

/-- count of a vote in the expansion of a vote map with distinct keys -/
theorem count_voteMap (vm : List (Order × Nat)) (hn : (AList.keys vm).Nodup) (o : Order) :
    (vm.flatMap (fun bm => List.replicate bm.2 bm.1)).count o = (AList.get? vm o).getD 0 := by
  induction vm with
  | nil => simp [AList.get?]
  | cons p d ih =>
    simp only [AList.keys, List.map_cons, List.nodup_cons] at hn
    rw [List.flatMap_cons, List.count_append, ih hn.2, get?_cons, List.count_replicate]
    by_cases he : p.1 = o
    · subst he
      have := get?_eq_none_of_not_mem d p.1 hn.1
      simp [this]
    · have : (p.1 == o) = false := beq_eq_false_iff_ne.mpr he
      simp [this]

/-- `full_profile` of a `Core` state is a permutation of the votes -/
theorem Core.fullProfile_perm {ords : List Order} {mult : AList Order Nat} {v : List Order} (h : Core ords mult v) :
    (ords.flatMap (fun o => List.replicate ((AList.get? mult o).getD 0) o)).Perm v := by
  rw [List.perm_iff_count]
  intro o
  rw [← h.cnt o]
  have hn : (AList.keys mult).Nodup := h.keys ▸ h.nodup
  rw [← count_voteMap mult hn o, ← h.keys]
  congr 1
  clear h
  induction mult with
  | nil => simp [AList.keys]
  | cons p d ih =>
    simp only [AList.keys, List.map_cons, List.nodup_cons] at hn
    simp only [AList.keys, List.map_cons, List.flatMap_cons, get?_cons, BEq.rfl, if_true,
      Option.getD_some]
    congr 1
    have ih' := ih hn.2
    simp only [AList.keys] at ih'
    rw [← ih']
    simp only [List.flatMap_map]
    simp only [List.flatMap_def]
    congr 1
    apply List.map_congr_left
    intro q hq
    have : (p.1 == q.1) = false := by
      simp only [beq_eq_false_iff_ne, ne_eq]
      intro he
      exact hn.1 (he ▸ List.mem_map_of_mem hq)
    simp [this]

end PrefVerif.C02
