import PrefVerif.Lemmas.C02VoteMap
/-! `infer_type` against the declarative `typeOfVotes`. -/
namespace PrefVerif.C02
open PrefVerif PrefVerif.Ordinal PrefVerif.Spec PrefVerif.Py

theorem foldl_max_eq_one (xs : List Nat) (a : Nat) (ha : 1 ≤ a) (hx : ∀ x ∈ xs, 1 ≤ x) :
    xs.foldl max a = 1 ↔ a = 1 ∧ ∀ x ∈ xs, x = 1 := by
  induction xs generalizing a with
  | nil => simp
  | cons x xs ih =>
    have hx1 : 1 ≤ x := hx x (List.mem_cons_self ..)
    rw [List.foldl_cons, ih (max a x) (by omega) (fun y hy => hx y (List.mem_cons_of_mem _ hy))]
    simp only [List.mem_cons, forall_eq_or_imp]
    constructor
    · rintro ⟨h1, h2⟩; exact ⟨by omega, by omega, h2⟩
    · rintro ⟨h1, h2, h3⟩; exact ⟨by omega, h3⟩

/-- the library's strictness test (`max` of the class sizes is 1) on a list of positive sizes -/
theorem listMax_eq_one (l : List Nat) (hne : l ≠ []) (hx : ∀ x ∈ l, 1 ≤ x) :
    (listMax l).getD 0 = 1 ↔ ∀ x ∈ l, x = 1 := by
  cases l with
  | nil => exact absurd rfl hne
  | cons a xs =>
    simp only [listMax, Option.getD_some]
    rw [foldl_max_eq_one xs a (hx a (List.mem_cons_self ..)) (fun y hy => hx y (List.mem_cons_of_mem _ hy))]
    simp

theorem wfVote_iff (o : Order) :
    wfVote o = true ↔ o ≠ [] ∧ (∀ c ∈ o, c ≠ []) ∧ o.flatten.Nodup := by
  simp [wfVote, and_assoc]

/-- on a well-formed vote the library's test is `isStrictOrder` -/
theorem strict_test_eq (o : Order) (hw : wfVote o = true) :
    ((listMax (o.map List.length)).getD 0 == 1) = isStrictOrder o := by
  obtain ⟨h1, h2, _⟩ := (wfVote_iff o).1 hw
  rw [Bool.eq_iff_iff, beq_iff_eq,
    listMax_eq_one _ (by simpa using h1) (by
      intro x hx
      obtain ⟨c, hc, rfl⟩ := List.mem_map.1 hx
      have := h2 c hc
      cases c with
      | nil => exact absurd rfl this
      | cons _ _ => simp)]
  simp [isStrictOrder]

/-- the four-way answer of `infer_type` -/
def typeStr (S C : Bool) : String :=
  if S && C then "soc" else if S then "soi" else if C then "toc" else "toi"

theorem go_step (x y st co X Y : Bool) :
    (if (!(if (!x) = true then false else st) && !(if (!y) = true then false else co)) = true then "toi"
     else typeStr ((if (!x) = true then false else st) && X) ((if (!y) = true then false else co) && Y))
    = typeStr (st && (x && X)) (co && (y && Y)) := by
  cases x <;> cases y <;> cases st <;> cases co <;> cases X <;> cases Y <;> rfl

theorem inferTypeGo_eq (n : Nat) (os : List Order) (st co : Bool) :
    inferTypeGo n os st co =
      typeStr (st && os.all (fun o => (listMax (o.map List.length)).getD 0 == 1))
        (co && os.all (fun o => o.flatten.length == n)) := by
  induction os generalizing st co with
  | nil => cases st <;> cases co <;> rfl
  | cons o os ih =>
    rw [inferTypeGo]
    simp only [ih, List.all_cons]
    exact go_step _ _ _ _ _ _

theorem all_congr_mem {α : Type} {l₁ l₂ : List α} {p q : α → Bool} (h : ∀ a, a ∈ l₁ ↔ a ∈ l₂)
    (hpq : ∀ a ∈ l₂, p a = q a) : l₁.all p = l₂.all q := by
  rw [Bool.eq_iff_iff, List.all_eq_true, List.all_eq_true]
  constructor
  · intro H a ha; rw [← hpq a ha]; exact H a ((h a).2 ha)
  · intro H a ha; rw [hpq a ((h a).1 ha)]; exact H a ((h a).1 ha)

theorem inferType_eq_typeOfVotes (s : OrdState) (v : List Order)
    (hs : ∀ o, o ∈ s.orders ↔ o ∈ v) (hv : ∀ o ∈ v, wfVote o = true) :
    inferType s = typeOfVotes s.numAlternatives v := by
  unfold inferType typeOfVotes
  rw [inferTypeGo_eq]
  rw [all_congr_mem (q := isStrictOrder) hs (fun o ho => strict_test_eq o (hv o ho)),
    all_congr_mem (q := fun o => o.flatten.length == s.numAlternatives) hs (fun _ _ => rfl)]
  simp [typeStr]

/-- every entry point ends by storing `infer_type()` -/
theorem step_dataType (s : OrdState) (op : Op) : (step s op).dataType = inferType (step s op) := by
  cases op <;> rfl

theorem run_snoc (h : List Op) (op : Op) : run (h ++ [op]) = step (run h) op := by
  simp [run, List.foldl_append]

theorem votesOfHistory_snoc (h : List Op) (op : Op) :
    votesOfHistory (h ++ [op]) = votesOfHistory h ++ votesOfOp op := by
  simp [votesOfHistory, List.flatMap_append]

theorem foldl_step_pre (h : List Op) (s : OrdState) (v : List Order) (hp : Pre s v)
    (hwf : ∀ op ∈ h, wfOp op = true) : Pre (h.foldl step s) (v ++ h.flatMap votesOfOp) := by
  induction h generalizing s v with
  | nil => simpa using hp
  | cons op h ih =>
    rw [List.foldl_cons, List.flatMap_cons, ← List.append_assoc]
    exact ih _ _ (step_pre s op v hp (hwf op (List.mem_cons_self ..)))
      (fun o ho => hwf o (List.mem_cons_of_mem _ ho))

theorem run_pre (h : List Op) (hwf : ∀ op ∈ h, wfOp op = true) : Pre (run h) (votesOfHistory h) := by
  have := foldl_step_pre h Ordinal.init [] Pre.init hwf
  simpa [run, votesOfHistory] using this

theorem run_dataType (h : List Op) (hne : h ≠ []) : (run h).dataType = inferType (run h) := by
  rcases List.eq_nil_or_concat h with rfl | ⟨l, op, rfl⟩
  · exact absurd rfl hne
  · rw [List.concat_eq_append, run_snoc]
    exact step_dataType _ op

theorem wf_votesOfOp (op : Op) (hwf : wfOp op = true) : ∀ o ∈ votesOfOp op, wfVote o = true := by
  cases op with
  | voteMap vm =>
    simp only [wfOp, Bool.and_eq_true, List.all_eq_true, decide_eq_true_eq] at hwf
    intro o ho
    simp only [votesOfOp, List.mem_flatMap, List.mem_replicate] at ho
    obtain ⟨bm, hbm, _, rfl⟩ := ho
    exact (hwf.1 bm hbm).1
  | order o => simpa [wfOp] using hwf
  | array os => simpa [wfOp] using hwf
  | list os => simpa [wfOp] using hwf
  | sample vs => simpa [wfOp] using hwf

theorem wf_votesOfHistory (h : List Op) (hwf : ∀ op ∈ h, wfOp op = true) :
    ∀ o ∈ votesOfHistory h, wfVote o = true := by
  intro o ho
  simp only [votesOfHistory, List.mem_flatMap] at ho
  obtain ⟨op, hop, ho⟩ := ho
  exact wf_votesOfOp op (hwf op hop) o ho

end PrefVerif.C02
