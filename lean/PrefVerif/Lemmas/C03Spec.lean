import PrefVerif.Lemmas.C03Inv
import PrefVerif.Props.C11
/-!
# C03 helper lemmas, part 4: strict orders as orders of singleton classes; last-ranked alternatives
sit at the ends of any axis
-/
namespace PrefVerif.C03
open PrefVerif PrefVerif.ELO PrefVerif.Spec PrefVerif.SinglePeakedAxis

/-- rankings of the same duplicate-free list of alternatives -/
def Rankings (alts : List Nat) (orders : List (List Nat)) : Prop :=
  alts.Nodup ∧ ∀ o ∈ orders, o.Nodup ∧ ∀ a, a ∈ o ↔ a ∈ alts

theorem Rankings.perm {alts : List Nat} {orders : List (List Nat)} (hr : Rankings alts orders) :
    ∀ o ∈ orders, o.Perm alts :=
  fun o ho => (List.perm_ext_iff_of_nodup (hr.2 o ho).1 hr.1).2 (hr.2 o ho).2

theorem flatten_wrap (o : List Nat) : (wrap o).flatten = o := by
  induction o with
  | nil => rfl
  | cons a o ih =>
    have : wrap (a :: o) = [a] :: wrap o := rfl
    rw [this, List.flatten_cons, ih]; rfl

theorem topClasses_wrap (o : List Nat) (k : Nat) : topClasses (wrap o) k = o.take k := by
  unfold topClasses wrap
  rw [← List.map_take]
  exact flatten_wrap (o.take k)

theorem completeOrder_wrap {alts o : List Nat} (hn : o.Nodup) (hm : ∀ a, a ∈ o ↔ a ∈ alts) :
    C11.CompleteOrder alts (wrap o) := by
  refine ⟨?_, ?_, ?_⟩
  · intro c hc
    obtain ⟨a, _, rfl⟩ := List.mem_map.1 hc
    simp
  · rw [flatten_wrap]; exact hn
  · intro a; rw [flatten_wrap]; exact hm a

/-- the axis test is the definition of single-peakedness on that axis -/
theorem axisTest_iff {alts : List Nat} {orders : List (List Nat)} (hr : Rankings alts orders)
    {axis : List Nat} (hax : axis.Perm alts) :
    axisTest orders axis = true ↔ SPOnAxis (orders.map wrap) axis := by
  simp only [axisTest, List.all_eq_true, SPOnAxis, List.mem_map]
  constructor
  · rintro h _ ⟨o, ho, rfl⟩
    exact (C11.orderOk_iff alts (wrap o) axis (completeOrder_wrap (hr.2 o ho).1 (hr.2 o ho).2) hax).1 (h o ho)
  · intro h o ho
    exact (C11.orderOk_iff alts (wrap o) axis (completeOrder_wrap (hr.2 o ho).1 (hr.2 o ho).2) hax).2
      (h (wrap o) ⟨o, ho, rfl⟩)

/-- on an axis on which a voter is single-peaked, the voter's last alternative is at one of the ends -/
theorem last_at_end {axis d : List Nat} {l : Nat} (hax : axis.Perm (d ++ [l])) (hnd : (d ++ [l]).Nodup)
    (hc : Contiguous axis d) : l = axis[0]! ∨ l = axis[axis.length - 1]! := by
  have han : axis.Nodup := (hax.nodup_iff).2 hnd
  have hl : l ∈ axis := hax.mem_iff.2 (by simp)
  have hld : l ∉ d := fun h => (List.nodup_append.1 hnd).2.2 l h l (by simp) rfl
  obtain ⟨j, hj, hjl⟩ := List.getElem_of_mem hl
  have hmem : ∀ i (hi : i < axis.length), i ≠ j → axis[i] ∈ d := by
    intro i hi hij
    have : axis[i] ∈ d ++ [l] := hax.mem_iff.1 (List.getElem_mem hi)
    rcases List.mem_append.1 this with h | h
    · exact h
    · exfalso
      have e : axis[i] = axis[j] := by rw [hjl]; simpa using h
      have h1 := han.idxOf_getElem i hi
      have h2 := han.idxOf_getElem j hj
      rw [e] at h1
      exact hij (h1.symm.trans h2)
  by_cases h0 : j = 0
  · left; subst h0; rw [getElem!_pos axis 0 hj]; exact hjl.symm
  by_cases h1 : j = axis.length - 1
  · right; rw [getElem!_pos axis (axis.length - 1) (by omega)]; subst h1; exact hjl.symm
  exfalso
  have hk : axis.length - 1 < axis.length := by omega
  have := hc 0 j (axis.length - 1) (by omega) (by omega) hk
    (by rw [getElem!_pos axis 0 (by omega)]; exact hmem 0 (by omega) (by omega))
    (by rw [getElem!_pos axis _ hk]; exact hmem _ hk (by omega))
  rw [getElem!_pos axis j hj, hjl] at this
  exact hld this

/-- hence three distinct alternatives cannot all be ranked last -/
theorem three_last_not_SP {alts : List Nat} {orders : List (List Nat)} (hr : Rankings alts orders)
    {a b c : Nat} (hab : a ≠ b) (hac : a ≠ c) (hbc : b ≠ c)
    (ha : ∃ o ∈ orders, o.getLast? = some a) (hb : ∃ o ∈ orders, o.getLast? = some b)
    (hc : ∃ o ∈ orders, o.getLast? = some c) : ¬ SP alts (orders.map wrap) := by
  rintro ⟨axis, hax, hsp⟩
  have key : ∀ l, (∃ o ∈ orders, o.getLast? = some l) → l = axis[0]! ∨ l = axis[axis.length - 1]! := by
    rintro l ⟨o, ho, hl⟩
    obtain ⟨d, rfl⟩ := List.getLast?_eq_some_iff.1 hl
    have hcont := hsp (wrap (d ++ [l])) (List.mem_map.2 ⟨_, ho, rfl⟩) d.length
    rw [topClasses_wrap] at hcont
    simp only [List.take_left'] at hcont
    exact last_at_end (hax.trans (hr.perm _ ho).symm) (hr.2 _ ho).1 hcont
  have h1 := key a ha
  have h2 := key b hb
  have h3 := key c hc
  generalize axis[0]! = e1 at h1 h2 h3
  generalize axis[axis.length - 1]! = e2 at h1 h2 h3
  omega

end PrefVerif.C03
