import PrefVerif.Props.C15
import PrefVerif.Props.C13Complete
import PrefVerif.Lemmas.C15xRank
/-!
# C15x helper lemmas, part 2: `C13.PathIn` / `Connected` / `SPTOn` under an injective relabelling of
the vertices (the tree edges are relabelled too) and under a change of the list representing the
vertex set.
-/
namespace PrefVerif.C15x
open PrefVerif PrefVerif.Spec PrefVerif.C15 PrefVerif.C13

variable {σ : Nat → Nat}

/-- relabel both endpoints of an edge -/
def mapEdge (σ : Nat → Nat) (e : Nat × Nat) : Nat × Nat := (σ e.1, σ e.2)

theorem mem_mapEdge (hσ : Inj σ) (E : List (Nat × Nat)) (u w : Nat) :
    (σ u, σ w) ∈ E.map (mapEdge σ) ↔ (u, w) ∈ E := by
  simp only [List.mem_map, mapEdge, Prod.mk.injEq]
  constructor
  · rintro ⟨⟨a, b⟩, he, h1, h2⟩
    rw [← hσ _ _ h1, ← hσ _ _ h2]; exact he
  · intro h; exact ⟨(u, w), h, rfl, rfl⟩

/-! ### the vertex set only matters through membership -/

theorem pathIn_congr {E : List (Nat × Nat)} {S S' : List Nat} (h : ∀ x, x ∈ S ↔ x ∈ S') {u v : Nat}
    (p : PathIn E S u v) : PathIn E S' u v := by
  induction p with
  | refl u hu => exact PathIn.refl u ((h u).1 hu)
  | step u w v hu he hw _ ih => exact PathIn.step u w v ((h u).1 hu) he ((h w).1 hw) ih

theorem connected_congr {E : List (Nat × Nat)} {S S' : List Nat} (h : ∀ x, x ∈ S ↔ x ∈ S') :
    Connected E S ↔ Connected E S' :=
  ⟨fun hc u hu v hv => pathIn_congr h (hc u ((h u).2 hu) v ((h v).2 hv)),
   fun hc u hu v hv => pathIn_congr (fun x => (h x).symm) (hc u ((h u).1 hu) v ((h v).1 hv))⟩

/-! ### relabelling -/

theorem pathIn_map (E : List (Nat × Nat)) (S : List Nat) {u v : Nat} (p : PathIn E S u v) :
    PathIn (E.map (mapEdge σ)) (S.map σ) (σ u) (σ v) := by
  induction p with
  | refl u hu => exact PathIn.refl _ (List.mem_map_of_mem hu)
  | step u w v hu he hw _ ih =>
    refine PathIn.step _ (σ w) _ (List.mem_map_of_mem hu) ?_ (List.mem_map_of_mem hw) ih
    rcases he with he | he
    · exact Or.inl (List.mem_map.2 ⟨(u, w), he, rfl⟩)
    · exact Or.inr (List.mem_map.2 ⟨(w, u), he, rfl⟩)

theorem pathIn_of_map (hσ : Inj σ) (E : List (Nat × Nat)) (S : List Nat) {u' v' : Nat}
    (p : PathIn (E.map (mapEdge σ)) (S.map σ) u' v') :
    ∀ u v, u' = σ u → v' = σ v → PathIn E S u v := by
  induction p with
  | refl x hx =>
    intro u v hu hv
    have : u = v := hσ u v (hu.symm.trans hv)
    subst this; subst hu
    exact PathIn.refl u ((mem_map_inj hσ S u).1 hx)
  | step x w' y hx he hw _ ih =>
    intro u v hu hv
    subst hu
    obtain ⟨w, hwS, rfl⟩ := List.mem_map.1 hw
    refine PathIn.step u w v ((mem_map_inj hσ S u).1 hx) ?_ hwS (ih w v rfl hv)
    rcases he with he | he
    · exact Or.inl ((mem_mapEdge hσ E u w).1 he)
    · exact Or.inr ((mem_mapEdge hσ E w u).1 he)

theorem connected_map (hσ : Inj σ) (E : List (Nat × Nat)) (S : List Nat) :
    Connected (E.map (mapEdge σ)) (S.map σ) ↔ Connected E S := by
  constructor
  · intro hc u hu v hv
    exact pathIn_of_map hσ E S (hc _ (List.mem_map_of_mem hu) _ (List.mem_map_of_mem hv)) u v rfl rfl
  · intro hc u' hu' v' hv'
    obtain ⟨u, hu, rfl⟩ := List.mem_map.1 hu'
    obtain ⟨v, hv, rfl⟩ := List.mem_map.1 hv'
    exact pathIn_map E S (hc u hu v hv)

theorem sptOn_map (hσ : Inj σ) (alts : List Nat) (orders : List (List Nat)) (t : List (Nat × Nat)) :
    SPTOn (alts.map σ) (orders.map (·.map σ)) (t.map (mapEdge σ)) ↔ SPTOn alts orders t := by
  unfold SPTOn
  simp only [List.length_map]
  refine and_congr Iff.rfl (and_congr ?_ (and_congr (connected_map hσ t alts) ?_))
  · constructor
    · intro h e he
      have := h (mapEdge σ e) (List.mem_map_of_mem he)
      simp only [mapEdge] at this
      exact ⟨fun hh => this.1 (by rw [hh]), (mem_map_inj hσ alts _).1 this.2.1,
        (mem_map_inj hσ alts _).1 this.2.2⟩
    · intro h e' he'
      obtain ⟨e, he, rfl⟩ := List.mem_map.1 he'
      have := h e he
      exact ⟨fun hh => this.1 (hσ _ _ hh), List.mem_map_of_mem this.2.1, List.mem_map_of_mem this.2.2⟩
  · constructor
    · intro h o ho k
      have := h (o.map σ) (List.mem_map_of_mem ho) k
      rw [← List.map_take] at this
      exact (connected_map hσ t _).1 this
    · intro h o' ho' k
      obtain ⟨o, ho, rfl⟩ := List.mem_map.1 ho'
      rw [← List.map_take]
      exact (connected_map hσ t _).2 (h o ho k)

/-- an edge list all of whose endpoints are images is an image -/
theorem exists_preimage_edges (alts : List Nat) :
    ∀ (t' : List (Nat × Nat)), (∀ e ∈ t', e.1 ∈ alts.map σ ∧ e.2 ∈ alts.map σ) →
      ∃ t : List (Nat × Nat), t.map (mapEdge σ) = t'
  | [], _ => ⟨[], rfl⟩
  | e :: t', h => by
    obtain ⟨t, ht⟩ := exists_preimage_edges alts t' (fun e he => h e (List.mem_cons_of_mem _ he))
    obtain ⟨h1, h2⟩ := h e List.mem_cons_self
    obtain ⟨a, _, ha⟩ := List.mem_map.1 h1
    obtain ⟨b, _, hb⟩ := List.mem_map.1 h2
    refine ⟨(a, b) :: t, ?_⟩
    simp only [List.map_cons, ht, mapEdge, ha, hb]

theorem exists_sptOn_relabel (hσ : Inj σ) (alts : List Nat) (orders : List (List Nat)) :
    (∃ t, SPTOn (alts.map σ) (orders.map (·.map σ)) t) ↔ ∃ t, SPTOn alts orders t := by
  constructor
  · rintro ⟨t', ht'⟩
    obtain ⟨t, rfl⟩ := exists_preimage_edges (σ := σ) alts t' (fun e he => (ht'.2.1 e he).2)
    exact ⟨t, (sptOn_map hσ alts orders t).1 ht'⟩
  · rintro ⟨t, ht⟩
    exact ⟨_, (sptOn_map hσ alts orders t).2 ht⟩

theorem sptOn_perm {alts alts' : List Nat} {orders orders' : List (List Nat)} (ha : alts.Perm alts')
    (hp : orders.Perm orders') (t : List (Nat × Nat)) :
    SPTOn alts orders t ↔ SPTOn alts' orders' t := by
  unfold SPTOn
  rw [ha.length_eq]
  refine and_congr Iff.rfl (and_congr ?_ (and_congr (connected_congr (fun x => ha.mem_iff)) ?_))
  · simp only [ha.mem_iff]
  · simp only [hp.mem_iff]

theorem rankings13_relabel (hσ : Inj σ) {alts : List Nat} {orders : List (List Nat)}
    (hr : C13.Rankings alts orders) : C13.Rankings (alts.map σ) (orders.map (·.map σ)) :=
  rankings03_relabel hσ hr

theorem rankings13_perm {alts alts' : List Nat} {orders orders' : List (List Nat)}
    (hr : C13.Rankings alts orders) (ha : alts.Perm alts') (hp : orders.Perm orders') :
    C13.Rankings alts' orders' :=
  ⟨ha.nodup_iff.1 hr.1, fun o ho =>
    ⟨(hr.2 o (hp.mem_iff.2 ho)).1, fun a => ((hr.2 o (hp.mem_iff.2 ho)).2 a).trans ha.mem_iff⟩⟩

end PrefVerif.C15x
