import PrefVerif.Lemmas.C03Step
/-!
# C03 helper lemmas, part 3: the loop invariant

At every iteration, for every remaining preference `p`,
`to_append_left ++ left_axis ++ p ++ right_axis` is a permutation of the alternatives.
-/
namespace PrefVerif.C03
open PrefVerif PrefVerif.ELO PrefVerif.Py

def Inv (alts : List Nat) (s : State) : Prop :=
  s.prefs ≠ [] ∧ ∀ p ∈ s.prefs, (s.tal ++ s.left ++ p ++ s.right).Perm alts

/-- what is guaranteed about the way the run ended -/
def GoodExit (alts : List Nat) (orders : List (List Nat)) : Exit → Prop
  | .finished axis => axis.Perm alts
  | .case2d axis ok => axis.Perm alts ∧ ok = axisTest orders axis
  | _ => True

/-! ### rearrangements -/

theorem perm_place_tal {T L q R alts : List Nat} {x : Nat}
    (H : (T ++ L ++ (q ++ [x]) ++ R).Perm alts) : ((T ++ [x]) ++ L ++ q ++ R).Perm alts := by
  refine List.Perm.trans (List.perm_iff_count.2 fun a => ?_) H
  simp only [List.count_append]; omega

theorem perm_place_left {T L q R alts : List Nat} {x : Nat}
    (H : (T ++ L ++ (q ++ [x]) ++ R).Perm alts) : (T ++ (L ++ [x]) ++ q ++ R).Perm alts := by
  refine List.Perm.trans (List.perm_iff_count.2 fun a => ?_) H
  simp only [List.count_append]; omega

theorem perm_place_right {T L q R alts : List Nat} {x : Nat}
    (H : (T ++ L ++ (q ++ [x]) ++ R).Perm alts) : (T ++ L ++ q ++ (x :: R)).Perm alts := by
  show (T ++ L ++ q ++ ([x] ++ R)).Perm alts
  refine List.Perm.trans (List.perm_iff_count.2 fun a => ?_) H
  simp only [List.count_append]; omega

theorem perm_place_two {T L p q R alts : List Nat} {x y : Nat}
    (H : (T ++ L ++ p ++ R).Perm alts) (hp : p.Perm ([x] ++ [y] ++ q)) :
    (T ++ (L ++ [x]) ++ q ++ (y :: R)).Perm alts := by
  show (T ++ (L ++ [x]) ++ q ++ ([y] ++ R)).Perm alts
  refine List.Perm.trans (List.perm_iff_count.2 fun a => ?_) H
  have := List.perm_iff_count.1 hp a
  simp only [List.count_append] at this ⊢; omega

theorem perm_place_two' {T L p q R alts : List Nat} {x y : Nat}
    (H : (T ++ L ++ p ++ R).Perm alts) (hp : p.Perm ([x] ++ [y] ++ q)) :
    (T ++ (L ++ [y]) ++ q ++ (x :: R)).Perm alts := by
  show (T ++ (L ++ [y]) ++ q ++ ([x] ++ R)).Perm alts
  refine List.Perm.trans (List.perm_iff_count.2 fun a => ?_) H
  have := List.perm_iff_count.1 hp a
  simp only [List.count_append] at this ⊢; omega

/-! ### consequences of the invariant for one preference -/

theorem pref_nodup {T L p R alts : List Nat} (hn : alts.Nodup) (H : (T ++ L ++ p ++ R).Perm alts) :
    p.Nodup := by
  have h := (H.nodup_iff).2 hn
  exact (List.nodup_append.1 (List.nodup_append.1 h).1).2.1

theorem pref_disjoint {T L p R alts : List Nat} (hn : alts.Nodup) (H : (T ++ L ++ p ++ R).Perm alts)
    {a : Nat} (ha : a ∈ p) : a ∉ T ∧ a ∉ L ∧ a ∉ R := by
  have h := (H.nodup_iff).2 hn
  have h1 := List.nodup_append.1 h
  have h2 := List.nodup_append.1 h1.1
  refine ⟨fun hT => ?_, fun hL => ?_, fun hR => ?_⟩
  · exact h2.2.2 a (List.mem_append_left _ hT) a ha rfl
  · exact h2.2.2 a (List.mem_append_right _ hL) a ha rfl
  · exact h1.2.2 a (List.mem_append_right _ ha) a hR rfl

theorem placed_disjoint {T L p R alts : List Nat} (hn : alts.Nodup) (H : (T ++ L ++ p ++ R).Perm alts)
    {a : Nat} (ha : a ∈ T ∨ a ∈ L ∨ a ∈ R) : a ∉ p := by
  intro hp
  obtain ⟨h1, h2, h3⟩ := pref_disjoint hn H hp
  rcases ha with h | h | h
  · exact h1 h
  · exact h2 h
  · exact h3 h

theorem prefs_perm {T L p p' R alts : List Nat} (H : (T ++ L ++ p ++ R).Perm alts)
    (H' : (T ++ L ++ p' ++ R).Perm alts) : p.Perm p' := by
  have := H.trans H'.symm
  rw [List.perm_append_right_iff, List.perm_append_left_iff] at this
  exact this

/-- after `pop`, the removal of the single last candidate changes nothing -/
theorem erase_one {d : List Nat} {x : Nat} (hnd : (d ++ [x]).Nodup) : d.erase x = d := by
  apply List.erase_of_not_mem
  intro hx
  exact (List.nodup_append.1 hnd).2.2 x hx x (by simp) rfl

/-- after `pop`, the removal of the two last candidates: the preference was `x`, `y` and the rest -/
theorem erase_two {d : List Nat} {l x y : Nat} (hnd : (d ++ [l]).Nodup) (hx : x ∈ d ++ [l])
    (hy : y ∈ d ++ [l]) (hxy : x ≠ y) (hl : l = x ∨ l = y) :
    (d ++ [l]).Perm ([x] ++ [y] ++ (d.erase x).erase y) := by
  have hld : l ∉ d := fun h => (List.nodup_append.1 hnd).2.2 l h l (by simp) rfl
  rcases hl with rfl | rfl
  · have hyd : y ∈ d := by
      rcases List.mem_append.1 hy with h | h
      · exact h
      · exact absurd (List.mem_singleton.1 h).symm hxy
    rw [List.erase_of_not_mem hld]
    have := List.perm_cons_erase hyd
    refine List.perm_iff_count.2 fun a => ?_
    have h := List.perm_iff_count.1 this a
    rw [show y :: d.erase y = [y] ++ d.erase y from rfl] at h
    simp only [List.count_append] at h ⊢; omega
  · have hxd : x ∈ d := by
      rcases List.mem_append.1 hx with h | h
      · exact h
      · exact absurd (List.mem_singleton.1 h) hxy
    have : l ∉ d.erase x := fun h => hld (List.mem_of_mem_erase h)
    rw [List.erase_of_not_mem this]
    have := List.perm_cons_erase hxd
    refine List.perm_iff_count.2 fun a => ?_
    have h := List.perm_iff_count.1 this a
    rw [show x :: d.erase x = [x] ++ d.erase x from rfl] at h
    simp only [List.count_append] at h ⊢; omega

/-! ### the axis of Case 2(d) -/

theorem case2dAxis_perm {alts o p : List Nat} {s : State} (hn : alts.Nodup) (ho : o.Perm alts)
    (H : (s.tal ++ s.left ++ p ++ s.right).Perm alts) (rev : Bool) :
    (case2dAxis s o rev).Perm alts := by
  have hf : (o.filter (fun c => !placed s c)).Perm p := by
    have h1 := (ho.trans H.symm).filter (fun c => !placed s c)
    rw [List.filter_append, List.filter_append, List.filter_append] at h1
    have e1 : s.tal.filter (fun c => !placed s c) = [] := by
      rw [List.filter_eq_nil_iff]; intro a ha; simp [placed, ha]
    have e2 : s.left.filter (fun c => !placed s c) = [] := by
      rw [List.filter_eq_nil_iff]; intro a ha; simp [placed, ha]
    have e3 : s.right.filter (fun c => !placed s c) = [] := by
      rw [List.filter_eq_nil_iff]; intro a ha; simp [placed, ha]
    have e4 : p.filter (fun c => !placed s c) = p := by
      rw [List.filter_eq_self]; intro a ha
      obtain ⟨h1, h2, h3⟩ := pref_disjoint hn H ha
      simp [placed, h1, h2, h3]
    rw [e1, e2, e3, e4] at h1
    simpa using h1
  have hm : (if rev = true then (o.filter (fun c => !placed s c)).reverse
      else o.filter (fun c => !placed s c)).Perm p := by
    cases rev
    · simpa using hf
    · simpa using (List.reverse_perm _).trans hf
  unfold case2dAxis
  exact (((List.Perm.refl _).append hm).append (List.Perm.refl _)).trans H

/-! ### one iteration -/

theorem step_fin {alts : List Nat} {orders : List (List Nat)} {s s' : State} (hn : alts.Nodup)
    (hinv : Inv alts s) (h : step orders s = .fin s') : Inv alts s' := by
  unfold step at h
  split at h
  · simp at h
  · rename_i popped hpop
    have hprefs := popAll_eq_some hpop
    have hpne : popped ≠ [] := by
      intro e; rw [e] at hprefs; exact hinv.1 hprefs
    have hP : ∀ r ∈ popped, (s.tal ++ s.left ++ (r.1 ++ [r.2]) ++ s.right).Perm alts := by
      intro r hr
      apply hinv.2
      rw [hprefs]
      exact List.mem_map.2 ⟨r, hr, rfl⟩
    split at h
    · simp at h
    · -- one last candidate
      rename_i x hfa
      have hlast : ∀ r ∈ popped, r.2 = x := by
        intro r hr
        have : r.2 ∈ firstAppearances (popped.map (·.2)) :=
          (mem_firstAppearances _ _).2 (List.mem_map.2 ⟨r, hr, rfl⟩)
        rw [hfa] at this
        simpa using this
      obtain ⟨hpr, hcases⟩ := stepOne_fin h
      simp only at hpr hcases
      refine ⟨?_, ?_⟩
      · rw [hpr]; simpa using hpne
      · intro p' hp'
        rw [hpr] at hp'
        simp only [List.map_map, List.mem_map, Function.comp] at hp'
        obtain ⟨r, hr, rfl⟩ := hp'
        have H := hP r hr
        rw [hlast r hr] at H
        rw [erase_one (pref_nodup hn H)]
        rcases hcases with ⟨a, b, c⟩ | ⟨a, b, c⟩ | ⟨a, b, c⟩ <;> rw [a, b, c]
        · exact perm_place_tal H
        · exact perm_place_left H
        · exact perm_place_right H
    · -- two last candidates
      rename_i x y hfa
      have hnd := firstAppearances_nodup (popped.map (·.2))
      rw [hfa] at hnd
      have hxy : x ≠ y := by
        intro e; subst e; simp at hnd
      have hlast : ∀ r ∈ popped, r.2 = x ∨ r.2 = y := by
        intro r hr
        have : r.2 ∈ firstAppearances (popped.map (·.2)) :=
          (mem_firstAppearances _ _).2 (List.mem_map.2 ⟨r, hr, rfl⟩)
        rw [hfa] at this
        simpa using this
      have hmem : ∀ z, z = x ∨ z = y → ∀ r ∈ popped, z ∈ r.1 ++ [r.2] := by
        intro z hz r hr
        have : z ∈ firstAppearances (popped.map (·.2)) := by rw [hfa]; simpa using hz
        rw [mem_firstAppearances] at this
        obtain ⟨r0, hr0, e⟩ := List.mem_map.1 this
        have hz0 : z ∈ r0.1 ++ [r0.2] := by rw [e]; simp
        exact (prefs_perm (hP r0 hr0) (hP r hr)).mem_iff.1 hz0
      obtain ⟨hpr, htal, hcases⟩ := stepTwo_fin h
      simp only at hpr htal hcases
      refine ⟨?_, ?_⟩
      · rw [hpr]; simpa using hpne
      · intro p' hp'
        rw [hpr] at hp'
        simp only [List.map_map, List.mem_map, Function.comp] at hp'
        obtain ⟨r, hr, rfl⟩ := hp'
        have H := hP r hr
        have hp := erase_two (pref_nodup hn H) (hmem x (Or.inl rfl) r hr) (hmem y (Or.inr rfl) r hr)
          hxy (hlast r hr)
        rcases hcases with ⟨a, b⟩ | ⟨a, b⟩ <;> rw [htal, a, b]
        · exact perm_place_two H hp
        · exact perm_place_two' H hp
    · simp at h

theorem step_brk {alts : List Nat} {orders : List (List Nat)} {s : State} {e : Exit} (hn : alts.Nodup)
    (ho : ∀ o ∈ orders, o.Perm alts) (hinv : Inv alts s) (h : step orders s = .brk e) :
    GoodExit alts orders e := by
  unfold step at h
  split at h
  · simp at h
  · split at h
    · simp at h
    · rw [stepOne_brk h]; trivial
    · rcases stepTwo_brk h with h | ⟨o, hoo, rev, h⟩
      · rw [h]; trivial
      · rw [h]
        obtain ⟨p, hp⟩ := List.exists_mem_of_ne_nil _ hinv.1
        exact ⟨case2dAxis_perm (s := { s with prefs := _ }) hn (ho o hoo) (hinv.2 p hp) rev, rfl⟩
    · simp only [Loop.brk.injEq] at h; rw [← h]; trivial

/-! ### the whole loop -/

theorem loop_good {alts : List Nat} {orders : List (List Nat)} (hn : alts.Nodup)
    (ho : ∀ o ∈ orders, o.Perm alts) :
    ∀ (fuel : Nat) (s : State) (e : Exit), Inv alts s → loop orders fuel s = some e →
      GoodExit alts orders e := by
  intro fuel
  induction fuel with
  | zero => intro s e _ h; simp [loop] at h
  | succ f ih =>
    intro s e hinv h
    unfold loop at h
    split at h
    · simp at h
    · rename_i p ps hps
      split at h
      · split at h
        · simp at h
        · rename_i e' hst
          simp only [Option.some.injEq] at h; subst h
          exact step_brk hn ho hinv hst
        · rename_i s' hst
          exact ih s' e (step_fin hn hinv hst) h
      · rename_i hlen
        simp only [Option.some.injEq] at h; subst h
        have hp : p = [] := by
          cases p with
          | nil => rfl
          | cons a p => simp at hlen
        have := hinv.2 p (by rw [hps]; exact List.mem_cons_self)
        rw [hp] at this
        simpa [GoodExit] using this

end PrefVerif.C03
