import PrefVerif.Model.PQTree
/-!
Basic facts about the PQ-tree model: induction principle, the list-level helper functions in terms of
`List` combinators, frontier / membership under `reverse` and `flatten`, well-formedness (no node without
children), and `PQ.__init__` being the identity on lists of children with pairwise distinct leaves.
-/
set_option linter.unusedSimpArgs false
namespace PrefVerif.PQTree
open Tree

theorem Tree.ind {P : Tree → Prop} (hleaf : ∀ s, P (.leaf s))
    (hp : ∀ cs, (∀ c ∈ cs, P c) → P (.p cs)) (hq : ∀ cs, (∀ c ∈ cs, P c) → P (.q cs)) : ∀ t, P t := by
  intro t
  refine Tree.rec (motive_1 := P) (motive_2 := fun l => ∀ c ∈ l, P c) hleaf hp hq ?_ ?_ t
  · intro c hc; cases hc
  · intro head tail h1 h2 c hc
    cases hc with
    | head => exact h1
    | tail _ h => exact h2 c h

/-! ### list-level helpers as `List` combinators -/

theorem memList_eq_any (v : Nat) (cs : List Tree) : memList v cs = cs.any (mem v) := by
  induction cs with
  | nil => simp [memList]
  | cons c cs ih => simp [memList, ih]

theorem anyNotMem_eq_any (v : Nat) (cs : List Tree) : anyNotMem v cs = cs.any (fun c => !mem v c) := by
  induction cs with
  | nil => simp [anyNotMem]
  | cons c cs ih => simp [anyNotMem, ih]

theorem frontierList_eq_flatMap (cs : List Tree) : frontierList cs = cs.flatMap frontier := by
  induction cs with
  | nil => simp [frontierList]
  | cons c cs ih => simp [frontierList, ih]

@[simp] theorem frontierList_nil : frontierList [] = [] := by simp [frontierList]
@[simp] theorem frontierList_cons (c : Tree) (cs : List Tree) :
    frontierList (c :: cs) = frontier c ++ frontierList cs := by simp [frontierList]
@[simp] theorem frontierList_append (a b : List Tree) :
    frontierList (a ++ b) = frontierList a ++ frontierList b := by
  simp [frontierList_eq_flatMap]
@[simp] theorem frontier_leaf (s : List Nat) : frontier (.leaf s) = [s] := by simp [frontier]
@[simp] theorem frontier_p (cs : List Tree) : frontier (.p cs) = frontierList cs := by simp [frontier]
@[simp] theorem frontier_q (cs : List Tree) : frontier (.q cs) = frontierList cs := by simp [frontier]

theorem frontier_eq_children (t : Tree) (h : t.isPQ = true) : frontier t = frontierList t.children := by
  cases t <;> simp_all [isPQ, children]

theorem reverseList_eq (cs : List Tree) : reverseList cs = (cs.map reverse).reverse := by
  induction cs with
  | nil => simp [reverseList]
  | cons c cs ih => simp [reverseList, ih]

theorem flattenRetList_eq_map (cs : List Tree) : flattenRetList cs = cs.map flattenRet := by
  induction cs with
  | nil => simp [flattenRetList]
  | cons c cs ih => simp [flattenRetList, ih]

theorem flatMap_congr' {α β : Type} {l : List α} {f g : α → List β} (h : ∀ a ∈ l, f a = g a) :
    l.flatMap f = l.flatMap g := by
  induction l with
  | nil => rfl
  | cons a l ih =>
    simp only [List.flatMap_cons]
    rw [h a List.mem_cons_self, ih (fun b hb => h b (List.mem_cons_of_mem _ hb))]

theorem frontierList_perm {a b : List Tree} (h : a.Perm b) : (frontierList a).Perm (frontierList b) := by
  simp only [frontierList_eq_flatMap]
  exact h.flatMap_right _

theorem mem_frontierList {s : List Nat} {cs : List Tree} :
    s ∈ frontierList cs ↔ ∃ c ∈ cs, s ∈ frontier c := by
  simp [frontierList_eq_flatMap, List.mem_flatMap]

/-! ### `v in t` is about the leaves -/

theorem mem_iff (v : Nat) (t : Tree) : mem v t = true ↔ ∃ s ∈ frontier t, v ∈ s := by
  induction t using Tree.ind with
  | hleaf s => simp [mem]
  | hp cs ih =>
    simp only [mem, memList_eq_any, List.any_eq_true, frontier_p, mem_frontierList]
    constructor
    · rintro ⟨c, hc, hm⟩
      obtain ⟨s, hs, hv⟩ := (ih c hc).1 hm
      exact ⟨s, ⟨c, hc, hs⟩, hv⟩
    · rintro ⟨s, ⟨c, hc, hs⟩, hv⟩
      exact ⟨c, hc, (ih c hc).2 ⟨s, hs, hv⟩⟩
  | hq cs ih =>
    simp only [mem, memList_eq_any, List.any_eq_true, frontier_q, mem_frontierList]
    constructor
    · rintro ⟨c, hc, hm⟩
      obtain ⟨s, hs, hv⟩ := (ih c hc).1 hm
      exact ⟨s, ⟨c, hc, hs⟩, hv⟩
    · rintro ⟨s, ⟨c, hc, hs⟩, hv⟩
      exact ⟨c, hc, (ih c hc).2 ⟨s, hs, hv⟩⟩

theorem memList_iff (v : Nat) (cs : List Tree) : memList v cs = true ↔ ∃ s ∈ frontierList cs, v ∈ s := by
  simp only [memList_eq_any, List.any_eq_true, mem_iff, mem_frontierList]
  constructor
  · rintro ⟨c, hc, s, hs, hv⟩; exact ⟨s, ⟨c, hc, hs⟩, hv⟩
  · rintro ⟨s, ⟨c, hc, hs⟩, hv⟩; exact ⟨c, hc, s, hs, hv⟩

theorem mem_eq_of_frontier_perm {v : Nat} {t t' : Tree} (h : (frontier t).Perm (frontier t')) :
    mem v t = mem v t' := by
  rw [Bool.eq_iff_iff, mem_iff, mem_iff]
  constructor
  · rintro ⟨s, hs, hv⟩; exact ⟨s, h.mem_iff.1 hs, hv⟩
  · rintro ⟨s, hs, hv⟩; exact ⟨s, h.mem_iff.2 hs, hv⟩

theorem mem_node (v : Nat) (t : Tree) (h : t.isPQ = true) : mem v t = memList v t.children := by
  cases t <;> simp_all [isPQ, children, mem]

/-! ### `reverse` -/

theorem frontier_reverse (t : Tree) : frontier (reverse t) = (frontier t).reverse := by
  induction t using Tree.ind with
  | hleaf s => simp [reverse]
  | hp cs ih =>
    simp only [reverse, frontier_p]
    induction cs with
    | nil => simp [reverseList]
    | cons c cs ihc =>
      simp only [reverseList, frontierList_append, frontierList_cons, frontierList_nil, List.append_nil,
        List.reverse_append]
      rw [ih c (List.mem_cons_self), ihc (fun c hc => ih c (List.mem_cons_of_mem _ hc))]
  | hq cs ih =>
    simp only [reverse, frontier_q]
    induction cs with
    | nil => simp [reverseList]
    | cons c cs ihc =>
      simp only [reverseList, frontierList_append, frontierList_cons, frontierList_nil, List.append_nil,
        List.reverse_append]
      rw [ih c (List.mem_cons_self), ihc (fun c hc => ih c (List.mem_cons_of_mem _ hc))]

theorem mem_reverse (v : Nat) (t : Tree) : mem v (reverse t) = mem v t :=
  mem_eq_of_frontier_perm (by rw [frontier_reverse]; exact List.reverse_perm _)

theorem isPQ_reverse (t : Tree) : (reverse t).isPQ = t.isPQ := by cases t <;> simp [reverse, isPQ]

theorem children_reverse (t : Tree) : (reverse t).children = reverseList t.children := by
  cases t <;> simp [reverse, children, reverseList]

/-! ### `flatten` -/

theorem frontier_flattenRet (t : Tree) : frontier (flattenRet t) = frontier t := by
  induction t using Tree.ind with
  | hleaf s => simp [flattenRet]
  | hp cs ih =>
    match cs, ih with
    | [], _ => simp [flattenRet, flattenRetList]
    | [c], ih => simp [flattenRet, ih c (List.mem_singleton.2 rfl)]
    | c1 :: c2 :: cs, ih =>
      simp only [flattenRet, frontier_p, flattenRetList_eq_map, frontierList_eq_flatMap, List.flatMap_map]
      exact flatMap_congr' (fun c hc => ih c hc)
  | hq cs ih =>
    match cs, ih with
    | [], _ => simp [flattenRet, flattenRetList]
    | [c], ih => simp [flattenRet, ih c (List.mem_singleton.2 rfl)]
    | c1 :: c2 :: cs, ih =>
      simp only [flattenRet, frontier_q, flattenRetList_eq_map, frontierList_eq_flatMap, List.flatMap_map]
      exact flatMap_congr' (fun c hc => ih c hc)

theorem frontierList_flattenRetList (cs : List Tree) : frontierList (flattenRetList cs) = frontierList cs := by
  simp only [flattenRetList_eq_map, frontierList_eq_flatMap, List.flatMap_map]
  exact flatMap_congr' (fun c _ => frontier_flattenRet c)

theorem frontier_flattenMut (t : Tree) : frontier (flattenMut t) = frontier t := by
  induction t using Tree.ind with
  | hleaf s => simp [flattenMut]
  | hp cs ih =>
    match cs, ih with
    | [], _ => simp [flattenMut, flattenRetList]
    | [c], ih => simp [flattenMut, ih c (List.mem_singleton.2 rfl)]
    | c1 :: c2 :: cs, _ => simp only [flattenMut, frontier_p, frontierList_flattenRetList]
  | hq cs ih =>
    match cs, ih with
    | [], _ => simp [flattenMut, flattenRetList]
    | [c], ih => simp [flattenMut, ih c (List.mem_singleton.2 rfl)]
    | c1 :: c2 :: cs, _ => simp only [flattenMut, frontier_q, frontierList_flattenRetList]

theorem frontierList_flattenChildren (cs : List Tree) :
    frontierList (flattenChildren cs) = frontierList cs := by
  match cs with
  | [] => simp [flattenChildren, flattenRetList]
  | [c] => simp [flattenChildren, frontier_flattenMut]
  | c1 :: c2 :: cs => simp only [flattenChildren, frontierList_flattenRetList]

/-! ### well-formedness: no node without children -/

mutual
/-- every node of the tree has at least one child -/
def WF : Tree → Prop
  | .leaf _ => True
  | .p cs => cs ≠ [] ∧ WFList cs
  | .q cs => cs ≠ [] ∧ WFList cs
def WFList : List Tree → Prop
  | [] => True
  | c :: cs => WF c ∧ WFList cs
end

theorem wfList_iff (cs : List Tree) : WFList cs ↔ ∀ c ∈ cs, WF c := by
  induction cs with
  | nil => simp [WFList]
  | cons c cs ih => simp [WFList, ih]

@[simp] theorem wf_leaf (s : List Nat) : WF (.leaf s) := by simp [WF]
theorem wf_p (cs : List Tree) : WF (.p cs) ↔ cs ≠ [] ∧ ∀ c ∈ cs, WF c := by simp [WF, wfList_iff]
theorem wf_q (cs : List Tree) : WF (.q cs) ↔ cs ≠ [] ∧ ∀ c ∈ cs, WF c := by simp [WF, wfList_iff]

theorem wf_children {t : Tree} (h : WF t) : ∀ c ∈ t.children, WF c := by
  cases t with
  | leaf s => simp [children]
  | p cs => exact ((wf_p cs).1 h).2
  | q cs => exact ((wf_q cs).1 h).2

theorem frontier_ne_nil {t : Tree} (h : WF t) : frontier t ≠ [] := by
  induction t using Tree.ind with
  | hleaf s => simp
  | hp cs ih =>
    obtain ⟨hne, hall⟩ := (wf_p cs).1 h
    match cs, hne with
    | c :: cs, _ =>
      have := ih c List.mem_cons_self (hall c List.mem_cons_self)
      simp [this]
  | hq cs ih =>
    obtain ⟨hne, hall⟩ := (wf_q cs).1 h
    match cs, hne with
    | c :: cs, _ =>
      have := ih c List.mem_cons_self (hall c List.mem_cons_self)
      simp [this]

theorem wf_reverse {t : Tree} (h : WF t) : WF (reverse t) := by
  induction t using Tree.ind with
  | hleaf s => simp [reverse]
  | hp cs ih =>
    obtain ⟨hne, hall⟩ := (wf_p cs).1 h
    simp only [reverse, wf_p, reverseList_eq]
    refine ⟨by simpa using hne, ?_⟩
    intro c hc
    simp only [List.mem_reverse, List.mem_map] at hc
    obtain ⟨c', hc', rfl⟩ := hc
    exact ih c' hc' (hall c' hc')
  | hq cs ih =>
    obtain ⟨hne, hall⟩ := (wf_q cs).1 h
    simp only [reverse, wf_q, reverseList_eq]
    refine ⟨by simpa using hne, ?_⟩
    intro c hc
    simp only [List.mem_reverse, List.mem_map] at hc
    obtain ⟨c', hc', rfl⟩ := hc
    exact ih c' hc' (hall c' hc')

theorem wf_flattenRet {t : Tree} (h : WF t) : WF (flattenRet t) := by
  induction t using Tree.ind with
  | hleaf s => simp [flattenRet]
  | hp cs ih =>
    obtain ⟨hne, hall⟩ := (wf_p cs).1 h
    match cs, hne, ih, hall with
    | [c], _, ih, hall => simpa [flattenRet] using ih c (List.mem_singleton.2 rfl) (hall c (List.mem_singleton.2 rfl))
    | c1 :: c2 :: cs, _, ih, hall =>
      simp only [flattenRet, wf_p, flattenRetList_eq_map]
      refine ⟨by simp, ?_⟩
      intro c hc
      simp only [List.mem_map] at hc
      obtain ⟨c', hc', rfl⟩ := hc
      exact ih c' hc' (hall c' hc')
  | hq cs ih =>
    obtain ⟨hne, hall⟩ := (wf_q cs).1 h
    match cs, hne, ih, hall with
    | [c], _, ih, hall => simpa [flattenRet] using ih c (List.mem_singleton.2 rfl) (hall c (List.mem_singleton.2 rfl))
    | c1 :: c2 :: cs, _, ih, hall =>
      simp only [flattenRet, wf_q, flattenRetList_eq_map]
      refine ⟨by simp, ?_⟩
      intro c hc
      simp only [List.mem_map] at hc
      obtain ⟨c', hc', rfl⟩ := hc
      exact ih c' hc' (hall c' hc')

theorem wf_flattenRetList {cs : List Tree} (h : ∀ c ∈ cs, WF c) : ∀ c ∈ flattenRetList cs, WF c := by
  intro c hc
  simp only [flattenRetList_eq_map, List.mem_map] at hc
  obtain ⟨c', hc', rfl⟩ := hc
  exact wf_flattenRet (h c' hc')

theorem wf_flattenMut {t : Tree} (h : WF t) : WF (flattenMut t) := by
  induction t using Tree.ind with
  | hleaf s => simp [flattenMut]
  | hp cs ih =>
    obtain ⟨hne, hall⟩ := (wf_p cs).1 h
    match cs, hne, ih, hall with
    | [c], _, ih, hall =>
      simp only [flattenMut, wf_p]
      exact ⟨by simp, by simpa using ih c (List.mem_singleton.2 rfl) (hall c (List.mem_singleton.2 rfl))⟩
    | c1 :: c2 :: cs, _, _, hall =>
      simp only [flattenMut, wf_p]
      exact ⟨by simp [flattenRetList], wf_flattenRetList hall⟩
  | hq cs ih =>
    obtain ⟨hne, hall⟩ := (wf_q cs).1 h
    match cs, hne, ih, hall with
    | [c], _, ih, hall =>
      simp only [flattenMut, wf_q]
      exact ⟨by simp, by simpa using ih c (List.mem_singleton.2 rfl) (hall c (List.mem_singleton.2 rfl))⟩
    | c1 :: c2 :: cs, _, _, hall =>
      simp only [flattenMut, wf_q]
      exact ⟨by simp [flattenRetList], wf_flattenRetList hall⟩

theorem wf_flattenChildren {cs : List Tree} (h : ∀ c ∈ cs, WF c) : ∀ c ∈ flattenChildren cs, WF c := by
  match cs, h with
  | [], _ => simp [flattenChildren, flattenRetList]
  | [c], h => simpa [flattenChildren] using wf_flattenMut (h c (List.mem_singleton.2 rfl))
  | c1 :: c2 :: cs, h => simpa only [flattenChildren] using wf_flattenRetList h

theorem length_flattenChildren (cs : List Tree) : (flattenChildren cs).length = cs.length := by
  match cs with
  | [] => simp [flattenChildren, flattenRetList]
  | [c] => simp [flattenChildren]
  | c1 :: c2 :: cs => simp [flattenChildren, flattenRetList_eq_map]

/-- all leaves contain `v` / no leaf contains `v`, in terms of `mem` on a well-formed tree -/
theorem mem_of_all {v : Nat} {t : Tree} (hwf : WF t) (h : ∀ s ∈ frontier t, v ∈ s) : mem v t = true := by
  have hne := frontier_ne_nil hwf
  match hf : frontier t, hne with
  | s :: rest, _ => exact (mem_iff v t).2 ⟨s, by simp [hf], h s (by simp [hf])⟩

theorem not_mem_of_none {v : Nat} {t : Tree} (h : ∀ s ∈ frontier t, v ∉ s) : mem v t = false := by
  rw [Bool.eq_false_iff]
  intro hm
  obtain ⟨s, hs, hv⟩ := (mem_iff v t).1 hm
  exact h s hs hv

/-! ### `PQ.__init__` on children with pairwise distinct leaves -/

theorem inChildren_true {e : Tree} {acc : List Tree} (h : inChildren e acc = true) :
    ∃ s, e = .leaf s ∧ .leaf s ∈ acc := by
  cases e with
  | leaf s =>
    simp only [inChildren, List.any_eq_true] at h
    obtain ⟨c, hc, hcs⟩ := h
    cases c with
    | leaf s' => simp at hcs; subst hcs; exact ⟨s, rfl, hc⟩
    | p cs => simp at hcs
    | q cs => simp at hcs
  | p cs => simp [inChildren] at h
  | q cs => simp [inChildren] at h

theorem dedupChildren_eq (acc l : List Tree) (h : (frontierList (acc ++ l)).Nodup) :
    dedupChildren acc l = acc ++ l := by
  induction l generalizing acc with
  | nil => simp [dedupChildren]
  | cons e rest ih =>
    have hnot : inChildren e acc = false := by
      rw [Bool.eq_false_iff]
      intro hin
      obtain ⟨s, rfl, hs⟩ := inChildren_true hin
      simp only [frontierList_append, frontierList_cons, frontier_leaf] at h
      have h1 : s ∈ frontierList acc := mem_frontierList.2 ⟨.leaf s, hs, by simp⟩
      have := (List.nodup_append.1 h).2.2 s h1 s (by simp)
      exact this rfl
    simp only [dedupChildren, hnot]
    rw [ih (acc ++ [e]) (by simpa using h)]
    simp

theorem mkP_eq {l : List Tree} (h : (frontierList l).Nodup) : mkP l = .p l := by
  simp [mkP, dedupChildren_eq [] l (by simpa using h)]

theorem mkQ_eq {l : List Tree} (h : (frontierList l).Nodup) : mkQ l = .q l := by
  simp [mkQ, dedupChildren_eq [] l (by simpa using h)]

theorem frontier_newP {l : List Tree} (h : (frontierList l).Nodup) (hne : l ≠ []) :
    frontier (newP l) = frontierList l := by
  unfold newP
  split
  · simp [mkP_eq h]
  · match l, hne with
    | [c], _ => simp
    | _ :: _ :: _, _ => simp at *

theorem frontier_newQ {l : List Tree} (h : (frontierList l).Nodup) (hne : l ≠ []) :
    frontier (newQ l) = frontierList l := by
  unfold newQ
  split
  · simp [mkQ_eq h]
  · match l, hne with
    | [c], _ => simp
    | _ :: _ :: _, _ => simp at *

theorem wf_newP {l : List Tree} (h : (frontierList l).Nodup) (hne : l ≠ []) (hwf : ∀ c ∈ l, WF c) :
    WF (newP l) := by
  unfold newP
  split
  · rw [mkP_eq h, wf_p]; exact ⟨hne, hwf⟩
  · match l, hne with
    | [c], _ => simpa using hwf c (List.mem_singleton.2 rfl)
    | _ :: _ :: _, _ => simp at *

theorem wf_newQ {l : List Tree} (h : (frontierList l).Nodup) (hne : l ≠ []) (hwf : ∀ c ∈ l, WF c) :
    WF (newQ l) := by
  unfold newQ
  split
  · rw [mkQ_eq h, wf_q]; exact ⟨hne, hwf⟩
  · match l, hne with
    | [c], _ => simpa using hwf c (List.mem_singleton.2 rfl)
    | _ :: _ :: _, _ => simp at *

end PrefVerif.PQTree
