import PrefVerif.Lemmas.C08Scan
import PrefVerif.Lemmas.C01Render
import PrefVerif.Lemmas.IOxStr
/-!
# C08 — the categorical ballot renderer

`renderCategory` writes a category exactly as `renderClass` writes an indifference class (the empty
one as `{}`), so `renderBallot b` is `", ".join(categories)` (`C01.sOrder`).  A non-empty ballot
neither starts nor ends with whitespace, and `.replace(" ", "")` gives the compact form of
`C08Scan.lean`.
-/
namespace PrefVerif.C08
open PrefVerif PrefVerif.Py PrefVerif.InstanceIO PrefVerif.CategoricalIO PrefVerif.IOL
open PrefVerif.C01 (sClass sOrder digits)

theorem renderCategory_eq (cl : List Nat) : renderCategory cl = OrdinalIO.renderClass cl := by
  match cl with
  | [] => rfl
  | [_] => rfl
  | _ :: _ :: _ => rfl

theorem renderBallot_eq_renderOrder (b : Ballot) : renderBallot b = OrdinalIO.renderOrder b := by
  have : renderCategory = OrdinalIO.renderClass := funext renderCategory_eq
  simp only [renderBallot, OrdinalIO.renderOrder, this]

/-- `", ".join(categories)` -/
theorem renderBallot_eq (b : Ballot) : renderBallot b = sOrder b := by
  rw [renderBallot_eq_renderOrder, C01.renderOrder_eq]

theorem sClass_multi {cl : List Nat} (h : cl.length ≠ 1) :
    sClass cl = '{' :: join [',', ' '] (cl.map natToStr) ++ ['}'] := by
  match cl, h with
  | [], _ => rfl
  | [_], h => exact absurd rfl h
  | _ :: _ :: _, _ => rfl

theorem sClass_edged_space (cl : List Nat) : Edged isSpace (sClass cl) := by
  by_cases h1 : cl.length = 1
  · obtain ⟨a, rfl⟩ := List.length_eq_one_iff.1 h1
    exact edged_of_all (natToStr_ne_nil a) (fun c hc => natToStr_no_space hc)
  · rw [sClass_multi h1]
    exact edged_of_cons_snoc _ _ _ (by decide) (by decide)

theorem renderBallot_edged_space (b : Ballot) (hb : b ≠ []) : Edged isSpace (renderBallot b) := by
  rw [renderBallot_eq, sOrder]
  exact edged_join _ _ (by simpa using hb) (fun x hx => by
    obtain ⟨cl, _, rfl⟩ := List.mem_map.1 hx; exact sClass_edged_space cl)

/-- `line.strip()` leaves a rendered non-empty ballot alone -/
theorem strip_renderBallot (b : Ballot) (hb : b ≠ []) : strip (renderBallot b) = renderBallot b :=
  strip_of_edged (renderBallot_edged_space b hb)

theorem removeSpaces_sClass (cl : List Nat) : removeSpaces (sClass cl) = cCat cl := by
  have hsep : removeSpaces [',', ' '] = [','] := by decide
  have hmap : ∀ l : List Nat, (l.map natToStr).map removeSpaces = l.map digits := by
    intro l; simp [removeSpaces_natToStr, digits]
  match cl with
  | [] => decide
  | [a] => simp [sClass, cCat, removeSpaces_natToStr, digits]
  | a :: b :: cl =>
    have e : removeSpaces ('{' :: join [',', ' '] ((a :: b :: cl).map natToStr) ++ ['}'])
        = '{' :: removeSpaces (join [',', ' '] ((a :: b :: cl).map natToStr)) ++ ['}'] := by
      rw [show ('{' :: join [',', ' '] ((a :: b :: cl).map natToStr) ++ ['}'])
            = ['{'] ++ join [',', ' '] ((a :: b :: cl).map natToStr) ++ ['}'] from rfl,
          removeSpaces_append, removeSpaces_append]
      rfl
    simp only [sClass, cCat]
    rw [e, removeSpaces_join, hsep, hmap]
    rfl

/-- `.replace(" ", "")` of a rendered ballot is the compact form -/
theorem removeSpaces_renderBallot (b : Ballot) : removeSpaces (renderBallot b) = cBallot b := by
  rw [renderBallot_eq, sOrder, removeSpaces_join]
  have : (b.map sClass).map removeSpaces = b.map cCat := by simp [removeSpaces_sClass]
  rw [this]; rfl

/-- **scanner ∘ renderer = id** on ballots with at least one category -/
theorem scanBallot_renderBallot (b : Ballot) (hb : b ≠ []) :
    scanBallot (removeSpaces (strip (renderBallot b))) = b := by
  rw [strip_renderBallot b hb, removeSpaces_renderBallot]; exact scanBallot_cBallot b

end PrefVerif.C08
