import PrefVerif.Lemmas.C12DPSet
/-!
`last_check` and `eligible_alternatives`: what the accepted extensions `X` satisfy.
"`a` is the lowest-ranked member of `R` in vote `v`" is `v.reverse.find? (· ∈ R) = some a`.
-/
namespace PrefVerif.C12DP
open PrefVerif.KAlt

theorem getLast?_filter (v : List Nat) (p : Nat → Bool) : (v.filter p).getLast? = v.reverse.find? p := by
  rw [List.getLast?_eq_head?_reverse, ← List.filter_reverse, List.head?_filter]

theorem find?_ext {l : List Nat} {p q : Nat → Bool} (h : ∀ a, p a = q a) : l.find? p = l.find? q := by
  have : p = q := funext h
  rw [this]

theorem contains_congr {X X' : List Nat} (h : ∀ z, z ∈ X ↔ z ∈ X') (z : Nat) : X.contains z = X'.contains z := by
  have := h z
  by_cases h1 : z ∈ X
  · simp [h1, this.1 h1]
  · have h2 : z ∉ X' := fun h2 => h1 (this.2 h2)
    simp [h1, h2]

/-- some vote ranks `a` below all of `Y` (or `a ∈ Y` is the lowest of `Y`) -/
def Low (votes : List (List Nat)) (a : Nat) (Y : List Nat) : Prop :=
  ∃ v ∈ votes, v.reverse.find? (fun z => (a :: Y).contains z) = some a

/-- every vote ranks some member of `Y \ X` below all of `X` -/
def PrevLast (votes : List (List Nat)) (Y X : List Nat) : Prop :=
  ∀ v ∈ votes, ∀ z, v.reverse.find? (fun z => (X ++ Y).contains z) = some z → z ∉ X

theorem find_extend (w : List Nat) (a : Nat) (X Y : List Nat)
    (h1 : w.find? (fun z => (a :: Y).contains z) = some a)
    (h2 : ∀ z, w.find? (fun z => (X ++ Y).contains z) = some z → z ∉ X) :
    w.find? (fun z => (a :: X).contains z) = some a := by
  induction w with
  | nil => simp at h1
  | cons h t ih =>
    by_cases hh : (a :: Y).contains h = true
    · rw [List.find?_cons_of_pos (by exact hh)] at h1
      have : h = a := by simpa using h1
      subst this
      exact List.find?_cons_of_pos (by simp)
    · rw [List.find?_cons_of_neg (by exact hh)] at h1
      have hha : h ≠ a := by intro e; apply hh; simp [e]
      have hhY : h ∉ Y := by intro e; apply hh; simp [e]
      by_cases hx : (X ++ Y).contains h = true
      · exfalso
        have := h2 h (List.find?_cons_of_pos (by exact hx))
        simp at hx
        rcases hx with hx | hx
        · exact this hx
        · exact hhY hx
      · have hX : h ∉ X := by intro e; apply hx; simp [e]
        rw [List.find?_cons_of_neg (by simp [hha, hX])]
        apply ih h1
        intro z hz
        apply h2
        rw [List.find?_cons_of_neg (by exact hx)]
        exact hz

theorem find_disjoint (w : List Nat) (x : Nat) (X Y : List Nat)
    (h1 : w.find? (fun z => (x :: Y).contains z) = some x)
    (h2 : ∀ z, w.find? (fun z => (X ++ Y).contains z) = some z → z ∉ X) : x ∉ X := by
  intro hxX
  induction w with
  | nil => simp at h1
  | cons h t ih =>
    by_cases hh : (x :: Y).contains h = true
    · rw [List.find?_cons_of_pos (by exact hh)] at h1
      have : h = x := by simpa using h1
      subst this
      exact h2 h (List.find?_cons_of_pos (by simp [hxX])) hxX
    · rw [List.find?_cons_of_neg (by exact hh)] at h1
      have hhY : h ∉ Y := by intro e; apply hh; simp [e]
      by_cases hx : (X ++ Y).contains h = true
      · have := h2 h (List.find?_cons_of_pos (by exact hx))
        simp at hx
        rcases hx with hx | hx
        · exact this hx
        · exact hhY hx
      · apply ih h1
        intro z hz
        apply h2
        rw [List.find?_cons_of_neg (by exact hx)]
        exact hz

theorem find_antitone (w : List Nat) (a : Nat) (Y Y' : List Nat) (hsub : ∀ z ∈ Y', z ∈ Y)
    (h1 : w.find? (fun z => (a :: Y).contains z) = some a) :
    w.find? (fun z => (a :: Y').contains z) = some a := by
  induction w with
  | nil => simp at h1
  | cons h t ih =>
    by_cases hh : (a :: Y).contains h = true
    · rw [List.find?_cons_of_pos (by exact hh)] at h1
      have : h = a := by simpa using h1
      subst this
      exact List.find?_cons_of_pos (by simp)
    · rw [List.find?_cons_of_neg (by exact hh)] at h1
      have hha : h ≠ a := by intro e; apply hh; simp [e]
      have hhY : h ∉ Y' := by intro e; apply hh; simp [hsub h e]
      rw [List.find?_cons_of_neg (by simp [hha, hhY])]
      exact ih h1

theorem Low.extend {votes a X Y} (h : Low votes a Y) (hp : PrevLast votes Y X) : Low votes a X := by
  obtain ⟨v, hv, h1⟩ := h
  exact ⟨v, hv, find_extend _ a X Y h1 (hp v hv)⟩

theorem Low.antitone {votes a Y Y'} (h : Low votes a Y) (hsub : ∀ z ∈ Y', z ∈ Y) : Low votes a Y' := by
  obtain ⟨v, hv, h1⟩ := h
  exact ⟨v, hv, find_antitone _ a Y Y' hsub h1⟩

theorem Low.disjoint {votes x X Y} (h : Low votes x Y) (hp : PrevLast votes Y X) : x ∉ X := by
  obtain ⟨v, hv, h1⟩ := h
  exact find_disjoint _ x X Y h1 (hp v hv)

/-- what an accepted extension satisfies -/
structure XSpec (votes : List (List Nat)) (alts Y X : List Nat) : Prop where
  ne : X ≠ []
  len : X.length ≤ 2
  nodup : X.Nodup
  sub : ∀ x ∈ X, x ∈ alts
  prev : Y ≠ [] → PrevLast votes Y X
  low : ∀ x ∈ X, Low votes x X

theorem lastCheck_prev (votes : List (List Nat)) (Y X : List Nat) (h : lastCheck votes Y X = true)
    (hY : Y ≠ []) : PrevLast votes Y X := by
  unfold lastCheck at h
  simp only [Bool.and_eq_true, List.all_eq_true] at h
  intro v hv z hz hzX
  have := h.1 z hzX
  have hlen : (Y.length != 0) = true := by
    cases Y with
    | nil => exact absurd rfl hY
    | cons => simp
  simp only [hlen, Bool.and_true, Bool.not_eq_true', List.contains_eq_mem, decide_eq_false_iff_not] at this
  apply this
  rw [List.mem_filterMap]
  refine ⟨v, hv, ?_⟩
  rw [getLast?_filter, ← hz]
  apply find?_ext
  intro a
  simp

theorem lastCheck_low (votes : List (List Nat)) (Y X : List Nat) (h : lastCheck votes Y X = true) :
    ∀ x ∈ X, Low votes x X := by
  unfold lastCheck at h
  simp only [Bool.and_eq_true, List.all_eq_true] at h
  intro x hx
  have := h.2 x hx
  simp only [List.contains_eq_mem, decide_eq_true_eq] at this
  rw [List.mem_filterMap] at this
  obtain ⟨v, hv, hl⟩ := this
  refine ⟨v, hv, ?_⟩
  rw [List.filter_filter, getLast?_filter] at hl
  rw [← hl]
  apply find?_ext
  intro a
  by_cases ha : a ∈ X
  · simp [ha]
  · have : a ≠ x := fun e => ha (e ▸ hx)
    simp [ha, this]

theorem PrevLast.congr {votes Y X X'} (h : PrevLast votes Y X) (hm : ∀ z, z ∈ X' ↔ z ∈ X) :
    PrevLast votes Y X' := by
  intro v hv z hz hzX
  refine h v hv z ?_ ((hm z).1 hzX)
  rw [← hz]
  apply find?_ext
  intro a
  have := contains_congr hm a
  simp only [List.contains_eq_mem] at this
  simp [this]

theorem Low.congr {votes x X X'} (h : Low votes x X) (hm : ∀ z, z ∈ X' ↔ z ∈ X) : Low votes x X' :=
  h.antitone (fun z hz => (hm z).1 hz)

/-- elements of the sets in a list are alternatives -/
def SetsSub (alts : List Nat) (Ls : List (PySet Nat)) : Prop := ∀ s ∈ Ls, ∀ a ∈ s.elems, a ∈ alts

theorem mem_foldl_merge (K : HashKey Nat) (l : List (PySet Nat)) (s : PySet Nat) (a : Nat)
    (h : a ∈ (l.foldl (PySet.merge K) s).elems) : a ∈ s.elems ∨ ∃ t ∈ l, a ∈ t.elems := by
  induction l generalizing s with
  | nil => exact Or.inl h
  | cons x xs ih =>
    rcases ih _ h with h | ⟨t, ht, h⟩
    · rcases mem_merge_elems K s x a h with h | h
      · exact Or.inl h
      · exact Or.inr ⟨x, by simp, h⟩
    · exact Or.inr ⟨t, by simp [ht], h⟩

theorem mem_foldl_merge_of_mem (K : HashKey Nat) (l : List (PySet Nat)) (s : PySet Nat) (a : Nat)
    (h : a ∈ s.elems) : a ∈ (l.foldl (PySet.merge K) s).elems := by
  induction l generalizing s with
  | nil => exact h
  | cons x xs ih => exact ih _ (mem_merge_of_mem K s x a h)

theorem remainingSet_sub (alts : List Nat) (suffix : List (PySet Nat)) (h : SetsSub alts suffix) :
    ∀ a ∈ (remainingSet suffix).elems, a ∈ alts := by
  intro a ha
  unfold remainingSet at ha
  split at ha
  · simp [PySet.empty] at ha
  · rename_i Li rest
    rcases mem_foldl_merge natKey _ _ a ha with ha | ⟨t, ht, ha⟩
    · rw [copy_elems] at ha; exact h Li (by simp) a ha
    · exact h t (List.dropLast_subset _ ht) a ha

theorem remainingSet_head (Li : PySet Nat) (rest : List (PySet Nat)) (a : Nat) (h : a ∈ Li.elems) :
    a ∈ (remainingSet (Li :: rest)).elems := by
  unfold remainingSet
  apply mem_foldl_merge_of_mem
  rw [copy_elems]; exact h

theorem mem_candidates {Li rem : PySet Nat} {Y votes} {p : Nat × Nat} :
    p ∈ candidates Li rem Y votes ↔
      p.1 ∈ Li.elems ∧ p.2 ∈ rem.elems ∧ lastCheck votes Y [p.1, p.2] = true := by
  unfold candidates
  simp only [List.mem_flatMap, List.mem_filterMap, mem_iter]
  constructor
  · rintro ⟨x1, h1, x2, h2, h3⟩
    split at h3
    · cases h3; exact ⟨h1, h2, by assumption⟩
    · cases h3
  · rintro ⟨h1, h2, h3⟩
    exact ⟨p.1, h1, p.2, h2, by simp [h3]⟩

theorem eligible_spec (alts : List Nat) (votes : List (List Nat)) (suffix : List (PySet Nat)) (Y X : List Nat)
    (hs : SetsSub alts suffix) (hX : X ∈ eligible suffix Y votes) : XSpec votes alts Y X := by
  unfold eligible at hX
  split at hX
  · cases hX
  · rename_i Li rest
    dsimp only at hX
    rw [List.mem_map] at hX
    obtain ⟨fs, hfs, rfl⟩ := hX
    rw [mem_iter, ← List.foldl_map (f := fun p : Nat × Nat => mkFrozen [p.1, p.2]) (g := PySet.add fsKey)] at hfs
    rcases mem_foldl_add fsKey _ _ fs hfs with hfs | hfs
    · simp [PySet.empty] at hfs
    · rw [List.mem_map] at hfs
      obtain ⟨p, hp, rfl⟩ := hfs
      rw [mem_candidates] at hp
      obtain ⟨h1, h2, h3⟩ := hp
      have hperm := iter_perm natKey (mkFrozen [p.1, p.2])
      have hm : ∀ z, z ∈ (mkFrozen [p.1, p.2]).iter natKey ↔ z ∈ [p.1, p.2] := by
        intro z
        rw [hperm.mem_iff, mkFrozen_pair_elems]
        split
        · rename_i e; simp [e]
        · rfl
      have h1' : p.1 ∈ alts := hs Li (by simp) _ h1
      have h2' : p.2 ∈ alts := remainingSet_sub alts _ hs _ h2
      refine ⟨?_, ?_, ?_, ?_, ?_, ?_⟩
      · intro e
        have := (hm p.1).2 (by simp)
        rw [e] at this; cases this
      · rw [hperm.length_eq, mkFrozen_pair_elems]; split <;> simp
      · rw [hperm.nodup_iff, mkFrozen_pair_elems]
        split
        · simp
        · rename_i e; simp; exact fun e' => e e'.symm
      · intro x hx
        have := (hm x).1 hx
        simp at this
        rcases this with rfl | rfl
        · exact h1'
        · exact h2'
      · intro hY
        exact (lastCheck_prev votes Y _ h3 hY).congr hm
      · intro x hx
        exact (lastCheck_low votes Y _ h3 x ((hm x).1 hx)).congr hm

end PrefVerif.C12DP
