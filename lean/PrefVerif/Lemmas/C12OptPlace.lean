import PrefVerif.Lemmas.C12OptDefs
/-!
# C12Opt, part 1: what `case_3` / `case_2` return on `shape Fr Sr` when no early exit fires
-/
namespace PrefVerif.C12Opt
open PrefVerif PrefVerif.KAlt PrefVerif.C12DP PrefVerif.C03 PrefVerif.C03c

/-- sufficient conditions (no valley at the three new triples) for the early exits not to fire -/
theorem noExit_of (o0 o1 o2 o3 : Option Nat) (v : List Nat) (x : Nat)
    (h1 : ∀ b1 b2, o1 = some b1 → o2 = some b2 → ¬ (lt v b1 x ∧ lt v b2 x))
    (h2 : ∀ b0 b1, o0 = some b0 → o1 = some b1 → ¬ (lt v b0 b1 ∧ lt v x b1))
    (h3 : ∀ b2 b3, o2 = some b2 → o3 = some b3 → ¬ (lt v b3 b2 ∧ lt v x b2)) :
    noExit (o0, o1, o2, o3) v x := by
  unfold noExit
  dsimp only [bndIdx]
  cases o0 <;> cases o1 <;> cases o2 <;> cases o3 <;>
    simp [ltO, checkCase4, lt] at * <;> grind

theorem case3Loop_eq (bound : Bnd) (x : Nat) (votes : List (List Nat)) (c d : Bool)
    (h : ∀ v ∈ votes, noExit bound v x) :
    case3Loop bound x votes (c, d) =
      some (c || votes.any (fun v => ltO (bndIdx v bound).2.2.1 (v.idxOf x)),
            d || votes.any (fun v => ltO (bndIdx v bound).2.1 (v.idxOf x))) := by
  induction votes generalizing c d with
  | nil => simp [case3Loop]
  | cons w ws ih =>
    have hw := h w (by simp)
    unfold noExit at hw
    dsimp only at hw
    unfold case3Loop
    dsimp only
    rw [if_neg hw.1, if_neg hw.2, ih _ _ (fun v hv => h v (by simp [hv]))]
    simp only [List.any_cons]
    cases ltO (bndIdx w bound).2.2.1 (w.idxOf x) <;> cases ltO (bndIdx w bound).2.1 (w.idxOf x) <;> simp

theorem case3_shape (votes : List (List Nat)) (Fr Sr : List Nat) (x : Nat)
    (hne : ∀ v ∈ votes, noExit (bndOf Fr Sr) v x) :
    case3 (shape Fr Sr) x votes =
      (if votes.any (fun v => above v Fr.head? x) then shape Fr (x :: Sr) else shape (x :: Fr) Sr,
       !(votes.any (fun v => above v Sr.head? x) && votes.any (fun v => above v Fr.head? x))) := by
  have hr : (if (Fr.head?).isSome || (Sr.head?).isSome then
      case3Loop (Fr.tail.head?, Fr.head?, Sr.head?, Sr.tail.head?) x votes (false, false)
      else some (false, false)) =
      some (votes.any (fun v => above v Sr.head? x), votes.any (fun v => above v Fr.head? x)) := by
    split
    · have := case3Loop_eq (bndOf Fr Sr) x votes false false hne
      simp only [Bool.false_or] at this
      exact this
    · rename_i hb
      obtain ⟨rfl, rfl⟩ := shape_empty_of_bnd hb
      simp [above, ltO]
  unfold case3
  dsimp only
  rw [(shape_Shape Fr Sr).boundary, (shape_Shape Fr Sr).idxOf]
  dsimp only
  rw [hr]
  dsimp only
  congr 1
  split
  · rename_i hd
    unfold shape
    rw [take_shape_succ, drop_shape_succ]; simp
  · rename_i hd
    unfold shape
    rw [take_shape, drop_shape]; simp

/-- the flags of the `case_2` loop after all votes, when no exit fires -/
def finalFl (bound : Bnd) (x1 x2 : Nat) (votes : List (List Nat)) (fl : Flags2) : Flags2 :=
  ⟨fl.c1 || votes.any (fun v => ltO (bndIdx v bound).2.2.1 (v.idxOf x1) && decide (v.idxOf x2 < v.idxOf x1)),
   fl.d1 || votes.any (fun v => ltO (bndIdx v bound).2.1 (v.idxOf x1) && decide (v.idxOf x2 < v.idxOf x1)),
   fl.c2 || votes.any (fun v => ltO (bndIdx v bound).2.2.1 (v.idxOf x2) && decide (v.idxOf x1 < v.idxOf x2)),
   fl.d2 || votes.any (fun v => ltO (bndIdx v bound).2.1 (v.idxOf x2) && decide (v.idxOf x1 < v.idxOf x2))⟩

theorem finalFl_nil (bound : Bnd) (x1 x2 : Nat) (fl : Flags2) : finalFl bound x1 x2 [] fl = fl := by
  simp [finalFl]

theorem finalFl_cons (bound : Bnd) (x1 x2 : Nat) (v : List Nat) (rest : List (List Nat)) (fl : Flags2) :
    finalFl bound x1 x2 (v :: rest) fl = finalFl bound x1 x2 rest (step2 bound x1 x2 v fl) := by
  simp only [finalFl, step2, List.any_cons]
  congr 1 <;> split <;> rename_i h
  all_goals first
    | (rw [h]; simp)
    | (rw [Bool.not_eq_true] at h; rw [h]; simp)

theorem flagsBad_mono (bound : Bnd) (x1 x2 : Nat) (votes : List (List Nat)) (fl : Flags2)
    (h : flagsBad fl = true) : flagsBad (finalFl bound x1 x2 votes fl) = true := by
  obtain ⟨c1, d1, c2, d2⟩ := fl
  revert h
  cases c1 <;> cases d1 <;> cases c2 <;> cases d2 <;> simp [flagsBad, finalFl]

theorem exit1_false (bound : Bnd) (v : List Nat) (x1 x2 : Nat)
    (h1 : noExit bound v x1) (h2 : noExit bound v x2) : exit1 bound x1 x2 v = false := by
  unfold noExit at h1 h2
  dsimp only at h1 h2
  obtain ⟨a, _⟩ := h1
  obtain ⟨b, _⟩ := h2
  rw [Bool.eq_false_iff]
  intro hc
  unfold exit1 at hc
  dsimp only at hc
  simp only [Bool.and_eq_true, Bool.or_eq_true] at a b hc
  grind

theorem exit4_false (bound : Bnd) (v : List Nat) (x1 x2 : Nat)
    (h1 : noExit bound v x1) (h2 : noExit bound v x2) : exit4 bound x1 x2 v = false := by
  unfold noExit at h1 h2
  dsimp only at h1 h2
  obtain ⟨_, a⟩ := h1
  obtain ⟨_, b⟩ := h2
  rw [Bool.eq_false_iff]
  intro hc
  unfold exit4 at hc
  dsimp only at hc
  simp only [Bool.and_eq_true, Bool.or_eq_true] at a b hc
  grind

theorem case2Loop_eq (bound : Bnd) (x1 x2 : Nat) (votes : List (List Nat)) (fl : Flags2)
    (h1 : ∀ v ∈ votes, noExit bound v x1) (h2 : ∀ v ∈ votes, noExit bound v x2)
    (hg : flagsBad (finalFl bound x1 x2 votes fl) = false) :
    case2Loop bound x1 x2 votes fl = some (finalFl bound x1 x2 votes fl) := by
  induction votes generalizing fl with
  | nil => simp [case2Loop, finalFl_nil]
  | cons w ws ih =>
    rw [finalFl_cons] at hg ⊢
    have hb : flagsBad (step2 bound x1 x2 w fl) = false := by
      cases h : flagsBad (step2 bound x1 x2 w fl) with
      | false => rfl
      | true =>
        have := flagsBad_mono bound x1 x2 ws _ h
        rw [hg] at this; cases this
    rw [case2Loop_cons, exit1_false bound w x1 x2 (h1 w (by simp)) (h2 w (by simp)),
      exit4_false bound w x1 x2 (h1 w (by simp)) (h2 w (by simp)), hb]
    simp only [Bool.false_eq_true, if_false]
    exact ih _ (fun v hv => h1 v (by simp [hv])) (fun v hv => h2 v (by simp [hv])) hg

theorem case2_shape (votes : List (List Nat)) (Fr Sr : List Nat) (x1 x2 : Nat)
    (hne1 : ∀ v ∈ votes, noExit (bndOf Fr Sr) v x1) (hne2 : ∀ v ∈ votes, noExit (bndOf Fr Sr) v x2)
    (hgood : ¬ ((fC votes Sr.head? x1 x2 && fC votes Fr.head? x1 x2) ||
      (fC votes Sr.head? x2 x1 && fC votes Fr.head? x2 x1) ||
      (fC votes Sr.head? x1 x2 && fC votes Sr.head? x2 x1) ||
      (fC votes Fr.head? x1 x2 && fC votes Fr.head? x2 x1)) = true) :
    case2 (shape Fr Sr) x1 x2 votes =
      (if fC votes Sr.head? x2 x1 || fC votes Fr.head? x1 x2 then shape (x2 :: Fr) (x1 :: Sr)
       else shape (x1 :: Fr) (x2 :: Sr), true) := by
  have hr : (if (Fr.head?).isSome || (Sr.head?).isSome then
      case2Loop (Fr.tail.head?, Fr.head?, Sr.head?, Sr.tail.head?) x1 x2 votes ⟨false, false, false, false⟩
      else some ⟨false, false, false, false⟩) =
      some ⟨fC votes Sr.head? x1 x2, fC votes Fr.head? x1 x2, fC votes Sr.head? x2 x1, fC votes Fr.head? x2 x1⟩ := by
    split
    · have hfin : finalFl (bndOf Fr Sr) x1 x2 votes ⟨false, false, false, false⟩ =
          ⟨fC votes Sr.head? x1 x2, fC votes Fr.head? x1 x2, fC votes Sr.head? x2 x1, fC votes Fr.head? x2 x1⟩ := by
        simp only [finalFl, Bool.false_or]
        rfl
      have := case2Loop_eq (bndOf Fr Sr) x1 x2 votes ⟨false, false, false, false⟩ hne1 hne2
        (by rw [hfin]; simpa [flagsBad] using hgood)
      rw [hfin] at this
      exact this
    · rename_i hb
      obtain ⟨rfl, rfl⟩ := shape_empty_of_bnd hb
      simp [fC, above, ltO]
  unfold case2
  dsimp only
  rw [(shape_Shape Fr Sr).boundary, (shape_Shape Fr Sr).idxOf]
  dsimp only
  rw [hr]
  dsimp only
  split
  · unfold shape
    rw [take_shape, drop_shape_succ]; simp
  · unfold shape
    rw [take_shape, drop_shape_succ]; simp

end PrefVerif.C12Opt

