import PrefVerif.Lemmas.C12OptInv
import PrefVerif.Lemmas.C12OptStep
import PrefVerif.Lemmas.C12OptElig
import PrefVerif.Lemmas.C12OptLevels
/-!
# C12Opt, part 7: the path of a single-peaked axis of `S` through the table

`PathAt orders S st R`: some single-peaked axis `Fr.reverse ++ M ++ Sr` of `S` has its unplaced part `M` among
the alternatives `R` not yet assigned to an `L` set, and the table holds, under the key
`(boundary of (Fr, Sr), last placed set)`, an axis at least as long as the placed part.
This file finds the extension `X` (the alternatives of `M` ranked last) among `eligible_alternatives` and shows
that processing the entry of the path re-establishes `PathAt` one level further, unless `longest` or
`locked_axis` already have `|S|` alternatives.
-/
namespace PrefVerif.C12Opt
open PrefVerif PrefVerif.KAlt PrefVerif.C12DP PrefVerif.C03 PrefVerif.C03c PrefVerif.C18BF

/-- every order ranks some member of `Y` (placed: not in `M`) below all of `M` -/
def YOK (orders : List (List Nat)) (S M Y : List Nat) : Prop :=
  (∀ y ∈ Y, y ∈ S) ∧ (Y ≠ [] → ∀ o ∈ orders, ∃ y ∈ Y, y ∉ M ∧ ∀ m ∈ M, lt o m y)

def PathAt (orders : List (List Nat)) (S : List Nat) (st : St) (R : List Nat) : Prop :=
  ∃ Fr M Sr Y, Ideal orders S Fr M Sr ∧ (∀ a ∈ M, a ∈ R) ∧
    HasEntry st (bndOf Fr Sr) Y (Fr.length + Sr.length + 1) ∧ YOK orders S M Y

theorem PathAt.mono {orders : List (List Nat)} {S : List Nat} {st st' : St} {R : List Nat}
    (h : PathAt orders S st R) (hle : Le st st') : PathAt orders S st' R := by
  obtain ⟨Fr, M, Sr, Y, h1, h2, h3, h4⟩ := h
  exact ⟨Fr, M, Sr, Y, h1, h2, h3.mono hle, h4⟩

/-! ### small list facts -/

theorem exists_worst (o M : List Nat) (hne : M ≠ []) (hMo : ∀ m ∈ M, m ∈ o) :
    ∃ x ∈ M, ∀ m ∈ M, m ≠ x → lt o m x := by
  induction M with
  | nil => exact absurd rfl hne
  | cons a t ih =>
    cases t with
    | nil => exact ⟨a, by simp, fun m hm hma => by simp at hm; exact absurd hm hma⟩
    | cons b t =>
      obtain ⟨x, hx, hw⟩ := ih (by simp) (fun m hm => hMo m (by simp [hm]))
      by_cases hax : a = x
      · subst hax
        refine ⟨a, by simp, fun m hm hma => ?_⟩
        simp only [List.mem_cons] at hm
        rcases hm with rfl | hm
        · exact absurd rfl hma
        · exact hw m (by simpa using hm) hma
      · by_cases hlt : lt o a x
        · refine ⟨x, by simp [hx], fun m hm hmx => ?_⟩
          rcases List.mem_cons.1 hm with rfl | hm
          · exact hlt
          · exact hw m hm hmx
        · have hxa : lt o x a :=
            lt_of_not_lt (hMo a (by simp)) (hMo x (by simp [hx])) hax hlt
          refine ⟨a, by simp, fun m hm hma => ?_⟩
          rcases List.mem_cons.1 hm with rfl | hm
          · exact absurd rfl hma
          · by_cases hmx : m = x
            · subst hmx; exact hxa
            · exact lt_trans (hw m hm hmx) hxa

theorem eq_singleton_of_mem_iff {X : List Nat} {a : Nat} (hnd : X.Nodup) (h : ∀ z, z ∈ X ↔ z = a) :
    X = [a] := by
  match X, hnd, h with
  | [], _, h => exact absurd ((h a).2 rfl) (by simp)
  | [b], _, h =>
    have : b = a := (h b).1 (by simp)
    rw [this]
  | b :: c :: t, hnd, h =>
    have hb : b = a := (h b).1 (by simp)
    have hc : c = a := (h c).1 (by simp)
    subst hb hc
    simp at hnd

theorem eq_pair_of_mem_iff {X : List Nat} {a b : Nat} (hnd : X.Nodup) (hab : a ≠ b)
    (h : ∀ z, z ∈ X ↔ (z = a ∨ z = b)) : X = [a, b] ∨ X = [b, a] := by
  match X, hnd, h with
  | [], _, h => exact absurd ((h a).2 (Or.inl rfl)) (by simp)
  | [c], _, h =>
    have h1 : a = c := by simpa using (h a).2 (Or.inl rfl)
    have h2 : b = c := by simpa using (h b).2 (Or.inr rfl)
    exact absurd (h1.trans h2.symm) hab
  | [c, d], hnd, h =>
    have hc := (h c).1 (by simp)
    have hd := (h d).1 (by simp)
    have hcd : c ≠ d := by simpa using hnd
    rcases hc with rfl | rfl <;> rcases hd with rfl | rfl
    · exact absurd rfl hcd
    · exact Or.inl rfl
    · exact Or.inr rfl
    · exact absurd rfl hcd
  | c :: d :: f :: t, hnd, h =>
    have hc := (h c).1 (by simp)
    have hd := (h d).1 (by simp)
    have hf := (h f).1 (by simp)
    simp only [List.nodup_cons, List.mem_cons, not_or] at hnd
    obtain ⟨⟨hcd, hcf, _⟩, ⟨hdf, _⟩, _⟩ := hnd
    exfalso
    rcases hc with rfl | rfl <;> rcases hd with rfl | rfl <;> rcases hf with rfl | rfl <;> simp_all

theorem worst_unique {o : List Nat} {M : List Nat} {x y : Nat} (hx : x ∈ M) (hy : y ∈ M)
    (hwx : ∀ m ∈ M, m ≠ x → lt o m x) (hwy : ∀ m ∈ M, m ≠ y → lt o m y) : x = y := by
  apply Classical.byContradiction
  intro hne
  exact lt_asymm (hwx y hy (fun e => hne e.symm)) (hwy x hx hne)

/-! ### the extension of the path is eligible -/

section
variable {alts : List Nat} {orders : List (List Nat)} {S : List Nat}

/-- the data of the path at the entry `e` of the table -/
structure AtEntry (orders : List (List Nat)) (S : List Nat) (e : Key × Axis) (Fr M Sr Y Fr' Sr' : List Nat) : Prop where
  ideal : Ideal orders S Fr M Sr
  sh : e.2 = shape Fr' Sr'
  bnd : bndOf Fr' Sr' = bndOf Fr Sr
  keyX : ∀ z, z ∈ e.1.X ↔ z ∈ Y
  len : Fr.length + Sr.length + 1 ≤ e.2.length
  yok : YOK orders S M Y

/-- the extension: eligible, placed compatibly with an ideal axis, and containing every order's last-ranked
member of `M` -/
structure Ext (orders : List (List Nat)) (S : List Nat) (suffix : List (PySet Nat)) (e : Key × Axis)
    (Fr M Sr Fr' Sr' X : List Nat) : Prop where
  el : X ∈ eligible suffix e.1.X orders
  nd : X.Nodup
  res : PlaceRes orders S Fr M Sr Fr' Sr' X
  worst : ∀ o ∈ orders, ∃ y ∈ X, ∀ m ∈ M, m ≠ y → lt o m y
  sub : ∀ y ∈ X, y ∈ M

theorem hprev_of (hr : Rankings alts orders) (hsub : ∀ a ∈ S, a ∈ alts) {e : Key × Axis}
    {Fr M Sr Y Fr' Sr' : List Nat} (hA : AtEntry orders S e Fr M Sr Y Fr' Sr') (x1 x2 : Nat) (h1 : x1 ∈ M)
    (h2 : x2 ∈ M) :
    e.1.X ≠ [] → ∀ v ∈ orders, ∃ y ∈ e.1.X, y ∈ v ∧ y ≠ x1 ∧ y ≠ x2 ∧ lt v x1 y ∧ lt v x2 y := by
  intro hne v hv
  have hYne : Y ≠ [] := by
    intro e0
    cases hX : e.1.X with
    | nil => exact hne hX
    | cons z t =>
      have := (hA.keyX z).1 (by rw [hX]; simp)
      rw [e0] at this; cases this
  obtain ⟨y, hy, hyM, hlow⟩ := hA.yok.2 hYne v hv
  refine ⟨y, (hA.keyX y).2 hy, ((hr.2 v hv).2 y).2 (hsub y (hA.yok.1 y hy)), ?_, ?_, hlow x1 h1, hlow x2 h2⟩
  · intro e0; exact hyM (e0 ▸ h1)
  · intro e0; exact hyM (e0 ▸ h2)

theorem find_ext (hr : Rankings alts orders) (hS : S.Nodup) (hsub : ∀ a ∈ S, a ∈ alts)
    {vc : List (List Nat)} {prev : PySet Nat} {R : List Nat} (hL : LState alts orders vc prev R) (n : Nat)
    (hn : R.length ≤ n + 1) {e : Key × Axis} {Fr M Sr Y Fr' Sr' : List Nat}
    (hA : AtEntry orders S e Fr M Sr Y Fr' Sr') (hMR : ∀ a ∈ M, a ∈ R) (x1 : Nat) (hx1M : x1 ∈ M)
    (hx1L : x1 ∈ (lRound alts prev vc PySet.empty).2.elems) :
    ∃ X, Ext orders S (lLoop alts (n + 1) vc prev) e Fr M Sr Fr' Sr' X := by
  have hrank : ∀ o ∈ orders, ∀ a ∈ S, a ∈ o := fun o ho a ha => ((hr.2 o ho).2 a).2 (hsub a ha)
  have hnd : ∀ v ∈ orders, v.Nodup := fun v hv => (hr.2 v hv).1
  have hI := hA.ideal
  have hσnd : (Fr.reverse ++ M ++ Sr).Nodup := hI.1.nodup_iff.2 hS
  have hMnd : M.Nodup := (List.nodup_append.1 (List.nodup_append.1 hσnd).1).2.1
  have hMS : ∀ m ∈ M, m ∈ S := fun m hm => hI.1.mem_iff.1 (by simp [hm])
  have hMo : ∀ o ∈ orders, ∀ m ∈ M, m ∈ o := fun o ho m hm => hrank o ho m (hMS m hm)
  obtain ⟨hx1R, o1, ho1, hw1R⟩ := hL.level_worst hr x1 hx1L
  have hw1 : ∀ m ∈ M, m ≠ x1 → lt o1 m x1 := fun m hm hne => hw1R m (hMR m hm) hne
  by_cases hall : ∀ o ∈ orders, ∀ m ∈ M, m ≠ x1 → lt o m x1
  · -- a single alternative
    have hirr : ¬ lt o1 x1 x1 := by unfold lt; omega
    have hlc := lastCheck_true orders e.1.X x1 x1 hnd (fun v hv => ⟨hMo v hv x1 hx1M, hMo v hv x1 hx1M⟩)
      (hprev_of hr hsub hA x1 x1 hx1M hx1M) ⟨o1, ho1, hirr⟩ ⟨o1, ho1, hirr⟩
    have hrem := hL.rem_mem hr n hn x1 x1 hx1L hx1R (Or.inl rfl)
    rw [lLoop_succ] at hrem ⊢
    obtain ⟨X, hXel, hXnd, hXm⟩ := eligible_mem _ _ e.1.X orders x1 x1 hx1L hrem hlc
    have hX : X = [x1] := eq_singleton_of_mem_iff hXnd (fun z => by rw [hXm]; simp)
    subst hX
    refine ⟨[x1], hXel, hXnd, ?_, ?_, ?_⟩
    · exact place_single orders S Fr M Sr Fr' Sr' x1 hS hrank hI hA.bnd hx1M hall
    · intro o ho; exact ⟨x1, by simp, hall o ho⟩
    · intro y hy; simp at hy; subst hy; exact hx1M
  · -- two alternatives
    have hex : ∃ o2 ∈ orders, ∃ m ∈ M, m ≠ x1 ∧ ¬ lt o2 m x1 := by
      apply Classical.byContradiction
      intro hno
      apply hall
      intro o ho m hm hne
      apply Classical.byContradiction
      intro hlt
      exact hno ⟨o, ho, m, hm, hne, hlt⟩
    obtain ⟨o2, ho2, m0, hm0, hm0ne, hm0lt⟩ := hex
    have hMne : M ≠ [] := List.ne_nil_of_mem hx1M
    obtain ⟨x2, hx2M, hw2⟩ := exists_worst o2 M hMne (hMo o2 ho2)
    have hne12 : x1 ≠ x2 := by
      intro e0; subst e0; exact hm0lt (hw2 m0 hm0 hm0ne)
    have hend1 := worst_at_end (hI.2 o1 ho1) hMnd hx1M hw1
    have hend2 := worst_at_end (hI.2 o2 ho2) hMnd hx2M hw2
    have hends := two_ends hne12 hend1 hend2
    -- every order's last-ranked member of `M` is `x1` or `x2`
    have hwboth : ∀ o ∈ orders, (∀ m ∈ M, m ≠ x1 → lt o m x1) ∨ (∀ m ∈ M, m ≠ x2 → lt o m x2) := by
      intro o ho
      obtain ⟨x, hxM, hwx⟩ := exists_worst o M hMne (hMo o ho)
      have hendx := worst_at_end (hI.2 o ho) hMnd hxM hwx
      have hx12 : x = x1 ∨ x = x2 := by
        rcases hends with ⟨M'', hM⟩ | ⟨M'', hM⟩
        · rcases hendx with ⟨M', hM'⟩ | ⟨M', hM'⟩
          · rw [hM] at hM'; simp only [List.cons.injEq] at hM'; exact Or.inl hM'.1.symm
          · rw [hM, ← List.cons_append] at hM'
            have := List.append_inj' hM' rfl
            simp only [List.cons.injEq, and_true] at this
            exact Or.inr this.2.symm
        · rcases hendx with ⟨M', hM'⟩ | ⟨M', hM'⟩
          · rw [hM] at hM'; simp only [List.cons.injEq] at hM'; exact Or.inr hM'.1.symm
          · rw [hM, ← List.cons_append] at hM'
            have := List.append_inj' hM' rfl
            simp only [List.cons.injEq, and_true] at this
            exact Or.inl this.2.symm
      rcases hx12 with rfl | rfl
      · exact Or.inl hwx
      · exact Or.inr hwx
    have h21 : lt o1 x2 x1 := hw1 x2 hx2M (fun e0 => hne12 e0.symm)
    have h12 : lt o2 x1 x2 := hw2 x1 hx1M hne12
    have hlc := lastCheck_true orders e.1.X x1 x2 hnd (fun v hv => ⟨hMo v hv x1 hx1M, hMo v hv x2 hx2M⟩)
      (hprev_of hr hsub hA x1 x2 hx1M hx2M) ⟨o1, ho1, fun h => lt_asymm h h21⟩ ⟨o2, ho2, fun h => lt_asymm h h12⟩
    have hrem := hL.rem_mem hr n hn x1 x2 hx1L (hMR x2 hx2M) (Or.inr ⟨o2, ho2, h12⟩)
    rw [lLoop_succ] at hrem ⊢
    obtain ⟨X, hXel, hXnd, hXm⟩ := eligible_mem _ _ e.1.X orders x1 x2 hx1L hrem hlc
    have hworst : ∀ (X : List Nat), (∀ z, z ∈ X ↔ (z = x1 ∨ z = x2)) →
        ∀ o ∈ orders, ∃ y ∈ X, ∀ m ∈ M, m ≠ y → lt o m y := by
      intro X hXm o ho
      rcases hwboth o ho with h | h
      · exact ⟨x1, (hXm x1).2 (Or.inl rfl), h⟩
      · exact ⟨x2, (hXm x2).2 (Or.inr rfl), h⟩
    have hsubX : ∀ y ∈ X, y ∈ M := by
      intro y hy
      rcases (hXm y).1 hy with rfl | rfl
      · exact hx1M
      · exact hx2M
    rcases eq_pair_of_mem_iff hXnd hne12 hXm with hX | hX
    · subst hX
      refine ⟨[x1, x2], hXel, hXnd, ?_, hworst _ hXm, hsubX⟩
      rcases hends with ⟨M'', hM⟩ | ⟨M'', hM⟩
      · exact place_pair orders S Fr M M'' Sr Fr' Sr' x1 x2 hS hrank hI hA.bnd (Or.inl hM) hwboth
      · exact place_pair orders S Fr M M'' Sr Fr' Sr' x1 x2 hS hrank hI hA.bnd (Or.inr hM) hwboth
    · subst hX
      refine ⟨[x2, x1], hXel, hXnd, ?_, hworst _ hXm, hsubX⟩
      have hwboth' : ∀ o ∈ orders, (∀ m ∈ M, m ≠ x2 → lt o m x2) ∨ (∀ m ∈ M, m ≠ x1 → lt o m x1) :=
        fun o ho => (hwboth o ho).symm
      rcases hends with ⟨M'', hM⟩ | ⟨M'', hM⟩
      · exact place_pair orders S Fr M M'' Sr Fr' Sr' x2 x1 hS hrank hI hA.bnd (Or.inr hM) hwboth'
      · exact place_pair orders S Fr M M'' Sr Fr' Sr' x2 x1 hS hrank hI hA.bnd (Or.inl hM) hwboth'

end

end PrefVerif.C12Opt
