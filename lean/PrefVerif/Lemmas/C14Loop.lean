import PrefVerif.Lemmas.C14Count
/-!
# C14 helper lemmas, part 3: the level loop, the least-depth search, complete strict profiles
-/
namespace PrefVerif.C14
open PrefVerif PrefVerif.SingleWinner PrefVerif.Spec PrefVerif.Py

/-! ### the level loop -/

theorem levelLoop_bounds (p : Profile) (quota : Int) (fuel pos : Nat) (s : AList Nat Int) :
    pos ≤ (levelLoop p quota fuel pos s).2 ∧ (levelLoop p quota fuel pos s).2 ≤ pos + fuel := by
  induction fuel generalizing pos s with
  | zero => simp [levelLoop]
  | succ fuel ih =>
    unfold levelLoop
    split
    · have := ih (pos + 1) (levelPass p pos s)
      omega
    · simp

/-- some alternative is in the top `k` of at least `q + 1` voters -/
def hitAt (i : Inst) (q k : Nat) : Bool :=
  i.alts.any (fun a => decide (topCount k (votes i.profile) a ≥ q + 1))

theorem levelLoop_spec {i : Inst} (h : WfInst i) (q fuel pos : Nat) (s : AList Nat Int)
    (hs : Reads s (topCount pos (votes i.profile))) :
    Reads (levelLoop i.profile ((q : Int) + 1) fuel pos s).1
        (topCount (levelLoop i.profile ((q : Int) + 1) fuel pos s).2 (votes i.profile)) ∧
      (∀ j, pos ≤ j → j < (levelLoop i.profile ((q : Int) + 1) fuel pos s).2 → hitAt i q j = false) ∧
      ((levelLoop i.profile ((q : Int) + 1) fuel pos s).2 = pos + fuel ∨
        hitAt i q (levelLoop i.profile ((q : Int) + 1) fuel pos s).2 = true) := by
  induction fuel generalizing pos s with
  | zero =>
    simp only [levelLoop, Nat.add_zero, true_or, and_true]
    exact ⟨hs, fun j h1 h2 => by omega⟩
  | succ fuel ih =>
    have hiff := maxValue_lt_iff hs i.alts (fun a ha => topCount_pos_mem h ha) q
    unfold levelLoop
    by_cases hlt : (maxValue s).getD 0 < (q : Int) + 1
    · rw [if_pos hlt]
      obtain ⟨h1, h2, h3⟩ := ih (pos + 1) (levelPass i.profile pos s) (reads_levelPass h hs)
      refine ⟨h1, ?_, ?_⟩
      · intro j hj1 hj2
        by_cases hj : j = pos
        · subst hj; exact hiff.mp hlt
        · exact h2 j (by omega) hj2
      · rcases h3 with h3 | h3
        · left; omega
        · right; exact h3
    · rw [if_neg hlt]
      refine ⟨hs, fun j h1 h2 => by simp at h2; omega, Or.inr ?_⟩
      have : ¬ (hitAt i q pos = false) := fun e => hlt (hiff.mpr e)
      simpa using this

theorem alts_length_pos {i : Inst} (h : WfInst i) : 1 ≤ i.alts.length := by
  obtain ⟨a0, ha0⟩ := exists_topCount_pos h (k := 1) (Nat.le_refl 1)
  have := topCount_pos_mem h ha0
  cases hal : i.alts with
  | nil => rw [hal] at this; simp at this
  | cons => simp

theorem thresholdScores_eq (i : Inst) :
    thresholdScores i =
      levelLoop i.profile (((i.numVoters / 2 : Nat) : Int) + 1) (i.numAlternatives - 1) 1
        (firstScores i.profile) := rfl

theorem thresholdScores_spec {i : Inst} (h : WfInst i) :
    Reads (thresholdScores i).1 (topCount (thresholdScores i).2 (votes i.profile)) ∧
      1 ≤ (thresholdScores i).2 ∧ (thresholdScores i).2 ≤ i.alts.length ∧
      (∀ j, 1 ≤ j → j < (thresholdScores i).2 → hitAt i ((votes i.profile).length / 2) j = false) ∧
      ((thresholdScores i).2 = i.alts.length ∨
        hitAt i ((votes i.profile).length / 2) (thresholdScores i).2 = true) := by
  have hm := alts_length_pos h
  rw [thresholdScores_eq, numVoters_eq]
  obtain ⟨h1, h2, h3⟩ := levelLoop_spec h ((votes i.profile).length / 2) (i.numAlternatives - 1) 1
    (firstScores i.profile) (reads_firstScores h)
  have hb := levelLoop_bounds i.profile ((((votes i.profile).length / 2 : Nat) : Int) + 1)
    (i.numAlternatives - 1) 1 (firstScores i.profile)
  have hna : i.numAlternatives = i.alts.length := rfl
  refine ⟨h1, hb.1, by omega, h2, ?_⟩
  rcases h3 with h3 | h3
  · left; omega
  · right; exact h3

/-! ### least-depth search -/

theorem find?_range' (hit : Nat → Bool) (n s k : Nat) (hsk : s ≤ k) (hkn : k < s + n)
    (hlt : ∀ j, s ≤ j → j < k → hit j = false) (hk : hit k = true) :
    (List.range' s n).find? hit = some k := by
  induction n generalizing s with
  | zero => omega
  | succ n ih =>
    rw [List.range'_succ, List.find?_cons]
    by_cases hs : s = k
    · subst hs; simp [hk]
    · rw [hlt s (Nat.le_refl s) (by omega)]
      exact ih (s + 1) (by omega) (by omega) (fun j h1 h2 => hlt j (by omega) h2)

theorem map_range_eq (m : Nat) : (List.range m).map (· + 1) = List.range' 1 m := by
  rw [List.range'_eq_map_range]
  apply List.map_congr_left
  intro a _
  omega

theorem find?_depth (hit : Nat → Bool) (m k : Nat) (h1 : 1 ≤ k) (hkm : k ≤ m)
    (hlt : ∀ j, 1 ≤ j → j < k → hit j = false) (hor : k = m ∨ hit k = true) :
    (((List.range m).map (· + 1)).find? hit).getD m = k := by
  rw [map_range_eq]
  by_cases hk : hit k = true
  · rw [find?_range' hit m 1 k h1 (by omega) hlt hk]; rfl
  · have hkm' : k = m := by
      rcases hor with e | e
      · exact e
      · exact absurd e hk
    subst hkm'
    have : (List.range' 1 k).find? hit = none := by
      rw [List.find?_eq_none]
      intro x hx
      rw [List.mem_range'_1] at hx
      by_cases hxk : x = k
      · subst hxk; exact hk
      · rw [hlt x hx.1 (by omega)]; simp
    rw [this]; rfl

theorem thresholdDepth_eq (i : Inst) :
    thresholdDepth i.alts (votes i.profile) i.numAlternatives =
      ((List.range i.alts.length).map (· + 1)).find? (hitAt i ((votes i.profile).length / 2)) := rfl

theorem thresholdWinners_eq (i : Inst) :
    thresholdWinners i.alts (votes i.profile) =
      argmaxSet i.alts (fun a => topCount
        ((thresholdDepth i.alts (votes i.profile) i.numAlternatives).getD i.numAlternatives)
        (votes i.profile) a) := rfl

theorem argmaxKeys_thresholdScores {i : Inst} (h : WfInst i) :
    ∃ ws, argmaxKeys (thresholdScores i).1 = some ws ∧
      ∀ a, a ∈ ws ↔ a ∈ argmaxSet i.alts (fun a => topCount (thresholdScores i).2 (votes i.profile) a) := by
  obtain ⟨hr, h1, _⟩ := thresholdScores_spec h
  exact argmaxKeys_reads hr i.alts (fun a ha => topCount_pos_mem h ha) (exists_topCount_pos h h1)

/-! ### complete strict profiles -/

theorem subset_of_nodup_length (l alts : List Nat) (hl : l.Nodup) (hsub : ∀ a ∈ l, a ∈ alts)
    (hlen : alts.length ≤ l.length) : ∀ a ∈ alts, a ∈ l := by
  induction l generalizing alts with
  | nil =>
    intro a ha
    cases alts with
    | nil => exact ha
    | cons => simp at hlen
  | cons x l ih =>
    rw [List.nodup_cons] at hl
    have hx : x ∈ alts := hsub x (List.mem_cons_self ..)
    have ih' := ih (alts.erase x) hl.2
      (fun a ha => by
        have hne : a ≠ x := fun e => hl.1 (e ▸ ha)
        exact (List.mem_erase_of_ne hne).mpr (hsub a (List.mem_cons_of_mem _ ha)))
      (by rw [List.length_erase_of_mem hx]; simp at hlen; omega)
    intro a ha
    by_cases hax : a = x
    · subst hax; exact List.mem_cons_self ..
    · exact List.mem_cons_of_mem _ (ih' a ((List.mem_erase_of_ne hax).mpr ha))

theorem heads_eq_flatten_of_strict (o : Order) (h : isStrictOrder o = true) : heads o = o.flatten := by
  induction o with
  | nil => rfl
  | cons c o ih =>
    simp only [isStrictOrder, List.all_cons, Bool.and_eq_true, beq_iff_eq] at h
    have ih' := ih (by simpa [isStrictOrder] using h.2)
    match c, h.1 with
    | [x], _ =>
      simp only [heads, List.map_cons, List.headD_cons, List.flatten_cons] at ih' ⊢
      rw [ih']; rfl

theorem soc_of_truthful {i : Inst} (ht : i.dataType = typeOf i.alts i.profile)
    (hd : i.dataType = "soc") :
    ∀ om ∈ i.profile, isStrictOrder om.1 = true ∧ isCompleteOrder i.alts om.1 = true := by
  rw [hd] at ht
  unfold typeOf at ht
  simp only at ht
  split at ht
  · rename_i hsc
    simp only [Bool.and_eq_true, List.all_eq_true] at hsc
    exact fun om hom => ⟨hsc.1 om hom, hsc.2 om hom⟩
  · split at ht
    · exact absurd ht (by decide)
    · split at ht
      · exact absurd ht (by decide)
      · exact absurd ht (by decide)

theorem inTop_full {i : Inst} (h : WfInst i) {om : Order × Nat} (hom : om ∈ i.profile)
    (hs : isStrictOrder om.1 = true) (hc : isCompleteOrder i.alts om.1 = true) {a : Nat}
    (ha : a ∈ i.alts) : inTop i.alts.length om.1 a = true := by
  have hwo := h.ord om hom
  have hf := heads_eq_flatten_of_strict om.1 hs
  simp only [isCompleteOrder, beq_iff_eq] at hc
  rw [inTop_iff, hf, ← hc, List.take_length]
  exact subset_of_nodup_length _ _ hwo.nodup hwo.sub (by omega) a ha

theorem hitAt_full {i : Inst} (h : WfInst i)
    (hsc : ∀ om ∈ i.profile, isStrictOrder om.1 = true ∧ isCompleteOrder i.alts om.1 = true) :
    hitAt i ((votes i.profile).length / 2) i.alts.length = true := by
  have hm := alts_length_pos h
  cases hal : i.alts with
  | nil => rw [hal] at hm; simp at hm
  | cons a0 rest =>
    have ha0 : a0 ∈ i.alts := by rw [hal]; exact List.mem_cons_self ..
    have hall : topCount i.alts.length (votes i.profile) a0 = (votes i.profile).length := by
      unfold topCount
      rw [List.countP_eq_length]
      intro o ho
      obtain ⟨om, hom, rfl, _⟩ := mem_votes ho
      exact inTop_full h hom (hsc om hom).1 (hsc om hom).2 ha0
    have hv : 1 ≤ (votes i.profile).length := by
      cases hp : i.profile with
      | nil => exact absurd hp h.ne
      | cons om p =>
        have hom : om ∈ i.profile := by rw [hp]; exact List.mem_cons_self ..
        have := mem_votes_of_mem hom (h.mult om hom)
        rw [← hp]
        exact List.length_pos_of_mem this
    rw [← hal]
    unfold hitAt
    rw [List.any_eq_true]
    refine ⟨a0, ha0, ?_⟩
    rw [hall]
    simp only [decide_eq_true_eq]
    omega

end PrefVerif.C14
