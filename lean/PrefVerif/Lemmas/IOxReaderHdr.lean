import PrefVerif.Lemmas.IOReaderHdr
/-!
# The independent reader on `# CATEGORY NAME k: name` lines
-/
namespace PrefVerif.IOL
open PrefVerif.Py PrefVerif.InstanceIO PrefVerif.Spec.Format

/-- category-name lines are not plain header fields -/
theorem filter_fields_kvNumbered_cat (names : AList Nat Str) :
    (kvNumbered "CATEGORY NAME " names).filter (fun kv => (numberedKey "ALTERNATIVE NAME " kv.1).isNone
      && (numberedKey "CATEGORY NAME " kv.1).isNone) = [] := by
  apply List.filter_eq_nil_iff.2
  intro kv hkv
  obtain ⟨x, _, rfl⟩ := List.mem_map.1 hkv
  have := numberedKey_numbered "CATEGORY NAME " x.1
  simp only [this, Option.isNone_some, Bool.and_false, Bool.false_eq_true, not_false_eq_true]

/-- key/value pairs of numbered lines with an arbitrary `# PREFIX ` -/
theorem map_keyValue_numberedLines (p : String) (hp : ∀ c ∈ p.toList, c ≠ ':') (names : AList Nat Str) :
    (names.map (numberedLine ('#' :: ' ' :: p.toList))).map keyValue = kvNumbered p names := by
  simp only [kvNumbered, List.map_map]
  apply List.map_congr_left
  intro kv _
  exact keyValue_numberedLine p.toList hp kv

end PrefVerif.IOL
