import PrefVerif.Lemmas.C12OptDefs
import PrefVerif.Lemmas.C12OptPlace
import PrefVerif.Lemmas.C12OptValleyAux
/-!
# C12Opt, part 2: the single-peaked axis followed by the dynamic programme

Placing the alternatives ranked last among the unplaced ones (`M`): the tests of `place` pass and the
decision taken is compatible with a single-peaked axis of `S` (possibly after reflecting `M`).
-/
namespace PrefVerif.C12Opt
open PrefVerif PrefVerif.KAlt PrefVerif.C12DP PrefVerif.C03 PrefVerif.C03c

/-- when both flags of `case_3` are raised, `x` is the only unplaced alternative -/
theorem single_both {orders : List (List Nat)} {Fr M Sr : List Nat} {x : Nat}
    (hV : Valid orders (Fr.reverse ++ M ++ Sr)) (hMn : M.Nodup) (hx : x ∈ M)
    (hw : ∀ o ∈ orders, ∀ m ∈ M, m ≠ x → lt o m x)
    (hfc : orders.any (fun v => above v Sr.head? x) = true)
    (hfd : orders.any (fun v => above v Fr.head? x) = true) : M = [x] := by
  obtain ⟨v1, hv1, hab1⟩ := List.any_eq_true.1 hfd
  obtain ⟨b1, hb1, hlt1⟩ := (above_iff _ _ _).1 hab1
  obtain ⟨v2, hv2, hab2⟩ := List.any_eq_true.1 hfc
  obtain ⟨b2, hb2, hlt2⟩ := (above_iff _ _ _).1 hab2
  obtain ⟨M2, h2⟩ := worst_at_last (hV v1 hv1) hMn hx (hw v1 hv1) (head?_mem_reverse hb1) hlt1
  obtain ⟨M1, h1⟩ := worst_at_head (hV v2 hv2) hMn hx (hw v2 hv2) (head?_mem hb2) hlt2
  by_cases hlen : 2 ≤ M.length
  · exact (head_last_false hMn hlen h1 h2).elim
  · rw [h1] at hlen ⊢
    cases M1 with
    | nil => rfl
    | cons a M1 => simp at hlen

/-- the decision of `case_3` is compatible with a single-peaked axis -/
theorem single_ideal (orders : List (List Nat)) (S Fr M Sr : List Nat) (x : Nat) (hS : S.Nodup)
    (hrank : ∀ o ∈ orders, ∀ a ∈ S, a ∈ o) (hI : Ideal orders S Fr M Sr) (hx : x ∈ M)
    (hw : ∀ o ∈ orders, ∀ m ∈ M, m ≠ x → lt o m x) :
    ∃ M2, (x :: M2).Perm M ∧
      (if orders.any (fun v => above v Fr.head? x) then Ideal orders S Fr M2 (x :: Sr)
        else Ideal orders S (x :: Fr) M2 Sr) := by
  have hnd : (Fr.reverse ++ M ++ Sr).Nodup := hI.1.nodup_iff.2 hS
  have hMn : M.Nodup := nodup_mid hnd
  have hmem : ∀ o ∈ orders, ∀ a ∈ Fr.reverse ++ M ++ Sr, a ∈ o := fun o ho a ha =>
    hrank o ho a (hI.1.mem_iff.1 ha)
  by_cases hfd : orders.any (fun v => above v Fr.head? x) = true
  · simp only [if_pos hfd]
    obtain ⟨v, hv, hab⟩ := List.any_eq_true.1 hfd
    obtain ⟨b1, hb1, hlt⟩ := (above_iff _ _ _).1 hab
    obtain ⟨M', rfl⟩ := worst_at_last (hI.2 v hv) hMn hx (hw v hv) (head?_mem_reverse hb1) hlt
    refine ⟨M', (List.perm_append_singleton x M').symm, ?_⟩
    unfold Ideal at hI ⊢
    simpa using hI
  · simp only [if_neg hfd]
    by_cases hne : orders = []
    · subst hne
      refine ⟨M.erase x, (List.perm_cons_erase hx).symm, ?_, fun o ho => by cases ho⟩
      refine List.Perm.trans ?_ hI.1
      have hp : (x :: M.erase x).Perm M := (List.perm_cons_erase hx).symm
      have : ((x :: Fr).reverse ++ M.erase x ++ Sr) = Fr.reverse ++ (x :: M.erase x) ++ Sr := by simp
      rw [this]
      exact ((List.Perm.refl _).append hp).append (List.Perm.refl _)
    · obtain ⟨o, ho⟩ := List.exists_mem_of_ne_nil _ hne
      have same : ∀ M', M = x :: M' → ∃ M2, (x :: M2).Perm M ∧ Ideal orders S (x :: Fr) M2 Sr := by
        rintro M' rfl
        refine ⟨M', List.Perm.refl _, ?_⟩
        unfold Ideal at hI ⊢
        simpa using hI
      rcases worst_at_end (hI.2 o ho) hMn hx (hw o ho) with ⟨M', hM'⟩ | ⟨M', hM'⟩
      · exact same M' hM'
      · cases M' with
        | nil => exact same [] hM'
        | cons z M'' =>
          subst hM'
          have hzx : z ≠ x := by
            intro e; subst e; simp at hMn
          have hrefl := reflect_valid hI.1 hI.2 (fun o' ho' => by
            refine reflect_hyps (hI.2 o' ho') hnd (hmem o' ho') hx (hw o' ho') ?_ ?_
            · intro b1 hb1
              apply above_left hnd (hmem o' ho') hb1 hx
              intro hlt
              apply hfd
              exact List.any_eq_true.2 ⟨o', ho', (above_iff _ _ _).2 ⟨b1, hb1, hlt⟩⟩
            · intro b2 hb2
              apply above_right hnd (hmem o' ho') hb2 hx
              intro hlt
              have hz : lt o' z x := hw o' ho' z (by simp) hzx
              obtain ⟨u, rfl⟩ : ∃ u, Sr = b2 :: u := by
                cases Sr with
                | nil => simp at hb2
                | cons s u => simp at hb2; exact ⟨u, by rw [hb2]⟩
              exact hI.2 o' ho' (Fr.reverse ++ z :: M'') x (b2 :: u) z b2 (by simp) (by simp) (by simp)
                ⟨hz, hlt⟩)
          refine ⟨(z :: M'').reverse, ?_, ?_⟩
          · exact ((List.reverse_perm _).cons x).trans (List.perm_append_singleton x _).symm
          · unfold Ideal
            simpa using hrefl

/-- one alternative `x` is ranked last among `M` by every order -/
theorem single_step (orders : List (List Nat)) (S Fr M Sr : List Nat) (x : Nat) (hS : S.Nodup)
    (hrank : ∀ o ∈ orders, ∀ a ∈ S, a ∈ o) (hI : Ideal orders S Fr M Sr) (hx : x ∈ M)
    (hw : ∀ o ∈ orders, ∀ m ∈ M, m ≠ x → lt o m x) :
    (∀ v ∈ orders, noExit (bndOf Fr Sr) v x) ∧
    ∃ M2, (x :: M2).Perm M ∧
      (if orders.any (fun v => above v Fr.head? x) then Ideal orders S Fr M2 (x :: Sr)
        else Ideal orders S (x :: Fr) M2 Sr) ∧
      ((orders.any (fun v => above v Sr.head? x) && orders.any (fun v => above v Fr.head? x)) = true →
        M2 = []) := by
  have hnd : (Fr.reverse ++ M ++ Sr).Nodup := hI.1.nodup_iff.2 hS
  refine ⟨noExit_mem hI.2 hx, ?_⟩
  obtain ⟨M2, hp, hid⟩ := single_ideal orders S Fr M Sr x hS hrank hI hx hw
  refine ⟨M2, hp, hid, fun hboth => ?_⟩
  rw [Bool.and_eq_true] at hboth
  have hMx := single_both hI.2 (nodup_mid hnd) hx hw hboth.1 hboth.2
  have hlen := hp.length_eq
  rw [hMx] at hlen
  simp only [List.length_cons, List.length_nil] at hlen
  exact List.eq_nil_of_length_eq_zero (by omega)

/-- two alternatives `x1`, `x2` (the two ends of `M`) are ranked last among `M` -/
theorem pair_step (orders : List (List Nat)) (S Fr M M' Sr : List Nat) (x1 x2 : Nat) (hS : S.Nodup)
    (hrank : ∀ o ∈ orders, ∀ a ∈ S, a ∈ o) (hI : Ideal orders S Fr M Sr)
    (hM : M = x1 :: (M' ++ [x2]) ∨ M = x2 :: (M' ++ [x1]))
    (hw : ∀ o ∈ orders, (∀ m ∈ M, m ≠ x1 → lt o m x1) ∨ (∀ m ∈ M, m ≠ x2 → lt o m x2)) :
    (∀ v ∈ orders, noExit (bndOf Fr Sr) v x1) ∧ (∀ v ∈ orders, noExit (bndOf Fr Sr) v x2) ∧
    (¬ ((fC orders Sr.head? x1 x2 && fC orders Fr.head? x1 x2) ||
      (fC orders Sr.head? x2 x1 && fC orders Fr.head? x2 x1) ||
      (fC orders Sr.head? x1 x2 && fC orders Sr.head? x2 x1) ||
      (fC orders Fr.head? x1 x2 && fC orders Fr.head? x2 x1)) = true) ∧
    ∃ M2, (x1 :: x2 :: M2).Perm M ∧
      (if fC orders Sr.head? x2 x1 || fC orders Fr.head? x1 x2 then Ideal orders S (x2 :: Fr) M2 (x1 :: Sr)
        else Ideal orders S (x1 :: Fr) M2 (x2 :: Sr)) := by
  have hnd : (Fr.reverse ++ M ++ Sr).Nodup := hI.1.nodup_iff.2 hS
  have hMn : M.Nodup := nodup_mid hnd
  have hmem : ∀ o ∈ orders, ∀ a ∈ Fr.reverse ++ M ++ Sr, a ∈ o := fun o ho a ha =>
    hrank o ho a (hI.1.mem_iff.1 ha)
  have hx1 : x1 ∈ M := by rcases hM with rfl | rfl <;> simp
  have hx2 : x2 ∈ M := by rcases hM with rfl | rfl <;> simp
  have hne : x1 ≠ x2 := by
    intro e; subst e
    rcases hM with rfl | rfl <;> simp at hMn
  refine ⟨noExit_mem hI.2 hx1, noExit_mem hI.2 hx2, ?_⟩
  rcases hM with rfl | rfl
  · -- aligned
    have e1 : fC orders Sr.head? x2 x1 = false := by
      rw [Bool.eq_false_iff]
      intro hf
      obtain ⟨v, hv, b, hb, h1, h2⟩ := (fC_iff _ _ _ _).1 hf
      cases Sr with
      | nil => simp at hb
      | cons s u =>
        simp only [List.head?_cons, Option.some.injEq] at hb
        subst hb
        exact hI.2 v hv (Fr.reverse ++ x1 :: M') x2 (s :: u) x1 s (by simp) (by simp) (by simp)
          ⟨h2, h1⟩
    have e2 : fC orders Fr.head? x1 x2 = false := by
      rw [Bool.eq_false_iff]
      intro hf
      obtain ⟨v, hv, b, hb, h1, h2⟩ := (fC_iff _ _ _ _).1 hf
      cases Fr with
      | nil => simp at hb
      | cons f t =>
        simp only [List.head?_cons, Option.some.injEq] at hb
        subst hb
        exact hI.2 v hv (t.reverse ++ [f]) x1 (M' ++ [x2] ++ Sr) f x2 (by simp) (by simp) (by simp)
          ⟨h1, h2⟩
    refine ⟨by simp [e1, e2], M', (List.perm_append_singleton x2 M').symm.cons x1, ?_⟩
    simp only [e1, e2, Bool.or_self, Bool.false_eq_true, if_false]
    unfold Ideal at hI ⊢
    simpa using hI
  · -- anti-aligned
    have e1 : fC orders Sr.head? x1 x2 = false := by
      rw [Bool.eq_false_iff]
      intro hf
      obtain ⟨v, hv, b, hb, h1, h2⟩ := (fC_iff _ _ _ _).1 hf
      cases Sr with
      | nil => simp at hb
      | cons s u =>
        simp only [List.head?_cons, Option.some.injEq] at hb
        subst hb
        exact hI.2 v hv (Fr.reverse ++ x2 :: M') x1 (s :: u) x2 s (by simp) (by simp) (by simp)
          ⟨h2, h1⟩
    have e2 : fC orders Fr.head? x2 x1 = false := by
      rw [Bool.eq_false_iff]
      intro hf
      obtain ⟨v, hv, b, hb, h1, h2⟩ := (fC_iff _ _ _ _).1 hf
      cases Fr with
      | nil => simp at hb
      | cons f t =>
        simp only [List.head?_cons, Option.some.injEq] at hb
        subst hb
        exact hI.2 v hv (t.reverse ++ [f]) x2 (M' ++ [x1] ++ Sr) f x1 (by simp) (by simp) (by simp)
          ⟨h1, h2⟩
    refine ⟨by simp [e1, e2], ?_⟩
    by_cases hc : (fC orders Sr.head? x2 x1 || fC orders Fr.head? x1 x2) = true
    · refine ⟨M', (List.Perm.swap x2 x1 M').trans ((List.perm_append_singleton x1 M').symm.cons x2), ?_⟩
      rw [if_pos hc]
      unfold Ideal at hI ⊢
      simpa using hI
    · have hc1 : ¬ fC orders Sr.head? x2 x1 = true := fun h => hc (by simp [h])
      have hc2 : ¬ fC orders Fr.head? x1 x2 = true := fun h => hc (by simp [h])
      have hrefl := reflect_valid hI.1 hI.2 (fun o ho => by
        have hV := hI.2 o ho
        rcases hw o ho with hw1 | hw2
        · -- `x1` is ranked last
          have h21 : lt o x2 x1 := hw1 x2 hx2 (fun e => hne e.symm)
          refine reflect_hyps hV hnd (hmem o ho) hx1 hw1 ?_ ?_
          · intro b1 hb1
            apply above_left hnd (hmem o ho) hb1 hx1
            intro hlt
            exact hc2 ((fC_iff _ _ _ _).2 ⟨o, ho, b1, hb1, hlt, h21⟩)
          · intro b2 hb2
            apply above_right hnd (hmem o ho) hb2 hx1
            intro hlt
            obtain ⟨u, rfl⟩ : ∃ u, Sr = b2 :: u := by
              cases Sr with
              | nil => simp at hb2
              | cons s u => simp at hb2; exact ⟨u, by rw [hb2]⟩
            exact hV (Fr.reverse ++ x2 :: M') x1 (b2 :: u) x2 b2 (by simp) (by simp) (by simp)
              ⟨h21, hlt⟩
        · -- `x2` is ranked last
          have h12 : lt o x1 x2 := hw2 x1 hx1 hne
          refine reflect_hyps hV hnd (hmem o ho) hx2 hw2 ?_ ?_
          · intro b1 hb1
            apply above_left hnd (hmem o ho) hb1 hx2
            intro hlt
            obtain ⟨t, rfl⟩ : ∃ t, Fr = b1 :: t := by
              cases Fr with
              | nil => simp at hb1
              | cons f t => simp at hb1; exact ⟨t, by rw [hb1]⟩
            exact hV (t.reverse ++ [b1]) x2 (M' ++ [x1] ++ Sr) b1 x1 (by simp) (by simp) (by simp)
              ⟨hlt, h12⟩
          · intro b2 hb2
            apply above_right hnd (hmem o ho) hb2 hx2
            intro hlt
            exact hc1 ((fC_iff _ _ _ _).2 ⟨o, ho, b2, hb2, hlt, h12⟩))
      refine ⟨M'.reverse, ?_, ?_⟩
      · exact (((List.reverse_perm M').cons x2).cons x1).trans
          ((List.Perm.swap x2 x1 M').trans ((List.perm_append_singleton x1 M').symm.cons x2))
      · rw [if_neg hc]
        unfold Ideal
        simpa using hrefl

end PrefVerif.C12Opt
