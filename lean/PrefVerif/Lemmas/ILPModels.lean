import PrefVerif.Lemmas.ILPCons
import PrefVerif.Lemmas.ILPPos
import PrefVerif.Props.C11
/-!
# ILP helper lemmas, part 5: the consecutive-ones blocks of the three models

Given an assignment whose `leftOf` variables encode a permutation `ax` of `range m`: the plain block
says every row of the matrix is contiguous on `ax`; the voter-deletion block says so for the rows of
the voters whose deletion variable is 0.
-/
namespace PrefVerif.ILPP
open PrefVerif PrefVerif.ILP PrefVerif.Spec PrefVerif.C11 PrefVerif.SinglePeakedAxis

variable {asg : Var → Rat}

theorem relaxSum_nil : relaxSum asg [] = 0 := rfl

theorem relaxSum_singleton (v : Var) : relaxSum asg [v] = asg v := by
  simp only [relaxSum, List.map, List.sum_cons, List.sum_nil]; grind

theorem mem_of_perm_range {m : Nat} {ax : List Nat} (hp : ax.Perm (List.range m)) {a : Nat} :
    a ∈ ax ↔ a < m := by
  rw [hp.mem_iff, List.mem_range]

/-- a row without relaxation, or with a relaxation variable at 0 -/
theorem sat_row_plain {m : Nat} {ax : List Nat} (hp : ax.Perm (List.range m)) (hE : Encodes asg ax)
    (hbin : ∀ a b, a < m → b < m → Bin (asg (.leftOf a b))) (r : List Nat)
    (relax : Nat → Nat → Nat → List Var) (h0 : ∀ i j k, relaxSum asg (relax i j k) = 0) :
    Sat asg (consOnesRow m r relax) ↔ Contiguous ax r := by
  refine sat_row_iff (hp.nodup_iff.2 List.nodup_range) hE hbin
    (fun a ha => (mem_of_perm_range hp).1 ha) r relax (fun i j k hi hj hk => Or.inl ?_)
  exact ⟨h0 i j k, (mem_of_perm_range hp).2 hi, (mem_of_perm_range hp).2 hj, (mem_of_perm_range hp).2 hk⟩

theorem sat_consOnesCstr_iff (alts : List Nat) (orders : List Order) {ax : List Nat}
    (hp : ax.Perm (List.range alts.length)) (hE : Encodes asg ax)
    (hbin : ∀ a b, a < alts.length → b < alts.length → Bin (asg (.leftOf a b))) :
    Sat asg (consOnesCstr alts orders) ↔ ∀ r ∈ consOnesRows alts orders, Contiguous ax r := by
  unfold consOnesCstr
  rw [sat_flatMap]
  exact forall_congr' (fun r => forall_congr' (fun _ =>
    sat_row_plain hp hE hbin r _ (fun _ _ _ => relaxSum_nil)))

/-- the blocks of the three models -/
theorem sat_model_iff (A B C D : List Constr) :
    Sat asg (A ++ B ++ C ++ D) ↔ Sat asg A ∧ Sat asg B ∧ Sat asg C ∧ Sat asg D := by
  simp only [sat_append]
  exact ⟨fun h => ⟨h.1.1.1, h.1.1.2, h.1.2, h.2⟩, fun h => ⟨⟨⟨h.1, h.2.1⟩, h.2.2.1⟩, h.2.2.2⟩⟩

/-! ### voter deletion -/

theorem mem_consOnesRows_iff (alts : List Nat) (orders : List Order) (r : List Nat) :
    r ∈ consOnesRows alts orders ↔ ∃ o ∈ orders, r ∈ consOnesRows alts [o] := by
  simp [consOnesRows]

theorem mem_zipIdx_lt {α : Type} {l : List α} {x : α} {i : Nat} (h : (x, i) ∈ l.zipIdx) :
    i < l.length ∧ x ∈ l := by
  have := List.mem_zipIdx_iff_getElem?.1 h
  simp only at this
  obtain ⟨hlt, he⟩ := List.getElem?_eq_some_iff.1 this
  exact ⟨hlt, he ▸ List.getElem_mem _⟩

theorem sat_votDel_iff (alts : List Nat) (orders : List Order) {ax : List Nat}
    (hp : ax.Perm (List.range alts.length)) (hE : Encodes asg ax)
    (hbin : ∀ a b, a < alts.length → b < alts.length → Bin (asg (.leftOf a b)))
    (hdel : ∀ v, v < orders.length → Bin (asg (.delVoter v))) :
    Sat asg (consOnesVotDelCstr alts orders) ↔
      ∀ r ∈ consOnesRows alts
        ((orders.zipIdx.filter (fun oi => decide (asg (.delVoter oi.2) = 0))).map (·.1)),
        Contiguous ax r := by
  unfold consOnesVotDelCstr rowsWithVoter
  simp only [sat_flatMap, List.mem_flatMap, List.mem_map]
  constructor
  · intro h r hr
    obtain ⟨o, ho, hro⟩ := (mem_consOnesRows_iff alts _ r).1 hr
    obtain ⟨⟨o', v⟩, hov, rfl⟩ := List.mem_map.1 ho
    obtain ⟨hmem, hd⟩ := List.mem_filter.1 hov
    have hd0 : asg (.delVoter v) = 0 := by simpa using hd
    have := h (r, v) ⟨(o', v), hmem, r, hro, rfl⟩
    exact (sat_row_plain hp hE hbin r _ (fun _ _ _ => by rw [relaxSum_singleton]; exact hd0)).1 this
  · rintro h ⟨r, v⟩ ⟨⟨o, v'⟩, hmem, r', hr', he⟩
    obtain ⟨rfl, rfl⟩ := Prod.mk.inj he
    rcases hdel v' (mem_zipIdx_lt hmem).1 with hd0 | hd1
    · refine (sat_row_plain hp hE hbin r' _ (fun _ _ _ => by rw [relaxSum_singleton]; exact hd0)).2 ?_
      apply h r'
      refine (mem_consOnesRows_iff alts _ r').2 ⟨o, ?_, hr'⟩
      exact List.mem_map.2 ⟨(o, v'), List.mem_filter.2 ⟨hmem, by simpa using hd0⟩, rfl⟩
    · exact sat_row_of_relaxed hbin r' _ (fun _ _ _ => by rw [relaxSum_singleton, hd1]; grind)

theorem ofAxis_delVoter_bin (ax dv da : List Nat) (v : Nat) : Bin (ofAxis ax dv da (.delVoter v)) := by
  show Bin (if dv.contains v then 1 else 0)
  unfold Bin; split <;> simp

theorem keptVoters_subset (orders : List Order) (f : Order × Nat → Bool) :
    ∀ o ∈ (orders.zipIdx.filter f).map (·.1), o ∈ orders := by
  intro o ho
  obtain ⟨⟨o', v⟩, hov, rfl⟩ := List.mem_map.1 ho
  exact (mem_zipIdx_lt (List.mem_filter.1 hov).1).2

/-- under the assignment of an axis with deleted voters, "deletion variable = 0" is "not deleted" -/
theorem keptVoters_ofAxis (orders : List Order) (ax dv da : List Nat) :
    orders.zipIdx.filter (fun oi => decide (ofAxis ax dv da (.delVoter oi.2) = 0)) =
      orders.zipIdx.filter (fun oi => !dv.contains oi.2) := by
  apply List.filter_congr
  intro oi _
  show decide ((if dv.contains oi.2 then (1 : Rat) else 0) = 0) = !dv.contains oi.2
  cases dv.contains oi.2 <;> simp

end PrefVerif.ILPP
