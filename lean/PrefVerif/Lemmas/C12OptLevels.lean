import PrefVerif.Lemmas.C12OptDefs
import PrefVerif.Lemmas.C12OptElig
/-!
# C12Opt, part 4: the sets `L[i]` of `get_L_sets` relative to the original orders
-/
namespace PrefVerif.C12Opt
open PrefVerif PrefVerif.KAlt PrefVerif.C12DP PrefVerif.C03 PrefVerif.C03c PrefVerif.C18BF

/-- state of `get_L_sets` before a round (`R`: alternatives not yet assigned to an `L` set), with the working
copies of the votes being the original orders filtered -/
structure LState (alts : List Nat) (orders vc : List (List Nat)) (prev : PySet Nat) (R : List Nat) : Prop where
  inv : LInv alts vc prev R
  src : ∃ q : Nat → Bool, vc = orders.map (fun o => o.filter q)

/-! ### helper lemmas -/

/-- only the lowest-ranked remaining alternatives of the votes are collected -/
theorem lRound_mem_last (alts : List Nat) (prev : PySet Nat) (vs : List (List Nat)) (last : PySet Nat) (a : Nat)
    (h : a ∈ (lRound alts prev vs last).2.elems) :
    a ∈ last.elems ∨ ∃ v ∈ vs, (v.filter (roundFilter alts prev)).getLast? = some a := by
  induction vs generalizing last with
  | nil => exact Or.inl h
  | cons w ws ih =>
    rw [lRound_eq] at h
    rcases ih _ h with h | ⟨v, hv, hav⟩
    · split at h
      · rename_i x hx
        rcases mem_add_elems natKey last x a h with h | h
        · exact Or.inl h
        · subst h
          exact Or.inr ⟨w, by simp, hx⟩
      · exact Or.inl h
    · exact Or.inr ⟨v, by simp [hv], hav⟩

/-- the last element passing a filter is ranked below all the others passing it -/
theorem lt_of_getLast_filter {o : List Nat} {p : Nat → Bool} {x a : Nat}
    (hl : (o.filter p).getLast? = some x) (hn : o.Nodup) (ha : a ∈ o) (hp : p a = true) (hax : a ≠ x) :
    lt o a x := by
  rw [List.getLast?_eq_some_iff] at hl
  obtain ⟨ys, hys⟩ := hl
  have hs : (ys ++ [x]).Sublist o := by rw [← hys]; exact List.filter_sublist
  apply sublist_rank hs hn
  have : a ∈ o.filter p := List.mem_filter.2 ⟨ha, hp⟩
  rw [hys] at this
  simpa [hax] using this

theorem level_nodup (alts : List Nat) (prev : PySet Nat) (vc : List (List Nat)) :
    (lRound alts prev vc PySet.empty).2.elems.Nodup :=
  lRound_nodup _ _ _ _ (by simp [PySet.empty])

theorem level_sub {alts : List Nat} {vc : List (List Nat)} {prev : PySet Nat} {R : List Nat}
    (h : LInv alts vc prev R) : ∀ a ∈ (lRound alts prev vc PySet.empty).2.elems, a ∈ R := by
  intro a ha
  rcases lRound_mem _ _ _ _ a ha with h' | ⟨v, hv, hav⟩
  · simp [PySet.empty] at h'
  · rw [List.mem_filter, roundFilter_iff] at hav
    exact h.only v hv a hav.1 hav.2.2 hav.2.1

theorem level_perm {alts : List Nat} {vc : List (List Nat)} {prev : PySet Nat} {R : List Nat}
    (h : LInv alts vc prev R) :
    ((lRound alts prev vc PySet.empty).2.elems ++
      R.filter (fun i => !(lRound alts prev vc PySet.empty).2.elems.contains i)).Perm R :=
  perm_append_filter_not' _ R (level_nodup alts prev vc) (level_sub h) h.nd

theorem LInv_next {alts : List Nat} {vc : List (List Nat)} {prev : PySet Nat} {R : List Nat}
    (h : LInv alts vc prev R) :
    LInv alts (lRound alts prev vc PySet.empty).1 (lRound alts prev vc PySet.empty).2
      (R.filter (fun i => !(lRound alts prev vc PySet.empty).2.elems.contains i)) := by
  generalize hr : lRound alts prev vc PySet.empty = r
  have hfst : r.1 = vc.map (fun v => v.filter (roundFilter alts prev)) := by rw [← hr, lRound_fst]
  refine ⟨?_, ?_, ?_, ?_, ?_⟩
  · rw [hfst]
    intro e
    exact h.ne (List.map_eq_nil_iff.1 e)
  · intro v hv a ha
    rw [hfst, List.mem_map] at hv
    obtain ⟨v0, hv0, rfl⟩ := hv
    have haR : a ∈ R := (List.mem_filter.1 ha).1
    rw [List.mem_filter, roundFilter_iff]
    exact ⟨h.all v0 hv0 a haR, h.sub a haR⟩
  · intro v hv a ha hal hnl
    rw [hfst, List.mem_map] at hv
    obtain ⟨v0, hv0, rfl⟩ := hv
    rw [List.mem_filter, roundFilter_iff] at ha
    rw [List.mem_filter]
    exact ⟨h.only v0 hv0 a ha.1 hal ha.2.1, by simpa using hnl⟩
  · intro a ha
    rw [List.mem_filter] at ha
    exact ⟨by simpa using ha.2, (h.sub a ha.1).2⟩
  · exact h.nd.sublist List.filter_sublist

/-- the round in terms of the original orders: `L[i]` consists of the alternatives ranked last among the
unassigned ones (those passing `p`) by some order -/
theorem LState.desc {alts : List Nat} {orders vc : List (List Nat)} {prev : PySet Nat} {R : List Nat}
    (h : LState alts orders vc prev R) :
    ∃ p : Nat → Bool, orders ≠ [] ∧ (∀ o ∈ orders, ∀ a ∈ R, a ∈ o ∧ p a = true) ∧
      (∀ o ∈ orders, ∀ a ∈ o, p a = true → a ∈ R) ∧
      ∀ x, x ∈ (lRound alts prev vc PySet.empty).2.elems ↔
        ∃ o ∈ orders, (o.filter p).getLast? = some x := by
  obtain ⟨inv, q, hq⟩ := h
  subst hq
  refine ⟨fun a => roundFilter alts prev a && q a, ?_, ?_, ?_, ?_⟩
  · intro e; apply inv.ne; simp [e]
  · intro o ho a ha
    have h1 := inv.all (o.filter q) (List.mem_map.2 ⟨o, ho, rfl⟩) a ha
    rw [List.mem_filter] at h1
    have h2 := (roundFilter_iff alts prev a).2 (inv.sub a ha)
    exact ⟨h1.1, by simp [h1.2, h2]⟩
  · intro o ho a ha hp
    simp only [Bool.and_eq_true] at hp
    have h1 := (roundFilter_iff alts prev a).1 hp.1
    exact inv.only (o.filter q) (List.mem_map.2 ⟨o, ho, rfl⟩) a (List.mem_filter.2 ⟨ha, hp.2⟩) h1.2 h1.1
  · intro x
    constructor
    · intro hx
      rcases lRound_mem_last _ _ _ _ x hx with h' | ⟨v, hv, hl⟩
      · simp [PySet.empty] at h'
      · rw [List.mem_map] at hv
        obtain ⟨o, ho, rfl⟩ := hv
        rw [List.filter_filter] at hl
        exact ⟨o, ho, hl⟩
    · rintro ⟨o, ho, hl⟩
      apply lRound_last_mem alts prev _ PySet.empty (o.filter q) (List.mem_map.2 ⟨o, ho, rfl⟩) x
      rw [List.filter_filter]; exact hl

theorem two_le_length_of_mem {l : List Nat} {a b : Nat} (ha : a ∈ l) (hb : b ∈ l) (hab : a ≠ b) :
    2 ≤ l.length := by
  match l, ha, hb with
  | [], ha, _ => cases ha
  | [c], ha, hb =>
    simp only [List.mem_singleton] at ha hb
    exact absurd (ha.trans hb.symm) hab
  | _ :: _ :: _, _, _ => simp

theorem lLoop_succ (alts : List Nat) (n : Nat) (vc : List (List Nat)) (prev : PySet Nat) :
    lLoop alts (n + 1) vc prev = (lRound alts prev vc PySet.empty).2 ::
      lLoop alts n (lRound alts prev vc PySet.empty).1 (lRound alts prev vc PySet.empty).2 := rfl

theorem lLoop_dropLast (alts : List Nat) (k : Nat) (vc : List (List Nat)) (prev : PySet Nat) :
    (lLoop alts (k + 1) vc prev).dropLast = lLoop alts k vc prev := by
  induction k generalizing vc prev with
  | zero => rfl
  | succ k ih =>
    rw [lLoop_succ alts (k + 1), lLoop_succ alts k vc prev, ← ih]
    rw [lLoop_succ alts k]
    rfl

/-! ### the theorems -/

theorem LState.init {alts : List Nat} {orders : List (List Nat)} (hr : Rankings alts orders) (hne : orders ≠ []) :
    LState alts orders orders PySet.empty alts := by
  refine ⟨⟨hne, ?_, ?_, ?_, hr.1⟩, fun _ => true, ?_⟩
  · intro v hv a ha; exact ((hr.2 v hv).2 a).2 ha
  · intro v hv a ha hal _; exact hal
  · intro a ha; exact ⟨by simp [PySet.empty], ha⟩
  · have : (fun o : List Nat => o.filter (fun _ => true)) = id := by funext o; simp
    rw [this, List.map_id]

/-- the round: `L[i] = (lRound alts prev vc PySet.empty).2` -/
theorem LState.next {alts : List Nat} {orders vc : List (List Nat)} {prev : PySet Nat} {R : List Nat}
    (h : LState alts orders vc prev R) :
    LState alts orders (lRound alts prev vc PySet.empty).1 (lRound alts prev vc PySet.empty).2
      (R.filter (fun i => !(lRound alts prev vc PySet.empty).2.elems.contains i)) := by
  obtain ⟨inv, q, hq⟩ := h
  refine ⟨LInv_next inv, fun a => roundFilter alts prev a && q a, ?_⟩
  rw [lRound_fst, hq, List.map_map]
  apply List.map_congr_left
  intro o _
  simp [List.filter_filter]

/-- a member of `L[i]` is unassigned and ranked last among the unassigned alternatives by some order -/
theorem LState.level_worst {alts : List Nat} {orders vc : List (List Nat)} {prev : PySet Nat} {R : List Nat}
    (hr : Rankings alts orders) (h : LState alts orders vc prev R) (x : Nat)
    (hx : x ∈ (lRound alts prev vc PySet.empty).2.elems) :
    x ∈ R ∧ ∃ o ∈ orders, ∀ a ∈ R, a ≠ x → lt o a x := by
  obtain ⟨p, _, hR, hp, hL⟩ := h.desc
  obtain ⟨o, ho, hl⟩ := (hL x).1 hx
  have hxm := List.mem_filter.1 (List.mem_of_getLast? hl)
  refine ⟨hp o ho x hxm.1 hxm.2, o, ho, ?_⟩
  intro a ha hax
  exact lt_of_getLast_filter hl (hr.2 o ho).1 (hR o ho a ha).1 (hR o ho a ha).2 hax

/-- when the number of rounds left is at least the number of unassigned alternatives -/
theorem LState.next_length {alts : List Nat} {orders vc : List (List Nat)} {prev : PySet Nat} {R : List Nat}
    (h : LState alts orders vc prev R) (n : Nat) (hn : R.length ≤ n + 1) :
    (R.filter (fun i => !(lRound alts prev vc PySet.empty).2.elems.contains i)).length ≤ n := by
  have hl := (level_perm h.inv).length_eq
  rw [List.length_append] at hl
  cases hR : R with
  | nil => simp
  | cons a0 R0 =>
    obtain ⟨p, hne, hRp, _, hL⟩ := h.desc
    have hpos : 0 < (lRound alts prev vc PySet.empty).2.elems.length := by
      apply List.length_pos_iff.2
      obtain ⟨o, ho⟩ := List.exists_mem_of_ne_nil _ hne
      have ha0 : a0 ∈ R := by rw [hR]; simp
      have hin : a0 ∈ o.filter p := List.mem_filter.2 (hRp o ho a0 ha0)
      cases hl' : (o.filter p).getLast? with
      | none =>
        rw [List.getLast?_eq_none_iff] at hl'
        rw [hl'] at hin; cases hin
      | some x => exact List.ne_nil_of_mem ((hL x).2 ⟨o, ho, hl'⟩)
    rw [← hR]
    omega

/-- an unassigned alternative that some order ranks below a member of `L[i]` is in `remaining_alternatives`
(it cannot be alone in the very last set `L[m]`) -/
theorem LState.rem_mem {alts : List Nat} {orders vc : List (List Nat)} {prev : PySet Nat} {R : List Nat}
    (hr : Rankings alts orders) (h : LState alts orders vc prev R) (n : Nat) (hn : R.length ≤ n + 1)
    (x1 x2 : Nat) (hx1 : x1 ∈ (lRound alts prev vc PySet.empty).2.elems) (hx2 : x2 ∈ R)
    (hu : x2 = x1 ∨ ∃ o ∈ orders, lt o x1 x2) :
    x2 ∈ (remainingSet (lLoop alts (n + 1) vc prev)).elems := by
  rw [lLoop_succ]
  by_cases hin : x2 ∈ (lRound alts prev vc PySet.empty).2.elems
  · exact remainingSet_head _ _ _ hin
  have hne : x2 ≠ x1 := fun e => hin (e ▸ hx1)
  rcases hu with e | ⟨u, hu, hlt⟩
  · exact absurd e hne
  obtain ⟨p, _, hRp, hp, hL⟩ := h.desc
  -- the member of `R` ranked last by `u`
  have hx2f : x2 ∈ u.filter p := List.mem_filter.2 (hRp u hu x2 hx2)
  obtain ⟨y, hy⟩ : ∃ y, (u.filter p).getLast? = some y := by
    cases hl' : (u.filter p).getLast? with
    | none =>
      rw [List.getLast?_eq_none_iff] at hl'
      rw [hl'] at hx2f; cases hx2f
    | some y => exact ⟨y, rfl⟩
  have hyL : y ∈ (lRound alts prev vc PySet.empty).2.elems := (hL y).2 ⟨u, hu, hy⟩
  have hyx1 : x1 ≠ y := by
    intro e
    subst e
    have := lt_of_getLast_filter hy (hr.2 u hu).1 (hRp u hu x2 hx2).1 (hRp u hu x2 hx2).2 hne
    unfold lt at this hlt
    omega
  have h2 := two_le_length_of_mem hx1 hyL hyx1
  have hl := (level_perm h.inv).length_eq
  rw [List.length_append] at hl
  have hx2R' : x2 ∈ R.filter (fun i => !(lRound alts prev vc PySet.empty).2.elems.contains i) := by
    rw [List.mem_filter]
    exact ⟨hx2, by simpa using hin⟩
  obtain ⟨k, rfl⟩ : ∃ k, n = k + 1 := ⟨n - 1, by omega⟩
  have hperm := (lLoop_perm alts k _ _ _ (LInv_next h.inv) (by omega)).1
  have hx2' := hperm.mem_iff.2 hx2R'
  rw [List.mem_flatten] at hx2'
  obtain ⟨l, hl1, hl2⟩ := hx2'
  rw [List.mem_map] at hl1
  obtain ⟨t, ht, rfl⟩ := hl1
  apply remainingSet_mem
  right
  refine ⟨t, ?_, hl2⟩
  rw [← lLoop_succ, lLoop_dropLast, lLoop_succ]
  exact List.mem_cons_of_mem _ ht
