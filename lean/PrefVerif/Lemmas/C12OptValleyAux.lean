import PrefVerif.Lemmas.C12OptDefs
import PrefVerif.Lemmas.C12OptPlace
/-!
# C12Opt, part 2 (helpers): no-valley facts around the hole of `Fr.reverse ++ M ++ Sr`
-/
namespace PrefVerif.C12Opt
open PrefVerif PrefVerif.KAlt PrefVerif.C12DP PrefVerif.C03 PrefVerif.C03c

/-- no valley at `(b1, x, b2)` -/
theorem nv_mid {o Fr M Sr : List Nat} {x b1 b2 : Nat} (h : NoValley o (Fr.reverse ++ M ++ Sr))
    (hb1 : Fr.head? = some b1) (hb2 : Sr.head? = some b2) (hx : x ∈ M) :
    ¬ (lt o b1 x ∧ lt o b2 x) := by
  obtain ⟨M1, M2, rfl⟩ := List.append_of_mem hx
  cases Fr with
  | nil => simp at hb1
  | cons f t =>
    cases Sr with
    | nil => simp at hb2
    | cons s u =>
      simp only [List.head?_cons, Option.some.injEq] at hb1 hb2
      subst hb1 hb2
      exact h (t.reverse ++ [f] ++ M1) x (M2 ++ s :: u) f s (by simp) (by simp) (by simp)

/-- no valley at `(b0, b1, c)` -/
theorem nv_left {o Fr R : List Nat} {c b0 b1 : Nat} (h : NoValley o (Fr.reverse ++ R))
    (hb0 : Fr.tail.head? = some b0) (hb1 : Fr.head? = some b1) (hc : c ∈ R) :
    ¬ (lt o b0 b1 ∧ lt o c b1) := by
  cases Fr with
  | nil => simp at hb1
  | cons f t =>
    cases t with
    | nil => simp at hb0
    | cons g t =>
      simp only [List.head?_cons, List.tail_cons, Option.some.injEq] at hb0 hb1
      subst hb0 hb1
      exact h (t.reverse ++ [g]) f R g c (by simp) (by simp) hc

/-- no valley at `(c, b2, b3)` -/
theorem nv_right {o L Sr : List Nat} {c b2 b3 : Nat} (h : NoValley o (L ++ Sr))
    (hb2 : Sr.head? = some b2) (hb3 : Sr.tail.head? = some b3) (hc : c ∈ L) :
    ¬ (lt o b3 b2 ∧ lt o c b2) := by
  cases Sr with
  | nil => simp at hb2
  | cons f t =>
    cases t with
    | nil => simp at hb3
    | cons g t =>
      simp only [List.head?_cons, List.tail_cons, Option.some.injEq] at hb2 hb3
      subst hb2 hb3
      intro hv
      exact h L f (g :: t) c g rfl hc (by simp) ⟨hv.2, hv.1⟩

/-- the early exits do not fire for a member of `M` -/
theorem noExit_mem {orders : List (List Nat)} {Fr M Sr : List Nat} {x : Nat}
    (hV : Valid orders (Fr.reverse ++ M ++ Sr)) (hx : x ∈ M) :
    ∀ v ∈ orders, noExit (bndOf Fr Sr) v x := by
  intro v hv
  apply noExit_of
  · intro b1 b2 h1 h2
    exact nv_mid (hV v hv) h1 h2 hx
  · intro b0 b1 h0 h1
    have h := hV v hv
    rw [List.append_assoc] at h
    exact nv_left h h0 h1 (by simp [hx])
  · intro b2 b3 h2 h3
    exact nv_right (hV v hv) h2 h3 (by simp [hx])

theorem head?_mem_reverse {Fr : List Nat} {b : Nat} (h : Fr.head? = some b) : b ∈ Fr.reverse := by
  cases Fr with
  | nil => simp at h
  | cons f t => simp at h; simp [h]

theorem head?_mem {Sr : List Nat} {b : Nat} (h : Sr.head? = some b) : b ∈ Sr := by
  cases Sr with
  | nil => simp at h
  | cons f t => simp at h; simp [h]

theorem ne_left {A M B : List Nat} {a m : Nat} (hn : (A ++ M ++ B).Nodup) (ha : a ∈ A) (hm : m ∈ M) :
    a ≠ m :=
  (List.nodup_append.1 (List.nodup_append.1 hn).1).2.2 a ha m hm

theorem ne_right {A M B : List Nat} {b m : Nat} (hn : (A ++ M ++ B).Nodup) (hm : m ∈ M) (hb : b ∈ B) :
    m ≠ b :=
  (List.nodup_append.1 hn).2.2 m (by simp [hm]) b hb

theorem nodup_mid {A M B : List Nat} (hn : (A ++ M ++ B).Nodup) : M.Nodup :=
  (List.nodup_append.1 (List.nodup_append.1 hn).1).2.1

/-- `x ∈ M` is ranked above the left neighbour of the hole when the neighbour is not above `x` -/
theorem above_left {o Fr M Sr : List Nat} {x b1 : Nat} (hn : (Fr.reverse ++ M ++ Sr).Nodup)
    (hmem : ∀ a ∈ Fr.reverse ++ M ++ Sr, a ∈ o) (hb1 : Fr.head? = some b1) (hx : x ∈ M)
    (h : ¬ lt o b1 x) : lt o x b1 := by
  have hb := head?_mem_reverse hb1
  exact lt_of_not_lt (hmem b1 (by simp [hb])) (hmem x (by simp [hx])) (ne_left hn hb hx) h

theorem above_right {o Fr M Sr : List Nat} {x b2 : Nat} (hn : (Fr.reverse ++ M ++ Sr).Nodup)
    (hmem : ∀ a ∈ Fr.reverse ++ M ++ Sr, a ∈ o) (hb2 : Sr.head? = some b2) (hx : x ∈ M)
    (h : ¬ lt o b2 x) : lt o x b2 := by
  have hb := head?_mem hb2
  exact lt_of_not_lt (hmem b2 (by simp [hb])) (hmem x (by simp [hx]))
    (fun e => ne_right hn hx hb e.symm) h

/-- the hypotheses of `reflect_block`: the worst member of `M` is above both neighbours of the hole -/
theorem reflect_hyps {o Fr M Sr : List Nat} {x : Nat} (h : NoValley o (Fr.reverse ++ M ++ Sr))
    (hn : (Fr.reverse ++ M ++ Sr).Nodup) (hmem : ∀ a ∈ Fr.reverse ++ M ++ Sr, a ∈ o)
    (hx : x ∈ M) (hw : ∀ m ∈ M, m ≠ x → lt o m x)
    (hl : ∀ b1, Fr.head? = some b1 → lt o x b1) (hr : ∀ b2, Sr.head? = some b2 → lt o x b2) :
    Desc o Fr.reverse ∧ Asc o Sr ∧ (∀ m ∈ M, ∀ z ∈ Fr.reverse, lt o m z) ∧
      (∀ m ∈ M, ∀ z ∈ Sr, lt o m z) := by
  have hall : ∀ m ∈ M, ∀ b, lt o x b → lt o m b := by
    intro m hm b hb
    by_cases e : m = x
    · subst e; exact hb
    · exact lt_trans (hw m hm e) hb
  have hL : Desc o Fr.reverse ∧ (∀ m ∈ M, ∀ z ∈ Fr.reverse, lt o m z) := by
    cases Fr with
    | nil => exact ⟨List.Pairwise.nil, by simp⟩
    | cons b1 t =>
      have hx1 := hl b1 rfl
      rw [List.reverse_cons] at h hn hmem ⊢
      have h' : NoValley o ([] ++ (t.reverse ++ [b1]) ++ (M ++ Sr)) := by simpa using h
      have hn' : (t.reverse ++ [b1]).Nodup := (List.nodup_append.1 (List.nodup_append.1 hn).1).1
      have hMo : ∀ a ∈ t.reverse ++ [b1], a ∈ o := fun a ha =>
        hmem a (List.mem_append_left _ (List.mem_append_left _ ha))
      have hbest : ∀ m ∈ M, ∀ z ∈ t.reverse ++ [b1], lt o m z := fun m hm =>
        last_best h' hn' hMo (by simp [hm]) (hall m hm b1 hx1)
      exact ⟨desc_of_right_above h' hn' hMo (z := x) (by simp [hx]) (hbest x hx), hbest⟩
  have hR : Asc o Sr ∧ (∀ m ∈ M, ∀ z ∈ Sr, lt o m z) := by
    cases Sr with
    | nil => exact ⟨List.Pairwise.nil, by simp⟩
    | cons b2 u =>
      have hx2 := hr b2 rfl
      have h' : NoValley o ((Fr.reverse ++ M) ++ (b2 :: u) ++ []) := by simpa using h
      have hn' : (b2 :: u).Nodup := (List.nodup_append.1 hn).2.1
      have hMo : ∀ a ∈ b2 :: u, a ∈ o := fun a ha => hmem a (List.mem_append_right _ ha)
      have hbest : ∀ m ∈ M, ∀ z ∈ b2 :: u, lt o m z := fun m hm =>
        head_best h' hn' hMo (by simp [hm]) (hall m hm b2 hx2)
      exact ⟨asc_of_left_above h' hn' hMo (z := x) (by simp [hx]) (hbest x hx), hbest⟩
  exact ⟨hL.1, hR.1, hL.2, hR.2⟩

end PrefVerif.C12Opt
