import PrefVerif.Model.EntryPoints
/-!
# C10 — `header_only`

The header loop never touches the ballots / the graph; the ballot (edge) lines never touch the
header and the counts read from it.  Hence `header_only=True` returns the header of the full parse
and the ballots of the starting instance.
-/
namespace PrefVerif.C10
open PrefVerif PrefVerif.Py PrefVerif.InstanceIO PrefVerif.EntryPoints

/-! ## generic: a component that no step changes -/

theorem foldlM_preserve {σ τ ε : Type} (f : σ → Str → Except ε σ) (g : σ → τ)
    (h : ∀ a l b, f a l = .ok b → g b = g a) (ls : List Str) (a b : σ)
    (hf : ls.foldlM f a = .ok b) : g b = g a := by
  induction ls generalizing a with
  | nil => simp only [List.foldlM_nil] at hf; cases hf; rfl
  | cons l ls ih =>
    simp only [List.foldlM_cons] at hf
    cases hs : f a l with
    | error e => rw [hs] at hf; cases hf
    | ok c => rw [hs] at hf; exact (ih c hf).trans (h a l c hs)

theorem headerLoop_preserve {σ τ : Type} (step : σ → Str → Except Err σ) (g : σ → τ)
    (h : ∀ a l b, step a l = .ok b → g b = g a) (ls : List Str) (st st' : σ) (i k : Nat)
    (hl : headerLoop step st ls i = .ok (st', k)) : g st' = g st := by
  induction ls generalizing st i with
  | nil => simp only [headerLoop] at hl; cases hl; rfl
  | cons l ls ih =>
    simp only [headerLoop] at hl
    split at hl
    · cases hs : step st (strip l) with
      | error e => rw [hs] at hl; cases hl
      | ok c => rw [hs] at hl; exact (ih c (i + 1) hl).trans (h st _ c hs)
    · cases hl; rfl

/-! ## ordinal -/

theorem ord_headerStep_ballots (ac : Bool) (a : OrdinalIO.OrdInst) (l : Str) (b : OrdinalIO.OrdInst)
    (h : OrdinalIO.headerStep ac a l = .ok b) :
    (b.orders, b.multiplicity) = (a.orders, a.multiplicity) := by
  simp only [OrdinalIO.headerStep] at h
  split at h
  · cases hn : intField (l.drop 23) with
    | error e => rw [hn] at h; cases h
    | ok n => rw [hn] at h; cases h; rfl
  · cases hn : parseMetadata a.header l ac with
    | error e => rw [hn] at h; cases h
    | ok n => rw [hn] at h; cases h; rfl

theorem ord_ballotLine_header (ac : Bool) (a : OrdinalIO.OrdInst) (l : Str) (b : OrdinalIO.OrdInst)
    (h : OrdinalIO.ballotLine ac a l = .ok b) :
    (b.header, b.numUniqueOrders) = (a.header, a.numUniqueOrders) := by
  simp only [OrdinalIO.ballotLine] at h
  split at h
  · cases h; rfl
  · split at h
    · rename_i m o _
      cases hn : intField m with
      | error e => rw [hn] at h; cases h
      | ok n =>
        rw [hn] at h
        simp only [bind, Except.bind] at h
        split at h <;> (cases h; rfl)
    · cases h

/-! ## categorical -/

/-- the second statement of the categorical header step (the `if … elif … else`) -/
def catRest (ac : Bool) (line : Str) (i : CategoricalIO.CatInst) : Except Err CategoricalIO.CatInst :=
  if startsWith line (s "# NUMBER CATEGORIES") then do
    let n ← intField (line.drop 20); .ok { i with numCategories := n }
  else if startsWith line (s "# CATEGORY NAME") then
    match matchNumbered (s "# CATEGORY NAME ") line with
    | some (c, name) =>
      .ok { i with categoriesName := CategoricalIO.assignCatName i.categoriesName c name ac }
    | none => .ok i
  else do
    let h ← parseMetadata i.header line ac; .ok { i with header := h }

theorem cat_headerStep_eq (ac : Bool) (i : CategoricalIO.CatInst) (line : Str) :
    CategoricalIO.headerStep ac i line =
      (if startsWith line (s "# NUMBER UNIQUE PREFERENCES") then do
          let n ← intField (line.drop 28); pure { i with numUniquePreferences := n }
        else pure i : Except Err CategoricalIO.CatInst) >>= catRest ac line := rfl

theorem catRest_ballots (ac : Bool) (l : Str) (a b : CategoricalIO.CatInst)
    (h : catRest ac l a = .ok b) :
    (b.preferences, b.multiplicity) = (a.preferences, a.multiplicity) := by
  simp only [catRest] at h
  split at h
  · cases hn : intField (l.drop 20) with
    | error e => rw [hn] at h; cases h
    | ok n => rw [hn] at h; cases h; rfl
  · split at h
    · split at h <;> (cases h; rfl)
    · cases hn : parseMetadata a.header l ac with
      | error e => rw [hn] at h; cases h
      | ok n => rw [hn] at h; cases h; rfl

theorem cat_headerStep_ballots (ac : Bool) (a : CategoricalIO.CatInst) (l : Str)
    (b : CategoricalIO.CatInst) (h : CategoricalIO.headerStep ac a l = .ok b) :
    (b.preferences, b.multiplicity) = (a.preferences, a.multiplicity) := by
  rw [cat_headerStep_eq] at h
  split at h
  · cases hn : intField (l.drop 28) with
    | error e => rw [hn] at h; cases h
    | ok n => rw [hn] at h; exact catRest_ballots ac l { a with numUniquePreferences := n } b h
  · exact catRest_ballots ac l a b h

theorem cat_ballotLine_header (ac : Bool) (a : CategoricalIO.CatInst) (l : Str)
    (b : CategoricalIO.CatInst) (h : CategoricalIO.ballotLine ac a l = .ok b) :
    (b.header, b.numUniquePreferences, b.numCategories, b.categoriesName)
      = (a.header, a.numUniquePreferences, a.numCategories, a.categoriesName) := by
  simp only [CategoricalIO.ballotLine] at h
  split at h
  · rename_i m o _
    cases hn : intField m with
    | error e => rw [hn] at h; cases h
    | ok n =>
      rw [hn] at h
      simp only [bind, Except.bind] at h
      split at h <;> (cases h; rfl)
  · cases h

/-! ## matching -/

theorem mat_headerStep_graph {W : Type} (ac : Bool) (a : MatchingIO.MatchInst W) (l : Str)
    (b : MatchingIO.MatchInst W) (h : MatchingIO.headerStep ac a l = .ok b) : b.graph = a.graph := by
  simp only [MatchingIO.headerStep] at h
  split at h
  · cases hn : intField (l.drop 15) with
    | error e => rw [hn] at h; cases h
    | ok n => rw [hn] at h; cases h; rfl
  · cases hn : parseMetadata a.header l ac with
    | error e => rw [hn] at h; cases h
    | ok n => rw [hn] at h; cases h; rfl

theorem mat_edgeLine_header {W : Type} (readW : Str → Option W) (a : MatchingIO.MatchInst W) (l : Str)
    (b : MatchingIO.MatchInst W) (h : MatchingIO.edgeLine readW a l = .ok b) : b.header = a.header := by
  simp only [MatchingIO.edgeLine] at h
  split at h
  · rename_i x y w _
    cases hx : intField x with
    | error e => rw [hx] at h; cases h
    | ok n =>
      cases hy : intField y with
      | error e => rw [hx, hy] at h; cases h
      | ok k =>
        rw [hx, hy] at h
        simp only [bind, Except.bind] at h
        split at h <;> (cases h; try rfl)
  · cases h

end PrefVerif.C10
