import PrefVerif.Lemmas.C07Spec
/-!
# C07 helper lemmas: the whole-profile tables `pairwiseScores` / `copelandScores`
-/
namespace PrefVerif.C07
open PrefVerif PrefVerif.Pairwise PrefVerif.Py PrefVerif.Spec

set_option linter.unusedSimpArgs false

theorem wfOrder_nodup {alts : List Nat} {o : Order} (h : wfOrder alts o = true) :
    o.flatten.Nodup := by
  simp only [wfOrder, Bool.and_eq_true, decide_eq_true_eq] at h
  exact h.2

/-! ### the initial table -/

theorem keys_initTable (alts : List Nat) : AList.keys (initTable alts) = alts := by
  simp [initTable, AList.keys, Function.comp_def]

theorem get?_initTable (alts : List Nat) (a : Nat) (ha : a ∈ alts) :
    AList.get? (initTable alts) a
      = some ((alts.filter (fun b => b != a)).map (fun b => (b, (0 : Int)))) := by
  unfold initTable
  rw [get?_map_mk alts (fun alt => (alts.filter (fun a => a != alt)).map (fun a => (a, (0 : Int))))]
  simp [ha]

theorem rowKeys_initTable (alts : List Nat) (a : Nat) (ha : a ∈ alts) :
    rowKeys (initTable alts) a = some (alts.filter (fun b => b != a)) := by
  simp [rowKeys, get?_initTable alts a ha, AList.keys, Function.comp_def]

theorem look_initTable (alts : List Nat) (a b : Nat) (ha : a ∈ alts) (hb : b ∈ alts)
    (hab : a ≠ b) : look (initTable alts) a b = some 0 := by
  simp only [look, get?_initTable alts a ha, Option.bind_some]
  rw [get?_map_mk (alts.filter (fun b => b != a)) (fun _ => (0 : Int))]
  have : b ≠ a := fun h => hab h.symm
  simp [hb, this]

/-! ### keys of the final tables -/

theorem keys_pairwiseScores (alts : List Nat) (p : Profile) :
    AList.keys (pairwiseScores alts p) = alts := by
  unfold pairwiseScores
  rw [inv_foldl AList.keys p _ (fun t om => keys_pairwiseOrder t om.1 om.2), keys_initTable]

theorem rowKeys_pairwiseScores (alts : List Nat) (p : Profile) (a : Nat) :
    rowKeys (pairwiseScores alts p) a = rowKeys (initTable alts) a := by
  unfold pairwiseScores
  rw [inv_foldl (fun t => rowKeys t a) p _ (fun t om => rowKeys_pairwiseOrder t om.1 om.2 a)]

theorem keys_copelandScores (alts : List Nat) (p : Profile) :
    AList.keys (copelandScores alts p) = alts := by
  unfold copelandScores
  rw [inv_foldl AList.keys p _ (fun t om => keys_copelandOrder t om.1 om.2), keys_initTable]

theorem rowKeys_copelandScores (alts : List Nat) (p : Profile) (a : Nat) :
    rowKeys (copelandScores alts p) a = rowKeys (initTable alts) a := by
  unfold copelandScores
  rw [inv_foldl (fun t => rowKeys t a) p _ (fun t om => rowKeys_copelandOrder t om.1 om.2 a)]

/-! ### entries of the final tables -/

theorem look_pairwiseScores (alts : List Nat) (p : Profile)
    (h : ∀ om ∈ p, wfOrder alts om.1 = true) (a b : Nat) :
    look (pairwiseScores alts p) a b
      = (look (initTable alts) a b).map (· + ((prefCount (votes p) a b : Nat) : Int)) := by
  unfold pairwiseScores
  rw [prefCount_votes,
    look_foldl p _ (fun om => (if above om.1 a b = true then 1 else 0 : Int) * (om.2 : Int)) a b]
  intro t om hom
  rw [look_pairwiseOrder, cnt_eq_above a b om.1 (wfOrder_nodup (h om hom))]
  split <;> simp

theorem sum_map_sub {α : Type} (l : List α) (f g : α → Int) :
    (l.map (fun a => f a - g a)).sum = (l.map f).sum - (l.map g).sum := by
  induction l with
  | nil => simp
  | cons a l ih => simp only [List.map_cons, List.sum_cons, ih]; omega

theorem look_copelandScores (alts : List Nat) (p : Profile)
    (h : ∀ om ∈ p, wfOrder alts om.1 = true) (a b : Nat) :
    look (copelandScores alts p) a b
      = (look (initTable alts) a b).map (· + margin (votes p) a b) := by
  unfold copelandScores margin
  rw [prefCount_votes, prefCount_votes, ← sum_map_sub,
    look_foldl p _ (fun om => (if above om.1 a b = true then 1 else 0 : Int) * (om.2 : Int)
      - (if above om.1 b a = true then 1 else 0 : Int) * (om.2 : Int)) a b]
  intro t om hom
  have hnd := wfOrder_nodup (h om hom)
  rw [look_copelandOrder, cnt_eq_above a b om.1 hnd, cnt_eq_above b a om.1 hnd]
  split <;> split <;> simp

/-! ### a table is determined by its keys, row keys and entries -/

theorem table_eq (t : Table) (alts : List Nat) (val : Nat → Nat → Int) (hnd : alts.Nodup)
    (hk : AList.keys t = alts)
    (hrk : ∀ a ∈ alts, rowKeys t a = some (alts.filter (fun b => b != a)))
    (hl : ∀ a ∈ alts, ∀ b ∈ alts, a ≠ b → look t a b = some (val a b)) :
    t = alts.map (fun a => (a, (alts.filter (fun b => b != a)).map (fun b => (b, val a b)))) := by
  apply eq_map_of_keys_get? t alts _ hk hnd
  intro a ha
  have h1 := hrk a ha
  simp only [rowKeys, Option.map_eq_some_iff] at h1
  obtain ⟨row, hrow, hkeys⟩ := h1
  rw [hrow]
  congr 1
  apply eq_map_of_keys_get? row _ _ hkeys (hnd.filter _)
  intro b hb
  simp only [List.mem_filter, bne_iff_ne, ne_eq] at hb
  have := hl a ha b hb.1 (fun h => hb.2 h.symm)
  simpa [look, hrow] using this

theorem pairwiseScores_eq (alts : List Nat) (p : Profile) (hnd : alts.Nodup)
    (h : ∀ om ∈ p, wfOrder alts om.1 = true) :
    pairwiseScores alts p = alts.map (fun a => (a, (alts.filter (fun b => b != a)).map
      (fun b => (b, ((prefCount (votes p) a b : Nat) : Int))))) := by
  apply table_eq _ alts _ hnd (keys_pairwiseScores alts p)
  · intro a ha
    rw [rowKeys_pairwiseScores, rowKeys_initTable alts a ha]
  · intro a ha b hb hab
    rw [look_pairwiseScores alts p h, look_initTable alts a b ha hb hab]
    simp

theorem copelandScores_eq (alts : List Nat) (p : Profile) (hnd : alts.Nodup)
    (h : ∀ om ∈ p, wfOrder alts om.1 = true) :
    copelandScores alts p = alts.map (fun a => (a, (alts.filter (fun b => b != a)).map
      (fun b => (b, margin (votes p) a b)))) := by
  apply table_eq _ alts _ hnd (keys_copelandScores alts p)
  · intro a ha
    rw [rowKeys_copelandScores, rowKeys_initTable alts a ha]
  · intro a ha b hb hab
    rw [look_copelandScores alts p h, look_initTable alts a b ha hb hab]
    simp

end PrefVerif.C07
