import PrefVerif.Model.Basic
import PrefVerif.Spec.Voting
/-! C06: `argmaxKeys` / `argminKeys` of a score dict return exactly the arg-max / arg-min set -/
namespace PrefVerif.C06
open PrefVerif PrefVerif.Spec

/-- `op` picks, among two values, one that is `R`-above both (`R x y` : "y is at least as good") -/
structure Sel {β : Type} (R : β → β → Prop) (op : β → β → β) : Prop where
  refl : ∀ a, R a a
  trans : ∀ a b c, R a b → R b c → R a c
  antisymm : ∀ a b, R a b → R b a → a = b
  total : ∀ a b, R a b ∨ R b a
  pick : ∀ a b, op a b = a ∨ op a b = b
  left : ∀ a b, R a (op a b)
  right : ∀ a b, R b (op a b)

theorem selInt_max : Sel (fun a b : Int => a ≤ b) max :=
  ⟨by grind, by grind, by grind, by grind, by grind, by grind, by grind⟩
theorem selInt_min : Sel (fun a b : Int => b ≤ a) min :=
  ⟨by grind, by grind, by grind, by grind, by grind, by grind, by grind⟩
theorem selRat_max : Sel (fun a b : Rat => a ≤ b) max where
  refl _ := Rat.le_refl
  trans _ _ _ := Rat.le_trans
  antisymm _ _ := Rat.le_antisymm
  total _ _ := Rat.le_total
  pick a b := by rw [Rat.max_def]; split <;> simp
  left a b := by
    rw [Rat.max_def]; split
    · assumption
    · exact Rat.le_refl
  right a b := by
    rw [Rat.max_def]; split
    · exact Rat.le_refl
    · rcases @Rat.le_total a b with h | h
      · contradiction
      · exact h

theorem foldl_sel {β : Type} {R : β → β → Prop} {op : β → β → β} (S : Sel R op) :
    ∀ (vs : List β) (v : β), (vs.foldl op v ∈ v :: vs) ∧ ∀ x ∈ v :: vs, R x (vs.foldl op v) := by
  intro vs
  induction vs with
  | nil => intro v; simp [S.refl]
  | cons w vs ih =>
    intro v
    obtain ⟨h1, h2⟩ := ih (op v w)
    simp only [List.foldl_cons]
    refine ⟨?_, ?_⟩
    · rcases List.mem_cons.1 h1 with h | h
      · rw [h]; rcases S.pick v w with e | e <;> simp [e]
      · simp [h]
    · intro x hx
      have hb := h2 (op v w) (by simp)
      rcases List.mem_cons.1 hx with rfl | hx
      · exact S.trans _ _ _ (S.left x w) hb
      · rcases List.mem_cons.1 hx with rfl | hx
        · exact S.trans _ _ _ (S.right v x) hb
        · exact h2 x (by simp [hx])

/-- common shape of `argmaxKeys` / `argminKeys` -/
def selKeys {β : Type} [BEq β] (op : β → β → β) (scores : List (Nat × β)) : Option (List Nat) :=
  match scores.map (·.2) with
  | [] => none
  | v :: vs =>
    let best := vs.foldl op v
    some ((scores.filter (fun p => p.2 == best)).map (·.1))

theorem argmaxKeys_eq {β : Type} [Max β] [BEq β] (s : List (Nat × β)) : argmaxKeys s = selKeys max s := rfl
theorem argminKeys_eq {β : Type} [Min β] [BEq β] (s : List (Nat × β)) : argminKeys s = selKeys min s := rfl

/-- Every entry of the dict carries the score of an alternative; an alternative without an
entry is strictly beaten by some entry; the dict is not empty.  Then `selKeys` returns the
set of `R`-best alternatives. -/
theorem selKeys_spec {β : Type} [BEq β] [LawfulBEq β] {R : β → β → Prop} {op : β → β → β}
    (S : Sel R op) (alts : List Nat) (score : Nat → β) (s : List (Nat × β))
    (hent : ∀ p ∈ s, p.1 ∈ alts ∧ p.2 = score p.1)
    (hmiss : ∀ a ∈ alts, (∃ p ∈ s, p.1 = a) ∨ (∃ p ∈ s, ¬ R p.2 (score a)))
    (hne : s ≠ []) :
    ∃ ws, selKeys op s = some ws ∧ ∀ a, a ∈ ws ↔ (a ∈ alts ∧ ∀ b ∈ alts, R (score b) (score a)) := by
  cases hs : s.map (·.2) with
  | nil => simp at hs; exact absurd hs hne
  | cons v vs =>
    obtain ⟨hmem, hbest⟩ := foldl_sel S vs v
    refine ⟨(s.filter (fun p => p.2 == vs.foldl op v)).map (·.1), by simp only [selKeys, hs], ?_⟩
    generalize vs.foldl op v = best at hmem hbest
    rw [← hs] at hmem hbest
    obtain ⟨p0, hp0, hp0b⟩ := List.mem_map.1 hmem
    have hle : ∀ p ∈ s, R p.2 best := fun p hp => hbest _ (List.mem_map.2 ⟨p, hp, rfl⟩)
    have hall : ∀ b ∈ alts, R (score b) best := by
      intro b hb
      rcases hmiss b hb with ⟨p, hp, rfl⟩ | ⟨p, hp, hn⟩
      · rw [← (hent p hp).2]; exact hle p hp
      · rcases S.total p.2 (score b) with h | h
        · exact absurd h hn
        · exact S.trans _ _ _ h (hle p hp)
    intro a
    simp only [List.mem_map, List.mem_filter, beq_iff_eq]
    constructor
    · rintro ⟨p, ⟨hp, hpb⟩, rfl⟩
      refine ⟨(hent p hp).1, fun b hb => ?_⟩
      rw [← (hent p hp).2, hpb]; exact hall b hb
    · rintro ⟨ha, hmax⟩
      rcases hmiss a ha with ⟨p, hp, rfl⟩ | ⟨p, hp, hn⟩
      · refine ⟨p, ⟨hp, ?_⟩, rfl⟩
        apply S.antisymm
        · exact hle p hp
        · rw [← hp0b, (hent p0 hp0).2, (hent p hp).2]
          exact hmax _ (hent p0 hp0).1
      · exfalso; apply hn
        rw [(hent p hp).2]; exact hmax _ (hent p hp).1

end PrefVerif.C06
