import PrefVerif.Spec.Euclid
/-!
# C19x helper lemmas, part 1: the geometry of two voters `u < w` on the line

`p` is (the position of) the alternative nearest to `u`, `q` the one nearest to `w`.
-/
namespace PrefVerif.C19x
open PrefVerif.Spec.Euclid

theorem dist_lt_iff (v a b : Rat) :
    dist v a < dist v b ↔ (a < b ∧ 2 * v < a + b) ∨ (b < a ∧ a + b < 2 * v) := by
  unfold dist; split <;> split <;> constructor <;> intro h <;> grind

theorem dist_le_iff (v a b : Rat) :
    dist v a ≤ dist v b ↔ ¬ ((b < a ∧ 2 * v < a + b) ∨ (a < b ∧ a + b < 2 * v)) := by
  unfold dist; split <;> split <;> constructor <;> intro h <;> grind

/-- a pair preferred in opposite ways by `u < w` has its left member preferred by `u` -/
theorem cross_lt (u w a b : Rat) (huw : u < w) (h1 : dist u a < dist u b) (h2 : dist w b < dist w a) :
    a < b ∧ 2 * u < a + b ∧ a + b < 2 * w := by
  rw [dist_lt_iff] at h1 h2; grind

/-- the nearest alternative of the left voter is left of that of the right voter -/
theorem tops_le (u w p q : Rat) (huw : u < w) (h1 : dist u p ≤ dist u q) (h2 : dist w q ≤ dist w p) :
    p ≤ q := by
  rw [dist_le_iff] at h1 h2; grind

/-- an initially red alternative lies between the two tops -/
theorem red_between (u w p q c : Rat) (huw : u < w)
    (hpc : dist u p ≤ dist u c) (hqc : dist w q ≤ dist w c)
    (h1 : dist u c < dist u q) (h2 : dist w c < dist w p) : p ≤ c ∧ c ≤ q := by
  rw [dist_le_iff] at hpc hqc; rw [dist_lt_iff] at h1 h2; grind

/-- the left member of a crossing pair that is not initially red lies left of the left top -/
theorem green_lt (u w p q a b : Rat) (huw : u < w)
    (h1 : dist u a < dist u b) (h2 : dist w b < dist w a)
    (hn : ¬ (dist u a < dist u q ∧ dist w a < dist w p))
    (hpa : dist u p ≤ dist u a) (hqb : dist w q ≤ dist w b)
    (hta : dist u a < dist u q ∨ dist u q < dist u a ∨ a = q)
    (htp : dist w a < dist w p ∨ dist w p < dist w a) : a < p := by
  rw [dist_le_iff] at hpa hqb; rw [dist_lt_iff] at h1 h2 hn hta htp; rw [dist_lt_iff] at hn hta htp
  grind

/-- the right member of a crossing pair that is not initially red lies right of the right top -/
theorem blue_gt (u w p q a b : Rat) (huw : u < w)
    (h1 : dist u a < dist u b) (h2 : dist w b < dist w a)
    (hn : ¬ (dist u b < dist u q ∧ dist w b < dist w p))
    (hqb : dist w q ≤ dist w b) (hpa : dist u p ≤ dist u a)
    (htb : dist w b < dist w p ∨ dist w p < dist w b ∨ b = p)
    (htq : dist u b < dist u q ∨ dist u q < dist u b) : q < b := by
  rw [dist_le_iff] at hpa hqb; rw [dist_lt_iff] at h1 h2 hn htb htq; rw [dist_lt_iff] at hn htb htq
  grind

/-- the left member of a crossing pair is not right of the right top -/
theorem cross_left_le (u w q a b : Rat) (huw : u < w)
    (h1 : dist u a < dist u b) (h2 : dist w b < dist w a) (hqb : dist w q ≤ dist w b) : ¬ q < a := by
  rw [dist_le_iff] at hqb; rw [dist_lt_iff] at h1 h2; grind

/-- the right member of a crossing pair is not left of the left top -/
theorem cross_right_ge (u w p a b : Rat) (huw : u < w)
    (h1 : dist u a < dist u b) (h2 : dist w b < dist w a) (hpa : dist u p ≤ dist u a) : ¬ b < p := by
  rw [dist_le_iff] at hpa; rw [dist_lt_iff] at h1 h2; grind

/-- right of its top, a voter prefers what is further left -/
theorem right_of_top (u p a b : Rat) (hpa : p ≤ a) (hab : a < b) (hpb : dist u p ≤ dist u b) :
    ¬ dist u b < dist u a := by
  rw [dist_le_iff] at hpb; rw [dist_lt_iff]; grind

/-- left of its top, a voter prefers what is further right -/
theorem left_of_top (w q a b : Rat) (hbq : b ≤ q) (hab : a < b) (hqa : dist w q ≤ dist w a) :
    ¬ dist w a < dist w b := by
  rw [dist_le_iff] at hqa; rw [dist_lt_iff]; grind

/-- a voter strictly left of the midpoint prefers the left alternative, and so does everyone further left -/
theorem closer_mono_left (u v a b : Rat) (huv : u ≤ v) (hab : a < b) (h : dist v a < dist v b) :
    dist u a < dist u b := by
  rw [dist_lt_iff] at *; grind

theorem closer_mono_right (u v a b : Rat) (huv : u ≤ v) (hab : a < b) (h : dist u b < dist u a) :
    dist v b < dist v a := by
  rw [dist_lt_iff] at *; grind

theorem dist_irrefl (v a b : Rat) (h : dist v a < dist v b) : a ≠ b := by
  rw [dist_lt_iff] at h; grind

theorem dist_asymm (v a b : Rat) (h : dist v a < dist v b) : ¬ dist v b < dist v a := by
  rw [dist_lt_iff] at *; grind

end PrefVerif.C19x
