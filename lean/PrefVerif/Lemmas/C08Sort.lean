import PrefVerif.Spec.IOWF
import PrefVerif.Lemmas.IOSort
import PrefVerif.Lemmas.IOAList
/-!
# C08 — the ballot sort key, the normal form `normCat`, and the second write
-/
namespace PrefVerif.C08
open PrefVerif PrefVerif.Py PrefVerif.InstanceIO PrefVerif.CategoricalIO PrefVerif.Spec.IO PrefVerif.IOL

/-- `wfCat` unfolded into propositions -/
theorem wfCat_iff (i : CatInst) : wfCat i = true ↔
    wfHeader i.header = true ∧ i.preferences ≠ [] ∧ i.preferences.Nodup ∧
    AList.keys i.multiplicity = i.preferences ∧
    (AList.keys i.categoriesName).Nodup ∧ (∀ kv ∈ i.categoriesName, cleanText kv.2 = true) ∧
    ∀ b ∈ i.preferences, b ≠ [] := by
  simp [wfCat, and_assoc, AList.values]

theorem keyLe_total (m : AList Ballot Nat) (a b : Ballot) : keyLe m a b = true ∨ keyLe m b a = true := by
  simp only [keyLe, ge_iff_le, gt_iff_lt, Bool.or_eq_true, decide_eq_true_eq, Bool.and_eq_true, beq_iff_eq]
  omega

theorem keyLe_trans (m : AList Ballot Nat) (a b c : Ballot) :
    keyLe m a b = true → keyLe m b c = true → keyLe m a c = true := by
  simp only [keyLe, ge_iff_le, gt_iff_lt, Bool.or_eq_true, decide_eq_true_eq, Bool.and_eq_true, beq_iff_eq]
  omega

/-- earlier ballots have at least the multiplicity of later ones -/
theorem keyLe_mult {m : AList Ballot Nat} {a b : Ballot} (h : keyLe m a b = true) :
    (m.get? a).getD 0 ≥ (m.get? b).getD 0 := by
  simp only [keyLe, ge_iff_le, gt_iff_lt, Bool.or_eq_true, decide_eq_true_eq, Bool.and_eq_true, beq_iff_eq] at h
  omega

/-- the ballots as written -/
abbrev sorted (i : CatInst) : List Ballot := stableSort (keyLe i.multiplicity) i.preferences

theorem sorted_sortedBy (i : CatInst) : SortedBy (keyLe i.multiplicity) (sorted i) :=
  stableSort_sorted (keyLe_total _) (keyLe_trans _) _

theorem normCat_preferences (i : CatInst) : (normCat i).preferences = sorted i := rfl
theorem normCat_header (i : CatInst) : (normCat i).header = i.header := rfl
theorem normCat_numUniquePreferences (i : CatInst) :
    (normCat i).numUniquePreferences = i.numUniquePreferences := rfl
theorem normCat_numCategories (i : CatInst) : (normCat i).numCategories = i.numCategories := rfl
theorem normCat_categoriesName (i : CatInst) : (normCat i).categoriesName = i.categoriesName := rfl
theorem normCat_multiplicity (i : CatInst) :
    (normCat i).multiplicity = (sorted i).map (fun b => (b, (i.multiplicity.get? b).getD 0)) := rfl

theorem normCat_get? (i : CatInst) (h : wfCat i = true) (b : Ballot) :
    (normCat i).multiplicity.get? b = i.multiplicity.get? b := by
  obtain ⟨_, _, _, hk, _⟩ := (wfCat_iff i).1 h
  rw [normCat_multiplicity, get?_map_table]
  by_cases hb : b ∈ i.preferences
  · rw [if_pos ((mem_stableSort _ _ _).2 hb)]
    obtain ⟨v, hv⟩ := get?_isSome_of_mem i.multiplicity b (hk ▸ hb)
    simp [hv]
  · rw [if_neg (fun hm => hb ((mem_stableSort _ _ _).1 hm))]
    exact (get?_eq_none_of_not_mem i.multiplicity b (hk ▸ hb)).symm

theorem normCat_keyLe (i : CatInst) (h : wfCat i = true) (a b : Ballot) :
    keyLe (normCat i).multiplicity a b = keyLe i.multiplicity a b := by
  simp only [keyLe, normCat_get? i h]

theorem wfCat_normCat (i : CatInst) (h : wfCat i = true) : wfCat (normCat i) = true := by
  obtain ⟨hh, hne, hnd, hk, hcn, hcv, hall⟩ := (wfCat_iff i).1 h
  refine (wfCat_iff _).2 ⟨hh, ?_, ?_, ?_, hcn, hcv, ?_⟩
  · rw [normCat_preferences]; exact fun h0 => hne ((stableSort_eq_nil_iff _ _).1 h0)
  · rw [normCat_preferences]; exact (nodup_stableSort _ _).2 hnd
  · rw [normCat_multiplicity, normCat_preferences, keys_map_table]
  · intro b hb; rw [normCat_preferences] at hb; exact hall b ((mem_stableSort _ _ _).1 hb)

/-- the normal form is a fixed point: its ballots are already in written order -/
theorem sorted_normCat (i : CatInst) (h : wfCat i = true) : sorted (normCat i) = sorted i := by
  show stableSort (keyLe (normCat i).multiplicity) (sorted i) = sorted i
  rw [stableSort_congr (normCat_keyLe i h)]
  exact stableSort_idem (keyLe_total _) (keyLe_trans _) _

end PrefVerif.C08
