import PrefVerif.Lemmas.C05PQTop
/-!
The only exception `reorder_sets` can raise is `ValueError("Impossible")`: the `IndexError`s of
`_new_Q([])` / `self._children[-1]`, the `AttributeError` of a method call on a tuple and
`ValueError("Bon, ben ca arrive O_o")` are unreachable, and the model never runs out of fuel.
-/
set_option linter.unusedSimpArgs false
namespace PrefVerif.PQTree
open Tree PrefVerif.KAlt

theorem mapE_error {α β : Type} {f : α → Except Err β} {l : List α} {e : Err} (h : mapE f l = .error e) :
    ∃ pre a post bs, l = pre ++ a :: post ∧ mapE f pre = .ok bs ∧ f a = .error e := by
  induction l with
  | nil => simp [mapE] at h
  | cons a as ih =>
    simp only [mapE] at h
    split at h
    · rename_i e' he'
      simp only [Except.error.injEq] at h
      subst h
      exact ⟨[], a, as, [], rfl, rfl, he'⟩
    · rename_i b hb
      split at h
      · rename_i e' he'
        simp only [Except.error.injEq] at h
        subst h
        obtain ⟨pre, x, post, bs, rfl, h1, h2⟩ := ih he'
        exact ⟨a :: pre, x, post, b :: bs, rfl, by simp [mapE, hb, h1], h2⟩
      · cases h

theorem restructureP_error_kind {v : Nat} {rs : List (Tree × Flag)} {e : Err} (h : restructureP v rs = .error e) :
    e = .impossible := by
  have hsum := select_length_sum rs
  unfold restructureP at h
  simp only [List.length_map] at h
  split at h
  · simp only [Except.error.injEq] at h; exact h.symm
  rename_i h1
  split at h
  · cases h
  rename_i h2
  split at h
  · cases h
  rename_i h3
  split at h
  · cases h
  rename_i h4
  split at h
  · cases h
  rename_i h5
  simp only [gt_iff_lt, ge_iff_le, bne_iff_ne, ne_eq, Bool.or_eq_true, decide_eq_true_eq,
    Bool.and_eq_true, not_or, not_and, Decidable.not_not, beq_iff_eq] at h1 h2 h3 h4 h5
  have hPU : (select .partialUnaligned rs).length = 0 := by
    by_cases hz : (select .partialUnaligned rs).length = 0
    · exact hz
    · have := h1.2 (by omega); omega
  exfalso
  by_cases h6 : (select .partialAligned rs).length < 2
  · simp only [h6, if_true] at h
    by_cases hF : (select .full rs).length > 0
    · simp [hF] at h
    · have hF0 : (select .full rs).length = 0 := by omega
      by_cases hpa : (select .partialAligned rs).length = 1
      · exact h5 hpa (by omega)
      · have : (select .partialAligned rs).length = 0 := by omega
        exact h3 (by omega)
  · simp only [h6, if_false] at h
    cases h

theorem qStep_error {v : Nat} {st : QLoop} {i : Tree} {f : Flag} {e : Err} (h : qStep v st (i, f) = .error e) :
    e = .impossible ∨ f = .partialUnaligned := by
  obtain ⟨nc, sn, sre⟩ := st
  cases f <;> cases sn <;> cases sre <;>
    simp [qStep, Flag.fill, Flag.aligned, EMPTY, PARTIAL, FULL, ALIGNED, UNALIGNED] at h ⊢ <;>
    exact h.symm

theorem qLoop_error {v : Nat} {rs : List (Tree × Flag)} {st : QLoop} {e : Err} (h : qLoop v st rs = .error e) :
    e = .impossible ∨ ∃ r ∈ rs, r.2 = .partialUnaligned := by
  induction rs generalizing st with
  | nil => simp [qLoop] at h
  | cons r rs ih =>
    simp only [qLoop] at h
    split at h
    · rename_i e' he'
      simp only [Except.error.injEq] at h
      subst h
      rcases qStep_error (i := r.1) (f := r.2) he' with h1 | h1
      · exact .inl h1
      · exact .inr ⟨r, List.mem_cons_self, h1⟩
    · rename_i st1 _
      rcases ih h with h1 | ⟨r', hr', h1⟩
      · exact .inl h1
      · exact .inr ⟨r', List.mem_cons_of_mem _ hr', h1⟩

theorem restructureQ_error_kind {v : Nat} {rs : List (Tree × Flag)} {e : Err} (hne : rs ≠ [])
    (h : restructureQ v rs = .error e) : e = .impossible := by
  have hsum := select_length_sum rs
  unfold restructureQ at h
  simp only [] at h
  split at h
  · rename_i hlast
    exact absurd (List.getLast?_eq_none_iff.1 hlast) hne
  rename_i last hlast
  generalize hrs' : (if (last.2 == Flag.empty || last.2 == Flag.partialAligned &&
      (select Flag.full rs).length + 1 == rs.length) = true then rs.reverse else rs) = rs' at h
  have hmem : ∀ r, r ∈ rs' → r ∈ rs := by
    intro r hr; rw [← hrs'] at hr; split at hr
    · simpa using hr
    · exact hr
  split at h
  · simp only [Except.error.injEq] at h; exact h.symm
  rename_i h1
  split at h
  · cases h
  split at h
  · cases h
  split at h
  · cases h
  rename_i h4
  split at h
  · split at h <;> cases h
  simp only [gt_iff_lt, ge_iff_le, bne_iff_ne, ne_eq, Bool.or_eq_true, decide_eq_true_eq,
    Bool.and_eq_true, not_or, not_and, Decidable.not_not, beq_iff_eq] at h1 h4
  have hPU : select .partialUnaligned rs = [] := by
    apply List.eq_nil_of_length_eq_zero
    by_cases hz : (select .partialUnaligned rs).length = 0
    · exact hz
    · have := h1.2 (by omega); omega
  split at h
  · rename_i e' he'
    simp only [Except.error.injEq] at h
    subst h
    rcases qLoop_error he' with h5 | ⟨r, hr, hf⟩
    · exact h5
    · exfalso
      have hm : r.1 ∈ select .partialUnaligned rs := mem_select.2 (by rw [← hf]; exact hmem r hr)
      rw [hPU] at hm; cases hm
  · cases h

/-- `set_contiguous` on a flat tree with enough fuel: the only error is `Impossible` -/
theorem setContiguous_error_kind (v : Nat) : ∀ (fuel : Nat) (t : Tree) (e : Err), Flat t → (frontier t).Nodup →
    (frontier t).length ≤ fuel → setContiguous v fuel t = .error e → e = .impossible := by
  intro fuel
  induction fuel with
  | zero =>
    intro t e hflat _ hlen _
    exact absurd (List.eq_nil_of_length_eq_zero (Nat.le_zero.1 hlen)) (frontier_ne_nil hflat.wf)
  | succ fuel ih =>
    intro t e hflat hnd hlen h
    have hnode : ∀ (cs : List Tree), 2 ≤ cs.length → (∀ c ∈ cs, Flat c) → (frontierList cs).Nodup →
        (frontierList cs).length ≤ fuel + 1 →
        (∀ e', mapE (setContiguous v fuel) cs = .error e' → e' = .impossible) ∧
        (∀ r1 e', mapE (setContiguous v fuel) cs = .ok r1 →
          mapE (setContiguous v fuel) (flattenChildren (r1.map (·.1))) = .error e' → e' = .impossible) ∧
        (∀ r1 rs, mapE (setContiguous v fuel) cs = .ok r1 →
          mapE (setContiguous v fuel) (flattenChildren (r1.map (·.1))) = .ok rs → rs ≠ []) := by
      intro cs h2 hall hndc hlenc
      have hlenchild : ∀ c ∈ cs, (frontier c).length ≤ fuel := by
        intro c hc
        have := length_frontier_child_lt hc h2 (fun d hd => frontier_ne_nil (hall d hd).wf)
        omega
      refine ⟨?_, ?_, ?_⟩
      · intro e' he'
        obtain ⟨pre, a, post, bs, rfl, _, ha⟩ := mapE_error he'
        have hmem : a ∈ pre ++ a :: post := by simp
        exact ih a e' (hall a hmem) (nodup_frontier_of_mem hmem hndc) (hlenchild a hmem) ha
      · intro r1 e' hr1 he'
        have hr1len : 2 ≤ (r1.map (·.1)).length := by
          have := (mapE_ok hr1).length_eq
          simp only [List.length_map]; omega
        rw [flattenChildren_of_two hr1len] at he'
        obtain ⟨pre, a, post, bs, hsplit, _, ha⟩ := mapE_error he'
        have hmem : a ∈ (r1.map (·.1)).map flattenRet := by rw [hsplit]; simp
        simp only [List.map_map, List.mem_map, Function.comp] at hmem
        obtain ⟨b, hb, rfl⟩ := hmem
        obtain ⟨c, hc, hcb⟩ := (mapE_ok hr1).exists_left b hb
        obtain ⟨ok1, perm1⟩ := setContiguous_ok v fuel c b.1 b.2 (hall c hc).wf
          (nodup_frontier_of_mem hc hndc) hcb
        have hfr2 : frontier (flattenRet b.1) = frontier b.1 := frontier_flattenRet b.1
        have hnd2 : (frontier (flattenRet b.1)).Nodup := by
          rw [hfr2]; exact perm1.symm.nodup (nodup_frontier_of_mem hc hndc)
        have hlen2 : (frontier (flattenRet b.1)).length ≤ fuel := by
          rw [hfr2, perm1.length_eq]; exact hlenchild c hc
        exact ih _ e' (flat_flattenRet ok1.wf) hnd2 hlen2 ha
      · intro r1 rs hr1 hrs hnil
        have h3 := (mapE_ok hr1).length_eq
        have h4 := (mapE_ok hrs).length_eq
        rw [hnil, length_flattenChildren, List.length_map] at h4
        simp only [List.length_nil] at h4; omega
    cases t with
    | leaf s => simp [setContiguous] at h
    | p cs =>
      obtain ⟨h2, hall⟩ := (flat_p cs).1 hflat
      simp only [frontier_p] at hnd hlen
      obtain ⟨k1, k2, _⟩ := hnode cs h2 hall hnd hlen
      simp only [setContiguous] at h
      split at h
      · rename_i e' he'
        simp only [Except.error.injEq] at h; subst h
        exact k1 _ he'
      rename_i r1 hr1
      split at h
      · rename_i e' he'
        simp only [Except.error.injEq] at h; subst h
        exact k2 r1 _ hr1 he'
      exact restructureP_error_kind h
    | q cs =>
      obtain ⟨h2, hall⟩ := (flat_q cs).1 hflat
      simp only [frontier_q] at hnd hlen
      obtain ⟨k1, k2, k3⟩ := hnode cs h2 hall hnd hlen
      simp only [setContiguous] at h
      split at h
      · rename_i e' he'
        simp only [Except.error.injEq] at h; subst h
        exact k1 _ he'
      rename_i r1 hr1
      split at h
      · rename_i e' he'
        simp only [Except.error.injEq] at h; subst h
        exact k2 r1 _ hr1 he'
      rename_i rs hrs
      exact restructureQ_error_kind (k3 r1 rs hr1 hrs) h

theorem mainLoop_error_kind {fuel : Nat} {elems : List Nat} {t : Tree} {e : Err} (hflat : Flat t)
    (hnd : (frontier t).Nodup) (hlen : (frontier t).length ≤ fuel) (h2 : 2 ≤ (frontier t).length)
    (h : mainLoop fuel elems t = .error e) : e = .impossible := by
  induction elems generalizing t with
  | nil => simp [mainLoop] at h
  | cons i rest ih =>
    have hpq0 := isPQ_of_two_leaves h2
    have step : ∀ (hstep : (match setContiguous i fuel t with
        | .error e => (Except.error e : Except Err Tree)
        | .ok r => mainLoop fuel rest (flattenRet r.1)) = .error e), e = .impossible := by
      intro hstep
      split at hstep
      · rename_i e' he'
        simp only [Except.error.injEq] at hstep; subst hstep
        exact setContiguous_error_kind i fuel t _ hflat hnd hlen he'
      · rename_i r hr
        obtain ⟨ok1, perm1⟩ := setContiguous_ok i fuel t r.1 r.2 hflat.wf hnd hr
        have hfr := frontier_flattenRet r.1
        exact ih (t := flattenRet r.1) (flat_flattenRet ok1.wf) (by rw [hfr]; exact perm1.symm.nodup hnd)
          (by rw [hfr, perm1.length_eq]; exact hlen) (by rw [hfr, perm1.length_eq]; exact h2) hstep
    cases t with
    | leaf s => simp [isPQ] at hpq0
    | p cs => simp only [mainLoop] at h; exact step h
    | q cs => simp only [mainLoop] at h; exact step h

/-- **the only failure of `reorder_sets` is `ValueError("Impossible")`** — on any input -/
theorem reorderSetsE_error_kind (sets : List (List Nat)) (e : Err) (h : reorderSetsE sets = .error e) :
    e = .impossible := by
  unfold reorderSetsE at h
  split at h
  · cases h
  rename_i hlen
  rw [mkP_leaves] at h
  simp only [] at h
  have hfl : frontierList ((firstOccs sets).map .leaf) = firstOccs sets := frontierList_map_leaf _
  have hfr : frontier (.p ((firstOccs sets).map .leaf)) = firstOccs sets := by simp [hfl]
  split at h
  · simp [ordering] at h
  rename_i hnc
  simp only [numChildren, children, List.length_map] at hnc
  have hflat : Flat (.p ((firstOccs sets).map .leaf)) := by
    rw [flat_p]
    refine ⟨by simp only [List.length_map]; omega, ?_⟩
    intro c hc
    obtain ⟨s, _, rfl⟩ := List.mem_map.1 hc
    simp
  have hnd' : (frontier (.p ((firstOccs sets).map .leaf))).Nodup := by rw [hfr]; exact nodup_firstOccs sets
  have hle := length_firstOccs_le sets
  split at h
  · rename_i e' he'
    simp only [Except.error.injEq] at h; subst h
    exact mainLoop_error_kind hflat hnd' (by rw [hfr]; unfold fuelBound; omega) (by rw [hfr]; omega) he'
  · rename_i t ht
    exfalso
    obtain ⟨_, hperm⟩ := mainLoop_ok hflat.wf hnd' ht
    have : 2 ≤ (frontier t).length := by rw [hperm.length_eq, hfr]; omega
    have := isPQ_of_two_leaves this
    cases t with
    | leaf s => simp [isPQ] at this
    | p cs => simp [ordering] at h
    | q cs => simp [ordering] at h

end PrefVerif.PQTree
